//! C13 — values encode integers faithfully (bytes.rs, data_values.rs array accessors).
//! Streams: native→bytes→array round trip (model + oracle), raw byte decoding, check_type.
use crate::util::*;
use crate::vals::*;
use ciphercore_base::bytes::{vec_u128_from_bytes, vec_u64_from_bytes};
use ciphercore_base::data_types::*;
use ciphercore_base::data_values::Value;

fn native_kinds() -> Vec<(u32, bool)> {
    let mut v = vec![];
    for b in [8u32, 16, 32, 64, 128] {
        v.push((b, false));
        v.push((b, true));
    }
    v
}

/// from_flattened_array through the *native* slice type (so every TryInto/Not instance is hit)
fn from_native(xs: &[Z], bits: u32, signed: bool, st: ScalarType, via64: bool) -> ciphercore_base::errors::Result<Value> {
    macro_rules! go64 {
        ($t:ty) => {{
            let v: Vec<$t> = xs.iter().map(|z| z.as_u128() as $t).collect();
            if via64 {
                Value::from_flattened_array_u64(&v, st)
            } else {
                Value::from_flattened_array(&v, st)
            }
        }};
    }
    match (bits, signed) {
        (8, false) => go64!(u8),
        (8, true) => go64!(i8),
        (16, false) => go64!(u16),
        (16, true) => go64!(i16),
        (32, false) => go64!(u32),
        (32, true) => go64!(i32),
        (64, false) => go64!(u64),
        (64, true) => go64!(i64),
        (128, false) => go64!(u128),
        (128, true) => go64!(i128),
        _ => unreachable!(),
    }
}

pub fn corr(run: &mut Run) {
    run.rule = "stream A: native integer slices (10 native types, boundary-biased values) × 11 scalar types, \
                length 0..20, encoded by Value::from_flattened_array(_u64) and read back by to_flattened_array_u64/u128; \
                stream B: random byte strings decoded by vec_u64/u128_from_bytes; stream C: check_type of byte values \
                against array types. Non-trivial: non-empty input; distinct by request text."
        .to_owned();
    let mut rng = run.rng("A");
    let n_a = run.tier.scale(1500, 20000);
    for _ in 0..n_a {
        let (nb, nsigned) = *rng.pick(&native_kinds());
        let st = *rng.pick(&ALL_ST);
        let n = rng.below(21) as usize;
        let bitlike = st == BIT && rng.chance(4, 5);
        let xs: Vec<Z> = (0..n)
            .map(|_| if bitlike { Z::I(rng.below(2) as i128) } else { gen_native(&mut rng, nb, nsigned) })
            .collect();
        let via64 = rng.chance(1, 3);
        let r = catch(|| from_native(&xs, nb, nsigned, st, via64));
        let req = if via64 {
            format!("tobytes64 {} {} {} {}", st_name(st), nb, nsigned as u8, show_list(&xs))
        } else {
            format!("tobytes {} {}", st_name(st), show_list(&xs))
        };
        run.count(&format!("A:{}:{}", st_name(st), if r.as_ref().map(|r| r.is_ok()).unwrap_or(false) { "ok" } else { "err" }));
        let v = match r {
            Err(p) => {
                run.oracle_fail("C13:panic:from_flattened_array", format!("{} panicked: {}", req, p));
                continue;
            }
            Ok(Err(_)) => {
                run.case(req.clone(), "ERR".into(), n > 0);
                // oracle: rejection is only allowed for BIT with a non-bit element
                let not_bits = st == BIT && xs.iter().any(|z| !matches!(z.norm(), Z::I(0) | Z::I(1)));
                // the u64 constructor documents that it only takes integers that fit in 64 bits
                let too_wide = via64 && nb == 128;
                if !(not_bits || too_wide) {
                    run.oracle_fail("C13:reject:from_flattened_array", format!("{} rejected", req));
                }
                continue;
            }
            Ok(Ok(v)) => v,
        };
        let bytes = bytes_of(&v);
        run.case(req.clone(), show_list(&bytes), n > 0);
        let shape = vec![n as u64];
        let t = array_type(shape.clone(), st);
        // layout oracle
        let want_len = (n as u64 * st_bits(st) as u64 + 7) / 8;
        if bytes.len() as u64 != want_len {
            run.oracle_fail("C13:layout:length", format!("{} gives {} bytes, want {}", req, bytes.len(), want_len));
        }
        if st == BIT && n % 8 != 0 && !bytes.is_empty() && (bytes[bytes.len() - 1] >> (n % 8)) != 0 {
            run.oracle_fail("C13:layout:stray-bits", format!("{} leaves stray bits {:?}", req, bytes));
        }
        if n == 0 {
            // array types must have at least... (shape [0] is not a valid type) — skip read-back
            continue;
        }
        let r128 = catch(|| v.to_flattened_array_u128(t.clone()));
        let r64 = catch(|| v.to_flattened_array_u64(t.clone()));
        match (&r128, &r64) {
            (Ok(r128), Ok(r64)) => {
                run.case(format!("flat128 {} {} {}", st_name(st), show_list(&shape), show_list(&bytes)), show_res(r128), true);
                run.case(format!("flat64 {} {} {}", st_name(st), show_list(&shape), show_list(&bytes)), show_res(r64), true);
                run.oracle_case(&req, true);
                // oracle: same integers modulo 2^w, sign-extended
                match (r128, r64) {
                    (Ok(a), Ok(b)) => {
                        for i in 0..n {
                            let want = xs[i].wrap_to(st);
                            if a[i] != want.as_u128() {
                                run.oracle_fail("C13:roundtrip:u128", format!("{} element {} reads back {} want {}", req, i, a[i], want));
                                break;
                            }
                            if b[i] != want.as_u128() as u64 {
                                run.oracle_fail("C13:roundtrip:u64", format!("{} element {} reads back {} want {} (as u64)", req, i, b[i], want));
                                break;
                            }
                        }
                    }
                    _ => run.oracle_fail("C13:roundtrip:err", format!("{} cannot be read back", req)),
                }
            }
            _ => run.oracle_fail("C13:panic:to_flattened_array", format!("{} read-back panicked", req)),
        }
        // typed accessors
        if st != BIT {
            if let Ok(Ok(a)) = catch(|| v.to_flattened_array_i128(t.clone())) {
                for i in 0..n {
                    if st.is_signed() && Z::I(a[i]) != xs[i].wrap_to(st).norm() {
                        run.oracle_fail("C13:roundtrip:i128", format!("{} element {} as i128 {} want {}", req, i, a[i], xs[i].wrap_to(st)));
                        break;
                    }
                }
            }
        }
    }
    // stream B: raw bytes
    let mut rng = run.rng("B");
    let n_b = run.tier.scale(800, 10000);
    for _ in 0..n_b {
        let st = *rng.pick(&ALL_ST);
        let bl = ((st_bits(st) + 7) / 8) as u64;
        let len = if rng.chance(4, 5) { bl * rng.below(6) } else { rng.below(40) };
        let bytes: Vec<u8> = (0..len)
            .map(|_| match rng.below(4) {
                0 => 0xff,
                1 => 0x80,
                2 => 0,
                _ => rng.next() as u8,
            })
            .collect();
        let r1 = catch(|| vec_u128_from_bytes(&bytes, st));
        let r2 = catch(|| vec_u64_from_bytes(&bytes, st));
        match (r1, r2) {
            (Ok(a), Ok(b)) => {
                run.count(&format!("B:{}:{}", st_name(st), if a.is_ok() { "ok" } else { "err" }));
                run.case(format!("frombytes128 {} {}", st_name(st), show_list(&bytes)), show_res(&a), len > 0);
                run.case(format!("frombytes64 {} {}", st_name(st), show_list(&bytes)), show_res(&b), len > 0);
            }
            _ => run.oracle_fail("C13:panic:from_bytes", format!("vec_from_bytes {} {:?} panicked", st_name(st), bytes)),
        }
    }
    // stream C: check_type
    let mut rng = run.rng("C");
    let n_c = run.tier.scale(500, 5000);
    for _ in 0..n_c {
        let st = *rng.pick(&ALL_ST);
        let shape = gen_shape(&mut rng, 3, 6, 60);
        let n: u64 = shape.iter().product();
        let exact = (n * st_bits(st) as u64 + 7) / 8;
        let len = match rng.below(4) {
            0 => exact,
            1 => exact + 1,
            2 => exact.saturating_sub(1),
            _ => rng.below(2 * exact + 2),
        };
        let v = Value::from_bytes(vec![0xa5; len as usize]);
        match catch(|| v.check_type(array_type(shape.clone(), st))) {
            Ok(Ok(b)) => {
                run.count(&format!("C:{}", b));
                run.case(format!("check {} {} {}", st_name(st), show_list(&shape), len), (if b { "1" } else { "0" }).into(), true);
                if b != (len == exact) {
                    run.oracle_fail("C13:check_type", format!("check_type len {} for {}{:?} says {}", len, st_name(st), shape, b));
                }
            }
            _ => run.oracle_fail("C13:panic:check_type", format!("check_type {} {:?} {}", st_name(st), shape, len)),
        }
    }
}
