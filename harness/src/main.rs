#![allow(dead_code)]
//! `ccv`: harness that drives the real ciphercore code for the Lean correspondence checks.
//!   ccv corr <Cid> --seed N --tier quick|thorough|search --out DIR
//!   ccv gen  <Cid> --seed N --tier T --out DIR        (exports for generated Lean obligations)
mod util;
mod vals;
mod c13;
mod c20;
mod c19;
mod c09;
mod c18;
mod c17;
mod c06;
mod c11;
mod c15;
mod c08;
mod c12;
mod c07;
mod c07_fresh;
mod c10;
mod c05;
mod c14;
mod c16;
mod mpc_common;
mod families;
mod c01;
mod c02;
mod c04;
mod c03;

use util::{Run, Tier};

fn main() {
    let args: Vec<String> = std::env::args().collect();
    if args.len() < 3 {
        eprintln!("usage: ccv corr|gen <Cid> [--seed N] [--tier T] [--out DIR]");
        std::process::exit(2);
    }
    let mode = args[1].clone();
    let prop = args[2].clone();
    let mut seed = 1u64;
    let mut tier = Tier::Quick;
    let mut out = format!("/verif/.build/run/{}", prop);
    let mut i = 3;
    while i < args.len() {
        match args[i].as_str() {
            "--seed" => {
                seed = args[i + 1].parse().expect("seed");
                i += 2;
            }
            "--tier" => {
                tier = match args[i + 1].as_str() {
                    "quick" => Tier::Quick,
                    "thorough" => Tier::Thorough,
                    "search" => Tier::Search,
                    t => panic!("unknown tier {}", t),
                };
                i += 2;
            }
            "--out" => {
                out = args[i + 1].clone();
                i += 2;
            }
            a => panic!("unknown argument {}", a),
        }
    }
    // panics inside the implementation are caught per case; keep the default hook quiet
    std::panic::set_hook(Box::new(|i| {
        if std::env::var("VERIF_DEBUG_PANICS").is_ok() {
            eprintln!("panic: {}", i);
        }
    }));
    let mut run = Run::new(&prop, seed, tier);
    if mode == "corr" {
        run.set_live_dir(&out);
    }
    match (mode.as_str(), prop.as_str()) {
        ("corr", "C13") => c13::corr(&mut run),
        ("corr", "C20") => c20::corr(&mut run),
        ("corr", "C19") => c19::corr(&mut run),
        ("corr", "C09") => c09::corr(&mut run),
        ("corr", "C18") => c18::corr(&mut run),
        ("corr", "C17") => c17::corr(&mut run),
        ("corr", "C06") => c06::corr(&mut run),
        ("corr", "C11") => c11::corr(&mut run),
        ("corr", "C15") => c15::corr(&mut run),
        ("corr", "C08") => c08::corr(&mut run),
        ("corr", "C12") => c12::corr(&mut run),
        ("corr", "C07") => c07::corr(&mut run),
        ("corr", "C10") => c10::corr(&mut run),
        ("corr", "C05") => c05::corr(&mut run),
        ("corr", "C14") => c14::corr(&mut run),
        ("corr", "C16") => c16::corr(&mut run),
        ("corr", "C01") => c01::corr(&mut run),
        ("corr", "C02") => c02::corr(&mut run),
        ("corr", "C04") => c04::corr(&mut run),
        ("corr", "C03") => c03::corr(&mut run),
        ("gen", "C04") => {
            c04::gen(&mut run, &out);
            return;
        }
        ("gen", "C03") => {
            c03::gen(&mut run, &out);
            return;
        }
        ("gen", "C01") => {
            c01::gen(&mut run, &out);
            return;
        }
        ("gen", "C02") => {
            c02::gen(&mut run, &out);
            return;
        }
        _ => {
            eprintln!("no {} for {}", mode, prop);
            std::process::exit(2);
        }
    }
    run.finish(&out).expect("write outputs");
}
