//! C10 — primitive operations follow their documented NumPy-style modular semantics.
//!
//! One-operation graphs are evaluated by `SimpleEvaluator` and compared
//!  (a) with the executable Lean model `CCV.Ops` (exact, line protocol of `Drv/C10.lean`), and
//!  (b) with a native reference interpreter written from the documentation (`mod refint`: nested
//!      multi-index loops over `u128` residues with wrapping arithmetic; no flat-index tricks shared
//!      with the evaluator).
//! Elements are exchanged as stored residues `r < 2^w`.
use crate::util::*;
use crate::vals::*;
use ciphercore_base::broadcast::{index_to_number, number_to_index};
use ciphercore_base::bytes::{
    add_vectors_u128, add_vectors_u64, dot_vectors_u128, dot_vectors_u64, multiply_vectors_u128,
    multiply_vectors_u64, subtract_vectors_u128, subtract_vectors_u64, sum_vector_u64,
};
use ciphercore_base::data_types::*;
use ciphercore_base::data_values::Value;
use ciphercore_base::errors::Result;
use ciphercore_base::evaluators::random_evaluate;
use ciphercore_base::graphs::{util::simple_context, Graph, Node, SliceElement};
use ciphercore_base::slices::get_clean_slice;

fn mask(x: u128, w: u32) -> u128 {
    if w >= 128 {
        x
    } else {
        x & ((1u128 << w) - 1)
    }
}

// ------------------------------------------------------------------------------------------------
// reference interpreter (the property's oracle)
// ------------------------------------------------------------------------------------------------
mod refint {
    use super::mask;

    pub fn numel(shape: &[usize]) -> usize {
        shape.iter().product()
    }

    /// all multi-indices of a shape in row-major order (odometer)
    pub fn indices(shape: &[usize]) -> Vec<Vec<usize>> {
        let mut out = vec![];
        if shape.iter().any(|d| *d == 0) {
            return out;
        }
        let mut cur = vec![0usize; shape.len()];
        loop {
            out.push(cur.clone());
            let mut k = shape.len();
            loop {
                if k == 0 {
                    return out;
                }
                k -= 1;
                cur[k] += 1;
                if cur[k] < shape[k] {
                    break;
                }
                cur[k] = 0;
            }
        }
    }

    /// element at a multi-index (row-major strides)
    pub fn at(data: &[u128], shape: &[usize], idx: &[usize]) -> u128 {
        assert_eq!(shape.len(), idx.len());
        let mut pos = 0usize;
        let mut stride = 1usize;
        for k in (0..shape.len()).rev() {
            assert!(idx[k] < shape[k]);
            pos += idx[k] * stride;
            stride *= shape[k];
        }
        data[pos]
    }

    /// NumPy broadcast of two shapes
    pub fn bc_shape(a: &[usize], b: &[usize]) -> Option<Vec<usize>> {
        let n = a.len().max(b.len());
        let mut out = vec![0; n];
        for k in 0..n {
            let da = if k < a.len() { a[a.len() - 1 - k] } else { 1 };
            let db = if k < b.len() { b[b.len() - 1 - k] } else { 1 };
            out[n - 1 - k] = if da == db {
                da
            } else if da == 1 {
                db
            } else if db == 1 {
                da
            } else {
                return None;
            };
        }
        Some(out)
    }

    /// index into an operand of shape `s` for result index `idx`
    pub fn bc_index(s: &[usize], idx: &[usize]) -> Vec<usize> {
        let off = idx.len() - s.len();
        (0..s.len()).map(|k| if s[k] == 1 { 0 } else { idx[off + k] }).collect()
    }

    pub fn broadcast_to(data: &[u128], s: &[usize], to: &[usize]) -> Vec<u128> {
        indices(to).iter().map(|i| at(data, s, &bc_index(s, i))).collect()
    }

    #[derive(Clone, Copy, PartialEq, Debug)]
    pub enum Bin {
        Add,
        Sub,
        Mul,
    }

    pub fn scalar_op(op: Bin, a: u128, b: u128, w: u32) -> u128 {
        mask(
            match op {
                Bin::Add => a.wrapping_add(b),
                Bin::Sub => a.wrapping_sub(b),
                Bin::Mul => a.wrapping_mul(b),
            },
            w,
        )
    }

    pub fn binary(op: Bin, w: u32, sa: &[usize], a: &[u128], sb: &[usize], b: &[u128]) -> Option<(Vec<usize>, Vec<u128>)> {
        let sr = bc_shape(sa, sb)?;
        let data = indices(&sr)
            .iter()
            .map(|i| scalar_op(op, at(a, sa, &bc_index(sa, i)), at(b, sb, &bc_index(sb, i)), w))
            .collect();
        Some((sr, data))
    }

    /// numpy.matmul (1-d operands promoted, promoted axes removed again; empty shape = scalar)
    pub fn matmul(w: u32, sa: &[usize], a: &[u128], sb: &[usize], b: &[u128]) -> Option<(Vec<usize>, Vec<u128>)> {
        let pa: Vec<usize> = if sa.len() == 1 { vec![1, sa[0]] } else { sa.to_vec() };
        let pb: Vec<usize> = if sb.len() == 1 { vec![sb[0], 1] } else { sb.to_vec() };
        let (la, lb) = (pa.len(), pb.len());
        let (n, k, k2, m) = (pa[la - 2], pa[la - 1], pb[lb - 2], pb[lb - 1]);
        if k != k2 {
            return None;
        }
        let batch = bc_shape(&pa[..la - 2], &pb[..lb - 2])?;
        let mut data = vec![];
        for bi in indices(&batch) {
            let ia = bc_index(&pa[..la - 2], &bi);
            let ib = bc_index(&pb[..lb - 2], &bi);
            for i in 0..n {
                for j in 0..m {
                    let mut acc = 0u128;
                    for kk in 0..k {
                        let mut xa = ia.clone();
                        xa.push(i);
                        xa.push(kk);
                        let mut xb = ib.clone();
                        xb.push(kk);
                        xb.push(j);
                        acc = acc.wrapping_add(at(a, &pa, &xa).wrapping_mul(at(b, &pb, &xb)));
                    }
                    data.push(mask(acc, w));
                }
            }
        }
        let mut shape = batch;
        if sa.len() != 1 {
            shape.push(n);
        }
        if sb.len() != 1 {
            shape.push(m);
        }
        Some((shape, data))
    }

    /// numpy.dot for arrays
    pub fn dot(w: u32, sa: &[usize], a: &[u128], sb: &[usize], b: &[u128]) -> Option<(Vec<usize>, Vec<u128>)> {
        let k = sa[sa.len() - 1];
        let a0 = &sa[..sa.len() - 1];
        if sb.len() == 1 {
            if sb[0] != k {
                return None;
            }
            let mut data = vec![];
            for i0 in indices(a0) {
                let mut acc = 0u128;
                for kk in 0..k {
                    let mut xa = i0.clone();
                    xa.push(kk);
                    acc = acc.wrapping_add(at(a, sa, &xa).wrapping_mul(b[kk]));
                }
                data.push(mask(acc, w));
            }
            return Some((a0.to_vec(), data));
        }
        if sb[sb.len() - 2] != k {
            return None;
        }
        let b0 = &sb[..sb.len() - 2];
        let m = sb[sb.len() - 1];
        let mut data = vec![];
        for i0 in indices(a0) {
            for j0 in indices(b0) {
                for mm in 0..m {
                    let mut acc = 0u128;
                    for kk in 0..k {
                        let mut xa = i0.clone();
                        xa.push(kk);
                        let mut xb = j0.clone();
                        xb.push(kk);
                        xb.push(mm);
                        acc = acc.wrapping_add(at(a, sa, &xa).wrapping_mul(at(b, sb, &xb)));
                    }
                    data.push(mask(acc, w));
                }
            }
        }
        let mut shape = a0.to_vec();
        shape.extend_from_slice(b0);
        shape.push(m);
        Some((shape, data))
    }

    /// swap the last two axes
    pub fn transpose_last(s: &[usize], d: &[u128]) -> (Vec<usize>, Vec<u128>) {
        let n = s.len();
        let mut perm: Vec<usize> = (0..n).collect();
        perm.swap(n - 1, n - 2);
        permute(s, d, &perm)
    }

    /// numpy.transpose(a, perm): out.shape[k] = shape[perm[k]], out[J] = a[I] with I[perm[k]] = J[k]
    pub fn permute(s: &[usize], d: &[u128], perm: &[usize]) -> (Vec<usize>, Vec<u128>) {
        let os: Vec<usize> = perm.iter().map(|p| s[*p]).collect();
        let data = indices(&os)
            .iter()
            .map(|j| {
                let mut i = vec![0; s.len()];
                for (k, p) in perm.iter().enumerate() {
                    i[*p] = j[k];
                }
                at(d, s, &i)
            })
            .collect();
        (os, data)
    }

    pub fn sum(w: u32, s: &[usize], d: &[u128], axes: &[usize]) -> (Vec<usize>, Vec<u128>) {
        let kept: Vec<usize> = (0..s.len()).filter(|k| !axes.contains(k)).collect();
        let os: Vec<usize> = kept.iter().map(|k| s[*k]).collect();
        let data = indices(&os)
            .iter()
            .map(|j| {
                let mut acc = 0u128;
                for i in indices(s) {
                    if kept.iter().enumerate().all(|(p, k)| i[*k] == j[p]) {
                        acc = acc.wrapping_add(at(d, s, &i));
                    }
                }
                mask(acc, w)
            })
            .collect();
        (os, data)
    }

    pub fn cumsum(w: u32, s: &[usize], d: &[u128], axis: usize) -> Vec<u128> {
        indices(s)
            .iter()
            .map(|i| {
                let mut acc = 0u128;
                for k in 0..=i[axis] {
                    let mut x = i.clone();
                    x[axis] = k;
                    acc = acc.wrapping_add(at(d, s, &x));
                }
                mask(acc, w)
            })
            .collect()
    }

    pub fn get(s: &[usize], d: &[u128], sub: &[usize]) -> (Vec<usize>, Vec<u128>) {
        let os = s[sub.len()..].to_vec();
        let data = indices(&os)
            .iter()
            .map(|j| {
                let mut x = sub.to_vec();
                x.extend_from_slice(j);
                at(d, s, &x)
            })
            .collect();
        (os, data)
    }

    #[derive(Clone, Debug)]
    pub enum Sl {
        Single(i64),
        Sub(Option<i64>, Option<i64>, Option<i64>),
        Ellipsis,
    }

    /// positions selected by Python's `range(*slice(b, e, s).indices(dim))`
    pub fn py_range(dim: usize, b: Option<i64>, e: Option<i64>, s: Option<i64>) -> Vec<usize> {
        let dim = dim as i128;
        let step = s.unwrap_or(1) as i128;
        assert!(step != 0);
        let (lower, upper) = if step < 0 { (-1i128, dim - 1) } else { (0i128, dim) };
        let clamp = |x: Option<i64>, dflt: i128| -> i128 {
            match x {
                None => dflt,
                Some(x) => {
                    let mut x = x as i128;
                    if x < 0 {
                        x += dim;
                        if x < lower {
                            x = lower;
                        }
                    } else if x > upper {
                        x = upper;
                    }
                    x
                }
            }
        };
        let start = clamp(b, if step < 0 { upper } else { lower });
        let stop = clamp(e, if step < 0 { lower } else { upper });
        let mut out = vec![];
        let mut cur = start;
        while (step > 0 && cur < stop) || (step < 0 && cur > stop) {
            out.push(cur as usize);
            cur += step;
        }
        out
    }

    /// NumPy basic slicing; `None` when NumPy itself raises (index out of bounds, two ellipses, too long)
    pub fn get_slice(s: &[usize], d: &[u128], sl: &[Sl]) -> Option<(Vec<usize>, Vec<u128>)> {
        let n_ell = sl.iter().filter(|x| matches!(x, Sl::Ellipsis)).count();
        if n_ell > 1 || sl.len() - n_ell > s.len() {
            return None;
        }
        let mut full: Vec<Sl> = vec![];
        for x in sl {
            if let Sl::Ellipsis = x {
                for _ in 0..(s.len() - (sl.len() - 1)) {
                    full.push(Sl::Sub(None, None, None));
                }
            } else {
                full.push(x.clone());
            }
        }
        while full.len() < s.len() {
            full.push(Sl::Sub(None, None, None));
        }
        // per axis: selected positions, and whether the axis is kept
        let mut sel: Vec<(Vec<usize>, bool)> = vec![];
        for (k, x) in full.iter().enumerate() {
            match x {
                Sl::Single(i) => {
                    let i = if *i < 0 { *i as i128 + s[k] as i128 } else { *i as i128 };
                    if i < 0 || i >= s[k] as i128 {
                        return None;
                    }
                    sel.push((vec![i as usize], false));
                }
                Sl::Sub(b, e, st) => sel.push((py_range(s[k], *b, *e, *st), true)),
                Sl::Ellipsis => unreachable!(),
            }
        }
        let os: Vec<usize> = sel.iter().filter(|x| x.1).map(|x| x.0.len()).collect();
        let counts: Vec<usize> = sel.iter().map(|x| x.0.len()).collect();
        let data = indices(&counts).iter().map(|j| {
            let x: Vec<usize> = j.iter().enumerate().map(|(k, p)| sel[k].0[*p]).collect();
            at(d, s, &x)
        }).collect();
        Some((os, data))
    }

    /// stack: all inputs broadcast to a common inner shape, arranged by the outer shape
    pub fn stack(inputs: &[(Vec<usize>, Vec<u128>)]) -> Option<(Vec<usize>, Vec<u128>)> {
        let mut inner = inputs[0].0.clone();
        for (s, _) in inputs.iter().skip(1) {
            inner = bc_shape(&inner, s)?;
        }
        let mut data = vec![];
        for (s, d) in inputs {
            data.extend(broadcast_to(d, s, &inner));
        }
        Some((inner, data))
    }

    pub fn concatenate(inputs: &[(Vec<usize>, Vec<u128>)], axis: usize) -> (Vec<usize>, Vec<u128>) {
        let mut os = inputs[0].0.clone();
        os[axis] = inputs.iter().map(|x| x.0[axis]).sum();
        let data = indices(&os)
            .iter()
            .map(|j| {
                let mut p = j[axis];
                for (s, d) in inputs {
                    if p < s[axis] {
                        let mut x = j.clone();
                        x[axis] = p;
                        return at(d, s, &x);
                    }
                    p -= s[axis];
                }
                unreachable!()
            })
            .collect();
        (os, data)
    }

    /// numpy.take(a, indices, axis); `None` = index out of range
    pub fn gather(s: &[usize], d: &[u128], ishape: &[usize], idx: &[u128], axis: usize) -> Option<(Vec<usize>, Vec<u128>)> {
        if idx.iter().any(|x| *x >= s[axis] as u128) {
            return None;
        }
        let mut os = s[..axis].to_vec();
        os.extend_from_slice(ishape);
        os.extend_from_slice(&s[axis + 1..]);
        let mut data = vec![];
        for p in indices(&s[..axis]) {
            for q in indices(ishape) {
                for r in indices(&s[axis + 1..]) {
                    let mut x = p.clone();
                    x.push(at(idx, ishape, &q) as usize);
                    x.extend_from_slice(&r);
                    data.push(at(d, s, &x));
                }
            }
        }
        Some((os, data))
    }

    /// truncate: divide the denoted integer by `scale` rounding toward zero
    pub fn truncate(w: u32, signed: bool, scale: u128, d: &[u128]) -> Vec<u128> {
        d.iter()
            .map(|r| {
                if !signed {
                    return mask(*r / scale, w);
                }
                // denoted integer as i128
                let v: i128 = if w == 128 {
                    *r as i128
                } else if (*r >> (w - 1)) & 1 == 1 {
                    *r as i128 - (1i128 << w)
                } else {
                    *r as i128
                };
                let q = v / (scale as i128);
                mask(q as u128, w)
            })
            .collect()
    }

    pub fn a2b(w: u32, d: &[u128]) -> Vec<u128> {
        d.iter().flat_map(|x| (0..w).map(move |k| (x >> k) & 1)).collect()
    }

    pub fn b2a(w: u32, bits: &[u128]) -> Vec<u128> {
        bits.chunks(w as usize)
            .map(|c| c.iter().enumerate().fold(0u128, |acc, (k, b)| acc | (b << k)))
            .collect()
    }

    /// `None` unless `p` is a permutation of 0..n
    pub fn inverse_permutation(p: &[u128]) -> Option<Vec<u128>> {
        let n = p.len();
        let mut out = vec![u128::MAX; n];
        for (i, v) in p.iter().enumerate() {
            if *v >= n as u128 || out[*v as usize] != u128::MAX {
                return None;
            }
            out[*v as usize] = i as u128;
        }
        Some(out)
    }
}

use refint::{Bin, Sl};

// ------------------------------------------------------------------------------------------------
// plumbing
// ------------------------------------------------------------------------------------------------

/// an operand: array (`scalar = false`) or scalar (`dims = [1]`) of residues
#[derive(Clone, Debug)]
struct Opd {
    st: ScalarType,
    dims: Vec<u64>,
    scalar: bool,
    data: Vec<u128>,
}

impl Opd {
    fn ty(&self) -> Type {
        if self.scalar {
            scalar_type(self.st)
        } else {
            array_type(self.dims.clone(), self.st)
        }
    }
    fn value(&self) -> Value {
        Value::from_flattened_array(&self.data, self.st).expect("operand value")
    }
    fn ushape(&self) -> Vec<usize> {
        self.dims.iter().map(|d| *d as usize).collect()
    }
    fn big(&self) -> bool {
        self.data.iter().any(|x| *x >> 64 != 0)
    }
}

fn gen_data(rng: &mut Rng, n: usize, st: ScalarType) -> Vec<u128> {
    (0..n).map(|_| gen_elem(rng, st).residue(st_bits(st))).collect()
}

fn gen_opd(rng: &mut Rng, dims: &[u64], scalar: bool, st: ScalarType) -> Opd {
    let n: u64 = dims.iter().product();
    Opd { st, dims: dims.to_vec(), scalar, data: gen_data(rng, n as usize, st) }
}

fn to_us(v: &[u64]) -> Vec<usize> {
    v.iter().map(|d| *d as usize).collect()
}
fn to_u64s(v: &[usize]) -> Vec<u64> {
    v.iter().map(|d| *d as u64).collect()
}

enum Outcome {
    Panic(String),
    Rejected,
    EvalErr,
    Done(Type, Value),
}

/// build `inputs → op → output` with `simple_context`, evaluate with `SimpleEvaluator`
fn eval_op(inputs: &[(Type, Value)], build: &dyn Fn(&Graph, &[Node]) -> Result<Node>) -> Outcome {
    let built = catch(|| {
        simple_context(|g| {
            let mut nodes = vec![];
            for (t, _) in inputs {
                nodes.push(g.input(t.clone())?);
            }
            build(g, &nodes)
        })
    });
    let c = match built {
        Err(p) => return Outcome::Panic(format!("build: {}", p)),
        Ok(Err(_)) => return Outcome::Rejected,
        Ok(Ok(c)) => c,
    };
    let r = catch(|| -> Result<(Type, Value)> {
        let g = c.get_main_graph()?;
        let t = g.get_output_node()?.get_type()?;
        let v = random_evaluate(g, inputs.iter().map(|x| x.1.clone()).collect())?;
        Ok((t, v))
    });
    match r {
        Err(p) => Outcome::Panic(format!("evaluate: {}", p)),
        Ok(Err(_)) => Outcome::EvalErr,
        Ok(Ok((t, v))) => Outcome::Done(t, v),
    }
}

/// dimensions (`[1]` for scalars) and residues of a scalar/array result
fn read_result(t: &Type, v: &Value) -> Option<(Vec<u64>, Vec<u128>, bool)> {
    if !v.check_type(t.clone()).ok()? {
        return None;
    }
    match t {
        Type::Scalar(st) => Some((vec![1], vec![mask(v.to_u128(*st).ok()?, st_bits(*st))], true)),
        Type::Array(s, st) => {
            let d = v.to_flattened_array_u128(t.clone()).ok()?;
            Some((s.clone(), d.into_iter().map(|x| mask(x, st_bits(*st))).collect(), false))
        }
        _ => None,
    }
}

struct Expect {
    /// `None` = a run-time error is expected
    data: Option<Vec<u128>>,
    /// expected dimensions (`[1]` for a scalar); `None` = not checked
    dims: Option<Vec<u64>>,
}

/// compare implementation / oracle, emit the model case.  `trunc` = the 64-bit truncation of
/// structural operations (repaired in 5b3fa60) could be involved: 128-bit scalar type and an element
/// ≥ 2^64; a mismatch then gets the signature `C10:u64-truncation:<Op>`.
fn settle(run: &mut Run, op: &str, req_of: &dyn Fn(&[u64]) -> String, out: Outcome, exp: Expect, trunc: bool, nontrivial: bool) {
    run.count(&format!("op:{}", op));
    let (imp, dims): (String, Vec<u64>) = match out {
        Outcome::Panic(p) => {
            run.oracle_case(&req_of(&[]), nontrivial);
            run.oracle_fail(&format!("C10:panic:{}", op), format!("{} panicked: {}", req_of(&[]), p));
            return;
        }
        Outcome::Rejected => {
            run.count(&format!("rejected:{}", op));
            run.oracle_case(&req_of(&[]), nontrivial);
            run.oracle_fail(&format!("C10:unexpected-reject:{}", op), format!("{} rejected by the builder", req_of(&[])));
            return;
        }
        Outcome::EvalErr => ("ERR".to_owned(), exp.dims.clone().unwrap_or_default()),
        Outcome::Done(t, v) => match read_result(&t, &v) {
            None => {
                run.oracle_case(&req_of(&[]), nontrivial);
                run.oracle_fail(&format!("C10:result-type:{}", op), format!("{} result does not have the node type", req_of(&[])));
                return;
            }
            Some((dims, data, _)) => (show_list(&data), dims),
        },
    };
    let req = req_of(&dims);
    run.oracle_case(&req, nontrivial);
    if let Some(ed) = &exp.dims {
        if imp != "ERR" && *ed != dims {
            run.oracle_fail(&format!("C10:shape:{}", op), format!("{} result dims {:?}, documented {:?}", req, dims, ed));
        }
    }
    let want = match &exp.data {
        None => "ERR".to_owned(),
        Some(d) => show_list(d),
    };
    if imp != want {
        if trunc {
            // signature of the defect repaired in 5b3fa60 (structural ops read 128-bit elements via u64)
            known_truncation(run, op, format!("{} => impl {} documented {}", req, trunc_s(&imp), trunc_s(&want)));
        } else {
            run.oracle_fail(&format!("C10:oracle:{}", op), format!("{} => impl {} documented {}", req, trunc_s(&imp), trunc_s(&want)));
        }
    }
    if imp == "ERR" {
        run.count(&format!("err:{}", op));
    }
    run.case(req, imp, nontrivial);
}

thread_local! {
    static TRUNC_SEEN: std::cell::RefCell<std::collections::BTreeMap<String, u64>> = std::cell::RefCell::new(Default::default());
}

/// 64-bit truncation of a structural operation: every occurrence is counted, the first few per
/// operation are recorded as oracle failures (the failure log of a run is bounded)
fn known_truncation(run: &mut Run, op: &str, detail: String) {
    run.count(&format!("u64-truncation:{}", op));
    let n = TRUNC_SEEN.with(|m| {
        let mut m = m.borrow_mut();
        let e = m.entry(op.to_owned()).or_insert(0);
        *e += 1;
        *e
    });
    if n <= 3 {
        run.oracle_fail(&format!("C10:u64-truncation:{}", op), detail);
    }
}

fn trunc_s(s: &str) -> String {
    trunc(s, 400)
}

fn is128(st: ScalarType) -> bool {
    st_bits(st) == 128
}

fn pick_st(rng: &mut Rng) -> ScalarType {
    *rng.pick(&ALL_ST)
}

fn pick_int_st(rng: &mut Rng) -> ScalarType {
    *rng.pick(&ALL_ST[1..])
}

/// (result shape, operand shape 1, operand shape 2) with size-1 / missing leading axes
fn gen_bc_shapes(rng: &mut Rng, max_rank: usize, max_elems: u64) -> (Vec<u64>, Vec<u64>) {
    let sr = gen_shape(rng, max_rank, 4, max_elems);
    let mut mk = |rng: &mut Rng| -> Vec<u64> {
        let keep = 1 + rng.below(sr.len() as u64) as usize;
        let keep = if rng.chance(1, 2) { sr.len() } else { keep };
        sr[sr.len() - keep..].iter().map(|d| if rng.chance(1, 3) { 1 } else { *d }).collect()
    };
    let a = mk(rng);
    let b = mk(rng);
    (a, b)
}

fn show_slice(sl: &[Sl]) -> String {
    if sl.is_empty() {
        return "_".to_owned();
    }
    let o = |x: &Option<i64>| x.map(|v| v.to_string()).unwrap_or_else(|| "n".to_owned());
    sl.iter()
        .map(|x| match x {
            Sl::Single(i) => format!("i{}", i),
            Sl::Sub(b, e, s) => format!("a{}:{}:{}", o(b), o(e), o(s)),
            Sl::Ellipsis => "e".to_owned(),
        })
        .collect::<Vec<_>>()
        .join(";")
}

fn to_slice(sl: &[Sl]) -> Vec<SliceElement> {
    sl.iter()
        .map(|x| match x {
            Sl::Single(i) => SliceElement::SingleIndex(*i),
            Sl::Sub(b, e, s) => SliceElement::SubArray(*b, *e, *s),
            Sl::Ellipsis => SliceElement::Ellipsis,
        })
        .collect()
}

/// a slice element for an axis of size `d` that the builder accepts (non-empty, in range), written in
/// a random one of its equivalent spellings (negative indices, omitted bounds, over-long stop)
fn gen_sub(rng: &mut Rng, d: i64) -> Sl {
    let step: i64 = match rng.below(8) {
        0 | 1 | 2 => 1,
        3 => 2,
        4 => -1,
        5 => -2,
        6 => 3,
        _ => -(1 + rng.below(4) as i64) * if rng.chance(1, 4) { 1 << 20 } else { 1 },
    };
    let a = rng.range(0, d - 1); // first element
    let max_c = if step > 0 { (d - 1 - a) / step + 1 } else { a / (-step) + 1 };
    let c = rng.range(1, max_c);
    let last = a + (c - 1) * step;
    // exclusive end: anything in (last, last + step] resp. [last + step, last)
    let e = if step > 0 { rng.range(last + 1, last + step.min(8)) } else { rng.range(last + step.max(-8), last - 1) };
    let b_opt = if (step > 0 && a == 0 || step < 0 && a == d - 1) && rng.chance(1, 2) {
        None
    } else if rng.chance(1, 3) {
        Some(a - d)
    } else {
        Some(a)
    };
    let e_opt = if step > 0 {
        if e >= d && rng.chance(2, 3) {
            None
        } else if e < d && rng.chance(1, 3) && e - d < 0 {
            Some(e - d)
        } else {
            Some(e)
        }
    } else if e < 0 {
        // only `None` can say "run to the start" for a negative step (a negative stop counts from the end)
        None
    } else if rng.chance(1, 3) {
        Some(e - d)
    } else {
        Some(e)
    };
    // when the stop was replaced by None the count may grow: that is fine, the oracle recomputes
    let s_opt = if step == 1 && rng.chance(1, 2) { None } else { Some(step) };
    Sl::Sub(b_opt, e_opt, s_opt)
}

fn gen_slice(rng: &mut Rng, shape: &[u64]) -> Vec<Sl> {
    let rank = shape.len();
    let n = rng.below(rank as u64 + 1) as usize; // number of explicit elements
    let ell_at = if rng.chance(1, 3) { Some(rng.below(n as u64 + 1) as usize) } else { None };
    // axes addressed: the first `pre` and the last `n - pre` when an ellipsis is present
    let mut out = vec![];
    for k in 0..n {
        if ell_at == Some(k) {
            out.push(Sl::Ellipsis);
        }
        let axis = match ell_at {
            Some(p) if k >= p => rank - (n - k),
            _ => k,
        };
        let d = shape[axis] as i64;
        if rng.chance(1, 4) {
            let i = rng.range(0, d - 1);
            out.push(Sl::Single(if rng.chance(1, 2) { i - d } else { i }));
        } else {
            out.push(gen_sub(rng, d));
        }
    }
    if ell_at == Some(n) {
        out.push(Sl::Ellipsis);
    }
    out
}

// ------------------------------------------------------------------------------------------------
// streams
// ------------------------------------------------------------------------------------------------

fn stream_index(run: &mut Run) {
    let mut rng = run.rng("index");
    for _ in 0..run.tier.scale(1500, 12000) {
        let shape = gen_shape(&mut rng, 4, 5, 120);
        let n: u64 = shape.iter().product();
        let num = rng.below(n);
        let idx = match catch(|| number_to_index(num, &shape)) {
            Ok(i) => i,
            Err(p) => {
                run.oracle_fail("C10:panic:number_to_index", format!("{} {:?}: {}", num, shape, p));
                continue;
            }
        };
        run.case(format!("n2i {} {}", num, show_list(&shape)), show_list(&idx), true);
        // oracle: digits in range and Σ idx_k · stride_k = num
        run.oracle_case(&format!("n2i {} {:?}", num, shape), true);
        let mut pos = 0u64;
        let mut stride = 1u64;
        let mut ok = idx.len() == shape.len();
        if ok {
            for k in (0..shape.len()).rev() {
                ok &= idx[k] < shape[k];
                pos += idx[k] * stride;
                stride *= shape[k];
            }
        }
        if !ok || pos != num {
            run.oracle_fail("C10:oracle:number_to_index", format!("number_to_index({}, {:?}) = {:?}", num, shape, idx));
        }
        // index_to_number on in-range and out-of-range digits (the `% d` broadcast trick)
        let idx2: Vec<u64> = shape.iter().map(|d| if rng.chance(1, 4) { rng.below(3 * d) } else { rng.below(*d) }).collect();
        match catch(|| index_to_number(&idx2, &shape)) {
            Ok(r) => {
                run.case(format!("i2n {} {}", show_list(&idx2), show_list(&shape)), r.to_string(), true);
                let mut pos = 0u64;
                let mut stride = 1u64;
                for k in (0..shape.len()).rev() {
                    pos += (idx2[k] % shape[k]) * stride;
                    stride *= shape[k];
                }
                run.oracle_case(&format!("i2n {:?} {:?}", idx2, shape), true);
                if pos != r {
                    run.oracle_fail("C10:oracle:index_to_number", format!("index_to_number({:?}, {:?}) = {}", idx2, shape, r));
                }
            }
            Err(p) => run.oracle_fail("C10:panic:index_to_number", format!("{:?} {:?}: {}", idx2, shape, p)),
        }
    }
}

fn stream_kernels(run: &mut Run) {
    let mut rng = run.rng("kernels");
    for _ in 0..run.tier.scale(1500, 12000) {
        let n = 1 + rng.below(4) as usize;
        // ---- u64 kernels, arbitrary modulus
        let m: Option<u64> = match rng.below(5) {
            0 => None,
            1 => Some(1u64 << rng.range(1, 63)),
            2 => Some(1 + rng.below(20)),
            3 => Some(u64::MAX - rng.below(3)),
            _ => Some(1 + rng.next() % (u64::MAX - 1)),
        };
        let xs: Vec<u64> = (0..n).map(|_| gen_native(&mut rng, 64, false).as_u128() as u64).collect();
        let ys: Vec<u64> = (0..n).map(|_| if rng.chance(1, 6) { m.unwrap_or(7).wrapping_mul(rng.below(3)) } else { gen_native(&mut rng, 64, false).as_u128() as u64 }).collect();
        let ms = m.map(|v| v.to_string()).unwrap_or_else(|| "n".to_owned());
        let md: u128 = m.map(|v| v as u128).unwrap_or(1u128 << 64);
        for (name, f, o) in [
            ("add", add_vectors_u64 as fn(&[u64], &[u64], Option<u64>) -> Result<Vec<u64>>, Bin::Add),
            ("sub", subtract_vectors_u64, Bin::Sub),
            ("mul", multiply_vectors_u64, Bin::Mul),
        ] {
            let req = format!("k64 {} {} {} {}", name, ms, show_list(&xs), show_list(&ys));
            run.count(&format!("op:k64-{}", name));
            match catch(|| f(&xs, &ys, m)) {
                Err(p) => run.oracle_fail(&format!("C10:panic:k64-{}", name), format!("{}: {}", req, p)),
                Ok(r) => {
                    run.oracle_case(&req, true);
                    if let Ok(v) = &r {
                        // integers: (x op y) mod m
                        let want: Vec<u64> = xs.iter().zip(ys.iter()).map(|(x, y)| {
                            let (x, y) = (*x as u128, *y as u128);
                            (match o {
                                Bin::Add => (x + y) % md,
                                Bin::Mul => (x * y) % md,
                                Bin::Sub => ((x % md) + md - (y % md)) % md,
                            }) as u64
                        }).collect();
                        if *v != want {
                            run.oracle_fail(&format!("C10:oracle:k64-{}", name), format!("{} => {:?}, integers mod m give {:?}", req, v, want));
                        }
                    }
                    run.case(req, show_res(&r), true);
                }
            }
        }
        {
            let req = format!("k64 dot {} {} {}", ms, show_list(&xs), show_list(&ys));
            run.count("op:k64-dot");
            match catch(|| dot_vectors_u64(&xs, &ys, m)) {
                Err(p) => run.oracle_fail("C10:panic:k64-dot", format!("{}: {}", req, p)),
                Ok(r) => {
                    run.oracle_case(&req, true);
                    let mut acc = 0u128;
                    for (x, y) in xs.iter().zip(ys.iter()) {
                        acc = (acc + (*x as u128 % md) * (*y as u128 % md) % md) % md;
                    }
                    if r.as_ref().ok().map(|v| *v as u128) != Some(acc) {
                        run.oracle_fail("C10:oracle:k64-dot", format!("{} => {:?}, integers mod m give {}", req, r.as_ref().ok(), acc));
                    }
                    run.case(req, r.map(|v| v.to_string()).unwrap_or_else(|_| "ERR".into()), true);
                }
            }
            let req = format!("k64 sum {} {}", ms, show_list(&xs));
            match catch(|| sum_vector_u64(&xs, m)) {
                Err(p) => run.oracle_fail("C10:panic:k64-sum", format!("{}: {}", req, p)),
                Ok(r) => {
                    run.oracle_case(&req, true);
                    let acc = xs.iter().fold(0u128, |a, x| (a + *x as u128) % md);
                    if r as u128 != acc {
                        run.oracle_fail("C10:oracle:k64-sum", format!("{} => {}, integers mod m give {}", req, r, acc));
                    }
                    run.case(req, r.to_string(), true);
                }
            }
        }
        // ---- u128 kernels, modulus 2^k or none (wrapping path)
        let k = rng.range(1, 127) as u32;
        let m: Option<u128> = if rng.chance(1, 3) { None } else { Some(1u128 << k) };
        let w = if m.is_some() { k } else { 128 };
        let xs: Vec<u128> = (0..n).map(|_| gen_native(&mut rng, 128, false).as_u128()).collect();
        let ys: Vec<u128> = (0..n).map(|_| gen_native(&mut rng, 128, false).as_u128()).collect();
        let ms = m.map(|v| v.to_string()).unwrap_or_else(|| "n".to_owned());
        for (name, f, o) in [
            ("add", add_vectors_u128 as fn(&[u128], &[u128], Option<u128>) -> Result<Vec<u128>>, Bin::Add),
            ("sub", subtract_vectors_u128, Bin::Sub),
            ("mul", multiply_vectors_u128, Bin::Mul),
        ] {
            let req = format!("k128 {} {} {} {}", name, ms, show_list(&xs), show_list(&ys));
            run.count(&format!("op:k128-{}", name));
            match catch(|| f(&xs, &ys, m)) {
                Err(p) => run.oracle_fail(&format!("C10:panic:k128-{}", name), format!("{}: {}", req, p)),
                Ok(r) => {
                    run.oracle_case(&req, true);
                    let want: Vec<u128> = xs.iter().zip(ys.iter()).map(|(x, y)| refint::scalar_op(o, *x, *y, w)).collect();
                    if r.as_ref().ok() != Some(&want) {
                        run.oracle_fail(&format!("C10:oracle:k128-{}", name), format!("{} => {:?}, want {:?}", req, r.as_ref().ok(), want));
                    }
                    run.case(req, show_res(&r), true);
                }
            }
        }
        let req = format!("k128 dot {} {} {}", ms, show_list(&xs), show_list(&ys));
        match catch(|| dot_vectors_u128(&xs, &ys, m)) {
            Err(p) => run.oracle_fail("C10:panic:k128-dot", format!("{}: {}", req, p)),
            Ok(r) => {
                run.oracle_case(&req, true);
                let acc = xs.iter().zip(ys.iter()).fold(0u128, |a, (x, y)| a.wrapping_add(x.wrapping_mul(*y)));
                if r.as_ref().ok() != Some(&mask(acc, w)) {
                    run.oracle_fail("C10:oracle:k128-dot", format!("{} => {:?}, want {}", req, r.as_ref().ok(), mask(acc, w)));
                }
                run.case(req, r.map(|v| v.to_string()).unwrap_or_else(|_| "ERR".into()), true);
            }
        }
        // length mismatch is an error in the code and in the model
        if rng.chance(1, 20) {
            let req = format!("k128 add {} {} {}", ms, show_list(&xs), show_list(&ys[1..]));
            if let Ok(r) = catch(|| add_vectors_u128(&xs, &ys[1..], m)) {
                run.case(req, show_res(&r), true);
            }
        }
    }
}

fn stream_arith(run: &mut Run) {
    let mut rng = run.rng("arith");
    for _ in 0..run.tier.scale(4000, 30000) {
        let st = pick_st(&mut rng);
        let w = st_bits(st);
        let (s1, s2) = gen_bc_shapes(&mut rng, 4, 48);
        let sc1 = rng.chance(1, 8);
        let sc2 = rng.chance(1, 8);
        let a = gen_opd(&mut rng, if sc1 { &[1] } else { &s1 }, sc1, st);
        let mut b = gen_opd(&mut rng, if sc2 { &[1] } else { &s2 }, sc2, st);
        if rng.chance(1, 6) && a.data.len() == b.data.len() {
            b.data = a.data.clone(); // x - x, and subtraction of equal residues (v % m == 0 differences)
        }
        if rng.chance(1, 6) {
            for x in b.data.iter_mut() {
                if rng.chance(1, 2) {
                    *x = 0;
                }
            }
        }
        let (name, o) = *rng.pick(&[("add", Bin::Add), ("sub", Bin::Sub), ("mul", Bin::Mul)]);
        let exp = refint::binary(o, w, &a.ushape(), &a.data, &b.ushape(), &b.data);
        let exp = match exp {
            Some(e) => e,
            None => continue, // not broadcastable: rejected by the builder (C09's concern)
        };
        let out = eval_op(&[(a.ty(), a.value()), (b.ty(), b.value())], &|g, n| match o {
            Bin::Add => g.add(n[0].clone(), n[1].clone()),
            Bin::Sub => g.subtract(n[0].clone(), n[1].clone()),
            Bin::Mul => g.multiply(n[0].clone(), n[1].clone()),
        });
        run.count(&format!("st:{}", st_name(st)));
        if a.dims.contains(&1) || b.dims.contains(&1) || a.dims.len() != b.dims.len() {
            run.count("arith:broadcasting");
        }
        let (a2, b2) = (a.clone(), b.clone());
        settle(
            run,
            name,
            &move |sr: &[u64]| format!("{} {} {} {} {} {} {}", name, st_name(st), show_list(&a2.dims), show_list(&a2.data), show_list(&b2.dims), show_list(&b2.data), show_list(sr)),
            out,
            Expect { data: Some(exp.1), dims: Some(to_u64s(&exp.0)) },
            false,
            true,
        );
    }
    // mixed multiply
    let mut rng = run.rng("mixmul");
    for _ in 0..run.tier.scale(1000, 8000) {
        let st = pick_int_st(&mut rng);
        let (s1, s2) = gen_bc_shapes(&mut rng, 4, 48);
        let sc1 = rng.chance(1, 8);
        let sc2 = rng.chance(1, 8);
        let a = gen_opd(&mut rng, if sc1 { &[1] } else { &s1 }, sc1, st);
        let b = gen_opd(&mut rng, if sc2 { &[1] } else { &s2 }, sc2, BIT);
        let exp = match refint::binary(Bin::Mul, st_bits(st), &a.ushape(), &a.data, &b.ushape(), &b.data) {
            Some(e) => e,
            None => continue,
        };
        // documented: a scalar first operand with an array of bits gives the bit array's shape
        let out = eval_op(&[(a.ty(), a.value()), (b.ty(), b.value())], &|g, n| g.mixed_multiply(n[0].clone(), n[1].clone()));
        let (a2, b2) = (a.clone(), b.clone());
        settle(
            run,
            "mixmul",
            &move |sr: &[u64]| format!("mixmul {} {} {} {} {} {}", st_name(st), show_list(&a2.dims), show_list(&a2.data), show_list(&b2.dims), show_list(&b2.data), show_list(sr)),
            out,
            Expect { data: Some(exp.1), dims: Some(to_u64s(&exp.0)) },
            false,
            true,
        );
    }
}

fn dims_or_scalar(s: &[usize]) -> Vec<u64> {
    if s.is_empty() {
        vec![1]
    } else {
        to_u64s(s)
    }
}

fn stream_matmul(run: &mut Run) {
    let mut rng = run.rng("matmul");
    for _ in 0..run.tier.scale(3000, 24000) {
        let st = pick_st(&mut rng);
        let w = st_bits(st);
        let d = |rng: &mut Rng| 1 + rng.below(3);
        let (n, k, m) = (d(&mut rng), d(&mut rng), d(&mut rng));
        match rng.below(3) {
            0 => {
                // matmul: ranks 1..4, broadcast batch dims
                let batch = if rng.chance(1, 3) { vec![] } else { gen_shape(&mut rng, 2, 3, 6) };
                let mk = |rng: &mut Rng, tail: &[u64]| -> Vec<u64> {
                    let keep = rng.below(batch.len() as u64 + 1) as usize;
                    let mut s: Vec<u64> = batch[batch.len() - keep..].iter().map(|d| if rng.chance(1, 3) { 1 } else { *d }).collect();
                    s.extend_from_slice(tail);
                    s
                };
                let s0 = if rng.chance(1, 6) { vec![k] } else { mk(&mut rng, &[n, k]) };
                let s1 = if rng.chance(1, 6) { vec![k] } else { mk(&mut rng, &[k, m]) };
                let a = gen_opd(&mut rng, &s0, false, st);
                let b = gen_opd(&mut rng, &s1, false, st);
                let exp = match refint::matmul(w, &a.ushape(), &a.data, &b.ushape(), &b.data) {
                    Some(e) => e,
                    None => continue,
                };
                let out = eval_op(&[(a.ty(), a.value()), (b.ty(), b.value())], &|g, nn| g.matmul(nn[0].clone(), nn[1].clone()));
                let (a2, b2) = (a.clone(), b.clone());
                settle(
                    run,
                    "matmul",
                    &move |sr: &[u64]| format!("matmul {} {} {} {} {} {}", st_name(st), show_list(&a2.dims), show_list(&a2.data), show_list(&b2.dims), show_list(&b2.data), show_list(sr)),
                    out,
                    Expect { data: Some(exp.1), dims: Some(dims_or_scalar(&exp.0)) },
                    false,
                    true,
                );
            }
            1 => {
                // dot: N-d × 1-d, N-d × M-d, 1-d × 1-d
                let a0 = if rng.chance(1, 4) { vec![] } else { gen_shape(&mut rng, 2, 3, 6) };
                let mut s0 = a0.clone();
                s0.push(k);
                let s1 = match rng.below(3) {
                    0 => vec![k],
                    1 => vec![k, m],
                    _ => {
                        let mut s = gen_shape(&mut rng, 2, 3, 4);
                        s.push(k);
                        s.push(m);
                        s
                    }
                };
                let a = gen_opd(&mut rng, &s0, false, st);
                let b = gen_opd(&mut rng, &s1, false, st);
                let exp = match refint::dot(w, &a.ushape(), &a.data, &b.ushape(), &b.data) {
                    Some(e) => e,
                    None => continue,
                };
                let out = eval_op(&[(a.ty(), a.value()), (b.ty(), b.value())], &|g, nn| g.dot(nn[0].clone(), nn[1].clone()));
                let (a2, b2) = (a.clone(), b.clone());
                settle(
                    run,
                    "dot",
                    &move |sr: &[u64]| format!("dot {} {} {} {} {} {}", st_name(st), show_list(&a2.dims), show_list(&a2.data), show_list(&b2.dims), show_list(&b2.data), show_list(sr)),
                    out,
                    Expect { data: Some(exp.1), dims: Some(dims_or_scalar(&exp.0)) },
                    false,
                    true,
                );
            }
            _ => {
                // gemm with transposition flags, broadcast batch dims (including batch dim 1)
                let (t0, t1) = (rng.chance(1, 2), rng.chance(1, 2));
                let batch = if rng.chance(1, 3) { vec![] } else { gen_shape(&mut rng, 2, 3, 6) };
                let mk = |rng: &mut Rng, tail: &[u64]| -> Vec<u64> {
                    let keep = rng.below(batch.len() as u64 + 1) as usize;
                    let mut s: Vec<u64> = batch[batch.len() - keep..].iter().map(|d| if rng.chance(1, 3) { 1 } else { *d }).collect();
                    s.extend_from_slice(tail);
                    s
                };
                let s0 = mk(&mut rng, &if t0 { [k, n] } else { [n, k] });
                let s1 = mk(&mut rng, &if t1 { [m, k] } else { [k, m] });
                let a = gen_opd(&mut rng, &s0, false, st);
                let b = gen_opd(&mut rng, &s1, false, st);
                let (sa, da) = if t0 { refint::transpose_last(&a.ushape(), &a.data) } else { (a.ushape(), a.data.clone()) };
                let (sb, db) = if t1 { refint::transpose_last(&b.ushape(), &b.data) } else { (b.ushape(), b.data.clone()) };
                let exp = match refint::matmul(w, &sa, &da, &sb, &db) {
                    Some(e) => e,
                    None => continue,
                };
                let out = eval_op(&[(a.ty(), a.value()), (b.ty(), b.value())], &|g, nn| g.gemm(nn[0].clone(), nn[1].clone(), t0, t1));
                let (a2, b2) = (a.clone(), b.clone());
                run.count(&format!("gemm:flags:{}{}", t0 as u8, t1 as u8));
                settle(
                    run,
                    "gemm",
                    &move |sr: &[u64]| format!("gemm {} {} {} {} {} {} {} {}", st_name(st), t0 as u8, t1 as u8, show_list(&a2.dims), show_list(&a2.data), show_list(&b2.dims), show_list(&b2.data), show_list(sr)),
                    out,
                    Expect { data: Some(exp.1), dims: Some(to_u64s(&exp.0)) },
                    false,
                    true,
                );
            }
        }
    }
}

fn stream_reduce(run: &mut Run) {
    let mut rng = run.rng("reduce");
    for _ in 0..run.tier.scale(2500, 20000) {
        let st = pick_st(&mut rng);
        let w = st_bits(st);
        let shape = gen_shape(&mut rng, 4, 4, 48);
        let a = gen_opd(&mut rng, &shape, false, st);
        let rank = shape.len();
        match rng.below(3) {
            0 => {
                let mut axes: Vec<u64> = (0..rank as u64).filter(|_| rng.chance(1, 2)).collect();
                rng.shuffle(&mut axes);
                let ax_us = to_us(&axes);
                let exp = refint::sum(w, &a.ushape(), &a.data, &ax_us);
                let axes2 = axes.clone();
                let out = eval_op(&[(a.ty(), a.value())], &|g, nn| g.sum(nn[0].clone(), axes2.clone()));
                let scalar = axes.len() == rank;
                let a2 = a.clone();
                settle(
                    run,
                    "sum",
                    &move |sr: &[u64]| format!("sum {} {} {} {} {}", st_name(st), show_list(&a2.dims), show_list(&a2.data), show_list(&axes), if scalar { "s".to_owned() } else { show_list(sr) }),
                    out,
                    Expect { data: Some(exp.1), dims: Some(dims_or_scalar(&exp.0)) },
                    false,
                    true,
                );
            }
            1 => {
                let axis = rng.below(rank as u64);
                let exp = refint::cumsum(w, &a.ushape(), &a.data, axis as usize);
                let out = eval_op(&[(a.ty(), a.value())], &|g, nn| g.cum_sum(nn[0].clone(), axis));
                let a2 = a.clone();
                run.count(if axis as usize == rank - 1 { "cumsum:last-axis" } else { "cumsum:inner-axis" });
                settle(
                    run,
                    "cumsum",
                    &move |_sr: &[u64]| format!("cumsum {} {} {} {}", st_name(st), show_list(&a2.dims), show_list(&a2.data), axis),
                    out,
                    Expect { data: Some(exp), dims: Some(a.dims.clone()) },
                    false,
                    true,
                );
            }
            _ => {
                // plaintext truncate
                let signed = st.is_signed();
                let scale: u128 = match rng.below(5) {
                    0 => 1,
                    1 => 1u128 << rng.below(w.min(127) as u64),
                    2 => 1 + rng.below(10) as u128,
                    3 => gen_native(&mut rng, 128, false).as_u128() >> 1,
                    _ => 1 + (rng.next() as u128 % (1u128 << w.min(64))),
                };
                let scale = scale.max(1);
                if signed && scale > i128::MAX as u128 {
                    continue;
                }
                let sc = rng.chance(1, 6);
                let a = if sc { gen_opd(&mut rng, &[1], true, st) } else { a };
                let exp = refint::truncate(w, signed, scale, &a.data);
                let out = eval_op(&[(a.ty(), a.value())], &|g, nn| g.truncate(nn[0].clone(), scale));
                let a2 = a.clone();
                settle(
                    run,
                    "trunc",
                    &move |_sr: &[u64]| format!("trunc {} {} {}", st_name(st), scale, show_list(&a2.data)),
                    out,
                    Expect { data: Some(exp), dims: Some(a.dims.clone()) },
                    false,
                    true,
                );
            }
        }
    }
}

fn stream_index_ops(run: &mut Run) {
    let mut rng = run.rng("getslice");
    for _ in 0..run.tier.scale(4000, 30000) {
        // 128-bit types are over-represented here: this is where the known truncation lives
        let st = if rng.chance(1, 3) { *rng.pick(&[UINT128, INT128]) } else { pick_st(&mut rng) };
        let shape = gen_shape(&mut rng, 4, 5, 60);
        let a = gen_opd(&mut rng, &shape, false, st);
        let rank = shape.len();
        let trunc = is128(st) && a.big();
        match rng.below(5) {
            0 => {
                let k = rng.below(rank as u64 + 1) as usize;
                let sub: Vec<u64> = (0..k).map(|i| rng.below(shape[i])).collect();
                let exp = refint::get(&a.ushape(), &a.data, &to_us(&sub));
                let sub2 = sub.clone();
                let out = eval_op(&[(a.ty(), a.value())], &|g, nn| g.get(nn[0].clone(), sub2.clone()));
                let a2 = a.clone();
                settle(
                    run,
                    "Get",
                    &move |_sr: &[u64]| format!("get {} {} {}", show_list(&a2.dims), show_list(&a2.data), show_list(&sub)),
                    out,
                    Expect { data: Some(exp.1), dims: Some(dims_or_scalar(&exp.0)) },
                    trunc,
                    true,
                );
            }
            1 | 2 => {
                let sl = gen_slice(&mut rng, &shape);
                let exp = match refint::get_slice(&a.ushape(), &a.data, &sl) {
                    Some(e) => e,
                    None => continue,
                };
                if exp.1.is_empty() {
                    run.count("getslice:empty-skipped");
                    continue; // the builder rejects empty results (C09)
                }
                let sl2 = to_slice(&sl);
                // the builder rejects some slices NumPy clamps; those are C09's subject
                let accepted = catch(|| ciphercore_base::graphs::create_context().and_then(|c| {
                    let g = c.create_graph()?;
                    let i = g.input(a.ty())?;
                    g.get_slice(i, sl2.clone())
                }));
                if !matches!(accepted, Ok(Ok(_))) {
                    run.count("getslice:builder-rejects");
                    continue;
                }
                if let Ok(Ok(c)) = catch(|| get_clean_slice(shape.clone(), sl2.clone())) {
                    run.count(&format!("getslice:clean-len:{}", c.len()));
                }
                for x in &sl {
                    run.count(match x {
                        Sl::Single(i) if *i < 0 => "getslice:single-negative",
                        Sl::Single(_) => "getslice:single",
                        Sl::Ellipsis => "getslice:ellipsis",
                        Sl::Sub(_, _, Some(s)) if *s < 0 => "getslice:negative-step",
                        Sl::Sub(..) => "getslice:sub",
                    });
                }
                let out = eval_op(&[(a.ty(), a.value())], &|g, nn| g.get_slice(nn[0].clone(), sl2.clone()));
                let a2 = a.clone();
                let sls = show_slice(&sl);
                settle(
                    run,
                    "GetSlice",
                    &move |sr: &[u64]| format!("getslice {} {} {} {}", show_list(&a2.dims), show_list(&a2.data), sls, show_list(sr)),
                    out,
                    Expect { data: Some(exp.1), dims: Some(dims_or_scalar(&exp.0)) },
                    trunc,
                    true,
                );
            }
            3 => {
                let mut perm: Vec<u64> = (0..rank as u64).collect();
                rng.shuffle(&mut perm);
                let exp = refint::permute(&a.ushape(), &a.data, &to_us(&perm));
                let perm2 = perm.clone();
                let out = eval_op(&[(a.ty(), a.value())], &|g, nn| g.permute_axes(nn[0].clone(), perm2.clone()));
                let a2 = a.clone();
                settle(
                    run,
                    "permute",
                    &move |sr: &[u64]| format!("permute {} {} {} {}", show_list(&a2.dims), show_list(&a2.data), show_list(&perm), show_list(sr)),
                    out,
                    Expect { data: Some(exp.1), dims: Some(to_u64s(&exp.0)) },
                    false,
                    true,
                );
            }
            _ => {
                // reshape between array shapes of the same size (flat order unchanged)
                let n: u64 = shape.iter().product();
                let mut ns = vec![];
                let mut rest = n;
                while rest > 1 && ns.len() < 3 {
                    let divs: Vec<u64> = (1..=rest).filter(|d| rest % d == 0).collect();
                    let d = *rng.pick(&divs);
                    ns.push(d);
                    rest /= d;
                }
                ns.push(rest);
                let nt = array_type(ns.clone(), st);
                let out = eval_op(&[(a.ty(), a.value())], &|g, nn| g.reshape(nn[0].clone(), nt.clone()));
                let a2 = a.clone();
                settle(
                    run,
                    "reshape",
                    &move |_sr: &[u64]| format!("reshape {}", show_list(&a2.data)),
                    out,
                    Expect { data: Some(a.data.clone()), dims: Some(ns.clone()) },
                    false,
                    true,
                );
            }
        }
    }
}

fn stream_structural(run: &mut Run) {
    let mut rng = run.rng("structural");
    for _ in 0..run.tier.scale(4000, 30000) {
        let st = if rng.chance(1, 3) { *rng.pick(&[UINT128, INT128]) } else { pick_st(&mut rng) };
        match rng.below(5) {
            0 => {
                // stack: outer shape, inputs broadcastable to a common inner shape, scalars allowed
                let outer = gen_shape(&mut rng, 2, 3, 4);
                let k: u64 = outer.iter().product();
                let inner = gen_shape(&mut rng, 3, 3, 12);
                let all_scalar = rng.chance(1, 6);
                let ops: Vec<Opd> = (0..k)
                    .map(|_| {
                        if all_scalar || rng.chance(1, 5) {
                            gen_opd(&mut rng, &[1], true, st)
                        } else {
                            let keep = if rng.chance(1, 2) { inner.len() } else { 1 + rng.below(inner.len() as u64) as usize };
                            let s: Vec<u64> = inner[inner.len() - keep..].iter().map(|d| if rng.chance(1, 3) { 1 } else { *d }).collect();
                            gen_opd(&mut rng, &s, false, st)
                        }
                    })
                    .collect();
                let trunc = is128(st) && ops.iter().any(|o| o.big());
                let ins: Vec<(Vec<usize>, Vec<u128>)> = ops.iter().map(|o| (if o.scalar { vec![] } else { o.ushape() }, o.data.clone())).collect();
                let exp = match refint::stack(&ins) {
                    Some(e) => e,
                    None => continue,
                };
                let mut full = outer.clone();
                full.extend(to_u64s(&exp.0));
                let outer2 = outer.clone();
                let inputs: Vec<(Type, Value)> = ops.iter().map(|o| (o.ty(), o.value())).collect();
                let out = eval_op(&inputs, &|g, nn| g.stack(nn.to_vec(), outer2.clone()));
                let ops2 = ops.clone();
                let outer3 = outer.clone();
                settle(
                    run,
                    "Stack",
                    &move |sr: &[u64]| {
                        let mut s = format!("stack {} {} {}", show_list(&outer3), show_list(sr), ops2.len());
                        for o in &ops2 {
                            s.push_str(&format!(" {} {}", show_list(&o.dims), show_list(&o.data)));
                        }
                        s
                    },
                    out,
                    Expect { data: Some(exp.1), dims: Some(full) },
                    trunc,
                    true,
                );
            }
            1 => {
                let base = gen_shape(&mut rng, 4, 3, 12);
                let axis = rng.below(base.len() as u64) as usize;
                let k = 2 + rng.below(3) as usize;
                let ops: Vec<Opd> = (0..k)
                    .map(|_| {
                        let mut s = base.clone();
                        s[axis] = 1 + rng.below(3);
                        gen_opd(&mut rng, &s, false, st)
                    })
                    .collect();
                let trunc = is128(st) && ops.iter().any(|o| o.big());
                let ins: Vec<(Vec<usize>, Vec<u128>)> = ops.iter().map(|o| (o.ushape(), o.data.clone())).collect();
                let exp = refint::concatenate(&ins, axis);
                let inputs: Vec<(Type, Value)> = ops.iter().map(|o| (o.ty(), o.value())).collect();
                let out = eval_op(&inputs, &|g, nn| g.concatenate(nn.to_vec(), axis as u64));
                let ops2 = ops.clone();
                settle(
                    run,
                    "Concatenate",
                    &move |sr: &[u64]| {
                        let mut s = format!("concat {} {} {}", axis, show_list(sr), ops2.len());
                        for o in &ops2 {
                            s.push_str(&format!(" {} {}", show_list(&o.dims), show_list(&o.data)));
                        }
                        s
                    },
                    out,
                    Expect { data: Some(exp.1), dims: Some(to_u64s(&exp.0)) },
                    trunc,
                    true,
                );
            }
            2 => {
                // array_to_vector (rows) and vector_to_array (round trip from separately generated rows)
                let shape = gen_shape(&mut rng, 4, 4, 40);
                let a = gen_opd(&mut rng, &shape, false, st);
                let trunc = is128(st) && a.big();
                let row_len: usize = shape[1..].iter().product::<u64>() as usize;
                let want_rows: Vec<String> = a.data.chunks(row_len).map(show_list).collect();
                let want = want_rows.join(";");
                let req = format!("a2v {} {}", show_list(&a.dims), show_list(&a.data));
                run.count("op:ArrayToVector");
                run.oracle_case(&req, true);
                match eval_op(&[(a.ty(), a.value())], &|g, nn| g.array_to_vector(nn[0].clone())) {
                    Outcome::Done(t, v) => {
                        let rows = (|| -> Option<Vec<String>> {
                            if !v.check_type(t.clone()).ok()? {
                                return None;
                            }
                            let et = if shape.len() == 1 { scalar_type(st) } else { array_type(shape[1..].to_vec(), st) };
                            let mut rows = vec![];
                            for e in v.to_vector().ok()? {
                                let (_, d, _) = read_result(&et, &e)?;
                                rows.push(show_list(&d));
                            }
                            Some(rows)
                        })();
                        match rows {
                            None => run.oracle_fail("C10:result-type:ArrayToVector", req.clone()),
                            Some(rows) => {
                                let imp = rows.join(";");
                                if imp != want {
                                    if trunc {
                                        known_truncation(run, "ArrayToVector", format!("{} => impl {} documented {}", req, trunc_s(&imp), trunc_s(&want)));
                                    } else {
                                        run.oracle_fail("C10:oracle:ArrayToVector", format!("{} => impl {} documented {}", req, trunc_s(&imp), trunc_s(&want)));
                                        run.case(req.clone(), imp, true);
                                    }
                                } else {
                                    run.case(req.clone(), imp, true);
                                }
                            }
                        }
                    }
                    Outcome::Panic(p) => run.oracle_fail("C10:panic:ArrayToVector", format!("{}: {}", req, p)),
                    _ => run.oracle_fail("C10:oracle:ArrayToVector", format!("{} failed", req)),
                }
                // vector_to_array
                let k = shape[0] as usize;
                let elem_scalar = shape.len() == 1;
                let et = if elem_scalar { scalar_type(st) } else { array_type(shape[1..].to_vec(), st) };
                let rows: Vec<Vec<u128>> = a.data.chunks(row_len).map(|c| c.to_vec()).collect();
                let vt = vector_type(k as u64, et);
                let vv = Value::from_vector(rows.iter().map(|r| Value::from_flattened_array(r, st).unwrap()).collect());
                let out = eval_op(&[(vt, vv)], &|g, nn| g.vector_to_array(nn[0].clone()));
                let rows2 = rows.clone();
                settle(
                    run,
                    "VectorToArray",
                    &move |_sr: &[u64]| {
                        let mut s = format!("v2a {}", rows2.len());
                        for r in &rows2 {
                            s.push_str(&format!(" {}", show_list(r)));
                        }
                        s
                    },
                    out,
                    Expect { data: Some(a.data.clone()), dims: Some(shape.clone()) },
                    trunc,
                    true,
                );
            }
            3 => {
                // gather (numpy.take): indices array of an unsigned type, occasionally out of range / repeated
                let shape = gen_shape(&mut rng, 4, 4, 40);
                let a = gen_opd(&mut rng, &shape, false, st);
                let axis = rng.below(shape.len() as u64) as usize;
                let d = shape[axis];
                let cnt = 1 + rng.below(d);
                let ishape: Vec<u64> = if cnt % 2 == 0 && rng.chance(1, 2) { vec![2, cnt / 2] } else { vec![cnt] };
                let ist = *rng.pick(&[UINT8, UINT16, UINT32, UINT64]);
                let mut pool: Vec<u64> = (0..d).collect();
                rng.shuffle(&mut pool);
                let mut idx: Vec<u128> = pool[..cnt as usize].iter().map(|x| *x as u128).collect();
                if rng.chance(1, 12) {
                    let p = rng.below(cnt) as usize;
                    idx[p] = (d + rng.below(3)) as u128; // out of range → run-time error
                } else if rng.chance(1, 12) && cnt > 1 {
                    idx[0] = idx[1]; // repeated index (documented as unsafe for MPC, still well defined)
                }
                let trunc = is128(st) && a.big();
                let exp = refint::gather(&a.ushape(), &a.data, &to_us(&ishape), &idx, axis);
                let iv = Opd { st: ist, dims: ishape.clone(), scalar: false, data: idx.clone() };
                let out = eval_op(&[(a.ty(), a.value()), (iv.ty(), iv.value())], &|g, nn| g.gather(nn[0].clone(), nn[1].clone(), axis as u64));
                let a2 = a.clone();
                let (edata, edims) = match exp {
                    Some((s, d)) => (Some(d), Some(to_u64s(&s))),
                    None => (None, None),
                };
                let idx2 = idx.clone();
                settle(
                    run,
                    "Gather",
                    &move |_sr: &[u64]| format!("gather {} {} {} {}", show_list(&a2.dims), show_list(&a2.data), show_list(&idx2), axis),
                    out,
                    Expect { data: edata, dims: edims },
                    trunc,
                    true,
                );
            }
            _ => {
                // permutations: inverse_permutation, apply_permutation / apply_inverse_permutation
                let n = 1 + rng.below(6);
                let pst = *rng.pick(&[UINT8, UINT16, UINT32, UINT64]);
                let mut p: Vec<u128> = (0..n as u128).collect();
                rng.shuffle(&mut p);
                if rng.chance(1, 8) {
                    let k = rng.below(n) as usize;
                    p[k] = if rng.chance(1, 2) { p[(k + 1) % n as usize] } else { n as u128 + rng.below(3) as u128 };
                }
                let pv = Opd { st: pst, dims: vec![n], scalar: false, data: p.clone() };
                if rng.chance(1, 2) {
                    let exp = refint::inverse_permutation(&p);
                    let out = eval_op(&[(pv.ty(), pv.value())], &|g, nn| g.inverse_permutation(nn[0].clone()));
                    let p2 = p.clone();
                    settle(
                        run,
                        "invperm",
                        &move |_sr: &[u64]| format!("invperm {}", show_list(&p2)),
                        out,
                        Expect { data: exp, dims: Some(vec![n]) },
                        false,
                        true,
                    );
                } else {
                    let mut shape = vec![n];
                    if rng.chance(1, 2) {
                        shape.push(1 + rng.below(3));
                    }
                    let a = gen_opd(&mut rng, &shape, false, st);
                    let inv = rng.chance(1, 2);
                    let trunc = is128(st) && a.big();
                    // documented: apply_permutation(a, p)[i] = a[p[i]]; the inverse variant: out[p[i]] = a[i]
                    let exp = refint::inverse_permutation(&p).and_then(|pinv| {
                        let idx = if inv { pinv } else { p.clone() };
                        refint::gather(&a.ushape(), &a.data, &[n as usize], &idx, 0)
                    });
                    let out = eval_op(&[(a.ty(), a.value()), (pv.ty(), pv.value())], &|g, nn| {
                        if inv {
                            g.apply_inverse_permutation(nn[0].clone(), nn[1].clone())
                        } else {
                            g.apply_permutation(nn[0].clone(), nn[1].clone())
                        }
                    });
                    let (a2, p2) = (a.clone(), p.clone());
                    settle(
                        run,
                        "ApplyPermutation",
                        &move |_sr: &[u64]| format!("applyperm {} {} {} {}", inv as u8, show_list(&a2.dims), show_list(&a2.data), show_list(&p2)),
                        out,
                        Expect { data: exp.map(|e| e.1), dims: Some(shape.clone()) },
                        trunc,
                        true,
                    );
                }
            }
        }
    }
}

fn stream_bits(run: &mut Run) {
    let mut rng = run.rng("a2b");
    for _ in 0..run.tier.scale(1000, 8000) {
        let st = pick_int_st(&mut rng);
        let w = st_bits(st);
        let sc = rng.chance(1, 5);
        let shape = if sc { vec![1] } else { gen_shape(&mut rng, 3, 3, 8) };
        let a = gen_opd(&mut rng, &shape, sc, st);
        let bits = refint::a2b(w, &a.data);
        let mut bshape = if sc { vec![] } else { shape.clone() };
        bshape.push(w as u64);
        let out = eval_op(&[(a.ty(), a.value())], &|g, nn| g.a2b(nn[0].clone()));
        let a2 = a.clone();
        settle(
            run,
            "a2b",
            &move |_sr: &[u64]| format!("a2b {} {}", st_name(st), show_list(&a2.data)),
            out,
            Expect { data: Some(bits.clone()), dims: Some(bshape.clone()) },
            false,
            true,
        );
        // b2a on random bits
        let b = gen_opd(&mut rng, &bshape, false, BIT);
        let exp = refint::b2a(w, &b.data);
        let out = eval_op(&[(b.ty(), b.value())], &|g, nn| g.b2a(nn[0].clone(), st));
        let b2 = b.clone();
        settle(
            run,
            "b2a",
            &move |_sr: &[u64]| format!("b2a {} {}", st_name(st), show_list(&b2.data)),
            out,
            Expect { data: Some(exp), dims: Some(shape.clone()) },
            false,
            true,
        );
    }
}

// ------------------------------------------------------------------------------------------------
// SegmentCumSum, CuckooHash (model + oracle); CuckooToPermutation, DecomposeSwitchingMap (randomised:
// oracle only); Zip / Repeat / tuple plumbing (model + oracle)
// ------------------------------------------------------------------------------------------------

/// like `settle` without an expected value: emits the model case and hands the parsed result
/// (`None` = run-time error) to the caller's oracle
fn settle_raw(run: &mut Run, op: &str, req: String, out: Outcome, nontrivial: bool) -> Option<Option<(Vec<u64>, Vec<u128>)>> {
    run.count(&format!("op:{}", op));
    run.oracle_case(&req, nontrivial);
    match out {
        Outcome::Panic(p) => {
            run.oracle_fail(&format!("C10:panic:{}", op), format!("{} panicked: {}", req, p));
            None
        }
        Outcome::Rejected => {
            run.oracle_fail(&format!("C10:unexpected-reject:{}", op), format!("{} rejected by the builder", req));
            None
        }
        Outcome::EvalErr => {
            run.count(&format!("err:{}", op));
            run.case(req, "ERR".to_owned(), nontrivial);
            Some(None)
        }
        Outcome::Done(t, v) => match read_result(&t, &v) {
            None => {
                run.oracle_fail(&format!("C10:result-type:{}", op), format!("{} result does not have the node type", req));
                None
            }
            Some((dims, data, _)) => {
                run.case(req, show_list(&data), nontrivial);
                Some(Some((dims, data)))
            }
        },
    }
}

fn stream_segcumsum(run: &mut Run) {
    let mut rng = run.rng("segcs");
    for _ in 0..run.tier.scale(2500, 20000) {
        let st = if rng.chance(1, 3) { *rng.pick(&[UINT128, INT128]) } else { pick_st(&mut rng) };
        let w = st_bits(st);
        let n: u64 = match rng.below(6) {
            0 => 1,
            1 => 2,
            _ => 1 + rng.below(9),
        };
        let scalar_row = rng.chance(1, 3);
        let rest: Vec<u64> = if scalar_row { vec![] } else { gen_shape(&mut rng, 2, 3, 6) };
        let row = rest.iter().product::<u64>() as usize;
        let mut shape = vec![n];
        shape.extend(&rest);
        let a = gen_opd(&mut rng, &shape, false, st);
        let kind = rng.below(6);
        let bits: Vec<u128> = (0..n)
            .map(|i| match kind {
                0 => 0,                       // every row starts a segment
                1 => 1,                       // one segment, begun by the first row
                2 => (i % 2) as u128,
                3 => (i != n / 2) as u128,    // exactly one segment start
                _ => rng.below(2) as u128,
            })
            .collect();
        run.count(&format!("segcs:bits-kind:{}", kind.min(4)));
        let b = Opd { st: BIT, dims: vec![n], scalar: false, data: bits.clone() };
        let first = if scalar_row { gen_opd(&mut rng, &[1], true, st) } else { gen_opd(&mut rng, &rest, false, st) };
        // oracle A: the documented iteration output[i] = A[i-1] + B[i-1] * output[i-1], output[0] = v
        let mut it: Vec<u128> = first.data.clone();
        for i in 0..n as usize {
            for j in 0..row {
                let prev = it[i * row + j];
                let x = a.data[i * row + j];
                it.push(mask(x.wrapping_add(bits[i].wrapping_mul(prev)), w));
            }
        }
        // oracle B: segment sums (rows since the last row with B = 0; the first row when there is none)
        let mut seg: Vec<u128> = vec![];
        for i in 0..=n as usize {
            let start = (0..i).rev().find(|s| bits[*s] == 0);
            for j in 0..row {
                let mut acc = if start.is_none() { first.data[j] } else { 0 };
                for k in start.unwrap_or(0)..i {
                    acc = acc.wrapping_add(a.data[k * row + j]);
                }
                seg.push(mask(acc, w));
            }
        }
        if it != seg {
            run.oracle_fail("C10:oracle-self:SegmentCumSum", format!("iteration {:?} vs segments {:?}", it, seg));
        }
        let mut rshape = shape.clone();
        rshape[0] += 1;
        let out = eval_op(&[(a.ty(), a.value()), (b.ty(), b.value()), (first.ty(), first.value())], &|g, nn| {
            g.segment_cumsum(nn[0].clone(), nn[1].clone(), nn[2].clone())
        });
        let (a2, f2, bits2) = (a.clone(), first.clone(), bits.clone());
        settle(
            run,
            "SegmentCumSum",
            &move |_sr: &[u64]| format!("segcs {} {} {} {} {}", st_name(st), row, show_list(&a2.data), show_list(&bits2), show_list(&f2.data)),
            out,
            Expect { data: Some(seg), dims: Some(rshape) },
            false,
            true,
        );
    }
}

/// GF(2) matrix-vector product of hash matrix `f` with a string: bit `r` of the index is row `r` · string
fn ref_hash(hm: &[u128], rows: usize, cols: usize, f: usize, s: &[u128]) -> usize {
    let mut idx = 0usize;
    for r in 0..rows {
        let mut bit = 0u128;
        for c in 0..cols {
            bit = (bit + hm[(f * rows + r) * cols + c] * s[c]) % 2;
        }
        idx += (bit as usize) << r;
    }
    idx
}

const DUMMY: u128 = u64::MAX as u128;

fn stream_cuckoo(run: &mut Run) {
    let mut rng = run.rng("cuckoo");
    // tables that came out of successful runs feed the CuckooToPermutation stream
    let mut tables: Vec<Vec<u128>> = vec![];
    for _ in 0..run.tier.scale(1500, 12000) {
        let rows = 1 + rng.below(4) as usize;
        let tsize = 1usize << rows;
        let bl = 1 + rng.below(6) as usize;
        let h = 3 + rng.below(3) as usize;
        let sets_shape: Vec<u64> = match rng.below(6) {
            0 => vec![2],
            1 => vec![1 + rng.below(3)],
            2 => vec![2, 2],
            _ => vec![],
        };
        let nsets = sets_shape.iter().product::<u64>() as usize;
        let kind = rng.below(8);
        let n: usize = match kind {
            0 => 1,
            1 => tsize + 1, // pigeonhole: must fail
            2 => tsize,     // full table
            3 => (tsize * 3 / 4).max(1),
            _ => 1 + rng.below(tsize as u64 / 2 + 1) as usize,
        };
        // strings: distinct when possible (3 of 4 runs), else arbitrary (equal strings share all positions)
        let distinct = rng.chance(3, 4) && (1usize << bl) >= n;
        let mut inp: Vec<u128> = vec![];
        for _ in 0..nsets {
            if distinct {
                let mut all: Vec<usize> = (0..1usize << bl).collect();
                rng.shuffle(&mut all);
                for x in all.iter().take(n) {
                    for c in 0..bl {
                        inp.push(((x >> c) & 1) as u128);
                    }
                }
            } else {
                for _ in 0..n * bl {
                    inp.push(rng.below(2) as u128);
                }
            }
        }
        let hm: Vec<u128> = (0..h * rows * bl)
            .map(|_| if kind == 7 && rng.chance(1, 2) { 0 } else { rng.below(2) as u128 })
            .collect();
        let mut ishape = sets_shape.clone();
        ishape.push(n as u64);
        ishape.push(bl as u64);
        let a = Opd { st: BIT, dims: ishape, scalar: false, data: inp.clone() };
        let m = Opd { st: BIT, dims: vec![h as u64, rows as u64, bl as u64], scalar: false, data: hm.clone() };
        let out = eval_op(&[(a.ty(), a.value()), (m.ty(), m.value())], &|g, nn| g.cuckoo_hash(nn[0].clone(), nn[1].clone()));
        let req = format!("cuckoo {} {} {} {} {} {} {} {}", nsets, n, bl, h, rows, bl, show_list(&inp), show_list(&hm));
        // an eviction certainly happens when two strings of a set collide under hash function 0
        let collide = (0..nsets).any(|s| {
            let hs: Vec<usize> = (0..n).map(|i| ref_hash(&hm, rows, bl, 0, &inp[(s * n + i) * bl..(s * n + i + 1) * bl])).collect();
            (0..n).any(|i| (0..i).any(|j| hs[i] == hs[j]))
        });
        if collide {
            run.count("cuckoo:eviction");
        }
        let res = match settle_raw(run, "CuckooHash", req.clone(), out, true) {
            None => continue,
            Some(r) => r,
        };
        match res {
            None => {
                run.count(if n > tsize { "cuckoo:fail-pigeonhole" } else { "cuckoo:fail-other" });
            }
            Some((dims, data)) => {
                run.count("cuckoo:success");
                if collide {
                    run.count("cuckoo:success-after-eviction");
                }
                let mut want = sets_shape.clone();
                want.push(tsize as u64);
                if dims != want {
                    run.oracle_fail("C10:shape:CuckooHash", format!("{} result dims {:?}, documented {:?}", req, dims, want));
                    continue;
                }
                if n > tsize {
                    run.oracle_fail("C10:oracle:CuckooHash", format!("{} succeeded with more strings than cells", req));
                    continue;
                }
                // placement: every string index exactly once, in one of its hash cells; sentinel elsewhere
                for s in 0..nsets {
                    let t = &data[s * tsize..(s + 1) * tsize];
                    let mut bad = None;
                    for i in 0..n {
                        let cells: Vec<usize> = (0..tsize).filter(|c| t[*c] == i as u128).collect();
                        let str_i = &inp[(s * n + i) * bl..(s * n + i + 1) * bl];
                        if cells.len() != 1 {
                            bad = Some(format!("index {} occupies {} cells", i, cells.len()));
                        } else if !(0..h).any(|f| ref_hash(&hm, rows, bl, f, str_i) == cells[0]) {
                            bad = Some(format!("index {} sits in cell {} which is none of its hash positions", i, cells[0]));
                        }
                    }
                    if t.iter().any(|x| *x != DUMMY && *x >= n as u128) {
                        bad = Some("a cell holds neither an index nor the sentinel".to_owned());
                    }
                    if let Some(b) = bad {
                        run.oracle_fail("C10:oracle:CuckooHash", format!("{} => {} set {}: {}", req, show_list(&data), s, b));
                    }
                    if tables.len() < 4000 {
                        tables.push(t.to_vec());
                    }
                }
            }
        }
    }
    stream_cuckoo_to_permutation(run, &tables);
}

/// evaluate a one-input graph whose result is not a plain array
fn eval_any(inputs: &[(Type, Value)], build: &dyn Fn(&Graph, &[Node]) -> Result<Node>) -> Outcome {
    eval_op(inputs, build)
}

/// CuckooToPermutation is randomised: property-level oracle only.  On a valid table (distinct indices
/// `0..k-1` and `T-k` sentinels) the result is a permutation of `0..T-1` that agrees with the table on
/// every non-sentinel cell; a table with a duplicate or an index `≥ k` is a run-time error.
fn stream_cuckoo_to_permutation(run: &mut Run, from_hash: &[Vec<u128>]) {
    let mut rng = run.rng("cuckoo2perm");
    for it in 0..run.tier.scale(1200, 8000) {
        let nt = 1 + rng.below(3) as usize;
        let mut valid = true;
        let mut data: Vec<u128> = vec![];
        let tsize: usize;
        if it % 3 == 0 && !from_hash.is_empty() {
            let t0 = rng.pick(from_hash).clone();
            tsize = t0.len();
            data.extend(&t0);
            for _ in 1..nt {
                let t = rng.pick(from_hash);
                if t.len() == tsize {
                    data.extend(t);
                }
            }
        } else {
            tsize = 1 + rng.below(8) as usize;
            for _ in 0..nt {
                let k = rng.below(tsize as u64 + 1) as usize;
                let mut t: Vec<u128> = (0..k as u128).collect();
                t.resize(tsize, DUMMY);
                rng.shuffle(&mut t);
                if k > 0 && rng.chance(1, 6) {
                    // malformed: a duplicate, or an index that is too large
                    let pos = (0..tsize).find(|c| t[*c] != DUMMY).unwrap();
                    if k >= 2 && rng.chance(1, 2) {
                        t[pos] = (t[pos] + 1) % k as u128;
                    } else {
                        t[pos] = k as u128 + rng.below(2) as u128;
                    }
                    valid = false;
                }
                data.extend(&t);
            }
        }
        let ntab = data.len() / tsize;
        let shape: Vec<u64> = if ntab == 1 && rng.chance(1, 2) { vec![tsize as u64] } else { vec![ntab as u64, tsize as u64] };
        let a = Opd { st: UINT64, dims: shape.clone(), scalar: false, data: data.clone() };
        let out = eval_op(&[(a.ty(), a.value())], &|g, nn| g.cuckoo_to_permutation(nn[0].clone()));
        let descr = format!("cuckoo_to_permutation {} {}", show_list(&shape), show_list(&data));
        run.count("op:CuckooToPermutation");
        run.oracle_case(&descr, true);
        match out {
            Outcome::Panic(p) => run.oracle_fail("C10:panic:CuckooToPermutation", format!("{} panicked: {}", descr, p)),
            Outcome::Rejected => run.oracle_fail("C10:unexpected-reject:CuckooToPermutation", descr),
            Outcome::EvalErr => {
                run.count("err:CuckooToPermutation");
                if valid {
                    run.oracle_fail("C10:oracle:CuckooToPermutation", format!("{} => run-time error on a valid table", descr));
                }
            }
            Outcome::Done(t, v) => match read_result(&t, &v) {
                None => run.oracle_fail("C10:result-type:CuckooToPermutation", descr),
                Some((dims, res, _)) => {
                    if !valid {
                        run.oracle_fail("C10:oracle:CuckooToPermutation", format!("{} => {} accepted a malformed table", descr, show_list(&res)));
                        continue;
                    }
                    let mut ok = dims == shape && res.len() == data.len();
                    if ok {
                        for ti in 0..ntab {
                            let (x, r) = (&data[ti * tsize..(ti + 1) * tsize], &res[ti * tsize..(ti + 1) * tsize]);
                            let mut sorted = r.to_vec();
                            sorted.sort();
                            ok &= sorted == (0..tsize as u128).collect::<Vec<_>>();
                            ok &= (0..tsize).all(|c| x[c] == DUMMY || x[c] == r[c]);
                        }
                    }
                    if !ok {
                        run.oracle_fail("C10:oracle:CuckooToPermutation", format!("{} => {} is not a permutation extending the table", descr, show_list(&res)));
                    }
                }
            },
        }
    }
}

/// DecomposeSwitchingMap(n) is randomised: property-level oracle only.  For every map (last axis):
/// `perm1` has distinct entries below `n`, the duplication map obeys
/// `dup[i] = bits[i] ? dup[i-1] : i` with `bits[0] = 0`, `perm2` is a permutation of the positions, and
/// the three maps compose to the switching map: `map[j] = perm1[dup[perm2[j]]]`.
fn stream_switching_map(run: &mut Run) {
    let mut rng = run.rng("switching");
    for _ in 0..run.tier.scale(1200, 8000) {
        let n = 1 + rng.below(9);
        let ms = 1 + rng.below(n) as usize;
        let batch: Vec<u64> = match rng.below(4) {
            0 => vec![2],
            1 => vec![1 + rng.below(2), 2],
            _ => vec![],
        };
        let nmaps = batch.iter().product::<u64>() as usize;
        let bad = rng.chance(1, 10);
        let few = rng.chance(1, 3);
        let mut data: Vec<u128> = (0..nmaps * ms).map(|_| if few { rng.below(2.min(n)) } else { rng.below(n) } as u128).collect();
        if bad {
            let k = rng.below(data.len() as u64) as usize;
            data[k] = n as u128 + rng.below(3) as u128;
        }
        let mut shape = batch.clone();
        shape.push(ms as u64);
        let a = Opd { st: UINT64, dims: shape.clone(), scalar: false, data: data.clone() };
        let built = eval_op(&[(a.ty(), a.value())], &|g, nn| g.decompose_switching_map(nn[0].clone(), n));
        let descr = format!("decompose_switching_map n={} {} {}", n, show_list(&shape), show_list(&data));
        run.count("op:DecomposeSwitchingMap");
        run.oracle_case(&descr, true);
        let (t, v) = match built {
            Outcome::Panic(p) => {
                run.oracle_fail("C10:panic:DecomposeSwitchingMap", format!("{} panicked: {}", descr, p));
                continue;
            }
            Outcome::Rejected => {
                run.oracle_fail("C10:unexpected-reject:DecomposeSwitchingMap", descr);
                continue;
            }
            Outcome::EvalErr => {
                run.count("err:DecomposeSwitchingMap");
                if !bad {
                    run.oracle_fail("C10:oracle:DecomposeSwitchingMap", format!("{} => run-time error on a valid map", descr));
                }
                continue;
            }
            Outcome::Done(t, v) => (t, v),
        };
        if bad {
            run.oracle_fail("C10:oracle:DecomposeSwitchingMap", format!("{} accepted an index ≥ n", descr));
            continue;
        }
        let parts = catch(|| -> Result<(Vec<u64>, Vec<u64>, Vec<u64>, Vec<u64>)> {
            let ok = v.check_type(t.clone())?;
            if !ok {
                return Err(ciphercore_base::runtime_error!("type"));
            }
            let top = v.to_vector()?;
            let dup = top[1].to_vector()?;
            let at = array_type(shape.clone(), UINT64);
            let bt = array_type(shape.clone(), BIT);
            Ok((
                top[0].to_flattened_array_u64(at.clone())?,
                dup[0].to_flattened_array_u64(at.clone())?,
                dup[1].to_flattened_array_u64(bt)?,
                top[2].to_flattened_array_u64(at)?,
            ))
        });
        let (p1, dm, db, p2) = match parts {
            Ok(Ok(x)) => x,
            _ => {
                run.oracle_fail("C10:result-type:DecomposeSwitchingMap", descr);
                continue;
            }
        };
        let mut why = None;
        if p1.len() != data.len() || dm.len() != data.len() || db.len() != data.len() || p2.len() != data.len() {
            why = Some("lengths".to_owned());
        } else {
            for mi in 0..nmaps {
                let r = mi * ms..(mi + 1) * ms;
                let (x, p1, dm, db, p2) = (&data[r.clone()], &p1[r.clone()], &dm[r.clone()], &db[r.clone()], &p2[r.clone()]);
                let mut s1 = p1.to_vec();
                s1.sort();
                s1.dedup();
                if s1.len() != ms || p1.iter().any(|e| *e >= n) {
                    why = Some(format!("map {}: perm1 {:?} is not injective into 0..n", mi, p1));
                }
                let mut s2 = p2.to_vec();
                s2.sort();
                if s2 != (0..ms as u64).collect::<Vec<_>>() {
                    why = Some(format!("map {}: perm2 {:?} is not a permutation", mi, p2));
                    continue;
                }
                for i in 0..ms {
                    let want = if db[i] == 1 && i > 0 { dm[i - 1] } else { i as u64 };
                    if db[i] > 1 || (i == 0 && db[0] != 0) || dm[i] != want {
                        why = Some(format!("map {}: duplication map {:?} / bits {:?} break the documented equation at {}", mi, dm, db, i));
                    }
                }
                if why.is_none() {
                    for j in 0..ms {
                        let got = p1[dm[p2[j] as usize] as usize];
                        if got as u128 != x[j] {
                            why = Some(format!("map {}: composition gives {} at position {}, switching map has {}", mi, got, j, x[j]));
                        }
                    }
                }
            }
        }
        if let Some(w) = why {
            run.oracle_fail("C10:oracle:DecomposeSwitchingMap", format!("{} => perm1 {:?} dup {:?} bits {:?} perm2 {:?}: {}", descr, p1, dm, db, p2, w));
        }
    }
}

/// elements of a vector/tuple value, each an array of the given type, as residue lists
fn read_elems(v: &Value, ts: &[Type]) -> Option<Vec<Vec<u128>>> {
    let es = v.to_vector().ok()?;
    if es.len() != ts.len() {
        return None;
    }
    let mut out = vec![];
    for (e, t) in es.iter().zip(ts) {
        out.push(read_result(t, e)?.1);
    }
    Some(out)
}

fn show_vec(es: &[Vec<u128>]) -> String {
    if es.is_empty() {
        "-".to_owned()
    } else {
        es.iter().map(|e| show_list(e)).collect::<Vec<_>>().join(";")
    }
}

fn stream_plumbing(run: &mut Run) {
    let mut rng = run.rng("plumbing");
    for _ in 0..run.tier.scale(1500, 10000) {
        let which = rng.below(5);
        match which {
            0 => {
                // Zip of k vectors of n arrays (element type may differ between the vectors)
                let k = 2 + rng.below(3) as usize;
                let n = rng.below(5); // 0 = empty vectors
                let mut inputs = vec![];
                let mut vecs: Vec<Vec<Vec<u128>>> = vec![];
                let mut ets = vec![];
                for _ in 0..k {
                    let st = pick_st(&mut rng);
                    let sh = gen_shape(&mut rng, 2, 3, 4);
                    let et = array_type(sh.clone(), st);
                    let es: Vec<Opd> = (0..n).map(|_| gen_opd(&mut rng, &sh, false, st)).collect();
                    inputs.push((vector_type(n, et.clone()), Value::from_vector(es.iter().map(|e| e.value()).collect())));
                    vecs.push(es.iter().map(|e| e.data.clone()).collect());
                    ets.push(et);
                }
                let out = eval_any(&inputs, &|g, nn| g.zip(nn.to_vec()));
                let req = format!("zip {} {}", k, vecs.iter().map(|v| show_vec(v)).collect::<Vec<_>>().join(" "));
                // documented: result[i] = (v_0[i], ..., v_{k-1}[i])
                let want = if n == 0 {
                    "-".to_owned()
                } else {
                    (0..n as usize).map(|i| show_vec(&vecs.iter().map(|v| v[i].clone()).collect::<Vec<_>>())).collect::<Vec<_>>().join("|")
                };
                plumb_settle(run, "Zip", req, out, &|v: &Value| {
                    let rows = v.to_vector().ok()?;
                    let mut parts = vec![];
                    for r in rows {
                        parts.push(show_vec(&read_elems(&r, &ets)?));
                    }
                    Some(if parts.is_empty() { "-".to_owned() } else { parts.join("|") })
                }, Some(want));
            }
            1 => {
                let st = pick_st(&mut rng);
                let sh = gen_shape(&mut rng, 2, 3, 6);
                let a = gen_opd(&mut rng, &sh, false, st);
                let n = rng.below(6); // 0 = empty vector
                let out = eval_any(&[(a.ty(), a.value())], &|g, nn| g.repeat(nn[0].clone(), n));
                let req = format!("repeat {} {}", n, show_list(&a.data));
                let empty_as = |s: String| if s == "-" { "_".to_owned() } else { s };
                let want = empty_as(show_vec(&vec![a.data.clone(); n as usize]));
                let ts = vec![a.ty(); n as usize];
                plumb_settle(run, "Repeat", req, out, &|v: &Value| Some(empty_as(show_vec(&read_elems(v, &ts)?))), Some(want));
            }
            _ => {
                // CreateTuple / CreateNamedTuple / CreateVector followed by the matching accessor
                let k = 1 + rng.below(4) as usize;
                let st = pick_st(&mut rng);
                let same = which == 3;
                let sh0 = gen_shape(&mut rng, 1, 4, 4);
                let es: Vec<Opd> = (0..k)
                    .map(|_| {
                        let sh = if same { sh0.clone() } else { gen_shape(&mut rng, 1, 4, 4) };
                        gen_opd(&mut rng, &sh, false, st)
                    })
                    .collect();
                let mut inputs: Vec<(Type, Value)> = es.iter().map(|e| (e.ty(), e.value())).collect();
                let vecs = show_vec(&es.iter().map(|e| e.data.clone()).collect::<Vec<_>>());
                if which == 2 {
                    let id = rng.below(k as u64);
                    let out = eval_any(&inputs, &|g, nn| g.tuple_get(g.create_tuple(nn.to_vec())?, id));
                    let want = show_list(&es[id as usize].data);
                    let t = es[id as usize].ty();
                    plumb_settle(run, "TupleGet", format!("tupleget {} {}", id, vecs), out, &|v: &Value| Some(show_list(&read_result(&t, v)?.1)), Some(want));
                } else if which == 3 {
                    // index read at run time; out of range in 1 of 4 cases
                    let id = if rng.chance(1, 4) { k as u64 + rng.below(3) } else { rng.below(k as u64) };
                    let ist = *rng.pick(&[UINT32, UINT64]);
                    inputs.push((scalar_type(ist), Value::from_scalar(id, ist).unwrap()));
                    let et = es[0].ty();
                    let out = eval_any(&inputs, &|g, nn| {
                        let v = g.create_vector(et.clone(), nn[..k].to_vec())?;
                        g.vector_get(v, nn[k].clone())
                    });
                    let want = if (id as usize) < k { show_list(&es[id as usize].data) } else { "ERR".to_owned() };
                    let t = es[0].ty();
                    plumb_settle(run, "VectorGet", format!("vecget {} {}", id, vecs), out, &|v: &Value| Some(show_list(&read_result(&t, v)?.1)), Some(want));
                } else {
                    let names: Vec<String> = (0..k).map(|i| format!("f{}", (i * 7 + 3) % 10)).collect();
                    let id = rng.below(k as u64) as usize;
                    let names2 = names.clone();
                    let key = names[id].clone();
                    let out = eval_any(&inputs, &|g, nn| {
                        let t = g.create_named_tuple(names2.iter().cloned().zip(nn.iter().cloned()).collect())?;
                        g.named_tuple_get(t, key.clone())
                    });
                    // the first field with that name
                    let first = names.iter().position(|x| *x == names[id]).unwrap();
                    let want = show_list(&es[first].data);
                    let t = es[first].ty();
                    plumb_settle(run, "NamedTupleGet", format!("namedget {} {} {}", names[id], names.join(";"), vecs), out, &|v: &Value| Some(show_list(&read_result(&t, v)?.1)), Some(want));
                }
            }
        }
    }
}

fn plumb_settle(run: &mut Run, op: &str, req: String, out: Outcome, show: &dyn Fn(&Value) -> Option<String>, want: Option<String>) {
    run.count(&format!("op:{}", op));
    run.oracle_case(&req, true);
    let imp = match out {
        Outcome::Panic(p) => {
            run.oracle_fail(&format!("C10:panic:{}", op), format!("{} panicked: {}", req, p));
            return;
        }
        Outcome::Rejected => {
            // duplicate field names are refused by the builder: not a case
            if op == "NamedTupleGet" {
                run.count("rejected:NamedTupleGet");
            } else {
                run.oracle_fail(&format!("C10:unexpected-reject:{}", op), format!("{} rejected by the builder", req));
            }
            return;
        }
        Outcome::EvalErr => {
            run.count(&format!("err:{}", op));
            "ERR".to_owned()
        }
        Outcome::Done(t, v) => {
            let ok = v.check_type(t).unwrap_or(false);
            match (ok, show(&v)) {
                (true, Some(s)) => s,
                _ => {
                    run.oracle_fail(&format!("C10:result-type:{}", op), format!("{} result does not have the node type", req));
                    return;
                }
            }
        }
    };
    if let Some(w) = want {
        if imp != w {
            run.oracle_fail(&format!("C10:oracle:{}", op), format!("{} => impl {} documented {}", req, trunc_s(&imp), trunc_s(&w)));
        }
    }
    run.case(req, imp, true);
}

/// round trips of ApplyPermutation (two- and three-operation graphs; oracle only, the identities are
/// theorem `applyPermutation_roundtrip`): apply_inverse(p) ∘ apply(p), apply(p) ∘ apply_inverse(p) and
/// apply(inverse_permutation(p)) ∘ apply(p) return the payload
fn stream_perm_roundtrip(run: &mut Run) {
    let mut rng = run.rng("perm-roundtrip");
    for _ in 0..run.tier.scale(600, 4000) {
        let st = if rng.chance(1, 3) { *rng.pick(&[UINT128, INT128]) } else { pick_st(&mut rng) };
        let n = 1 + rng.below(7);
        let mut shape = vec![n];
        if rng.chance(2, 3) {
            shape.extend(gen_shape(&mut rng, 2, 3, 6));
        }
        let a = gen_opd(&mut rng, &shape, false, st);
        let mut p: Vec<u128> = (0..n as u128).collect();
        rng.shuffle(&mut p);
        let pv = Opd { st: UINT64, dims: vec![n], scalar: false, data: p.clone() };
        let variant = rng.below(3);
        let out = eval_op(&[(a.ty(), a.value()), (pv.ty(), pv.value())], &|g, nn| match variant {
            0 => g.apply_inverse_permutation(g.apply_permutation(nn[0].clone(), nn[1].clone())?, nn[1].clone()),
            1 => g.apply_permutation(g.apply_inverse_permutation(nn[0].clone(), nn[1].clone())?, nn[1].clone()),
            _ => g.apply_permutation(g.apply_permutation(nn[0].clone(), nn[1].clone())?, g.inverse_permutation(nn[1].clone())?),
        });
        let descr = format!("perm-roundtrip {} {} {} {} {}", variant, st_name(st), show_list(&shape), show_list(&a.data), show_list(&p));
        run.count("op:perm-roundtrip");
        run.oracle_case(&descr, true);
        match out {
            Outcome::Done(t, v) => match read_result(&t, &v) {
                Some((dims, data, _)) if dims == shape && data == a.data => {}
                Some((_, data, _)) => run.oracle_fail("C10:oracle:perm-roundtrip", format!("{} => {}", descr, show_list(&data))),
                None => run.oracle_fail("C10:result-type:perm-roundtrip", descr),
            },
            Outcome::Panic(p) => run.oracle_fail("C10:panic:perm-roundtrip", format!("{} panicked: {}", descr, p)),
            _ => run.oracle_fail("C10:oracle:perm-roundtrip", format!("{} => rejected or run-time error", descr)),
        }
    }
}

pub fn corr(run: &mut Run) {
    run.rule = "one-operation graphs (simple_context + SimpleEvaluator): all 11 scalar types, shapes of rank 1..4 with \
                size-1 / missing broadcast axes, boundary-biased elements (0, ±1, min, max, 2^k±1, ≥ 2^64 for the 128-bit types), \
                all operation parameters (axes, sub-indices, NumPy slices with negative indices / steps / ellipsis / omitted \
                bounds, transposition flags, outer shapes, gather indices incl. out-of-range); plus direct calls of the \
                bytes.rs kernels (u64 with arbitrary modulus, u128 with 2^k / wrapping) and of number_to_index / \
                index_to_number. Every case is answered by the Lean model (exact) and by a native nested-loop reference \
                interpreter (oracle). Further streams: SegmentCumSum (1..9 rows, scalar / rank 1-2 rows, bit patterns all-0 / all-1 / \
                alternating / one start / random; oracle = documented iteration and segment sums), CuckooHash (1-4 sets, tables of \
                2..16 cells, 3-5 hash matrices, loads from one string to one more than the table holds, distinct and repeated \
                strings, sparse matrices; oracle = placement property), Zip / Repeat / tuple, named-tuple and vector accessors \
                (model + oracle); CuckooToPermutation, DecomposeSwitchingMap and permutation round trips are checked against \
                their property-level oracle only (randomised results). Non-trivial: at least one array operand; distinct by request text."
        .to_owned();
    stream_index(run);
    stream_kernels(run);
    stream_arith(run);
    stream_matmul(run);
    stream_reduce(run);
    stream_index_ops(run);
    stream_structural(run);
    stream_bits(run);
    stream_segcumsum(run);
    stream_cuckoo(run);
    stream_switching_map(run);
    stream_plumbing(run);
    stream_perm_roundtrip(run);
}
