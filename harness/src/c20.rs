//! C20 — approximate numeric operations stay close to the real function.
//! One-op graphs with the real custom operations (NewtonInversion, InverseSqrt, GoldschmidtDivision,
//! FixedMultiply, ApproxExponent/Sigmoid/Gelu/GeluDerivative, create_approximation, TaylorExponent),
//! instantiated (`run_instantiation_pass`) and evaluated with the simple evaluator over input ARRAYS
//! (one evaluation per configuration and grid).
//!   (C) every evaluated point is also a request for the Lean model, which must reproduce the integer exactly;
//!   (O) DENSE SWEEP (a test, not a proof): on the documented domain every point is compared with the
//!       exact real function in f64 within the tolerance of the op's documentation / unit tests;
//!   (M) compiled (MPC) vs plaintext evaluation for a few ops, loosely bounded.
use crate::mpc_common::{compile, global_inputs, global_run, reveal_if_shared};
use crate::util::*;
use ciphercore_base::custom_ops::{run_instantiation_pass, CustomOperation};
use ciphercore_base::data_types::*;
use ciphercore_base::data_values::Value;
use ciphercore_base::errors::Result;
use ciphercore_base::evaluators::random_evaluate;
use ciphercore_base::graphs::util::simple_context;
use ciphercore_base::graphs::{Context, Graph, Node, Operation};
use ciphercore_base::mpc::mpc_compiler::IOStatus;
use ciphercore_base::ops::fixed_precision::fixed_multiply::FixedMultiply;
use ciphercore_base::ops::fixed_precision::fixed_precision_config::FixedPrecisionConfig;
use ciphercore_base::ops::goldschmidt_division::GoldschmidtDivision;
use ciphercore_base::ops::inverse_sqrt::InverseSqrt;
use ciphercore_base::ops::newton_inversion::NewtonInversion;
use ciphercore_base::ops::pwl::approx_exponent::ApproxExponent;
use ciphercore_base::ops::pwl::approx_gelu::ApproxGelu;
use ciphercore_base::ops::pwl::approx_gelu_derivative::ApproxGeluDerivative;
use ciphercore_base::ops::pwl::approx_pointwise::{create_approximation, PWLConfig};
use ciphercore_base::ops::pwl::approx_sigmoid::ApproxSigmoid;
use ciphercore_base::ops::taylor_exponent::TaylorExponent;
use ciphercore_base::random::PRNG;

// ------------------------------------------------------------------------------------------------
// plumbing
// ------------------------------------------------------------------------------------------------

thread_local! {
    static SEEN: std::cell::RefCell<std::collections::HashMap<String, u32>> = std::cell::RefCell::new(std::collections::HashMap::new());
}

/// report an oracle failure; at most `PER_SIG` details per signature are kept (all are counted)
const PER_SIG: u32 = 5;
fn fail(run: &mut Run, sig: &str, detail: String) {
    let n = SEEN.with(|m| {
        let mut m = m.borrow_mut();
        let e = m.entry(sig.to_owned()).or_insert(0);
        *e += 1;
        *e
    });
    if n <= PER_SIG {
        run.oracle_fail(sig, detail);
    } else {
        run.count(&format!("oracle_fail:{}", sig));
    }
}

fn st_of(signed: bool, bits: u32) -> ScalarType {
    match (signed, bits) {
        (false, 64) => UINT64,
        (true, 64) => INT64,
        (false, 128) => UINT128,
        _ => INT128,
    }
}

/// residue of a denoted integer in a type of width `bits`
fn residue(x: i128, bits: u32) -> u128 {
    if bits >= 128 {
        x as u128
    } else {
        (x as u128) & ((1u128 << bits) - 1)
    }
}

/// decimal text of the integer denoted by a residue
fn denote(r: u128, signed: bool, bits: u32) -> String {
    if !signed {
        return r.to_string();
    }
    if bits >= 128 {
        return (r as i128).to_string();
    }
    let sh = 128 - bits;
    (((r << sh) as i128) >> sh).to_string()
}

fn denote_i(r: u128, signed: bool, bits: u32) -> i128 {
    if !signed || bits >= 128 {
        return r as i128;
    }
    let sh = 128 - bits;
    ((r << sh) as i128) >> sh
}

fn arr_value(xs: &[i128], st: ScalarType, bits: u32) -> Result<Value> {
    let rs: Vec<u128> = xs.iter().map(|x| residue(*x, bits)).collect();
    Value::from_flattened_array(&rs, st)
}

/// instantiate + evaluate a context on array inputs; result residues
fn eval_ctx(c: Context, inputs: Vec<Value>, n: usize, st: ScalarType) -> Result<Vec<u128>> {
    let mapped = run_instantiation_pass(c)?;
    let out = random_evaluate(mapped.get_context().get_main_graph()?, inputs)?;
    out.to_flattened_array_u128(array_type(vec![n as u64], st))
}

enum Outcome {
    Vals(Vec<u128>),
    Rejected,
    Panicked(String),
}

fn run_eval(f: impl FnOnce() -> Result<Vec<u128>>) -> Outcome {
    match catch(f) {
        Ok(Ok(v)) => Outcome::Vals(v),
        Ok(Err(_)) => Outcome::Rejected,
        Err(p) => Outcome::Panicked(p),
    }
}

fn pow2(k: u64) -> i128 {
    1i128 << k
}

fn dedup_sorted(mut v: Vec<i128>) -> Vec<i128> {
    v.sort();
    v.dedup();
    v
}

fn ceil_log2(n: u64) -> u64 {
    let mut k = 0;
    while (1u64 << k) < n {
        k += 1;
    }
    k
}

// ------------------------------------------------------------------------------------------------
// N / S / G : Newton-type iterations
// ------------------------------------------------------------------------------------------------

#[derive(Clone, Copy, PartialEq, Eq, Debug)]
enum NOp {
    Newton,
    Sqrt,
}

/// evaluate NewtonInversion / InverseSqrt on the array `ds` (optionally with an array of supplied
/// initial approximations)
fn eval_newton(op: NOp, signed: bool, c: u64, iters: u64, ds: &[i128], inits: Option<&[i128]>) -> Outcome {
    let st = st_of(signed, 64);
    let n = ds.len();
    run_eval(|| {
        let t = array_type(vec![n as u64], st);
        let ctx = simple_context(|g| {
            let i = g.input(t.clone())?;
            let mut args = vec![i];
            if inits.is_some() {
                args.push(g.input(t.clone())?);
            }
            let cop = match op {
                NOp::Newton => CustomOperation::new(NewtonInversion { iterations: iters, denominator_cap_2k: c }),
                NOp::Sqrt => CustomOperation::new(InverseSqrt { iterations: iters, denominator_cap_2k: c }),
            };
            g.custom_op(cop, args)
        })?;
        let mut ins = vec![arr_value(ds, st, 64)?];
        if let Some(x) = inits {
            ins.push(arr_value(x, st, 64)?);
        }
        eval_ctx(ctx, ins, n, st)
    })
}

fn eval_gold(signed: bool, bits: u32, c: u64, iters: u64, a: &[i128], d: &[i128], inits: Option<&[i128]>) -> Outcome {
    let st = st_of(signed, bits);
    let n = d.len();
    run_eval(|| {
        let t = array_type(vec![n as u64], st);
        let ctx = simple_context(|g| {
            let ia = g.input(t.clone())?;
            let id = g.input(t.clone())?;
            let mut args = vec![ia, id];
            if inits.is_some() {
                args.push(g.input(t.clone())?);
            }
            g.custom_op(CustomOperation::new(GoldschmidtDivision { iterations: iters, denominator_cap_2k: c }), args)
        })?;
        let mut ins = vec![arr_value(a, st, bits)?, arr_value(d, st, bits)?];
        if let Some(x) = inits {
            ins.push(arr_value(x, st, bits)?);
        }
        eval_ctx(ctx, ins, n, st)
    })
}

/// divisor grid for cap `c`: exhaustive up to `exh`, then powers of two ± 1, a stride, the domain end
/// `2^(c-1)` ± 1, the cap `2^c` ± 1 and a few values far outside the documented domain
fn divisor_grid(c: u64, hi_bits: u64, exh: i128, stride_pts: i128, rng: &mut Rng, signed: bool) -> Vec<i128> {
    let top = pow2(hi_bits);
    let mut v: Vec<i128> = (0..=exh.min(top + 2)).collect();
    for k in 0..=(hi_bits + 1).min(62) {
        for e in [-1i128, 0, 1] {
            v.push(pow2(k) + e);
        }
        // worst case for the bit-derived guess: just below a power of two, and 1.5·2^k
        v.push(pow2(k) + pow2(k) / 2);
    }
    if top > exh {
        let step = ((top - exh) / stride_pts).max(1);
        let mut x = exh;
        while x < top {
            v.push(x + (rng.below(step as u64) as i128));
            x += step;
        }
    }
    v.push(pow2(c));
    v.push(pow2(c) + 1);
    v.push(pow2(40) + 12345);
    v.push(i64::MAX as i128);
    if signed {
        v.push(-1);
        v.push(-3);
        v.push(-(pow2(c.min(60))));
        v.push(i64::MIN as i128);
    } else {
        v.push(u64::MAX as i128);
        v.push(pow2(63));
    }
    let lim = if signed { i64::MAX as i128 } else { u64::MAX as i128 };
    dedup_sorted(v.into_iter().filter(|x| *x <= lim).collect())
}

fn init_str(i: Option<i128>) -> String {
    match i {
        Some(x) => x.to_string(),
        None => "_".into(),
    }
}

fn newton_stream(run: &mut Run) {
    let mut rng = run.rng("N");
    let exh = run.tier.scale(1 << 9, 1 << 10) as i128;
    // (c, iterations): rule of thumb of the documentation is 1 + log2(c)
    let mut cfgs: Vec<(u64, u64)> = vec![];
    for c in [1u64, 2, 3, 4, 5, 7, 8, 10, 12, 13, 16, 20, 24, 29, 30, 31, 32] {
        let rot = 1 + ceil_log2(c);
        cfgs.push((c, rot));
        if c == 10 {
            cfgs.push((c, 0));
            cfgs.push((c, 1));
            cfgs.push((c, 2));
            cfgs.push((c, 5)); // the unit tests' configuration
            cfgs.push((c, 8));
        } else if c <= 8 || run.tier != Tier::Quick {
            cfgs.push((c, rot + 2));
            cfgs.push((c, rot.saturating_sub(2)));
        }
    }
    for (c, iters) in cfgs {
        for signed in [false, true] {
            if run.tier == Tier::Quick && signed && c > 16 && c < 29 {
                continue;
            }
            let pts = if c <= 13 { 300 } else { run.tier.scale(500, 900) as i128 };
            let ds = divisor_grid(c, c.saturating_sub(1), exh, pts, &mut rng, signed);
            record_newton(run, NOp::Newton, signed, c, iters, &ds, None);
        }
    }
    // cap = 0 is special-cased in the code (`g.ones`) but the unused guess graph is built first
    record_newton(run, NOp::Newton, false, 0, 3, &[1, 2, 5], None);

    // supplied initial approximation: documented 2^(c-1) <= d*init < 2^(c+1)
    for (c, iters) in [(4u64, 3u64), (8, 4), (10, 5), (10, 4), (16, 5), (20, 6)] {
        for signed in [false, true] {
            let mut ds = vec![];
            let mut is = vec![];
            let dom = pow2(c - 1);
            let dlist: Vec<i128> = if dom <= 64 { (1..dom).collect() } else { (0..run.tier.scale(60, 150)).map(|_| 1 + rng.below((dom - 1) as u64) as i128).chain([1, 2, 3, dom - 1, dom / 2, dom / 2 + 1].into_iter()).collect() };
            for d in dlist {
                let lo = (pow2(c - 1) + d - 1) / d; // smallest init with d*init >= 2^(c-1)
                let hi = (pow2(c + 1) - 1) / d; // largest init with d*init < 2^(c+1)
                if lo > hi {
                    continue;
                }
                let mut cand = vec![lo, lo + 1, hi, hi - 1, (lo + hi) / 2, pow2(c) / d, pow2(c) / d + 1, (3 * pow2(c) / 2) / d];
                // outside the documented window
                cand.push(lo - 1);
                cand.push(hi + 1);
                cand.push(0);
                if hi - lo > 8 {
                    for _ in 0..4 {
                        cand.push(lo + rng.below((hi - lo) as u64) as i128);
                    }
                }
                for i in dedup_sorted(cand) {
                    if i >= 0 {
                        ds.push(d);
                        is.push(i);
                    }
                }
            }
            record_newton(run, NOp::Newton, signed, c, iters, &ds, Some(&is));
        }
    }
}

/// the tolerance of the dense sweep for the reciprocal: the unit tests accept |res - floor(2^c/d)| <= 1
fn check_newton_tol(run: &mut Run, signed: bool, c: u64, iters: u64, d: i128, init: Option<i128>, res: i128) {
    let exact = (pow2(c) as f64) / (d as f64);
    let err = (res as f64 - exact).abs();
    let fl = pow2(c) / d;
    run.oracle_case(&format!("newton {} {} {} {} {}", signed as u8, c, iters, d, init_str(init)), true);
    if (res - fl).abs() > 1 {
        let upper = init.map(|x| 2 * d * x > 3 * pow2(c)).unwrap_or(false);
        let sig = format!("C20:tol:newton:{}cap{}:it{}", if upper { "init-supplied-upper-window:" } else if init.is_some() { "init-supplied:" } else { "" }, c, iters);
        fail(run, &sig, format!("NewtonInversion signed={} cap={} iterations={} d={} init={} gives {} want 2^cap/d={:.4} (|err|={:.3} units, unit-test tolerance 1 unit of floor)", signed, c, iters, d, init_str(init), res, exact, err));
    }
}

fn record_newton(run: &mut Run, op: NOp, signed: bool, c: u64, iters: u64, ds: &[i128], inits: Option<&[i128]>) {
    let name = if op == NOp::Newton { "newton" } else { "isqrt" };
    let t0 = std::time::Instant::now();
    let out = eval_newton(op, signed, c, iters, ds, inits);
    if std::env::var("C20_TIMING").is_ok() {
        eprintln!("[c20] {:?} c={} it={} n={} {:.2}s", op, c, iters, ds.len(), t0.elapsed().as_secs_f64());
    }
    let key = format!("{}:c{}:it{}:{}{}", name, c, iters, if signed { "i64" } else { "u64" }, if inits.is_some() { ":init" } else { "" });
    match out {
        Outcome::Panicked(p) => {
            fail(run, &format!("C20:panic:{}", name), format!("{} : {}", key, trunc(&p, 200)));
        }
        Outcome::Rejected => {
            run.count(&format!("{}:rejected", name));
            for (k, d) in ds.iter().enumerate().take(3) {
                let i = inits.map(|v| v[k]);
                run.case(format!("{} {} 64 {} {} {} {}", name, signed as u8, c, iters, d, init_str(i)), "ERR".into(), false);
            }
        }
        Outcome::Vals(vs) => {
            run.count(&format!("{}:configs", name));
            for (k, d) in ds.iter().enumerate() {
                let i = inits.map(|v| v[k]);
                let res = denote_i(vs[k], signed, 64);
                run.case(format!("{} {} 64 {} {} {} {}", name, signed as u8, c, iters, d, init_str(i)), res.to_string(), true);
                let d = *d;
                match op {
                    NOp::Newton => {
                        // documented domain: 0 < d < 2^(c-1), d < 2^32, iterations >= 1 + log2(c)
                        // (and the intermediate (2^(c+1) - x d) x < 2^(2c+1) must fit the type)
                        let in_dom = d > 0 && d < pow2(c.saturating_sub(1)) && d < pow2(32) && c >= 1 && 2 * c + 1 <= if signed { 62 } else { 63 };
                        let init_ok = match i {
                            None => true,
                            Some(x) => d * x >= pow2(c - 1) && d * x < pow2(c + 1),
                        };
                        if in_dom && init_ok && iters >= 1 + ceil_log2(c) {
                            run.count(&format!("oracle:newton:{}", if i.is_some() { "init" } else { "bits" }));
                            check_newton_tol(run, signed, c, iters, d, i, res);
                        } else {
                            run.count("newton:outside-documented-domain");
                        }
                    }
                    NOp::Sqrt => {
                        // documented: 0 < d < 2^(2c-1), d < 2^21; init: 2^(2c-2) <= d*init^2 <= 2^(2c)
                        let in_dom = d > 0 && d < pow2(2 * c - 1) && d < pow2(21);
                        let init_ok = match i {
                            None => true,
                            Some(x) => x > 0 && x < pow2(40) && d * x * x >= pow2(2 * c - 2) && d * x * x <= pow2(2 * c),
                        };
                        if in_dom && init_ok && iters >= 1 + ceil_log2(c) {
                            run.count(&format!("oracle:isqrt:{}", if i.is_some() { "init" } else { "bits" }));
                            let exact = (pow2(c) as f64) / (d as f64).sqrt();
                            run.oracle_case(&format!("isqrt {} {} {} {} {}", signed as u8, c, iters, d, init_str(i)), true);
                            // unit tests: |res - floor(2^c / sqrt d)| <= 1
                            if (res - exact.floor() as i128).abs() > 1 {
                                let sig = format!("C20:tol:isqrt:{}cap{}:it{}", if i.is_some() { "init-supplied:" } else { "" }, c, iters);
                                fail(run, &sig, format!("InverseSqrt signed={} cap={} iterations={} d={} init={} gives {} want 2^cap/sqrt(d)={:.4} (unit-test tolerance 1 unit of floor)", signed, c, iters, d, init_str(i), res, exact));
                            }
                        } else {
                            run.count("isqrt:outside-documented-domain");
                        }
                    }
                }
            }
        }
    }
}

fn sqrt_stream(run: &mut Run) {
    let mut rng = run.rng("S");
    let exh = run.tier.scale(1 << 9, 1 << 10) as i128;
    let mut cfgs: Vec<(u64, u64)> = vec![];
    for c in [2u64, 3, 4, 5, 6, 8, 10, 12, 16, 20, 30, 31] {
        let rot = 1 + ceil_log2(c);
        if run.tier == Tier::Quick && (c == 12 || c == 20) {
            continue;
        }
        cfgs.push((c, rot));
        if c == 10 {
            for it in [0, 1, 8] {
                cfgs.push((c, it));
            }
        } else if c <= 5 || run.tier != Tier::Quick {
            cfgs.push((c, rot + 2));
        }
    }
    for (c, iters) in cfgs {
        for signed in [false, true] {
            if run.tier == Tier::Quick && signed && c > 6 && c != 10 && c < 31 {
                continue;
            }
            let hi = (2 * c - 1).min(21);
            let ds = divisor_grid(2 * c, hi, exh, run.tier.scale(500, 1000) as i128, &mut rng, signed);
            record_newton(run, NOp::Sqrt, signed, c, iters, &ds, None);
        }
    }
    for c in [0u64, 1, 32] {
        record_newton(run, NOp::Sqrt, false, c, 3, &[1, 2, 5], None);
    }
    // supplied initial approximation
    for (c, iters) in [(4u64, 3u64), (10, 5), (10, 4), (16, 5)] {
        for signed in [false, true] {
            let mut ds = vec![];
            let mut is = vec![];
            let dom = pow2((2 * c - 1).min(21));
            let dlist: Vec<i128> = if dom <= 128 { (1..dom).collect() } else { (0..run.tier.scale(60, 150)).map(|_| 1 + rng.below((dom - 1) as u64) as i128).chain([1, 2, 3, 4, 5, dom - 1].into_iter()).collect() };
            for d in dlist {
                let lo = ((pow2(2 * c - 2) as f64 / d as f64).sqrt().ceil()) as i128;
                let hi = ((pow2(2 * c) as f64 / d as f64).sqrt().floor()) as i128;
                let cand = dedup_sorted(vec![lo, lo + 1, hi, hi - 1, (lo + hi) / 2, lo - 1, hi + 1, 1]);
                for i in cand {
                    if i >= 0 {
                        ds.push(d);
                        is.push(i);
                    }
                }
            }
            record_newton(run, NOp::Sqrt, signed, c, iters, &ds, Some(&is));
        }
    }
}

fn gold_stream(run: &mut Run) {
    let mut rng = run.rng("G");
    let mut cfgs: Vec<(bool, u32, u64, u64, bool)> = vec![];
    for (c, iters) in [(1u64, 2u64), (2, 3), (4, 3), (4, 1), (8, 4), (10, 5), (10, 1), (10, 2), (10, 8), (16, 5), (20, 6), (30, 6)] {
        for signed in [false, true] {
            cfgs.push((signed, 64, c, iters, false));
        }
    }
    for (c, iters) in [(10u64, 5u64), (20, 6), (30, 6), (40, 7)] {
        cfgs.push((false, 128, c, iters, false));
        cfgs.push((true, 128, c, iters, false));
    }
    for (c, iters) in [(4u64, 3u64), (10, 5)] {
        cfgs.push((false, 64, c, iters, true));
        cfgs.push((true, 64, c, iters, true));
    }
    let npts = run.tier.scale(700, 2500);
    for (signed, bits, c, iters, with_init) in cfgs {
        let dom = pow2(c.saturating_sub(1));
        let mut a = vec![];
        let mut d = vec![];
        let mut ini = vec![];
        let dividends: Vec<i128> = {
            let mut v = vec![0i128, 1, 2, 3, 7, 100, 123456, 1234567, pow2(c) - 1, pow2(c), pow2(c) + 1];
            if bits == 128 {
                v.push(1234567890123456789);
            }
            if signed {
                v.push(-5);
            }
            v
        };
        for k in 0..npts {
            let dv: i128 = if dom <= 256 && (k as i128) < dom + 3 {
                k as i128
            } else {
                match rng.below(8) {
                    0 => pow2(rng.below(c + 1)),
                    1 => pow2(rng.below(c + 1)) - 1,
                    2 => pow2(rng.below(c + 1)) + 1,
                    3 => dom - 1 - rng.below(3) as i128,
                    4 => 3 * pow2(rng.below(c.max(2) - 1)) / 2,
                    _ => 1 + rng.below(dom.max(2) as u64) as i128,
                }
            };
            let av = if rng.chance(1, 2) { *rng.pick(&dividends) } else { rng.below(1 << 22) as i128 };
            a.push(av);
            d.push(dv.max(0));
            if with_init {
                let dd = dv.max(1);
                let lo = (pow2(c - 1) + dd - 1) / dd;
                let hi = (pow2(c + 1) - 1) / dd;
                let x = match rng.below(5) {
                    0 => lo,
                    1 => hi,
                    2 => pow2(c) / dd,
                    _ => lo + rng.below((hi - lo + 1).max(1) as u64) as i128,
                };
                ini.push(x.max(0));
            }
        }
        let out = eval_gold(signed, bits, c, iters, &a, &d, if with_init { Some(&ini) } else { None });
        let key = format!("gold:c{}:it{}:{}{}{}", c, iters, if signed { "i" } else { "u" }, bits, if with_init { ":init" } else { "" });
        match out {
            Outcome::Panicked(p) => fail(run, "C20:panic:gold", format!("{} : {}", key, trunc(&p, 200))),
            Outcome::Rejected => {
                run.count("gold:rejected");
                fail(run, "C20:reject:gold", key);
            }
            Outcome::Vals(vs) => {
                run.count("gold:configs");
                for k in 0..d.len() {
                    let i = if with_init { Some(ini[k]) } else { None };
                    run.case(format!("gold {} {} {} {} {} {} {}", signed as u8, bits, c, iters, a[k], d[k], init_str(i)), denote(vs[k], signed, bits), true);
                    let (av, dv) = (a[k], d[k]);
                    let init_ok = match i {
                        None => true,
                        Some(x) => dv * x >= pow2(c - 1) && dv * x < pow2(c + 1),
                    };
                    // documented: 0 < divisor < 2^(c-1); dividend positive; no overflow: a * 2^(c+1)/d * 2^(c+1) fits the type
                    let fits = (av as f64) * (pow2(c) as f64) / (dv.max(1) as f64) * (pow2(c + 1) as f64) < 2f64.powi(bits as i32 - 1);
                    if dv > 0 && dv < dom && av > 0 && init_ok && fits && iters >= 1 + ceil_log2(c) {
                        run.count(&format!("oracle:gold:{}", if with_init { "init" } else { "bits" }));
                        run.oracle_case(&format!("gold {} {} {} {} {} {} {}", signed as u8, bits, c, iters, av, dv, init_str(i)), true);
                        let res = denote_i(vs[k], signed, bits) as f64;
                        let exact = (av as f64) * (pow2(c) as f64) / (dv as f64);
                        // unit tests: |res - q| * 100 / q <= 1 in integer arithmetic, i.e. below 2 %; `cap` is the
                        // "number of output bits that are approximated": relative 2^(1-cap) for small caps;
                        // small quotients: one unit per truncation (iterations - 1 rounds + the final floor)
                        let err = (res - exact).abs();
                        let rel_tol = 0.02f64.max(2f64.powi(1 - c as i32));
                        if err > rel_tol * exact && err > iters as f64 {
                            let upper = i.map(|x| 2 * dv * x > 3 * pow2(c)).unwrap_or(false);
                            let sig = format!("C20:tol:gold:{}cap{}:it{}:{}bit", if upper { "init-supplied-upper-window:" } else if with_init { "init-supplied:" } else { "" }, c, iters, bits);
                            fail(run, &sig, format!("GoldschmidtDivision signed={} bits={} cap={} iterations={} a={} d={} init={} gives {} want a*2^cap/d={:.3} (rel err {:.4}, unit-test tolerance 2 %)", signed, bits, c, iters, av, dv, init_str(i), res, exact, err / exact));
                        }
                    } else {
                        run.count("gold:outside-documented-domain");
                    }
                }
            }
        }
    }
}

// ------------------------------------------------------------------------------------------------
// F : FixedMultiply
// ------------------------------------------------------------------------------------------------

fn gen_i64(rng: &mut Rng) -> i128 {
    let mag = match rng.below(10) {
        0 => 0,
        1 => 1,
        2 => (1i128 << rng.below(63)) - 1,
        3 => 1i128 << rng.below(63),
        4 => (1i128 << rng.below(63)) + 1,
        5 => rng.below(1 << 16) as i128,
        6 => rng.below(1 << 32) as i128,
        7 => (rng.next() >> rng.below(64)) as i128 >> 1,
        _ => (rng.next() >> (20 + rng.below(40))) as i128,
    };
    let v = if rng.chance(1, 2) { -mag } else { mag };
    v.clamp(i64::MIN as i128, i64::MAX as i128)
}

fn eval_fmul(p: u64, debug: bool, a: &[i128], b: &[i128]) -> Outcome {
    let n = a.len();
    run_eval(|| {
        let t = array_type(vec![n as u64], INT64);
        let ctx = simple_context(|g| {
            let x = g.input(t.clone())?;
            let y = g.input(t.clone())?;
            g.custom_op(CustomOperation::new(FixedMultiply { config: FixedPrecisionConfig { fractional_bits: p, debug } }), vec![x, y])
        })?;
        eval_ctx(ctx, vec![arr_value(a, INT64, 64)?, arr_value(b, INT64, 64)?], n, INT64)
    })
}

fn fmul_oracle(run: &mut Run, p: u64, debug: bool, a: i128, b: i128, res: Option<i128>) {
    run.oracle_case(&format!("fmul {} {} {} {}", debug as u8, p, a, b), true);
    let prod = a * b; // exact in i128
    let fits = prod >= i64::MIN as i128 && prod <= i64::MAX as i128;
    match res {
        Some(r) => {
            if fits {
                // |r - a*b/2^p| < 1 and r is the quotient rounded toward zero
                let want = prod / pow2(p);
                if r != want || (r * pow2(p) - prod).abs() >= pow2(p) {
                    fail(run, "C20:fmul:wrong", format!("FixedMultiply p={} debug={} a={} b={} gives {} want {}", p, debug, a, b, r, want));
                }
                run.count("fmul:no-overflow");
            } else {
                run.count("fmul:wrapped");
                if debug {
                    fail(run, "C20:fmul:debug-misses-overflow", format!("FixedMultiply debug p={} a={} b={}: product {} overflows but the assert passed", p, a, b, prod));
                }
            }
        }
        None => {
            run.count("fmul:debug-assert-fired");
            // the check may be conservative ("or getting close to it"), but a product below 2^55 must pass
            if prod.abs() < pow2(55) {
                fail(run, "C20:fmul:debug-false-alarm", format!("FixedMultiply debug p={} a={} b={}: |product| < 2^55 but the assert fired", p, a, b));
            }
        }
    }
}

fn fmul_stream(run: &mut Run) {
    let mut rng = run.rng("F");
    // exhaustive small grid, both signs
    for p in [0u64, 1, 2, 3, 5] {
        let r = run.tier.scale(24, 48) as i128;
        let mut a = vec![];
        let mut b = vec![];
        for x in -r..=r {
            for y in -r..=r {
                a.push(x);
                b.push(y);
            }
        }
        match eval_fmul(p, false, &a, &b) {
            Outcome::Vals(vs) => {
                for k in 0..a.len() {
                    let res = denote_i(vs[k], true, 64);
                    run.case(format!("fmul 0 {} {} {}", p, a[k], b[k]), res.to_string(), true);
                    fmul_oracle(run, p, false, a[k], b[k], Some(res));
                }
            }
            Outcome::Rejected => fail(run, "C20:reject:fmul", format!("p={}", p)),
            Outcome::Panicked(m) => fail(run, "C20:panic:fmul", format!("p={} {}", p, trunc(&m, 200))),
        }
    }
    // boundary-biased operands, many precisions
    for p in [0u64, 1, 7, 10, 15, 16, 20, 31, 32, 40, 62, 63] {
        let n = run.tier.scale(400, 1500);
        let mut a = vec![];
        let mut b = vec![];
        for _ in 0..n {
            let x = gen_i64(&mut rng);
            let y = match rng.below(4) {
                0 => {
                    // product near a multiple of 2^p / near the 2^63 boundary
                    let t = if x == 0 { 1 } else { (pow2(63) / x.abs()).max(1) };
                    (t + rng.range(-2, 2) as i128) * if rng.chance(1, 2) { -1 } else { 1 }
                }
                1 => (pow2(p.min(62)) + rng.range(-2, 2) as i128) * if rng.chance(1, 2) { -1 } else { 1 },
                _ => gen_i64(&mut rng),
            };
            a.push(x);
            b.push(y.clamp(i64::MIN as i128, i64::MAX as i128));
        }
        match eval_fmul(p, false, &a, &b) {
            Outcome::Vals(vs) => {
                for k in 0..a.len() {
                    let res = denote_i(vs[k], true, 64);
                    run.case(format!("fmul 0 {} {} {}", p, a[k], b[k]), res.to_string(), true);
                    fmul_oracle(run, p, false, a[k], b[k], Some(res));
                }
            }
            Outcome::Rejected => fail(run, "C20:reject:fmul", format!("p={}", p)),
            Outcome::Panicked(m) => fail(run, "C20:panic:fmul", format!("p={} {}", p, trunc(&m, 200))),
        }
    }
    // debug variant: scalar graphs (an assert fails the whole evaluation), operands around the i+j = 56 frontier
    let n = run.tier.scale(250, 800);
    let t = scalar_type(INT64);
    for p in [0u64, 15] {
        // graphs hold weak references to their contexts: keep the context alive
        let built = catch(|| -> Result<(Context, Graph)> {
            let ctx = simple_context(|g| {
                let x = g.input(t.clone())?;
                let y = g.input(t.clone())?;
                g.custom_op(CustomOperation::new(FixedMultiply { config: FixedPrecisionConfig { fractional_bits: p, debug: true } }), vec![x, y])
            })?;
            let ic = run_instantiation_pass(ctx)?.get_context();
            let g = ic.get_main_graph()?;
            Ok((ic, g))
        });
        let (_keep, g) = match built {
            Ok(Ok(g)) => g,
            _ => {
                fail(run, "C20:reject:fmul-debug", format!("p={}", p));
                continue;
            }
        };
        for k in 0..n {
            let i = rng.below(60);
            let j = match k % 4 {
                0 => 55u64.saturating_sub(i),
                1 => 56u64.saturating_sub(i),
                2 => 57u64.saturating_sub(i),
                _ => rng.below(60),
            };
            let mk = |rng: &mut Rng, h: u64| -> i128 {
                let m = match rng.below(4) {
                    0 => pow2(h),
                    1 => pow2(h + 1) - 1,
                    2 => pow2(h) + (rng.next() as i128 & (pow2(h) - 1)),
                    _ => pow2(h) - 1,
                };
                // negative operands: the check flips bits (~x = -x-1)
                match rng.below(3) {
                    0 => -m,
                    1 => -m - 1,
                    _ => m,
                }
            };
            let (mut a, mut b) = (mk(&mut rng, i), mk(&mut rng, j));
            // operands whose flipped value is 0 (0 and -1): the check is vacuous for them
            let special: [(i128, i128); 6] = [(-1, i64::MIN as i128), (i64::MIN as i128, -1), (0, i64::MIN as i128), (-1, i64::MAX as i128), (1, i64::MIN as i128), (-1, -1)];
            if k < special.len() {
                a = special[k].0;
                b = special[k].1;
            }
            let r = catch(|| random_evaluate(g.clone(), vec![Value::from_scalar(residue(a, 64), INT64).unwrap(), Value::from_scalar(residue(b, 64), INT64).unwrap()]));
            match r {
                Ok(Ok(v)) => {
                    let res = v.to_i64(INT64).unwrap() as i128;
                    run.case(format!("fmul 1 {} {} {}", p, a, b), res.to_string(), true);
                    fmul_oracle(run, p, true, a, b, Some(res));
                }
                Ok(Err(_)) => {
                    run.case(format!("fmul 1 {} {} {}", p, a, b), "ERR".into(), true);
                    fmul_oracle(run, p, true, a, b, None);
                }
                Err(m) => fail(run, "C20:panic:fmul-debug", format!("p={} a={} b={} {}", p, a, b, trunc(&m, 200))),
            }
        }
    }
}

// ------------------------------------------------------------------------------------------------
// P : piecewise-linear approximations
// ------------------------------------------------------------------------------------------------

#[derive(Clone, Debug)]
enum PKind {
    Exp,
    Sigmoid(u64),
    Gelu(u64),
    GeluD(u64),
    /// create_approximation(x, |x| x*x, left, right, precision, config)
    Square { left: f32, right: f32, lb: u64, fl: bool, fr: bool },
}

impl PKind {
    fn name(&self) -> String {
        match self {
            PKind::Exp => "exp".into(),
            PKind::Sigmoid(l) => format!("sigmoid{}", l),
            PKind::Gelu(l) => format!("gelu{}", l),
            PKind::GeluD(l) => format!("gelud{}", l),
            PKind::Square { left, right, lb, fl, fr } => format!("square[{},{}]L{}{}{}", left, right, lb, if *fl { "fl" } else { "" }, if *fr { "fr" } else { "" }),
        }
    }
    fn log_buckets(&self) -> u64 {
        match self {
            PKind::Exp => 6,
            PKind::Sigmoid(l) | PKind::Gelu(l) | PKind::GeluD(l) => *l,
            PKind::Square { lb, .. } => *lb,
        }
    }
    fn range(&self) -> (f64, f64) {
        match self {
            PKind::Exp => (-16.0, 16.0),
            PKind::Sigmoid(_) => (-8.0, 8.0),
            PKind::Gelu(_) | PKind::GeluD(_) => (-4.0, 4.0),
            PKind::Square { left, right, .. } => (*left as f64, *right as f64),
        }
    }
    fn build(&self, g: &Graph, x: Node, p: u64) -> Result<Node> {
        match self {
            PKind::Exp => g.custom_op(CustomOperation::new(ApproxExponent { precision: p }), vec![x]),
            PKind::Sigmoid(l) => g.custom_op(CustomOperation::new(ApproxSigmoid { precision: p, approximation_log_buckets: *l }), vec![x]),
            PKind::Gelu(l) => g.custom_op(CustomOperation::new(ApproxGelu { precision: p, approximation_log_buckets: *l }), vec![x]),
            PKind::GeluD(l) => g.custom_op(CustomOperation::new(ApproxGeluDerivative { precision: p, approximation_log_buckets: *l }), vec![x]),
            PKind::Square { left, right, lb, fl, fr } => create_approximation(x, |x| x * x, *left, *right, p, PWLConfig { log_buckets: *lb, flatten_left: *fl, flatten_right: *fr }),
        }
    }
}

struct Tables {
    alphas: Vec<i64>,
    betas: Vec<i64>,
    left_fp: i64,
    divisor: u128,
    last_scale: u128,
}

/// read the tables back from the Constant / Truncate nodes of the instantiated graph
fn extract_tables(ctx: &Context, lb: u64) -> Result<Tables> {
    let want = (1u64 << lb) + 2;
    let mut arrays: Vec<Vec<i64>> = vec![];
    let mut scalars: Vec<i64> = vec![];
    let mut truncs: Vec<u128> = vec![];
    for g in ctx.get_graphs() {
        for n in g.get_nodes() {
            match n.get_operation() {
                Operation::Constant(t, v) => {
                    if t.is_array() && t.get_scalar_type() == INT64 && t.get_shape() == vec![want] {
                        arrays.push(v.to_flattened_array_i64(t.clone())?);
                    } else if t.is_scalar() && t.get_scalar_type() == INT64 {
                        scalars.push(v.to_i64(INT64)?);
                    }
                }
                Operation::Truncate(s) => truncs.push(s),
                _ => {}
            }
        }
    }
    if arrays.len() != 2 || scalars.is_empty() || truncs.len() != 2 {
        return Err(ciphercore_base::runtime_error!("unexpected PWL graph layout: {} arrays {} scalars {} truncs", arrays.len(), scalars.len(), truncs.len()));
    }
    Ok(Tables { alphas: arrays[0].clone(), betas: arrays[1].clone(), left_fp: scalars[0], divisor: truncs[0], last_scale: truncs[1] })
}

fn sigmoid(x: f64) -> f64 {
    1.0 / (1.0 + (-x).exp())
}
/// the function ApproxGelu documents: the tanh form of GELU (https://arxiv.org/abs/1606.08415)
fn gelu(x: f64) -> f64 {
    let t = (2.0 / std::f64::consts::PI).sqrt() * (x + 0.044715 * x * x * x);
    0.5 * x * (1.0 + t.tanh())
}
/// derivative of the tanh form
fn gelu_d(x: f64) -> f64 {
    let k = (2.0 / std::f64::consts::PI).sqrt();
    let u = k * (x + 0.044715 * x * x * x);
    let th = u.tanh();
    0.5 * (1.0 + th) + 0.5 * x * (1.0 - th * th) * k * (1.0 + 3.0 * 0.044715 * x * x)
}

fn pwl_grid(run: &Run, rng: &mut Rng, kind: &PKind, p: u64, tb: &Tables) -> Vec<i128> {
    let lb = kind.log_buckets();
    let d = tb.divisor.max(1) as i128;
    let left = tb.left_fp as i128;
    let mut v: Vec<i128> = vec![];
    // every bucket boundary ± 2, including the two outside buckets and one step beyond
    for j in -2..=((1i128 << lb) + 2) {
        for e in -2..=2 {
            v.push(left + j * d + e);
        }
        v.push(left + j * d + d / 2);
    }
    // dense sweep over [left - width/4, right + width/4]
    let width = d << lb;
    let n = run.tier.scale(500, 1500) as i128;
    let lo = left - width / 4;
    let span = width + width / 2;
    let step = (span / n).max(1);
    let mut x = lo;
    while x <= lo + span {
        v.push(x + rng.below(step as u64) as i128);
        x += step;
    }
    // zero, small values, far outside, type extremes
    for e in [0i128, 1, -1, 2, -2] {
        v.push(e);
    }
    for k in [1i128, 2, 3, 10, 1000] {
        v.push(left - k * width);
        v.push(left + width + k * width);
    }
    v.push(pow2(40));
    v.push(-pow2(40));
    v.push(pow2(62));
    v.push(-pow2(62));
    v.push(i64::MAX as i128);
    v.push(i64::MIN as i128);
    let _ = p;
    dedup_sorted(v.into_iter().filter(|x| *x >= i64::MIN as i128 && *x <= i64::MAX as i128).collect())
}

fn pwl_stream(run: &mut Run) {
    let mut rng = run.rng("P");
    let mut cfgs: Vec<(PKind, u64)> = vec![];
    let quick = run.tier == Tier::Quick;
    for p in if quick { vec![1u64, 10, 15, 30] } else { vec![1u64, 4, 8, 10, 15, 20, 30] } {
        cfgs.push((PKind::Exp, p));
    }
    for l in [4u64, 5, 6] {
        for p in if quick { vec![10u64, 15] } else { vec![4u64, 10, 15, 20] } {
            cfgs.push((PKind::Sigmoid(l), p));
            cfgs.push((PKind::Gelu(l), p));
            cfgs.push((PKind::GeluD(l), p));
        }
    }
    cfgs.push((PKind::Sigmoid(1), 10));
    cfgs.push((PKind::Sigmoid(2), 15));
    cfgs.push((PKind::Sigmoid(8), 15));
    cfgs.push((PKind::Gelu(7), 15));
    cfgs.push((PKind::Sigmoid(5), 1));
    cfgs.push((PKind::Sigmoid(5), 30));
    for (fl, fr) in [(false, false), (true, true), (true, false), (false, true)] {
        cfgs.push((PKind::Square { left: -2.0, right: 2.0, lb: 4, fl, fr }, 10));
        cfgs.push((PKind::Square { left: 0.0, right: 8.0, lb: 3, fl, fr }, 6));
    }
    // log_buckets > precision: the other branch of the divisor computation; non-power-of-two width
    cfgs.push((PKind::Square { left: -64.0, right: 64.0, lb: 5, fl: true, fr: true }, 2));
    cfgs.push((PKind::Square { left: -3.0, right: 3.0, lb: 4, fl: false, fr: false }, 10));
    cfgs.push((PKind::Square { left: -1.0, right: 1.0, lb: 7, fl: true, fr: false }, 12));

    let mut table_digest = vec![];
    for (kind, p) in cfgs {
        let name = kind.name();
        let tcfg = std::time::Instant::now();
        let t1 = scalar_type(INT64);
        // 1. tables from the graph the code builds
        let tb = match catch(|| -> Result<Tables> {
            let ctx = simple_context(|g| {
                let x = g.input(t1.clone())?;
                kind.build(g, x, p)
            })?;
            let m = run_instantiation_pass(ctx)?;
            extract_tables(&m.get_context(), kind.log_buckets())
        }) {
            Ok(Ok(t)) => t,
            Ok(Err(e)) => {
                fail(run, "C20:reject:pwl", format!("{} p={}: {}", name, p, trunc(&format!("{}", e), 200)));
                continue;
            }
            Err(m) => {
                fail(run, "C20:panic:pwl", format!("{} p={}: {}", name, p, trunc(&m, 200)));
                continue;
            }
        };
        if std::env::var("C20_TIMING").is_ok() {
            eprintln!("[c20] pwl {} p={} tables at {:.2}s", name, p, tcfg.elapsed().as_secs_f64());
        }
        if tb.last_scale != 1u128 << p {
            fail(run, "C20:pwl:layout", format!("{} p={}: final truncation {} != 2^p", name, p, tb.last_scale));
        }
        if tb.divisor == 0 {
            run.count("pwl:divisor-zero-skipped");
            run.notes.push(format!("{} p={}: truncation divisor 0 (log_buckets too large for the interval) — configuration skipped", name, p));
            continue;
        }
        table_digest.push(serde_json::json!({"op": name, "precision": p, "divisor": tb.divisor.to_string(), "left_fp": tb.left_fp, "alpha_0..2": tb.alphas[..3].to_vec(), "beta_0..2": tb.betas[..3].to_vec()}));
        // 2. evaluate over the grid
        let xs = pwl_grid(run, &mut rng, &kind, p, &tb);
        let n = xs.len();
        let out = run_eval(|| {
            let t = array_type(vec![n as u64], INT64);
            let ctx = simple_context(|g| {
                let x = g.input(t.clone())?;
                kind.build(g, x, p)
            })?;
            eval_ctx(ctx, vec![arr_value(&xs, INT64, 64)?], n, INT64)
        });
        let vs = match out {
            Outcome::Vals(v) => v,
            Outcome::Rejected => {
                fail(run, "C20:reject:pwl", format!("{} p={} (array)", name, p));
                continue;
            }
            Outcome::Panicked(m) => {
                fail(run, "C20:panic:pwl", format!("{} p={}: {}", name, p, trunc(&m, 200)));
                continue;
            }
        };
        run.count("pwl:configs");
        if std::env::var("C20_TIMING").is_ok() {
            eprintln!("[c20] pwl {} p={} n={} eval done at {:.2}s", name, p, n, tcfg.elapsed().as_secs_f64());
        }
        let res: Vec<i128> = vs.iter().map(|r| denote_i(*r, true, 64)).collect();
        // 3. model requests in chunks (tables + xs -> results)
        for (cx, cr) in xs.chunks(256).zip(res.chunks(256)) {
            run.case(
                format!("pwl {} {} {} {} {} {} {}", kind.log_buckets(), p, tb.left_fp, tb.divisor, show_list(&tb.alphas), show_list(&tb.betas), show_list(cx)),
                show_list(cr),
                true,
            );
            run.count_n("pwl:points", cx.len() as u64);
        }
        // 4. dense sweep against the real function (a test, not a proof)
        let scale = pow2(p) as f64;
        let (lo, hi) = kind.range();
        let lb = kind.log_buckets();
        for (x, r) in xs.iter().zip(res.iter()) {
            let xf = *x as f64 / scale;
            let rf = *r as f64 / scale;
            let unit = 1.0 / scale;
            let (want, tol, dom): (f64, f64, bool) = match &kind {
                // unit tests: |e - a| / (1 + max(e, a)) <= 0.05 in fixed-point units, on [-10, 10]
                // (the op accepts every precision 1..30)
                PKind::Exp => (xf.exp(), 0.0, xf >= -16.0 && xf <= 16.0),
                // documented max abs error per log_buckets (comment in approx_sigmoid.rs), unit tests 0.01
                PKind::Sigmoid(_) => (sigmoid(xf), match lb { 4 => 0.0163, 5 => 0.0045, 6 => 0.0012, _ => 0.01 } * 1.1 + 2.0 * unit, x.abs() < pow2(40) && lb >= 4 && lb <= 6 && p >= 4),
                PKind::Gelu(_) => (gelu(xf), match lb { 4 => 0.0232, 5 => 0.0059, 6 => 0.0015, _ => 0.01 } * 1.1 + 2.0 * unit, xf <= 2.0 * hi && x.abs() < pow2(40) && lb >= 4 && lb <= 6 && p >= 4),
                PKind::GeluD(_) => (gelu_d(xf), match lb { 4 => 0.024, 5 => 0.006, 6 => 0.0015, _ => 0.01 } * 1.1 + 2.0 * unit, x.abs() < pow2(40) && lb >= 4 && lb <= 6 && p >= 4),
                // approx_pointwise.rs unit tests: inner 0.02, edges 0.2 (log_buckets 4 on [-2,2], p = 10)
                PKind::Square { lb, left, right, fl, fr } => {
                    let inner = xf >= lo && xf <= hi;
                    let w = hi - lo;
                    let h = w / (1u64 << lb) as f64;
                    // chord error h^2/4 for x^2 plus rounding of the table; outside: one bucket of extrapolation
                    let dom = p >= 6 && (inner || (xf >= lo - h && !*fl && xf < lo) || (xf <= hi + h && !*fr && xf > hi));
                    let _ = (left, right);
                    (xf * xf, h * h / 4.0 + (4.0 + 2.0 * xf.abs()) * (1u64 << lb) as f64 * unit / w.min(1.0).max(0.25) + 0.02, dom)
                }
            };
            if !dom {
                run.count("pwl:outside-documented-domain");
                continue;
            }
            run.oracle_case(&format!("pwl {} p={} x={}", name, p, x), true);
            run.count(&format!("oracle:pwl:{}", name.split('[').next().unwrap_or("")));
            let bad = match &kind {
                PKind::Exp => {
                    // the unit tests' metric on truncated values, or two fixed-point units
                    let (e, a) = ((want * scale).floor(), *r as f64);
                    (e - a).abs() / (1.0 + e.max(a)) > 0.05 && (want * scale - a).abs() > 2.0
                }
                _ => (rf - want).abs() > tol,
            };
            if bad {
                fail(run, 
                    &format!("C20:tol:pwl:{}:p{}", name, p),
                    format!("{} precision={} x={} (= {:.6}) gives {} (= {:.6}) want {:.6} |err|={:.6} tolerance {:.6}", name, p, x, xf, r, rf, want, (rf - want).abs(), tol),
                );
            }
        }
    }
    if std::env::var("C20_TIMING").is_ok() {
        eprintln!("[c20] pwl end");
    }
    run.extra.insert("pwl_tables_extracted_from_constants".into(), serde_json::Value::Array(table_digest.into_iter().take(12).collect()));
}

// ------------------------------------------------------------------------------------------------
// T : TaylorExponent
// ------------------------------------------------------------------------------------------------

fn texp_stream(run: &mut Run) {
    let mut rng = run.rng("T");
    for (terms, p) in [(5u64, 10u64), (5, 15), (5, 4), (5, 0), (1, 10), (2, 10), (3, 8), (8, 10), (8, 15), (6, 12), (0, 10), (5, 16)] {
        // the two f64-derived constants, by the formulas of taylor_exponent.rs
        let c1 = (((1u64 << p.min(40)) as f64) / 2.0_f64.ln()) as u64;
        let c2 = (2_f64.ln() * ((1u64 << p.min(40)) as f64)) as u64;
        let unit = pow2(p.min(40));
        let mut xs: Vec<i128> = vec![];
        let n = run.tier.scale(1200, 5000) as i128;
        let lo = -12 * unit;
        let hi = 22 * unit;
        let step = ((hi - lo) / n).max(1);
        let mut x = lo;
        while x <= hi {
            xs.push(x + rng.below(step as u64) as i128);
            x += step;
        }
        for k in -24..=24i128 {
            // integer arguments and multiples of ln 2 (where the integer/fraction split changes)
            for e in [-1i128, 0, 1] {
                xs.push(k * unit + e);
                xs.push(((k as f64) * 2f64.ln() * unit as f64) as i128 + e);
            }
        }
        for e in [-10 * unit - 2, -10 * unit - 1, -10 * unit, -10 * unit + 1, -7 * unit, i64::MAX as i128, i64::MIN as i128, pow2(40), -pow2(40)] {
            xs.push(e);
        }
        let xs = dedup_sorted(xs);
        let nn = xs.len();
        let out = run_eval(|| {
            let t = array_type(vec![nn as u64], INT64);
            let ctx = simple_context(|g| {
                let x = g.input(t.clone())?;
                g.custom_op(CustomOperation::new(TaylorExponent { taylor_terms: terms, fixed_precision_points: p }), vec![x])
            })?;
            eval_ctx(ctx, vec![arr_value(&xs, INT64, 64)?], nn, INT64)
        });
        match out {
            Outcome::Panicked(m) => fail(run, "C20:panic:texp", format!("terms={} p={}: {}", terms, p, trunc(&m, 200))),
            Outcome::Rejected => {
                run.count("texp:rejected");
                if p <= 15 {
                    fail(run, "C20:reject:texp", format!("terms={} p={}", terms, p));
                }
            }
            Outcome::Vals(vs) => {
                run.count("texp:configs");
                let res: Vec<i128> = vs.iter().map(|r| denote_i(*r, true, 64)).collect();
                for (cx, cr) in xs.chunks(256).zip(res.chunks(256)) {
                    run.case(format!("texp {} {} {} {} {}", terms, p, c1, c2, show_list(cx)), show_list(cr), true);
                    run.count_n("texp:points", cx.len() as u64);
                }
                // documented: "works with 31-bit fixed-point arithmetic": exp(x)*2^p < 2^31; 5 terms "typically enough";
                // below -10 the result is 0 by design; unit tests: |e-a|/(1+max(e,a)) <= 0.01 with 5 terms, p = 10
                if terms >= 5 && p >= 10 {
                    let scale = unit as f64;
                    for (x, r) in xs.iter().zip(res.iter()) {
                        let xf = *x as f64 / scale;
                        let e = (xf.exp() * scale).floor();
                        if xf < -10.0 || e >= 2f64.powi(31) * 0.99 {
                            run.count("texp:outside-documented-domain");
                            continue;
                        }
                        run.oracle_case(&format!("texp {} {} {}", terms, p, x), true);
                        run.count("oracle:texp");
                        let a = *r as f64;
                        let rel = (e - a).abs() / (1.0 + e.max(a));
                        if rel > 0.01 && (xf.exp() * scale - a).abs() > 2.0 {
                            fail(run, &format!("C20:tol:texp:terms{}:p{}", terms, p), format!("TaylorExponent terms={} p={} x={} (= {:.5}) gives {} want {:.2} relative error {:.4} (unit-test tolerance 0.01)", terms, p, x, xf, r, e, rel));
                        }
                    }
                }
            }
        }
    }
}

// ------------------------------------------------------------------------------------------------
// M : compiled (MPC) vs plaintext
// ------------------------------------------------------------------------------------------------

fn mpc_stream(run: &mut Run) {
    let mut rng = run.rng("M");
    let n = run.tier.scale(48, 256);
    // (name, builder, inputs, allowed absolute difference in units)
    struct Job {
        name: &'static str,
        ctx: Result<Context>,
        inputs: Vec<Vec<i128>>,
        st: ScalarType,
        tol: i128,
    }
    let t64 = array_type(vec![n as u64], INT64);
    let mut jobs: Vec<Job> = vec![];
    {
        let t = t64.clone();
        let a: Vec<i128> = (0..n).map(|_| rng.range(-(1 << 24), 1 << 24) as i128).collect();
        let b: Vec<i128> = (0..n).map(|_| rng.range(-(1 << 24), 1 << 24) as i128).collect();
        jobs.push(Job {
            name: "FixedMultiply(p=15)",
            ctx: simple_context(|g| {
                let x = g.input(t.clone())?;
                let y = g.input(t.clone())?;
                g.custom_op(CustomOperation::new(FixedMultiply { config: FixedPrecisionConfig { fractional_bits: 15, debug: false } }), vec![x, y])
            }),
            inputs: vec![a, b],
            st: INT64,
            tol: 1,
        });
    }
    {
        let t = t64.clone();
        let d: Vec<i128> = (0..n).map(|k| if k < 8 { 1 + k as i128 } else { 1 + rng.below(511) as i128 }).collect();
        jobs.push(Job {
            name: "NewtonInversion(cap=10,it=5)",
            ctx: simple_context(|g| {
                let x = g.input(t.clone())?;
                g.custom_op(CustomOperation::new(NewtonInversion { iterations: 5, denominator_cap_2k: 10 }), vec![x])
            }),
            inputs: vec![d],
            st: INT64,
            // every truncation may be off by one unit in the secure protocol; errors contract quadratically
            tol: 8,
        });
    }
    {
        let t = t64.clone();
        let x: Vec<i128> = (0..n).map(|_| rng.range(-(10 << 10), 10 << 10) as i128).collect();
        jobs.push(Job {
            name: "ApproxSigmoid(p=10,L=5)",
            ctx: simple_context(|g| {
                let i = g.input(t.clone())?;
                g.custom_op(CustomOperation::new(ApproxSigmoid { precision: 10, approximation_log_buckets: 5 }), vec![i])
            }),
            inputs: vec![x],
            st: INT64,
            // the secure Truncate is probabilistic (+-1 with probability ~ the dropped fraction), so the
            // NEIGHBOURING bucket can be selected anywhere inside a bucket: the segment is then extrapolated by up
            // to one bucket width h: |f''| h^2 = 0.0962 * 0.25 = 0.024 -> 25 units at p = 10, plus rounding
            tol: 27,
        });
    }
    for job in jobs {
        let ctx = match job.ctx {
            Ok(c) => c,
            Err(_) => {
                fail(run, "C20:mpc:build", job.name.into());
                continue;
            }
        };
        let ins = vec![IOStatus::Shared; job.inputs.len()];
        let outs = vec![IOStatus::Party(0)];
        let types: Vec<Type> = job.inputs.iter().map(|_| t64.clone()).collect();
        let values: Vec<Value> = job.inputs.iter().map(|v| arr_value(v, job.st, 64).unwrap()).collect();
        let seed = rng.seed16();
        let pseed = rng.seed16();
        let r = catch(|| -> Result<(Vec<u128>, Vec<u128>)> {
            let plain = {
                let m = run_instantiation_pass(ctx.clone())?;
                random_evaluate(m.get_context().get_main_graph()?, values.clone())?.to_flattened_array_u128(t64.clone())?
            };
            let cc = compile(&ctx, &ins, &outs, 0)?;
            let mut prng = PRNG::new(Some(pseed))?;
            let gin = global_inputs(&ins, &types, &values, &mut prng)?;
            let vals = global_run(&cc, gin, seed)?;
            let oid = cc.get_main_graph()?.get_output_node()?.get_id() as usize;
            let out = reveal_if_shared(vals[oid].clone(), &t64, &outs)?;
            Ok((plain, out.to_flattened_array_u128(t64.clone())?))
        });
        match r {
            Ok(Ok((plain, sec))) => {
                let mut maxdiff = 0i128;
                for k in 0..n {
                    let (a, b) = (denote_i(plain[k], true, 64), denote_i(sec[k], true, 64));
                    run.oracle_case(&format!("mpc {} #{}", job.name, k), true);
                    let diff = (a - b).abs();
                    maxdiff = maxdiff.max(diff);
                    if diff > job.tol {
                        fail(run, "C20:mpc:differs", format!("{} inputs {:?}: plaintext {} compiled {} (allowed difference {})", job.name, job.inputs.iter().map(|v| v[k]).collect::<Vec<_>>(), a, b, job.tol));
                    }
                }
                run.count(&format!("mpc:{}:maxdiff={}", job.name, maxdiff));
            }
            Ok(Err(e)) => fail(run, "C20:mpc:error", format!("{}: {}", job.name, trunc(&format!("{}", e), 200))),
            Err(m) => fail(run, "C20:panic:mpc", format!("{}: {}", job.name, trunc(&m, 200))),
        }
    }
}

pub fn corr(run: &mut Run) {
    run.rule = "DENSE SWEEP (a test, not a proof). One-op graphs with the real custom operations are instantiated and evaluated by the \
                simple evaluator on input arrays. Stream N: NewtonInversion, caps 1..32 x iteration counts (rule of thumb 1+log2 cap, +-2, 0) x \
                UINT64/INT64; divisors exhaustive up to 2^10 (quick) / 2^13, every 2^k-1, 2^k, 2^k+1, 1.5*2^k, a jittered stride over the rest of the \
                domain, the domain end 2^(cap-1), the cap and values far outside; with a supplied initial approximation: lowest/highest/middle \
                admissible guess per divisor and the first inadmissible ones. Stream S: InverseSqrt likewise (caps 2..31, 4^k +- 1). Stream G: \
                GoldschmidtDivision (64- and 128-bit, with/without guess). Stream F: FixedMultiply, all pairs of [-24,24]^2 (quick) for five \
                precisions, boundary-biased i64 pairs for 12 precisions (products near 2^63 and near multiples of 2^p), debug variant around \
                the i+j=56 frontier of the overflow check, both signs. Stream P: ApproxExponent/Sigmoid/Gelu/GeluDerivative and \
                create_approximation(x^2) for many precisions / bucket counts / flatten flags; the tables are read back from the Constant and \
                Truncate nodes of the instantiated graph; x = every bucket boundary +-2 and midpoints, a jittered dense stride over 1.5x the \
                interval, far outside, i64 extremes. Stream T: TaylorExponent. Every evaluated point is a model request (exact integer \
                equality) and, on the documented domain, an oracle check against the real function in f64 with the tolerance of the op's \
                documentation / unit tests. Stream M: compiled (3-party, shared inputs) vs plaintext for FixedMultiply, NewtonInversion, \
                ApproxSigmoid, loosely bounded. Non-trivial: a real operation was evaluated at the point; distinct by request text."
        .to_owned();
    let t0 = std::time::Instant::now();
    let mut lap = |what: &str| eprintln!("[c20] {} done at {:.1}s", what, t0.elapsed().as_secs_f64());
    newton_stream(run);
    lap("newton");
    sqrt_stream(run);
    lap("isqrt");
    gold_stream(run);
    lap("goldschmidt");
    fmul_stream(run);
    lap("fixed-multiply");
    pwl_stream(run);
    lap("pwl");
    texp_stream(run);
    lap("taylor-exp");
    mpc_stream(run);
    lap("mpc");
}
