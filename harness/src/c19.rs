//! C19 — joins implement the documented relational semantics, also when compiled.
//! Streams:
//!   X  enumerated small tables (2×2 / 3×2 rows, every row null / live with one of 3 keys / masked key)
//!   R  random tables: 1..9 rows, 0..8 live rows, null rows and masked keys anywhere (their keys may
//!      collide with live keys), 1..3 key columns of differing scalar types and row shapes, payload
//!      columns, shuffled column order (null column anywhere), key names shared / not shared,
//!      disjoint / partial / full overlap
//!   plaintext `SimpleEvaluator` join  vs  the Lean model `Join.impl` (request = tables, answer = table)
//!   and vs the ORACLE `ref_join`: a reference relational join written from the documentation of
//!   `Graph::join` / `join_with_column_masks`, working on named columns and comparing keys column by column
//!   (independent of evaluators/join.rs).
//!   C  compiled join (random owners / outputs, inline mode 0) under one evaluator vs plaintext
//!   T  three-party execution of the compiled join vs plaintext
//!   N  three-party execution of joins on a 3-bit key column with many unmatched rows
//!   E  malformed join requests (must be rejected)
use crate::mpc_common::*;
use crate::util::*;
use crate::vals::*;
use ciphercore_base::data_types::*;
use ciphercore_base::data_values::Value;
use ciphercore_base::errors::Result;
use ciphercore_base::evaluators::random_evaluate;
use ciphercore_base::graphs::*;
use ciphercore_base::mpc::mpc_compiler::IOStatus;
use ciphercore_base::random::PRNG;
use ciphercore_base::type_inference::NULL_HEADER;
use std::collections::HashMap;

#[derive(Clone, Debug)]
struct ColSpec {
    name: String,
    st: ScalarType,
    /// dimensions after the row dimension
    rshape: Vec<u64>,
}

impl ColSpec {
    fn width(&self) -> usize {
        self.rshape.iter().product::<u64>() as usize
    }
}

/// a table in native form; `cols` excludes the null column, which sits at `null_pos` of the named tuple
#[derive(Clone, Debug)]
struct Tbl {
    n: usize,
    cols: Vec<ColSpec>,
    null_pos: usize,
    null: Vec<u8>,
    /// per column, per row
    mask: Vec<Vec<u8>>,
    /// per column, per row, the elements of the entry
    data: Vec<Vec<Vec<Z>>>,
}

#[derive(Clone, Debug)]
struct Scenario {
    jt: JoinType,
    masked: bool,
    a: Tbl,
    b: Tbl,
    /// pairs (column index in a, column index in b)
    keys: Vec<(usize, usize)>,
    /// a key column of the second table carries the name of a non-key column of the first one
    /// (accepted by join_inference)
    quirk: bool,
}

thread_local! {
    static PER_SIG: std::cell::RefCell<HashMap<String, u32>> = std::cell::RefCell::new(HashMap::new());
}

/// `Run::oracle_fail`, but at most 8 details are kept per signature (all are counted): `Run` keeps only the
/// first 200 failures of a run, which frequent known findings would otherwise use up
fn fail(run: &mut Run, sig: &str, detail: String) {
    let n = PER_SIG.with(|m| {
        let mut m = m.borrow_mut();
        let e = m.entry(sig.to_owned()).or_insert(0);
        *e += 1;
        *e
    });
    if n <= 8 {
        run.oracle_fail(sig, detail);
    } else {
        run.count(&format!("oracle_fail:{}", sig));
    }
}

fn jt_name(jt: JoinType) -> &'static str {
    match jt {
        JoinType::Inner => "inner",
        JoinType::Left => "left",
        JoinType::Union => "union",
        JoinType::Full => "full",
    }
}

const JTS: [JoinType; 4] = [JoinType::Inner, JoinType::Left, JoinType::Union, JoinType::Full];

// ------------------------------------------------------------------------------------------------
// canonical text form shared with the Lean driver
// ------------------------------------------------------------------------------------------------

#[derive(Clone, Debug, PartialEq)]
struct RRow {
    null: u8,
    cells: Vec<(u8, Vec<Z>)>,
}

/// a result table: headers in result order (incl. the null header) and rows (cells in header order, null left out)
#[derive(Clone, Debug, PartialEq)]
struct RTable {
    headers: Vec<String>,
    rows: Vec<RRow>,
}

fn show_rows(rows: &[RRow], masked: bool) -> String {
    if rows.is_empty() {
        return "_".into();
    }
    rows.iter()
        .map(|r| {
            let mut s = format!("{}", r.null);
            for (m, d) in &r.cells {
                s.push('|');
                if masked {
                    s += &format!("{}:", m);
                }
                s += &show_list(d);
            }
            s
        })
        .collect::<Vec<_>>()
        .join(";")
}

fn tbl_rows(t: &Tbl) -> Vec<RRow> {
    (0..t.n).map(|i| RRow { null: t.null[i], cells: (0..t.cols.len()).map(|c| (t.mask[c][i], t.data[c][i].clone())).collect() }).collect()
}

impl Scenario {
    fn request(&self) -> String {
        format!(
            "{} {} {} {} {} {} {} {}",
            jt_name(self.jt),
            self.masked as u8,
            show_list(&self.keys.iter().map(|k| k.0).collect::<Vec<_>>()),
            show_list(&self.keys.iter().map(|k| k.1).collect::<Vec<_>>()),
            show_list(&self.a.cols.iter().map(|c| c.width()).collect::<Vec<_>>()),
            show_list(&self.b.cols.iter().map(|c| c.width()).collect::<Vec<_>>()),
            show_rows(&tbl_rows(&self.a), true),
            show_rows(&tbl_rows(&self.b), true)
        )
    }
    fn headers(&self) -> HashMap<String, String> {
        self.keys.iter().map(|(i, j)| (self.a.cols[*i].name.clone(), self.b.cols[*j].name.clone())).collect()
    }
    fn describe(&self) -> String {
        let cols = |t: &Tbl| t.cols.iter().map(|c| format!("{}:{}{:?}", c.name, st_name(c.st), c.rshape)).collect::<Vec<_>>().join(",");
        format!("A(nullpos {})[{}] B(nullpos {})[{}] keys {:?} :: {}", self.a.null_pos, cols(&self.a), self.b.null_pos, cols(&self.b), self.keys, self.request())
    }
}

// ------------------------------------------------------------------------------------------------
// ORACLE: reference relational join written from the documentation (graphs.rs, `join`)
// ------------------------------------------------------------------------------------------------

fn zero_cell(c: &ColSpec) -> (u8, Vec<Z>) {
    (0, vec![Z::I(0); c.width()])
}

/// a cell as it appears in a result: an entry whose mask is 0 carries no data
fn out_cell(t: &Tbl, c: usize, i: usize) -> (u8, Vec<Z>) {
    if t.mask[c][i] == 1 {
        (1, t.data[c][i].clone())
    } else {
        zero_cell(&t.cols[c])
    }
}

/// "Rows with zero NULL_HEADER are ignored", "rows with zero mask elements [in key headers] don't match"
fn takes_part(t: &Tbl, i: usize, key_cols: &[usize]) -> bool {
    t.null[i] == 1 && key_cols.iter().all(|c| t.mask[*c][i] == 1)
}

fn ref_join(s: &Scenario) -> RTable {
    let (a, b) = (&s.a, &s.b);
    let ka: Vec<usize> = s.keys.iter().map(|k| k.0).collect();
    let kb: Vec<usize> = s.keys.iter().map(|k| k.1).collect();
    // result columns: the columns of the first table, then the non-key columns of the second one
    #[derive(Clone, Copy)]
    enum Src {
        Null,
        A(usize),
        B(usize),
    }
    let mut layout: Vec<(String, Src)> = vec![];
    {
        let mut ci = 0;
        for pos in 0..=a.cols.len() {
            if pos == a.null_pos {
                layout.push((NULL_HEADER.to_owned(), Src::Null));
            } else {
                layout.push((a.cols[ci].name.clone(), Src::A(ci)));
                ci += 1;
            }
        }
        for (j, c) in b.cols.iter().enumerate() {
            if !kb.contains(&j) {
                layout.push((c.name.clone(), Src::B(j)));
            }
        }
    }
    // matching: rows with the same row key, column by column
    let same_key = |i: usize, j: usize| s.keys.iter().all(|(ca, cb)| a.data[*ca][i] == b.data[*cb][j]);
    let match_in_b = |i: usize| -> Option<usize> {
        if !takes_part(a, i, &ka) {
            return None;
        }
        (0..b.n).find(|j| takes_part(b, *j, &kb) && same_key(i, *j))
    };
    let match_in_a = |j: usize| -> Option<usize> {
        if !takes_part(b, j, &kb) {
            return None;
        }
        (0..a.n).find(|i| takes_part(a, *i, &ka) && same_key(*i, j))
    };
    // one result row from an optional row of a and an optional row of b
    let mk = |ia: Option<usize>, jb: Option<usize>| -> RRow {
        if ia.is_none() && jb.is_none() {
            let cells = layout.iter().filter_map(|(_, src)| match src {
                Src::Null => None,
                Src::A(c) => Some(zero_cell(&a.cols[*c])),
                Src::B(c) => Some(zero_cell(&b.cols[*c])),
            });
            return RRow { null: 0, cells: cells.collect() };
        }
        let mut cells = vec![];
        for (_, src) in &layout {
            match src {
                Src::Null => {}
                Src::A(c) => {
                    let cell = if let Some(i) = ia {
                        out_cell(a, *c, i)
                    } else if let Some(p) = ka.iter().position(|k| k == c) {
                        // a row of the second table: its key goes to the paired key column
                        out_cell(b, kb[p], jb.unwrap())
                    } else {
                        zero_cell(&a.cols[*c])
                    };
                    cells.push(cell);
                }
                Src::B(c) => cells.push(if let Some(j) = jb { out_cell(b, *c, j) } else { zero_cell(&b.cols[*c]) }),
            }
        }
        RRow { null: 1, cells }
    };
    let mut rows = vec![];
    match s.jt {
        JoinType::Inner => {
            for i in 0..a.n {
                rows.push(match match_in_b(i) {
                    Some(j) => mk(Some(i), Some(j)),
                    None => mk(None, None),
                });
            }
        }
        JoinType::Left => {
            for i in 0..a.n {
                rows.push(if a.null[i] == 0 { mk(None, None) } else { mk(Some(i), match_in_b(i)) });
            }
        }
        JoinType::Union | JoinType::Full => {
            // 1. the rows of the first set that don't belong to the inner join
            for i in 0..a.n {
                rows.push(if a.null[i] == 1 && match_in_b(i).is_none() { mk(Some(i), None) } else { mk(None, None) });
            }
            // 2. all the rows of the second set (full: merged with the rows of the first set as in inner join)
            for j in 0..b.n {
                rows.push(if b.null[j] == 0 {
                    mk(None, None)
                } else if s.jt == JoinType::Full {
                    mk(match_in_a(j), Some(j))
                } else {
                    mk(None, Some(j))
                });
            }
        }
    }
    RTable { headers: layout.into_iter().map(|l| l.0).collect(), rows }
}

// ------------------------------------------------------------------------------------------------
// building the graph and the values
// ------------------------------------------------------------------------------------------------

fn col_type(n: usize, c: &ColSpec) -> Type {
    let mut s = vec![n as u64];
    s.extend(c.rshape.iter());
    array_type(s, c.st)
}

fn col_data_value(t: &Tbl, c: usize) -> Result<Value> {
    let flat: Vec<Z> = t.data[c].iter().flatten().cloned().collect();
    value_of(t.cols[c].st, &flat)
}

struct Built {
    ctx: Context,
    in_types: Vec<Type>,
    out_type: Type,
    inputs: Vec<Value>,
}

/// `split[t]`: the table is given column by column (one input per array) instead of one named-tuple input
fn build(s: &Scenario, split: [bool; 2]) -> Result<Built> {
    let c = create_context()?;
    let g = c.create_graph()?;
    let mut inputs = vec![];
    let mut nodes = vec![];
    for (ti, t) in [&s.a, &s.b].iter().enumerate() {
        let mut elems_t: Vec<(String, Type)> = vec![];
        let mut elems_v: Vec<Value> = vec![];
        let mut ci = 0;
        for pos in 0..=t.cols.len() {
            if pos == t.null_pos {
                elems_t.push((NULL_HEADER.to_owned(), array_type(vec![t.n as u64], BIT)));
                elems_v.push(Value::from_flattened_array(&t.null, BIT)?);
            } else {
                let dt = col_type(t.n, &t.cols[ci]);
                let dv = col_data_value(t, ci)?;
                if s.masked {
                    let mt = array_type(vec![t.n as u64], BIT);
                    let mv = Value::from_flattened_array(&t.mask[ci], BIT)?;
                    elems_t.push((t.cols[ci].name.clone(), tuple_type(vec![mt, dt])));
                    elems_v.push(Value::from_vector(vec![mv, dv]));
                } else {
                    elems_t.push((t.cols[ci].name.clone(), dt));
                    elems_v.push(dv);
                }
                ci += 1;
            }
        }
        if split[ti] {
            let mut cols = vec![];
            for ((name, ty), v) in elems_t.into_iter().zip(elems_v.into_iter()) {
                if let Type::Tuple(parts) = &ty {
                    let vs = v.to_vector()?;
                    let m = g.input((*parts[0]).clone())?;
                    let d = g.input((*parts[1]).clone())?;
                    inputs.push(vs[0].clone());
                    inputs.push(vs[1].clone());
                    cols.push((name, g.create_tuple(vec![m, d])?));
                } else {
                    cols.push((name, g.input(ty)?));
                    inputs.push(v);
                }
            }
            nodes.push(g.create_named_tuple(cols)?);
        } else {
            nodes.push(g.input(named_tuple_type(elems_t))?);
            inputs.push(Value::from_vector(elems_v));
        }
    }
    let j = if s.masked { nodes[0].join_with_column_masks(nodes[1].clone(), s.jt, s.headers())? } else { nodes[0].join(nodes[1].clone(), s.jt, s.headers())? };
    j.set_as_output()?;
    g.finalize()?;
    c.set_main_graph(g.clone())?;
    c.finalize()?;
    let mut in_types = vec![];
    for n in g.get_nodes() {
        if let Operation::Input(t) = n.get_operation() {
            in_types.push(t);
        }
    }
    let out_type = j.get_type()?;
    Ok(Built { ctx: c, in_types, out_type, inputs })
}

/// decode a result value of the given named-tuple type
fn decode(v: &Value, t: &Type, masked: bool) -> Result<RTable> {
    let named = if let Type::NamedTuple(v) = t { v.clone() } else { return Err(ciphercore_base::runtime_error!("result is not a named tuple")) };
    let cols = v.to_vector()?;
    let mut headers = vec![];
    let mut null: Vec<u8> = vec![];
    let mut cells: Vec<Vec<(u8, Vec<Z>)>> = vec![];
    for (i, (h, ct)) in named.iter().enumerate() {
        headers.push(h.clone());
        if h == NULL_HEADER {
            null = cols[i].to_flattened_array_u8((**ct).clone())?;
            continue;
        }
        let (mask, dt, dv): (Option<Vec<u8>>, Type, Value) = if masked {
            let parts = if let Type::Tuple(p) = &**ct { p.clone() } else { return Err(ciphercore_base::runtime_error!("masked column is not a tuple")) };
            let vs = cols[i].to_vector()?;
            (Some(vs[0].to_flattened_array_u8((*parts[0]).clone())?), (*parts[1]).clone(), vs[1].clone())
        } else {
            (None, (**ct).clone(), cols[i].clone())
        };
        let shape = dt.get_shape();
        let st = dt.get_scalar_type();
        let flat = elems_of(&dv, &shape, st)?;
        let n = shape[0] as usize;
        let w = flat.len() / n.max(1);
        let col: Vec<(u8, Vec<Z>)> = (0..n).map(|r| (mask.as_ref().map(|m| m[r]).unwrap_or(1), flat[r * w..(r + 1) * w].to_vec())).collect();
        cells.push(col);
    }
    let n = null.len();
    for c in &cells {
        if c.len() != n {
            return Err(ciphercore_base::runtime_error!("columns of different lengths"));
        }
    }
    let rows = (0..n).map(|r| RRow { null: null[r], cells: cells.iter().map(|c| c[r].clone()).collect() }).collect();
    Ok(RTable { headers, rows })
}

/// the columns of a named-tuple value rearranged into the header order of another named-tuple type with the same columns
fn permute_columns(v: &Value, from: &Type, to: &Type) -> Option<Value> {
    let (f, t) = match (from, to) {
        (Type::NamedTuple(f), Type::NamedTuple(t)) => (f, t),
        _ => return None,
    };
    if f.len() != t.len() {
        return None;
    }
    let cols = v.to_vector().ok()?;
    let mut out = vec![];
    for (h, ty) in t {
        let i = f.iter().position(|x| x.0 == *h)?;
        if f[i].1 != *ty {
            return None;
        }
        out.push(cols[i].clone());
    }
    Some(Value::from_vector(out))
}

/// in the variant without masks the mask bits of a reference table are not observable
fn strip_masks(mut t: RTable) -> RTable {
    for r in t.rows.iter_mut() {
        for c in r.cells.iter_mut() {
            c.0 = 1;
        }
    }
    t
}

// ------------------------------------------------------------------------------------------------
// generators
// ------------------------------------------------------------------------------------------------

fn gen_key_elem(rng: &mut Rng, st: ScalarType) -> Z {
    if st == BIT {
        return Z::I(rng.below(2) as i128);
    }
    // small domain so that tuples share components; now and then a boundary value
    match rng.below(8) {
        0 => gen_elem(rng, st),
        1 if st.is_signed() => Z::I(-1),
        _ => Z::I(rng.below(3) as i128),
    }
}

fn gen_scenario(rng: &mut Rng, jt: JoinType, masked: bool, small: bool) -> Scenario {
    let key_sts = [INT32, UINT64, UINT8, BIT, INT64, INT16, UINT128, INT8, UINT32];
    let rshapes: [&[u64]; 5] = [&[], &[], &[2], &[3], &[2, 2]];
    let nk = 1 + rng.below(3) as usize;
    let mut kspecs: Vec<(ScalarType, Vec<u64>)> = vec![];
    for _ in 0..nk {
        let st = *rng.pick(&key_sts);
        let mut rs = rng.pick(&rshapes).to_vec();
        if st == BIT && rs.is_empty() && nk == 1 {
            rs = vec![4];
        }
        kspecs.push((st, rs));
    }
    // pool of distinct key tuples
    let mut pool: Vec<Vec<Vec<Z>>> = vec![];
    for _ in 0..400 {
        if pool.len() >= 14 {
            break;
        }
        let k: Vec<Vec<Z>> = kspecs.iter().map(|(st, rs)| (0..rs.iter().product::<u64>()).map(|_| gen_key_elem(rng, *st)).collect()).collect();
        if !pool.contains(&k) {
            pool.push(k);
        }
    }
    let max_rows = if small { 4 } else { 9 };
    let overlap = rng.below(4); // 0 disjoint, 1/2 partial, 3 full
    let mut tables = vec![];
    let half = (pool.len() / 2).max(1);
    for ti in 0..2 {
        let n = 1 + rng.below(max_rows) as usize;
        // key columns + payload columns, shuffled
        let n_pay = rng.below(3) as usize;
        let mut cols: Vec<(ColSpec, Option<usize>)> = vec![];
        for (i, (st, rs)) in kspecs.iter().enumerate() {
            cols.push((ColSpec { name: format!("k{}", i), st: *st, rshape: rs.clone() }, Some(i)));
        }
        for i in 0..n_pay {
            let st = *rng.pick(&ALL_ST);
            let rs = rng.pick(&rshapes).to_vec();
            cols.push((ColSpec { name: format!("{}{}", if ti == 0 { "a" } else { "b" }, i), st, rshape: rs }, None));
        }
        rng.shuffle(&mut cols);
        let null_pos = if rng.chance(3, 4) { 0 } else { rng.below(cols.len() as u64 + 1) as usize };
        // which pool entries the live rows take
        let mut avail: Vec<usize> = match (overlap, ti) {
            (0, 0) => (0..half).collect(),
            (0, _) => (half..pool.len()).collect(),
            (3, _) => (0..pool.len().min(n.max(2))).collect(),
            _ => (0..pool.len()).collect(),
        };
        if avail.is_empty() {
            avail = (0..pool.len()).collect();
        }
        rng.shuffle(&mut avail);
        let mut null = vec![];
        let mut mask: Vec<Vec<u8>> = vec![vec![]; cols.len()];
        let mut data: Vec<Vec<Vec<Z>>> = vec![vec![]; cols.len()];
        let mut live_used = 0;
        for _r in 0..n {
            // row kind: 0 live, 1 null, 2 masked key (null bit one, one key mask zero)
            let mut kind = match rng.below(10) {
                0 | 1 => 1,
                2 if masked => 2,
                _ => 0,
            };
            if kind == 0 && !(live_used < avail.len() && live_used < 8) {
                kind = 1;
            }
            let key = if kind == 0 {
                live_used += 1;
                pool[avail[live_used - 1]].clone()
            } else {
                // rows that are ignored may repeat any key
                pool[rng.below(pool.len() as u64) as usize].clone()
            };
            null.push((kind != 1) as u8);
            let masked_col = if kind == 2 { Some(rng.below(nk as u64) as usize) } else { None };
            for (ci, (cs, kidx)) in cols.iter().enumerate() {
                match kidx {
                    Some(k) => {
                        data[ci].push(key[*k].clone());
                        let m = if !masked || kind == 0 {
                            1
                        } else if masked_col == Some(*k) {
                            0
                        } else {
                            rng.chance(5, 6) as u8
                        };
                        mask[ci].push(m);
                    }
                    None => {
                        data[ci].push((0..cs.width()).map(|_| gen_elem(rng, cs.st)).collect());
                        mask[ci].push(if masked { rng.chance(5, 6) as u8 } else { 1 });
                    }
                }
            }
        }
        tables.push((Tbl { n, cols: cols.iter().map(|c| c.0.clone()).collect(), null_pos, null, mask, data }, cols.iter().map(|c| c.1).collect::<Vec<_>>()));
    }
    let (a, ka) = tables[0].clone();
    let (mut b, kb) = tables[1].clone();
    // key names: shared or not
    if rng.chance(1, 2) {
        for (ci, k) in kb.iter().enumerate() {
            if let Some(i) = k {
                if rng.chance(2, 3) {
                    b.cols[ci].name = format!("j{}", i);
                }
            }
        }
    }
    // quirk allowed by join_inference: a key column of the second table named like a payload column of the first
    let mut quirk = false;
    if rng.chance(1, 12) {
        if let Some(pa) = ka.iter().position(|k| k.is_none()) {
            let cb = kb.iter().position(|k| *k == Some(0)).unwrap();
            b.cols[cb].name = a.cols[pa].name.clone();
            quirk = true;
        }
    }
    let mut keys = vec![];
    for i in 0..nk {
        keys.push((ka.iter().position(|k| *k == Some(i)).unwrap(), kb.iter().position(|k| *k == Some(i)).unwrap()));
    }
    Scenario { jt, masked, a, b, keys, quirk }
}

fn unique_live(s: &Scenario) -> bool {
    let ka: Vec<usize> = s.keys.iter().map(|k| k.0).collect();
    let kb: Vec<usize> = s.keys.iter().map(|k| k.1).collect();
    for (t, ks) in [(&s.a, &ka), (&s.b, &kb)] {
        let mut seen: Vec<Vec<Vec<Z>>> = vec![];
        for i in 0..t.n {
            if takes_part(t, i, ks) {
                let k: Vec<Vec<Z>> = ks.iter().map(|c| t.data[*c][i].clone()).collect();
                if seen.contains(&k) {
                    return false;
                }
                seen.push(k);
            }
        }
    }
    true
}

/// enumerated tables: one INT32 key column `k`, one payload; every row is null (key 1), masked (key 2, masked
/// variant only) or live with key 1..3 (distinct among live rows)
fn enum_tables(n: usize, masked: bool, name: &str, payload_base: i128) -> Vec<Tbl> {
    let kinds: usize = if masked { 5 } else { 4 };
    let mut out = vec![];
    let total = kinds.pow(n as u32);
    for code in 0..total {
        let mut c = code;
        let mut ks = vec![];
        for _ in 0..n {
            ks.push(c % kinds);
            c /= kinds;
        }
        // kinds: 0 null, 1..3 live key, 4 masked
        let live: Vec<usize> = ks.iter().cloned().filter(|k| (1..=3).contains(k)).collect();
        let mut d = live.clone();
        d.sort();
        d.dedup();
        if d.len() != live.len() {
            continue;
        }
        let null: Vec<u8> = ks.iter().map(|k| (*k != 0) as u8).collect();
        let kmask: Vec<u8> = ks.iter().map(|k| (*k != 4) as u8).collect();
        let kdata: Vec<Vec<Z>> = ks.iter().map(|k| vec![Z::I(match k { 0 => 1, 4 => 2, x => *x as i128 })]).collect();
        let pdata: Vec<Vec<Z>> = (0..n).map(|i| vec![Z::I(payload_base + i as i128)]).collect();
        let pmask: Vec<u8> = (0..n).map(|i| if masked && code % 3 == 0 && i == 0 { 0 } else { 1 }).collect();
        out.push(Tbl {
            n,
            cols: vec![ColSpec { name: "k".into(), st: INT32, rshape: vec![] }, ColSpec { name: name.into(), st: INT32, rshape: vec![] }],
            null_pos: 0,
            null,
            mask: vec![kmask, pmask],
            data: vec![kdata, pdata],
        });
    }
    out
}

// ------------------------------------------------------------------------------------------------
// checks
// ------------------------------------------------------------------------------------------------

fn variant(s: &Scenario) -> String {
    format!("{}:{}", jt_name(s.jt), if s.masked { "masked" } else { "plain" })
}

/// plaintext evaluation vs model (case) and vs reference join (oracle); returns the plaintext value
fn check_plain(run: &mut Run, s: &Scenario, stream: &str, split: [bool; 2]) -> Option<(Built, Value)> {
    let nontrivial = {
        let ka: Vec<usize> = s.keys.iter().map(|k| k.0).collect();
        let kb: Vec<usize> = s.keys.iter().map(|k| k.1).collect();
        (0..s.a.n).any(|i| takes_part(&s.a, i, &ka)) && (0..s.b.n).any(|j| takes_part(&s.b, j, &kb))
    };
    let built = match catch(|| build(s, split)) {
        Ok(Ok(b)) => b,
        Ok(Err(e)) => {
            fail(run, &format!("C19:rejected:{}", variant(s)), format!("{} : a well-formed join was rejected: {}", s.describe(), trunc(&format!("{}", e), 200)));
            run.case(s.request(), "ERR".into(), nontrivial);
            return None;
        }
        Err(p) => {
            fail(run, "C19:panic:build", format!("{} : {}", s.describe(), p));
            return None;
        }
    };
    let r = catch(|| -> Result<(Value, RTable)> {
        let v = random_evaluate(built.ctx.get_main_graph()?, built.inputs.clone())?;
        let t = decode(&v, &built.out_type, s.masked)?;
        Ok((v, t))
    });
    run.count(&format!("{}:{}", stream, variant(s)));
    match r {
        Ok(Ok((v, got))) => {
            run.case(s.request(), show_rows(&got.rows, s.masked), nontrivial);
            let want = ref_join(s);
            let want = if s.masked { want } else { strip_masks(want) };
            run.oracle_case(&format!("plain {}", s.request()), nontrivial);
            if got.headers != want.headers {
                fail(run, &format!("C19:plain:columns:{}", variant(s)), format!("{} : result columns {:?}, documented {:?}", s.describe(), got.headers, want.headers));
            } else if got.rows != want.rows {
                fail(run, &format!("C19:plain:rows:{}", variant(s)), format!("{} : got {} documented {}", s.describe(), show_rows(&got.rows, s.masked), show_rows(&want.rows, s.masked)));
            }
            let inferred = match s.jt {
                JoinType::Inner | JoinType::Left => s.a.n,
                _ => s.a.n + s.b.n,
            };
            if got.rows.len() != inferred {
                fail(run, &format!("C19:plain:rowcount:{}", variant(s)), format!("{} : {} rows", s.describe(), got.rows.len()));
            }
            let matches = got.rows.iter().filter(|r| r.null == 1).count();
            run.count(&format!("live-result-rows:{}", matches.min(9)));
            Some((built, v))
        }
        Ok(Err(e)) => {
            // the model has no error cases: a rejected well-formed join is reported against the oracle only
            let class = if s.quirk {
                ":key1-named-like-column0"
            } else if s.b.null_pos != 0 && !s.masked {
                ":null1-not-first"
            } else {
                ""
            };
            run.count(&format!("plain:error:{}{}", variant(s), class));
            run.oracle_case(&format!("plain {}", s.request()), nontrivial);
            fail(run, &format!("C19:plain:error:{}{}", variant(s), class), format!("{} : {}", s.describe(), trunc(&format!("{}", e), 200)));
            None
        }
        Err(p) => {
            fail(run, "C19:panic:plain", format!("{} : {}", s.describe(), p));
            None
        }
    }
}

fn jt_tag(jt: JoinType) -> String {
    format!("{:?}", jt)
}

/// compiled join under one evaluator and in three-party execution, both against the plaintext value
fn check_compiled(run: &mut Run, s: &Scenario, built: &Built, expected: &Value, rng: &mut Rng, do_global: bool, do_3party: bool, tag3: &str) {
    let ins: Vec<IOStatus> = built.in_types.iter().map(|_| gen_status(rng)).collect();
    let outs = gen_outputs(rng);
    let cfg = crate::c01::config_name(&ins, &outs, 0);
    let descr = format!("{} {} :: {}", jt_name(s.jt), cfg, s.describe());
    let cc = match catch(|| compile(&built.ctx, &ins, &outs, 0)) {
        Ok(Ok(c)) => c,
        Ok(Err(e)) => {
            fail(run, &format!("C19:compile-rejected:{}", jt_tag(s.jt)), format!("{} : {}", descr, trunc(&format!("{}", e), 200)));
            return;
        }
        Err(p) => {
            fail(run, "C19:panic:compile", format!("{} : {}", descr, p));
            return;
        }
    };
    let private = ins.iter().any(|x| !matches!(x, IOStatus::Public));
    run.count(&format!("compiled:{}:{}", variant(s), if private { "private" } else { "all-public" }));
    run.count_n("compiled:nodes", cc.get_main_graph().map(|g| g.get_num_nodes()).unwrap_or(0));
    // the type the compiled graph returns (one share of it for shared outputs)
    let cc_t = match cc.get_main_graph().and_then(|g| g.get_output_node()).and_then(|n| n.get_type()) {
        Ok(t) => {
            if outs.is_empty() {
                if let Type::Tuple(v) = &t {
                    (*v[0]).clone()
                } else {
                    t
                }
            } else {
                t
            }
        }
        Err(e) => {
            fail(run, &format!("C19:compiled:error:{}", jt_tag(s.jt)), format!("{} : {}", descr, e));
            return;
        }
    };
    run.oracle_case(&format!("type {}", descr), private);
    if cc_t != built.out_type {
        let names = |t: &Type| if let Type::NamedTuple(v) = t { v.iter().map(|x| if x.0 == NULL_HEADER { "NULL".to_owned() } else { x.0.clone() }).collect::<Vec<_>>() } else { vec![] };
        let class = if s.a.null_pos != 0 { "null0-not-first".to_owned() } else { jt_tag(s.jt) };
        fail(run, &format!("C19:compiled:column-order:{}", class), format!("{} : compiled columns {:?}, plaintext columns {:?}", descr, names(&cc_t), names(&built.out_type)));
    }
    // the plaintext table in the column order of the compiled type (further comparisons are modulo column order)
    let expected_cc = match permute_columns(expected, &built.out_type, &cc_t) {
        Some(v) => v,
        None => {
            fail(run, &format!("C19:compiled:wrong-type:{}", jt_tag(s.jt)), format!("{} : compiled type {:?}", descr, cc_t));
            return;
        }
    };
    let expected = &expected_cc;
    let out_type = &cc_t;
    if do_global {
        run.oracle_case(&format!("global {}", descr), private);
        // the protocol may abort with negligible probability: an Err counts only if it repeats
        let mut errs = 0;
        for attempt in 0..3 {
            let seed = rng.seed16();
            let share_seed = rng.seed16();
            let r = catch(|| -> Result<Value> {
                let mut prng = PRNG::new(Some(share_seed))?;
                let gin = global_inputs(&ins, &built.in_types, &built.inputs, &mut prng)?;
                let vals = global_run(&cc, gin, seed)?;
                let oid = cc.get_main_graph()?.get_output_node()?.get_id() as usize;
                reveal_if_shared(vals[oid].clone(), out_type, &outs)
            });
            match r {
                Ok(Ok(v)) => {
                    if v != *expected {
                        let got = decode(&v, out_type, s.masked).map(|t| show_rows(&t.rows, s.masked)).unwrap_or_else(|_| "undecodable".into());
                        let want = decode(expected, out_type, s.masked).map(|t| show_rows(&t.rows, s.masked)).unwrap_or_default();
                        fail(run, &format!("C19:compiled:wrong-table:{}", jt_tag(s.jt)), format!("{} : compiled {} plaintext {}", descr, got, want));
                    }
                    if attempt > 0 {
                        run.count("compiled:abort-then-ok");
                    }
                    break;
                }
                Ok(Err(e)) => {
                    errs += 1;
                    run.count("compiled:abort");
                    if errs == 3 {
                        fail(run, &format!("C19:compiled:error:{}", jt_tag(s.jt)), format!("{} : {}", descr, trunc(&format!("{}", e), 200)));
                    }
                }
                Err(p) => {
                    fail(run, "C19:panic:compiled", format!("{} : {}", descr, p));
                    break;
                }
            }
        }
    }
    if do_3party {
        run.oracle_case(&format!("3party {}", descr), private);
        let mut last: Option<String> = None;
        // an abort (poisoned output) with negligible probability is tolerated once
        for _attempt in 0..2 {
            match catch(|| three_party(&cc, &ins, &built.inputs, rng)) {
                Ok(Ok(r3)) => match judge3(&r3, expected, out_type, &outs) {
                    None => {
                        last = None;
                        run.count_n("3party:sends-delivered", r3.received.iter().map(|v| v.len() as u64).sum());
                        break;
                    }
                    Some(why) => last = Some(format!("{} : {}{}", descr, why, if r3.poison_sent.is_empty() { String::new() } else { format!(" (poison sent at {:?})", &r3.poison_sent[..r3.poison_sent.len().min(3)]) })),
                },
                Ok(Err(e)) => last = Some(format!("{} : executor error {}", descr, trunc(&format!("{}", e), 200))),
                Err(p) => {
                    fail(run, "C19:panic:3party", format!("{} : {}", descr, p));
                    return;
                }
            }
        }
        if let Some(d) = last {
            run.count(&format!("3party:fail:{}", jt_tag(s.jt)));
            // total width of the row key in bits: random padding rows of the cuckoo table repeat a real key with
            // probability 2^-bits per comparison
            let key_bits: u64 = s.keys.iter().map(|k| s.a.cols[k.0].width() as u64 * st_bits(s.a.cols[k.0].st) as u64).sum();
            let tag = if tag3 == "join" && key_bits <= 16 { "narrow-key" } else { tag3 };
            fail(run, &format!("C19:3party:{}:{}", tag, jt_tag(s.jt)), format!("[key bits {}] {}", key_bits, d));
        } else {
            run.count(&format!("3party:ok:{}", jt_tag(s.jt)));
        }
    }
}

/// malformed requests: the join node must be rejected
fn malformed(run: &mut Run) {
    let n = 3u64;
    let bit = array_type(vec![n], BIT);
    let col = |st: ScalarType, rs: &[u64]| {
        let mut s = vec![n];
        s.extend(rs.iter());
        array_type(s, st)
    };
    let nt = |v: Vec<(&str, Type)>| named_tuple_type(v.into_iter().map(|(h, t)| (h.to_owned(), t)).collect());
    let hm = |v: Vec<(&str, &str)>| -> HashMap<String, String> { v.into_iter().map(|(a, b)| (a.to_owned(), b.to_owned())).collect() };
    let good0 = nt(vec![(NULL_HEADER, bit.clone()), ("k", col(INT32, &[])), ("a", col(INT64, &[2]))]);
    let good1 = nt(vec![(NULL_HEADER, bit.clone()), ("k", col(INT32, &[])), ("b", col(UINT8, &[]))]);
    let cases: Vec<(&str, Type, Type, HashMap<String, String>, bool)> = vec![
        ("well-formed", good0.clone(), good1.clone(), hm(vec![("k", "k")]), true),
        ("no-headers", good0.clone(), good1.clone(), hm(vec![]), false),
        ("key-null", good0.clone(), good1.clone(), hm(vec![(NULL_HEADER, NULL_HEADER)]), false),
        ("missing-header0", good0.clone(), good1.clone(), hm(vec![("z", "k")]), false),
        ("missing-header1", good0.clone(), good1.clone(), hm(vec![("k", "z")]), false),
        ("key-scalar-types", good0.clone(), nt(vec![(NULL_HEADER, bit.clone()), ("k", col(INT64, &[]))]), hm(vec![("k", "k")]), false),
        ("key-row-shapes", good0.clone(), nt(vec![(NULL_HEADER, bit.clone()), ("k", col(INT32, &[2]))]), hm(vec![("k", "k")]), false),
        ("shared-nonkey", good0.clone(), nt(vec![(NULL_HEADER, bit.clone()), ("k", col(INT32, &[])), ("a", col(UINT8, &[]))]), hm(vec![("k", "k")]), false),
        ("key0-named-like-nonkey1", good0.clone(), nt(vec![(NULL_HEADER, bit.clone()), ("j", col(INT32, &[])), ("k", col(UINT8, &[]))]), hm(vec![("k", "j")]), false),
        ("no-null-column", nt(vec![("k", col(INT32, &[])), ("a", col(INT64, &[]))]), good1.clone(), hm(vec![("k", "k")]), false),
        ("null-not-binary", nt(vec![(NULL_HEADER, col(UINT8, &[])), ("k", col(INT32, &[]))]), good1.clone(), hm(vec![("k", "k")]), false),
        ("null-not-flat", nt(vec![(NULL_HEADER, col(BIT, &[2])), ("k", col(INT32, &[]))]), good1.clone(), hm(vec![("k", "k")]), false),
        ("row-count-mismatch", nt(vec![(NULL_HEADER, bit.clone()), ("k", array_type(vec![n + 1], INT32))]), good1.clone(), hm(vec![("k", "k")]), false),
        ("only-null", nt(vec![(NULL_HEADER, bit.clone())]), good1.clone(), hm(vec![("k", "k")]), false),
        ("scalar-column", nt(vec![(NULL_HEADER, bit.clone()), ("k", scalar_type(INT32))]), good1.clone(), hm(vec![("k", "k")]), false),
        ("not-a-table", col(INT32, &[]), good1.clone(), hm(vec![("k", "k")]), false),
    ];
    for (name, t0, t1, h, ok) in cases {
        for jt in JTS {
            let r = catch(|| -> Result<()> {
                let c = create_context()?;
                let g = c.create_graph()?;
                let a = g.input(t0.clone())?;
                let b = g.input(t1.clone())?;
                a.join(b, jt, h.clone())?;
                Ok(())
            });
            run.oracle_case(&format!("malformed {} {}", name, jt_name(jt)), false);
            run.count(&format!("E:{}", if ok { "accepted-expected" } else { "rejected-expected" }));
            match r {
                Ok(r) => {
                    if r.is_ok() != ok {
                        fail(run, &format!("C19:malformed:{}", name), format!("{} {:?}: accepted = {}", name, jt, r.is_ok()));
                    }
                }
                Err(p) => fail(run, "C19:panic:malformed", format!("{} {:?}: {}", name, jt, p)),
            }
        }
    }
    // masked variant: mask of the wrong shape / plain column where a (mask, data) pair is expected
    let m0 = nt(vec![(NULL_HEADER, bit.clone()), ("k", tuple_type(vec![bit.clone(), col(INT32, &[])]))]);
    let bad: Vec<(&str, Type)> = vec![
        ("mask-missing", nt(vec![(NULL_HEADER, bit.clone()), ("k", col(INT32, &[]))])),
        ("mask-not-binary", nt(vec![(NULL_HEADER, bit.clone()), ("k", tuple_type(vec![col(UINT8, &[]), col(INT32, &[])]))])),
        ("mask-wrong-shape", nt(vec![(NULL_HEADER, bit.clone()), ("k", tuple_type(vec![col(BIT, &[2]), col(INT32, &[2])]))])),
    ];
    for (name, t1) in bad {
        let r = catch(|| -> Result<()> {
            let c = create_context()?;
            let g = c.create_graph()?;
            let a = g.input(m0.clone())?;
            let b = g.input(t1.clone())?;
            a.join_with_column_masks(b, JoinType::Inner, hm(vec![("k", "k")]))?;
            Ok(())
        });
        run.oracle_case(&format!("malformed {}", name), false);
        run.count("E:rejected-expected");
        match r {
            Ok(Ok(())) => fail(run, &format!("C19:malformed:{}", name), format!("{}: accepted", name)),
            Ok(Err(_)) => {}
            Err(p) => fail(run, "C19:panic:malformed", format!("{}: {}", name, p)),
        }
    }
}

pub fn corr(run: &mut Run) {
    run.rule = "tables with a null column (anywhere in the tuple) and unique keys among live rows; X: all pairs of enumerated 2-row (thorough: \
                3×2-row) tables with rows null / live key 1..3 / masked key; R: random tables of 1..9 rows (≤ 8 live), null rows and masked-key \
                rows anywhere (keys may repeat live keys), 1..3 key columns of differing scalar types and row shapes, 0..2 payload columns of any \
                type, shuffled columns, key names shared or not, disjoint/partial/full overlap — each × 4 join types × masked/unmasked. \
                Plaintext result vs Lean model `Join.impl` (exact rows, row order, column order) and vs the native reference join `ref_join` \
                written from the documentation (column-by-column key comparison). C/T: the same joins compiled (random owner per input, table \
                given as one named-tuple input or column by column, random output parties, inline mode 0) run by one evaluator (3 seeds; an Err \
                counts only if it repeats) and by the three-party executor, against the plaintext table. E: malformed joins must be rejected. \
                Non-trivial: both tables have a live row."
        .to_owned();
    // debugging aid: CCV_C19_COMPILED=<n> runs only the compiled streams with n rounds
    let only_compiled: Option<usize> = std::env::var("CCV_C19_COMPILED").ok().and_then(|v| v.parse().ok());
    // ---- X: enumerated
    let n_a = run.tier.scale(2, 3);
    for masked in [false, true] {
        if only_compiled.is_some() {
            break;
        }
        let ta = enum_tables(n_a, masked, "a", 10);
        let tb = enum_tables(2, masked, "b", 20);
        for a in &ta {
            for b in &tb {
                for jt in JTS {
                    let s = Scenario { jt, masked, a: a.clone(), b: b.clone(), keys: vec![(0, 0)], quirk: false };
                    check_plain(run, &s, "X", [false, false]);
                }
            }
        }
    }
    // ---- R: random, plaintext
    let mut rng = run.rng("random");
    let n_r = if only_compiled.is_some() { 0 } else { run.tier.scale(250, 2500) };
    for it in 0..n_r {
        for masked in [false, true] {
            let base = gen_scenario(&mut rng, JoinType::Inner, masked, it % 3 == 0);
            if !unique_live(&base) {
                run.count("gen:not-unique");
                continue;
            }
            run.count(&format!("R:keycols:{}", base.keys.len()));
            run.count(&format!("R:rows:{}x{}", base.a.n.min(9), base.b.n.min(9)));
            for jt in JTS {
                let mut s = base.clone();
                s.jt = jt;
                let split = [rng.chance(1, 3), rng.chance(1, 3)];
                check_plain(run, &s, "R", split);
            }
        }
    }
    // ---- C/T: compiled
    let mut rng = run.rng("compiled");
    let n_c = only_compiled.unwrap_or(run.tier.scale(2, 12));
    for it in 0..n_c {
        for masked in [false, true] {
            for jt in JTS {
                let s = gen_scenario(&mut rng, jt, masked, true);
                if !unique_live(&s) {
                    continue;
                }
                let split = [rng.chance(1, 2), rng.chance(1, 2)];
                if let Some((built, expected)) = check_plain(run, &s, "C", split) {
                    // both checks on every scenario in the first round, then alternate to save time
                    let both = it == 0;
                    check_compiled(run, &s, &built, &expected, &mut rng, both || it % 2 == 1, both || it % 2 == 0, "join");
                }
            }
        }
    }
    // ---- N: narrow keys (one 3-bit key column, many unmatched live rows): the random rows that pad the
    // cuckoo table then often repeat a real key, so they must carry null bit zero at every party
    let mut rng = run.rng("narrow");
    let n_n = if only_compiled.is_some() { 1 } else { run.tier.scale(1, 4) };
    for it in 0..n_n {
        for jt in if run.tier == Tier::Quick && only_compiled.is_none() { &JTS[0..2] } else { &JTS[..] } {
            let mut codes: Vec<i128> = (0..8).collect();
            rng.shuffle(&mut codes);
            let bits = |c: i128| -> Vec<Z> { (0..3).map(|i| Z::I((c >> i) & 1)).collect() };
            let mk = |name: &str, ks: &[i128], base: i128| Tbl {
                n: ks.len(),
                cols: vec![ColSpec { name: "k".into(), st: BIT, rshape: vec![3] }, ColSpec { name: name.into(), st: INT32, rshape: vec![] }],
                null_pos: 0,
                null: vec![1; ks.len()],
                mask: vec![vec![1; ks.len()], vec![1; ks.len()]],
                data: vec![ks.iter().map(|c| bits(*c)).collect(), (0..ks.len()).map(|i| vec![Z::I(base + i as i128)]).collect()],
            };
            // 6 live rows in a, 2 in b, one key in common
            let s = Scenario { jt: *jt, masked: false, a: mk("a", &codes[0..6], 100), b: mk("b", &codes[5..7], 200), keys: vec![(0, 0)], quirk: false };
            if let Some((built, expected)) = check_plain(run, &s, "N", [it % 2 == 1, false]) {
                check_compiled(run, &s, &built, &expected, &mut rng, false, true, "narrow-key");
            }
        }
    }
    // ---- D: two joins of the same two tables in ONE graph, on different key columns of the first table
    run.rule.push_str(" D: two joins of the same tables on different key columns in one graph, compiled vs plaintext. H: 8x9-row Union / Full / Left joins compiled once and evaluated under 40 (quick) / 300 (thorough) seeds.");
    two_joins(run);
    // ---- H: one compiled Union / Full join under MANY evaluation seeds (the cuckoo hash functions are drawn
    // per evaluation: with some seeds two rows collide under the first hash function and a matched row is
    // found only through the second or third one)
    many_seeds(run);
    // ---- E: malformed
    malformed(run);
}

/// columns of a table value by header name
fn columns_by_name(v: &Value, t: &Type) -> Option<Vec<(String, Vec<u128>)>> {
    let cols = v.to_vector().ok()?;
    if let Type::NamedTuple(hs) = t {
        if cols.len() != hs.len() {
            return None;
        }
        let mut out: Vec<(String, Vec<u128>)> = vec![];
        for (i, (h, ct)) in hs.iter().enumerate() {
            out.push((h.clone(), cols[i].to_flattened_array_u128((**ct).clone()).ok()?));
        }
        out.sort();
        Some(out)
    } else {
        None
    }
}

/// D: `X.join(Y, a↔id)` and `X.join(Y, b↔id)` in one graph (the two compiled joins differ only in the key
/// column of the first table: they must not share one instantiated protocol); compiled vs plaintext,
/// table by table, column by column
fn two_joins(run: &mut Run) {
    use ciphercore_base::graphs::util::simple_context;
    let mut rng = run.rng("two-joins");
    let n = run.tier.scale(3, 16);
    for it in 0..n {
        let n0 = 3 + rng.below(3);
        let n1 = 3 + rng.below(3);
        let jt = if it % 2 == 0 { JoinType::Inner } else { JoinType::Left };
        let uniq = |rng: &mut Rng, n: u64| -> Vec<u64> {
            let mut pool: Vec<u64> = (1..=9).collect();
            rng.shuffle(&mut pool);
            pool[..n as usize].to_vec()
        };
        let tx = named_tuple_type(vec![
            (NULL_HEADER.to_owned(), array_type(vec![n0], BIT)),
            ("a".to_owned(), array_type(vec![n0], INT32)),
            ("b".to_owned(), array_type(vec![n0], INT32)),
            ("p".to_owned(), array_type(vec![n0], INT64)),
        ]);
        let ty = named_tuple_type(vec![
            (NULL_HEADER.to_owned(), array_type(vec![n1], BIT)),
            ("id".to_owned(), array_type(vec![n1], INT32)),
            ("q".to_owned(), array_type(vec![n1], UINT8)),
        ]);
        let nulls = |rng: &mut Rng, n: u64| -> Vec<u64> { (0..n).map(|_| if rng.chance(1, 5) { 0 } else { 1 }).collect() };
        let (ax, bx, idy) = (uniq(&mut rng, n0), uniq(&mut rng, n0), uniq(&mut rng, n1));
        let vx = Value::from_vector(vec![
            Value::from_flattened_array(&nulls(&mut rng, n0), BIT).unwrap(),
            Value::from_flattened_array(&ax, INT32).unwrap(),
            Value::from_flattened_array(&bx, INT32).unwrap(),
            Value::from_flattened_array(&(0..n0).map(|i| 100 + i).collect::<Vec<u64>>(), INT64).unwrap(),
        ]);
        let vy = Value::from_vector(vec![
            Value::from_flattened_array(&nulls(&mut rng, n1), BIT).unwrap(),
            Value::from_flattened_array(&idy, INT32).unwrap(),
            Value::from_flattened_array(&(0..n1).map(|i| 30 + i).collect::<Vec<u64>>(), UINT8).unwrap(),
        ]);
        let (tx2, ty2) = (tx.clone(), ty.clone());
        let ctx = match catch(move || {
            simple_context(|g| {
                let x = g.input(tx2.clone())?;
                let y = g.input(ty2.clone())?;
                let t = x.join(y.clone(), jt, HashMap::from([("a".to_owned(), "id".to_owned())]))?;
                let u = x.join(y, jt, HashMap::from([("b".to_owned(), "id".to_owned())]))?;
                g.create_tuple(vec![t, u])
            })
        }) {
            Ok(Ok(c)) => c,
            _ => continue,
        };
        let inputs = vec![vx.clone(), vy.clone()];
        let descr = format!("two joins {} in one graph: X(null={:?}, a={:?}, b={:?}, p=100..) Y(null={:?}, id={:?}, q=30..)", jt_name(jt), vx.to_vector().ok().and_then(|c| c[0].to_flattened_array_u64(array_type(vec![n0], BIT)).ok()), ax, bx, vy.to_vector().ok().and_then(|c| c[0].to_flattened_array_u64(array_type(vec![n1], BIT)).ok()), idy);
        let expected = match catch(|| plain_eval(&ctx, inputs.clone(), [7; 16])) {
            Ok(Ok(v)) => v,
            _ => continue,
        };
        let src_t = ctx.get_main_graph().and_then(|g| g.get_output_node()).and_then(|n| n.get_type()).unwrap();
        let ins = vec![IOStatus::Party(rng.below(3)), IOStatus::Party(rng.below(3))];
        let outs = vec![IOStatus::Party(rng.below(3))];
        let cc = match catch(|| compile(&ctx, &ins, &outs, 0)) {
            Ok(Ok(c)) => c,
            Ok(Err(e)) => {
                fail(run, "C19:compile-rejected:two-joins", format!("{} : {}", descr, trunc(&format!("{}", e), 200)));
                continue;
            }
            Err(p) => {
                fail(run, "C19:panic:compile", format!("{} : {}", descr, p));
                continue;
            }
        };
        run.oracle_case(&descr, true);
        run.count("two-joins:compiled");
        let cc_t = cc.get_main_graph().and_then(|g| g.get_output_node()).and_then(|n| n.get_type()).unwrap();
        let seed = rng.seed16();
        let got = catch(|| -> Result<Value> {
            let mut prng = PRNG::new(Some(seed))?;
            let gin = global_inputs(&ins, &[tx.clone(), ty.clone()], &inputs, &mut prng)?;
            let vals = global_run(&cc, gin, seed)?;
            let oid = cc.get_main_graph()?.get_output_node()?.get_id() as usize;
            Ok(vals[oid].clone())
        });
        let got = match got {
            Ok(Ok(v)) => v,
            Ok(Err(e)) => {
                fail(run, "C19:compiled-error:two-joins", format!("{} : {}", descr, trunc(&format!("{}", e), 200)));
                continue;
            }
            Err(p) => {
                fail(run, "C19:panic:compiled", format!("{} : {}", descr, p));
                continue;
            }
        };
        let (st, ct) = match (&src_t, &cc_t) {
            (Type::Tuple(a), Type::Tuple(b)) if a.len() == 2 && b.len() == 2 => (a.clone(), b.clone()),
            _ => continue,
        };
        let (ev, gv) = match (expected.to_vector(), got.to_vector()) {
            (Ok(a), Ok(b)) if a.len() == 2 && b.len() == 2 => (a, b),
            _ => continue,
        };
        for k in 0..2 {
            let e = columns_by_name(&ev[k], &st[k]);
            let g = columns_by_name(&gv[k], &ct[k]);
            if e.is_none() || e != g {
                fail(run, "C19:compiled-differs:two-joins", format!("{} : table {} (key column {}) of the compiled graph is {:?}, the plaintext join gives {:?}", descr, k, if k == 0 { "a" } else { "b" }, g, e));
                break;
            }
        }
    }
}


/// H: 8..9-row tables with many common keys, Union and Full joins compiled once and evaluated under many
/// seeds; every evaluation must give the plaintext table (column by column, by header name)
fn many_seeds(run: &mut Run) {
    use ciphercore_base::graphs::util::simple_context;
    let mut rng = run.rng("many-seeds");
    let n_seeds = run.tier.scale(40, 300);
    for jt in [JoinType::Union, JoinType::Full, JoinType::Left] {
        let (n0, n1) = (8u64, 9u64);
        let mut pool: Vec<u64> = (1..=12).collect();
        rng.shuffle(&mut pool);
        let kx: Vec<u64> = pool[..n0 as usize].to_vec();
        rng.shuffle(&mut pool);
        let ky: Vec<u64> = pool[..n1 as usize].to_vec();
        let nulls_x: Vec<u64> = (0..n0).map(|i| if i == 3 { 0 } else { 1 }).collect();
        let nulls_y: Vec<u64> = (0..n1).map(|i| if i == 5 { 0 } else { 1 }).collect();
        let tx = named_tuple_type(vec![(NULL_HEADER.to_owned(), array_type(vec![n0], BIT)), ("k".to_owned(), array_type(vec![n0], INT32)), ("p".to_owned(), array_type(vec![n0], INT64))]);
        let ty = named_tuple_type(vec![(NULL_HEADER.to_owned(), array_type(vec![n1], BIT)), ("k".to_owned(), array_type(vec![n1], INT32)), ("q".to_owned(), array_type(vec![n1], UINT8))]);
        let vx = Value::from_vector(vec![
            Value::from_flattened_array(&nulls_x, BIT).unwrap(),
            Value::from_flattened_array(&kx, INT32).unwrap(),
            Value::from_flattened_array(&(0..n0).map(|i| 100 + i).collect::<Vec<u64>>(), INT64).unwrap(),
        ]);
        let vy = Value::from_vector(vec![
            Value::from_flattened_array(&nulls_y, BIT).unwrap(),
            Value::from_flattened_array(&ky, INT32).unwrap(),
            Value::from_flattened_array(&(0..n1).map(|i| 30 + i).collect::<Vec<u64>>(), UINT8).unwrap(),
        ]);
        let (tx2, ty2) = (tx.clone(), ty.clone());
        let ctx = match catch(move || {
            simple_context(|g| {
                let x = g.input(tx2.clone())?;
                let y = g.input(ty2.clone())?;
                x.join(y, jt, HashMap::from([("k".to_owned(), "k".to_owned())]))
            })
        }) {
            Ok(Ok(c)) => c,
            _ => continue,
        };
        let inputs = vec![vx.clone(), vy.clone()];
        let expected = match catch(|| plain_eval(&ctx, inputs.clone(), [7; 16])) {
            Ok(Ok(v)) => v,
            _ => continue,
        };
        let src_t = ctx.get_main_graph().and_then(|g| g.get_output_node()).and_then(|n| n.get_type()).unwrap();
        let ins = vec![IOStatus::Party(0), IOStatus::Party(1)];
        let outs = vec![IOStatus::Party(0)];
        let cc = match catch(|| compile(&ctx, &ins, &outs, 0)) {
            Ok(Ok(c)) => c,
            _ => {
                fail(run, "C19:compile-rejected:many-seeds", format!("{} join of 8x9 rows", jt_name(jt)));
                continue;
            }
        };
        let cc_t = cc.get_main_graph().and_then(|g| g.get_output_node()).and_then(|n| n.get_type()).unwrap();
        let want = columns_by_name(&expected, &src_t);
        let descr = format!("{} join, X(k={:?}, row 3 null) Y(k={:?}, row 5 null), X owned by party 0, Y by party 1, revealed to party 0", jt_name(jt), kx, ky);
        let mut errs = 0;
        for s_no in 0..n_seeds {
            let seed = rng.seed16();
            run.oracle_case(&format!("{} seed #{}", descr, s_no), true);
            run.count(&format!("many-seeds:{}", jt_name(jt)));
            let got = catch(|| -> Result<Value> {
                let mut prng = PRNG::new(Some(seed))?;
                let gin = global_inputs(&ins, &[tx.clone(), ty.clone()], &inputs, &mut prng)?;
                let vals = global_run(&cc, gin, seed)?;
                let oid = cc.get_main_graph()?.get_output_node()?.get_id() as usize;
                Ok(vals[oid].clone())
            });
            match got {
                Ok(Ok(v)) => {
                    let g = columns_by_name(&v, &cc_t);
                    if want.is_none() || g != want {
                        fail(run, "C19:compiled-differs:many-seeds", format!("{} evaluation seed {:?} : compiled {:?}, plaintext {:?}", descr, seed, g, want));
                        break;
                    }
                }
                Ok(Err(e)) => {
                    // cuckoo hashing may abort for a seed (documented); a repeated abort is reported
                    errs += 1;
                    run.count("many-seeds:err");
                    if errs > 3 {
                        fail(run, "C19:compiled-error:many-seeds", format!("{} : {} evaluation errors, last: {}", descr, errs, trunc(&format!("{}", e), 160)));
                        break;
                    }
                }
                Err(p) => {
                    fail(run, "C19:panic:compiled", format!("{} seed {:?} : {}", descr, seed, p));
                    break;
                }
            }
        }
    }
}
