#!/usr/bin/env python3
"""record_seeded.py <Cid> <k> <slug> <caught_by_csv> <needs...>: copy a CONFIRMED seeded regression into /verif/seeded/<Cid>-<slug>/"""
import sys, json, shutil, os
C, k, slug, caught = sys.argv[1:5]; needs = " ".join(sys.argv[5:])
src = '%s/%s/out/%s' % (os.environ.get('MBASE', '/tmp/m'), C, k)
conf = json.load(open(src + '/confirm.json'))
assert conf['confirmed'], conf
dst = '/verif/seeded/%s-%s' % (C, slug)
os.makedirs(dst, exist_ok=True)
shutil.copy(src + '/patch.diff', dst + '/patch.diff')
shutil.copy(src + '/demo.rs', dst + '/demo.rs')
if os.path.exists(src + '/README.md'):
    shutil.copy(src + '/README.md', dst + '/README.md')
meta = {
    'property': C,
    'breaks': open('/tmp/m_prop_%s.txt' % C).read().splitlines()[0],
    'needs_to_manifest': needs,
    'origin': 'written by a fresh sub-agent that was given only the property text and a scratch worktree of the repository',
    'confirmed_in_scratch_worktree': {
        'worktree': '%s/%s/repo (removed afterwards)' % (os.environ.get('MBASE', '/tmp/m'), C),
        'ran': ['git apply patch.diff', 'cargo nextest run --workspace --no-fail-fast --offline  (all existing tests pass with the change)',
                'cargo test -p ciphercore-base --offline --test demo_%s  (fails with the change)' % k,
                'git checkout -- . ; same demo  (passes without the change)'],
        'suite_passes_with_patch': conf['suite_passes_with_patch'], 'suite_tail': conf.get('suite_with_patch'),
        'demo_fails_with_patch': conf['demo_fails_with_patch'], 'demo_passes_without_patch': conf['demo_passes_without_patch'],
    },
    'detected_by': [{'check': c, 'how': 'git -C /repo apply patch.diff; ./check %s --tier quick  -> exit 1 with VIOLATION property=%s; git -C /repo checkout -- .' % (c, c)} for c in caught.split(',') if c],
}
json.dump(meta, open(dst + '/meta.json', 'w'), indent=1)
print('recorded', dst)
