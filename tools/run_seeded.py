#!/usr/bin/env python3
"""run_seeded.py <patch.diff> <Cid> [<Cid>...] : apply a seeded regression to /repo, run the checks, undo.
Prints one line per check: property, exit code, VIOLATION lines (first 2), wall seconds."""
import subprocess, sys, time, os
patch = os.path.abspath(sys.argv[1]); props = sys.argv[2:]
REPO = os.environ.get("REPO_ROOT", "/repo"); VERIF = os.environ.get("VERIF_ROOT", "/verif")  # a private copy may be used (tools/mk_workspace.sh)
def sh(cmd, **kw):
    return subprocess.run(cmd, shell=True, capture_output=True, text=True, **kw)
st = sh("git -C %s status --porcelain --untracked-files=no" % REPO).stdout.strip()
if st:
    print("refusing: /repo has local changes:\n" + st); sys.exit(2)
r = sh("git -C %s apply --whitespace=nowarn %s" % (REPO, patch))
if r.returncode != 0:
    print("patch does not apply:", r.stderr[:500]); sys.exit(2)
results = []
try:
    for p in props:
        t = time.time()
        r = sh("cd %s && ./check %s --tier %s" % (VERIF, p, os.environ.get('TIER', 'quick')))
        lines = [l for l in r.stdout.splitlines() if l.startswith(("VIOLATION", "OK ", "ERROR", "KNOWN-FINDING"))]
        viol = [l for l in lines if l.startswith("VIOLATION")]
        print("%s rc=%d wall=%.0fs %s" % (p, r.returncode, time.time() - t, "; ".join(l[:160] for l in (viol[:2] or lines[-1:]))), flush=True)
        results.append((p, r.returncode))
finally:
    sh("git -C %s checkout -- ." % REPO)
    # restore evidence written under the mutated tree is fine (gitignored? no) -> leave; caller re-runs checks before commit
sys.exit(0 if all(rc == 1 for _, rc in results) else 1)
