#!/usr/bin/env python3
"""regenerate DESIGN.md §0.5 (per-property as-built summary) from props/*.json"""
import json, glob, re
rows = []
for f in sorted(glob.glob('/verif/props/C*.json')):
    c = json.load(open(f))
    n = len(c.get('theorems', []))
    gen = 'yes' if c.get('gen') else 'no'
    nc = '; '.join(c.get('not_covered', []))
    nc = (nc[:300] + '…') if len(nc) > 300 else nc
    rows.append('| %s | %d | %s | %s | %s |' % (c['id'], n, gen, c.get('manifest', {}).get('technique', '')[:160], nc or '—'))
tab = ('### 0.5 Per property, as built (generated from props/*.json by tools/gen_design_table.py)\n\n'
       '| id | listed theorems | generated obligations (T) | deciding technique | not covered by theorem |\n|---|---|---|---|---|\n' + '\n'.join(rows) + '\n\n'
       'All 20 properties are claimed; `not_applicable` is empty. Theorem names, one-line statements, axioms per theorem and the\n'
       'trusted base are in evidence/Cxx.json (`coverage.obligation_list`, `coverage.trusted_base`).\n\n')
s = open('/verif/DESIGN.md').read()
m = re.search(r'### 0\.5 Per property.*?(?=\n## 1\. )', s, re.S)
if m:
    s = s[:m.start()] + tab + s[m.end():]
else:
    i = s.index('\n## 1. ')
    s = s[:i] + '\n' + tab + s[i:]
open('/verif/DESIGN.md', 'w').write(s)
print('ok', len(rows))
