#!/usr/bin/env python3
"""regenerate /verif/MANIFEST.json from props/*.json (one file per claimed property)"""
import json, glob, os
V = '/verif'
props = [json.loads(l) for l in open(V + '/properties.jsonl')]
claimed = {}
for f in sorted(glob.glob(V + '/props/C*.json')):
    c = json.load(open(f))
    if c.get('claimed', True):
        claimed[c['id']] = c
na_reasons = json.load(open(V + '/props/not_applicable.json')) if os.path.exists(V + '/props/not_applicable.json') else {}
checks = []
for p in props:
    c = claimed.get(p['id'])
    if not c:
        continue
    m = c.get('manifest', {})
    checks.append({
        'property_id': p['id'],
        'quick_cmd': './check %s --tier quick' % p['id'],
        'thorough_cmd': './check %s --tier thorough' % p['id'],
        'evidence_file': '/verif/evidence/%s.json' % p['id'],
        'replay_cmd_template': './check %s --replay {path}' % p['id'],
        'engine': 'lean4-proof+correspondence',
        'level_claimed': {
            'category': c.get('level', 'proof'),
            'text': m.get('level_text', ''),
            'design_ref': m.get('design_ref', 'DESIGN.md §5 ' + p['id']),
        },
        'level_note': m.get('level_note', ''),
        'technique': m.get('technique', 'Lean 4 theorems about a hand-written executable model + differential correspondence check against the Rust implementation'),
    })
na = [{'property_id': p['id'], 'reason': na_reasons.get(p['id'], 'check not built yet in this round (work in progress; the technique applies, see DESIGN.md §5)')}
      for p in props if p['id'] not in claimed]
hook_commits = [l.strip() for l in open(V + '/hooks_commits.txt')] if os.path.exists(V + '/hooks_commits.txt') else []
man = {
    'version': 1,
    'setup_cmd': './setup.sh',
    'hooks': {
        'guard': '--cfg ciphercore_verif',
        'enable': 'RUSTFLAGS="--cfg ciphercore_verif" via /verif/harness/.cargo/config.toml ([build] rustflags); the harness crate depends on /repo/ciphercore-base by path',
        'baseline_off_cmd': 'cd /repo && cargo nextest run --workspace --no-fail-fast --test-threads 8 --offline || cargo test --workspace --no-fail-fast --offline',
        'source_commits': hook_commits,
        'add_only': True,
    },
    'engines': [
        {'name': 'lean4-proof+correspondence', 'path': '/verif/check',
         'serves_properties': [c['property_id'] for c in checks],
         'kind_free_text': 'Lean 4 (core + single Mathlib tactic modules) theorems about executable models in /verif/lean; Rust harness /verif/harness drives the real code; compiled model driver ccv-model answers the same requests; python driver /verif/check diffs, audits axioms, classifies, writes evidence'}
    ],
    'checks': checks,
    'notes': 'See DESIGN.md. known_findings.json lists recorded/fixed defects. Seeded regressions under seeded/.',
    'not_applicable': na,
}
json.dump(man, open(V + '/MANIFEST.json', 'w'), indent=1)
print('claimed:', [c['property_id'] for c in checks])
