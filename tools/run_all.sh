#!/bin/sh
# run every claimed check on the current tree (quick tier by default); summary in /tmp/run_all.log
cd /verif
: > /tmp/run_all.log
for c in $(python3 -c "import json;print(' '.join(x['property_id'] for x in json.load(open('MANIFEST.json'))['checks']))"); do
  ./check $c --tier ${TIER:-quick} > /tmp/run_all_$c.log 2>&1
  echo "$c rc=$? $(tail -1 /tmp/run_all_$c.log | cut -c1-160)" >> /tmp/run_all.log
done
echo finished >> /tmp/run_all.log
