#!/usr/bin/env python3
"""validate MANIFEST.json and evidence/*.json against the schemas (needs jsonschema: run with python3-vt)"""
import json, sys, glob
import jsonschema
ok = True
m = json.load(open('/verif/MANIFEST.json'))
jsonschema.validate(m, json.load(open('/root/.vp/MANIFEST.schema.json')))
es = json.load(open('/root/.vp/EVIDENCE.schema.json'))
for f in sorted(glob.glob('/verif/evidence/*.json')):
    try:
        jsonschema.validate(json.load(open(f)), es)
        print('ok', f)
    except Exception as e:
        ok = False
        print('BAD', f, str(e)[:300])
props = [json.loads(l)['id'] for l in open('/verif/properties.jsonl')]
claimed = [c['property_id'] for c in m['checks']]
na = [c['property_id'] for c in m.get('not_applicable', [])]
for p in props:
    if p not in claimed and p not in na:
        print('UNLISTED', p); ok = False
sys.exit(0 if ok else 1)
