#!/bin/sh
# mk_workspace.sh <name>: private copy of /verif and a private git worktree of /repo for a builder.
# The copy's harness depends on the private worktree, so the builder may mutate it freely.
set -e
N="$1"
W=/tmp/w/$N
mkdir -p /tmp/w
rm -rf "$W"
mkdir -p "$W"
git -C /repo worktree prune
git -C /repo worktree add --detach "$W/repo" HEAD >/dev/null 2>&1
cp /repo/Cargo.lock "$W/repo/Cargo.lock"
rsync -a --exclude .git /verif/ "$W/verif/"
sed -i "s#/repo/#$W/repo/#g" "$W/verif/harness/Cargo.toml"
echo "$W"
