#!/usr/bin/env python3
"""gen_seeded_table.py: regenerate the table of DESIGN.md §0.4 from seeded/*/meta.json (between the markers)."""
import json, glob, os, re
rows = []
for p in sorted(glob.glob('/verif/seeded/*/meta.json')):
    d = json.load(open(p)); name = os.path.basename(os.path.dirname(p))
    caught = ', '.join(x['check'] for x in d.get('detected_by', []))
    esc = lambda s: (s or '').replace('|', '\\|').replace('\n', ' ')
    rows.append('| %s | %d | %s | %s | %s |' % (name, d.get('round', 1), esc(d.get('needs_to_manifest')), caught, esc(d.get('strengthened', ''))))
n = len(rows); ns = sum(1 for r in rows if not r.rstrip().endswith('|  |'))
table = '| seeded change | round | needs to manifest | caught by | what had to be strengthened |\n|---|---|---|---|---|\n' + '\n'.join(rows) + '\n'
s = open('/verif/DESIGN.md').read()
a = s.index('| seeded change |'); b = s.index('### 0.5')
s = s[:a] + table + '\n' + s[b:]
open('/verif/DESIGN.md', 'w').write(s)
print('seeded table:', n, 'rows,', ns, 'with a strengthening note')
