#!/usr/bin/env python3
"""confirm_seeded.py <Cid> <k>: in the scratch worktree /tmp/m/<Cid>/repo confirm a seeded regression:
(1) with the patch the whole existing suite passes, (2) the demo fails with the patch, (3) the demo passes without.
Writes /tmp/m/<Cid>/out/<k>/confirm.json."""
import subprocess, sys, json, os, re, shutil, time
C, k = sys.argv[1], sys.argv[2]
MB = os.environ.get('MBASE', '/tmp/m'); W = '%s/%s/repo' % (MB, C); O = '%s/%s/out/%s' % (MB, C, k)
def sh(cmd, timeout=7200):
    p = subprocess.run(cmd, shell=True, cwd=W, capture_output=True, text=True, timeout=timeout)
    return p.returncode, (p.stdout + p.stderr)
def clean():
    sh('git checkout -- . ; rm -rf ciphercore-base/tests')
res = {'property': C, 'k': k, 'started': time.strftime('%F %T')}
clean()
rc, out = sh('git apply --whitespace=nowarn %s/patch.diff' % O)
res['patch_applies'] = rc == 0
if rc == 0:
    rc, out = sh('cargo nextest run --workspace --no-fail-fast --test-threads 6 --offline 2>&1 | tail -5')
    m = re.search(r'(\d+) tests run: (\d+) passed(?:.*?(\d+) failed)?', out)
    res['suite_with_patch'] = out.strip().splitlines()[-3:] if out else []
    res['suite_passes_with_patch'] = bool(m and m.group(1) == m.group(2))
    os.makedirs(W + '/ciphercore-base/tests', exist_ok=True)
    shutil.copy(O + '/demo.rs', W + '/ciphercore-base/tests/demo_%s.rs' % k)
    rc, out = sh('cargo test -p ciphercore-base --offline --test demo_%s 2>&1 | tail -15' % k)
    res['demo_fails_with_patch'] = ('test result: FAILED' in out)
    res['demo_with_patch_tail'] = out.strip().splitlines()[-6:]
    sh('git checkout -- .')
    rc, out = sh('cargo test -p ciphercore-base --offline --test demo_%s 2>&1 | tail -8' % k)
    res['demo_passes_without_patch'] = ('test result: ok' in out and 'FAILED' not in out)
    res['demo_without_patch_tail'] = out.strip().splitlines()[-4:]
clean()
res['confirmed'] = bool(res.get('patch_applies') and res.get('suite_passes_with_patch') and res.get('demo_fails_with_patch') and res.get('demo_passes_without_patch'))
res['finished'] = time.strftime('%F %T')
json.dump(res, open(O + '/confirm.json', 'w'), indent=1)
print(C, k, 'confirmed' if res['confirmed'] else 'NOT CONFIRMED', {x: res.get(x) for x in ('patch_applies', 'suite_passes_with_patch', 'demo_fails_with_patch', 'demo_passes_without_patch')})
