#!/usr/bin/env python3
"""merge_agent.py <Cid>: copy a builder's per-property files from /tmp/w/<Cid>/verif into /verif and
register the property in harness/src/main.rs and lean/CCV/Driver.lean. Shared files are only diffed."""
import subprocess, sys, os, shutil, re
C = sys.argv[1]; c = C.lower(); W = '/tmp/w/%s/verif' % (sys.argv[2] if len(sys.argv) > 2 else C)
out = subprocess.run(['rsync', '-rcn', '--out-format=%n', '--exclude', '.build', '--exclude', '.lake', '--exclude', 'lean/CCV/Generated',
                      '--exclude', 'evidence', '--exclude', 'replays', '--exclude', '.git', '--exclude', 'harness/Cargo.toml',
                      '--exclude', 'harness/Cargo.lock', '--exclude', 'MANIFEST.json', W + '/', '/verif/'], capture_output=True, text=True).stdout
files = [f for f in out.splitlines() if f and not f.endswith('/')]
shared = {'known_findings.json', 'harness/src/main.rs', 'lean/CCV/Driver.lean', 'harness/src/util.rs', 'harness/src/vals.rs',
          'lean/CCV/Model/Scalar.lean', 'lean/CCV/Drv/Util.lean', 'check', 'docs/BUILDER_CONTRACT.md', 'DESIGN.md',
          'harness/src/mpc_common.rs', 'harness/src/families.rs'}
for f in files:
    if f in shared or f.startswith('props/') and not f.startswith('props/' + C) or f.startswith('tools/') or f.startswith('notes/'):
        if f in shared and f not in ('harness/src/main.rs', 'lean/CCV/Driver.lean', 'known_findings.json'):
            print('SHARED (manual):', f)
        continue
    # do not overwrite other properties' files that the agent merely has an older copy of
    base = os.path.basename(f)
    if os.path.exists('/verif/' + f) and C not in f and c not in f:
        print('EXISTS, differs (manual):', f)
        continue
    os.makedirs(os.path.dirname('/verif/' + f) or '/verif', exist_ok=True)
    shutil.copy(W + '/' + f, '/verif/' + f)
    print('copied', f)
# registration
m = open('/verif/harness/src/main.rs').read()
am = open(W + '/harness/src/main.rs').read()
if 'mod %s;' % c not in m and os.path.exists('/verif/harness/src/%s.rs' % c):
    m = m.replace('mod c13;', 'mod c13;\nmod %s;' % c, 1)
    arms = re.findall(r'^\s*\("(?:corr|gen)", "%s"\) => .*?(?:,\n|\}\n)' % C, am, re.M | re.S)
    for a in arms:
        m = m.replace('        ("corr", "C13") => c13::corr(&mut run),\n', '        ("corr", "C13") => c13::corr(&mut run),\n' + a, 1)
    open('/verif/harness/src/main.rs', 'w').write(m)
    print('registered in main.rs:', [a.strip()[:60] for a in arms])
d = open('/verif/lean/CCV/Driver.lean').read()
if 'import CCV.Drv.%s' % C not in d and os.path.exists('/verif/lean/CCV/Drv/%s.lean' % C):
    d = d.replace('import CCV.Drv.C13', 'import CCV.Drv.C13\nimport CCV.Drv.%s' % C, 1)
    d = d.replace('  | "C13" :: rest => C13.handle rest', '  | "C13" :: rest => C13.handle rest\n  | "%s" :: rest => %s.handle rest' % (C, C), 1)
    open('/verif/lean/CCV/Driver.lean', 'w').write(d)
    print('registered in Driver.lean')
