#!/bin/sh
# merge_agent.sh <Cid> : copy a builder's per-property files from /tmp/w/<Cid>/verif into /verif
set -e
C="$1"; c=$(echo "$C" | tr 'A-Z' 'a-z'); W=/tmp/w/$C/verif
cd "$W"
# files changed or added relative to /verif (excluding build products, evidence, replays)
rsync -rcn --out-format='%n' --exclude .build --exclude .lake --exclude 'lean/CCV/Generated' --exclude evidence --exclude replays --exclude .git --exclude harness/Cargo.toml --exclude harness/Cargo.lock "$W/" /verif/ | grep -v '/$' || true
