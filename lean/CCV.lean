import CCV.Driver
