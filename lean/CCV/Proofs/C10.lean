import CCV.Model.Ops
import CCV.Model.OpsExt
import CCV.Model.Spec
import CCV.Lemmas.Shape
import CCV.Lemmas.Kernels
import CCV.Lemmas.OpsMat
import CCV.Lemmas.OpsPerm
import CCV.Lemmas.OpsStruct
import CCV.Lemmas.OpsReduce
import CCV.Lemmas.OpsGemm
import CCV.Lemmas.OpsMisc
import CCV.Lemmas.Slices
import CCV.Lemmas.OpsSeg
import CCV.Lemmas.OpsPerm2
import CCV.Lemmas.OpsCuckoo
import CCV.Lemmas.OpsPlumb
/-
  C10 — primitive operations follow their documented NumPy-style modular semantics.

  Property theorems only (helper lemmas: CCV/Lemmas/{Shape,Kernels,OpsMat,OpsPerm,OpsStruct,OpsReduce,OpsGemm,OpsMisc,Slices,OpsSeg,OpsPerm2,OpsCuckoo,OpsPlumb}.lean).
  `CCV.Ops`  = evaluator-shaped executable model (flat arrays, number_to_index / index_to_number,
               u128 kernels), the functions the model driver executes and the correspondence run
               compares with `SimpleEvaluator`;
  `CCV.Spec` = index-function semantics written from the documentation (integers mod 2^w).
  Every theorem is universally quantified over scalar types, shapes, parameters and values.
-/
namespace CCV.C10
open CCV CCV.Shape CCV.Ops

/-! ### index arithmetic -/

/-- **Index bijection, direction 1**: for a shape with positive dimensions and `n < Π shape`,
    `index_to_number(number_to_index(n)) = n`, and the index is valid. -/
theorem index_bijection_num (shape : List Nat) (hp : pos shape) (n : Nat) (hn : n < prod shape) :
    validIdx (numberToIndex n shape) shape ∧ indexToNumber (numberToIndex n shape) shape = n :=
  ⟨numberToIndex_valid hp hn, indexToNumber_numberToIndex hp hn⟩

example : numberToIndex 17 [2, 3, 4] = [1, 1, 1] ∧ indexToNumber [1, 1, 1] [2, 3, 4] = 17 := by decide

/-- **Index bijection, direction 2**: on valid multi-indices `number_to_index ∘ index_to_number = id`,
    `index_to_number` is the row-major position and lies below `Π shape`. -/
theorem index_bijection_idx (idx shape : List Nat) (h : validIdx idx shape) :
    numberToIndex (indexToNumber idx shape) shape = idx ∧
    indexToNumber idx shape = flat idx shape ∧ flat idx shape < prod shape :=
  ⟨numberToIndex_indexToNumber h, indexToNumber_eq_flat h, flat_lt h⟩

example : numberToIndex (indexToNumber [1, 2, 3] [2, 3, 4]) [2, 3, 4] = [1, 2, 3] ∧
    indexToNumber [1, 2, 3] [2, 3, 4] = 23 := by decide

/-- **Broadcasting index law**: for an operand shape `s` that broadcasts to `sr` (aligned at the last
    axis, every axis equal or 1) and a valid result index `I`, the position the evaluator reads
    (`index_to_number(I[offset..], s)` with its `% d`) is the row-major position of the NumPy
    broadcast index (leading axes dropped, index 0 on size-1 axes); and `broadcast_to_shape`
    returns exactly that element at position `I`. -/
theorem broadcast_law (arr s sr I : List Nat) (hb : bcOK s sr) (hI : validIdx I sr) :
    indexToNumber (I.drop (sr.length - s.length)) s = flat (bcIdx s I) s ∧ validIdx (bcIdx s I) s ∧
    (broadcastToShape arr s sr).getD (flat I sr) 0 = arr.getD (flat (bcIdx s I) s) 0 :=
  ⟨(broadcast_index_law hb hI).1, (broadcast_index_law hb hI).2, broadcastToShape_getD arr hb hI⟩

example : bcIdx [3, 1] [1, 2, 1] = [2, 0] ∧
    broadcastToShape [10, 20, 30] [3, 1] [2, 3, 2] = [10, 10, 20, 20, 30, 30, 10, 10, 20, 20, 30, 30] := by
  decide

/-! ### the modular kernels (bytes.rs) -/

/-- **u128 path, all 11 scalar types**: sign-extend, wrapping u128 operation, `% 2^w` (none for the
    128-bit types), keep the low `w` bits = the integer operation on the denoted integers mod 2^w. -/
theorem kernels_u128 (st : ST) (a b : Nat) :
    low st (addU128 (ext st a) (ext st b) (modulus st)) = st.ofInt (st.toInt a + st.toInt b) ∧
    low st (subU128 (ext st a) (ext st b) (modulus st)) = st.ofInt (st.toInt a - st.toInt b) ∧
    low st (mulU128 (ext st a) (ext st b) (modulus st)) = st.ofInt (st.toInt a * st.toInt b) ∧
    low st (mulU128 (ext st a) b (modulus st)) = st.ofInt (st.toInt a * (b : Int)) :=
  ⟨add_kernel st a b, sub_kernel st a b, mul_kernel st a b, mixed_mul_kernel st a b⟩

example : low .i8 (subU128 (ext .i8 3) (ext .i8 5) (modulus .i8)) = 254 ∧
    low .u128 (mulU128 (ext .u128 (2 ^ 64 + 3)) (ext .u128 (2 ^ 64 + 5)) (modulus .u128)) = 8 * 2 ^ 64 + 15 := by
  decide

/-- **u64 path with an explicit modulus** (`add_u64`, `multiply_u64`, the `m - v % m` subtraction of
    `subtract_vectors_u64`) and the wrapping path: integer arithmetic mod `m` resp. mod 2^64,
    for every modulus `m > 0` — in particular when `v % m = 0`. -/
theorem kernels_u64 (a b m : Nat) (hm : 0 < m) :
    addU64 a b (some m) = (((a : Int) + b) % m).toNat ∧
    subU64 a b (some m) = (((a : Int) - b) % m).toNat ∧
    mulU64 a b (some m) = (((a : Int) * b) % m).toNat ∧
    addU64 a b none = (((a : Int) + b) % ((2 ^ 64 : Nat) : Int)).toNat ∧
    subU64 a b none = (((a : Int) - b) % ((2 ^ 64 : Nat) : Int)).toNat ∧
    mulU64 a b none = (((a : Int) * b) % ((2 ^ 64 : Nat) : Int)).toNat :=
  ⟨addU64_some a b m, subU64_some a b m hm, mulU64_some a b m, addU64_none a b, subU64_none a b, mulU64_none a b⟩

example : subU64 5 14 (some 7) = 5 ∧ subU64 5 14 none = 2 ^ 64 - 9 ∧ subU64 3 7 (some 7) = 3 := by decide

/-- **dot product and sum as folds mod 2^w** (all scalar types, all lengths): the accumulation
    loops `res = add(res, mul(x, y))` / `res = add(res, v)` compute the integer dot product / sum
    of the denoted integers, reduced mod 2^w; same for the u64 kernels with an explicit modulus. -/
theorem folds (st : ST) (ps : List (Nat × Nat)) (xs : List Nat) (m : Nat) (hm : 0 < m) :
    low st (dotFold addU128 mulU128 (modulus st) (ps.map fun p => (ext st p.1, ext st p.2)))
      = st.ofInt ((ps.map fun p => st.toInt p.1 * st.toInt p.2).sum) ∧
    low st ((xs.map (ext st)).foldl (fun res v => addU128 res v (modulus st)) 0)
      = st.ofInt ((xs.map st.toInt).sum) ∧
    dotFold addU64 mulU64 (some m) ps = (((ps.map fun p => (p.1 : Int) * p.2).sum) % m).toNat ∧
    sumU64 xs (some m) = (((xs.map fun (x : Nat) => (x : Int)).sum) % m).toNat :=
  ⟨dotFold_spec st ps, sumFold_spec st xs, dotU64_fold_some ps m hm, sumU64_some xs m hm⟩

example : low .i8 (dotFold addU128 mulU128 (modulus .i8) ([(255, 2), (3, 252)].map fun p => (ext .i8 p.1, ext .i8 p.2))) = 242 := by
  decide

/-! ### arithmetic operations with broadcasting -/

/-- **Add / Subtract / Multiply = Spec** for all 11 scalar types, all broadcastable shapes, all
    values: the evaluator-shaped computation succeeds, has `Π sr` entries, and its entry at every
    valid index `I` is the integer operation on the NumPy-broadcast operands modulo 2^w. -/
theorem arith_eq_spec (op : Arith) (st : ST) (s1 xs s2 ys sr : List Nat) (h1 : bcOK s1 sr) (h2 : bcOK s2 sr) :
    ∃ r, arith op st s1 xs s2 ys sr = .ok r ∧ r.length = prod sr ∧
      ∀ I, validIdx I sr →
        r.getD (flat I sr) 0 = Spec.arith st op.int (Spec.ofFlat s1 xs) s1 (Spec.ofFlat s2 ys) s2 I :=
  arith_spec op st s1 xs s2 ys sr h1 h2

example : arith .sub .i8 [3] [1, 2, 3] [2, 1] [5, 255] [2, 3] = .ok [252, 253, 254, 2, 3, 4] := by rfl

/-- **MixedMultiply = Spec** (integer array × bit array with broadcasting). -/
theorem mixedMultiply_eq_spec (st : ST) (s1 xs s2 bits sr : List Nat) (h1 : bcOK s1 sr) (h2 : bcOK s2 sr) :
    ∃ r, mixedMultiply st s1 xs s2 bits sr = .ok r ∧ r.length = prod sr ∧
      ∀ I, validIdx I sr →
        r.getD (flat I sr) 0 = Spec.mixedMultiply st (Spec.ofFlat s1 xs) s1 (Spec.ofFlat s2 bits) s2 I :=
  mixedMultiply_spec st s1 xs s2 bits sr h1 h2

example : mixedMultiply .i16 [2] [65535, 7] [2, 1] [1, 0] [2, 2] = .ok [65535, 7, 0, 0] := by rfl

/-! ### sum, dot, matmul -/

/-- **Sum over all axes = Spec**: the scalar result is the sum of the denoted integers mod 2^w. -/
theorem sumAll_eq_spec (st : ST) (shape xs axes : List Nat) :
    sum st shape xs axes none = [Spec.sumAll st xs] :=
  sumAll_spec st shape xs axes

example : sum .i8 [2, 2] [127, 1, 255, 3] [0, 1] none = [130] := by decide

/-- **Dot / Matmul of two 1-d arrays = Spec** (inner product mod 2^w). -/
theorem dot11_eq_spec (st : ST) (K : Nat) (xs ys sr : List Nat) :
    dot st [K] xs [K] ys sr = [Spec.dot11 st (Spec.ofFlat [K] xs) (Spec.ofFlat [K] ys) K] ∧
    matmul st [K] xs [K] ys sr = [Spec.dot11 st (Spec.ofFlat [K] xs) (Spec.ofFlat [K] ys) K] :=
  ⟨dot11_spec st K xs ys sr, matmul11_spec st K xs ys sr⟩

example : dot .u8 [3] [1, 2, 3] [3] [4, 5, 100] [1] = [58] := by decide

/-- **Dot, N-d × 1-d = Spec**: sum product over the last axis of the first operand. -/
theorem dotN1_eq_spec (st : ST) (s0 xs ys : List Nat) (K : Nat) (hr : 1 ≤ s0.length) (I : List Nat) (hI : validIdx I s0) :
    (dot st (s0 ++ [K]) xs [K] ys s0).getD (flat I s0) 0
      = Spec.dotN1 st (Spec.ofFlat (s0 ++ [K]) xs) (Spec.ofFlat [K] ys) K I :=
  dotN1_spec st s0 xs ys K hr I hI

example : dot .u8 [2, 2] [1, 2, 3, 4] [2] [10, 100] [2] = [210, 174] := by decide

/-- **Dot, N-d × M-d (M ≥ 2) = documented formula**
    `dot(A, B)[I0, J0, m] = Σ_k A[I0, k] · B[J0, k, m]` mod 2^w. -/
theorem dotNN_eq_spec (st : ST) (a0 b0 xs ys : List Nat) (K M : Nat)
    (I0 J0 : List Nat) (m : Nat) (hI : validIdx I0 a0) (hJ : validIdx J0 b0) (hm : m < M) (hK : 0 < K) :
    (dot st (a0 ++ [K]) xs (b0 ++ [K, M]) ys (a0 ++ b0 ++ [M])).getD (flat (I0 ++ J0 ++ [m]) (a0 ++ b0 ++ [M])) 0
      = st.ofInt (Spec.sumTo K fun k =>
          st.toInt (Spec.ofFlat (a0 ++ [K]) xs (I0 ++ [k])) * st.toInt (Spec.ofFlat (b0 ++ [K, M]) ys (J0 ++ [k, m]))) :=
  dotNN_spec st a0 b0 xs ys K M I0 J0 m hI hJ hm hK

example : dot .u8 [2, 2] [1, 2, 3, 4] [2, 2] [5, 6, 7, 8] [2, 2] = [19, 22, 43, 50] := by decide

/-- **Matmul (ranks ≥ 2, NumPy batch broadcasting) = Spec**:
    `R[β, i, j] = Σ_k A[bc β, i, k] · B[bc β, k, j]` mod 2^w. -/
theorem matmul_eq_spec (st : ST) (ba bb br xs ys : List Nat) (N K M : Nat)
    (ha : bcOK ba br) (hb : bcOK bb br) (hK : 0 < K)
    (β : List Nat) (i j : Nat) (hβ : validIdx β br) (hi : i < N) (hj : j < M) :
    (matmul st (ba ++ [N, K]) xs (bb ++ [K, M]) ys (br ++ [N, M])).getD (flat (β ++ [i, j]) (br ++ [N, M])) 0
      = st.ofInt (Spec.sumTo K fun k =>
          st.toInt (Spec.ofFlat (ba ++ [N, K]) xs (bcIdx ba β ++ [i, k])) *
          st.toInt (Spec.ofFlat (bb ++ [K, M]) ys (bcIdx bb β ++ [k, j]))) :=
  matmul_spec st ba bb br xs ys N K M ha hb hK β i j hβ hi hj

example : matmul .u8 [1, 2, 2] [1, 2, 3, 4] [2, 2, 1] [1, 1, 2, 3] [2, 2, 1] = [3, 7, 8, 18] := by decide

/-! ### permutations -/

/-- **PermuteAxes = numpy.transpose**: for a permutation `perm` of the axes,
    `R[J] = A[I]` whenever `J_k = I_{perm k}` (all ranks, shapes, values). -/
theorem permuteAxes_eq_spec (values shape perm : List Nat) (hlen : values.length = prod shape) (hpos : pos shape)
    (hpl : perm.length = shape.length) (hnd : perm.Nodup) (hlt : ∀ j ∈ perm, j < shape.length) :
    Spec.permuteRel (Spec.ofFlat shape values)
      (Spec.ofFlat (perm.map fun j => shape.getD j 0)
        (permuteAxes values shape perm (perm.map fun j => shape.getD j 0)))
      shape perm :=
  permuteAxes_spec values shape perm hlen hpos hpl hnd hlt

example : permuteAxes [1, 2, 3, 4, 5, 6] [2, 3] [1, 0] [3, 2] = [1, 4, 2, 5, 3, 6] := by decide

/-- **InversePermutation**: a permutation of `0..n-1` is inverted (`r[values[i]] = i`);
    every other input is rejected. -/
theorem inversePermutation_eq_spec (values : List Nat) :
    (values.Nodup → (∀ v ∈ values, v < values.length) →
      ∃ r, inversePermutation values = .ok r ∧ r.length = values.length ∧
        ∀ i, i < values.length → r.getD (values.getD i 0) 0 = i) ∧
    ((¬ values.Nodup ∨ ∃ v ∈ values, values.length ≤ v) → ∃ e, inversePermutation values = .error e) :=
  ⟨fun hnd hlt => inversePermutation_spec values hnd hlt, fun h => inversePermutation_err values h⟩

example : inversePermutation [2, 0, 3, 1] = .ok [1, 3, 0, 2] := by rfl

/-! ### structural operations (element width of the type) -/

/-- **Get = Spec**: `get(index)` copies the sub-array `R[J] = A[index ++ J]` (all ranks / index lengths). -/
theorem get_eq_spec (shape xs sub J : List Nat) (hk : sub.length ≤ shape.length)
    (hs : validIdx sub (shape.take sub.length)) (hJ : validIdx J (shape.drop sub.length)) :
    (get shape xs sub).getD (flat J (shape.drop sub.length)) 0 = Spec.get (Spec.ofFlat shape xs) sub J :=
  get_spec shape xs sub J hk hs hJ

example : get [2, 3] [1, 2, 3, 2 ^ 100 + 7, 5, 6] [1] = [2 ^ 100 + 7, 5, 6] := by decide

/-- **Witness of the repaired defect**: reading the payload through 64-bit integers (as the
    structural operations did before 5b3fa60) contradicts the documented `get`: element `2^100+7`
    of a UINT128 array came back as `7`. -/
theorem u64_truncation_witness :
    get [2] (viaU64 [1, 2 ^ 100 + 7]) [1] = [7] ∧
    Spec.get (Spec.ofFlat [2] [1, 2 ^ 100 + 7]) [1] [] = 2 ^ 100 + 7 := by decide

example : (get [2] (viaU64 [1, 2 ^ 100 + 7]) [1]).getD 0 0 ≠ Spec.get (Spec.ofFlat [2] [1, 2 ^ 100 + 7]) [1] [] := by decide

/-- **Stack = Spec**: `R[O ++ J] = input_{position of O in the outer shape}[broadcast J]`
    (inputs are arrays or scalars with dimensions `[1]`, broadcast to the common inner shape);
    second part: stacking scalars only. -/
theorem stack_eq_spec (outer inner : List Nat) (inputs : List (List Nat × List Nat)) (O J : List Nat)
    (hin : inner ≠ []) (hO : validIdx O outer) (hJ : validIdx J inner)
    (hlen : inputs.length = prod outer) (hb : ∀ p ∈ inputs, bcOK p.1 inner) :
    (stack outer inputs (outer ++ inner)).getD (flat (O ++ J) (outer ++ inner)) 0
      = Spec.ofFlat (inputs.getD (flat O outer) ([], [])).1 (inputs.getD (flat O outer) ([], [])).2
          (bcIdx (inputs.getD (flat O outer) ([], [])).1 J) :=
  stack_spec outer inner inputs O J hin hO hJ hlen hb

theorem stack_scalars_eq_spec (outer : List Nat) (inputs : List (List Nat × List Nat)) (O : List Nat)
    (hO : validIdx O outer) (hlen : inputs.length = prod outer) (hb : ∀ p ∈ inputs, p.1 = [1]) :
    (stack outer inputs outer).getD (flat O outer) 0 = (inputs.getD (flat O outer) ([], [])).2.getD 0 0 :=
  stack_scalars_spec outer inputs O hO hlen hb

example : stack [2] [([2, 2], [1, 2, 3, 4]), ([2, 1], [5, 6])] [2, 2, 2] = [1, 2, 3, 4, 5, 5, 6, 6] := by decide

/-- **Concatenate = Spec** (any axis, any number of inputs): input `t` is found in the result at
    offset `Σ_{u<t} shape_u[axis]` along the axis. -/
theorem concatenate_eq_spec (axis : Nat) (inputs : List (List Nat × List Nat)) (sr : List Nat)
    (haxis : axis < sr.length)
    (hshape : ∀ p ∈ inputs, p.1.length = sr.length ∧ (∀ k, k ≠ axis → p.1.getD k 0 = sr.getD k 0) ∧ p.2.length = prod p.1)
    (hsum : sr.getD axis 0 = (inputs.map fun p => p.1.getD axis 0).sum)
    (t : Nat) (ht : t < inputs.length) (I : List Nat)
    (hI : validIdx I (inputs.getD t ([], [])).1) :
    (concatenate axis inputs sr).getD
        (flat (I.set axis (I.getD axis 0 + ((inputs.take t).map fun p => p.1.getD axis 0).sum)) sr) 0
      = Spec.ofFlat (inputs.getD t ([], [])).1 (inputs.getD t ([], [])).2 I :=
  concatenate_spec axis inputs sr haxis hshape hsum t ht I hI

example : concatenate 1 [([2, 1], [1, 2]), ([2, 2], [3, 4, 5, 6])] [2, 3] = [1, 3, 4, 2, 5, 6] := by decide

/-- **Gather = numpy.take along `axis`**: `R[P ++ Q ++ R'] = A[P ++ [indices[Q]] ++ R']` when all
    indices are in range (`xs` holds at least the `Π shape` elements of the value); an out-of-range
    index is a run-time error. -/
theorem gather_eq_spec (shape xs indices ishape : List Nat) (axis : Nat)
    (haxis : axis < shape.length) (hxs : prod shape ≤ xs.length)
    (hidx : ∀ x ∈ indices, x < shape.getD axis 0) (hil : indices.length = prod ishape)
    (P Q R : List Nat) (hP : validIdx P (shape.take axis)) (hQ : validIdx Q ishape)
    (hR : validIdx R (shape.drop (axis + 1))) :
    ∃ r, gather shape xs indices axis = .ok r ∧
      r.getD (flat (P ++ Q ++ R) (shape.take axis ++ ishape ++ shape.drop (axis + 1))) 0
        = Spec.ofFlat shape xs (P ++ [indices.getD (flat Q ishape) 0] ++ R) :=
  gather_spec_partial shape xs indices ishape axis haxis hxs hidx hil P Q R hP hQ hR

theorem gather_out_of_range (shape xs indices : List Nat) (axis : Nat) (hpos : 0 < prod (shape.take axis))
    (hbad : ∃ x ∈ indices, shape.getD axis 0 ≤ x) : ∃ e, gather shape xs indices axis = .error e :=
  gather_err shape xs indices axis hpos hbad

example : gather [2, 3] [1, 2, 3, 4, 5, 6] [2, 0] 1 = .ok [3, 1, 6, 4] := by rfl

/-- **ArrayToVector / VectorToArray**: row `t` of the vector is `A[t, …]`; the round trip is the identity. -/
theorem arrayToVector_eq_spec (d : Nat) (rest xs : List Nat) (hlen : xs.length = d * prod rest) (hp : 0 < prod rest)
    (t : Nat) (ht : t < d) (J : List Nat) (hJ : validIdx J rest) :
    ((arrayToVector (d :: rest) xs).getD t []).getD (flat J rest) 0 = Spec.ofFlat (d :: rest) xs (t :: J) ∧
    vectorToArray (arrayToVector (d :: rest) xs) = xs :=
  ⟨arrayToVector_spec d rest xs hlen hp t ht J hJ, vectorToArray_arrayToVector d rest xs hlen hp⟩

example : arrayToVector [2, 2] [1, 2, 3, 4] = [[1, 2], [3, 4]] := by decide

/-! ### gemm, sum over axes, cumulative sum -/

/-- **Gemm = Spec** for all four transposition-flag combinations, NumPy batch broadcasting (including
    batch dimensions of size 1), all scalar types:
    `R[β,i,j] = Σ_k A'[bc β,i,k] · B'[bc β,k,j]` mod 2^w where `A'`/`B'` read the operand with its last
    two axes swapped when the flag is set. -/
theorem gemm_eq_spec (st : ST) (t0 t1 : Bool) (ba bb br xs ys : List Nat) (N K M : Nat)
    (ha : bcOK ba br) (hb : bcOK bb br) (hN : 0 < N) (hK : 0 < K) (hM : 0 < M)
    (hpa : pos ba) (hpb : pos bb) (hpr : pos br)
    (hx : xs.length = prod ba * (N * K)) (hy : ys.length = prod bb * (K * M))
    (β : List Nat) (i j : Nat) (hβ : validIdx β br) (hi : i < N) (hj : j < M) :
    ∃ r, gemm st t0 t1 (ba ++ (if t0 then [K, N] else [N, K])) xs (bb ++ (if t1 then [M, K] else [K, M])) ys (br ++ [N, M]) = .ok r ∧
      r.getD (flat (β ++ [i, j]) (br ++ [N, M])) 0
        = st.ofInt (Spec.sumTo K fun k =>
            st.toInt (Spec.ofFlat (ba ++ (if t0 then [K, N] else [N, K])) xs (bcIdx ba β ++ (if t0 then [k, i] else [i, k]))) *
            st.toInt (Spec.ofFlat (bb ++ (if t1 then [M, K] else [K, M])) ys (bcIdx bb β ++ (if t1 then [j, k] else [k, j])))) :=
  gemm_spec st t0 t1 ba bb br xs ys N K M ha hb hN hK hM hpa hpb hpr hx hy β i j hβ hi hj

example : gemm .i8 true false [1, 2, 2] [1, 2, 255, 3] [2, 2, 1] [5, 254, 1, 1] [2, 2, 1] = .ok [7, 4, 0, 5] := by rfl

/-- **Sum over a subset of the axes = Spec**: `R[J] = Σ { A[I] | I restricted to the kept axes = J }`
    mod 2^w (all ranks, axes sets, scalar types). -/
theorem sumAxes_eq_spec (st : ST) (shape xs axes : List Nat) (hpos : pos shape) (hlen : xs.length = prod shape)
    (hax : axes ≠ []) (J : List Nat)
    (hJ : validIdx J (((List.range shape.length).filter fun j => !axes.contains j).map fun j => shape.getD j 0)) :
    (sum st shape xs axes (some (((List.range shape.length).filter fun j => !axes.contains j).map fun j => shape.getD j 0))).getD
        (flat J (((List.range shape.length).filter fun j => !axes.contains j).map fun j => shape.getD j 0)) 0
      = Spec.sumAxes st (Spec.ofFlat shape xs) shape ((List.range shape.length).filter fun j => !axes.contains j) J :=
  sumAxes_spec st shape xs axes hpos hlen hax J hJ

example : sum .u8 [2, 3] [1, 2, 3, 4, 5, 250] [0] (some [3]) = [5, 7, 253] := by decide

/-- **CumSum = numpy.cumsum**: `R[I] = Σ_{k ≤ I[axis]} A[I with axis := k]` mod 2^w, any axis. -/
theorem cumSum_eq_spec (st : ST) (shape xs : List Nat) (axis : Nat) (hpos : pos shape) (hlen : xs.length = prod shape)
    (hax : axis < shape.length) (I : List Nat) (hI : validIdx I shape) :
    (cumSum st shape xs axis).getD (flat I shape) 0 = Spec.cumSum st (Spec.ofFlat shape xs) axis I :=
  cumSum_spec st shape xs axis hpos hlen hax I hI

example : cumSum .i8 [2, 3] [1, 2, 3, 4, 5, 250] 1 = [1, 3, 6, 4, 9, 3] := by decide

/-! ### slices -/

/-- **Sub-array slice of one axis = Python/NumPy**: if the builder accepts `b:e:s` for an axis of size
    `dim` with count `c`, then `s ≠ 0`, `c > 0`, position `j` is selected iff it is in
    `range(*slice(b,e,s).indices(dim))`, and element `j` is read at `start + s·j`, inside the axis. -/
theorem slice1d_eq_spec (dim : Nat) (b e s : Option Int) (c : Nat)
    (h : Slices.getSliceShape1d dim (.sub b e s) = .ok (some c)) :
    s.getD 1 ≠ 0 ∧ 0 < c ∧
    (∀ j : Nat, j < c ↔ Spec.inRange (Spec.pyStart dim b (s.getD 1)) (Spec.pyStop dim e (s.getD 1)) (s.getD 1) j) ∧
    (∀ j : Nat, j < c →
        Slices.slice1dIndex dim b e s j = .ok (Spec.pyStart dim b (s.getD 1) + s.getD 1 * j).toNat ∧
        0 ≤ Spec.pyStart dim b (s.getD 1) + s.getD 1 * j ∧ Spec.pyStart dim b (s.getD 1) + s.getD 1 * j < dim) :=
  Slices.slice1d_spec dim b e s c h

example : Slices.getSliceShape1d 5 (.sub (some (-1)) none (some (-2))) = .ok (some 3) ∧
    Slices.slice1dIndex 5 (some (-1)) none (some (-2)) 2 = .ok 0 := by
  constructor <;> rfl

/-- **Single index**: accepted iff `-dim ≤ i < dim`, and then it denotes `i mod dim`. -/
theorem single_index_eq_spec (dim : Nat) (i : Int) :
    (Slices.getSliceShape1d dim (.single i) = .ok none ↔ (-(dim : Int) ≤ i ∧ i < dim)) ∧
    ((-(dim : Int) ≤ i ∧ i < dim) → (if 0 ≤ i then i else i + dim) = i % (dim : Int)) :=
  ⟨Slices.single_spec dim i, Slices.single_index dim i⟩

example : Slices.getSliceShape1d 5 (.single (-5)) = .ok none := by rfl

/-- **Ellipsis**: a slice without ellipsis is used as is; one ellipsis stands for
    `rank - (number of other elements)` full axes. -/
theorem ellipsis_eq_spec (rank : Nat) (pre post : List Slices.SE) (hpre : ∀ x ∈ pre, x ≠ Slices.SE.ellipsis)
    (hpost : ∀ x ∈ post, x ≠ Slices.SE.ellipsis) (hl : pre.length + post.length ≤ rank) :
    Slices.getCleanSlice rank (pre ++ post) = .ok (pre ++ post) ∧
    Slices.getCleanSlice rank (pre ++ [Slices.SE.ellipsis] ++ post)
      = .ok (pre ++ List.replicate (rank - pre.length - post.length) (Slices.SE.sub none none none) ++ post) :=
  ⟨Slices.getCleanSlice_noEllipsis rank (pre ++ post)
      (fun x hx => by rcases List.mem_append.mp hx with h | h; exact hpre x h; exact hpost x h)
      (by simp only [List.length_append]; omega),
   Slices.getCleanSlice_ellipsis rank pre post hpre hpost hl⟩

example : Slices.getSliceShape [5, 4, 3] [.sub (some (-1)) none (some (-2)), .ellipsis, .single (-1)] = .ok [3, 4] := by
  rfl

/-- **GetSlice = NumPy basic slicing** (ellipsis-free form; an ellipsis reduces to it by
    `ellipsis_eq_spec`): if the builder accepts the slice with result dimensions `rd` and the
    evaluator loop returns `r`, then for every valid result index `I` the source index
    `Slices.specIndex shape sl I` (axis by axis: `i mod d` for a single index, `start + step·I_j` for a
    sub-array, `I_j` for axes not mentioned) is a valid index of the source and `r[I] = A[source]`. -/
theorem getSlice_eq_spec (shape xs : List Nat) (sl : List Slices.SE) (rd r : List Nat)
    (hne : ∀ x ∈ sl, x ≠ Slices.SE.ellipsis) (hs : Slices.getSliceShape shape sl = .ok rd)
    (h : getSlice shape xs sl rd = .ok r) (I : List Nat) (hI : validIdx I rd) :
    validIdx (Slices.specIndex shape sl I) shape ∧
    r.getD (flat I rd) 0 = Spec.ofFlat shape xs (Slices.specIndex shape sl I) :=
  Slices.getSlice_spec shape xs sl rd r hne hs h I hI

example : getSlice [2, 5] [0, 1, 2, 3, 4, 5, 6, 7, 8, 9] [.ellipsis, .sub (some (-1)) none (some (-2))] [2, 3]
    = .ok [4, 2, 0, 9, 7, 5] := by rfl

/-! ### truncate, A2B / B2A, ApplyPermutation -/

/-- **Plaintext Truncate = Spec**: every entry becomes the denoted integer divided by `scale`,
    rounding toward zero, reduced into the type (all 11 scalar types). -/
theorem truncate_eq_spec (st : ST) (scale : Nat) (xs : List Nat) (hs : 0 < scale) (hs' : scale < 2 ^ 127)
    (hx : ∀ x ∈ xs, x < 2 ^ st.bits) :
    truncate st scale xs = xs.map fun r => st.ofInt (Int.tdiv (st.toInt r) scale) :=
  truncate_spec st scale xs hs hs' hx

example : truncate .i8 3 [249, 7, 128] = [254, 2, 214] := by decide

/-- **A2B / B2A = Spec**: A2B lists the `w` bits of every residue, least significant first; B2A
    packs `w` bits per element (`Σ b_k 2^k`); B2A ∘ A2B is the identity. -/
theorem a2b_b2a_eq_spec (st : ST) (hst : st ≠ .bit) (xs : List Nat) (hx : ∀ x ∈ xs, x < 2 ^ st.bits)
    (cs : List (List Nat)) (hc : ∀ c ∈ cs, c.length = st.bits ∧ ∀ b ∈ c, b < 2) :
    a2b st xs = .ok (xs.flatMap fun x => (List.range st.bits).map fun k => x / 2 ^ k % 2) ∧
    b2a st (cs.flatMap id) = .ok (cs.map Bytes.packBits) ∧
    (∃ bits, a2b st xs = .ok bits ∧ b2a st bits = .ok xs) :=
  ⟨a2b_spec st hst xs hx, b2a_spec st hst cs hc, b2a_a2b st hst xs hx⟩

example : a2b .u8 [5, 255] = .ok [1, 0, 1, 0, 0, 0, 0, 0, 1, 1, 1, 1, 1, 1, 1, 1] := by rfl

/-- **ApplyPermutation = Spec** (1-d payload, `p` a permutation of `0..n-1`):
    plain `R[i] = A[p[i]]`, inverse `R[p[i]] = A[i]`. -/
theorem applyPermutation_eq_spec (xs p : List Nat) (hlen : p.length = xs.length) (hnd : p.Nodup) (hlt : ∀ v ∈ p, v < p.length) :
    (∃ r, applyPermutation false [xs.length] xs p = .ok r ∧ r.length = xs.length ∧ ∀ i, i < xs.length → r.getD i 0 = xs.getD (p.getD i 0) 0) ∧
    (∃ r, applyPermutation true [xs.length] xs p = .ok r ∧ r.length = xs.length ∧ ∀ i, i < xs.length → r.getD (p.getD i 0) 0 = xs.getD i 0) :=
  applyPermutation_spec xs p hlen hnd hlt

example : applyPermutation true [3] [10, 20, 30] [2, 0, 1] = .ok [20, 30, 10] := by rfl

/-- **ApplyPermutation on payloads of any rank + round trips** (`p` a permutation of `0..d-1`, payload
    of shape `d × rest`, `rowOf a R k` = the `k`-th block of `R = Π rest` elements): plain: row `i` of
    the result is row `p[i]` of the input; inverse: row `p[i]` of the result is row `i` of the input;
    `apply(inverse_permutation p) ∘ apply(p) = id`, `apply_inverse(p) ∘ apply(p) = id`,
    `apply(p) ∘ apply_inverse(p) = id`. -/
theorem applyPermutation_roundtrip (d : Nat) (rest xs p : List Nat) (hx : xs.length = d * prod rest)
    (hpl : p.length = d) (hnd : p.Nodup) (hlt : ∀ v ∈ p, v < d) :
    ∃ q ys zs, inversePermutation p = .ok q ∧
      applyPermutation false (d :: rest) xs p = .ok ys ∧ ys.length = xs.length ∧
      (∀ i, i < d → rowOf ys (prod rest) i = rowOf xs (prod rest) (p.getD i 0)) ∧
      applyPermutation true (d :: rest) xs p = .ok zs ∧ zs.length = xs.length ∧
      (∀ i, i < d → rowOf zs (prod rest) (p.getD i 0) = rowOf xs (prod rest) i) ∧
      applyPermutation false (d :: rest) ys q = .ok xs ∧
      applyPermutation true (d :: rest) ys p = .ok xs ∧
      applyPermutation false (d :: rest) zs p = .ok xs :=
  applyPermutation_rows d rest xs p hx hpl hnd hlt

example : inversePermutation [2, 0, 1] = .ok [1, 2, 0] ∧
    applyPermutation false [3, 2] [1, 2, 3, 4, 5, 6] [2, 0, 1] = .ok [5, 6, 1, 2, 3, 4] ∧
    applyPermutation false [3, 2] [5, 6, 1, 2, 3, 4] [1, 2, 0] = .ok [1, 2, 3, 4, 5, 6] ∧
    applyPermutation true [3, 2] [5, 6, 1, 2, 3, 4] [2, 0, 1] = .ok [1, 2, 3, 4, 5, 6] := ⟨rfl, rfl, rfl, rfl⟩

/-! ### SegmentCumSum -/

/-- **SegmentCumSum = the documented iteration** (`output[0] = v`, `output[i] = A[i-1] + B[i-1]·output[i-1]`),
    all scalar types (arithmetic mod 2^w), any number of rows `n` (also `n = 0`), any row shape `rest`
    (`[]` with `first` a scalar): the result has `(n+1)·Π rest` entries and its entry at `[i] ++ J` is
    `Spec.segmentCumSum`. -/
theorem segmentCumSum_eq_spec (st : ST) (rest xs bits first : List Nat)
    (hx : xs.length = bits.length * prod rest) (hf : first.length = prod rest) (hb : ∀ x ∈ bits, x < 2)
    (i : Nat) (J : List Nat) (hi : i ≤ bits.length) (hJ : validIdx J rest) :
    (segmentCumSum st (prod rest) xs bits first).length = (bits.length + 1) * prod rest ∧
    Spec.ofFlat ((bits.length + 1) :: rest) (segmentCumSum st (prod rest) xs bits first) (i :: J)
      = Spec.segmentCumSum st (Spec.ofFlat (bits.length :: rest) xs) (fun t => bits.getD t 0)
          (Spec.ofFlat rest first) (i :: J) :=
  ⟨(segmentCumSum_flat st (prod rest) xs bits first hx hf hb).1,
   (segmentCumSum_flat st (prod rest) xs bits first hx hf hb).2 i (flat J rest) hi (flat_lt hJ)⟩

example : segmentCumSum .i8 2 [1, 2, 3, 4, 250, 6] [1, 1, 0] [100, 127] = [100, 127, 101, 129, 104, 133, 250, 6] := by
  decide

/-- **The iteration is a segment-wise cumulative sum**: with bits `B`, row `i` of the output is the
    first row plus all input rows before `i` when no segment has started (`B[k] = 1` for all `k < i`),
    and otherwise the sum of the input rows `s..i-1`, where `s` is the last position with `B[s] = 0`
    (the row at a segment start is the input row itself). -/
theorem segment_sums (a : Nat → Int) (b : Nat → Nat) (v : Int) (i : Nat) :
    ((∀ k, k < i → b k = 1) → Spec.segIter a b v i = v + Spec.sumFrom 0 i a) ∧
    (∀ s, s < i → b s = 0 → (∀ k, s < k → k < i → b k = 1) → Spec.segIter a b v i = Spec.sumFrom s i a) :=
  ⟨segIter_all_ones a b v i, fun s hs h0 h1 => segIter_segment a b v s i hs h0 h1⟩

example : Spec.segIter (fun k => [1, 2, 3, 4].getD k 0) (fun k => [1, 0, 1, 1].getD k 0) 10 4 = 9 ∧
    Spec.sumFrom 1 4 (fun k => [1, 2, 3, 4].getD k 0) = 9 := by decide

/-! ### CuckooHash -/

/-- **CuckooHash, placement invariant** (`evaluate_cuckoo`: flat table, insertion loop with
    evictions and the bound of 100 re-insertions; any number of sets, strings, hash functions
    `h ≥ 1`, matrix sizes): if the evaluation succeeds, the result has `numSets · 2^rows` cells and in
    the cells `s·2^rows .. (s+1)·2^rows - 1` of set `s`
    * every string index `i < n` sits in a cell `c` which is one of its hash positions
      (`c = hash_f(string i)` for some `f < h`),
    * no index sits in two cells,
    * every other cell holds the sentinel `CUCKOO_DUMMY_ELEMENT = 2^64 - 1`. -/
theorem cuckooHash_placement (inputBits hm : List Nat) (numSets n b h rows cols : Nat) (hh : 0 < h)
    (hbits : ∀ x ∈ inputBits, x < 2) (hn : n < 2 ^ 64) (r : List Nat)
    (hres : cuckooHash inputBits hm numSets n b h rows cols = .ok r) :
    r.length = numSets * 2 ^ rows ∧
      ∀ s, s < numSets →
        (∀ i, i < n → ∃ c, c < 2 ^ rows ∧ r.getD (s * 2 ^ rows + c) 0 = i ∧
          ∃ f, f < h ∧ cuckooHashAt inputBits hm n b rows cols s f i = c) ∧
        (∀ c c', c < 2 ^ rows → c' < 2 ^ rows → r.getD (s * 2 ^ rows + c) 0 = r.getD (s * 2 ^ rows + c') 0 →
          r.getD (s * 2 ^ rows + c) 0 ≠ cuckooDummy → c = c') ∧
        (∀ c, c < 2 ^ rows → r.getD (s * 2 ^ rows + c) 0 = cuckooDummy ∨ r.getD (s * 2 ^ rows + c) 0 < n) := by
  obtain ⟨hlen, hinv⟩ := cuckooHash_inv inputBits hm numSets n b h rows cols hh hbits hn r hres
  refine ⟨hlen, ?_⟩
  intro s hs
  obtain ⟨used, hi⟩ := hinv s hs
  have hw : ∀ c, c < 2 ^ rows → win (2 ^ rows) s (s * 2 ^ rows + c) :=
    fun c hc => ⟨Nat.le_add_right _ _, Nat.add_lt_add_left hc _⟩
  refine ⟨?_, ?_, ?_⟩
  · intro i hin
    obtain ⟨c', hc', hci⟩ := hi.mem i hin
    have hd : r.getD c' 0 ≠ cuckooDummy := by rw [hci]; unfold cuckooDummy; omega
    have hcell := hi.cell c' hc' hd
    refine ⟨c' - s * 2 ^ rows, by have := hc'.1; have := hc'.2; omega, ?_, used.getD c' 0, hcell.2.1, ?_⟩
    · rw [Nat.add_sub_cancel' hc'.1]; exact hci
    · have h2 := hcell.2.2
      rw [hci] at h2
      have := hc'.1
      omega
  · intro c c' hc hc' heq hd
    have := hi.inj _ _ (hw c hc) (hw c' hc') heq hd
    omega
  · intro c hc
    by_cases hd : r.getD (s * 2 ^ rows + c) 0 = cuckooDummy
    · exact Or.inl hd
    · exact Or.inr (hi.cell _ (hw c hc) hd).1

/-- three strings that all hash to cell 0 under the first hash function: the second evicts the first,
    the third evicts the second; two sets in one flat table; a failing instance (five strings for
    four cells) -/
example : cuckooHash [0, 1, 1, 0, 1, 1] [0, 0, 0, 0, 1, 0, 0, 1, 1, 1, 1, 1] 1 3 2 3 2 2
      = .ok [2, 1, 0, 2 ^ 64 - 1] ∧
    cuckooHash [0, 1, 1, 0, 1, 1, 1, 1, 0, 1, 1, 0] [0, 0, 0, 0, 1, 0, 0, 1, 1, 1, 1, 1] 2 3 2 3 2 2
      = .ok [2, 1, 0, 2 ^ 64 - 1, 2, 2 ^ 64 - 1, 1, 0] ∧
    (∃ e, cuckooHash [0, 1, 1, 0, 1, 1, 0, 0, 0, 1] [0, 0, 0, 0, 1, 0, 0, 1, 1, 1, 1, 1] 1 5 2 3 2 2 = .error e) :=
  ⟨rfl, rfl, _, rfl⟩

/-- **CuckooHash, pigeonhole failure**: with more strings in a set than cells in its table the
    evaluation is a run-time error (consequence of the placement invariant). -/
theorem cuckooHash_overfull (inputBits hm : List Nat) (numSets n b h rows cols : Nat) (hh : 0 < h)
    (hbits : ∀ x ∈ inputBits, x < 2) (hn : n < 2 ^ 64) (hs : 0 < numSets) (hfull : 2 ^ rows < n) :
    ∃ e, cuckooHash inputBits hm numSets n b h rows cols = .error e := by
  cases hres : cuckooHash inputBits hm numSets n b h rows cols with
  | error e => exact ⟨e, rfl⟩
  | ok r =>
    exfalso
    obtain ⟨_, hpl⟩ := cuckooHash_placement inputBits hm numSets n b h rows cols hh hbits hn r hres
    obtain ⟨hmem, _, _⟩ := hpl 0 hs
    have hsub : List.range n ⊆ (List.range (2 ^ rows)).map (fun c => r.getD (0 * 2 ^ rows + c) 0) := by
      intro i hi
      obtain ⟨c, hc, hci, _⟩ := hmem i (List.mem_range.mp hi)
      exact List.mem_map.mpr ⟨c, List.mem_range.mpr hc, hci⟩
    have := List.Nodup.length_le_of_subset List.nodup_range hsub
    simp only [List.length_range, List.length_map] at this
    omega

example : ∃ e, cuckooHash [0, 1, 1, 0, 1, 1, 0, 0, 0, 1] [0, 0, 0, 0, 1, 0, 0, 1, 1, 1, 1, 1] 1 5 2 3 2 2 = .error e :=
  cuckooHash_overfull _ _ 1 5 2 3 2 2 (by decide) (by decide) (by decide) (by decide) (by decide)

/-! ### Zip / Repeat / tuple plumbing -/

/-- **Zip** of `k ≥ 1` vectors of equal length `n`: `n` rows of `k` entries, `result[i][k] = values[k][i]`. -/
theorem zip_eq_spec {α : Type} (values : List (List α)) (n : Nat) (hne : values ≠ [])
    (hl : ∀ v ∈ values, v.length = n) :
    (zip values).length = n ∧
    ∀ i, i < n → ∃ row, (zip values)[i]? = some row ∧ row.length = values.length ∧
      ∀ (k : Nat) (v : List α), values[k]? = some v → row[k]? = v[i]? :=
  zip_spec values n hne hl

example : zip [[1, 2, 3], [4, 5, 6]] = [[1, 4], [2, 5], [3, 6]] := by decide

/-- **Repeat(n)** is `n` copies; **CreateTuple/CreateNamedTuple/CreateVector** followed by
    **TupleGet / VectorGet / NamedTupleGet** returns the selected operand; `VectorGet` beyond the
    length is a run-time error. -/
theorem plumbing_eq_spec {α : Type} (vs : List α) (v : α) (n id : Nat) :
    ((repeatV n v).length = n ∧ ∀ i, i < n → (repeatV n v)[i]? = some v) ∧
    tupleGet (createTuple vs) id = vs[id]? ∧
    (∀ w, vs[id]? = some w → vectorGet (createTuple vs) id = .ok w) ∧
    (vs.length ≤ id → ∃ e, vectorGet (createTuple vs) id = .error e) ∧
    (∀ (names : List String) (name : String), names.findIdx? (· == name) = some id →
      namedTupleGet names (createTuple vs) name = vs[id]?) :=
  ⟨repeat_spec n v, (tuple_get_spec vs id).1, (tuple_get_spec vs id).2.1, (tuple_get_spec vs id).2.2,
    fun names name h => namedTupleGet_spec names vs name id h⟩

example : repeatV 3 [7, 8] = [[7, 8], [7, 8], [7, 8]] ∧ tupleGet (createTuple [10, 20, 30]) 1 = some 20 ∧
    namedTupleGet ["a", "b", "c"] [10, 20, 30] "c" = some 30 := by decide

end CCV.C10
