import CCV.Lemmas.Reshare
/-
  C01, item T9 — safety of the resharing planner (ciphercore-base/src/mpc/resharing.rs).

  The MPC compiler translates a private×private product (Multiply/Dot/Matmul/Gemm) into the ABY3
  product, whose result is a 3-out-of-3 sharing; share-wise (local) translations keep that state;
  interactive protocols (products, A2B, B2A, Truncate, Sort, Join, MixedMultiply / ApplyPermutation
  with private bits / permutation) read REPLICATED (2-out-of-3) operands, and the output must be
  replicated before it is revealed.  `get_nodes_to_reshare` decides where a `reshare` is appended.

  `CCV.Reshare.plan` (Model/Reshare.lean) mirrors `compute_graph_resharing` + `sanity_pass` on an abstract
  graph (class of the operation, broadcasting flag, private flag, size in bits, operand list); the
  harness compares it node set for node set with the hook on generated graphs.

  Definitions (Lemmas/Reshare.lean):
    `Unres g P i`        — INDUCTIVELY FROM THE PLAN P: node i is private, not in P, and is a product of
                           private operands or has an operand d with `Unres g P d`;
    `NeedsReplicated g n` — the translation of n reads replicated operands;
    `WF g`                — operands precede the node, inputs have no operands;
    `PosSizes g`          — operands of broadcasting operations have a positive size in bits
                           (the harness checks both hypotheses on every real graph).
  All theorems are for every graph, every private set (also inconsistent ones) and every output node.
-/
namespace CCV.C01
open CCV.Reshare

/-- the inductive definition read as an equation -/
theorem unres_iff (g : Graph) (P : List Nat) (i : Nat) :
    Unres g P i ↔ ∃ n, g.nodes[i]? = some n ∧ n.priv = true ∧ i ∉ P ∧
      (AllPrivProduct g n ∨ ∃ d ∈ n.deps, Unres g P d) := unres_unfold g P i

/-- the executable `unresAll` (what the driver prints for `unres`, compared by the harness with its
    native recomputation on the real graph) decides `Unres` -/
theorem unresAll_decides {g : Graph} (wf : WF g) (P : List Nat) (i : Nat) :
    (unresAll g P).getD i false = true ↔ Unres g P i := by
  have sp := unresList_spec wf P g.nodes [] 0 [] (by simp) rfl rfl (fun j hj => by omega)
  by_cases h : i < g.nodes.length
  · exact sp.2 i h
  · constructor
    · intro hb
      have hlen : (unresAll g P).length ≤ i := by unfold unresAll; rw [sp.1]; omega
      rw [List.getD_eq_getElem?_getD, List.getElem?_eq_none hlen] at hb
      cases hb
    · intro u; exact absurd (unres_lt u) h

/-- (a) a node whose translation reads replicated shares never gets a 3-out-of-3, un-reshared
    operand — including the interleavings that `ensure_dependencies_are_reshared` leaves to be
    "fixed later in sanity_check" -/
theorem planner_replicated_operands {g : Graph} {P : List Nat} (wf : WF g) (ps : PosSizes g)
    (h : plan g = some P) :
    ∀ (i : Nat) (n : Node), g.nodes[i]? = some n → NeedsReplicated g n →
      ∀ d ∈ n.deps, ¬ Unres g P d := by
  unfold plan at h
  cases hc : compute g with
  | none => rw [hc] at h; cases h
  | some s =>
    rw [hc] at h; simp only [Option.some.injEq] at h; subst h
    obtain ⟨s1, m1, back, hsub, _⟩ := compute_spec wf ps hc
    intro i n hn hnr d hd u
    exact m1.safe i n (List.getElem?_eq_some_iff.1 hn).1 hn hnr d hd (unres_mono hsub (back d u))

/-- (b) the output node is never left 3-out-of-3 -/
theorem planner_output_reshared {g : Graph} {P : List Nat} (wf : WF g) (ps : PosSizes g)
    (h : plan g = some P) : ¬ Unres g P g.out := by
  unfold plan at h
  cases hc : compute g with
  | none => rw [hc] at h; cases h
  | some s =>
    rw [hc] at h; simp only [Option.some.injEq] at h; subst h
    obtain ⟨s1, m1, back, hsub, hout⟩ := compute_spec wf ps hc
    intro u
    have u2 := back _ u
    have : g.out ∈ s1.unreshared := m1.recd _ (unres_lt u2) (unres_mono hsub u2)
    exact unres_not_mem u2 (hout this)

/-- (c) only private nodes of the graph are reshared -/
theorem planner_plan_private {g : Graph} {P : List Nat} (h : plan g = some P) :
    ∀ i ∈ P, privAt g i = true ∧ i < g.nodes.length := by
  unfold plan at h
  cases hc : compute g with
  | none => rw [hc] at h; cases h
  | some s =>
    rw [hc] at h; simp only [Option.some.injEq] at h; subst h
    intro i hi
    have hp := (compute_priv hc).1 i hi
    refine ⟨hp, ?_⟩
    unfold privAt at hp
    cases hn : g.nodes[i]? with
    | none => rw [hn] at hp; cases hp
    | some n => exact (List.getElem?_eq_some_iff.1 hn).1

/-- (d) minimality as `sanity_pass` intends it — full statement: every reshared node would be
    3-out-of-3 without its resharing (it is a product of private operands or has an unreshared operand) -/
def PlanMinimalStatement (g : Graph) : Prop :=
  ∀ P, plan g = some P → ∀ i ∈ P, Needed g P i

/-- (d) proved when no node uses the output node as an operand (e.g. the output is the last node).
    Missing for the full statement: `compute_graph_resharing` inserts the output node into
    `nodes_to_reshare` WITHOUT removing it from `unreshared_nodes`, so `sanity_pass` keeps the
    resharing of a node BEHIND the output whose only 3-out-of-3 operand was the output itself
    (`planMinimal_fails_behind_output` below).  Such nodes are dead code; the extra resharing costs
    PRF calls and a round but cannot change a result. -/
theorem planner_minimal_partial {g : Graph} (wf : WF g) (hu : OutputUnused g) : PlanMinimalStatement g := by
  intro P h i hi
  unfold plan at h
  cases hc : compute g with
  | none => rw [hc] at h; cases h
  | some s =>
    rw [hc] at h; simp only [Option.some.injEq] at h; subst h
    exact compute_needed wf hu hc i hi

/-! ### non-vacuity: concrete graphs (all inputs private, 64-bit scalars) -/

private def inp : Node := ⟨.input, false, true, 64, []⟩

/-- `(a*b + a) * b` : nodes 0 a, 1 b, 2 a*b, 3 (a*b)+a, 4 (…)*b = output -/
def exArith : Graph :=
  ⟨[inp, inp, ⟨.product, true, true, 64, [0, 1]⟩, ⟨.loc, true, true, 64, [2, 0]⟩,
    ⟨.product, true, true, 64, [3, 1]⟩], 4⟩

/-- `create_tuple(a*b, a)` revealed : nodes 0 a, 1 b, 2 a*b, 3 tuple = output -/
def exTuple : Graph :=
  ⟨[inp, inp, ⟨.product, true, true, 64, [0, 1]⟩, ⟨.loc, false, true, 128, [2, 0]⟩], 3⟩

/-- a product feeding MixedMultiply with private bits : 0 a, 1 b, 2 bits, 3 a*b, 4 mixed_multiply(a*b, bits) -/
def exMixed : Graph :=
  ⟨[inp, inp, ⟨.input, false, true, 1, []⟩, ⟨.product, true, true, 64, [0, 1]⟩,
    ⟨.cond1, true, true, 64, [3, 2]⟩], 4⟩

/-- the same with PUBLIC bits: MixedMultiply is local, the product stays 3-out-of-3 and the output is reshared -/
def exMixedPub : Graph :=
  ⟨[inp, inp, ⟨.input, false, false, 1, []⟩, ⟨.product, true, true, 64, [0, 1]⟩,
    ⟨.cond1, true, true, 64, [3, 2]⟩], 4⟩

example : plan exArith = some [4, 3] := by decide
example : plan exTuple = some [3] := by decide
example : plan exMixed = some [3] := by decide
example : plan exMixedPub = some [4] := by decide

/-- in `(a*b + a) * b` the first product is NOT reshared: it is really left 3-out-of-3 … -/
example : Unres exArith [4, 3] 2 :=
  .prod (n := ⟨.product, true, true, 64, [0, 1]⟩) rfl rfl (by decide) ⟨rfl, by decide⟩

/-- … and without resharing the sum, the second product would read a 3-out-of-3 operand
    (so statement (a) is not vacuous: a wrong plan violates it) -/
example : Unres exArith [4] 3 :=
  .prop (n := ⟨.loc, true, true, 64, [2, 0]⟩) (d := 2) rfl rfl (by decide) (by decide)
    (.prod (n := ⟨.product, true, true, 64, [0, 1]⟩) rfl rfl (by decide) ⟨rfl, by decide⟩)

theorem wf_of_check (g : Graph)
    (h : ∀ i, i < g.nodes.length → ∀ n, g.nodes[i]? = some n →
      (∀ d ∈ n.deps, d < i) ∧ (n.cls = .input → n.deps = [])) : WF g :=
  ⟨fun i n hn => (h i (List.getElem?_eq_some_iff.1 hn).1 n hn).1,
   fun i n hn => (h i (List.getElem?_eq_some_iff.1 hn).1 n hn).2⟩

theorem wf_exArith : WF exArith := by
  apply wf_of_check
  intro i hi n hn
  have : i < 5 := hi
  rcases i with _ | _ | _ | _ | _ | i <;> first | omega | (cases hn; decide)

theorem ps_exArith : PosSizes exArith := by
  intro i n hn hb d hd
  have : i < 5 := (List.getElem?_eq_some_iff.1 hn).1
  rcases i with _ | _ | _ | _ | _ | i <;> first | omega | (cases hn; revert d; decide)

/-- (a) instantiated: the second product of `(a*b + a) * b` needs replicated operands, and gets them -/
example : ¬ Unres exArith [4, 3] 3 :=
  planner_replicated_operands wf_exArith ps_exArith (by decide) 4 ⟨.product, true, true, 64, [3, 1]⟩ rfl
    ⟨rfl, Or.inr (Or.inl ⟨rfl, by decide⟩)⟩ 3 (by decide)

/-- (b) instantiated -/
example : ¬ Unres exArith [4, 3] 4 := planner_output_reshared wf_exArith ps_exArith (by decide)

/-- the revealed tuple `create_tuple(a*b, a)` would be 3-out-of-3 without the plan -/
example : Unres exTuple [] 3 :=
  .prop (n := ⟨.loc, false, true, 128, [2, 0]⟩) (d := 2) rfl rfl (by decide) (by decide)
    (.prod (n := ⟨.product, true, true, 64, [0, 1]⟩) rfl rfl (by decide) ⟨rfl, by decide⟩)

/-- MixedMultiply with private bits needs replicated operands (hypothesis of (a) is met) -/
example : NeedsReplicated exMixed ⟨.cond1, true, true, 64, [3, 2]⟩ :=
  ⟨rfl, Or.inr (Or.inr ⟨rfl, 3, 2, [], rfl, by decide⟩)⟩

/-- with public bits the product feeding MixedMultiply stays 3-out-of-3 -/
example : Unres exMixedPub [4] 3 :=
  .prod (n := ⟨.product, true, true, 64, [0, 1]⟩) rfl rfl (by decide) ⟨rfl, by decide⟩

/-- (d) instantiated on `(a*b + a) * b`: both reshared nodes are needed -/
example : Needed exArith [4, 3] 3 ∧ Needed exArith [4, 3] 4 :=
  have h := planner_minimal_partial wf_exArith
    (by
      intro i n hn
      have : i < 5 := (List.getElem?_eq_some_iff.1 hn).1
      rcases i with _ | _ | _ | _ | _ | i <;> first | omega | (cases hn; decide))
    [4, 3] (by decide)
  ⟨h 3 (by decide), h 4 (by decide)⟩

/-- output in the middle: 0 a, 1 b, 2 a*b = OUTPUT, 3 (a*b)+a, 4 truncate(3) (dead code behind the output) -/
def exDead : Graph :=
  ⟨[inp, inp, ⟨.product, true, true, 64, [0, 1]⟩, ⟨.loc, true, true, 64, [2, 0]⟩,
    ⟨.need2, false, true, 64, [3]⟩], 2⟩

example : plan exDead = some [2, 3] := by decide

/-- the full minimality statement fails behind the output node: node 3 is reshared although its
    operands (the reshared output 2 and the input 0) are both replicated -/
theorem planMinimal_fails_behind_output : ¬ PlanMinimalStatement exDead := by
  intro h
  obtain ⟨n, hn, hx⟩ := h [2, 3] (by decide) 3 (by decide)
  cases hn
  rcases hx with ⟨hc, _⟩ | ⟨d, hd, hu⟩
  · cases hc
  · have hd' : d = 2 ∨ d = 0 := by simpa using hd
    rcases hd' with rfl | rfl
    · exact unres_not_mem hu (by decide)
    · obtain ⟨_, _, hy⟩ := unres_inv (n := inp) rfl hu
      rcases hy with ⟨hc, _⟩ | ⟨e, he, _⟩
      · cases hc
      · cases he

end CCV.C01
