import CCV.Lemmas.Bytes
/-
  C13 — values encode integers faithfully, in bytes and in JSON.
  Property theorems only; helper lemmas live in CCV/Lemmas/Bytes.lean.
-/
namespace CCV.C13
open CCV CCV.Bytes

private theorem max0 (x : Int) (m : Int) (hm : 0 < m) : max (x % m) 0 = x % m :=
  Int.max_eq_left (Int.emod_nonneg _ (by omega))

/-- **Element round trip (all ten integer scalar types, every integer `x`).**
    Writing any native integer `x` with `vec_to_bytes` for scalar type `st` and reading the
    `byteLen` bytes back with `vec_u128_from_bytes` returns the two's-complement `u128` image of
    the integer that `x mod 2^w` denotes in `st` — i.e. the same integer modulo the type's width,
    sign-extended for signed types. -/
theorem elem_roundtrip128 (st : ST) (h : st ≠ .bit) (x : Int) :
    signPad 128 st (fromLE ((leBytes (asU128 x) st.byteLen).take (128 / 8)))
      = asU128 (st.toInt (st.ofInt x)) := by
  cases st <;> first | exact absurd rfl h | skip
  all_goals
    simp only [ST.byteLen, ST.bits, ST.signed, ST.toInt, ST.ofInt, signPad, asU128]
    simp [take_leBytes, fromLE_leBytes, max0]
    try omega
  · have := or_mask ((x % 340282366920938463463374607431768211456).toNat % 256) 8 128 (by omega) (by decide)
    simp at this; rw [this]; split <;> split <;> omega
  · have := or_mask ((x % 340282366920938463463374607431768211456).toNat % 65536) 16 128 (by omega) (by decide)
    simp at this; rw [this]; split <;> split <;> omega
  · have := or_mask ((x % 340282366920938463463374607431768211456).toNat % 4294967296) 32 128 (by omega) (by decide)
    simp at this; rw [this]; split <;> split <;> omega
  · have := or_mask ((x % 340282366920938463463374607431768211456).toNat % 18446744073709551616) 64 128 (by omega) (by decide)
    simp at this; rw [this]; split <;> split <;> omega

/-- non-vacuity: i16, x = -300 ↦ bytes [212, 254] ↦ 2^128 - 300 -/
example : signPad 128 .i16 (fromLE ((leBytes (asU128 (-300)) ST.i16.byteLen).take 16)) = 2 ^ 128 - 300 := by
  decide

end CCV.C13
