import CCV.Lemmas.Bytes
import CCV.Lemmas.TVJson
/-
  C13 — values encode integers faithfully, in bytes and in JSON.
  Property theorems only; helper lemmas live in CCV/Lemmas/{Bytes,TypedValue,TVArray,TVShape,TVJson}.lean.
-/
namespace CCV.C13
open CCV CCV.Bytes

private theorem max0 (x : Int) (m : Int) (hm : 0 < m) : max (x % m) 0 = x % m :=
  Int.max_eq_left (Int.emod_nonneg _ (by omega))

/-- **Element round trip (all ten integer scalar types, every integer `x`).**
    Writing any native integer `x` with `vec_to_bytes` for scalar type `st` and reading the
    `byteLen` bytes back with `vec_u128_from_bytes` returns the two's-complement `u128` image of
    the integer that `x mod 2^w` denotes in `st` — i.e. the same integer modulo the type's width,
    sign-extended for signed types. -/
theorem elem_roundtrip128 (st : ST) (h : st ≠ .bit) (x : Int) :
    signPad 128 st (fromLE ((leBytes (asU128 x) st.byteLen).take (128 / 8)))
      = asU128 (st.toInt (st.ofInt x)) := by
  cases st <;> first | exact absurd rfl h | skip
  all_goals
    simp only [ST.byteLen, ST.bits, ST.signed, ST.toInt, ST.ofInt, signPad, asU128]
    simp [take_leBytes, fromLE_leBytes, max0]
    try omega
  · have := or_mask ((x % 340282366920938463463374607431768211456).toNat % 256) 8 128 (by omega) (by decide)
    simp at this; rw [this]; split <;> split <;> omega
  · have := or_mask ((x % 340282366920938463463374607431768211456).toNat % 65536) 16 128 (by omega) (by decide)
    simp at this; rw [this]; split <;> split <;> omega
  · have := or_mask ((x % 340282366920938463463374607431768211456).toNat % 4294967296) 32 128 (by omega) (by decide)
    simp at this; rw [this]; split <;> split <;> omega
  · have := or_mask ((x % 340282366920938463463374607431768211456).toNat % 18446744073709551616) 64 128 (by omega) (by decide)
    simp at this; rw [this]; split <;> split <;> omega

/-- non-vacuity: i16, x = -300 ↦ bytes [212, 254] ↦ 2^128 - 300 -/
example : signPad 128 .i16 (fromLE ((leBytes (asU128 (-300)) ST.i16.byteLen).take 16)) = 2 ^ 128 - 300 := by
  decide

/-- **Element round trip through the 64-bit reader.**  `vec_u64_from_bytes` only accumulates the
    first 8 bytes of a chunk and sign-pads to 64 bits: the result is the `u128` image of the
    denoted integer, truncated to 64 bits (`as u64`). -/
theorem elem_roundtrip64 (st : ST) (h : st ≠ .bit) (x : Int) :
    signPad 64 st (fromLE ((leBytes (asU128 x) st.byteLen).take (64 / 8)))
      = asU128 (st.toInt (st.ofInt x)) % 2 ^ 64 := by
  cases st <;> first | exact absurd rfl h | skip
  all_goals
    simp only [ST.byteLen, ST.bits, ST.signed, ST.toInt, ST.ofInt, signPad, asU128]
    simp [take_leBytes', fromLE_leBytes, max0]
    try omega
  · have := or_mask ((x % 340282366920938463463374607431768211456).toNat % 256) 8 64 (by omega) (by decide)
    simp at this; rw [this]; split <;> split <;> omega
  · have := or_mask ((x % 340282366920938463463374607431768211456).toNat % 65536) 16 64 (by omega) (by decide)
    simp at this; rw [this]; split <;> split <;> omega
  · have := or_mask ((x % 340282366920938463463374607431768211456).toNat % 4294967296) 32 64 (by omega) (by decide)
    simp at this; rw [this]; split <;> split <;> omega

/-- non-vacuity: i128, x = -2^64 - 5 ↦ 16 bytes, low 8 bytes read back as 2^64 - 5 -/
example : signPad 64 .i128 (fromLE ((leBytes (asU128 (-(2 ^ 64) - 5)) ST.i128.byteLen).take 8))
    = 2 ^ 64 - 5 := by
  decide

/-- **Vector round trip, 128-bit reader (all ten integer scalar types, every list of integers).**
    `vec_to_bytes` succeeds, yields exactly `len · byteLen` bytes, each `< 256`, and
    `vec_u128_from_bytes` returns, elementwise, the `u128` image of the integer denoted by
    `x mod 2^w` in `st`. -/
theorem vec_roundtrip128 (st : ST) (h : st ≠ .bit) (xs : List Int) :
    ∃ bs, vecToBytes st xs = .ok bs ∧ bs.length = xs.length * st.byteLen ∧ (∀ b ∈ bs, b < 256) ∧
      vecU128FromBytes st bs = .ok (xs.map fun x => asU128 (st.toInt (st.ofInt x))) := by
  refine ⟨_, vecToBytes_ne_bit st h xs, ?_, ?_, ?_⟩
  · exact length_flatMap_const _ _ _ (fun x _ => length_leBytes _ _)
  · exact mem_flatMap_lt _ _ (fun x _ => leBytes_lt _ _)
  · rw [vecU128FromBytes, vecFromBytesW_flatMap 128 st h _ xs (fun x _ => length_leBytes _ _)]
    simp only [elem_roundtrip128 st h]

/-- non-vacuity: the witness bytes and the read-back for a 3-element i16 vector -/
example : vecToBytes .i16 [-300, 7, 40000] = .ok [212, 254, 7, 0, 64, 156] ∧
    vecU128FromBytes .i16 [212, 254, 7, 0, 64, 156] = .ok [2 ^ 128 - 300, 7, 2 ^ 128 - 25536] :=
  ⟨rfl, rfl⟩

/-- **Vector round trip, 64-bit reader.** Same as `vec_roundtrip128`, the values being truncated
    to 64 bits. -/
theorem vec_roundtrip64 (st : ST) (h : st ≠ .bit) (xs : List Int) :
    ∃ bs, vecToBytes st xs = .ok bs ∧ bs.length = xs.length * st.byteLen ∧ (∀ b ∈ bs, b < 256) ∧
      vecU64FromBytes st bs = .ok (xs.map fun x => asU128 (st.toInt (st.ofInt x)) % 2 ^ 64) := by
  refine ⟨_, vecToBytes_ne_bit st h xs, ?_, ?_, ?_⟩
  · exact length_flatMap_const _ _ _ (fun x _ => length_leBytes _ _)
  · exact mem_flatMap_lt _ _ (fun x _ => leBytes_lt _ _)
  · rw [vecU64FromBytes, vecFromBytesW_flatMap 64 st h _ xs (fun x _ => length_leBytes _ _)]
    simp only [elem_roundtrip64 st h]

/-- non-vacuity -/
example : vecToBytes .i16 [-300, 7, 40000] = .ok [212, 254, 7, 0, 64, 156] ∧
    vecU64FromBytes .i16 [212, 254, 7, 0, 64, 156] = .ok [2 ^ 64 - 300, 7, 2 ^ 64 - 25536] :=
  ⟨rfl, rfl⟩

/-- **Bit vectors round trip.**  A list of 0/1 integers is packed by `vec_to_bytes` into
    `⌈n/8⌉` bytes (each `< 256`); `to_flattened_array_u128` on an array of shape `[n]` returns
    exactly the input bits, and the stray bits of the last byte (positions `n ..`) are all zero. -/
theorem bits_roundtrip (xs : List Int) (h : ∀ x ∈ xs, x = 0 ∨ x = 1) :
    ∃ bs, vecToBytes .bit xs = .ok bs ∧ bs.length = (xs.length + 7) / 8 ∧ (∀ b ∈ bs, b < 256) ∧
      toFlatU128 bs [xs.length] .bit = .ok (xs.map Int.toNat) ∧
      (bs.flatMap unpackByte).drop xs.length = List.replicate (8 * bs.length - xs.length) 0 := by
  have hy := toNat_bit_le xs h
  have hlen : ((chunks8 (xs.map Int.toNat)).map packBits).length = (xs.length + 7) / 8 := by
    simp [length_chunks8]
  have hup := unpack_pack_chunks8 _ hy
  refine ⟨_, bitsToBytes_ok xs h, hlen, ?_, ?_, ?_⟩
  · intro b hb
    rcases List.mem_map.1 hb with ⟨c, hc, rfl⟩
    have hc' := mem_chunks8 _ c hc
    have h1 := packBits_lt c (fun y hy' => hy y (hc'.2 y hy'))
    have h2 : 2 ^ c.length ≤ 2 ^ 8 := Nat.pow_le_pow_right (by decide) hc'.1
    omega
  · have hck : checkArrayType ((chunks8 (xs.map Int.toNat)).map packBits).length [xs.length] .bit = true := by
      rw [hlen]; simp [checkArrayType, numel, ST.bits]
    simp only [toFlatU128, hck, vecU128FromBytes, vecFromBytesW, hup]
    simp [numel, List.take_left']
  · rw [hup, List.length_map]
    simp [List.drop_left']

/-- non-vacuity: 10 bits ↦ 2 bytes, 6 stray zero bits -/
example : vecToBytes .bit [1, 0, 1, 1, 0, 0, 0, 1, 1, 1] = .ok [141, 3] ∧
    toFlatU128 [141, 3] [10] .bit = .ok [1, 0, 1, 1, 0, 0, 0, 1, 1, 1] ∧
    ([141, 3].flatMap unpackByte).drop 10 = List.replicate 6 0 := by
  refine ⟨?_, ?_, by decide⟩
  · rw [vecToBytes, bitsToBytes]; simp [isBit, chunks8_ne_nil, chunks8_nil, packBits]
  · rfl

/-- **Non-bits are rejected.**  If some element is neither 0 nor 1, `vec_to_bytes` for `BIT`
    fails with "Input is not a bit". -/
theorem bits_reject (xs : List Int) (h : ∃ x ∈ xs, x ≠ 0 ∧ x ≠ 1) :
    vecToBytes .bit xs = .error "Input is not a bit" := by
  have : ¬ (xs.all isBit = true) := by
    rw [all_isBit_iff]
    rcases h with ⟨x, hx, h0, h1⟩
    intro hall
    rcases hall x hx with e | e
    · exact h0 e
    · exact h1 e
  simp only [vecToBytes, bitsToBytes, if_neg this]

/-- non-vacuity -/
example : vecToBytes .bit [0, 1, 2, 1] = .error "Input is not a bit" :=
  bits_reject _ ⟨2, by decide, by decide, by decide⟩

/-- **Layout check.** `check_type` accepts a byte value for array type `(shape, st)` iff its length
    is exactly `⌈numel · bits / 8⌉`. -/
theorem checkArrayType_iff (len : Nat) (shape : List Nat) (st : ST) :
    checkArrayType len shape st = true ↔ len = (numel shape * st.bits + 7) / 8 := by
  simp [checkArrayType]

/-- non-vacuity -/
example : checkArrayType 6 [3] .i16 = true ∧ checkArrayType 5 [3] .i16 = false ∧
    checkArrayType 2 [2, 5] .bit = true := by decide

/-- **`to_flattened_array_u128` succeeds exactly on correctly laid-out values** (every scalar type,
    `BIT` included): the only failure is the length check; the `len % byteLen` test of
    `vec_u128_from_bytes` can never fail once the length check has passed. -/
theorem toFlatU128_ok_iff_layout (bs : List Nat) (shape : List Nat) (st : ST) :
    (∃ r, toFlatU128 bs shape st = .ok r) ↔ bs.length = (numel shape * st.bits + 7) / 8 := by
  rw [← checkArrayType_iff]
  by_cases hc : checkArrayType bs.length shape st = true
  · have hl := (checkArrayType_iff _ _ _).1 hc
    have hm : bs.length % st.byteLen = 0 := by
      by_cases h : st = .bit
      · subst h; simp [ST.byteLen, ST.bits]; omega
      · rw [hl, bits_eq_byteLen st h]
        have : (numel shape * (8 * st.byteLen) + 7) / 8 = numel shape * st.byteLen := by
          rw [← Nat.mul_assoc, Nat.mul_comm (numel shape) 8, Nat.mul_assoc]; omega
        rw [this]; exact Nat.mul_mod_left _ _
    rcases (vecFromBytesW_ok_iff 128 st bs).2 hm with ⟨r, hr⟩
    simp [toFlatU128, hc, vecU128FromBytes, hr]
  · simp [toFlatU128, hc]

/-- non-vacuity: a 6-byte value of type i16[3] decodes, a 5-byte one is rejected -/
example : (∃ r, toFlatU128 [1, 2, 3, 4, 5, 255] [3] .i16 = .ok r) ∧
    toFlatU128 [1, 2, 3, 4, 5] [3] .i16 = .error "Type and value mismatch" :=
  ⟨⟨[513, 1027, 2 ^ 128 - 251], rfl⟩, rfl⟩

/-- **`to_flattened_array_u64` is `to_flattened_array_u128` truncated to 64 bits**, errors included. -/
theorem toFlatU64_eq (bs : List Nat) (shape : List Nat) (st : ST) :
    toFlatU64 bs shape st = (toFlatU128 bs shape st).map (fun r => r.map (· % 2 ^ 64)) := by
  rw [toFlatU64]
  cases toFlatU128 bs shape st <;> rfl

/-- non-vacuity -/
example : toFlatU64 [1, 2, 3, 4, 5, 255] [3] .i16 = .ok [513, 1027, 2 ^ 64 - 251] := rfl

/-- **The `u64` writer agrees with the `u128` writer, per element.**  For every integer scalar type
    and every value `x` of a native Rust integer type (`nb` bits, signed iff `ns`) that `as_u64`
    accepts, the bytes produced by `vec_u64_to_bytes` (low bytes of `x as u64`, then 0x00 / 0xff
    padding for the 128-bit scalar types) are the first `byteLen` little-endian bytes of
    `x as u128`, i.e. exactly what `vec_to_bytes` writes. -/
theorem u64_writer_agrees (st : ST) (h : st ≠ .bit) (nb : Nat) (hnb : nb ∈ [8, 16, 32, 64, 128])
    (ns : Bool) (x : Int)
    (hr : if ns = true then -(2 ^ (nb - 1)) ≤ x ∧ x < 2 ^ (nb - 1) else 0 ≤ x ∧ x < 2 ^ nb)
    (hf : fitsU64 nb ns x = true) :
    elemU64ToBytes st.byteLen x = leBytes (asU128 x) st.byteLen := by
  have h16 : elemU64ToBytes 16 x = leBytes (asU128 x) 16 := by
    apply elemU64_16
    simp only [List.mem_cons, List.not_mem_nil, or_false] at hnb
    rcases hnb with rfl | rfl | rfl | rfl | rfl <;> cases ns <;>
      simp [fitsU64] at hf hr <;> omega
  cases st <;> first | exact absurd rfl h | exact h16 | exact elemU64_le8 _ (by decide) x

/-- non-vacuity: a negative i128 written as I128 (0xff padding branch) -/
example : fitsU64 128 true (-5) = true ∧
    elemU64ToBytes ST.i128.byteLen (-5) = leBytes (asU128 (-5)) ST.i128.byteLen := by decide

/-- **Vector form (every scalar type, `BIT` included).** -/
theorem vec_u64_writer_agrees (st : ST) (nb : Nat) (hnb : nb ∈ [8, 16, 32, 64, 128])
    (ns : Bool) (xs : List Int)
    (hr : ∀ x ∈ xs, if ns = true then -(2 ^ (nb - 1)) ≤ x ∧ x < 2 ^ (nb - 1) else 0 ≤ x ∧ x < 2 ^ nb)
    (hf : xs.all (fitsU64 nb ns) = true) :
    vecU64ToBytes nb ns st xs = vecToBytes st xs := by
  by_cases h : st = .bit
  · subst h; rfl
  · rw [vecToBytes_ne_bit st h]
    have : vecU64ToBytes nb ns st xs = .ok (xs.flatMap (elemU64ToBytes st.byteLen)) := by
      cases st <;> first | exact absurd rfl h | simp only [vecU64ToBytes, hf, if_true]
    rw [this]
    congr 1
    apply flatMap_congr'
    intro x hx
    exact u64_writer_agrees st h nb hnb ns x (hr x hx) (List.all_eq_true.1 hf x hx)

/-- non-vacuity -/
example : vecU64ToBytes 128 true .i128 [-5, 7] = vecToBytes .i128 [-5, 7] :=
  vec_u64_writer_agrees _ _ (by decide) _ _ (by decide) (by decide)

/-- non-vacuity: unsigned 128-bit value accepted through its complement -/
example : vecU64ToBytes 128 false .u128 [2 ^ 128 - 2] =
    .ok [254, 255, 255, 255, 255, 255, 255, 255, 255, 255, 255, 255, 255, 255, 255, 255] := rfl

/-- **The `u64` writer rejects** a vector as soon as one element is not accepted by `as_u64`. -/
theorem u64_writer_rejects (st : ST) (h : st ≠ .bit) (nb : Nat) (ns : Bool) (xs : List Int)
    (hf : ∃ x ∈ xs, fitsU64 nb ns x = false) :
    vecU64ToBytes nb ns st xs = .error "The integer of this size is not supported" := by
  have : ¬ (xs.all (fitsU64 nb ns) = true) := by
    rcases hf with ⟨x, hx, hfx⟩
    intro hall
    rw [List.all_eq_true.1 hall x hx] at hfx
    exact Bool.noConfusion hfx
  cases st <;> first | exact absurd rfl h | simp only [vecU64ToBytes, if_neg this]

/-- non-vacuity -/
example : vecU64ToBytes 128 true .i128 [3, 2 ^ 64] = .error "The integer of this size is not supported" :=
  u64_writer_rejects _ (by decide) _ _ _ ⟨2 ^ 64, by decide, by decide⟩

/-! ## containers: type-recursive layout, typed accessors, JSON form -/
section Containers
open CCV.TV

/-- **Layout (type-recursive).** `check_type` answers `Ok(true)` exactly when the type is valid and the
    value has the layout of the type: `⌈bits/8⌉` bytes for scalars and arrays, the same nesting
    structure (number of children, each child laid out as its component type) for vectors, tuples and
    named tuples. -/
theorem checkType_iff_layout (v : Val) (t : Ty) :
    checkType v t = .ok true ↔ t.isValid = true ∧ Layout t v := by
  unfold checkType
  constructor
  · intro h
    by_cases hv : t.isValid = true
    · rw [if_pos hv] at h
      exact ⟨hv, layout_of_checkB t v (by simpa using h)⟩
    · rw [if_neg hv] at h; cases h
  · rintro ⟨hv, hl⟩
    rw [if_pos hv, checkB_of_layout t v hl]

example : checkType (.vec [.bytes [1, 2], .vec [.bytes [7], .bytes [255]]])
    (.tuple [.scalar .i16, .vector 2 (.array [3] .bit)]) = .ok true := by rfl

/-- a layout mismatch (one byte too many in a nested bit array) is rejected; an invalid type is an error -/
example : checkType (.vec [.bytes [1, 2], .vec [.bytes [7], .bytes [255, 0]]])
    (.tuple [.scalar .i16, .vector 2 (.array [3] .bit)]) = .ok false ∧
    checkType (.bytes [0]) (.array [] .u8) = .error "Invalid type!" := ⟨by rfl, by rfl⟩

/-- **`zero_of_type` has the layout of its type**, for every valid type. -/
theorem zeroOf_checks (t : Ty) (h : t.isValid = true) : checkType (zeroOf t) t = .ok true := by
  unfold checkType; rw [if_pos h, checkB_zeroOf]

example : zeroOf (.named [("a", .array [3, 3] .bit), ("b", .vector 2 (.scalar .i32))])
    = .vec [.bytes [0, 0], .vec [.bytes [0, 0, 0, 0], .bytes [0, 0, 0, 0]]] := by rfl

/-- **JSON round trip.** For every type the JSON form can express (valid; no vector of length 0 and no
    empty named tuple — the two blind spots recorded as findings) and every value that passes
    `check_type` and consists of bytes: serialization succeeds, the text parses back
    (`deserialize_human_readable`) to a typed value of *the same type* that passes `check_type`
    and `is_equal`s the original.  Covers scalars and arrays of all 11 scalar types (negative and
    128-bit numbers, ragged bit arrays), nested tuples, named tuples and vectors, to any depth. -/
theorem json_roundtrip (t : Ty) (v : Val) (he : expressible t = true)
    (hc : checkType v t = .ok true) (hb : bytesOk v = true) :
    ∃ j v', toJ t v = some j ∧ ofJTop j = some (t, v') ∧ checkType v' t = .ok true ∧
      isEqual t v v' = true := by
  have hl := (checkType_iff_layout v t).1 hc
  obtain ⟨j, v', h1, h2, h3, h4⟩ := rt_all t v he (checkB_of_layout t v hl.2) hb
  refine ⟨j, v', h1, by simp [ofJTop, h2], ?_, h4⟩
  unfold checkType; rw [if_pos hl.1, h3]

example : toJ (.named [("k", .scalar .i128), ("bits", .array [2, 2] .bit)])
      (.vec [.bytes (List.replicate 15 0 ++ [128]), .bytes [0xf6]])
    = some (tvObj "named tuple" none (.arr [
        .obj [("name", .str "k"), ("value", tvObj "scalar" (some "i128") (.num (-(2 ^ 127))))],
        .obj [("name", .str "bits"), ("value", tvObj "array" (some "bit") (.arr [.arr [.num 0, .num 1], .arr [.num 1, .num 0]]))]])) := by
  rfl


/-- non-vacuity of the hypotheses of `json_roundtrip`: a named tuple holding the most negative `i128`,
    a ragged bit array with stray bits set, and a vector of tuples -/
example :
    let t : Ty := .named [("k", .scalar .i128), ("bits", .array [2, 2] .bit),
      ("v", .vector 2 (.tuple [.scalar .u8, .array [1] .i16]))]
    let v : Val := .vec [.bytes (List.replicate 15 0 ++ [128]), .bytes [0xf6],
      .vec [.vec [.bytes [1], .bytes [255, 255]], .vec [.bytes [2], .bytes [0, 128]]]]
    expressible t = true ∧ checkType v t = .ok true ∧ bytesOk v = true :=
  ⟨by rfl, by rfl, by rfl⟩

/-- a concrete round trip computed by the model: most negative `i128`, largest `u128`, negative `i16`s -/
example :
    let t : Ty := .tuple [.scalar .i128, .vector 1 (.scalar .u128), .array [1, 2] .i16]
    let v : Val := .vec [.bytes (List.replicate 15 0 ++ [128]), .vec [.bytes (List.replicate 16 255)],
      .bytes [255, 255, 0, 128]]
    (toJ t v).bind ofJTop = some (t, v) := by rfl

/-- **Blind spot 1 (finding).** A vector of length 0 of *any* element type serializes to
    `{"kind":"vector","value":[]}` and parses back as `Vector(0, ())`: the element type is lost, so
    `is_equal` fails unless the element type was the empty tuple. -/
theorem json_empty_vector_loses_type (t : Ty) :
    (toJ (.vector 0 t) (.vec [])).bind ofJTop = some (.vector 0 (.tuple []), .vec []) := by
  have : toJ (.vector 0 t) (.vec []) = some (tvObj "vector" none (.arr [])) := by simp [toJ]
  rw [this]; rfl

/-- **Blind spot 2 (finding).** The empty named tuple serializes to `{"kind":"named tuple","value":[]}`
    and the deserializer rejects that text. -/
theorem json_empty_named_tuple_rejected :
    toJ (.named []) (.vec []) = some (tvObj "named tuple" none (.arr [])) ∧
    ofJTop (tvObj "named tuple" none (.arr [])) = none := ⟨by rfl, by rfl⟩

/-- **Typed scalar accessors.** A scalar written from any integer `x` reads back, through the accessor
    of its own native type (`to_i16` for `i16`, …), as the integer `x mod 2^w` denotes in that type. -/
theorem scalar_accessor_roundtrip (st : ST) (h : st ≠ .bit) (x : Int) :
    ∃ bs, vecToBytes st [x] = .ok bs ∧
      toU128 (.bytes bs) st = .ok (asU128 (st.toInt (st.ofInt x))) ∧
      castNative st.bits st.signed (asU128 (st.toInt (st.ofInt x))) = st.toInt (st.ofInt x) := by
  obtain ⟨bs, h1, _, _, h4⟩ := vec_roundtrip128 st h [x]
  refine ⟨bs, h1, by simp [toU128, h4], ?_⟩
  have hm := asU128_toInt_mod st (st.ofInt x)
  cases st <;> first | exact absurd rfl h | skip
  all_goals
    simp only [ST.bits, ST.signed, castNative, ST.toInt, ST.ofInt, asU128, Bool.false_eq_true, false_and, if_false, true_and] at hm ⊢
    try omega
  all_goals (split <;> split <;> omega)

example : vecToBytes .i16 [-300] = .ok [212, 254] ∧ toU128 (.bytes [212, 254]) .i16 = .ok (2 ^ 128 - 300) ∧
    castNative 16 true (2 ^ 128 - 300) = -300 ∧ castNative 8 false (2 ^ 128 - 300) = 212 :=
  ⟨by rfl, by rfl, by decide, by decide⟩

end Containers

end CCV.C13
