import CCV.Lemmas.ContextInv
/-
  C11 — the graph-building API keeps contexts well-formed; failed calls have no effect.

  All theorems are about `CCV.Context.step` / `run`, the functions the model driver executes
  (`CCV.Drv.C11.handle`).  `Inv` (CCV/Lemmas/ContextInv.lean) says: graph and node ids are their
  positions (dense, creation order); every node dependency is an earlier node of the same graph;
  every graph dependency is an older finalized graph of the same context; every stored node passed
  the type verdict; output nodes exist; finalized graphs have an output; the main graph is
  finalized; a finalized context has a main graph and only finalized graphs; both pairs of name
  tables are mutually inverse; table keys refer to existing objects and are duplicate-free; the size
  counter stays within `MAX_TOTAL_SIZE_NODES`.
-/
set_option linter.unusedSimpArgs false
namespace CCV.C11
open CCV.Context

/-- the empty context is well formed -/
theorem inv_init : Inv init := by
  refine ⟨?_, ?_, ?_, ?_, ?_, ?_, ?_, ?_, ?_, ?_, ?_⟩ <;> simp [init, tget, keys, maxTotal]

example : init.graphs = [] ∧ init.finalized = false := by decide

/-- every API call (with any arguments, any type verdict) keeps the context well formed -/
theorem step_inv {s : State} (c : Call) (h : Inv s) : Inv (step s c).1 := by
  cases c <;> simp only [step]
  · exact createGraph_inv h
  · exact addNodeInternal_inv _ _ _ _ _ _ h
  · exact addNodeInternal_inv _ _ _ _ _ _ h
  · exact setGraphName_inv _ _ h
  · exact setNodeName_inv _ _ h
  · exact addNodeAnnotation_inv _ _ h
  · exact addGraphAnnotation_inv _ _ h
  · exact setOutput_inv _ _ h
  · exact finalizeGraph_inv _ h
  · exact setMain_inv _ h
  · exact finalizeContext_inv h
  all_goals exact h

/-- … hence every call history -/
theorem run_inv {s : State} (cs : List Call) (h : Inv s) : Inv (run s cs) := by
  induction cs generalizing s with
  | nil => exact h
  | cons c cs ih => exact ih (step_inv c h)

/-- every reachable context is well formed -/
theorem reachable_inv (cs : List Call) : Inv (run init cs) := run_inv cs inv_init

/-- a two-graph history with a rolled-back node, names, a Call node and both finalizations -/
def demo : List Call :=
  [.createGraph,
   .addNode 0 1 [] [] true (some 33),
   .addNode 0 2 [⟨0, 0, 0⟩, ⟨0, 0, 0⟩] [] false none,          -- ill-typed: rolled back
   .setNodeName ⟨0, 0, 0⟩ 3,
   .addNode 0 5 [⟨0, 0, 0⟩] [] true none,
   .setOutput 0 ⟨0, 0, 1⟩,
   .finalizeGraph 0,
   .createGraph,
   .addNode 1 1 [] [] true (some 33),
   .addNode 1 8 [⟨0, 1, 0⟩] [⟨0, 0⟩] true none,                -- Call of graph 0
   .addNodeAnnotation ⟨0, 1, 1⟩ 1,
   .setGraphName ⟨0, 1⟩ 0,
   .setOutput 1 ⟨0, 1, 1⟩,
   .finalizeGraph 1,
   .setMain ⟨0, 1⟩]

example : (run init demo).graphs.length = 2 ∧ ((run init demo).graphs.map (·.nodes.length)) = [2, 2] ∧
    (run init demo).main = some 1 ∧ (run init demo).total = 66 := by decide

/-- **failure atomicity**: a call that returns an error leaves the whole state — a fortiori
    everything observable — unchanged -/
theorem failed_call_state {s : State} (c : Call) (h : Inv s) (he : (step s c).2 = .err) :
    (step s c).1 = s := by
  cases c <;> simp only [step] at he ⊢
  · exact createGraph_err he
  · exact addNodeInternal_err _ _ _ _ _ _ h he
  · exact addNodeInternal_err _ _ _ _ _ _ h he
  · exact setGraphName_err _ _ he
  · exact setNodeName_err _ _ he
  · exact addNodeAnnotation_err _ _ he
  · exact addGraphAnnotation_err _ _ he
  · exact setOutput_err _ _ he
  · exact finalizeGraph_err _ he
  · exact setMain_err _ he
  · exact finalizeContext_err he

theorem failed_call_no_effect {s : State} (c : Call) (h : Inv s) (he : (step s c).2 = .err) :
    observe (step s c).1 = observe s := by
  rw [failed_call_state c h he]

/-- the roll-back really runs: an ill-typed `Add` after a named input, then an oversize input -/
example :
    let s := run init [.createGraph, .addNode 0 1 [] [] true (some 33), .setNodeName ⟨0, 0, 0⟩ 3]
    (step s (.addNode 0 2 [⟨0, 0, 0⟩, ⟨0, 0, 0⟩] [] false none)).2 = .err ∧
    (step s (.addNode 0 1 [] [] true (some (2 ^ 64 - 10)))).2 = .err ∧
    (step s (.addNodeWithType 0 5 [⟨0, 0, 0⟩] [] false none)).2 = .err ∧
    (step s (.addNode 0 2 [⟨0, 0, 0⟩, ⟨0, 0, 0⟩] [] false none)).1 = s := by decide

/-- stored names resolve back, in both directions (graphs) -/
theorem graph_names_inverse (cs : List Call) (id nm : Nat) :
    tget (run init cs).gnames id = some nm ↔ tget (run init cs).gnamesInv nm = some id :=
  (reachable_inv cs).gnames id nm

/-- stored names resolve back, in both directions (nodes, per graph) -/
theorem node_names_inverse (cs : List Call) (g n nm : Nat) :
    tget (run init cs).nnames (g, n) = some nm ↔ tget (run init cs).nnamesInv (g, nm) = some n :=
  (reachable_inv cs).nnames g n nm

/-- names are unique within a graph -/
theorem node_names_unique (cs : List Call) (g n n' nm : Nat)
    (h1 : tget (run init cs).nnames (g, n) = some nm) (h2 : tget (run init cs).nnames (g, n') = some nm) :
    n = n' := by
  have a := (node_names_inverse cs g n nm).1 h1
  have b := (node_names_inverse cs g n' nm).1 h2
  rw [a] at b; exact Option.some.inj b

/-- graph names are unique within a context -/
theorem graph_names_unique (cs : List Call) (g g' nm : Nat)
    (h1 : tget (run init cs).gnames g = some nm) (h2 : tget (run init cs).gnames g' = some nm) :
    g = g' := by
  have a := (graph_names_inverse cs g nm).1 h1
  have b := (graph_names_inverse cs g' nm).1 h2
  rw [a] at b; exact Option.some.inj b

example : tget (run init demo).nnames (0, 0) = some 3 ∧ tget (run init demo).nnamesInv (0, 3) = some 0 ∧
    tget (run init demo).gnames 1 = some 0 ∧ tget (run init demo).gnamesInv 0 = some 1 := by decide

/-! ### finalization -/

/-- a finalized graph rejects `add_node` / `add_node_with_type` -/
theorem finalized_graph_rejects_add_node {s : State} {g : Nat} {gr : Graph}
    (hg : s.graphs[g]? = some gr) (hf : gr.finalized = true)
    (op : Nat) (deps : List NRef) (gdeps : List GRef) (tv : Bool) (sz : Option Nat) :
    step s (.addNode g op deps gdeps tv sz) = (s, .err) ∧
    step s (.addNodeWithType g op deps gdeps tv sz) = (s, .err) := by
  simp [step, addNodeInternal, hg, hf]

/-- a finalized graph rejects `set_output_node` -/
theorem finalized_graph_rejects_set_output {s : State} (h : Inv s) {g : Nat} {gr : Graph}
    (hg : s.graphs[g]? = some gr) (hf : gr.finalized = true) (r : NRef) :
    step s (.setOutput g r) = (s, .err) := by
  have := (h.graphs g gr hg).fin hf
  cases ho : gr.output with
  | none => simp [ho] at this
  | some o => simp [step, setOutput, hg, ho]

/-- no call whatsoever changes a finalized graph (its node list, output, flag);
    `Graph::finalize` on it succeeds without effect -/
theorem finalized_graph_frozen {s : State} (h : Inv s) {g : Nat} {gr : Graph}
    (hg : s.graphs[g]? = some gr) (hf : gr.finalized = true) (c : Call) :
    (step s c).1.graphs[g]? = some gr := by
  have hlt : g < s.graphs.length := (List.getElem?_eq_some_iff.1 hg).1
  have hout := (h.graphs g gr hg).fin hf
  cases c <;> simp only [step]
  case createGraph =>
    unfold createGraph; split
    · exact hg
    · simp [List.getElem?_append_left hlt, hg]
  case addNode g' op deps gdeps tv sz =>
    by_cases e : g' = g
    · subst e; simp [addNodeInternal, hg, hf]
    · rcases addNodeInternal_cases g' op deps gdeps tv sz h with h1 | ⟨s', p, h1⟩
      · rw [h1]; exact hg
      · revert h1
        unfold addNodeInternal
        split; · intro h1; cases h1
        split; · intro h1; cases h1
        dsimp only
        split; · intro h1; cases h1
        split; · intro h1; cases h1
        split; · intro h1; cases h1
        split
        · intro h1; cases h1; simp [setGraph, List.getElem?_set, e, hg]
        · split
          · intro h1; cases h1
          · intro h1; cases h1; simp [setGraph, List.getElem?_set, e, hg]
  case addNodeWithType g' op deps gdeps tv sz =>
    by_cases e : g' = g
    · subst e; simp [addNodeInternal, hg, hf]
    · rcases addNodeInternal_cases g' op deps gdeps tv sz h with h1 | ⟨s', p, h1⟩
      · rw [h1]; exact hg
      · revert h1
        unfold addNodeInternal
        split; · intro h1; cases h1
        split; · intro h1; cases h1
        dsimp only
        split; · intro h1; cases h1
        split; · intro h1; cases h1
        split; · intro h1; cases h1
        split
        · intro h1; cases h1; simp [setGraph, List.getElem?_set, e, hg]
        · split
          · intro h1; cases h1
          · intro h1; cases h1; simp [setGraph, List.getElem?_set, e, hg]
  case setGraphName r nm => unfold setGraphName; (repeat' split) <;> exact hg
  case setNodeName r nm => unfold setNodeName; (repeat' split) <;> exact hg
  case addNodeAnnotation r a => unfold addNodeAnnotation; (repeat' split) <;> exact hg
  case addGraphAnnotation r a => unfold addGraphAnnotation; (repeat' split) <;> exact hg
  case setOutput g' r =>
    by_cases e : g' = g
    · subst e; rw [show setOutput s g' r = (s, .err) from finalized_graph_rejects_set_output h hg hf r]; exact hg
    · unfold setOutput
      repeat' split
      all_goals first | exact hg | simp [setGraph, List.getElem?_set, e, hg]
  case finalizeGraph g' =>
    by_cases e : g' = g
    · subst e
      cases ho : gr.output with
      | none => simp [ho] at hout
      | some o =>
        simp only [finalizeGraph, hg, ho, setGraph, List.getElem?_set, hlt, if_true]
        cases gr; simp_all
    · unfold finalizeGraph
      repeat' split
      all_goals first | exact hg | simp [setGraph, List.getElem?_set, e, hg]
  case setMain r => unfold setMain; (repeat' split) <;> exact hg
  case finalizeContext => unfold finalizeContext; (repeat' split) <;> exact hg
  all_goals exact hg

/-- a finalized context is frozen: no call changes anything -/
theorem finalized_context_frozen {s : State} (h : Inv s) (hf : s.finalized = true) (c : Call) :
    (step s c).1 = s := by
  obtain ⟨hmain, hall⟩ := h.fin hf
  cases c <;> simp only [step]
  case createGraph => simp [createGraph, hf]
  case addNode g op deps gdeps tv sz =>
    cases hg : s.graphs[g]? with
    | none => simp [addNodeInternal, hg]
    | some gr => simp [addNodeInternal, hg, hall g gr hg]
  case addNodeWithType g op deps gdeps tv sz =>
    cases hg : s.graphs[g]? with
    | none => simp [addNodeInternal, hg]
    | some gr => simp [addNodeInternal, hg, hall g gr hg]
  case setGraphName r nm => unfold setGraphName; split <;> simp [hf]
  case setNodeName r nm => unfold setNodeName; split <;> simp [hf]
  case addNodeAnnotation r a => unfold addNodeAnnotation; split <;> simp [hf]
  case addGraphAnnotation r a => unfold addGraphAnnotation; split <;> simp [hf]
  case setOutput g r =>
    cases hg : s.graphs[g]? with
    | none => simp [setOutput, hg]
    | some gr => rw [show setOutput s g r = (s, .err) from finalized_graph_rejects_set_output h hg (hall g gr hg) r]
  case finalizeGraph g =>
    cases hg : s.graphs[g]? with
    | none => simp [finalizeGraph, hg]
    | some gr =>
      have hgf := hall g gr hg
      simp only [finalizeGraph, hg]
      split
      · have : ({ gr with finalized := true } : Graph) = gr := by cases gr; simp_all
        simp only [this, setGraph, set_self _ _ _ hg]
      · rfl
  case setMain r =>
    cases hm : s.main with
    | none => simp [hm] at hmain
    | some m => simp [setMain, hm]
  case finalizeContext =>
    unfold finalizeContext
    repeat' split
    all_goals first | rfl | (cases s; simp_all)

/-- … and every mutator guarded by context finalization answers `Err` -/
theorem finalized_context_rejects {s : State} (h : Inv s) (hf : s.finalized = true) :
    (step s .createGraph).2 = .err ∧
    (∀ g op deps gdeps tv sz, (step s (.addNode g op deps gdeps tv sz)).2 = .err) ∧
    (∀ g op deps gdeps tv sz, (step s (.addNodeWithType g op deps gdeps tv sz)).2 = .err) ∧
    (∀ r nm, (step s (.setGraphName r nm)).2 = .err) ∧
    (∀ r nm, (step s (.setNodeName r nm)).2 = .err) ∧
    (∀ r a, (step s (.addNodeAnnotation r a)).2 = .err) ∧
    (∀ r a, (step s (.addGraphAnnotation r a)).2 = .err) ∧
    (∀ g r, (step s (.setOutput g r)).2 = .err) ∧
    (∀ r, (step s (.setMain r)).2 = .err) := by
  obtain ⟨hmain, hall⟩ := h.fin hf
  refine ⟨by simp [step, createGraph, hf], ?_, ?_, ?_, ?_, ?_, ?_, ?_, ?_⟩
  · intro g op deps gdeps tv sz
    cases hg : s.graphs[g]? with
    | none => simp [step, addNodeInternal, hg]
    | some gr => simp [step, addNodeInternal, hg, hall g gr hg]
  · intro g op deps gdeps tv sz
    cases hg : s.graphs[g]? with
    | none => simp [step, addNodeInternal, hg]
    | some gr => simp [step, addNodeInternal, hg, hall g gr hg]
  · intro r nm; simp only [step]; unfold setGraphName; split <;> simp [hf]
  · intro r nm; simp only [step]; unfold setNodeName; split <;> simp [hf]
  · intro r a; simp only [step]; unfold addNodeAnnotation; split <;> simp [hf]
  · intro r a; simp only [step]; unfold addGraphAnnotation; split <;> simp [hf]
  · intro g r
    cases hg : s.graphs[g]? with
    | none => simp [step, setOutput, hg]
    | some gr => rw [finalized_graph_rejects_set_output h hg (hall g gr hg) r]
  · intro r
    cases hm : s.main with
    | none => simp [hm] at hmain
    | some m => simp [step, setMain, hm]

/-- the demo history, finalized: the context is frozen and graph 0 rejects a new node -/
example :
    let s := run init (demo ++ [.finalizeContext])
    s.finalized = true ∧ (step s .createGraph) = (s, .err) ∧
    (step s (.setNodeName ⟨0, 1, 0⟩ 4)) = (s, .err) ∧
    (step s (.addNode 0 1 [] [] true (some 33))).2 = .err ∧
    (step s (.finalizeGraph 0)) = (s, .ok []) := by decide

/-- names and annotations are guarded by the *context* flag only: a node of a finalized graph
    can still be named while the context is open (DESIGN §7a) -/
example :
    (step (run init demo) (.setNodeName ⟨0, 0, 1⟩ 4)).2 = .ok [] ∧
    (step (run init demo) (.addNode 0 5 [⟨0, 0, 0⟩] [] true none)).2 = .err := by decide

end CCV.C11
