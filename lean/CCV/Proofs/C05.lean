import CCV.Lemmas.Truncate
/-
  C05 — secure truncation stays within its documented error.
  Property theorems only; helper lemmas live in CCV/Lemmas/TruncateArith.lean (core) and
  CCV/Lemmas/Truncate.lean (cancellation of the masks in `ZMod (2^s)`).

  Notation: `s` = bit width of the scalar type, `M = 2^s`; a sharing `(x0, x1, x2)` has the secret
  `reveal s (x0, x1, x2) = (x0 + x1 + x2) mod M`; `sint s v` is the two's complement reading;
  `ofInt s z = z mod M`.  `Int` division `/` by a positive number is the floor quotient.

  Guards.  The code itself only enforces `scale ≠ 0` and, on signed types, `scale ≤ i128::MAX`
  (type_inference.rs:806-818); `TruncateMPC2K` computes `1 << (s-2-k)` (signed) and `1 << (s-1-k)`
  (unsigned), so it is meaningful for `k ≤ s-2` resp. `k ≤ s-1` — the theorems assume exactly that.
  Documented input range (mpc_truncate.rs:137-138): signed `[-M/4, M/4)`, unsigned `[0, M/2)`.
-/
namespace CCV.C05
open CCV.Truncate

/-! ## Division by `2^k` (`TruncateMPC2K`) -/

/-- **Unsigned, all widths, all `1 ≤ k ≤ s-1`, every input below `M/2`, every sharing, every mask
    tape** (only `r < 2^s`, which holds for every PRF output of the type): the revealed output is
    `⌊x/2^k⌋ + w` exactly (no reduction needed), where `w ∈ {0,1}` and `w = 1` iff the low `k` bits
    of `x` and of the mask `r` carry — which happens for `x mod 2^k` of the `2^k` values of
    `r mod 2^k`, the documented probability. -/
theorem trunc2k_unsigned (s k : Nat) (hk1 : 1 ≤ k) (hks : k + 1 ≤ s) (x0 x1 x2 : Nat) (m : Masks2K)
    (hr : m.r < 2 ^ s) (hx : reveal s (x0, x1, x2) < 2 ^ (s - 1)) :
    reveal s (trunc2k s k false x0 x1 x2 m).shares =
      reveal s (x0, x1, x2) / 2 ^ k
        + (if 2 ^ k ≤ reveal s (x0, x1, x2) % 2 ^ k + m.r % 2 ^ k then 1 else 0) := by
  have hsh : shifted s false x0 x1 x2 = reveal s (x0, x1, x2) := by
    simp [shifted, reveal]
  have h := reveal_trunc2k_shifted s k hk1 hks false x0 x1 x2 m hr (by rw [hsh]; exact hx)
  rw [hsh] at h
  generalize reveal s (x0, x1, x2) = x at *
  simp only [Bool.false_eq_true, if_false, sub_zero] at h
  have h2 := (ZMod.natCast_eq_natCast_iff' _ _ _).mp h
  have hlt : reveal s (trunc2k s k false x0 x1 x2 m).shares < 2 ^ s := Nat.mod_lt _ (Nat.two_pow_pos s)
  rw [Nat.mod_eq_of_lt hlt] at h2
  rw [h2]
  apply Nat.mod_eq_of_lt
  have h3 : x / 2 ^ k ≤ x := Nat.div_le_self _ _
  have h4 := two_pow_pred s (by omega)
  split <;> omega

/-- non-vacuity: u8, k = 3, x = 127 (top of the documented range) shared as (200, 100, 83),
    mask r = 0xB5 (low bits 5, carry with 7): result 15 + 1 -/
example : reveal 8 (trunc2k 8 3 false 200 100 83 ⟨0xB5, 17, 250, 3, 99, 201⟩).shares = 16 := by decide
/-- x = 0 and an exact multiple (x = 120 = 15·8) come out exact whatever the mask -/
example : reveal 8 (trunc2k 8 3 false 0 0 0 ⟨0xFF, 1, 2, 3, 4, 5⟩).shares = 0 := by decide
example : reveal 8 (trunc2k 8 3 false 120 0 0 ⟨0xFF, 1, 2, 3, 4, 5⟩).shares = 15 := by decide
/-- largest admissible k = s-1 on u8, x = 127: ⌊127/128⌋ = 0, +1 because 127 + 1 carries -/
example : reveal 8 (trunc2k 8 7 false 127 0 0 ⟨0x81, 1, 2, 3, 4, 5⟩).shares = 1 := by decide

/-- **Signed, all widths, all `1 ≤ k ≤ s-2`, every input in `[-M/4, M/4)`, every sharing, every
    mask tape**: the revealed output is the residue of `⌊x/2^k⌋ + w`, `w ∈ {0,1}`, with the same
    carry condition (`x % 2^k` is the non-negative remainder).  The protocol floors — it does not
    round toward zero like the plaintext operation. -/
theorem trunc2k_signed (s k : Nat) (hk1 : 1 ≤ k) (hks : k + 2 ≤ s) (x0 x1 x2 : Nat) (m : Masks2K)
    (hr : m.r < 2 ^ s)
    (hlo : -((2 ^ (s - 2) : Nat) : Int) ≤ sint s (reveal s (x0, x1, x2)))
    (hhi : sint s (reveal s (x0, x1, x2)) < ((2 ^ (s - 2) : Nat) : Int)) :
    reveal s (trunc2k s k true x0 x1 x2 m).shares =
      ofInt s (sint s (reveal s (x0, x1, x2)) / ((2 ^ k : Nat) : Int)
        + (if ((2 ^ k : Nat) : Int) ≤ sint s (reveal s (x0, x1, x2)) % ((2 ^ k : Nat) : Int) + ((m.r % 2 ^ k : Nat) : Int)
            then 1 else 0)) := by
  -- Q = M/4, H = M/2
  have hQ : 2 ^ (s - 1) = 2 * 2 ^ (s - 2) := by
    have := two_pow_pred (s - 1) (by omega)
    rw [this]; congr 2
  have hM : 2 ^ s = 2 * 2 ^ (s - 1) := two_pow_pred s (by omega)
  have hS : 2 ^ (s - 2) = 2 ^ (s - 2 - k) * 2 ^ k := by rw [← Nat.pow_add]; congr 1; omega
  have hKpos : 0 < 2 ^ k := Nat.two_pow_pos k
  -- the shifted input is x + M/4
  have hsh : shifted s true x0 x1 x2 = (reveal s (x0, x1, x2) + 2 ^ (s - 2)) % 2 ^ s := by
    simp only [shifted, reveal, addm, if_true]
    rw [Nat.add_assoc, Nat.mod_add_mod, Nat.mod_add_mod]
    congr 1; omega
  have hxs : reveal s (x0, x1, x2) < 2 ^ s := Nat.mod_lt _ (Nat.two_pow_pos s)
  generalize hxv : reveal s (x0, x1, x2) = xs at *
  have hX : ((shifted s true x0 x1 x2 : Nat) : Int) = sint s xs + ((2 ^ (s - 2) : Nat) : Int) := by
    rw [hsh]
    by_cases hc : 2 ^ (s - 1) ≤ xs
    · rw [sint_of_ge s xs hc] at hlo hhi ⊢
      have : (xs + 2 ^ (s - 2)) % 2 ^ s = xs + 2 ^ (s - 2) - 2 ^ s := by
        rw [Nat.mod_eq_sub_mod (by omega), Nat.mod_eq_of_lt (by omega)]
      rw [this]; omega
    · rw [sint_of_lt s xs (by omega)] at hlo hhi ⊢
      rw [Nat.mod_eq_of_lt (by omega)]; omega
  have hXlt : shifted s true x0 x1 x2 < 2 ^ (s - 1) := by omega
  have h := reveal_trunc2k_shifted s k hk1 (by omega) true x0 x1 x2 m hr hXlt
  generalize shifted s true x0 x1 x2 = X at *
  generalize sint s xs = x at *
  simp only [if_true] at h
  -- quotient and remainder of X = x + S·2^k
  have hdiv : ((X / 2 ^ k : Nat) : Int) = x / ((2 ^ k : Nat) : Int) + ((2 ^ (s - 2 - k) : Nat) : Int) := by
    rw [Int.natCast_ediv, hX, hS, Nat.cast_mul, Int.add_mul_ediv_right _ _ (by omega)]
  have hmod : ((X % 2 ^ k : Nat) : Int) = x % ((2 ^ k : Nat) : Int) := by
    rw [Int.natCast_mod, hX, hS, Nat.cast_mul, Int.add_mul_emod_self_right]
  have hw : (if ((2 ^ k : Nat) : Int) ≤ x % ((2 ^ k : Nat) : Int) + ((m.r % 2 ^ k : Nat) : Int) then (1 : Int) else 0)
      = (((if 2 ^ k ≤ X % 2 ^ k + m.r % 2 ^ k then 1 else 0 : Nat)) : Int) := by
    rw [← hmod]
    by_cases hc : 2 ^ k ≤ X % 2 ^ k + m.r % 2 ^ k
    · rw [if_pos hc, if_pos (by omega)]; rfl
    · rw [if_neg hc, if_neg (by omega)]; rfl
  rw [hw]
  generalize (if 2 ^ k ≤ X % 2 ^ k + m.r % 2 ^ k then 1 else 0 : Nat) = w at *
  have hz : x / ((2 ^ k : Nat) : Int) + (w : Int)
      = ((X / 2 ^ k + w : Nat) : Int) - ((2 ^ (s - 2 - k) : Nat) : Int) := by
    rw [Nat.cast_add, hdiv]; omega
  rw [hz]
  apply eq_ofInt_of_zmod
  rw [Int.cast_sub, Int.cast_natCast, Int.cast_natCast]
  exact h

/-- non-vacuity: i8, k = 2. x = -32 (lower end of the documented range) shared as (200, 100, 180):
    ⌊-32/4⌋ = -8 = 248 exactly, since -32 is a multiple of 4 -/
example : reveal 8 (trunc2k 8 2 true 200 100 180 ⟨0xB7, 17, 250, 3, 99, 201⟩).shares = 248 := by decide
/-- x = -1 = 255: ⌊-1/4⌋ = -1 (plaintext would give 0); low bits 3 + mask low bits 1 carry → 0 -/
example : reveal 8 (trunc2k 8 2 true 255 0 0 ⟨0x81, 1, 2, 3, 4, 5⟩).shares = 0 := by decide
example : reveal 8 (trunc2k 8 2 true 255 0 0 ⟨0x80, 1, 2, 3, 4, 5⟩).shares = 255 := by decide
/-- x = 31 (upper end), largest k = s-2 = 6: ⌊31/64⌋ = 0, + 1 with mask low bits 33 -/
example : reveal 8 (trunc2k 8 6 true 31 0 0 ⟨0xE1, 1, 2, 3, 4, 5⟩).shares = 1 := by decide
/-- x = 0 -/
example : reveal 8 (trunc2k 8 6 true 0 0 0 ⟨0xFF, 1, 2, 3, 4, 5⟩).shares = 0 := by decide

/-- **The property's statement for `2^k`, both signednesses at once**: for inputs in the documented
    range the revealed output is the residue of the exact floor quotient or of that quotient plus
    one, never anything else. -/
theorem trunc2k_floor_or_floor_plus_one (s k : Nat) (signed : Bool) (hk1 : 1 ≤ k)
    (hks : k + (if signed = true then 2 else 1) ≤ s) (x0 x1 x2 : Nat) (m : Masks2K) (hr : m.r < 2 ^ s)
    (hrange : if signed = true
      then -((2 ^ (s - 2) : Nat) : Int) ≤ sint s (reveal s (x0, x1, x2)) ∧
            sint s (reveal s (x0, x1, x2)) < ((2 ^ (s - 2) : Nat) : Int)
      else reveal s (x0, x1, x2) < 2 ^ (s - 1)) :
    reveal s (trunc2k s k signed x0 x1 x2 m).shares
        = ofInt s (toInt s signed (reveal s (x0, x1, x2)) / ((2 ^ k : Nat) : Int)) ∨
    reveal s (trunc2k s k signed x0 x1 x2 m).shares
        = ofInt s (toInt s signed (reveal s (x0, x1, x2)) / ((2 ^ k : Nat) : Int) + 1) := by
  cases signed
  · simp only [Bool.false_eq_true, if_false] at hks hrange
    have h := trunc2k_unsigned s k hk1 hks x0 x1 x2 m hr hrange
    have e : ∀ n : Nat, ofInt s (n : Int) = n % 2 ^ s := by
      intro n; unfold ofInt; rw [← Int.natCast_mod, Int.toNat_natCast]
    have hlt : reveal s (trunc2k s k false x0 x1 x2 m).shares < 2 ^ s := Nat.mod_lt _ (Nat.two_pow_pos s)
    simp only [toInt, Bool.false_eq_true, if_false]
    rw [← Int.natCast_ediv]
    split at h
    · right
      rw [show ((reveal s (x0, x1, x2) / 2 ^ k : Nat) : Int) + 1 = ((reveal s (x0, x1, x2) / 2 ^ k + 1 : Nat) : Int) by simp,
        e, ← h, Nat.mod_eq_of_lt hlt]
    · left
      rw [e, ← Nat.add_zero (reveal s (x0, x1, x2) / 2 ^ k), ← h, Nat.mod_eq_of_lt hlt]
  · simp only [if_true] at hks hrange
    have h := trunc2k_signed s k hk1 hks x0 x1 x2 m hr hrange.1 hrange.2
    simp only [toInt, if_true]
    split at h
    · right; exact h
    · left; rw [Int.add_zero] at h; exact h

/-- exact multiples of `2^k` are never rounded up (signed case; `w = 1` needs a non-zero remainder) -/
theorem trunc2k_signed_exact_multiple (s k : Nat) (hk1 : 1 ≤ k) (hks : k + 2 ≤ s) (x0 x1 x2 : Nat) (m : Masks2K)
    (hr : m.r < 2 ^ s)
    (hlo : -((2 ^ (s - 2) : Nat) : Int) ≤ sint s (reveal s (x0, x1, x2)))
    (hhi : sint s (reveal s (x0, x1, x2)) < ((2 ^ (s - 2) : Nat) : Int))
    (hmul : sint s (reveal s (x0, x1, x2)) % ((2 ^ k : Nat) : Int) = 0) :
    reveal s (trunc2k s k true x0 x1 x2 m).shares
      = ofInt s (sint s (reveal s (x0, x1, x2)) / ((2 ^ k : Nat) : Int)) := by
  rw [trunc2k_signed s k hk1 hks x0 x1 x2 m hr hlo hhi, hmul]
  have : m.r % 2 ^ k < 2 ^ k := Nat.mod_lt _ (Nat.two_pow_pos k)
  rw [if_neg (by omega), Int.add_zero]

/-- `k = 0` (scale 1): the sharing is returned unchanged -/
theorem trunc2k_zero (s : Nat) (signed : Bool) (x0 x1 x2 : Nat) (m : Masks2K) :
    (trunc2k s 0 signed x0 x1 x2 m).shares = (x0, x1, x2) := by
  simp [trunc2k, Out2K.shares]

/-! ## General divisor (`TruncateMPC`, signed types only) -/

/-- **What the protocol computes**: the revealed output is the residue of
    `tdiv a d + tdiv b d` where `a` is the signed reading of share 0 and `b` the signed reading of
    `(share 1 + share 2) mod M`; the re-masking value `r` cancels. -/
theorem truncGeneral_reveal (s d : Nat) (hs : 1 ≤ s) (hd : 2 ≤ d) (x0 x1 x2 r : Nat) (hx0 : x0 < 2 ^ s) :
    reveal s (truncGeneral s d x0 x1 x2 r) =
      ofInt s (Int.tdiv (sint s x0) (d : Int) + Int.tdiv (sint s ((x1 + x2) % 2 ^ s)) (d : Int)) := by
  have hM : 0 < 2 ^ s := Nat.two_pow_pos s
  have hb : (x1 + x2) % 2 ^ s < 2 ^ s := Nat.mod_lt _ hM
  have cast_ofInt : ∀ z : Int, ((ofInt s z : Nat) : ZMod (2 ^ s)) = ((z : Int) : ZMod (2 ^ s)) := by
    intro z
    unfold ofInt
    have h0 : 0 ≤ z % ((2 ^ s : Nat) : Int) := Int.emod_nonneg _ (by omega)
    rw [← Int.cast_natCast, Int.toNat_of_nonneg h0]
    exact (ZMod.intCast_eq_intCast_iff' _ _ _).mpr (Int.emod_emod_of_dvd _ (Int.dvd_refl _))
  simp only [truncGeneral, if_neg (show d ≠ 1 by omega), reveal, addm]
  apply eq_ofInt_of_zmod
  rw [truncPlain_signed s d x0 hs hx0 (by omega), truncPlain_signed s d _ hs hb (by omega)]
  push_cast [ZMod.natCast_mod, zmod_subm _ _ _ hM, cast_ofInt]
  ring

/-- the three possible relations between the share-wise sum and the secret, and the **exact
    characterisation of the documented wrap-around event** in terms of the first share:
    with `x` the secret, `a` the first share (signed readings), the integer sum `a + b` differs
    from `x` iff `a ≤ x − M/2` (only possible for `x ≥ 0`: the `x + 1` values `a ∈ [−M/2, x − M/2]`)
    or `a > x + M/2` (only possible for `x < 0`: the `|x| − 1` values `a ∈ (x + M/2, M/2)`) —
    the counts behind the documented probabilities `(x+1)/M` and `(|x|−1)/M`. -/
theorem truncGeneral_wrap_iff (s : Nat) (hs : 1 ≤ s) (x0 x1 x2 : Nat) (hx0 : x0 < 2 ^ s) :
    let a := sint s x0
    let b := sint s ((x1 + x2) % 2 ^ s)
    let x := sint s (reveal s (x0, x1, x2))
    (a + b = x ∨ a + b = x + ((2 ^ s : Nat) : Int) ∨ a + b = x - ((2 ^ s : Nat) : Int)) ∧
    (a + b ≠ x ↔ (a ≤ x - ((2 ^ (s - 1) : Nat) : Int) ∨ x + ((2 ^ (s - 1) : Nat) : Int) < a)) ∧
    (a + b = x ↔ (-((2 ^ (s - 1) : Nat) : Int) ≤ a + b ∧ a + b < ((2 ^ (s - 1) : Nat) : Int))) := by
  intro a b x
  have hM := two_pow_pred s hs
  have hpos : 0 < 2 ^ s := Nat.two_pow_pos s
  have hu : (x1 + x2) % 2 ^ s < 2 ^ s := Nat.mod_lt _ hpos
  have hsum : (x0 + x1 + x2) % 2 ^ s = (x0 + (x1 + x2) % 2 ^ s) % 2 ^ s := by
    rw [Nat.add_mod_mod, Nat.add_assoc]
  have hcases : (x0 + (x1 + x2) % 2 ^ s) % 2 ^ s = x0 + (x1 + x2) % 2 ^ s ∨
      (x0 + (x1 + x2) % 2 ^ s) % 2 ^ s = x0 + (x1 + x2) % 2 ^ s - 2 ^ s ∧ 2 ^ s ≤ x0 + (x1 + x2) % 2 ^ s := by
    by_cases h : x0 + (x1 + x2) % 2 ^ s < 2 ^ s
    · left; exact Nat.mod_eq_of_lt h
    · right
      refine ⟨?_, by omega⟩
      rw [Nat.mod_eq_sub_mod (by omega), Nat.mod_eq_of_lt (by omega)]
  have htlt : (x0 + (x1 + x2) % 2 ^ s) % 2 ^ s < 2 ^ s := Nat.mod_lt _ hpos
  have ha : a = sint s x0 := rfl
  have hb : b = sint s ((x1 + x2) % 2 ^ s) := rfl
  have hx : x = sint s ((x0 + x1 + x2) % 2 ^ s) := rfl
  rw [hsum] at hx
  clear_value a b x
  generalize (x1 + x2) % 2 ^ s = u at *
  generalize (x0 + u) % 2 ^ s = t at *
  unfold sint at ha hb hx
  generalize 2 ^ s = M at *
  generalize 2 ^ (s - 1) = H at *
  subst hM
  refine ⟨?_, ?_, ?_⟩ <;> (split at ha <;> split at hb <;> split at hx <;> rcases hcases with hc | ⟨hc, hc2⟩ <;> omega)

/-- **Error bound without wrap**: if the integer sum of the signed share readings does not leave
    `[−M/2, M/2)`, the revealed output is the plaintext quotient `tdiv x d` (rounding toward zero)
    plus an error `e ∈ {−1, 0, 1}`. -/
theorem truncGeneral_within_one (s d : Nat) (hs : 1 ≤ s) (hd : 2 ≤ d) (x0 x1 x2 r : Nat) (hx0 : x0 < 2 ^ s)
    (hnowrap : -((2 ^ (s - 1) : Nat) : Int) ≤ sint s x0 + sint s ((x1 + x2) % 2 ^ s) ∧
      sint s x0 + sint s ((x1 + x2) % 2 ^ s) < ((2 ^ (s - 1) : Nat) : Int)) :
    ∃ e : Int, -1 ≤ e ∧ e ≤ 1 ∧
      reveal s (truncGeneral s d x0 x1 x2 r)
        = ofInt s (Int.tdiv (sint s (reveal s (x0, x1, x2))) (d : Int) + e) := by
  obtain ⟨_, _, h3⟩ := truncGeneral_wrap_iff s hs x0 x1 x2 hx0
  have hsum := h3.mpr hnowrap
  have hb := tdiv_add_bound (sint s x0) (sint s ((x1 + x2) % 2 ^ s)) (d : Int) (by omega)
  refine ⟨Int.tdiv (sint s x0) (d : Int) + Int.tdiv (sint s ((x1 + x2) % 2 ^ s)) (d : Int)
      - Int.tdiv (sint s x0 + sint s ((x1 + x2) % 2 ^ s)) (d : Int), hb.2, hb.1, ?_⟩
  rw [truncGeneral_reveal s d hs hd x0 x1 x2 r hx0, ← hsum]
  congr 1; omega

/-- non-vacuity (i8, d = 10): x = -77 shared as a = -100 (156), b = 23 → -10 + 2 = -8 = 248,
    plaintext tdiv(-77, 10) = -7: error -1 -/
example : reveal 8 (truncGeneral 8 10 156 20 3 77) = 248 := by decide
/-- exact multiple, no error: x = 50 = 20 + 30 -/
example : reveal 8 (truncGeneral 8 10 20 25 5 200) = 5 := by decide
/-- wrap: x = 100 shared as a = -128 (128), b = -28 (228): a + b = x − 256; result -12 − 2 = -14 -/
example : reveal 8 (truncGeneral 8 10 128 228 0 9) = 242 := by decide
example : sint 8 128 ≤ sint 8 (reveal 8 (128, 228, 0)) - 128 := by decide

/-- `scale = 1`: unchanged -/
theorem truncGeneral_one (s x0 x1 x2 r : Nat) : truncGeneral s 1 x0 x1 x2 r = (x0, x1, x2) := by
  simp [truncGeneral]

/-! ## Plaintext semantics and public inputs -/

/-- plaintext `Truncate` on a signed type is `Int.tdiv` (round toward zero) of the two's complement
    readings — for every width, divisor and stored value, including the most negative one. -/
theorem plain_signed_is_tdiv (s d v : Nat) (hs : 1 ≤ s) (hv : v < 2 ^ s) (hd : 1 ≤ d) :
    sint s (truncPlain s true d v) = Int.tdiv (sint s v) (d : Int) :=
  sint_truncPlain s d v hs hv hd

/-- plaintext `Truncate` on an unsigned type is floor division. -/
theorem plain_unsigned_is_floor (s d v : Nat) : truncPlain s false d v = v / d :=
  truncPlain_unsigned s d v

/-- -7 / 2 = -3 toward zero (253 = -3), whereas the floor would be -4 -/
example : truncPlain 8 true 2 249 = 253 := by decide
/-- most negative value: -128 / 1 = -128, -128 / 128 = -1 -/
example : truncPlain 8 true 1 128 = 128 ∧ truncPlain 8 true 128 128 = 255 := by decide

/-- **Truncation of a public value is exact**: whenever the compiler accepts the node, the compiled
    operation on a public input is the plaintext function (identity for scale 1). -/
theorem public_is_plain (s : Nat) (signed : Bool) (scale x : Nat) (y : Nat)
    (h : truncPublic s signed scale x = .ok y) :
    y = if scale = 1 then x else truncPlain s signed scale x := by
  unfold truncPublic at h
  have hp : ∀ k, choose signed scale = .pow2 k → scale = 2 ^ k := by
    intro k hk
    unfold choose at hk
    split at hk
    · cases hk
    · split at hk
      · cases hk
      · split at hk
        · rename_i hp2
          injection hk with hk
          unfold isPow2 at hp2
          simp only [Bool.and_eq_true, beq_iff_eq] at hp2
          rw [← hk]; exact hp2.2.symm
        · split at hk <;> cases hk
  have hg : ∀ d, choose signed scale = .general d → scale = d := by
    intro d hd
    unfold choose at hd
    split at hd
    · cases hd
    · split at hd
      · cases hd
      · split at hd
        · cases hd
        · split at hd
          · injection hd
          · cases hd
  split at h
  · cases h
  · rename_i hc
    have := hp 0 hc
    injection h with h
    simp [this, h]
  · rename_i k hc
    have := hp (k + 1) hc
    injection h with h
    have h1 : scale ≠ 1 := by
      rw [this]; have := Nat.one_lt_two_pow (n := k + 1) (by omega); omega
    rw [if_neg h1, ← h, this]
  · rename_i d hc
    have := hg d hc
    injection h with h
    rw [this, ← h]

example : truncPublic 8 true 4 249 = .ok 255 := by decide
example : truncPublic 8 false 10 200 = .error "rejected" := by decide

/-- link to what the driver executes: for a power of two the compiled private operation *is*
    `trunc2k` (the code's only guards: `2^k ≤ i128::MAX` on signed types). -/
theorem truncPrivate_pow2 (s k : Nat) (signed : Bool) (hk127 : signed = true → k + 1 ≤ 126)
    (x0 x1 x2 r r0 rmsb0 rtr0 y0 y2 : Nat) :
    truncPrivate s signed (2 ^ (k + 1)) x0 x1 x2 [r, r0, rmsb0, rtr0, y0, y2]
      = .ok (trunc2k s (k + 1) signed x0 x1 x2 ⟨r, r0, rmsb0, rtr0, y0, y2⟩).shares := by
  have hc : choose signed (2 ^ (k + 1)) = .pow2 (k + 1) := by
    unfold choose
    have h0 : 2 ^ (k + 1) ≠ 0 := Nat.pos_iff_ne_zero.mp (Nat.two_pow_pos _)
    rw [if_neg h0]
    have h1 : ¬ (signed = true ∧ 2 ^ (k + 1) > 2 ^ 127 - 1) := by
      rintro ⟨hs, hgt⟩
      have := Nat.pow_le_pow_right (n := 2) (by omega) (hk127 hs)
      omega
    rw [if_neg h1]
    have h2 : isPow2 (2 ^ (k + 1)) = true := by
      unfold isPow2
      simp [Nat.log2_two_pow]
    rw [if_pos h2, Nat.log2_two_pow]
  unfold truncPrivate
  rw [hc]

/-- link to what the driver executes: for a non-power-of-two scale (`≤ i128::MAX`) the compiled
    private operation *is* `truncGeneral` on a signed type; on an unsigned type the compiler
    rejects it (`TruncateMPC` supports signed types only). -/
theorem truncPrivate_general (s d : Nat) (signed : Bool) (hd0 : d ≠ 0) (hmax : d ≤ 2 ^ 127 - 1)
    (hnp : isPow2 d = false) (x0 x1 x2 r : Nat) :
    truncPrivate s signed d x0 x1 x2 [r]
      = if signed = true then .ok (truncGeneral s d x0 x1 x2 r) else .error "rejected" := by
  have hc : choose signed d = if signed = true then .general d else .reject := by
    unfold choose
    rw [if_neg hd0, if_neg (by omega), hnp]
    simp
  unfold truncPrivate
  rw [hc]
  cases signed <;> simp

example : truncPrivate 8 true 10 156 20 3 [77] = .ok (truncGeneral 8 10 156 20 3 77) := by decide

end CCV.C05
