import CCV.Lemmas.InstNames
import CCV.Lemmas.InstPass
/-
  C08 — custom-operation instantiation is total and meaning-preserving.
  Property theorems only; helper lemmas live in CCV/Lemmas/InstNames.lean (names) and
  CCV/Lemmas/InstPass.lean (pass).  Model: CCV/Model/Instantiate.lean — `opName`, `instName`,
  `showTy`, `instantiate` are what the driver (CCV/Drv/C08.lean) executes.

  Names are `List Char` rendered from the pieces of each Rust `format!` string (`opSpec`), numbers
  by `Nat.toDigits 10` (= `Nat.repr`, core `Nat.toList_repr`), so the injectivity statements are
  about decimal printing itself, not about an assumed printer.
  The pass is generic in the operation type, the type type (cache keys need decidable equality),
  the payload `P` of plain nodes and the values `V`.
-/
namespace CCV.C08
open CCV CCV.Instantiate

/-! ## Names -/

/-- **Reported names are prefix-free before `::<`.**  `Instantiation::get_name` continues the
    reported name with `::<`; if `name a ++ ':' ++ r = name b ++ ':' ++ r'` then the operations
    (constructor and every parameter: all naturals, booleans, strings) and the rests coincide. -/
theorem opName_prefix_free (a b : LibOp) (r r' : List Char)
    (h : opNameChars a ++ ':' :: r = opNameChars b ++ ':' :: r') : a = b ∧ r = r' :=
  Instantiate.opNameChars_prefix_free a b r r' h

/-- non-vacuity: without the separator the names are not prefix-free -/
example : opNameChars .not ++ "Equal".toList = opNameChars .notEqual ++ [] := by decide

/-- **`get_name()` is injective**: two different operations or two parameterisations of one
    operation never report the same name. -/
theorem opName_injective {a b : LibOp} (h : opName a = opName b) : a = b :=
  Instantiate.opName_injective h

example : opName (.clip2K 10) = "Clip(10)" := by decide
example : opName (.sortByIntegerKey "a".toList) ≠ opName (.sortByIntegerKey "b".toList) :=
  fun h => by cases opName_injective h
example : opName (.fixedMultiply 10 false) ≠ opName (.fixedMultiply 10 true) :=
  fun h => by cases opName_injective h
example : opName (.clip2K 1) ≠ opName (.clip2K 65) := fun h => by cases opName_injective h

/-- **Instantiation names are injective**, given that printing a list of argument types is. -/
theorem instName_injective (hty : ∀ ts ts' : List Ty, showTys ts = showTys ts' → ts = ts')
    {a b : LibOp} {ts ts' : List Ty} (h : instName a ts = instName b ts') : a = b ∧ ts = ts' :=
  Instantiate.instName_injective hty h

example : instNameChars (opNameChars (.min false)) (showTys [.scalar ⟨false, 1⟩, .array [2, 3] ⟨true, 32⟩])
    = "__Min(signed_comparison=false)::<bit, i32[2, 3]>".toList := by decide

/-- **… unconditionally on scalar and array argument types** (what almost all library operations
    take): decimal dimensions, `bit` / `u<n>` / `i<n>`, brackets and `, ` parse back uniquely.
    `Ty.okFlat`: a scalar or array type whose scalar type is not the impossible "signed 1-bit". -/
theorem instName_injective_flat {a b : LibOp} {ts ts' : List Ty}
    (h0 : ∀ t ∈ ts, t.okFlat) (h' : ∀ t ∈ ts', t.okFlat)
    (h : instName a ts = instName b ts') : a = b ∧ ts = ts' :=
  Instantiate.instName_injective_flat h0 h' h

example : (Ty.array [2, 3] ⟨true, 32⟩).okFlat ∧ (Ty.scalar ⟨false, 1⟩).okFlat := by
  constructor <;> simp [Ty.okFlat, ScalarT.ok]

/-- the hypothesis of `instName_injective` is not a formality: the printer of `Type` maps the
    empty tuple and the empty named tuple to the same text (found by the correspondence run) -/
example : showTys [.tuple []] = showTys [.named []] := by decide

/-- the name `run_instantiation_pass` gives to the graph of an instantiation, for any
    representation `Ty'` of types with a printer `pr` of argument lists
    (`instName op tys = libName showTys ⟨op, tys⟩`) -/
def libName {Ty' : Type} (pr : List Ty' → List Char) (i : Inst LibOp Ty') : String :=
  String.ofList (instNameChars (opNameChars i.op) (pr i.tys))

example (op : LibOp) (tys : List Ty) : instName op tys = libName showTys ⟨op, tys⟩ := rfl

theorem libName_injective {Ty' : Type} (pr : List Ty' → List Char)
    (hpr : ∀ x y, pr x = pr y → x = y) {i j : Inst LibOp Ty'} (h : libName pr i = libName pr j) :
    i = j := by
  obtain ⟨h1, h2⟩ := Instantiate.instNameChars_inj (String.ofList_injective h)
  cases i; cases j
  simp only [Inst.mk.injEq]
  exact ⟨h1, hpr _ _ h2⟩

/-! ## The pass -/

section Pass
variable {Op Ty' P : Type} [DecidableEq Op] [DecidableEq Ty']

/-- **The pass is total on acyclic dependency graphs.**  `S` is a set of instantiations that can
    be instantiated, whose bodies are well formed and use only members of `S` of smaller `rank`
    (`Acyclic`), named injectively; the context is well formed, its custom nodes are in `S` and
    the fuel exceeds their ranks.  Then no step fails: no instantiation is missing from the cache
    when it is needed ("Should not be here"), no name clashes ("Graph names must be unique"), no
    cycle error. -/
theorem instantiate_total (callP : P) (nameOf : Inst Op Ty' → String)
    (lib : Inst Op Ty' → Except String (Ctx Op Ty' P)) (S : Inst Op Ty' → Prop)
    (rank : Inst Op Ty' → Nat) (fuel : Nat) (c : Ctx Op Ty' P)
    (hac : Acyclic lib S rank) (hc : WfCtx c) (hS : ∀ j ∈ c.uses, S j)
    (hinj : ∀ i j, S i → S j → nameOf i = nameOf j → i = j)
    (hfuel : ∀ j ∈ c.uses, rank j < fuel) :
    ∃ r, instantiate callP nameOf lib fuel c = .ok r :=
  Instantiate.instantiate_total callP nameOf lib S rank fuel c hac hc hS hinj hfuel

/-- non-vacuity: `Or` (three nested `Not`) and `Not` used in a two-graph context -/
example : ∃ r, instantiate 99 exName exLib 2 exCtx = .ok r :=
  instantiate_total 99 exName exLib exS exRank 2 exCtx ex_acyclic (WfCtx_of_check _ rfl)
    (by decide) ex_inj (by decide)

/-- **… with the library's names**: for the public library operations, named by
    `Instantiation::get_name` over any injective printing of argument lists, the uniqueness check
    of `set_name` never fires — `hinj` is a theorem, not a hypothesis. -/
theorem instantiate_total_lib (pr : List Ty' → List Char) (hpr : ∀ x y, pr x = pr y → x = y)
    (callP : P) (lib : Inst LibOp Ty' → Except String (Ctx LibOp Ty' P))
    (S : Inst LibOp Ty' → Prop) (rank : Inst LibOp Ty' → Nat) (fuel : Nat) (c : Ctx LibOp Ty' P)
    (hac : Acyclic lib S rank) (hc : WfCtx c) (hS : ∀ j ∈ c.uses, S j)
    (hfuel : ∀ j ∈ c.uses, rank j < fuel) :
    ∃ r, instantiate callP (libName pr) lib fuel c = .ok r :=
  Instantiate.instantiate_total callP (libName pr) lib S rank fuel c hac hc hS
    (fun _ _ _ _ h => libName_injective pr hpr h) hfuel

/-- non-vacuity: two sorts with different keys and two clips with different `k` on one type
    (types are naturals printed in decimal); the bodies are plain -/
example : ∃ r, instantiate (0 : Nat) (libName (Ty' := Nat) fun ts => List.intercalate [','] (ts.map (Nat.toDigits 10)))
    (fun _ => .ok ⟨[⟨[.plain 1 [] []], 0⟩], 0⟩) 1
    ⟨[⟨[.custom ⟨.sortByIntegerKey ['a'], [5]⟩ [], .custom ⟨.sortByIntegerKey ['b'], [5]⟩ [],
        .custom ⟨.clip2K 1, [5]⟩ [], .custom ⟨.clip2K 2, [5]⟩ []], 0⟩], 0⟩ = .ok r := ⟨_, by rfl⟩

/-- **Every custom node is replaced by a `Call` of the graph cached for exactly its
    (operation, types).**  The result context is the instantiated graphs `pre` followed by the
    graphs of the original context, node for node: a custom node with instantiation `i` on
    dependencies `ds` became `Call` on `ds` of graph `gi`, where `gi` is the cache entry of `i`
    and that graph is named `nameOf i`; plain nodes keep payload and node dependencies, their
    graph dependencies point into the copied part; the main graph is the copy of the main graph. -/
theorem instantiate_replaces {callP : P} {nameOf : Inst Op Ty' → String}
    {lib : Inst Op Ty' → Except String (Ctx Op Ty' P)} {fuel : Nat} {c : Ctx Op Ty' P}
    {r : RCtx P} {cache : List (Inst Op Ty' × Nat)}
    (h : instantiate callP nameOf lib fuel c = .ok (r, cache)) :
    ∃ pre tail, r.graphs = pre ++ tail ∧ tail.length = c.graphs.length ∧
      r.main = pre.length + c.main ∧
      ∀ (k : Nat) g, c.graphs[k]? = some g → ∃ rg, tail[k]? = some rg ∧ rg.name = none ∧
        rg.out = g.out ∧ rg.nodes.length = g.nodes.length ∧
        (∀ (n : Nat) i ds, g.nodes[n]? = some (.custom i ds) →
          ∃ gi cg, rg.nodes[n]? = some ⟨callP, [gi], ds⟩ ∧ cacheGet cache i = some gi ∧
            pre[gi]? = some cg ∧ cg.name = some (nameOf i)) ∧
        (∀ (n : Nat) p gd ds, g.nodes[n]? = some (.plain p gd ds) →
          ∃ gd', rg.nodes[n]? = some ⟨p, gd', ds⟩ ∧ gd'.length = gd.length ∧
            ∀ x ∈ gd', pre.length ≤ x) :=
  Instantiate.instantiate_replaces h

/-- non-vacuity: in the example the `Or` node of graph 0 became a call of graph 1, named "Or" -/
example : (exResult.1.graphs[2]?.bind (·.nodes[2]?)) = some ⟨99, [1], [0, 1]⟩ ∧
    (exResult.1.graphs[1]?.bind (·.name)) = some (exName ⟨1, [7, 7]⟩) := by decide

/-- **Graph names in the result are pairwise distinct.** -/
theorem instantiate_names_nodup {callP : P} {nameOf : Inst Op Ty' → String}
    {lib : Inst Op Ty' → Except String (Ctx Op Ty' P)} {fuel : Nat} {c : Ctx Op Ty' P}
    {r : RCtx P} {cache : List (Inst Op Ty' × Nat)}
    (h : instantiate callP nameOf lib fuel c = .ok (r, cache)) :
    (r.graphs.filterMap (·.name)).Nodup :=
  Instantiate.instantiate_names_nodup h

example : exResult.1.graphs.filterMap (·.name) = ["Not", "Or"] := by decide

/-- a name that does not determine the parameters makes the pass fail, as in the code before the
    repair: constant name, two keys, one type -/
example : instantiate (0 : Nat) (fun _ : Inst LibOp Nat => "__SortIntegers::<t>")
    (fun _ => .ok ⟨[⟨[.plain 1 [] []], 0⟩], 0⟩) 1
    ⟨[⟨[.custom ⟨.sortByIntegerKey ['a'], [5]⟩ [], .custom ⟨.sortByIntegerKey ['b'], [5]⟩ []], 0⟩], 0⟩
    = .error "Graph names must be unique" := by rfl

/-- **The pass preserves the meaning** — generic in the semantics.  `sem` gives the value of a
    plain node from the functions of its graph dependencies, the arguments of the enclosing graph
    and the values of its dependencies; the only requirement is that `Call` applies the callee.
    `cust` is the library's definition of each instantiation: the function computed by the context
    `op.instantiate(types)` builds, nested custom nodes evaluated the same way (`hcust`: on-the-fly
    instantiation).  Then the result context computes the same function as the original context
    with every custom node evaluated by `cust`. -/
theorem instantiate_eval {V : Type} (sem : P → List (Fn V) → List V → List V → Option V)
    (cust : Inst Op Ty' → Fn V) {callP : P} {nameOf : Inst Op Ty' → String}
    {lib : Inst Op Ty' → Except String (Ctx Op Ty' P)} {fuel : Nat} {c : Ctx Op Ty' P}
    {r : RCtx P} {cache : List (Inst Op Ty' × Nat)}
    (hcall : ∀ f args ds, sem callP [f] args ds = f ds)
    (hcust : ∀ i body, lib i = .ok body → cust i = evalCtx sem cust body)
    (h : instantiate callP nameOf lib fuel c = .ok (r, cache)) :
    evalRCtx sem r = evalCtx sem cust c :=
  Instantiate.instantiate_eval sem cust hcall hcust h

/-- non-vacuity: Boolean semantics (not / and / call / inputs), `Or` defined through three `Not` -/
example : evalRCtx exSem exResult.1 = evalCtx exSem exCust exCtx :=
  instantiate_eval exSem exCust ex_hcall ex_hcust ex_run

example : evalRCtx exSem exResult.1 [false, false] = some true ∧
    evalRCtx exSem exResult.1 [true, false] = some false := by decide

end Pass

end CCV.C08
