import Mathlib.Tactic.Ring
import Mathlib.Tactic.Abel
import Mathlib.Data.Fintype.Card
import Mathlib.Logic.Equiv.Defs
import CCV.Lemmas.Pivot
import CCV.Lemmas.Mask
import CCV.Lemmas.MaskRev
import CCV.Lemmas.MaskTy
import CCV.Lemmas.Shuffle
import Mathlib.Algebra.Group.Prod
/-
  C03 — a party's view reveals nothing beyond its own inputs and outputs.

  Formulation.  A protocol fragment, seen by one observer, is a *view map*
  `view : X → T → V`: the other parties' secrets `x : X`, the tape `t : T` of the masks the observer
  does NOT know (idealised PRF outputs: independent, uniform), and everything the observer sees
  (`V`: messages delivered to it; its own inputs and the masks it knows are parameters).
  `Hides view out` says: whenever two secret vectors give the observer the same output, there is a
  bijection of tapes under which the two views coincide tape by tape.  For a finite tape space this
  is exactly "identical distributions" (`Hides.card_eq`: every view value has the same number of
  tapes producing it) — no bound on anything, for every ring.

  Part (i): the hand-modelled protocols of the compiler (input sharing, ABY3 product + resharing,
  reveal, oblivious transfer, bit-by-integer product, 2-out-of-2 resharing of truncation).
  The tie to the code is the correspondence stream of harness/src/c03.rs (exhaustive comparison of
  view distributions of the graphs `compile_context` emits, on bit-typed programs).
-/
namespace CCV.C03

/-- the observer learns nothing beyond `out` -/
def Hides {X T V O : Type} (view : X → T → V) (out : X → O) : Prop :=
  ∀ x x', out x = out x' → ∃ σ : T → T, Function.Bijective σ ∧ ∀ t, view x t = view x' (σ t)

/-- `Hides` means identical view distributions under a uniform tape: each view value is produced by
    the same number of tapes. -/
theorem Hides.card_eq {X T V O : Type} [Fintype T] [DecidableEq V] {view : X → T → V} {out : X → O}
    (h : Hides view out) (x x' : X) (hx : out x = out x') (v : V) :
    Fintype.card {t : T // view x t = v} = Fintype.card {t : T // view x' t = v} := by
  obtain ⟨σ, hσ, hv⟩ := h x x' hx
  exact Fintype.card_congr
    ((Equiv.ofBijective σ hσ).subtypeEquiv (fun t => by simp [hv t]))

/-- a party that receives nothing (or only values it can compute itself) learns nothing -/
theorem hides_of_const {X T V O : Type} (view : X → T → V) (out : X → O)
    (h : ∀ x x' t, out x = out x' → view x t = view x' t) : Hides view out :=
  fun x x' hx => ⟨id, Function.bijective_id, fun t => h x x' t hx⟩

section ring
variable {R : Type} [CommRing R]

theorem shift_bijective (c : R) : Function.Bijective (fun t : R => t + c) :=
  ⟨fun a b h => by simpa using h, fun b => ⟨b - c, by simp⟩⟩

/-- **Input sharing** (recursively_generate_node_shares).  Owner o holds x; α_i = f_i − f_{i+1}.
    The observer p = o−1 receives the owner's share `x + f_o − f_{o+1}`; it knows `f_o` (= `known`)
    but not `f_{o+1}` (the tape).  Its view is uniform whatever x is: it learns nothing. -/
theorem input_sharing_hides (known : R) :
    Hides (fun (x : R) (t : R) => x + (known - t)) (fun _ => ()) := by
  intro x x' _
  exact ⟨fun t => t + (x' - x), shift_bijective _, fun t => by ring⟩

/-- the third party (o+1) receives only `f_{o+1} − f_{o+2}`-type shares that do not involve x -/
theorem input_sharing_other (known : R) :
    Hides (fun (_ : R) (t : R) => known - t) (fun _ => ()) :=
  hides_of_const _ _ (fun _ _ _ _ => rfl)

/-- **Product + resharing** (mpc_arithmetic.rs, resharing.rs:250-271).  Party p+1 computes its
    3-out-of-3 product share `z` (a function of the secrets, here any `z : X → R`) and sends
    `z + (f_{p+1} − f_{p+2})` to p, who knows `f_{p+1}` but not `f_{p+2}`. -/
theorem reshare_hides {X : Type} (z : X → R) (known : R) :
    Hides (fun (x : X) (t : R) => z x + (known - t)) (fun _ => ()) := by
  intro x x' _
  exact ⟨fun t => t + (z x' - z x), shift_bijective _, fun t => by ring⟩

/-- several re-shared values in sequence (a chain of products): one fresh mask each, the masks of
    earlier rounds may enter later values in any way (`z k x history`). -/
theorem reshare_chain_hides {X : Type} (z1 : X → R) (z2 : X → R → R) (k1 k2 : R) :
    Hides (fun (x : X) (t : R × R) => (z1 x + (k1 - t.1), z2 x t.1 + (k2 - t.2))) (fun _ => ()) := by
  intro x x' _
  refine ⟨fun t => (t.1 + (z1 x' - z1 x), t.2 + (z2 x' (t.1 + (z1 x' - z1 x)) - z2 x t.1)), ?_, ?_⟩
  · constructor
    · intro a b h
      simp only [Prod.mk.injEq] at h
      obtain ⟨h1, h2⟩ := h
      have e1 : a.1 = b.1 := by simpa using h1
      rw [e1] at h2
      have e2 : a.2 = b.2 := by simpa using h2
      exact Prod.ext e1 e2
    · intro b
      refine ⟨(b.1 - (z1 x' - z1 x), b.2 - (z2 x' b.1 - z2 x (b.1 - (z1 x' - z1 x)))), ?_⟩
      simp
  · intro t
    simp only [Prod.mk.injEq]
    constructor <;> ring

/-- **Reveal** (reveal_output): the output party holds shares a, b and receives the third one.
    The received value is determined by what it already holds and by its output. -/
theorem reveal_hides {X : Type} (a b : R) (s : X → R) :
    Hides (fun (x : X) (_ : Unit) => s x) (fun x => a + b + s x) := by
  intro x x' h
  refine ⟨id, Function.bijective_id, fun _ => ?_⟩
  have := add_left_cancel h
  exact this

/-- **Oblivious transfer, receiver with b = 0** (mpc/utils.rs:84-120): it sees `i0 + r0`,
    `i1 + r1` and `r_b = r0`; it learns `i0` (its output) and nothing about `i1`. -/
theorem ot_receiver_b0_hides :
    Hides (fun (i : R × R) (r : R × R) => (i.1 + r.1, i.2 + r.2, r.1)) (fun i => i.1) := by
  intro i i' h
  refine ⟨fun r => (r.1, r.2 + (i.2 - i'.2)), ?_, ?_⟩
  · constructor
    · intro a b hab
      simp only [Prod.mk.injEq] at hab
      exact Prod.ext hab.1 (by simpa using hab.2)
    · intro b; exact ⟨(b.1, b.2 - (i.2 - i'.2)), by simp⟩
  · intro r
    have h' : i.1 = i'.1 := h
    simp only [Prod.mk.injEq, and_true]
    exact ⟨by rw [h'], by ring⟩

/-- receiver with b = 1: sees `i0 + r0`, `i1 + r1`, `r1`; learns `i1` only -/
theorem ot_receiver_b1_hides :
    Hides (fun (i : R × R) (r : R × R) => (i.1 + r.1, i.2 + r.2, r.2)) (fun i => i.2) := by
  intro i i' h
  refine ⟨fun r => (r.1 + (i.1 - i'.1), r.2), ?_, ?_⟩
  · constructor
    · intro a b hab
      simp only [Prod.mk.injEq] at hab
      exact Prod.ext (by simpa using hab.1) hab.2
    · intro b; exact ⟨(b.1 - (i.1 - i'.1), b.2), by simp⟩
  · intro r
    have h' : i.2 = i'.2 := h
    simp only [Prod.mk.injEq, and_true]
    exact ⟨by ring, by rw [h']⟩

/-- sender and helper of the OT receive nothing -/
theorem ot_sender_helper_hide {X V : Type} (own : V) :
    Hides (fun (_ : X) (_ : Unit) => own) (fun _ => ()) :=
  hides_of_const _ _ (fun _ _ _ _ => rfl)

/-- **2-out-of-2 resharing used by truncation** (mpc_truncate.rs): a party sends `v − r` where r is a
    mask the receiver does not know -/
theorem two_of_two_hides {X : Type} (v : X → R) :
    Hides (fun (x : X) (r : R) => v x - r) (fun _ => ()) := by
  intro x x' _
  exact ⟨fun r => r + (v x' - v x), shift_bijective _, fun r => by ring⟩

end ring

/- ------------------------------------------------------------------------------------------------
   Part (ii): the mask discipline is sound for EVERY message system, over every additive group.
   ------------------------------------------------------------------------------------------------ -/
section discipline
open CCV.Pivot
variable {R X : Type} [AddCommGroup R]

/-- the tape with the pivot coordinates blanked: everything about the tape that is not a pivot
    (in particular every mask the observer knows) -/
def offPivots (msgs : List (Msg X R)) (ρ : Nat → R) : Nat → R :=
  fun v => if ∃ m ∈ msgs, v = m.piv then 0 else ρ v

theorem offPivots_congr (msgs : List (Msg X R)) (ρ ρ' : Nat → R)
    (h : ∀ v, (∀ m ∈ msgs, v ≠ m.piv) → ρ' v = ρ v) : offPivots msgs ρ' = offPivots msgs ρ := by
  funext v
  unfold offPivots
  by_cases hv : ∃ m ∈ msgs, v = m.piv
  · simp [hv]
  · simp only [hv, if_false]
    exact h v (fun m hm e => hv ⟨m, hm, e⟩)

/-- **Soundness of the mask discipline (non-recipient observer).**  If the messages delivered to a
    party, in some order, each carry a fresh pivot mask with coefficient ±1 that no earlier message
    depends on (older masks may enter in any, even non-linear, way), then the party's whole view —
    all messages together with every non-pivot coordinate of the tape — is identically distributed
    for any two secret vectors: it learns nothing. -/
theorem pivot_discipline_hides (msgs : List (Msg X R)) (h : Disc msgs) :
    Hides (fun (x : X) (ρ : Nat → R) => (msgs.map (fun m => m.f x ρ), offPivots msgs ρ))
      (fun _ => ()) := by
  intro x x' _
  obtain ⟨σ, τ, S⟩ := exists_sim msgs h x x'
  refine ⟨σ, ⟨Function.LeftInverse.injective S.left, Function.RightInverse.surjective S.right⟩, ?_⟩
  intro ρ
  refine Prod.ext ?_ ?_
  · exact List.map_congr_left (fun m hm => S.align ρ m hm)
  · exact (offPivots_congr msgs ρ (σ ρ) (fun v hv => S.fixσ ρ v hv)).symm

/-- **… and for an output recipient**: further messages `rev` (the shares sent at reveal) that are
    determined by the party's output and the rest of its view add nothing. -/
theorem pivot_discipline_hides_recipient {O V : Type} (msgs : List (Msg X R)) (h : Disc msgs)
    (out : X → O) (rev : X → (Nat → R) → V)
    (F : O → List R → (Nat → R) → V)
    (hrev : ∀ x ρ, rev x ρ = F (out x) (msgs.map (fun m => m.f x ρ)) (offPivots msgs ρ)) :
    Hides (fun (x : X) (ρ : Nat → R) => (msgs.map (fun m => m.f x ρ), offPivots msgs ρ, rev x ρ)) out := by
  intro x x' hout
  obtain ⟨σ, τ, S⟩ := exists_sim msgs h x x'
  refine ⟨σ, ⟨Function.LeftInverse.injective S.left, Function.RightInverse.surjective S.right⟩, ?_⟩
  intro ρ
  have e1 : msgs.map (fun m => m.f x ρ) = msgs.map (fun m => m.f x' (σ ρ)) :=
    List.map_congr_left (fun m hm => S.align ρ m hm)
  have e2 : offPivots msgs ρ = offPivots msgs (σ ρ) :=
    (offPivots_congr msgs ρ (σ ρ) (fun v hv => S.fixσ ρ v hv)).symm
  simp only [hrev, hout, e1, e2]

/-- non-vacuity: two messages over ℤ; the second uses the first mask non-linearly
    (`z₂ = x·ρ₀² + ρ₁`), the first is `x + ρ₀`; listed last first. -/
example : Disc (X := Int) (R := Int)
    [⟨fun x ρ => x * ρ 0 * ρ 0 + ρ 1, 1, false⟩, ⟨fun x ρ => x + ρ 0, 0, false⟩] := by
  refine Disc.cons _ _ ?_ ?_ (Disc.cons _ _ ?_ ?_ Disc.nil)
  · intro x ρ a; simp [upd, sg]
  · intro m' hm'
    simp only [List.mem_singleton] at hm'
    subst hm'
    exact ⟨fun x ρ a => by simp [upd], by decide⟩
  · intro x ρ a; simp [upd, sg]
  · intro m' hm'; simp at hm'

end discipline

/- ------------------------------------------------------------------------------------------------
   Part (iii): from an exported graph and a certificate to `Hides`, through the verified checker.
   The per-graph obligations CCV/Generated/C03_*.lean state `discOk G cert = true ∧ compOk G comp = true`
   for the graph `compile_context` emits NOW, classified for one observer, and are decided by the kernel.
   ------------------------------------------------------------------------------------------------ -/
section checker
open CCV.Pivot CCV.Mask
variable {R : Type} [AddCommGroup R]

/-- **Soundness of the checked certificate.**  For an exported graph `g` (any semantics `sem` of the
    non-additive operations, any values `own` of the observer's inputs and `kn` of the masks it knows):
    if the checker accepts the certificate — `cert`: the non-computable messages delivered to the
    observer, last first, each with its pivot; `comp`: the messages it can compute itself — then the
    observer's view (all those messages, and every non-pivot coordinate of the unknown tape) is
    identically distributed for all values of the other parties' secrets. -/
theorem checked_graph_hides (sem : Nat → List R → R) (own kn : Nat → R) (g : List Mask.Node)
    (cert : Cert) (comp : List Nat) (h : discOk g cert = true) (hc : compOk g comp = true) :
    Hides (fun (x : Nat → R) (ρ : Nat → R) =>
        ((cert.map (toMsg sem own kn g)).map (fun m => m.f x ρ),
         comp.map (fun m => (evalRun sem own kn x ρ g []).getD m 0),
         offPivots (cert.map (toMsg sem own kn g)) ρ))
      (fun _ => ()) := by
  intro x x' _
  obtain ⟨σ, τ, S⟩ := exists_sim _ (discOk_disc sem own kn g cert h) x x'
  refine ⟨σ, ⟨Function.LeftInverse.injective S.left, Function.RightInverse.surjective S.right⟩, ?_⟩
  intro ρ
  refine Prod.ext ?_ (Prod.ext ?_ ?_)
  · exact List.map_congr_left (fun m hm => S.align ρ m hm)
  · exact compOk_const sem own kn g comp hc x x' ρ (σ ρ)
  · exact (offPivots_congr _ ρ (σ ρ) (fun v hv => S.fixσ ρ v hv)).symm

/-- non-vacuity: owner 1 shares x with masks f0, f1, f2; observer 0 knows f0 (var 0) and f1 (var 1) but
    not f2 (tape variable 2) and receives share 1 = (f1 − f2) + x:
    nodes 0:x 1:f1 2:f2 3:f1−f2 4:(f1−f2)+x; message node 4, pivot 2 -/
example : discOk [⟨.hid 0, []⟩, ⟨.tapeK 1, []⟩, ⟨.tapeU 2, []⟩, ⟨.sub, [1, 2]⟩, ⟨.add, [3, 0]⟩] [(4, 2)] = true
    ∧ compOk [⟨.hid 0, []⟩, ⟨.tapeK 1, []⟩, ⟨.tapeU 2, []⟩, ⟨.sub, [1, 2]⟩, ⟨.add, [3, 0]⟩] [1] = true := by
  decide

end checker

section recipient
open CCV.Pivot CCV.Mask
variable {R : Type} [AddCommGroup R]

/-- **Soundness of the checked certificate for an output recipient.**  `cert` / `comp` as in
    `checked_graph_hides`; `revs` = the reveal messages (the share(s) of the output the recipient does
    not hold, the forwarded result); `o` = the output node.  If the checker accepts — in particular
    `revOk`: the output node is `r + (something determined by the other messages, the recipient's own
    inputs and the masks it knows)` for every reveal message r — and the value of the output node does
    not depend on the tape (`hout`: this is C01 for the same graph), then the recipient's whole view,
    reveal messages included, is identically distributed for any two secret vectors that give it the
    same output. -/
theorem checked_graph_hides_recipient (sem : Nat → List R → R) (own kn : Nat → R) (g : List Mask.Node)
    (cert : Cert) (comp revs : List Nat) (o : Nat)
    (h : discOk g cert = true) (hc : compOk g comp = true)
    (hr : revOk g (cert.map (·.1) ++ comp) o revs = true)
    (hout : ∀ x ρ ρ', val sem own kn g o x ρ = val sem own kn g o x ρ') :
    Hides (fun (x : Nat → R) (ρ : Nat → R) =>
        ((cert.map (toMsg sem own kn g)).map (fun m => m.f x ρ),
         comp.map (fun m => val sem own kn g m x ρ),
         revs.map (fun m => val sem own kn g m x ρ),
         offPivots (cert.map (toMsg sem own kn g)) ρ))
      (fun x => val sem own kn g o x (fun _ => 0)) := by
  intro x x' hx
  obtain ⟨σ, τ, S⟩ := exists_sim _ (discOk_disc sem own kn g cert h) x x'
  refine ⟨σ, ⟨Function.LeftInverse.injective S.left, Function.RightInverse.surjective S.right⟩, ?_⟩
  intro ρ
  have e1 : (cert.map (toMsg sem own kn g)).map (fun m => m.f x ρ)
      = (cert.map (toMsg sem own kn g)).map (fun m => m.f x' (σ ρ)) :=
    List.map_congr_left (fun m hm => S.align ρ m hm)
  have e2 := compOk_const sem own kn g comp hc x x' ρ (σ ρ)
  simp only [revOk, Bool.and_eq_true, List.all_eq_true, decide_eq_true_eq, beq_iff_eq] at hr
  obtain ⟨⟨hw, ho⟩, hrev⟩ := hr
  -- all message nodes of the view carry equal values in the two runs
  have hmsg : ∀ j ∈ cert.map (·.1) ++ comp, val sem own kn g j x ρ = val sem own kn g j x' (σ ρ) := by
    intro j hj
    rcases List.mem_append.mp hj with hj | hj
    · obtain ⟨mv, hmv, rfl⟩ := List.mem_map.mp hj
      exact S.align ρ (toMsg sem own kn g mv) (List.mem_map.mpr ⟨mv, hmv, rfl⟩)
    · have := List.map_eq_map_iff.mp e2 j hj
      exact this
  refine Prod.ext e1 (Prod.ext e2 (Prod.ext ?_ ?_))
  · apply List.map_congr_left
    intro r hrm
    have hro := hrev r hrm
    have hs := rcls_sound sem own kn g (cert.map (·.1) ++ comp) r hw x x' ρ (σ ρ) hmsg o ho
    rw [hro.2] at hs
    simp only [RRel] at hs
    -- val o − val r is equal in both runs, and val o is the (equal) output
    have ho1 : val sem own kn g o x ρ = val sem own kn g o x' (σ ρ) := by
      rw [hout x ρ (fun _ => 0), hout x' (σ ρ) (fun _ => 0)]; exact hx
    have : val sem own kn g r x ρ = val sem own kn g o x ρ - (val sem own kn g o x ρ - val sem own kn g r x ρ) := by
      abel
    rw [this]
    have hs' : val sem own kn g o x ρ - val sem own kn g r x ρ
        = val sem own kn g o x' (σ ρ) - val sem own kn g r x' (σ ρ) := hs
    rw [hs', ho1]; abel
  · exact (offPivots_congr _ ρ (σ ρ) (fun v hv => S.fixσ ρ v hv)).symm

/-- non-vacuity: x owned by party 1, revealed to party 0.  Party 0 knows f0, f1 (tapeK), not f2
    (tapeU 2).  Shares: s0 = f0 − f1, s1 = (f1 − f2) + x, s2 = f2 − f0.  Party 0 holds s0 (computes it)
    and receives s1 (message node 6, pivot f2); at reveal it receives s2 (node 7); output o = (s0+s1)+s2. -/
example :
    let g : List Mask.Node := [⟨.hid 0, []⟩, ⟨.tapeK 0, []⟩, ⟨.tapeK 1, []⟩, ⟨.tapeU 2, []⟩,
      ⟨.sub, [1, 2]⟩, ⟨.sub, [2, 3]⟩, ⟨.add, [5, 0]⟩, ⟨.sub, [3, 1]⟩, ⟨.add, [4, 6]⟩, ⟨.add, [8, 7]⟩]
    discOk g [(6, 2)] = true ∧ compOk g [] = true ∧ revOk g ([(6, 2)].map (·.1) ++ []) 9 [7] = true := by
  decide

end recipient

/- ------------------------------------------------------------------------------------------------
   Part (iv): TYPES.  The nodes of a compiled graph have different types; a tape variable is uniform on
   ITS type only.  All values live in one group `R` (e.g. the product of all carrier groups), a type is
   a subgroup (`TagTypes`), and the statements below are about the TYPED tapes and secrets: the
   simulation of the discipline restricts to a bijection of the typed tapes.
   ------------------------------------------------------------------------------------------------ -/
section typed
open CCV.Pivot CCV.Mask
variable {R : Type} [AddCommGroup R]

/-- a type-respecting simulation restricts to a bijection of the typed tapes -/
theorem simT_bijective {X : Type} {T : Types R} {msgs : List (Msg X R)} {x x' : X}
    {σ τ : (Nat → R) → (Nat → R)} (S : SimT T msgs x x' σ τ) :
    Function.Bijective (fun (ρ : {ρ : Nat → R // TypedTape T ρ}) =>
      (⟨σ ρ.1, S.typedσ ρ.1 ρ.2⟩ : {ρ : Nat → R // TypedTape T ρ})) := by
  constructor
  · intro a b hab
    have h1 : σ a.1 = σ b.1 := congrArg Subtype.val hab
    have h2 : τ (σ a.1) = τ (σ b.1) := by rw [h1]
    rw [S.left, S.left] at h2
    exact Subtype.ext h2
  · intro b
    exact ⟨⟨τ b.1, S.typedτ b.1 b.2⟩, Subtype.ext (S.right b.1)⟩

/-- **Soundness of the mask discipline on typed tapes.**  As `pivot_discipline_hides`, for tape
    variables that range over their own type each: if every message takes its values in the type of its
    pivot, the view is identically distributed, under the uniform distribution on the TYPED tapes, for
    any two admissible secret vectors. -/
theorem typed_discipline_hides {X : Type} (T : Types R) (PX : X → Prop) (msgs : List (Msg X R))
    (h : Disc msgs) (hty : ∀ m ∈ msgs, MsgTyped T PX m) :
    Hides (fun (x : {x : X // PX x}) (ρ : {ρ : Nat → R // TypedTape T ρ}) =>
        (msgs.map (fun m => m.f x.1 ρ.1), offPivots msgs ρ.1))
      (fun _ => ()) := by
  intro x x' _
  obtain ⟨σ, τ, S⟩ := exists_sim_typed T PX msgs h hty x.1 x'.1 x.2 x'.2
  refine ⟨_, simT_bijective S, ?_⟩
  intro ρ
  refine Prod.ext ?_ ?_
  · exact List.map_congr_left (fun m hm => S.align ρ.1 m hm)
  · exact (offPivots_congr msgs ρ.1 (σ ρ.1) (fun v hv => S.fixσ ρ.1 v hv)).symm

/-- **Soundness of the checked certificate with types (non-recipient observer).**  `tys` tags every
    node of the exported graph with its type, `vty` every unknown tape variable.  If the checker accepts
    the certificate (`discOk`, `compOk`) AND the types (`tyOk`: `add`/`sub`/`nop` only between nodes of
    one type, each occurrence of a tape variable has the variable's type, each message has the type of
    its pivot), then for every semantics that respects the tags (`SemOK`: type soundness of the
    evaluator) the observer's view is identically distributed — under the uniform distribution on the
    tapes whose every coordinate lies in its own type — for all admissible values of the secrets. -/
theorem checked_graph_hides_typed (T : TagTypes R) (sem : Nat → List R → R) (own kn : Nat → R)
    (g : List Mask.Node) (tys vty : List Nat) (cert : Cert) (comp : List Nat)
    (h : discOk g cert = true) (hc : compOk g comp = true) (ht : tyOk g tys vty cert = true)
    (hsem : SemOK T sem own kn g tys) :
    Hides (fun (x : {x : Nat → R // SecOK T g tys x}) (ρ : {ρ : Nat → R // TypedTape (T.vars vty) ρ}) =>
        ((cert.map (toMsg sem own kn g)).map (fun m => m.f x.1 ρ.1),
         comp.map (fun m => (evalRun sem own kn x.1 ρ.1 g []).getD m 0),
         offPivots (cert.map (toMsg sem own kn g)) ρ.1))
      (fun _ => ()) := by
  intro x x' _
  obtain ⟨σ, τ, S⟩ := exists_sim_typed (T.vars vty) (SecOK T g tys) _ (discOk_disc sem own kn g cert h)
    (cert_msgs_typed T sem own kn g tys vty cert ht h hsem) x.1 x'.1 x.2 x'.2
  refine ⟨_, simT_bijective S, ?_⟩
  intro ρ
  refine Prod.ext ?_ (Prod.ext ?_ ?_)
  · exact List.map_congr_left (fun m hm => S.align ρ.1 m hm)
  · exact compOk_const sem own kn g comp hc x.1 x'.1 ρ.1 (σ ρ.1)
  · exact (offPivots_congr _ ρ.1 (σ ρ.1) (fun v hv => S.fixσ ρ.1 v hv)).symm

/-- **… and for an output recipient** (as `checked_graph_hides_recipient`, on typed tapes) -/
theorem checked_graph_hides_recipient_typed (T : TagTypes R) (sem : Nat → List R → R) (own kn : Nat → R)
    (g : List Mask.Node) (tys vty : List Nat) (cert : Cert) (comp revs : List Nat) (o : Nat)
    (h : discOk g cert = true) (hc : compOk g comp = true) (ht : tyOk g tys vty cert = true)
    (hsem : SemOK T sem own kn g tys)
    (hr : revOk g (cert.map (·.1) ++ comp) o revs = true)
    (hout : ∀ x ρ ρ', val sem own kn g o x ρ = val sem own kn g o x ρ') :
    Hides (fun (x : {x : Nat → R // SecOK T g tys x}) (ρ : {ρ : Nat → R // TypedTape (T.vars vty) ρ}) =>
        ((cert.map (toMsg sem own kn g)).map (fun m => m.f x.1 ρ.1),
         comp.map (fun m => val sem own kn g m x.1 ρ.1),
         revs.map (fun m => val sem own kn g m x.1 ρ.1),
         offPivots (cert.map (toMsg sem own kn g)) ρ.1))
      (fun x => val sem own kn g o x.1 (fun _ => 0)) := by
  intro x x' hx
  obtain ⟨σ, τ, S⟩ := exists_sim_typed (T.vars vty) (SecOK T g tys) _ (discOk_disc sem own kn g cert h)
    (cert_msgs_typed T sem own kn g tys vty cert ht h hsem) x.1 x'.1 x.2 x'.2
  refine ⟨_, simT_bijective S, ?_⟩
  intro ρ
  have e1 : (cert.map (toMsg sem own kn g)).map (fun m => m.f x.1 ρ.1)
      = (cert.map (toMsg sem own kn g)).map (fun m => m.f x'.1 (σ ρ.1)) :=
    List.map_congr_left (fun m hm => S.align ρ.1 m hm)
  have e2 := compOk_const sem own kn g comp hc x.1 x'.1 ρ.1 (σ ρ.1)
  simp only [revOk, Bool.and_eq_true, List.all_eq_true, decide_eq_true_eq, beq_iff_eq] at hr
  obtain ⟨⟨hw, ho⟩, hrev⟩ := hr
  have hmsg : ∀ j ∈ cert.map (·.1) ++ comp, val sem own kn g j x.1 ρ.1 = val sem own kn g j x'.1 (σ ρ.1) := by
    intro j hj
    rcases List.mem_append.mp hj with hj | hj
    · obtain ⟨mv, hmv, rfl⟩ := List.mem_map.mp hj
      exact S.align ρ.1 (toMsg sem own kn g mv) (List.mem_map.mpr ⟨mv, hmv, rfl⟩)
    · have := List.map_eq_map_iff.mp e2 j hj
      exact this
  refine Prod.ext e1 (Prod.ext e2 (Prod.ext ?_ ?_))
  · apply List.map_congr_left
    intro r hrm
    have hro := hrev r hrm
    have hs := rcls_sound sem own kn g (cert.map (·.1) ++ comp) r hw x.1 x'.1 ρ.1 (σ ρ.1) hmsg o ho
    rw [hro.2] at hs
    simp only [RRel] at hs
    have ho1 : val sem own kn g o x.1 ρ.1 = val sem own kn g o x'.1 (σ ρ.1) := by
      rw [hout x.1 ρ.1 (fun _ => 0), hout x'.1 (σ ρ.1) (fun _ => 0)]; exact hx
    have : val sem own kn g r x.1 ρ.1
        = val sem own kn g o x.1 ρ.1 - (val sem own kn g o x.1 ρ.1 - val sem own kn g r x.1 ρ.1) := by
      abel
    rw [this]
    have hs' : val sem own kn g o x.1 ρ.1 - val sem own kn g r x.1 ρ.1
        = val sem own kn g o x'.1 (σ ρ.1) - val sem own kn g r x'.1 (σ ρ.1) := hs
    rw [hs', ho1]; abel
  · exact (offPivots_congr _ ρ.1 (σ ρ.1) (fun v hv => S.fixσ ρ.1 v hv)).symm

/-- non-vacuity: two types inside ℤ × ℤ (type 0 = ℤ × 0, type 1 = 0 × ℤ).  Nodes: 0: secret x (type 0),
    1: tape variable 0 (type 0), 2: x + ρ₀ (message, type 0), 3: an operation that converts x to type 1,
    4: tape variable 1 (type 1), 5: conv x − ρ₁ (message, type 1).  The checker accepts discipline and
    types, and a semantics respecting the tags exists. -/
def twoTypes : TagTypes (Int × Int) where
  P := fun t a => if t = 0 then a.2 = 0 else a.1 = 0
  zero := by intro t; by_cases h : t = 0 <;> simp [h]
  add := by
    intro t a b ha hb
    by_cases h : t = 0
    · simp only [h, if_true] at *; simp [ha, hb]
    · simp only [h, if_false] at *; simp [ha, hb]
  neg := by
    intro t a ha
    by_cases h : t = 0
    · simp only [h, if_true] at *; simp [ha]
    · simp only [h, if_false] at *; simp [ha]

def gTwo : List Mask.Node :=
  [⟨.hid 0, []⟩, ⟨.tapeU 0, []⟩, ⟨.add, [0, 1]⟩, ⟨.op 0, [0]⟩, ⟨.tapeU 1, []⟩, ⟨.sub, [3, 4]⟩]

example : discOk gTwo [(5, 1), (2, 0)] = true ∧ compOk gTwo [] = true
    ∧ tyOk gTwo [0, 0, 0, 1, 1, 1] [0, 1] [(5, 1), (2, 0)] = true := by decide

example : SemOK twoTypes (fun _ args => ((0 : Int), (args.getD 0 0).1)) (fun _ => 0) (fun _ => 0) gTwo
    [0, 0, 0, 1, 1, 1] := by
  intro j n hn
  match j, hn with
  | 0, hn => simp [gTwo] at hn; subst hn; simp [LeafOK]
  | 1, hn => simp [gTwo] at hn; subst hn; simp [LeafOK]
  | 2, hn => simp [gTwo] at hn; subst hn; simp [LeafOK]
  | 3, hn => simp [gTwo] at hn; subst hn; simp [LeafOK, twoTypes]
  | 4, hn => simp [gTwo] at hn; subst hn; simp [LeafOK]
  | 5, hn => simp [gTwo] at hn; subst hn; simp [LeafOK]
  | (k + 6), hn => simp [gTwo] at hn

/-- a mistyped mask is rejected: message of type 1 "masked" by a variable of type 0 -/
example : tyOk [⟨.hid 0, []⟩, ⟨.tapeU 0, []⟩, ⟨.add, [0, 1]⟩] [1, 0, 1] [0] [(2, 0)] = false := by decide

end typed

/- ------------------------------------------------------------------------------------------------
   Part (v): the OPENED PERMUTATIONS of the sorting protocol (non-commutative masks).
   `RadixSortMPC` opens `σ ∘ π` to all parties, once per radix round and once at the end, π a fresh
   secret-shared random permutation each time.  In any group: if every opened value is `b · t` with a
   pivot `t` that `b` and all earlier openings are independent of, the joint distribution of all the
   openings does not depend on the secrets.  The per-configuration obligations
   CCV/Generated/C03Sort*.lean state `freshOk skeleton cert = true` for the protocol graph
   `RadixSortMPC::instantiate` builds NOW.
   ------------------------------------------------------------------------------------------------ -/
section shuffle
open CCV.Shuffle
variable {G X : Type} [Group G]

/-- the tape with the pivot coordinates blanked -/
def offPivotsMul (msgs : List (PivotMul.Msg X G)) (ρ : Nat → G) : Nat → G :=
  fun v => if ∃ m ∈ msgs, v = m.piv then 1 else ρ v

theorem offPivotsMul_congr (msgs : List (PivotMul.Msg X G)) (ρ ρ' : Nat → G)
    (h : ∀ v, (∀ m ∈ msgs, v ≠ m.piv) → ρ' v = ρ v) : offPivotsMul msgs ρ' = offPivotsMul msgs ρ := by
  funext v
  unfold offPivotsMul
  by_cases hv : ∃ m ∈ msgs, v = m.piv
  · simp [hv]
  · simp only [hv, if_false]
    exact h v (fun m hm e => hv ⟨m, hm, e⟩)

/-- **Soundness of the discipline in an arbitrary group** (right-multiplicative masks): identical
    distributions of all opened values (and of every non-pivot tape coordinate) for any two secrets. -/
theorem mul_discipline_hides (msgs : List (PivotMul.Msg X G)) (h : PivotMul.Disc msgs) :
    Hides (fun (x : X) (ρ : Nat → G) => (msgs.map (fun m => m.f x ρ), offPivotsMul msgs ρ))
      (fun _ => ()) := by
  intro x x' _
  obtain ⟨σ, τ, S⟩ := PivotMul.exists_sim msgs h x x'
  refine ⟨σ, ⟨Function.LeftInverse.injective S.left, Function.RightInverse.surjective S.right⟩, ?_⟩
  intro ρ
  refine Prod.ext ?_ ?_
  · exact List.map_congr_left (fun m hm => S.align ρ m hm)
  · exact (offPivotsMul_congr msgs ρ (σ ρ) (fun v hv => S.fixσ ρ v hv)).symm

/-- **Soundness of the checked sort skeleton.**  For an exported protocol graph `g` (any semantics of
    the sub-protocols, values in any group): if `freshOk` accepts — every `shuffle_and_reveal` node of
    the graph is certified, its mask is a fresh shared permutation that neither the shuffled value nor
    any earlier opening depends on — then all opened values together are identically distributed for
    all values of the protocol's inputs. -/
theorem checked_sort_skeleton_hides (sem : Nat → List G → G) (g : List Shuffle.Node) (cert : Shuffle.Cert)
    (h : freshOk g cert = true) :
    Hides (fun (x : Nat → G) (ρ : Nat → G) =>
        ((cert.map (Shuffle.toMsg sem g)).map (fun m => m.f x ρ),
         offPivotsMul (cert.map (Shuffle.toMsg sem g)) ρ))
      (fun _ => ()) :=
  mul_discipline_hides _ (freshOk_disc sem g cert h)

/-- non-vacuity: two radix rounds.  0: σ₀ (secret), 1: π₀, 2: open σ₀∘π₀, 3: σ₁ = f(opening, π₀)
    (`unshuffle` uses the OLD mask), 4: π₁, 5: open σ₁∘π₁.  Accepted. -/
example : freshOk [⟨.hid 0, []⟩, ⟨.mask 0, []⟩, ⟨.mul, [0, 1]⟩, ⟨.op 0, [2, 1]⟩, ⟨.mask 1, []⟩, ⟨.mul, [3, 4]⟩]
    [(5, 1), (2, 0)] = true := by decide

/-- the hoisted shuffle (one π for both rounds) is rejected -/
example : freshOk [⟨.hid 0, []⟩, ⟨.mask 0, []⟩, ⟨.mul, [0, 1]⟩, ⟨.op 0, [2, 1]⟩, ⟨.mul, [3, 1]⟩]
    [(4, 0), (2, 0)] = false := by decide

/-- … and it does leak: in the symmetric group on 3 letters (here: any group with a non-trivial
    element), the quotient of the two openings `(s₁·t)·(s₀·t)⁻¹ = s₁·s₀⁻¹` does not depend on the tape -/
example (s0 s1 t : G) : (s1 * t) * (s0 * t)⁻¹ = s1 * s0⁻¹ := by
  rw [mul_inv_rev, mul_assoc, mul_inv_cancel_left]

end shuffle

/-- non-vacuity: over ℤ/2 (bits) the input-sharing view of x = 0 and x = 1 has, for each value,
    exactly one tape producing it -/
example : Fintype.card {t : Fin 2 // (fun (x t : Fin 2) => x + (1 - t)) 0 t = 1}
        = Fintype.card {t : Fin 2 // (fun (x t : Fin 2) => x + (1 - t)) 1 t = 1} := by decide

end CCV.C03
