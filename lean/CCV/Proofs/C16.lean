import CCV.Lemmas.Compare
import CCV.Lemmas.CompareArr
/-
  C16 — comparison operations equal integer comparison.
  Property theorems only; helper lemmas live in CCV/Lemmas/Compare.lean.
  Model: CCV/Model/Compare.lean (`compare`, `minBits`, `maxBits` are what the driver executes).
  Bit strings are `List Bool`, index 0 least significant; `toBits w n` = the `w` low bits of `n`;
  `toInt w n` = the two's-complement integer of the `w`-bit pattern `n`;
  `Op.spec` = the six relations on integers.

  Array layer (second half): model CCV/Model/CompareArr.lean (`cmpArr`, `minArr`, `maxArr` are what
  the driver executes for the `arr` requests), lemmas in CCV/Lemmas/CompareArr.lean.  A bit array of
  shape `r ++ [w]` is the row-major list of its bits; `strAt r w xs K` is the bit string stored at
  multi-index `K` (bit `k` = entry `K ++ [k]`); `bcIdx r J` is the NumPy broadcast position of the
  result index `J` in an operand of leading shape `r` (last `r.length` digits of `J`, digit 0 on
  axes of size 1); `TI.broadcastShapes` is the model of `broadcast_shapes` (broadcast.rs) that type
  inference uses; `flat J rr` is the row-major position of `J`.
-/
namespace CCV.C16
open CCV CCV.Compare

/-- **`join` is associative** (all 64 states). -/
theorem join_assoc (x y z : St) : join (join x y) z = join x (join y z) :=
  Compare.join_assoc x y z

example : join (join ⟨true, true⟩ ⟨false, false⟩) ⟨true, true⟩ = ⟨false, false⟩ := by decide

/-- **The shrink tree equals the fold, for every width ≥ 1.**  `build` (the odd/even `shrink`
    levels of `build_comparison_graph`, remainders collected and joined low → high) returns exactly
    the left fold of `join` over the per-position states, lowest position first. -/
theorem shrinkTree_eq_fold (x : St) (xs : List St) : build (x :: xs) = some (xs.foldl join x) := by
  rw [build_eq_foldJ, foldl_join_eq]; rfl

/-- non-vacuity: width 7 (odd, then 3 odd, then 1): three remainders -/
example : build ((toBits 7 77).zipWith fromAB (toBits 7 93)) = some ⟨false, false⟩ := by decide

/-- **Unsigned comparisons on bit strings of any equal length ≥ 1**: each of the six operations
    returns the comparison of the encoded naturals. -/
theorem compare_unsigned_bits (op : Op) (a b : List Bool) (h : a.length = b.length) (hne : a ≠ []) :
    compare op false a b = some (op.spec (ofBits a) (ofBits b)) := by
  obtain ⟨s, hs, hg⟩ := foldJ_good a b h hne
  simp [Compare.compare, h, build_eq_foldJ, hs, post_of_good op s _ _ hg]

/-- **Signed comparisons on bit strings of any equal length ≥ 2** (the guard the code enforces in
    `validate_signed_arguments`): the result is the comparison of the two's-complement values. -/
theorem compare_signed_bits (op : Op) (a b : List Bool) (h : a.length = b.length) (h2 : 2 ≤ a.length) :
    compare op true a b = some (op.spec (sval a) (sval b)) := by
  have hna : a ≠ [] := by intro e; simp [e] at h2
  have hnb : b ≠ [] := by
    intro e; rw [e] at h; have : a.length = 0 := by simpa using h
    omega
  have hl : (flipMsb a).length = (flipMsb b).length := by
    rw [flipMsb_length a hna, flipMsb_length b hnb, h]
  have hnf : flipMsb a ≠ [] := by
    intro e; have := flipMsb_length a hna; rw [e] at this; simp at this; omega
  obtain ⟨s, hs, hg⟩ := foldJ_good (flipMsb a) (flipMsb b) hl hnf
  rw [ofBits_flipMsb a hna, ofBits_flipMsb b hnb, ← h] at hg
  have hg' := good_shift s _ _ _ hg
  have hlt : ¬ a.length < 2 := by omega
  simp [Compare.compare, h, build_eq_foldJ, hs, post_of_good op s _ _ hg']
  omega

/-- the code rejects signed comparison of strings shorter than 2 bits -/
theorem compare_signed_guard (op : Op) (a b : List Bool) (h : a.length < 2) :
    compare op true a b = none := by
  simp [Compare.compare, h]

/-- **Unsigned, all widths `w ≥ 1`, all `a b < 2^w`**: the operation applied to the `w`-bit
    encodings returns exactly `a op b`. -/
theorem compare_unsigned (op : Op) (w a b : Nat) (hw : 1 ≤ w) (ha : a < 2 ^ w) (hb : b < 2 ^ w) :
    compare op false (toBits w a) (toBits w b) = some (op.spec a b) := by
  have hne : toBits w a ≠ [] := by
    intro e; have := toBits_length w a; rw [e] at this; simp at this; omega
  rw [compare_unsigned_bits op _ _ (by simp [toBits_length]) hne, ofBits_toBits w a ha, ofBits_toBits w b hb]

example : compare .lt false (toBits 5 15) (toBits 5 20) = some true := by decide
example : compare .ge false (toBits 1 0) (toBits 1 1) = some false := by decide

/-- **Signed, all widths `w ≥ 2`, all `a b < 2^w`**: the operation returns the comparison of the
    two's-complement integers denoted by the `w`-bit patterns. -/
theorem compare_signed (op : Op) (w a b : Nat) (hw : 2 ≤ w) (ha : a < 2 ^ w) (hb : b < 2 ^ w) :
    compare op true (toBits w a) (toBits w b) = some (op.spec (toInt w a) (toInt w b)) := by
  rw [compare_signed_bits op _ _ (by simp [toBits_length]) (by simp [toBits_length]; exact hw),
    sval_toBits w a (by omega) ha, sval_toBits w b (by omega) hb]

/-- 3 (011) > −4 (100) as 3-bit signed numbers, although 3 < 4 unsigned -/
example : compare .gt true (toBits 3 3) (toBits 3 4) = some true ∧ toInt 3 4 = -4
    ∧ compare .gt false (toBits 3 3) (toBits 3 4) = some false := by decide

/-- **Min / Max on bit strings** (`Mux(GreaterThan(a,b), …)`): the result is the operand whose
    encoded value is smaller / larger (`a` when equal — then both are the same string). -/
theorem min_unsigned_bits (a b : List Bool) (h : a.length = b.length) (hne : a ≠ []) :
    minBits false a b = some (if ofBits b < ofBits a then b else a) := by
  simp only [minBits, compare_unsigned_bits .gt a b h hne, Op.spec, Option.map_some]
  by_cases hc : (ofBits b : Int) < ofBits a
  · simp [hc, zipWith_mux_true b a h.symm, Int.ofNat_lt.mp hc]
  · simp [hc, zipWith_mux_false b a h.symm, show ¬ ofBits b < ofBits a from fun x => hc (Int.ofNat_lt.mpr x)]

theorem max_unsigned_bits (a b : List Bool) (h : a.length = b.length) (hne : a ≠ []) :
    maxBits false a b = some (if ofBits b < ofBits a then a else b) := by
  simp only [maxBits, compare_unsigned_bits .gt a b h hne, Op.spec, Option.map_some]
  by_cases hc : (ofBits b : Int) < ofBits a
  · simp [hc, zipWith_mux_true a b h, Int.ofNat_lt.mp hc]
  · simp [hc, zipWith_mux_false a b h, show ¬ ofBits b < ofBits a from fun x => hc (Int.ofNat_lt.mpr x)]

theorem min_signed_bits (a b : List Bool) (h : a.length = b.length) (h2 : 2 ≤ a.length) :
    minBits true a b = some (if sval b < sval a then b else a) := by
  simp only [minBits, compare_signed_bits .gt a b h h2, Op.spec, Option.map_some]
  by_cases hc : sval b < sval a
  · simp [hc, zipWith_mux_true b a h.symm]
  · simp [hc, zipWith_mux_false b a h.symm]

theorem max_signed_bits (a b : List Bool) (h : a.length = b.length) (h2 : 2 ≤ a.length) :
    maxBits true a b = some (if sval b < sval a then a else b) := by
  simp only [maxBits, compare_signed_bits .gt a b h h2, Op.spec, Option.map_some]
  by_cases hc : sval b < sval a
  · simp [hc, zipWith_mux_true a b h]
  · simp [hc, zipWith_mux_false a b h]

/-- **Min / Max, unsigned, all widths `w ≥ 1`**: the result encodes `min a b` / `max a b`. -/
theorem min_unsigned (w a b : Nat) (hw : 1 ≤ w) (ha : a < 2 ^ w) (hb : b < 2 ^ w) :
    minBits false (toBits w a) (toBits w b) = some (toBits w (min a b)) := by
  have hne : toBits w a ≠ [] := by
    intro e; have := toBits_length w a; rw [e] at this; simp at this; omega
  rw [min_unsigned_bits _ _ (by simp [toBits_length]) hne, ofBits_toBits w a ha, ofBits_toBits w b hb]
  by_cases hc : b < a
  · simp [hc, Nat.min_eq_right (Nat.le_of_lt hc)]
  · simp [hc, Nat.min_eq_left (Nat.le_of_not_lt hc)]

theorem max_unsigned (w a b : Nat) (hw : 1 ≤ w) (ha : a < 2 ^ w) (hb : b < 2 ^ w) :
    maxBits false (toBits w a) (toBits w b) = some (toBits w (max a b)) := by
  have hne : toBits w a ≠ [] := by
    intro e; have := toBits_length w a; rw [e] at this; simp at this; omega
  rw [max_unsigned_bits _ _ (by simp [toBits_length]) hne, ofBits_toBits w a ha, ofBits_toBits w b hb]
  by_cases hc : b < a
  · simp [hc, Nat.max_eq_left (Nat.le_of_lt hc)]
  · simp [hc, Nat.max_eq_right (Nat.le_of_not_lt hc)]

/-- **Min / Max, signed, all widths `w ≥ 2`**: the result is the encoding of the operand with the
    smaller / larger two's-complement value. -/
theorem min_signed (w a b : Nat) (hw : 2 ≤ w) (ha : a < 2 ^ w) (hb : b < 2 ^ w) :
    minBits true (toBits w a) (toBits w b) = some (toBits w (if toInt w b < toInt w a then b else a)) := by
  rw [min_signed_bits _ _ (by simp [toBits_length]) (by simp [toBits_length]; exact hw),
    sval_toBits w a (by omega) ha, sval_toBits w b (by omega) hb]
  split <;> rfl

theorem max_signed (w a b : Nat) (hw : 2 ≤ w) (ha : a < 2 ^ w) (hb : b < 2 ^ w) :
    maxBits true (toBits w a) (toBits w b) = some (toBits w (if toInt w b < toInt w a then a else b)) := by
  rw [max_signed_bits _ _ (by simp [toBits_length]) (by simp [toBits_length]; exact hw),
    sval_toBits w a (by omega) ha, sval_toBits w b (by omega) hb]
  split <;> rfl

/-- min(3, −4) = −4 (pattern 4), max unsigned (3, 4) = 4 on 3 bits -/
example : (minBits true (toBits 3 3) (toBits 3 4)).map ofBits = some 4
    ∧ (maxBits false (toBits 3 3) (toBits 3 4)).map ofBits = some 4
    ∧ (maxBits true (toBits 3 3) (toBits 3 4)).map ofBits = some 3 := by decide

/-! ## whole arrays: shapes, broadcasting, `pull_out_bits`, `normalize_cmp`, `Mux` -/

open CCV.Shape CCV.CompareArr

/-- `expand_dims(x, 0..k)` (what `expand_to_same_dims` calls) prepends `k` axes of size 1. -/
theorem expand_dims_front (k : Nat) (s : List Nat) :
    expandDims s (List.range k) = List.replicate k 1 ++ s := expandDims_range k s

example : expandToSameDims [2, 3, 64] [3, 64] = ([2, 3, 64], [1, 3, 64]) := by decide

/-- **`pull_out_bits`** moves the bit axis first: the shape becomes `w :: r` and entry `(k, J)` of the
    result is entry `(J, k)` of the operand, for every shape (all dimensions positive). -/
theorem pull_out_bits_spec (r : List Nat) (w : Nat) (xs : List Nat) (hlen : xs.length = prod (r ++ [w]))
    (hpos : pos (r ++ [w])) :
    (pullOutBits (r ++ [w]) xs).1 = w :: r ∧
      ∀ J k, validIdx J r → k < w →
        (pullOutBits (r ++ [w]) xs).2.getD (flat (k :: J) (w :: r)) 0
          = xs.getD (flat (J ++ [k]) (r ++ [w])) 0 :=
  ⟨pullOutBits_shape r w xs, fun J k hJ hk => pullOutBits_getD r w xs hlen hpos J hJ k hk⟩

example : pullOutBits [2, 3] [1, 0, 1, 0, 1, 1] = ([3, 2], [1, 0, 0, 1, 1, 1]) := by decide

/-- **`put_in_bits`** (the inverse movement; used by the sibling bit operations, not by the comparison
    graphs) moves the first axis last: shape `r ++ [w]`, entry `(J, k)` of the result is entry
    `(k, J)` of the operand. -/
theorem put_in_bits_spec (r : List Nat) (w : Nat) (xs : List Nat) (hlen : xs.length = prod (w :: r))
    (hpos : pos (w :: r)) :
    (putInBits (w :: r) xs).1 = r ++ [w] ∧
      ∀ J k, validIdx J r → k < w →
        (putInBits (w :: r) xs).2.getD (flat (J ++ [k]) (r ++ [w])) 0
          = xs.getD (flat (k :: J) (w :: r)) 0 :=
  ⟨putInBits_shape r w xs, fun J k hJ hk => putInBits_getD r w xs hlen hpos J hJ k hk⟩

/-- `put_in_bits ∘ pull_out_bits` gives back the shape and every entry of the operand. -/
theorem put_in_bits_pull_out_bits (r : List Nat) (w : Nat) (xs : List Nat)
    (hlen : xs.length = prod (r ++ [w])) (hpos : pos (r ++ [w])) :
    (putInBits (pullOutBits (r ++ [w]) xs).1 (pullOutBits (r ++ [w]) xs).2).1 = r ++ [w] ∧
      ∀ J k, validIdx J r → k < w →
        (putInBits (pullOutBits (r ++ [w]) xs).1 (pullOutBits (r ++ [w]) xs).2).2.getD
            (flat (J ++ [k]) (r ++ [w])) 0
          = xs.getD (flat (J ++ [k]) (r ++ [w])) 0 := by
  have hl : (pullOutBits (r ++ [w]) xs).2.length = prod (w :: r) := by
    rw [pullOutBits_length, hlen, prod_append]
    simp [prod, Nat.mul_comm]
  have hp : pos (w :: r) := by
    intro d hd
    apply hpos d
    rcases List.mem_cons.mp hd with h | h
    · simp [h]
    · exact List.mem_append_left _ h
  rw [pullOutBits_shape]
  refine ⟨putInBits_shape r w _, fun J k hJ hk => ?_⟩
  rw [putInBits_getD r w _ hl hp J hJ k hk]
  exact pullOutBits_getD r w xs hlen hpos J hJ k hk

example : putInBits [3, 2] [1, 0, 0, 1, 1, 1] = ([2, 3], [1, 0, 1, 0, 1, 1]) := by decide

/-- **Result shape of the six comparisons** on operands of shapes `ra ++ [w]`, `rb ++ [w]`
    (`w ≥ 1`, `w ≥ 2` when signed, positive dimensions): if the shapes without the bit axis broadcast
    to `rr`, the operation is accepted and the result has shape `rr` (`[]` = scalar) with `prod rr`
    entries, each 0 or 1; if they do not broadcast the operation is rejected. -/
theorem cmp_array_shape (op : Op) (signed : Bool) (ra rb : List Nat) (w : Nat) (xs ys : List Nat)
    (hw : 0 < w) (hs : signed = true → 2 ≤ w) (hpa : pos ra) (hpb : pos rb)
    (hla : xs.length = prod (ra ++ [w])) (hlb : ys.length = prod (rb ++ [w])) :
    (∀ rr, TI.broadcastShapes ra rb = .ok rr →
      ∃ out, cmpArr op signed (ra ++ [w]) xs (rb ++ [w]) ys = .ok (rr, out) ∧ out.length = prod rr ∧
        ∀ x ∈ out, x ≤ 1) ∧
    (∀ e, TI.broadcastShapes ra rb = .error e →
      ∃ e', cmpArr op signed (ra ++ [w]) xs (rb ++ [w]) ys = .error e') := by
  refine ⟨fun rr h => ?_, fun e h => cmpArr_err op signed ra rb w xs ys e h⟩
  obtain ⟨out, h1, h2, _, h4⟩ := cmpArr_spec op signed ra rb rr w xs ys hw hs hpa hpb hla hlb h
  exact ⟨out, h1, h2, h4⟩

/-- shapes `[2,1,3]` and `[2,3]` (bit axis last, `w = 3`): result shape `[2,2]`; `[2,3]`, `[3,3]`: rejected -/
example : TI.broadcastShapes [2, 1] [2] = .ok [2, 2] ∧
    cmpArr .lt false [2, 1, 3] [1, 0, 1, 0, 1, 1] [2, 3] [0, 1, 1, 1, 1, 1] = .ok ([2, 2], [1, 1, 0, 1]) ∧
    (∃ e, cmpArr .lt false [2, 3] [1, 0, 1, 0, 1, 1] [3, 3] [0, 1, 1, 1, 1, 1, 0, 0, 0] = .error e) :=
  ⟨by decide, by decide, ⟨_, rfl⟩⟩

/-- **Element-wise statement, any shapes that broadcast, any width**: for every multi-index `J` of the
    result, the output entry at `J` is the single-pair operation `compare` (the subject of the
    theorems above) applied to the bit strings found at the broadcast positions of `J` in the two
    operands. -/
theorem cmp_array_elem (op : Op) (signed : Bool) (ra rb rr : List Nat) (w : Nat) (xs ys : List Nat)
    (hw : 0 < w) (hs : signed = true → 2 ≤ w) (hpa : pos ra) (hpb : pos rb)
    (hla : xs.length = prod (ra ++ [w])) (hlb : ys.length = prod (rb ++ [w]))
    (hbc : TI.broadcastShapes ra rb = .ok rr) :
    ∃ out, cmpArr op signed (ra ++ [w]) xs (rb ++ [w]) ys = .ok (rr, out) ∧
      ∀ J, validIdx J rr → ∃ c,
        compare op signed (strAt ra w xs (bcIdx ra J)) (strAt rb w ys (bcIdx rb J)) = some c ∧
        out.getD (flat J rr) 0 = if c then 1 else 0 := by
  obtain ⟨out, h1, _, h3, _⟩ := cmpArr_spec op signed ra rb rr w xs ys hw hs hpa hpb hla hlb hbc
  refine ⟨out, h1, fun J hJ => ?_⟩
  obtain ⟨c, hc⟩ := compare_some op signed (strAt ra w xs (bcIdx ra J)) (strAt rb w ys (bcIdx rb J))
    (by simp [strAt_length]) (by simp [strAt_length]; omega) (by simpa [strAt_length] using hs)
  refine ⟨c, hc, ?_⟩
  rw [h3 J hJ, hc]
  cases c <;> rfl

/-- **Unsigned comparisons on whole arrays**: entry `J` of the result is 1 iff the naturals encoded by
    the operand strings at the broadcast positions of `J` are in the relation. -/
theorem cmp_array_unsigned (op : Op) (ra rb rr : List Nat) (w : Nat) (xs ys : List Nat)
    (hw : 0 < w) (hpa : pos ra) (hpb : pos rb)
    (hla : xs.length = prod (ra ++ [w])) (hlb : ys.length = prod (rb ++ [w]))
    (hbc : TI.broadcastShapes ra rb = .ok rr) :
    ∃ out, cmpArr op false (ra ++ [w]) xs (rb ++ [w]) ys = .ok (rr, out) ∧
      ∀ J, validIdx J rr → out.getD (flat J rr) 0 =
        if op.spec (ofBits (strAt ra w xs (bcIdx ra J))) (ofBits (strAt rb w ys (bcIdx rb J))) then 1 else 0 := by
  obtain ⟨out, h1, h2⟩ := cmp_array_elem op false ra rb rr w xs ys hw (by simp) hpa hpb hla hlb hbc
  refine ⟨out, h1, fun J hJ => ?_⟩
  obtain ⟨c, hc, ho⟩ := h2 J hJ
  have hne : strAt ra w xs (bcIdx ra J) ≠ [] := by
    intro e; have := strAt_length ra w xs (bcIdx ra J); rw [e] at this; simp at this; omega
  rw [compare_unsigned_bits op _ _ (by simp [strAt_length]) hne] at hc
  injection hc with hc
  rw [ho, hc]

/-- **Signed comparisons on whole arrays** (`w ≥ 2`): entry `J` is 1 iff the two's-complement values of
    the operand strings at the broadcast positions of `J` are in the relation. -/
theorem cmp_array_signed (op : Op) (ra rb rr : List Nat) (w : Nat) (xs ys : List Nat)
    (hw : 2 ≤ w) (hpa : pos ra) (hpb : pos rb)
    (hla : xs.length = prod (ra ++ [w])) (hlb : ys.length = prod (rb ++ [w]))
    (hbc : TI.broadcastShapes ra rb = .ok rr) :
    ∃ out, cmpArr op true (ra ++ [w]) xs (rb ++ [w]) ys = .ok (rr, out) ∧
      ∀ J, validIdx J rr → out.getD (flat J rr) 0 =
        if op.spec (sval (strAt ra w xs (bcIdx ra J))) (sval (strAt rb w ys (bcIdx rb J))) then 1 else 0 := by
  obtain ⟨out, h1, h2⟩ := cmp_array_elem op true ra rb rr w xs ys (by omega) (fun _ => hw) hpa hpb hla hlb hbc
  refine ⟨out, h1, fun J hJ => ?_⟩
  obtain ⟨c, hc, ho⟩ := h2 J hJ
  rw [compare_signed_bits op _ _ (by simp [strAt_length]) (by simp [strAt_length]; exact hw)] at hc
  injection hc with hc
  rw [ho, hc]

/-- `[2,1,3] × [2,3]`, signed `<`: a = (−3, −2) (patterns 5, 6), b = (−2, −1) (patterns 6, 7);
    result `[[−3<−2, −3<−1], [−2<−2, −2<−1]]`; the operand positions of result index `[1,0]` -/
example : cmpArr .lt true [2, 1, 3] [1, 0, 1, 0, 1, 1] [2, 3] [0, 1, 1, 1, 1, 1] = .ok ([2, 2], [1, 1, 0, 1]) ∧
    validIdx [1, 0] [2, 2] ∧ bcIdx [2, 1] [1, 0] = [1, 0] ∧ bcIdx [2] [1, 0] = [0] ∧
    sval (strAt [2, 1] 3 [1, 0, 1, 0, 1, 1] [1, 0]) = -2 ∧ sval (strAt [2] 3 [0, 1, 1, 1, 1, 1] [0]) = -2 :=
  ⟨by decide, by simp [validIdx], by decide, by decide, by decide, by decide⟩

/-- **Min / Max on whole arrays** (`normalize_cmp`, then the three broadcasting operations of `Mux`):
    accepted with shape `rr ++ [w]`, and the output bit string at every result index `J` is the
    single-pair `minBits` / `maxBits` of the operand strings at the broadcast positions of `J`
    (operands are bit arrays: entries 0 or 1). -/
theorem min_array_elem (signed : Bool) (ra rb rr : List Nat) (w : Nat) (xs ys : List Nat)
    (hw : 0 < w) (hs : signed = true → 2 ≤ w) (hpa : pos ra) (hpb : pos rb)
    (hla : xs.length = prod (ra ++ [w])) (hlb : ys.length = prod (rb ++ [w]))
    (hxa : ∀ x ∈ xs, x ≤ 1) (hxb : ∀ x ∈ ys, x ≤ 1)
    (hbc : TI.broadcastShapes ra rb = .ok rr) :
    ∃ out, minArr signed (ra ++ [w]) xs (rb ++ [w]) ys = .ok (rr ++ [w], out) ∧
      out.length = prod (rr ++ [w]) ∧
      ∀ J, validIdx J rr →
        minBits signed (strAt ra w xs (bcIdx ra J)) (strAt rb w ys (bcIdx rb J)) = some (strAt rr w out J) :=
  minArr_spec signed ra rb rr w xs ys hw hs hpa hpb hla hlb hxa hxb hbc

theorem max_array_elem (signed : Bool) (ra rb rr : List Nat) (w : Nat) (xs ys : List Nat)
    (hw : 0 < w) (hs : signed = true → 2 ≤ w) (hpa : pos ra) (hpb : pos rb)
    (hla : xs.length = prod (ra ++ [w])) (hlb : ys.length = prod (rb ++ [w]))
    (hxa : ∀ x ∈ xs, x ≤ 1) (hxb : ∀ x ∈ ys, x ≤ 1)
    (hbc : TI.broadcastShapes ra rb = .ok rr) :
    ∃ out, maxArr signed (ra ++ [w]) xs (rb ++ [w]) ys = .ok (rr ++ [w], out) ∧
      out.length = prod (rr ++ [w]) ∧
      ∀ J, validIdx J rr →
        maxBits signed (strAt ra w xs (bcIdx ra J)) (strAt rb w ys (bcIdx rb J)) = some (strAt rr w out J) :=
  maxArr_spec signed ra rb rr w xs ys hw hs hpa hpb hla hlb hxa hxb hbc

/-- **Min / Max on whole arrays, unsigned**: the output string at `J` is the operand string (at the
    broadcast position of `J`) with the smaller / larger encoded natural. -/
theorem min_max_array_unsigned (ra rb rr : List Nat) (w : Nat) (xs ys : List Nat)
    (hw : 0 < w) (hpa : pos ra) (hpb : pos rb)
    (hla : xs.length = prod (ra ++ [w])) (hlb : ys.length = prod (rb ++ [w]))
    (hxa : ∀ x ∈ xs, x ≤ 1) (hxb : ∀ x ∈ ys, x ≤ 1)
    (hbc : TI.broadcastShapes ra rb = .ok rr) :
    ∃ omin omax, minArr false (ra ++ [w]) xs (rb ++ [w]) ys = .ok (rr ++ [w], omin) ∧
      maxArr false (ra ++ [w]) xs (rb ++ [w]) ys = .ok (rr ++ [w], omax) ∧
      ∀ J, validIdx J rr →
        let A := strAt ra w xs (bcIdx ra J)
        let B := strAt rb w ys (bcIdx rb J)
        strAt rr w omin J = (if ofBits B < ofBits A then B else A) ∧
        strAt rr w omax J = (if ofBits B < ofBits A then A else B) := by
  obtain ⟨omin, h1, _, h2⟩ := minArr_spec false ra rb rr w xs ys hw (by simp) hpa hpb hla hlb hxa hxb hbc
  obtain ⟨omax, h3, _, h4⟩ := maxArr_spec false ra rb rr w xs ys hw (by simp) hpa hpb hla hlb hxa hxb hbc
  refine ⟨omin, omax, h1, h3, fun J hJ => ?_⟩
  have hne : strAt ra w xs (bcIdx ra J) ≠ [] := by
    intro e; have := strAt_length ra w xs (bcIdx ra J); rw [e] at this; simp at this; omega
  have hl : (strAt ra w xs (bcIdx ra J)).length = (strAt rb w ys (bcIdx rb J)).length := by
    simp [strAt_length]
  have e1 := h2 J hJ
  have e2 := h4 J hJ
  rw [min_unsigned_bits _ _ hl hne] at e1
  rw [max_unsigned_bits _ _ hl hne] at e2
  injection e1 with e1
  injection e2 with e2
  exact ⟨e1.symm, e2.symm⟩

/-- **Min / Max on whole arrays, signed** (`w ≥ 2`): the operand string with the smaller / larger
    two's-complement value. -/
theorem min_max_array_signed (ra rb rr : List Nat) (w : Nat) (xs ys : List Nat)
    (hw : 2 ≤ w) (hpa : pos ra) (hpb : pos rb)
    (hla : xs.length = prod (ra ++ [w])) (hlb : ys.length = prod (rb ++ [w]))
    (hxa : ∀ x ∈ xs, x ≤ 1) (hxb : ∀ x ∈ ys, x ≤ 1)
    (hbc : TI.broadcastShapes ra rb = .ok rr) :
    ∃ omin omax, minArr true (ra ++ [w]) xs (rb ++ [w]) ys = .ok (rr ++ [w], omin) ∧
      maxArr true (ra ++ [w]) xs (rb ++ [w]) ys = .ok (rr ++ [w], omax) ∧
      ∀ J, validIdx J rr →
        let A := strAt ra w xs (bcIdx ra J)
        let B := strAt rb w ys (bcIdx rb J)
        strAt rr w omin J = (if sval B < sval A then B else A) ∧
        strAt rr w omax J = (if sval B < sval A then A else B) := by
  obtain ⟨omin, h1, _, h2⟩ := minArr_spec true ra rb rr w xs ys (by omega) (fun _ => hw) hpa hpb hla hlb hxa hxb hbc
  obtain ⟨omax, h3, _, h4⟩ := maxArr_spec true ra rb rr w xs ys (by omega) (fun _ => hw) hpa hpb hla hlb hxa hxb hbc
  refine ⟨omin, omax, h1, h3, fun J hJ => ?_⟩
  have hl : (strAt ra w xs (bcIdx ra J)).length = (strAt rb w ys (bcIdx rb J)).length := by
    simp [strAt_length]
  have h2' : 2 ≤ (strAt ra w xs (bcIdx ra J)).length := by simp [strAt_length]; exact hw
  have e1 := h2 J hJ
  have e2 := h4 J hJ
  rw [min_signed_bits _ _ hl h2'] at e1
  rw [max_signed_bits _ _ hl h2'] at e2
  injection e1 with e1
  injection e2 with e2
  exact ⟨e1.symm, e2.symm⟩

/-- `[2,1,3] × [2,3]`: min / max of a = (5, 6) against b = (6, 7) unsigned, shape `[2,2,3]`;
    signed the same patterns are a = (−3, −2), b = (−2, −1) -/
example : minArr false [2, 1, 3] [1, 0, 1, 0, 1, 1] [2, 3] [0, 1, 1, 1, 1, 1]
      = .ok ([2, 2, 3], [1, 0, 1, 1, 0, 1, 0, 1, 1, 0, 1, 1]) ∧
    maxArr true [2, 1, 3] [1, 0, 1, 0, 1, 1] [2, 3] [0, 1, 1, 1, 1, 1]
      = .ok ([2, 2, 3], [0, 1, 1, 1, 1, 1, 0, 1, 1, 1, 1, 1]) ∧
    strAt [2, 2] 3 [1, 0, 1, 1, 0, 1, 0, 1, 1, 0, 1, 1] [1, 0] = [false, true, true] := by decide

end CCV.C16
