import CCV.Lemmas.Compare
/-
  C16 — comparison operations equal integer comparison.
  Property theorems only; helper lemmas live in CCV/Lemmas/Compare.lean.
  Model: CCV/Model/Compare.lean (`compare`, `minBits`, `maxBits` are what the driver executes).
  Bit strings are `List Bool`, index 0 least significant; `toBits w n` = the `w` low bits of `n`;
  `toInt w n` = the two's-complement integer of the `w`-bit pattern `n`;
  `Op.spec` = the six relations on integers.
-/
namespace CCV.C16
open CCV CCV.Compare

/-- **`join` is associative** (all 64 states). -/
theorem join_assoc (x y z : St) : join (join x y) z = join x (join y z) :=
  Compare.join_assoc x y z

example : join (join ⟨true, true⟩ ⟨false, false⟩) ⟨true, true⟩ = ⟨false, false⟩ := by decide

/-- **The shrink tree equals the fold, for every width ≥ 1.**  `build` (the odd/even `shrink`
    levels of `build_comparison_graph`, remainders collected and joined low → high) returns exactly
    the left fold of `join` over the per-position states, lowest position first. -/
theorem shrinkTree_eq_fold (x : St) (xs : List St) : build (x :: xs) = some (xs.foldl join x) := by
  rw [build_eq_foldJ, foldl_join_eq]; rfl

/-- non-vacuity: width 7 (odd, then 3 odd, then 1): three remainders -/
example : build ((toBits 7 77).zipWith fromAB (toBits 7 93)) = some ⟨false, false⟩ := by decide

/-- **Unsigned comparisons on bit strings of any equal length ≥ 1**: each of the six operations
    returns the comparison of the encoded naturals. -/
theorem compare_unsigned_bits (op : Op) (a b : List Bool) (h : a.length = b.length) (hne : a ≠ []) :
    compare op false a b = some (op.spec (ofBits a) (ofBits b)) := by
  obtain ⟨s, hs, hg⟩ := foldJ_good a b h hne
  simp [Compare.compare, h, build_eq_foldJ, hs, post_of_good op s _ _ hg]

/-- **Signed comparisons on bit strings of any equal length ≥ 2** (the guard the code enforces in
    `validate_signed_arguments`): the result is the comparison of the two's-complement values. -/
theorem compare_signed_bits (op : Op) (a b : List Bool) (h : a.length = b.length) (h2 : 2 ≤ a.length) :
    compare op true a b = some (op.spec (sval a) (sval b)) := by
  have hna : a ≠ [] := by intro e; simp [e] at h2
  have hnb : b ≠ [] := by
    intro e; rw [e] at h; have : a.length = 0 := by simpa using h
    omega
  have hl : (flipMsb a).length = (flipMsb b).length := by
    rw [flipMsb_length a hna, flipMsb_length b hnb, h]
  have hnf : flipMsb a ≠ [] := by
    intro e; have := flipMsb_length a hna; rw [e] at this; simp at this; omega
  obtain ⟨s, hs, hg⟩ := foldJ_good (flipMsb a) (flipMsb b) hl hnf
  rw [ofBits_flipMsb a hna, ofBits_flipMsb b hnb, ← h] at hg
  have hg' := good_shift s _ _ _ hg
  have hlt : ¬ a.length < 2 := by omega
  simp [Compare.compare, h, build_eq_foldJ, hs, post_of_good op s _ _ hg']
  omega

/-- the code rejects signed comparison of strings shorter than 2 bits -/
theorem compare_signed_guard (op : Op) (a b : List Bool) (h : a.length < 2) :
    compare op true a b = none := by
  simp [Compare.compare, h]

/-- **Unsigned, all widths `w ≥ 1`, all `a b < 2^w`**: the operation applied to the `w`-bit
    encodings returns exactly `a op b`. -/
theorem compare_unsigned (op : Op) (w a b : Nat) (hw : 1 ≤ w) (ha : a < 2 ^ w) (hb : b < 2 ^ w) :
    compare op false (toBits w a) (toBits w b) = some (op.spec a b) := by
  have hne : toBits w a ≠ [] := by
    intro e; have := toBits_length w a; rw [e] at this; simp at this; omega
  rw [compare_unsigned_bits op _ _ (by simp [toBits_length]) hne, ofBits_toBits w a ha, ofBits_toBits w b hb]

example : compare .lt false (toBits 5 15) (toBits 5 20) = some true := by decide
example : compare .ge false (toBits 1 0) (toBits 1 1) = some false := by decide

/-- **Signed, all widths `w ≥ 2`, all `a b < 2^w`**: the operation returns the comparison of the
    two's-complement integers denoted by the `w`-bit patterns. -/
theorem compare_signed (op : Op) (w a b : Nat) (hw : 2 ≤ w) (ha : a < 2 ^ w) (hb : b < 2 ^ w) :
    compare op true (toBits w a) (toBits w b) = some (op.spec (toInt w a) (toInt w b)) := by
  rw [compare_signed_bits op _ _ (by simp [toBits_length]) (by simp [toBits_length]; exact hw),
    sval_toBits w a (by omega) ha, sval_toBits w b (by omega) hb]

/-- 3 (011) > −4 (100) as 3-bit signed numbers, although 3 < 4 unsigned -/
example : compare .gt true (toBits 3 3) (toBits 3 4) = some true ∧ toInt 3 4 = -4
    ∧ compare .gt false (toBits 3 3) (toBits 3 4) = some false := by decide

/-- **Min / Max on bit strings** (`Mux(GreaterThan(a,b), …)`): the result is the operand whose
    encoded value is smaller / larger (`a` when equal — then both are the same string). -/
theorem min_unsigned_bits (a b : List Bool) (h : a.length = b.length) (hne : a ≠ []) :
    minBits false a b = some (if ofBits b < ofBits a then b else a) := by
  simp only [minBits, compare_unsigned_bits .gt a b h hne, Op.spec, Option.map_some]
  by_cases hc : (ofBits b : Int) < ofBits a
  · simp [hc, zipWith_mux_true b a h.symm, Int.ofNat_lt.mp hc]
  · simp [hc, zipWith_mux_false b a h.symm, show ¬ ofBits b < ofBits a from fun x => hc (Int.ofNat_lt.mpr x)]

theorem max_unsigned_bits (a b : List Bool) (h : a.length = b.length) (hne : a ≠ []) :
    maxBits false a b = some (if ofBits b < ofBits a then a else b) := by
  simp only [maxBits, compare_unsigned_bits .gt a b h hne, Op.spec, Option.map_some]
  by_cases hc : (ofBits b : Int) < ofBits a
  · simp [hc, zipWith_mux_true a b h, Int.ofNat_lt.mp hc]
  · simp [hc, zipWith_mux_false a b h, show ¬ ofBits b < ofBits a from fun x => hc (Int.ofNat_lt.mpr x)]

theorem min_signed_bits (a b : List Bool) (h : a.length = b.length) (h2 : 2 ≤ a.length) :
    minBits true a b = some (if sval b < sval a then b else a) := by
  simp only [minBits, compare_signed_bits .gt a b h h2, Op.spec, Option.map_some]
  by_cases hc : sval b < sval a
  · simp [hc, zipWith_mux_true b a h.symm]
  · simp [hc, zipWith_mux_false b a h.symm]

theorem max_signed_bits (a b : List Bool) (h : a.length = b.length) (h2 : 2 ≤ a.length) :
    maxBits true a b = some (if sval b < sval a then a else b) := by
  simp only [maxBits, compare_signed_bits .gt a b h h2, Op.spec, Option.map_some]
  by_cases hc : sval b < sval a
  · simp [hc, zipWith_mux_true a b h]
  · simp [hc, zipWith_mux_false a b h]

/-- **Min / Max, unsigned, all widths `w ≥ 1`**: the result encodes `min a b` / `max a b`. -/
theorem min_unsigned (w a b : Nat) (hw : 1 ≤ w) (ha : a < 2 ^ w) (hb : b < 2 ^ w) :
    minBits false (toBits w a) (toBits w b) = some (toBits w (min a b)) := by
  have hne : toBits w a ≠ [] := by
    intro e; have := toBits_length w a; rw [e] at this; simp at this; omega
  rw [min_unsigned_bits _ _ (by simp [toBits_length]) hne, ofBits_toBits w a ha, ofBits_toBits w b hb]
  by_cases hc : b < a
  · simp [hc, Nat.min_eq_right (Nat.le_of_lt hc)]
  · simp [hc, Nat.min_eq_left (Nat.le_of_not_lt hc)]

theorem max_unsigned (w a b : Nat) (hw : 1 ≤ w) (ha : a < 2 ^ w) (hb : b < 2 ^ w) :
    maxBits false (toBits w a) (toBits w b) = some (toBits w (max a b)) := by
  have hne : toBits w a ≠ [] := by
    intro e; have := toBits_length w a; rw [e] at this; simp at this; omega
  rw [max_unsigned_bits _ _ (by simp [toBits_length]) hne, ofBits_toBits w a ha, ofBits_toBits w b hb]
  by_cases hc : b < a
  · simp [hc, Nat.max_eq_left (Nat.le_of_lt hc)]
  · simp [hc, Nat.max_eq_right (Nat.le_of_not_lt hc)]

/-- **Min / Max, signed, all widths `w ≥ 2`**: the result is the encoding of the operand with the
    smaller / larger two's-complement value. -/
theorem min_signed (w a b : Nat) (hw : 2 ≤ w) (ha : a < 2 ^ w) (hb : b < 2 ^ w) :
    minBits true (toBits w a) (toBits w b) = some (toBits w (if toInt w b < toInt w a then b else a)) := by
  rw [min_signed_bits _ _ (by simp [toBits_length]) (by simp [toBits_length]; exact hw),
    sval_toBits w a (by omega) ha, sval_toBits w b (by omega) hb]
  split <;> rfl

theorem max_signed (w a b : Nat) (hw : 2 ≤ w) (ha : a < 2 ^ w) (hb : b < 2 ^ w) :
    maxBits true (toBits w a) (toBits w b) = some (toBits w (if toInt w b < toInt w a then a else b)) := by
  rw [max_signed_bits _ _ (by simp [toBits_length]) (by simp [toBits_length]; exact hw),
    sval_toBits w a (by omega) ha, sval_toBits w b (by omega) hb]
  split <;> rfl

/-- min(3, −4) = −4 (pattern 4), max unsigned (3, 4) = 4 on 3 bits -/
example : (minBits true (toBits 3 3) (toBits 3 4)).map ofBits = some 4
    ∧ (maxBits false (toBits 3 3) (toBits 3 4)).map ofBits = some 4
    ∧ (maxBits true (toBits 3 3) (toBits 3 4)).map ofBits = some 3 := by decide

end CCV.C16
