import CCV.Lemmas.Inline
import CCV.Lemmas.InlineBatchMain
import CCV.Lemmas.InlineBatchOneBit
/-
  C07 — inlining preserves Call/Iterate semantics in every mode.
  Property theorems only (about the model functions of CCV/Model/Inline.lean that the driver
  executes); helper lemmas and the specification functions `scanl1`, `sumO`, `Assoc` live in
  CCV/Lemmas/Inline.lean.

  `scanl1 f [x₀,x₁,…] = [x₀, x₀⊕x₁, (x₀⊕x₁)⊕x₂, …]`; `sumO f` = left fold, `none` on `[]`.
-/
namespace CCV.C07
open CCV CCV.Inline

variable {α : Type} {f : α → α → α}

/-! ## prefix sums and log-depth sum: every associative `⊕`, every length -/

/-- `log_depth_sum` returns the left fold of the items for every associative combine operation and
    every non-empty vector; on the empty vector the code returns `Err` (model: `none`), which is also
    what `sumO` gives. -/
theorem logDepthSum_fold (h : Assoc f) (items : List α) : logDepthSum f items = sumO f items :=
  logDepthSum_eq h items

/-- `prefix_sums_binary_ascent` returns the list of prefix folds (length 0: the empty list). -/
theorem prefixBinaryAscent_scan (h : Assoc f) (items : List α) :
    prefixBinaryAscent f items = scanl1 f items :=
  prefixBinaryAscent_eq h items

/-- `prefix_sums_sqrt_trick` returns the list of prefix folds — with the block size the code uses … -/
theorem prefixSqrt_scan (h : Assoc f) (items : List α) : prefixSqrt f items = scanl1 f items :=
  prefixSqrt_eq h items

/-- … and in fact with any block size ≥ 1 (so the result does not depend on how `sqrt` rounds). -/
theorem prefixSqrt_anyBlock (h : Assoc f) (block : Nat) (hb : 1 ≤ block) (items : List α) :
    (prefixSqrtBT f block items).1 = scanl1 f items :=
  prefixSqrtB_eq h block hb items

/-- `prefix_sums_segment_tree` returns the list of prefix folds. -/
theorem prefixSegmentTree_scan (h : Assoc f) (items : List α) :
    prefixSegmentTree f items = scanl1 f items :=
  prefixSegmentTree_eq h items

/-- `pick_prefix_sum_algorithm` always returns one of the three, hence the list of prefix folds … -/
theorem pick_scan (h : Assoc f) (level : Level) (inputsLen : Nat) (items : List α) :
    pick level inputsLen f items = scanl1 f items :=
  pick_eq h level inputsLen items

/-- … so the result is independent of the optimisation level and of the 15/16 switch. -/
theorem pick_independent (h : Assoc f) (l₁ l₂ : Level) (n₁ n₂ : Nat) (items : List α) :
    pick l₁ n₁ f items = pick l₂ n₂ f items := by
  rw [pick_scan h, pick_scan h]

/-- position `i` of the specification list is the fold of the first `i+1` items -/
theorem scanl1_get (items : List α) (i : Nat) (hi : i < items.length) :
    (scanl1 f items)[i]? = sumO f (items.take (i + 1)) :=
  scanl1_getElem? items i hi

/-! non-vacuity: list append is associative and NOT commutative; lengths across the 15/16 switch -/

theorem append_assoc' : Assoc (fun (a b : List Nat) => a ++ b) := fun a b c => List.append_assoc a b c

def gens (n : Nat) : List (List Nat) := (List.range n).map (fun i => [i])

example : prefixSqrt (· ++ ·) (gens 13) = scanl1 (· ++ ·) (gens 13) := by decide
example : (prefixSqrt (· ++ ·) (gens 13))[12]? = some (List.range 13) := by decide
example : prefixSegmentTree (· ++ ·) (gens 17) = scanl1 (· ++ ·) (gens 17) := by decide
example : prefixBinaryAscent (· ++ ·) (gens 11) = scanl1 (· ++ ·) (gens 11) := by decide
example : pick .default 15 (· ++ ·) (gens 15) = pick .default 16 (· ++ ·) (gens 15) := by decide
example : logDepthSum (· ++ ·) (gens 7) = some (List.range 7) := by decide
example : logDepthSum (· ++ ·) (gens 0) = none := by decide
/-- argument order matters: the flipped (still associative) operation gives a different answer -/
example : prefixSegmentTree (fun a b => b ++ a) (gens 3) ≠ prefixSegmentTree (· ++ ·) (gens 3) := by decide

/-! ## Iterate strategies vs the reference loop of `evaluate_call_iterate` -/

/-- simple inlining = the reference loop (any body, any state) -/
theorem iterSimple_ref (g : S → I → S × O) (s : S) (xs : List I) : iterSimple g s xs = iterRef g s xs := by
  simp [iterSimple, iterSimpleLoop_spec]

/-- empty-state strategy: when the state type has a single value (the empty tuple), giving every
    copy the initial state and returning the initial state is the reference loop. -/
theorem iterEmptyState_ref (hS : ∀ a b : S, a = b) (g : S → I → S × O) (s : S) (xs : List I) :
    iterEmptyState g s xs = iterRef g s xs := by
  induction xs generalizing s with
  | nil => rfl
  | cons x xs ih =>
    have e : (g s x).1 = s := hS _ _
    simp only [iterRef, e, ← ih s, iterEmptyState, List.map_cons]

/-- associative strategy (contract: `(a, b) ↦ body(a, b).0` is associative; if the output type is the
    empty tuple, all its values are equal): in both optimisation levels, at every length (0, 1 and
    both sides of the 15/16 switch included), the prefix-sum based inlining computes exactly the
    reference loop — final state and every output. -/
theorem iterAssoc_ref {O : Type} (g : α → α → α × O) (h : Assoc (fun a b => (g a b).1)) (level : Level)
    (emptyOut : Bool) (unit : O) (hu : emptyOut = true → ∀ o : O, o = unit) (s : α) (xs : List α) :
    iterAssoc level emptyOut unit g s xs = iterRef g s xs := by
  unfold iterAssoc
  cases xs with
  | nil => rfl
  | cons x t =>
    simp only [List.isEmpty_cons, Bool.false_eq_true, if_false]
    rw [iterRef_closed]
    split
    · rename_i he
      rw [logDepthSum_eq h]
      simp only [sumO, Option.getD_some]
      congr 1
      rw [all_unit_list unit (hu he) (List.map _ _), all_unit_list unit (hu he) (List.zipWith _ _ _)]
      simp [stepScan_length]
    · rw [pick_eq h]
      simp only [scanl1, scanAux_eq_stepScan]
      congr 1
      exact stepScan_getLast _ (x :: t) s

/-- non-vacuity: body(a, b) = (a ++ b, a.length) on lists — associative, non-commutative, the output
    depends on the state *before* the step; 17 inputs (segment tree in the default level) -/
example : iterAssoc .default false 0 (fun (a b : List Nat) => (a ++ b, a.length)) [100] (gens 17)
    = iterRef (fun (a b : List Nat) => (a ++ b, a.length)) [100] (gens 17) := by decide
example : (iterAssoc .extreme false 0 (fun (a b : List Nat) => (a ++ b, a.length)) [100] (gens 3)).2 = [1, 2, 3] := by
  decide

/-! ## one-bit state (`MappingCombiner1Bit`, `extract_state_from_mapping`) -/

/-- composition of 1-bit transition tables is function composition (first `m1`, then `m2`) … -/
theorem comb1_compose (s : Bool) (m1 m2 : Map1) : extract1 s (comb1 m1 m2) = extract1 (extract1 s m1) m2 :=
  extract1_comb1 s m1 m2

/-- … extraction is application of the table built from the body … -/
theorem extract1_apply (g : Bool → I → Bool × O) (x : I) (s : Bool) :
    extract1 s ((g false x).1, (g true x).1) = (g s x).1 :=
  extract1_mapOf g x s

/-- … and the combiner is associative (so the prefix-sum theorems apply to it). -/
theorem comb1_associative : Assoc comb1 := comb1_assoc

/-- one-bit strategy = reference loop, for every body on one state bit, both levels, every length. -/
theorem iterOneBit_ref {I O : Type} (g : Bool → I → Bool × O) (level : Level) (emptyOut : Bool) (unit : O)
    (hu : emptyOut = true → ∀ o : O, o = unit) (s : Bool) (xs : List I) :
    iterOneBit level emptyOut unit g s xs = iterRef g s xs := by
  unfold iterOneBit
  cases xs with
  | nil => rfl
  | cons x t =>
    simp only [List.isEmpty_cons, Bool.false_eq_true, if_false]
    rw [iterRef_closed]
    have hm : ∀ y : I, ((g false y).1, (g true y).1) = mapOf g y := fun _ => rfl
    simp only [hm]
    split
    · rename_i he
      rw [logDepthSum_eq comb1_assoc]
      simp only [List.map_cons, sumO, Option.getD_some, List.foldl_cons]
      rw [extract1_foldl, extract1_mapOf]
      congr 1
      rw [all_unit_list unit (hu he) (List.map _ _), all_unit_list unit (hu he) (List.zipWith _ _ _)]
      simp [stepScan_length, List.replicate_succ]
    · rw [pick_eq comb1_assoc]
      simp only [List.map_cons, scanl1, getLast_scanAux, Option.getD_some, List.foldl_cons]
      rw [extract1_foldl, extract1_scanAux, extract1_mapOf]
      rfl

/-- non-vacuity: a body that is neither constant nor linear in the state (`s' = s·x₀ ⊕ x₁`), output =
    old state; 17 steps -/
example :
    let g : Bool → Bool × Bool → Bool × Bool := fun s x => (xor (s && x.1) x.2, s)
    let xs := (List.range 17).map (fun i => (i % 3 != 0, i % 5 == 1))
    iterOneBit .default false false g true xs = iterRef g true xs ∧ (iterRef g true xs).1 = true := by
  decide

/-! ## small state: transition matrices over GF(2) (`create_mapping_matrix`, `MappingCombiner`,
    `extract_state_from_mapping`) -/

/-- the product of the transition matrices of `p` then `q` is the transition matrix of `q ∘ p`
    (rows `i < N`, when `p` maps `[0,N)` into itself) -/
theorem matMul_ofFun (N : Nat) (p q : Nat → Nat) (i j : Nat) (hp : p i < N) :
    matMul N (matOfFun p) (matOfFun q) i j = matOfFun (q ∘ p) i j := by
  simp only [matMul, matOfFun, Function.comp]
  exact xsum_single (fun k => q k == j) (p i) N hp

/-- one-hot row vector times transition matrix = one-hot of the image: extraction is application -/
theorem vecMul_oneHot (N : Nat) (p : Nat → Nat) (s j : Nat) (hs : s < N) :
    vecMul N (oneHot s) (matOfFun p) j = oneHot (p s) j := by
  simp only [vecMul, matOfFun, oneHot]
  exact xsum_single (fun k => p k == j) s N hs

/-- decoding a one-hot vector with the mask array gives back the bits of the state -/
theorem decodeBit_oneHot (N : Nat) (s b : Nat) (hs : s < N) : decodeBit N (oneHot s) b = s.testBit b := by
  simp only [decodeBit, oneHot]
  exact xsum_single (fun j => j.testBit b) s N hs

/-- non-vacuity (N = 4): a non-invertible map followed by a permutation -/
example : matMul 4 (matOfFun (fun i => i / 2)) (matOfFun (fun i => (i + 1) % 4)) 3 2 = true := by decide
example : decodeBit 4 (vecMul 4 (oneHot 3) (matOfFun (fun i => (i + 3) % 4))) 1 = true := by decide

/-- GF(2) matrix product is associative on arbitrary matrices (so the prefix-sum theorems apply) -/
theorem matMul_associative (N : Nat) : Assoc (matMul N) := matMul_assoc N

/-- small-state strategy = reference loop: for every `K`, every body on `K`-bit states (numbered by
    their mask; the body maps valid states to valid states), both levels, every length: building the
    transition matrices, combining them with any of the prefix algorithms / `log_depth_sum`, and
    extracting with the one-hot initial state computes exactly the reference loop.  (One unbatched
    state; under the contract of the strategy every row of a batched state is such an instance.) -/
theorem iterSmall_ref {I O : Type} (K : Nat) (g : Nat → I → Nat × O)
    (hg : ∀ st x, st < 2 ^ K → (g st x).1 < 2 ^ K) (level : Level) (emptyOut : Bool) (unit : O)
    (hu : emptyOut = true → ∀ o : O, o = unit) (s : Nat) (hs : s < 2 ^ K) (xs : List I) :
    iterSmall level K emptyOut unit g s xs = iterRef g s xs := by
  unfold iterSmall
  cases xs with
  | nil => rfl
  | cons x t =>
    simp only [List.isEmpty_cons, Bool.false_eq_true, if_false]
    rw [iterRef_closed]
    have hm : ∀ y : I, matOfFun (fun st => (g st y).1) = matOf g y := fun _ => rfl
    have hR : Rep (2 ^ K) (matOf g x) (fun st => (g st x).1) := Rep_ofFun (2 ^ K) (fun st => (g st x).1)
    have hp : ∀ i, i < 2 ^ K → (g i x).1 < 2 ^ K := fun i hi => hg i x hi
    simp only [hm]
    split
    · rename_i he
      rw [logDepthSum_eq (matMul_assoc _)]
      simp only [List.map_cons, sumO, Option.getD_some, List.foldl_cons]
      rw [extractS_foldl K g hg s hs t _ _ hR hp]
      congr 1
      rw [all_unit_list unit (hu he) (List.map _ _), all_unit_list unit (hu he) (List.zipWith _ _ _)]
      simp [stepScan_length, List.replicate_succ]
    · rw [pick_eq (matMul_assoc _)]
      simp only [List.map_cons, scanl1, getLast_scanAux, Option.getD_some, List.foldl_cons]
      rw [extractS_foldl K g hg s hs t _ _ hR hp, extractS_scanAux K g hg s hs t _ _ hR hp,
        extractS_Rep K _ _ s hR hs (hp s hs)]
      rfl

/-- non-vacuity (K = 2): a counter that is incremented when the input is odd and reset to 3 when the
    input is 0 (neither invertible nor linear); output = old state -/
example :
    let g : Nat → Nat → Nat × Nat := fun st x => (if x = 0 then 3 else (st + x % 2) % 4, st)
    iterSmall .default 2 false 0 g 1 [1, 2, 3, 0, 5] = iterRef g 1 [1, 2, 3, 0, 5]
      ∧ (iterRef g 1 [1, 2, 3, 0, 5]).2 = [1, 2, 2, 3, 3] := by
  decide

/-! ## batched states: the array layout of `exponential_inliner.rs`

  `iterSmallB` / `iterOneBitB` (CCV/Model/InlineBatch.lean) run `inline_iterate_small_state` on flat
  BIT arrays with the evaluator-shaped operations of `CCV.Ops`: `mask_to_value`, `one_hot_encode`
  (Add, GetSlice `[..., k]`, Multiply, CreateVector + VectorToArray), `create_mapping_matrix`,
  `create_mappings` (stacking, PermuteAxes, Get), the batched `matmul` combiner, the Reshape +
  PermuteAxes of `initial_state_one_hot` and `masks_arr`, and `extract_state_from_mapping`.
  A body is a function on flat state arrays; the contract of the strategy (`RowWise` / `PosWise`:
  row `β` of the new state depends only on row `β` of the old state) is the hypothesis. -/

open CCV.InlineBatch CCV.Shape

/-- **batched small state = reference loop**: for every batch shape `B` (any rank, all dimensions
    positive; rank 0 = the unbatched state `[K]`), every `K ≥ 1`, every body satisfying the row-wise
    contract, both levels, every number of steps, every well-formed initial state: the array-level
    inlining returns exactly the final state array and the outputs of the reference loop. -/
theorem iterSmallB_ref {I O : Type} (B : List Nat) (K : Nat) (hB : pos B) (hK : 1 ≤ K)
    (G : List Nat → I → List Nat × O) (g : List Nat → Nat → I → Nat)
    (hG : RowWise B K (fun st x => (G st x).1) g) (level : Level) (emptyOut : Bool) (unit : O)
    (hu : emptyOut = true → ∀ o : O, o = unit) (s : List Nat) (hs : WF (B ++ [K]) s) (xs : List I) :
    iterSmallB level B K emptyOut unit G s xs = iterRef G s xs :=
  iterSmallB_eq_ref B K hB hK G g hG level emptyOut unit hu s hs xs

/-- **row `β` of the batched result = the single-row construction on row `β`**: the `K` bits in row
    `β` of the final state array spell the state that `iterSmall` (the one-row model of the theorems
    above, hence the reference iteration of the row's transition function `g β`) computes from row `β`
    of the initial state. -/
theorem iterSmallB_row {I O : Type} (B : List Nat) (K : Nat) (hB : pos B) (hK : 1 ≤ K)
    (G : List Nat → I → List Nat × O) (g : List Nat → Nat → I → Nat)
    (hG : RowWise B K (fun st x => (G st x).1) g) (level : Level) (emptyOut : Bool) (unit : O)
    (hu : emptyOut = true → ∀ o : O, o = unit) (s : List Nat) (hs : WF (B ++ [K]) s) (xs : List I)
    (β : List Nat) (hβ : validIdx β B) :
    rowNat B K (iterSmallB level B K emptyOut unit G s xs).1 β
      = (iterSmall level K emptyOut unit (fun st x => (g β st x, unit)) (rowNat B K s β) xs).1 := by
  rw [iterSmallB_eq_ref B K hB hK G g hG level emptyOut unit hu s hs xs,
    iterSmall_ref K (fun st x => (g β st x, unit)) (fun st x hst => g_closed hG hB hK β hβ st x hst)
      level emptyOut unit hu _ (rowNat_lt B K s β) xs]
  exact iterRef_row B K G g hG unit s hs xs β hβ

/-- the pieces of the layout, as entry formulas (all batch ranks): block `β` of the mapping of step `i`
    is the transition matrix of row `β` … -/
theorem createMappings_block {I : Type} (B : List Nat) (K : Nat) (G : List Nat → I → List Nat)
    (g : List Nat → Nat → I → Nat) (hG : RowWise B K G g) (hB : pos B) (hK : 1 ≤ K) (xs : List I)
    (β : List Nat) (hβ : validIdx β B) :
    (createMappings B K G xs).map (rowMat B (2 ^ K) β) = xs.map (Fm K (g β)) :=
  createMappings_rowMat B K G g hG hB hK xs β hβ

/-- … the batched BIT `matmul` multiplies the blocks of every row … -/
theorem combine_block (B : List Nat) (K : Nat) (β : List Nat) (hβ : validIdx β B) (a b : List Nat) :
    rowMat B (2 ^ K) β (combine B K a b) = matMul (2 ^ K) (rowMat B (2 ^ K) β a) (rowMat B (2 ^ K) β b) :=
  combine_rowMat B K β hβ a b

/-- … and row `β` of the extracted state is `extractS` of the row's initial state and block. -/
theorem extractState_row (B : List Nat) (K : Nat) (hB : pos B) (hK : 1 ≤ K) (s : List Nat)
    (hs : WF (B ++ [K]) s) (β : List Nat) (hβ : validIdx β B) (p : List Nat) :
    rowNat B K (extractState B K (permuteInitial B K (oneHotEncode B K s)) (masksArr B K) p) β
      = extractS K (rowNat B K s β) (rowMat B (2 ^ K) β p) :=
  rowNat_extractState B K hB hK s hs β hβ p

theorem pos_2_3 : pos [2, 3] := by intro d hd; simp at hd; omega

/-- non-vacuity of the contract: a body that keeps the state when the input is `true` and resets every
    row to the constant 3 otherwise (neither injective nor input-independent), batch shape `[2, 3]` -/
example : RowWise [2, 3] 2 (fun S (x : Bool) => if x then S else maskToValue ([2, 3] ++ [2]) 2 3)
    (fun _ st x => if x then st else 3) :=
  ⟨fun S x h => by cases x <;> simp only [Bool.false_eq_true, if_false, if_true]
                   · exact maskToValue_WF [2, 3] 2 3 pos_2_3 (by decide)
                   · exact h,
   fun S x β h hβ => by
     cases x <;> simp only [Bool.false_eq_true, if_false, if_true]
     exact rowNat_mask [2, 3] 2 3 pos_2_3 (by decide) (by decide) β hβ⟩

/-- non-vacuity, concrete run (batch shape `[2]`, `K = 2`, two steps, row `r` adds `x + r` mod 4 or
    is reset to 3 when `x = 0`): the array-level model and the reference loop agree, rows differ -/
example :
    let dec : List Nat → List Nat := fun s => [s.getD 0 0 + 2 * s.getD 1 0, s.getD 2 0 + 2 * s.getD 3 0]
    let enc : List Nat → List Nat := fun r => r.flatMap fun v => [v % 2, v / 2 % 2]
    let G : List Nat → Nat → List Nat × List Nat := fun s x =>
      (enc ((dec s).zipIdx.map fun (v, r) => if x = 0 then 3 else (v + x + r) % 4), dec s)
    iterSmallB .default [2] 2 false [] G [1, 0, 0, 1] [1, 2] = iterRef G [1, 0, 0, 1] [1, 2]
      ∧ (iterRef G [1, 0, 0, 1] [1, 2]).1 = [0, 0, 1, 1] := by
  decide +kernel

/-- **batched one-bit state = reference loop**: state dimensions `sh` of any rank (`[1]` for a scalar),
    every body whose new entry `q` depends only on the old entry `q`, both levels, every length. -/
theorem iterOneBitB_ref {I O : Type} (sh : List Nat) (hpos : pos sh) (hne : sh ≠ [])
    (G : List Nat → I → List Nat × O) (g : Nat → Bool → I → Bool)
    (hG : PosWise sh (fun st x => (G st x).1) g) (level : Level) (emptyOut : Bool) (unit : O)
    (hu : emptyOut = true → ∀ o : O, o = unit) (s : List Nat) (hs : WF sh s) (xs : List I) :
    iterOneBitB level sh emptyOut unit G s xs = iterRef G s xs :=
  iterOneBitB_eq_ref sh hpos hne G g hG level emptyOut unit hu s hs xs

/-- entry `q` of the batched one-bit result = the single-bit construction (`iterOneBit`) on entry `q` -/
theorem iterOneBitB_row {I O : Type} (sh : List Nat) (hpos : pos sh) (hne : sh ≠ [])
    (G : List Nat → I → List Nat × O) (g : Nat → Bool → I → Bool)
    (hG : PosWise sh (fun st x => (G st x).1) g) (level : Level) (emptyOut : Bool) (unit : O)
    (hu : emptyOut = true → ∀ o : O, o = unit) (s : List Nat) (hs : WF sh s) (xs : List I)
    (q : Nat) (hq : q < prod sh) :
    (iterOneBitB level sh emptyOut unit G s xs).1.getD q 0
      = ((iterOneBit level emptyOut unit (fun b x => (g q b x, unit)) (s.getD q 0 == 1) xs).1).toNat :=
  iterOneBitB_entry sh hpos hne G g hG level emptyOut unit hu s hs xs q hq

/-- non-vacuity: elementwise `s' = s·x ⊕ [position is odd]`, shape `[2, 2]`, five steps -/
example :
    let G : List Nat → Nat → List Nat × List Nat := fun s x =>
      (s.zipIdx.map fun (v, r) => (v * x + r) % 2, s)
    iterOneBitB .default [2, 2] false [] G [1, 0, 1, 1] [1, 1, 0, 1, 1] = iterRef G [1, 0, 1, 1] [1, 1, 0, 1, 1]
      ∧ (iterRef G [1, 0, 1, 1] [1, 1, 0, 1, 1]).1 = [0, 1, 0, 1] := by
  decide +kernel

end CCV.C07
