import CCV.Lemmas.Inline
/-
  C07 — inlining preserves Call/Iterate semantics in every mode.
  Property theorems only (about the model functions of CCV/Model/Inline.lean that the driver
  executes); helper lemmas and the specification functions `scanl1`, `sumO`, `Assoc` live in
  CCV/Lemmas/Inline.lean.

  `scanl1 f [x₀,x₁,…] = [x₀, x₀⊕x₁, (x₀⊕x₁)⊕x₂, …]`; `sumO f` = left fold, `none` on `[]`.
-/
namespace CCV.C07
open CCV CCV.Inline

variable {α : Type} {f : α → α → α}

/-! ## prefix sums and log-depth sum: every associative `⊕`, every length -/

/-- `log_depth_sum` returns the left fold of the items for every associative combine operation and
    every non-empty vector; on the empty vector the code returns `Err` (model: `none`), which is also
    what `sumO` gives. -/
theorem logDepthSum_fold (h : Assoc f) (items : List α) : logDepthSum f items = sumO f items :=
  logDepthSum_eq h items

/-- `prefix_sums_binary_ascent` returns the list of prefix folds (length 0: the empty list). -/
theorem prefixBinaryAscent_scan (h : Assoc f) (items : List α) :
    prefixBinaryAscent f items = scanl1 f items :=
  prefixBinaryAscent_eq h items

/-- `prefix_sums_sqrt_trick` returns the list of prefix folds — with the block size the code uses … -/
theorem prefixSqrt_scan (h : Assoc f) (items : List α) : prefixSqrt f items = scanl1 f items :=
  prefixSqrt_eq h items

/-- … and in fact with any block size ≥ 1 (so the result does not depend on how `sqrt` rounds). -/
theorem prefixSqrt_anyBlock (h : Assoc f) (block : Nat) (hb : 1 ≤ block) (items : List α) :
    (prefixSqrtBT f block items).1 = scanl1 f items :=
  prefixSqrtB_eq h block hb items

/-- `prefix_sums_segment_tree` returns the list of prefix folds. -/
theorem prefixSegmentTree_scan (h : Assoc f) (items : List α) :
    prefixSegmentTree f items = scanl1 f items :=
  prefixSegmentTree_eq h items

/-- `pick_prefix_sum_algorithm` always returns one of the three, hence the list of prefix folds … -/
theorem pick_scan (h : Assoc f) (level : Level) (inputsLen : Nat) (items : List α) :
    pick level inputsLen f items = scanl1 f items :=
  pick_eq h level inputsLen items

/-- … so the result is independent of the optimisation level and of the 15/16 switch. -/
theorem pick_independent (h : Assoc f) (l₁ l₂ : Level) (n₁ n₂ : Nat) (items : List α) :
    pick l₁ n₁ f items = pick l₂ n₂ f items := by
  rw [pick_scan h, pick_scan h]

/-- position `i` of the specification list is the fold of the first `i+1` items -/
theorem scanl1_get (items : List α) (i : Nat) (hi : i < items.length) :
    (scanl1 f items)[i]? = sumO f (items.take (i + 1)) :=
  scanl1_getElem? items i hi

/-! non-vacuity: list append is associative and NOT commutative; lengths across the 15/16 switch -/

theorem append_assoc' : Assoc (fun (a b : List Nat) => a ++ b) := fun a b c => List.append_assoc a b c

def gens (n : Nat) : List (List Nat) := (List.range n).map (fun i => [i])

example : prefixSqrt (· ++ ·) (gens 13) = scanl1 (· ++ ·) (gens 13) := by decide
example : (prefixSqrt (· ++ ·) (gens 13))[12]? = some (List.range 13) := by decide
example : prefixSegmentTree (· ++ ·) (gens 17) = scanl1 (· ++ ·) (gens 17) := by decide
example : prefixBinaryAscent (· ++ ·) (gens 11) = scanl1 (· ++ ·) (gens 11) := by decide
example : pick .default 15 (· ++ ·) (gens 15) = pick .default 16 (· ++ ·) (gens 15) := by decide
example : logDepthSum (· ++ ·) (gens 7) = some (List.range 7) := by decide
example : logDepthSum (· ++ ·) (gens 0) = none := by decide
/-- argument order matters: the flipped (still associative) operation gives a different answer -/
example : prefixSegmentTree (fun a b => b ++ a) (gens 3) ≠ prefixSegmentTree (· ++ ·) (gens 3) := by decide

/-! ## Iterate strategies vs the reference loop of `evaluate_call_iterate` -/

/-- simple inlining = the reference loop (any body, any state) -/
theorem iterSimple_ref (g : S → I → S × O) (s : S) (xs : List I) : iterSimple g s xs = iterRef g s xs := by
  simp [iterSimple, iterSimpleLoop_spec]

/-- empty-state strategy: when the state type has a single value (the empty tuple), giving every
    copy the initial state and returning the initial state is the reference loop. -/
theorem iterEmptyState_ref (hS : ∀ a b : S, a = b) (g : S → I → S × O) (s : S) (xs : List I) :
    iterEmptyState g s xs = iterRef g s xs := by
  induction xs generalizing s with
  | nil => rfl
  | cons x xs ih =>
    have e : (g s x).1 = s := hS _ _
    simp only [iterRef, e, ← ih s, iterEmptyState, List.map_cons]

/-- associative strategy (contract: `(a, b) ↦ body(a, b).0` is associative; if the output type is the
    empty tuple, all its values are equal): in both optimisation levels, at every length (0, 1 and
    both sides of the 15/16 switch included), the prefix-sum based inlining computes exactly the
    reference loop — final state and every output. -/
theorem iterAssoc_ref {O : Type} (g : α → α → α × O) (h : Assoc (fun a b => (g a b).1)) (level : Level)
    (emptyOut : Bool) (unit : O) (hu : emptyOut = true → ∀ o : O, o = unit) (s : α) (xs : List α) :
    iterAssoc level emptyOut unit g s xs = iterRef g s xs := by
  unfold iterAssoc
  cases xs with
  | nil => rfl
  | cons x t =>
    simp only [List.isEmpty_cons, Bool.false_eq_true, if_false]
    rw [iterRef_closed]
    split
    · rename_i he
      rw [logDepthSum_eq h]
      simp only [sumO, Option.getD_some]
      congr 1
      rw [all_unit_list unit (hu he) (List.map _ _), all_unit_list unit (hu he) (List.zipWith _ _ _)]
      simp [stepScan_length]
    · rw [pick_eq h]
      simp only [scanl1, scanAux_eq_stepScan]
      congr 1
      exact stepScan_getLast _ (x :: t) s

/-- non-vacuity: body(a, b) = (a ++ b, a.length) on lists — associative, non-commutative, the output
    depends on the state *before* the step; 17 inputs (segment tree in the default level) -/
example : iterAssoc .default false 0 (fun (a b : List Nat) => (a ++ b, a.length)) [100] (gens 17)
    = iterRef (fun (a b : List Nat) => (a ++ b, a.length)) [100] (gens 17) := by decide
example : (iterAssoc .extreme false 0 (fun (a b : List Nat) => (a ++ b, a.length)) [100] (gens 3)).2 = [1, 2, 3] := by
  decide

/-! ## one-bit state (`MappingCombiner1Bit`, `extract_state_from_mapping`) -/

/-- composition of 1-bit transition tables is function composition (first `m1`, then `m2`) … -/
theorem comb1_compose (s : Bool) (m1 m2 : Map1) : extract1 s (comb1 m1 m2) = extract1 (extract1 s m1) m2 :=
  extract1_comb1 s m1 m2

/-- … extraction is application of the table built from the body … -/
theorem extract1_apply (g : Bool → I → Bool × O) (x : I) (s : Bool) :
    extract1 s ((g false x).1, (g true x).1) = (g s x).1 :=
  extract1_mapOf g x s

/-- … and the combiner is associative (so the prefix-sum theorems apply to it). -/
theorem comb1_associative : Assoc comb1 := comb1_assoc

/-- one-bit strategy = reference loop, for every body on one state bit, both levels, every length. -/
theorem iterOneBit_ref {I O : Type} (g : Bool → I → Bool × O) (level : Level) (emptyOut : Bool) (unit : O)
    (hu : emptyOut = true → ∀ o : O, o = unit) (s : Bool) (xs : List I) :
    iterOneBit level emptyOut unit g s xs = iterRef g s xs := by
  unfold iterOneBit
  cases xs with
  | nil => rfl
  | cons x t =>
    simp only [List.isEmpty_cons, Bool.false_eq_true, if_false]
    rw [iterRef_closed]
    have hm : ∀ y : I, ((g false y).1, (g true y).1) = mapOf g y := fun _ => rfl
    simp only [hm]
    split
    · rename_i he
      rw [logDepthSum_eq comb1_assoc]
      simp only [List.map_cons, sumO, Option.getD_some, List.foldl_cons]
      rw [extract1_foldl, extract1_mapOf]
      congr 1
      rw [all_unit_list unit (hu he) (List.map _ _), all_unit_list unit (hu he) (List.zipWith _ _ _)]
      simp [stepScan_length, List.replicate_succ]
    · rw [pick_eq comb1_assoc]
      simp only [List.map_cons, scanl1, getLast_scanAux, Option.getD_some, List.foldl_cons]
      rw [extract1_foldl, extract1_scanAux, extract1_mapOf]
      rfl

/-- non-vacuity: a body that is neither constant nor linear in the state (`s' = s·x₀ ⊕ x₁`), output =
    old state; 17 steps -/
example :
    let g : Bool → Bool × Bool → Bool × Bool := fun s x => (xor (s && x.1) x.2, s)
    let xs := (List.range 17).map (fun i => (i % 3 != 0, i % 5 == 1))
    iterOneBit .default false false g true xs = iterRef g true xs ∧ (iterRef g true xs).1 = true := by
  decide

/-! ## small state: transition matrices over GF(2) (`create_mapping_matrix`, `MappingCombiner`,
    `extract_state_from_mapping`) -/

/-- the product of the transition matrices of `p` then `q` is the transition matrix of `q ∘ p`
    (rows `i < N`, when `p` maps `[0,N)` into itself) -/
theorem matMul_ofFun (N : Nat) (p q : Nat → Nat) (i j : Nat) (hp : p i < N) :
    matMul N (matOfFun p) (matOfFun q) i j = matOfFun (q ∘ p) i j := by
  simp only [matMul, matOfFun, Function.comp]
  exact xsum_single (fun k => q k == j) (p i) N hp

/-- one-hot row vector times transition matrix = one-hot of the image: extraction is application -/
theorem vecMul_oneHot (N : Nat) (p : Nat → Nat) (s j : Nat) (hs : s < N) :
    vecMul N (oneHot s) (matOfFun p) j = oneHot (p s) j := by
  simp only [vecMul, matOfFun, oneHot]
  exact xsum_single (fun k => p k == j) s N hs

/-- decoding a one-hot vector with the mask array gives back the bits of the state -/
theorem decodeBit_oneHot (N : Nat) (s b : Nat) (hs : s < N) : decodeBit N (oneHot s) b = s.testBit b := by
  simp only [decodeBit, oneHot]
  exact xsum_single (fun j => j.testBit b) s N hs

/-- non-vacuity (N = 4): a non-invertible map followed by a permutation -/
example : matMul 4 (matOfFun (fun i => i / 2)) (matOfFun (fun i => (i + 1) % 4)) 3 2 = true := by decide
example : decodeBit 4 (vecMul 4 (oneHot 3) (matOfFun (fun i => (i + 3) % 4))) 1 = true := by decide

/-- GF(2) matrix product is associative on arbitrary matrices (so the prefix-sum theorems apply) -/
theorem matMul_associative (N : Nat) : Assoc (matMul N) := matMul_assoc N

/-- small-state strategy = reference loop: for every `K`, every body on `K`-bit states (numbered by
    their mask; the body maps valid states to valid states), both levels, every length: building the
    transition matrices, combining them with any of the prefix algorithms / `log_depth_sum`, and
    extracting with the one-hot initial state computes exactly the reference loop.  (One unbatched
    state; under the contract of the strategy every row of a batched state is such an instance.) -/
theorem iterSmall_ref {I O : Type} (K : Nat) (g : Nat → I → Nat × O)
    (hg : ∀ st x, st < 2 ^ K → (g st x).1 < 2 ^ K) (level : Level) (emptyOut : Bool) (unit : O)
    (hu : emptyOut = true → ∀ o : O, o = unit) (s : Nat) (hs : s < 2 ^ K) (xs : List I) :
    iterSmall level K emptyOut unit g s xs = iterRef g s xs := by
  unfold iterSmall
  cases xs with
  | nil => rfl
  | cons x t =>
    simp only [List.isEmpty_cons, Bool.false_eq_true, if_false]
    rw [iterRef_closed]
    have hm : ∀ y : I, matOfFun (fun st => (g st y).1) = matOf g y := fun _ => rfl
    have hR : Rep (2 ^ K) (matOf g x) (fun st => (g st x).1) := Rep_ofFun (2 ^ K) (fun st => (g st x).1)
    have hp : ∀ i, i < 2 ^ K → (g i x).1 < 2 ^ K := fun i hi => hg i x hi
    simp only [hm]
    split
    · rename_i he
      rw [logDepthSum_eq (matMul_assoc _)]
      simp only [List.map_cons, sumO, Option.getD_some, List.foldl_cons]
      rw [extractS_foldl K g hg s hs t _ _ hR hp]
      congr 1
      rw [all_unit_list unit (hu he) (List.map _ _), all_unit_list unit (hu he) (List.zipWith _ _ _)]
      simp [stepScan_length, List.replicate_succ]
    · rw [pick_eq (matMul_assoc _)]
      simp only [List.map_cons, scanl1, getLast_scanAux, Option.getD_some, List.foldl_cons]
      rw [extractS_foldl K g hg s hs t _ _ hR hp, extractS_scanAux K g hg s hs t _ _ hR hp,
        extractS_Rep K _ _ s hR hs (hp s hs)]
      rfl

/-- non-vacuity (K = 2): a counter that is incremented when the input is odd and reset to 3 when the
    input is 0 (neither invertible nor linear); output = old state -/
example :
    let g : Nat → Nat → Nat × Nat := fun st x => (if x = 0 then 3 else (st + x % 2) % 4, st)
    iterSmall .default 2 false 0 g 1 [1, 2, 3, 0, 5] = iterRef g 1 [1, 2, 3, 0, 5]
      ∧ (iterRef g 1 [1, 2, 3, 0, 5]).2 = [1, 2, 2, 3, 3] := by
  decide

end CCV.C07
