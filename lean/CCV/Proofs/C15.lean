import CCV.Lemmas.Random
/-
  C15 — PRF and PRNG are deterministic, in-domain and unbiased.
  Property theorems only; helper lemmas live in CCV/Lemmas/Random.lean.
  `blocks i` is the i-th 16-byte AES block of the counter-mode stream of one (key, iv) — AES itself is
  not modelled; `streamSlice blocks a n` are the stream bytes `a .. a+n-1`.
-/
namespace CCV.C15
open CCV CCV.Random

/-! ## (1) stream independence -/

/-- **Reads are the stream, whatever the buffer schedule and call pattern.**  For every initial buffer
    size ≥ 1 (so every growth schedule 16·⌈ibs/16⌉ → ×2 → … → 512) and every sequence of read sizes,
    `generate_random_bytes` never fails, the k-th call returns exactly `reads[k]` bytes, and the
    concatenation of everything delivered is the prefix of the counter-mode byte stream.
    (`ibs = 0` is excluded: with a zero-sized buffer the Rust loop never terminates; `Prf` only uses
    it in `output_permutation(_, 0)`, which draws nothing.) -/
theorem reads_are_stream_prefix (blocks : Nat → List Nat) (hb : ∀ i, (blocks i).length = 16)
    (ibs : Nat) (hibs : 1 ≤ ibs) (reads : List Nat) :
    ∃ s' out, readMany blocks (Session.new ibs) reads = .ok (s', out)
      ∧ out.flatten = streamSlice blocks 0 reads.sum
      ∧ out.map List.length = reads := by
  suffices h : ∀ (reads : List Nat) (s : Session) (pos : Nat), Inv blocks s pos →
      ∃ s' out, readMany blocks s reads = .ok (s', out)
        ∧ out.flatten = streamSlice blocks pos reads.sum ∧ out.map List.length = reads
        ∧ Inv blocks s' (pos + reads.sum) by
    obtain ⟨s', out, h1, h2, h3, _⟩ := h reads _ 0 (inv_new blocks ibs hibs)
    exact ⟨s', out, h1, h2, h3⟩
  intro reads
  induction reads with
  | nil => intro s pos hinv; exact ⟨s, [], rfl, rfl, rfl, by simpa using hinv⟩
  | cons n ns ih =>
    intro s pos hinv
    obtain ⟨s1, h1, hinv1⟩ := generateRandomBytes_spec blocks hb s n pos hinv
    obtain ⟨s2, out, h2, hcat, hlen, hinv2⟩ := ih s1 (pos + n) hinv1
    refine ⟨s2, streamSlice blocks pos n :: out, ?_, ?_, ?_, ?_⟩
    · simp only [readMany, h1, h2]
    · simp only [List.flatten_cons, List.sum_cons, hcat, streamSlice_add]
    · simp [hlen]
    · simpa [Nat.add_assoc] using hinv2

/-- non-vacuity: a 3-block stream `blocks i = [16i, …, 16i+15]`, initial buffer 1 (→16), reads 5,0,20,7
    straddle two buffer refills of sizes 16 and 32 -/
example : (match readMany (fun i => (List.range 16).map (16 * i + ·)) (Session.new 1) [5, 0, 20, 7] with
    | .ok (_, out) => out
    | .error _ => [])
    = [[0, 1, 2, 3, 4], [], (List.range 20).map (5 + ·), (List.range 7).map (25 + ·)] := by
  decide


/-- **The second read path is the stream too.**  `generate_random_number_const::<need>` (used by
    `generate_u32_in_range`; it has its own buffer-straddling code) returns the next `need` stream bytes
    as a little-endian number, from any session state at stream position `pos`. -/
theorem randomNumber_is_stream (blocks : Nat → List Nat) (hb : ∀ i, (blocks i).length = 16)
    (s : Session) (pos need : Nat) (hinv : Inv blocks s pos) (hneed : need ≤ 16) :
    (randomNumber blocks s need).2 = leValue (streamSlice blocks pos need) % 2 ^ (8 * need)
      ∧ Inv blocks (randomNumber blocks s need).1 (pos + need) :=
  randomNumber_spec blocks hb s pos need hinv hneed

/-- **Bounded draws do not depend on the buffer schedule.**  For all moduli `< 2^32` and any two initial
    buffer sizes ≥ 1, two sessions over the same key stream return the same sequence of
    `generate_u32_in_range` draws (or fail alike: modulus 0 / budget exhausted) and end at the same stream
    position.  Hence the draws of `output_permutation` are a function of the key stream only. -/
theorem u32_draws_buffer_independent (blocks : Nat → List Nat) (hb : ∀ i, (blocks i).length = 16)
    (fuel : Nat) (ms : List Nat) (hms : ∀ m ∈ ms, m < 2 ^ 32) (ibs1 ibs2 : Nat) (h1 : 1 ≤ ibs1) (h2 : 1 ≤ ibs2) :
    SameUpToSession blocks (u32Many blocks fuel (Session.new ibs1) ms)
      (u32Many blocks fuel (Session.new ibs2) ms) :=
  u32Many_same blocks hb fuel ms hms _ _ 0 (inv_new blocks ibs1 h1) (inv_new blocks ibs2 h2)

/-- non-vacuity: 20 draws mod 7 (two bytes each) with a 16-byte and a 512-byte buffer agree; the small
    buffer is refilled twice (16 → 32 bytes), draw 8 straddles the first refill -/
example :
    let blocks := fun i => (List.range 16).map (fun x => (37 * (16 * i + x) + 11) % 256)
    (match u32Many blocks 9 (Session.new 1) (List.replicate 20 7) with | .ok (_, r) => r | .error _ => [])
      = (match u32Many blocks 9 (Session.new 512) (List.replicate 20 7) with | .ok (_, r) => r | .error _ => [])
    ∧ (match u32Many blocks 9 (Session.new 1) (List.replicate 20 7) with | .ok (_, r) => r.length | .error _ => 0) = 20 := by
  decide

/-! ## (2) purity of value generation, (4a) values are in-domain -/

/-- **A generated value depends only on the stream position and the type.**  Two sessions — whatever
    their buffer sizes, fill levels and histories — that have delivered the same number `pos` of stream
    bytes produce the same value for every type `t` (nested tuples / vectors included), never fail, and
    the value is well-typed: right shape and byte lengths, bytes < 256, and every scalar/array leaf
    stores an integer `< 2^bits`, i.e. all unused bits are zero. -/
theorem genValue_deterministic (blocks : Nat → List Nat) (hb : ∀ i, (blocks i).length = 16)
    (hbyte : ∀ i, ∀ x ∈ blocks i, x < 256) (t : RTy) (s1 s2 : Session) (pos : Nat)
    (h1 : Inv blocks s1 pos) (h2 : Inv blocks s2 pos) :
    ∃ v s1' s2', genValue blocks t s1 = .ok (s1', v) ∧ genValue blocks t s2 = .ok (s2', v)
      ∧ WellTyped t v := by
  obtain ⟨v, n, hv, hgen⟩ := genValue_spec blocks hb hbyte t pos
  obtain ⟨s1', e1, _⟩ := hgen s1 h1
  obtain ⟨s2', e2, _⟩ := hgen s2 h2
  exact ⟨v, s1', s2', e1, e2, hv⟩

/-- **`Prf::output_value` is a function of (key stream, type) only**: the initial buffer size (hence
    the whole buffer-growth schedule) is irrelevant, the call never fails, and the value is in-domain.
    Purity in the key/iv is by construction: `prfValue` has no other input than the stream of (key, iv). -/
theorem prfValue_pure (blocks : Nat → List Nat) (hb : ∀ i, (blocks i).length = 16)
    (hbyte : ∀ i, ∀ x ∈ blocks i, x < 256) (t : RTy) (ibs1 ibs2 : Nat) (h1 : 1 ≤ ibs1) (h2 : 1 ≤ ibs2) :
    ∃ v, prfValue blocks ibs1 t = .ok v ∧ prfValue blocks ibs2 t = .ok v ∧ WellTyped t v := by
  obtain ⟨v, s1', s2', e1, e2, hv⟩ := genValue_deterministic blocks hb hbyte t _ _ 0
    (inv_new blocks ibs1 h1) (inv_new blocks ibs2 h2)
  exact ⟨v, by simp only [prfValue, e1], by simp only [prfValue, e2], hv⟩

/-- non-vacuity: tuple (11-bit array, vector of two u8) over the stream 255,254,…: the 11-bit leaf is
    [255, 254 >> 5] = [255, 7], i.e. the integer 2047 < 2^11 -/
example : prfValue (fun i => (List.range 16).map (255 - 16 * i - ·)) 64
    (.tup [.arr 1 [11], .vec 2 (.arr 8 [])]) = .ok (.vec [.bytes [255, 7], .vec [.bytes [253], .bytes [252]]]) := by
  rfl

/-! ## (3) no modulo bias -/

/-- number of draws `r` of the draw space `[0, N)` that the sampler accepts (`r ≤ bound`) and maps to
    residue `c` (`r % m = c`) -/
def acceptedWithResidue (N bound m c : Nat) : Nat :=
  ((List.range N).filter (fun r => r ≤ bound ∧ r % m = c)).length

/-- **Rejection sampling with bound `N − 1 − (N mod m)` is unbiased**: over a draw space of `N ≥ m`
    equally likely numbers, every residue `c < m` has exactly `N / m ≥ 1` accepted preimages. -/
theorem rejection_unbiased (N m c : Nat) (hm : 1 ≤ m) (hN : m ≤ N) (hc : c < m) :
    acceptedWithResidue N (N - 1 - N % m) m c = N / m ∧ 1 ≤ N / m := by
  refine ⟨?_, Nat.div_pos hN hm⟩
  have hmod : N % m ≤ N - 1 := by have := Nat.mod_lt N hm; omega
  have hdm := Nat.div_add_mod N m
  have hA : N = m * (N / m) + N % m := by omega
  unfold acceptedWithResidue
  rw [show (List.range N) = List.range (m * (N / m) + N % m) by rw [← hA], List.range_add,
    List.filter_append, List.length_append]
  have h1 : (List.range (m * (N / m))).filter (fun r => r ≤ N - 1 - N % m ∧ r % m = c)
      = (List.range (m * (N / m))).filter (fun r => r % m = c) := by
    apply List.filter_congr
    intro x hx
    have hx : x < m * (N / m) := by simpa using hx
    have : x ≤ N - 1 - N % m := by omega
    simp [this]
  have h2 : ((List.range (N % m)).map (fun x => m * (N / m) + x)).filter
      (fun r => r ≤ N - 1 - N % m ∧ r % m = c) = [] := by
    rw [List.filter_eq_nil_iff]
    intro x hx
    obtain ⟨y, _, rfl⟩ := List.mem_map.mp hx
    have : ¬ (m * (N / m) + y ≤ N - 1 - N % m) := by omega
    simp [this]
  rw [h1, h2]
  have := countRes_mul m (N / m) c hc
  unfold countRes at this
  simp [this]

/-- **`generate_u32_in_range` has no modulo bias**, for every modulus `m ≥ 1`: with `nb = need_bytes`
    random bytes (draw space `2^(8·nb)`, which is ≥ 256·m) and the code's `rejection_bound`, each residue
    `c < m` has exactly `2^(8·nb) / m` accepted preimages.  (`m = 0`: the code panics on `% 0`.) -/
theorem u32_in_range_unbiased (m c : Nat) (hm : 1 ≤ m) (hc : c < m) :
    acceptedWithResidue (2 ^ (needBytes m * 8)) (rejectionBound m (needBytes m)) m c
      = 2 ^ (needBytes m * 8) / m ∧ 256 ≤ 2 ^ (needBytes m * 8) / m := by
  have hsp := needBytes_space m
  have hpos : 1 ≤ 2 ^ (needBytes m * 8) := Nat.one_le_two_pow
  have hb : rejectionBound m (needBytes m) = 2 ^ (needBytes m * 8) - 1 - 2 ^ (needBytes m * 8) % m := by
    simp only [rejectionBound]; rw [Nat.sub_add_cancel hpos]
  rw [hb]
  refine ⟨(rejection_unbiased _ m c hm (by omega) hc).1, ?_⟩
  rw [Nat.le_div_iff_mul_le (by omega)]; exact hsp

/-- non-vacuity: m = 3 uses 2 bytes; bound 65534 rejects only 65535; 21845 preimages per residue -/
example : needBytes 3 = 2 ∧ rejectionBound 3 2 = 65534 ∧ 2 ^ (needBytes 3 * 8) / 3 = 21845 := by decide

/-- **`PRNG::get_random_in_range(Some(m))` has no modulo bias**, for every `1 ≤ m < 2^64`: over the
    `2^64` equally likely 8-byte draws, with the code's bound `u64::MAX − ((u64::MAX % m) + 1) % m`,
    each residue `c < m` has exactly `2^64 / m` accepted preimages.  (`m = 0`: the code panics on `% 0`.) -/
theorem u64_in_range_unbiased (m c : Nat) (hm : 1 ≤ m) (hm64 : m < 2 ^ 64) (hc : c < m) :
    acceptedWithResidue (2 ^ 64) (rejectionBound64 m) m c = 2 ^ 64 / m ∧ 1 ≤ 2 ^ 64 / m := by
  have hb : rejectionBound64 m = 2 ^ 64 - 1 - 2 ^ 64 % m := by
    simp only [rejectionBound64]
    have e : (2 ^ 64 : Nat) = (2 ^ 64 - 1) + 1 := by decide
    have : ((2 ^ 64 - 1) % m + 1) % m = 2 ^ 64 % m := by
      conv => rhs; rw [e, Nat.add_mod]
      by_cases h1 : m = 1
      · subst h1; simp [Nat.mod_one]
      · rw [Nat.mod_eq_of_lt (show 1 < m by omega)]
    rw [this]
  rw [hb]
  exact rejection_unbiased _ m c hm (by omega) hc

/-- non-vacuity: m = 2^63 + 1 — almost half of the draws are rejected, one preimage per residue -/
example : rejectionBound64 (2 ^ 63 + 1) = 2 ^ 63 ∧ 2 ^ 64 / (2 ^ 63 + 1) = 1 := by decide

/-! ## (4) generated values are in-domain: bounded draws, permutations -/

/-- **Bounded PRF draws lie in range**: whatever the stream, a successful `generate_u32_in_range(m)`
    returns a number `< m`. -/
theorem u32InRange_lt (blocks : Nat → List Nat) (fuel : Nat) (s s' : Session) (m r : Nat)
    (h : u32InRange blocks fuel s m = .ok (s', r)) : r < m := by
  unfold u32InRange at h
  split at h
  · cases h
  · rename_i hm
    generalize needBytes m = nb at h
    generalize rejectionBound m nb = bound at h
    induction fuel generalizing s with
    | zero => simp [u32Loop] at h
    | succ f ih =>
      simp only [u32Loop] at h
      split at h
      · injection h with h; injection h with _ h; subst h; exact Nat.mod_lt _ (by omega)
      · exact ih _ h

/-- **Bounded PRNG draws lie in range**: a successful `get_random_in_range(Some(m))` returns `< m`. -/
theorem getRandomInRange_lt (blocks : Nat → List Nat) (fuel : Nat) (s s' : Session) (m r : Nat)
    (h : getRandomInRange blocks fuel s (some m) = .ok (s', r)) : r < m := by
  simp only [getRandomInRange] at h
  split at h
  · cases h
  · rename_i hm
    generalize rejectionBound64 m = bound at h
    induction fuel generalizing s with
    | zero => simp [range64Loop] at h
    | succ f ih =>
      simp only [range64Loop] at h
      split at h
      · cases h
      · split at h
        · injection h with h; injection h with _ h; subst h; exact Nat.mod_lt _ (by omega)
        · exact ih _ h

/-- the Fisher–Yates loop of `output_permutation` only permutes its array (indices stay in bounds
    because every draw is `< i + 1`) -/
theorem permLoop_perm (blocks : Nat → List Nat) (fuel : Nat) :
    ∀ (steps i : Nat) (s s' : Session) (a a' : List Nat), i + steps ≤ a.length →
      permLoop blocks fuel steps i s a = .ok (s', a') → a'.Perm a := by
  intro steps
  induction steps with
  | zero => intro i s s' a a' _ h; simp only [permLoop] at h; injection h with h; injection h with _ h; subst h; exact List.Perm.refl _
  | succ k ih =>
    intro i s s' a a' hlen h
    simp only [permLoop] at h
    split at h
    · cases h
    · rename_i s1 j hj
      have hlt := u32InRange_lt blocks fuel s s1 (i + 1) j hj
      have hp := swap_perm a i j (by omega) (by omega)
      exact (ih (i + 1) s1 s' (swap a i j) a' (by simp; omega) h).trans hp

/-- **`Prf::output_permutation(_, n)` returns a permutation of `0..n−1`**, for every `n` and every key
    stream (whenever the rejection loops accept within the fuel). -/
theorem outputPermutation_perm (blocks : Nat → List Nat) (fuel n : Nat) (a : List Nat)
    (h : outputPermutation blocks fuel n = .ok a) : a.Perm (List.range n) := by
  unfold outputPermutation at h
  split at h
  · cases h
  · dsimp only at h
    split at h
    · cases h
    · rename_i s' a' hl
      injection h with h; subst h
      cases n with
      | zero => simp [permLoop] at hl; obtain ⟨_, rfl⟩ := hl; exact List.Perm.refl _
      | succ n => exact permLoop_perm blocks fuel n 1 _ s' _ _ (by simp; omega) hl

/-- non-vacuity: n = 4 over the stream 0,1,2,… (two-byte draws 256 % 2, 770 % 3, 1284 % 4 = 0, 2, 0) -/
example : outputPermutation (fun i => (List.range 16).map (16 * i + ·)) 10 4 = .ok [3, 0, 2, 1] := by
  rfl

/-- **`shuffle_array` (RandomPermutation and the other PRNG shuffles) only permutes its array.** -/
theorem shuffleArray_perm (blocks : Nat → List Nat) (fuel : Nat) (s s' : Session) (a a' : List Nat)
    (h : shuffleArray blocks fuel s a = .ok (s', a')) : a'.Perm a := by
  unfold shuffleArray at h
  suffices hs : ∀ (c : Nat) (s : Session) (a : List Nat), c ≤ a.length →
      shuffleLoop blocks fuel c s a = .ok (s', a') → a'.Perm a from hs _ s a (Nat.le_refl _) h
  intro c
  induction c with
  | zero => intro s a _ h; simp only [shuffleLoop] at h; injection h with h; injection h with _ h; subst h; exact List.Perm.refl _
  | succ i ih =>
    intro s a hlen h
    simp only [shuffleLoop] at h
    split at h
    · injection h with h; injection h with _ h; subst h; exact List.Perm.refl _
    · split at h
      · cases h
      · rename_i s1 j hj
        have hlt := getRandomInRange_lt blocks fuel s s1 (i + 1) j hj
        have hp := swap_perm a j i (by omega) (by omega)
        exact (ih s1 (swap a j i) (by simp; omega) h).trans hp

/-! ## (5) uniformity of the shuffle: index sequences ↦ permutations -/

/-- `output_permutation` is the pure swap sequence `applySwaps` applied to the draws it makes, and the
    k-th draw is in range (`≤ i + k`, being `< i + k + 1`). -/
theorem permLoop_eq_applySwaps (blocks : Nat → List Nat) (fuel : Nat) :
    ∀ (steps i : Nat) (s s' : Session) (a a' : List Nat),
      permLoop blocks fuel steps i s a = .ok (s', a') →
      ∃ js, js.length = steps ∧ InRange i js ∧ a' = applySwaps a i js := by
  intro steps
  induction steps with
  | zero =>
    intro i s s' a a' h
    simp only [permLoop] at h; injection h with h; injection h with _ h; subst h
    exact ⟨[], rfl, fun k hk => by simp at hk, rfl⟩
  | succ n ih =>
    intro i s s' a a' h
    simp only [permLoop] at h
    split at h
    · cases h
    · rename_i s1 j hj
      have hlt := u32InRange_lt blocks fuel s s1 (i + 1) j hj
      obtain ⟨js, hl, hr, ha⟩ := ih (i + 1) s1 s' (swap a i j) a' h
      refine ⟨j :: js, by simp [hl], ?_, by simpa [applySwaps] using ha⟩
      intro k hk
      cases k with
      | zero => simp; omega
      | succ k =>
        have := hr k (by simp at hk; omega)
        simp only [List.getD_eq_getElem?_getD, List.getElem?_cons_succ] at this ⊢
        omega

/-- full statement: for every `n`, the map from in-range index sequences `(j₁ ≤ 1, j₂ ≤ 2, …, j_{n−1} ≤ n−1)`
    to arrays is a bijection onto the permutations of `0..n−1` (so uniform independent draws give a
    uniform permutation).  Proved below as `fisherYates_bijective`. -/
def fisherYatesBijectiveStatement : Prop :=
  ∀ n : Nat,
    (∀ js js' : List Nat, js.length = n - 1 → js'.length = n - 1 → InRange 1 js → InRange 1 js' →
      applySwaps (List.range n) 1 js = applySwaps (List.range n) 1 js' → js = js') ∧
    (∀ p : List Nat, p.Perm (List.range n) →
      ∃ js, js.length = n - 1 ∧ InRange 1 js ∧ applySwaps (List.range n) 1 js = p)

/-- **Injective, and lands in the permutations**, for every `n` (the half that was proved first; kept
    because its second conjunct — every in-range sequence yields a permutation — is not part of
    `fisherYatesBijectiveStatement`). -/
theorem fisherYates_bijective_partial (n : Nat) :
    (∀ js js' : List Nat, js.length = n - 1 → js'.length = n - 1 → InRange 1 js → InRange 1 js' →
      applySwaps (List.range n) 1 js = applySwaps (List.range n) 1 js' → js = js') ∧
    (∀ js : List Nat, js.length = n - 1 → InRange 1 js → 1 ≤ n →
      (applySwaps (List.range n) 1 js).Perm (List.range n)) := by
  constructor
  · intro js js' h1 h2 hr hr' heq
    cases n with
    | zero =>
      rw [List.length_eq_zero_iff.mp h1, List.length_eq_zero_iff.mp h2]
    | succ n =>
      exact applySwaps_injective (List.range (n + 1)) List.nodup_range 1 n js js' h1 h2 hr hr'
        (by simp; omega) heq
  · intro js h1 hr hn
    exact (applySwaps_props js (List.range n) 1 hr (by simp; omega)).2.1

/-- **Surjectivity: every permutation of `0..n−1` is the output of the Fisher–Yates loop for some
    in-range sequence of draws**, for every `n`.  Constructive (`applySwaps_surjective`): the last draw
    is the position at which `p` holds the value `n−1`; undo that swap and recurse on the prefix.  (The
    loop started one index earlier with the forced draw `0` is the same loop, since `swap a 0 0 = a`.) -/
theorem fisherYates_surjective (n : Nat) (p : List Nat) (hp : p.Perm (List.range n)) :
    ∃ js, js.length = n - 1 ∧ InRange 1 js ∧ applySwaps (List.range n) 1 js = p := by
  cases n with
  | zero =>
    refine ⟨[], rfl, fun k hk => by simp at hk, ?_⟩
    simpa [applySwaps] using hp.symm
  | succ m =>
    obtain ⟨js, hl, hr, ha⟩ := applySwaps_surjective (m + 1) (List.range (m + 1)) p List.nodup_range hp
      (by simp) (fun q hq => by
        have h1 : p.length = m + 1 := by simpa using hp.length_eq
        simp [List.getD_eq_getElem?_getD, h1, hq])
    cases js with
    | nil => simp at hl
    | cons j js =>
      have hj : j = 0 := by have := hr 0 (by simp); simpa using this
      subst hj
      refine ⟨js, by simpa using hl, ?_, ?_⟩
      · have := hr.tail; simpa using this
      · rw [applySwaps, swap_self _ 0 (by simp)] at ha
        simpa using ha

/-- **The Fisher–Yates map is a bijection from in-range index sequences onto the permutations of
    `0..n−1`** (the full statement): so `n − 1` independent draws, the k-th uniform on `0..k`, give a
    uniformly distributed permutation — each of the `n!` permutations has exactly one preimage. -/
theorem fisherYates_bijective : fisherYatesBijectiveStatement :=
  fun n => ⟨(fisherYates_bijective_partial n).1, fisherYates_surjective n⟩

/-- the same with existence and uniqueness in one formula: every permutation has exactly one in-range
    preimage (and, by `fisherYates_bijective_partial`, every in-range sequence maps to a permutation) -/
theorem fisherYates_existsUnique (n : Nat) (p : List Nat) (hp : p.Perm (List.range n)) :
    ∃ js, (js.length = n - 1 ∧ InRange 1 js ∧ applySwaps (List.range n) 1 js = p) ∧
      ∀ js', js'.length = n - 1 ∧ InRange 1 js' ∧ applySwaps (List.range n) 1 js' = p → js' = js := by
  obtain ⟨js, h1, h2, h3⟩ := fisherYates_surjective n p hp
  exact ⟨js, ⟨h1, h2, h3⟩, fun js' ⟨g1, g2, g3⟩ =>
    (fisherYates_bijective_partial n).1 js' js g1 h1 g2 h2 (g3.trans h3.symm)⟩

/-- non-vacuity (surjectivity): the permutation [2, 0, 3, 1] of 0..3 is reached by the in-range draws
    0, 0, 2 (and only by them) -/
example : [2, 0, 3, 1].Perm (List.range 4) ∧ InRange 1 [0, 0, 2]
    ∧ applySwaps (List.range 4) 1 [0, 0, 2] = [2, 0, 3, 1] := by
  refine ⟨by decide, ?_, by decide⟩
  intro k hk
  have : k = 0 ∨ k = 1 ∨ k = 2 := by simp at hk; omega
  rcases this with rfl | rfl | rfl <;> simp

/-- non-vacuity: the six in-range sequences for n = 3 give the six permutations -/
example : [[0, 0], [0, 1], [0, 2], [1, 0], [1, 1], [1, 2]].map (applySwaps (List.range 3) 1)
    = [[2, 0, 1], [1, 2, 0], [1, 0, 2], [2, 1, 0], [0, 2, 1], [0, 1, 2]] := by decide

/-! ## purity across evaluator instances: the per-key PRF cache is transparent -/

/-- every cached `Prf` is the one `Prf::new(key)` would create -/
def CacheOk (mk : Nat → PrfObj) (c : Cache) : Prop := ∀ k p, c.find k = some p → p = mk k

/-- the value of a PRF / PermutationFromPRF node as a function of (key, iv, type / n) alone -/
def prfPure (mk : Nat → PrfObj) (fuel : Nat) : PrfOp → PrfOut
  | .value key iv t => .value (prfValue (mk key iv) INITIAL_BUFFER_SIZE t)
  | .perm key iv n => .perm (outputPermutation (mk key iv) fuel n)

/-- **PRF nodes are pure across evaluator instances, orders and multiplicities.**  Starting from any
    consistent cache (in particular the empty cache of a fresh `SimpleEvaluator`, or the cache left by
    any earlier evaluation), a sequence of PRF / PermutationFromPRF nodes evaluates node by node to
    `prfPure`, a function of (key, iv, output type) only — so two evaluators, or one evaluator visiting
    the nodes in another order or several times, obtain identical values. -/
theorem prfNodes_pure (mk : Nat → PrfObj) (fuel : Nat) (ops : List PrfOp) (c : Cache) (hc : CacheOk mk c) :
    prfNodes mk fuel c ops = ops.map (prfPure mk fuel) := by
  have hentry : ∀ (c : Cache) (key : Nat), CacheOk mk c →
      (Cache.entry mk c key).1 = mk key ∧ CacheOk mk (Cache.entry mk c key).2 := by
    intro c key hc
    unfold Cache.entry
    cases hf : c.find key with
    | some p => exact ⟨hc key p hf, hc⟩
    | none =>
      refine ⟨rfl, ?_⟩
      intro k p hk
      simp only [Cache.find] at hk
      split at hk
      · injection hk with hk; subst hk; rename_i h; subst h; rfl
      · exact hc k p hk
  induction ops generalizing c with
  | nil => rfl
  | cons op ops ih =>
    cases op with
    | value key iv t =>
      obtain ⟨h1, h2⟩ := hentry c key hc
      simp only [prfNodes, prfNode, List.map_cons, prfPure, h1]
      rw [ih _ h2]
    | perm key iv n =>
      obtain ⟨h1, h2⟩ := hentry c key hc
      simp only [prfNodes, prfNode, List.map_cons, prfPure, h1]
      rw [ih _ h2]

theorem cacheOk_empty (mk : Nat → PrfObj) : CacheOk mk [] := by
  intro k p h; simp [Cache.find] at h

/-- non-vacuity: two evaluators visiting (key 1, iv 0) and (key 2, iv 5) in different orders and
    multiplicities agree node by node -/
example (mk : Nat → PrfObj) (t : RTy) :
    prfNodes mk 9 [] [.value 1 0 t, .value 2 5 t, .value 1 0 t]
      = [prfPure mk 9 (.value 1 0 t), prfPure mk 9 (.value 2 5 t), prfPure mk 9 (.value 1 0 t)]
    ∧ prfNodes mk 9 [] [.value 2 5 t, .value 1 0 t] = [prfPure mk 9 (.value 2 5 t), prfPure mk 9 (.value 1 0 t)] :=
  ⟨prfNodes_pure mk 9 _ [] (cacheOk_empty mk), prfNodes_pure mk 9 _ [] (cacheOk_empty mk)⟩

end CCV.C15
