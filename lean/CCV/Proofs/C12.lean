import CCV.Lemmas.Serde
/-
  C12 — contexts survive serialisation; malformed input is an error, not a crash.
  Model: CCV/Model/Serde.lean (`toSer` = `Context::make_serializable`, `recover` =
  `SerializableContextBody::recover_original_context`); definitions of `WF`, `DeepEq`, `canon`,
  `SortedBy` and all helper lemmas in CCV/Lemmas/Serde.lean.  Operations are opaque tags: the
  type-inference verdict that the replay re-computes is outside the model (covered by the
  correspondence run only).

  The examples use `exCtx` (CCV/Lemmas/Serde.lean): two finalized graphs, node 2 of graph 1 is
  Call-like (`gdeps = [0]`), main graph 1, names and annotations listed NOT in key order; `exCtx'`
  is the same context with every table listed in yet another order.
-/
namespace CCV.C12
open CCV CCV.Serde

/-- **Round trip.** Every well-formed context is recovered from its serialisation, exactly, with its
    tables listed in key order … -/
theorem roundtrip (c : Ctx) (h : WF c) : recover (toSer c) = .ok (canon c) :=
  recover_toSer h

-- the hypothesis is satisfiable, the conclusion is what evaluation gives, and `canon` is not the
-- identity on the instance (the tables really are reordered)
example : WF exCtx := exCtx_wf
example : recover (toSer exCtx) = .ok (canon exCtx) := by rfl
example : canon exCtx ≠ exCtx := by decide
example : (canon exCtx).nodeNames = [((0,0), 5), ((1,0), 9), ((1,2), 5)] := by decide

/-- … which is deeply equal (`contexts_deep_equal`) to the original … -/
theorem canon_deepEq (c : Ctx) : DeepEq c (canon c) :=
  canon_perm c

-- `DeepEq` is not equality (it relates `exCtx` to a different value) and not trivial (changing one
-- name breaks it)
example : DeepEq exCtx exCtx' ∧ exCtx ≠ exCtx' := ⟨by constructor <;> decide, by decide⟩
example : ¬ DeepEq exCtx { exCtx with graphNames := [(1, 7), (0, 4)] } :=
  fun h => absurd h.graphNames (by decide)

/-- … and identical to it when the hash maps are listed in key order. -/
theorem roundtrip_sorted (c : Ctx) (h : WF c) (hs : TablesSorted c) : recover (toSer c) = .ok c := by
  rw [recover_toSer h, canon_of_sorted hs]

-- both hypotheses hold of `canon exCtx`; the sortedness hypothesis fails for `exCtx`, and so does
-- the conclusion
example : WF (canon exCtx) ∧ TablesSorted (canon exCtx) :=
  ⟨(recover_ok (roundtrip exCtx exCtx_wf)).1, by unfold TablesSorted SortedBy; decide⟩
example : ¬ TablesSorted exCtx := by unfold TablesSorted SortedBy; decide
example : recover (toSer exCtx) ≠ .ok exCtx := by
  rw [roundtrip exCtx exCtx_wf]; intro h; injection h with h; revert h; decide

/-- **Re-serialisation gives the identical value** (hence identical text). -/
theorem reserialize (c c' : Ctx) (h : WF c) (hr : recover (toSer c) = .ok c') : toSer c' = toSer c := by
  rw [recover_toSer h] at hr
  injection hr with hr
  subst hr
  exact toSer_canon h

example : toSer (canon exCtx) = toSer exCtx := by decide
example : encSer (toSer (canon exCtx)) = encSer (toSer exCtx) := by decide
-- (the recovered context differs from the original although it serialises identically)
example : toSer (canon exCtx) = toSer exCtx ∧ canon exCtx ≠ exCtx := by decide

/-- **Canonical tables.** The serialised tables of a well-formed context are strictly increasing
    in their keys (sorted and duplicate-free) … -/
theorem toSer_sorted (c : Ctx) (h : WF c) :
    SortedBy ltNat (toSer c).graphNames ∧ SortedBy ltPair (toSer c).nodeNames ∧
    SortedBy ltNat (toSer c).graphAnns ∧ SortedBy ltPair (toSer c).nodeAnns :=
  toSer_tablesSorted h

example : (toSer exCtx).graphNames = [(0, 3), (1, 7)] ∧
    (toSer exCtx).nodeNames = [((0,0), 5), ((1,0), 9), ((1,2), 5)] ∧
    (toSer exCtx).graphAnns = [(1, [2,0])] ∧
    (toSer exCtx).nodeAnns = [((0,2), [1,1]), ((1,3), [4])] := by decide
-- `SortedBy` is violated by the unsorted listings and by a duplicate key
example : ¬ SortedBy ltNat exCtx.graphNames := by unfold SortedBy; decide
example : ¬ SortedBy ltPair exCtx.nodeAnns := by unfold SortedBy; decide
example : ¬ SortedBy ltNat [(0, 3), (0, 7)] := by unfold SortedBy; decide
-- without the unique-key part of `WF` the conclusion fails
example : ¬ SortedBy ltNat (toSer { exCtx with graphNames := [(1, 7), (1, 3)] }).graphNames := by
  unfold SortedBy; decide

/-- … so the serialisation does not depend on the iteration order of the hash maps: deeply equal
    well-formed contexts serialise to the same value. -/
theorem toSer_canonical (c d : Ctx) (hc : WF c) (hd : WF d) (h : DeepEq c d) : toSer c = toSer d := by
  have _ := hd -- not needed: unique keys of `d` follow from those of `c` and `h`
  exact toSer_eq_of_deepEq hc h

example : WF exCtx' := exCtx'_wf
example : exCtx ≠ exCtx' ∧ toSer exCtx = toSer exCtx' := by decide
example : toSer exCtx ≠ exCtx.asSer := by decide
-- a context that is not deeply equal serialises differently
example : toSer exCtx ≠ toSer { exCtx with graphNames := [(1, 7), (0, 4)] } := by decide

/-- **Recovery never yields an ill-formed context** (whatever the input). -/
theorem recover_wf (s : SerCtx) (c : Ctx) (h : recover s = .ok c) : WF c :=
  (recover_ok h).1

-- the hypothesis is satisfiable, also for a listing that is not in key order …
example : isOk (recover (toSer exCtx)) = true := by decide
example : recover exCtx.asSer = .ok exCtx := by rfl
-- … and ill-formed inputs are rejected: forward node dependency (node 2 of graph 0 uses node 3),
example : isOk (recover { toSer exCtx with graphs :=
    [ ⟨true, [⟨1,[],[]⟩, ⟨1,[],[]⟩, ⟨2,[0,3],[]⟩], some 2⟩,
      ⟨true, [⟨1,[],[]⟩, ⟨1,[],[]⟩, ⟨5,[0,1],[0]⟩, ⟨4,[2,0],[]⟩], some 3⟩ ] }) = false := by decide
-- self dependency,
example : isOk (recover { toSer exCtx with graphs :=
    [ ⟨true, [⟨1,[],[]⟩, ⟨1,[],[]⟩, ⟨2,[0,2],[]⟩], some 2⟩,
      ⟨true, [⟨1,[],[]⟩, ⟨1,[],[]⟩, ⟨5,[0,1],[0]⟩, ⟨4,[2,0],[]⟩], some 3⟩ ] }) = false := by decide
-- forward graph dependency (graph 0 calls graph 1), dependency on the graph itself, on a graph
-- that does not exist, on a graph that is not finalized,
example : isOk (recover { toSer exCtx with graphs :=
    [ ⟨true, [⟨1,[],[]⟩, ⟨1,[],[]⟩, ⟨5,[0,1],[1]⟩], some 2⟩,
      ⟨true, [⟨1,[],[]⟩, ⟨1,[],[]⟩, ⟨5,[0,1],[0]⟩, ⟨4,[2,0],[]⟩], some 3⟩ ] }) = false := by decide
example : isOk (recover { toSer exCtx with graphs :=
    [ ⟨true, [⟨1,[],[]⟩, ⟨1,[],[]⟩, ⟨2,[0,1],[]⟩], some 2⟩,
      ⟨true, [⟨1,[],[]⟩, ⟨1,[],[]⟩, ⟨5,[0,1],[1]⟩, ⟨4,[2,0],[]⟩], some 3⟩ ] }) = false := by decide
example : isOk (recover { toSer exCtx with graphs :=
    [ ⟨true, [⟨1,[],[]⟩, ⟨1,[],[]⟩, ⟨2,[0,1],[]⟩], some 2⟩,
      ⟨true, [⟨1,[],[]⟩, ⟨1,[],[]⟩, ⟨5,[0,1],[7]⟩, ⟨4,[2,0],[]⟩], some 3⟩ ] }) = false := by decide
example : isOk (recover { toSer exCtx with finalized := false, graphs :=
    [ ⟨false, [⟨1,[],[]⟩, ⟨1,[],[]⟩, ⟨2,[0,1],[]⟩], some 2⟩,
      ⟨true, [⟨1,[],[]⟩, ⟨1,[],[]⟩, ⟨5,[0,1],[0]⟩, ⟨4,[2,0],[]⟩], some 3⟩ ] }) = false := by decide
-- output node out of range, finalized graph without output, main graph out of range,
example : isOk (recover { toSer exCtx with graphs :=
    [ ⟨true, [⟨1,[],[]⟩, ⟨1,[],[]⟩, ⟨2,[0,1],[]⟩], some 3⟩,
      ⟨true, [⟨1,[],[]⟩, ⟨1,[],[]⟩, ⟨5,[0,1],[0]⟩, ⟨4,[2,0],[]⟩], some 3⟩ ] }) = false := by decide
example : isOk (recover { toSer exCtx with graphs :=
    [ ⟨true, [⟨1,[],[]⟩, ⟨1,[],[]⟩, ⟨2,[0,1],[]⟩], none⟩,
      ⟨true, [⟨1,[],[]⟩, ⟨1,[],[]⟩, ⟨5,[0,1],[0]⟩, ⟨4,[2,0],[]⟩], some 3⟩ ] }) = false := by decide
example : isOk (recover { toSer exCtx with main := some 2 }) = false := by decide
example : isOk (recover { toSer exCtx with main := none }) = false := by decide
-- name / annotation ids out of range (the unpatched Rust code panics on the last two),
example : isOk (recover { toSer exCtx with graphNames := [(0, 3), (2, 7)] }) = false := by decide
example : isOk (recover { toSer exCtx with nodeNames := [((0,3), 5)] }) = false := by decide
example : isOk (recover { toSer exCtx with graphAnns := [(2, [1])] }) = false := by decide
example : isOk (recover { toSer exCtx with nodeAnns := [((1,4), [1])] }) = false := by decide
example : isOk (recover { toSer exCtx with nodeAnns := [((2,0), [1])] }) = false := by decide
-- a graph named twice, a duplicate graph name, a duplicate node name within a graph (the same
-- node name in two graphs is fine: `exCtx` has it).
example : isOk (recover { toSer exCtx with graphNames := [(0, 3), (0, 7)] }) = false := by decide
example : isOk (recover { toSer exCtx with graphNames := [(0, 3), (1, 3)] }) = false := by decide
example : isOk (recover { toSer exCtx with nodeNames := [((1,0), 9), ((1,2), 9)] }) = false := by
  decide
example : isOk (recover { toSer exCtx with nodeNames := [((0,0), 9), ((1,2), 9)] }) = true := by
  decide

/-- what is recovered has exactly the serialised graphs, main graph and flag (so e.g. a forward or
    dangling dependency in `s` makes `recover s` an error, by `recover_wf`) -/
theorem recover_shape (s : SerCtx) (c : Ctx) (h : recover s = .ok c) :
    c.graphs = s.graphs ∧ c.main = s.main ∧ c.finalized = s.finalized :=
  (recover_ok h).2

example : ∃ c, recover (toSer exCtx) = .ok c ∧ c.graphs = exCtx.graphs ∧ c.main = some 1 ∧
    c.finalized = true := ⟨canon exCtx, by rfl, by decide⟩

/-- **Totality**: `recover` is a total function — on every input it returns a context or an error.
    Rust counterparts that panic instead (unpatched tree): indexing `current_graphs[id]` /
    `current_nodes[node_id]` in the annotation loops (graphs.rs:3906-3924) and `expect()` on the
    inner payload (graphs.rs:4666, data_values.rs:163); the latter two are outside this model
    (text level), covered by the mutational correspondence stream. -/
theorem recover_total (s : SerCtx) : (∃ c, recover s = .ok c) ∨ (∃ e, recover s = .error e) := by
  cases recover s with
  | ok c => exact .inl ⟨c, rfl⟩
  | error e => exact .inr ⟨e, rfl⟩

-- both alternatives occur
example : ∃ c, recover (toSer exCtx) = .ok c := ⟨_, by rfl⟩
example : ∃ e, recover { toSer exCtx with graphAnns := [(2, [1])] } = .error e := ⟨_, by rfl⟩

end CCV.C12
