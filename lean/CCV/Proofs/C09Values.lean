import CCV.Model.EvalOps
import CCV.Lemmas.EvalOps7
import CCV.Proofs.C09
/-
  C09, value-level half — "type inference is sound for evaluation; well-typed programs never crash".

  Two models are connected here:
    `CCV.TI.infer`        the typing rule of one node (`process_node`, Model/TypeInfer.lean);
    `CCV.EvalOps.evalOp`  the evaluation of one node (`SimpleEvaluator::evaluate_node`), the adapter of
                          Model/EvalOps.lean that extracts shapes / scalar types from the dependency types
                          and the inferred node type and calls the evaluator-shaped functions of
                          `CCV.Ops` (the C10 model).  Both are executed by the model driver and compared
                          with the Rust code on every run (`infer …` / `evalop …` requests of C09).

  For every covered operation, all scalar types, ranks, shapes, parameters and values:
    if `infer op tys = .ok t`, the dependency types are valid (they are types of registered nodes) and the
    dependency values have those types (`hasType`: `prod shape` residues, each below `2^bits`; the right
    number of well-typed children for vectors / tuples / named tuples), then
      * SOUNDNESS  the value computed by `evalOp` has type `t`;
      * TOTALITY   `evalOp` returns a value (the model evaluator is never stuck / never fails, no index of
                   `to_vector()`, `flattened_value[..]`, `slice_index` is out of range) — except for Gather,
                   InversePermutation, ApplyPermutation and VectorGet, whose run-time errors are
                   characterised exactly (index out of range / not a permutation / vector index ≥ length).
  GetSlice totality rests on `slices_models_agree`: the typing rule's copy of slices.rs and the evaluator
  model's copy accept the same slices with the same shapes.
  Helper lemmas: CCV/Lemmas/EvalOps{,2,3,4,5,6}.lean.
-/
namespace CCV.C09
open CCV CCV.TV CCV.Shape CCV.EvalOps
open CCV.TI hiding prod broadcastShapes transposeShape

/-- the statement proved for every total operation: well-typed inputs give a well-typed output -/
def ValueSound (op : Op) : Prop :=
  ∀ (tys : List Ty) (t : Ty) (vs : List EV), (∀ ty ∈ tys, ty.isValid = true) → infer op tys = .ok t →
    hasTypeL tys vs → ∃ v, evalOp op tys vs = .ok v ∧ hasType t v

/-! ### Add / Subtract / Multiply / MixedMultiply -/

/-- **Add, Subtract, Multiply with broadcasting** (scalars and arrays of all 11 scalar types, all
    broadcastable shapes): the result exists, has `prod (broadcast shape)` entries, each below `2^bits`. -/
theorem arith_value_sound : ValueSound .add ∧ ValueSound .subtract ∧ ValueSound .multiply := by
  have key : ∀ (op : Op) (aop : Ops.Arith),
      (∀ tys, inferRaw op tys = inferBin (fun a b => broadcastArrays [a, b]) tys) →
      numDeps op = some 2 →
      (∀ (a b t : Ty) (xs ys : List Nat), infer op [a, b] = .ok t →
        evalOp op [a, b] [.arr xs, .arr ys]
          = okArr (Ops.arith aop (stE a) (dimsE a) xs (dimsE b) ys (dimsE t))) →
      ValueSound op := by
    intro op aop hraw hnd hev tys t vs hv hi hvs
    obtain ⟨a, b, rfl⟩ := infer_arity2 hi hnd
    obtain ⟨v1, v2, rfl, hv1, hv2⟩ := hasTypeL_two hvs
    have hr := infer_ok_raw hi
    rw [hraw] at hr
    have hp := broadcastArrays_two (a := a) (b := b) hr
    obtain ⟨f1, f2, ft, e1, _, b1, b2⟩ := broadcastPair_facts (hv a (by simp)) (hv b (by simp)) hp
    obtain ⟨xs, rfl, hx⟩ := hasType_flat_arr f1 hv1
    obtain ⟨ys, rfl, hy⟩ := hasType_flat_arr f2 hv2
    obtain ⟨r, hr, hok⟩ := arith_typed aop (stE a) (dimsE a) xs (dimsE b) ys (dimsE t) b1 b2
    refine ⟨.arr r, by rw [hev a b t xs ys hi, hr]; rfl, (hasType_flat ft r).mpr (e1 ▸ hok)⟩
  refine ⟨key .add .add (fun _ => rfl) rfl ?_, key .subtract .sub (fun _ => rfl) rfl ?_,
    key .multiply .mul (fun _ => rfl) rfl ?_⟩ <;>
  · intro a b t xs ys hi
    simp only [evalOp, hi, bin]

example : evalOp .subtract [.array [3] .i8, .array [2, 1] .i8] [.arr [1, 2, 3], .arr [5, 255]]
    = .ok (.arr [252, 253, 254, 2, 3, 4]) := by rfl

/-- **MixedMultiply** (integer scalar / array times bit scalar / array, with broadcasting). -/
theorem mixedMultiply_value_sound : ValueSound .mixedMultiply := by
  intro tys t vs hv hi hvs
  obtain ⟨a, b, rfl⟩ := infer_arity2 hi rfl
  obtain ⟨v1, v2, rfl, hv1, hv2⟩ := hasTypeL_two hvs
  have hr := infer_ok_raw hi
  have ha := hv a (by simp)
  have hb := hv b (by simp)
  have facts : isFlat a = true ∧ isFlat b = true ∧ isFlat t = true ∧ stE a = stE t ∧
      bcOK (dimsE a) (dimsE t) ∧ bcOK (dimsE b) (dimsE t) := by
    simp only [inferRaw, inferBin, mixedMultiplyInfer] at hr
    cases a with
    | scalar sa =>
      cases b with
      | scalar sb =>
        simp only [stOf] at hr
        split at hr; · cases hr
        split at hr; · cases hr
        injection hr with hr; subst hr
        exact ⟨rfl, rfl, rfl, rfl, bcOK_refl _, bcOK_refl _⟩
      | array s2 sb =>
        simp only [stOf] at hr
        split at hr; · cases hr
        split at hr; · cases hr
        injection hr with hr; subst hr
        exact ⟨rfl, rfl, rfl, rfl, bcOK_one (valid_array hb).1, bcOK_refl _⟩
      | vector n e => simp [stOf] at hr
      | tuple ts => simp [stOf] at hr
      | named fs => simp [stOf] at hr
    | array s1 sa =>
      cases b with
      | scalar sb =>
        simp only [stOf] at hr
        split at hr; · cases hr
        split at hr; · cases hr
        injection hr with hr; subst hr
        exact ⟨rfl, rfl, rfl, rfl, bcOK_refl _, bcOK_one (valid_array ha).1⟩
      | array s2 sb =>
        simp only [stOf] at hr
        split at hr; · cases hr
        split at hr; · cases hr
        split at hr
        · rename_i r hbs
          injection hr with hr; subst hr
          exact ⟨rfl, rfl, rfl, rfl, bcOK_left (valid_array ha).2 (valid_array hb).2 hbs,
            bcOK_right (valid_array ha).2 (valid_array hb).2 hbs⟩
        · cases hr
      | vector n e => simp [stOf] at hr
      | tuple ts => simp [stOf] at hr
      | named fs => simp [stOf] at hr
    | vector n e => simp [stOf] at hr
    | tuple ts => simp [stOf] at hr
    | named fs => simp [stOf] at hr
  obtain ⟨f1, f2, ft, e1, b1, b2⟩ := facts
  obtain ⟨xs, rfl, hx⟩ := hasType_flat_arr f1 hv1
  obtain ⟨ys, rfl, hy⟩ := hasType_flat_arr f2 hv2
  obtain ⟨r, hr, hok⟩ := mixedMultiply_typed (stE a) (dimsE a) xs (dimsE b) ys (dimsE t) b1 b2
  refine ⟨.arr r, ?_, (hasType_flat ft r).mpr (e1 ▸ hok)⟩
  simp only [evalOp, hi, bin, hr, okArr]

example : evalOp .mixedMultiply [.array [2] .i16, .array [2, 1] .bit] [.arr [65535, 7], .arr [1, 0]]
    = .ok (.arr [65535, 7, 0, 0]) := by rfl

/-! ### Truncate / Sum / CumSum / PermuteAxes / Get / NOP -/

/-- **Truncate** (scalars and arrays): same type, every entry reduced into the type. -/
theorem truncate_value_sound (d : Nat) : ValueSound (.truncate d) := by
  intro tys t vs hv hi hvs
  obtain ⟨a, rfl⟩ := infer_arity1 hi rfl
  obtain ⟨v, rfl, hv1⟩ := hasTypeL_one hvs
  have hr := infer_ok_raw hi
  simp only [inferRaw, inferTruncate] at hr
  split at hr; · cases hr
  have fa : isFlat a = true ∧ t = a := by
    cases a with
    | scalar sa => simp only [stOf] at hr; split at hr; · cases hr
                   · injection hr with hr; exact ⟨rfl, hr.symm⟩
    | array s sa => simp only [stOf] at hr; split at hr; · cases hr
                    · injection hr with hr; exact ⟨rfl, hr.symm⟩
    | vector n e => simp [stOf] at hr
    | tuple ts => simp [stOf] at hr
    | named fs => simp [stOf] at hr
  obtain ⟨fa, rfl⟩ := fa
  obtain ⟨xs, rfl, hx⟩ := hasType_flat_arr fa hv1
  refine ⟨.arr (Ops.truncate (stE t) d xs), by simp only [evalOp, hi, un], ?_⟩
  have := truncate_typed (stE t) d xs
  rw [hx.1] at this
  exact (hasType_flat fa _).mpr this

example : evalOp (.truncate 3) [.array [3] .i8] [.arr [249, 7, 128]] = .ok (.arr [254, 2, 214]) := by rfl

/-- **Sum** over any duplicate-free set of axes (scalar result when all axes are summed). -/
theorem sum_value_sound (axes : List Nat) : ValueSound (.sum axes) := by
  intro tys t vs hv hi hvs
  obtain ⟨a, rfl⟩ := infer_arity1 hi rfl
  obtain ⟨v, rfl, hv1⟩ := hasTypeL_one hvs
  have hr := infer_ok_raw hi
  cases a with
  | array s st =>
    obtain ⟨xs, rfl, hx⟩ := hasType_array hv1
    simp only [inferRaw, inferSum] at hr
    split at hr; · cases hr
    split at hr; · cases hr
    injection hr with hr
    have typed := sum_typed st s xs axes
    refine ⟨_, by simp only [evalOp, hi, un]; rfl, ?_⟩
    subst hr
    cases hd : dropAxes axes s 0 with
    | nil =>
      simp only [arrOrScalar, List.isEmpty_nil, if_true]
      exact hasType_scalar_mk typed.1
    | cons d ds =>
      simp only [arrOrScalar, List.isEmpty_cons, Bool.false_eq_true, if_false]
      apply hasType_array_mk
      apply typed.2
      intro hax
      subst hax
      rw [dropAxes_nil] at hd
      rw [← hd]
      exact hx
  | scalar sa => simp [inferRaw, inferSum] at hr
  | vector n e => simp [inferRaw, inferSum] at hr
  | tuple ts => simp [inferRaw, inferSum] at hr
  | named fs => simp [inferRaw, inferSum] at hr

example : evalOp (.sum [0]) [.array [2, 3] .u8] [.arr [1, 2, 3, 4, 5, 250]] = .ok (.arr [5, 7, 253]) ∧
    evalOp (.sum [0, 1]) [.array [2, 2] .i8] [.arr [127, 1, 255, 3]] = .ok (.arr [130]) := ⟨rfl, rfl⟩

/-- **CumSum** along any axis: same type. -/
theorem cumSum_value_sound (axis : Nat) : ValueSound (.cumSum axis) := by
  intro tys t vs hv hi hvs
  obtain ⟨a, rfl⟩ := infer_arity1 hi rfl
  obtain ⟨v, rfl, hv1⟩ := hasTypeL_one hvs
  have hr := infer_ok_raw hi
  cases a with
  | array s st =>
    obtain ⟨rfl, _⟩ := cumSum_shape_sound hi
    obtain ⟨xs, rfl, hx⟩ := hasType_array hv1
    refine ⟨_, by simp only [evalOp, hi, un] <;> rfl, ?_⟩
    have := cumSum_typed st s xs axis
    rw [hx.1] at this
    exact hasType_array_mk this
  | scalar sa => simp [inferRaw, inferCumSum] at hr
  | vector n e => simp [inferRaw, inferCumSum] at hr
  | tuple ts => simp [inferRaw, inferCumSum] at hr
  | named fs => simp [inferRaw, inferCumSum] at hr

example : evalOp (.cumSum 1) [.array [2, 3] .i8] [.arr [1, 2, 3, 4, 5, 250]] = .ok (.arr [1, 3, 6, 4, 9, 3]) := by
  rfl

/-- **PermuteAxes** by any permutation of the axes. -/
theorem permuteAxes_value_sound (axes : List Nat) : ValueSound (.permuteAxes axes) := by
  intro tys t vs hv hi hvs
  obtain ⟨a, rfl⟩ := infer_arity1 hi rfl
  obtain ⟨v, rfl, hv1⟩ := hasTypeL_one hvs
  have hr := infer_ok_raw hi
  cases a with
  | array s st =>
    obtain ⟨hd, hlt, hl, rfl⟩ := permuteAxes_shape_sound hi
    obtain ⟨xs, rfl, hx⟩ := hasType_array hv1
    refine ⟨_, by simp only [evalOp, hi, un] <;> rfl, ?_⟩
    have := permuteAxes_typed st xs s axes (axes.map fun i => s.getD i 0) hx.2
    rw [hx.1, ← Ops.prod_map_perm hl (hasDup_false_nodup axes hd) hlt] at this
    exact hasType_array_mk this
  | scalar sa => simp [inferRaw, inferPermuteAxes] at hr
  | vector n e => simp [inferRaw, inferPermuteAxes] at hr
  | tuple ts => simp [inferRaw, inferPermuteAxes] at hr
  | named fs => simp [inferRaw, inferPermuteAxes] at hr

example : evalOp (.permuteAxes [1, 0]) [.array [2, 3] .u8] [.arr [1, 2, 3, 4, 5, 6]] = .ok (.arr [1, 4, 2, 5, 3, 6]) := by
  rfl

/-- **Get** (any in-range index prefix; scalar result when the index is complete). -/
theorem get_value_sound (idx : List Nat) : ValueSound (.get idx) := by
  intro tys t vs hv hi hvs
  obtain ⟨a, rfl⟩ := infer_arity1 hi rfl
  obtain ⟨v, rfl, hv1⟩ := hasTypeL_one hvs
  have hr := infer_ok_raw hi
  cases a with
  | array s st =>
    obtain ⟨hle, hlt, rfl⟩ := get_shape_sound hi
    obtain ⟨xs, rfl, hx⟩ := hasType_array hv1
    refine ⟨_, by simp only [evalOp, hi, un] <;> rfl, ?_⟩
    have := get_typed st s xs idx hle (allLt_validIdx idx s hle hlt) hx
    split
    · rename_i he
      rw [he, List.drop_length] at this
      exact hasType_scalar_mk this
    · exact hasType_array_mk this
  | scalar sa => simp [inferRaw, inferGet] at hr
  | vector n e => simp [inferRaw, inferGet] at hr
  | tuple ts => simp [inferRaw, inferGet] at hr
  | named fs => simp [inferRaw, inferGet] at hr

example : evalOp (.get [1]) [.array [2, 3] .u128] [.arr [1, 2, 3, 2 ^ 100 + 7, 5, 6]] = .ok (.arr [2 ^ 100 + 7, 5, 6]) := by
  rfl

/-- **NOP**: the value is passed through. -/
theorem nop_value_sound : ValueSound .nop := by
  intro tys t vs hv hi hvs
  obtain ⟨a, rfl⟩ := infer_arity1 hi rfl
  obtain ⟨v, rfl, hv1⟩ := hasTypeL_one hvs
  have hr := infer_ok_raw hi
  simp only [inferRaw, inferUn] at hr
  injection hr with hr
  subst hr
  exact ⟨v, by simp only [evalOp, hi], hv1⟩

/-! ### Dot / Matmul / Gemm -/

/-- **Dot**: 1-d · 1-d (scalar result), N-d · 1-d, N-d · M-d, and the scalar cases (elementwise product). -/
theorem dot_value_sound : ValueSound .dot := by
  intro tys t vs hv hi hvs
  obtain ⟨a, b, rfl⟩ := infer_arity2 hi rfl
  obtain ⟨v1, v2, rfl, hv1, hv2⟩ := hasTypeL_two hvs
  have hr := infer_ok_raw hi
  have ha := hv a (by simp)
  have hb := hv b (by simp)
  simp only [inferRaw, inferBin] at hr
  -- the scalar cases are an elementwise product with broadcasting
  have scal : ∀ (a b : Ty) (v1 v2 : EV), ¬ (isArr a = true ∧ isArr b = true) → isFlat a = true → isFlat b = true →
      isFlat t = true → stE a = stE t → bcOK (dimsE a) (dimsE t) → bcOK (dimsE b) (dimsE t) →
      infer .dot [a, b] = .ok t → hasType a v1 → hasType b v2 →
      ∃ v, evalOp .dot [a, b] [v1, v2] = .ok v ∧ hasType t v := by
    intro a b v1 v2 hna f1 f2 ft e1 b1 b2 hi hv1 hv2
    obtain ⟨xs, rfl, hx⟩ := hasType_flat_arr f1 hv1
    obtain ⟨ys, rfl, hy⟩ := hasType_flat_arr f2 hv2
    obtain ⟨r, hr, hok⟩ := arith_typed .mul (stE a) (dimsE a) xs (dimsE b) ys (dimsE t) b1 b2
    refine ⟨.arr r, ?_, (hasType_flat ft r).mpr (e1 ▸ hok)⟩
    simp only [evalOp, hi, bin, if_neg hna, hr, okArr]
  cases a with
  | array s0 st0 =>
    cases b with
    | array s1 st1 =>
      obtain ⟨xs, rfl, hx⟩ := hasType_array hv1
      obtain ⟨ys, rfl, hy⟩ := hasType_array hv2
      refine ⟨_, by simp only [evalOp, hi, bin, isArr, and_self, if_true] <;> rfl, ?_⟩
      have typed := dot_typed st0 s0 xs s1 ys (dimsE t)
      by_cases h11 : s0.length = 1 ∧ s1.length = 1
      · obtain ⟨k0, rfl⟩ := List.length_eq_one_iff.mp h11.1
        obtain ⟨k1, rfl⟩ := List.length_eq_one_iff.mp h11.2
        have e := dotInfer_11 k0 k1 st0 st1 hr
        subst e
        exact hasType_scalar_mk (typed.1 h11)
      · have ft : ∃ rs, t = .array rs st0 := dotInfer_nn h11 hr
        obtain ⟨rs, rfl⟩ := ft
        exact hasType_array_mk (typed.2 h11)
    | scalar sb =>
      have e : t = .array s0 st0 := by
        simp only [dotInfer, stOf] at hr
        split at hr; · cases hr
        injection hr with hr; exact hr.symm
      subst e
      exact scal _ _ v1 v2 (by simp [isArr]) rfl rfl rfl rfl (bcOK_refl _) (bcOK_one (valid_array ha).1) hi hv1 hv2
    | vector n e => simp [dotInfer, stOf] at hr
    | tuple ts => simp [dotInfer, stOf] at hr
    | named fs => simp [dotInfer, stOf] at hr
  | scalar sa =>
    cases b with
    | array s1 st1 =>
      have e : sa = st1 ∧ t = .array s1 st1 := by
        simp only [dotInfer, stOf] at hr
        split at hr; · cases hr
        rename_i hne
        injection hr with hr; exact ⟨by simpa using hne, hr.symm⟩
      obtain ⟨rfl, rfl⟩ := e
      exact scal _ _ v1 v2 (by simp [isArr]) rfl rfl rfl rfl (bcOK_one (valid_array hb).1) (bcOK_refl _) hi hv1 hv2
    | scalar sb =>
      have e : sa = sb ∧ t = .scalar sb := by
        simp only [dotInfer, stOf] at hr
        split at hr; · cases hr
        rename_i hne
        injection hr with hr; exact ⟨by simpa using hne, hr.symm⟩
      obtain ⟨rfl, rfl⟩ := e
      exact scal _ _ v1 v2 (by simp [isArr]) rfl rfl rfl rfl (bcOK_refl _) (bcOK_refl _) hi hv1 hv2
    | vector n e => simp [dotInfer, stOf] at hr
    | tuple ts => simp [dotInfer, stOf] at hr
    | named fs => simp [dotInfer, stOf] at hr
  | vector n e => simp [dotInfer, stOf] at hr
  | tuple ts => simp [dotInfer, stOf] at hr
  | named fs => simp [dotInfer, stOf] at hr

example : evalOp .dot [.array [2, 2] .u8, .array [2] .u8] [.arr [1, 2, 3, 4], .arr [10, 100]] = .ok (.arr [210, 174]) := by
  rfl

/-- **Matmul** (all ranks ≥ 1, batch broadcasting; 1-d · 1-d gives a scalar). -/
theorem matmul_value_sound : ValueSound .matmul := by
  intro tys t vs hv hi hvs
  obtain ⟨a, b, rfl⟩ := infer_arity2 hi rfl
  obtain ⟨v1, v2, rfl, hv1, hv2⟩ := hasTypeL_two hvs
  have hr := infer_ok_raw hi
  simp only [inferRaw, inferBin] at hr
  cases a with
  | array s0 st0 =>
    cases b with
    | array s1 st1 =>
      obtain ⟨xs, rfl, hx⟩ := hasType_array hv1
      obtain ⟨ys, rfl, hy⟩ := hasType_array hv2
      refine ⟨_, by simp only [evalOp, hi, bin] <;> rfl, ?_⟩
      have typed := matmul_typed st0 s0 xs s1 ys (dimsE t)
      by_cases h11 : s0.length = 1 ∧ s1.length = 1
      · obtain ⟨k0, rfl⟩ := List.length_eq_one_iff.mp h11.1
        obtain ⟨k1, rfl⟩ := List.length_eq_one_iff.mp h11.2
        have e := matmulInfer_11 k0 k1 st0 st1 hr
        subst e
        exact hasType_scalar_mk (typed.1 h11)
      · have ft : ∃ rs, t = arrOrScalar rs st0 := matmulInfer_arrOrScalar hr
        obtain ⟨rs, rfl⟩ := ft
        have := typed.2 h11
        rw [prod_dimsE_arrOrScalar] at this
        exact hasType_arrOrScalar_mk this
    | scalar sb => simp [matmulInfer] at hr
    | vector n e => simp [matmulInfer] at hr
    | tuple ts => simp [matmulInfer] at hr
    | named fs => simp [matmulInfer] at hr
  | scalar sa => simp [matmulInfer] at hr
  | vector n e => simp [matmulInfer] at hr
  | tuple ts => simp [matmulInfer] at hr
  | named fs => simp [matmulInfer] at hr

example : evalOp .matmul [.array [1, 2, 2] .u8, .array [2, 2, 1] .u8] [.arr [1, 2, 3, 4], .arr [1, 1, 2, 3]]
    = .ok (.arr [3, 7, 8, 18]) := by rfl

/-- **Gemm(ta, tb)**, all four flag combinations, all batch ranks: the model evaluator succeeds
    (no slice of `general_gemm` is out of range) and the result has the inferred type. -/
theorem gemm_value_sound (ta tb : Bool) : ValueSound (.gemm ta tb) := by
  intro tys t vs hv hi hvs
  obtain ⟨a, b, rfl⟩ := infer_arity2 hi rfl
  obtain ⟨v1, v2, rfl, hv1, hv2⟩ := hasTypeL_two hvs
  have hr := infer_ok_raw hi
  have ha := hv a (by simp)
  have hb := hv b (by simp)
  simp only [inferRaw, inferBin] at hr
  cases a with
  | array s0 st0 =>
    cases b with
    | array s1 st1 =>
      obtain ⟨xs, rfl, hx⟩ := hasType_array hv1
      obtain ⟨ys, rfl, hy⟩ := hasType_array hv2
      have hst : st0 = st1 ∧ ¬ (s0.length = 1 ∨ s1.length = 1) := by
        simp only [gemmInfer] at hr
        split at hr; · cases hr
        rename_i hne
        split at hr; · cases hr
        rename_i hrk
        exact ⟨by simpa using hne, hrk⟩
      obtain ⟨rfl, hrk⟩ := hst
      have l0 : 2 ≤ s0.length := by
        have := List.length_pos_iff.mpr (valid_array ha).1; omega
      have l1 : 2 ≤ s1.length := by
        have := List.length_pos_iff.mpr (valid_array hb).1; omega
      obtain ⟨ba, x0, y0, rfl⟩ := exists_append_two s0 l0
      obtain ⟨bb, x1, y1, rfl⟩ := exists_append_two s1 l1
      obtain ⟨hk, bc, hbc, rfl⟩ := gemm_shape_sound hi
      have pa := (valid_array ha).2
      have pb := (valid_array hb).2
      have pba : pos ba := fun d hd => pa d (by simp [hd])
      have pbb : pos bb := fun d hd => pb d (by simp [hd])
      have px0 : 0 < x0 := pa x0 (by simp)
      have py0 : 0 < y0 := pa y0 (by simp)
      have px1 : 0 < x1 := pb x1 (by simp)
      have py1 : 0 < y1 := pb y1 (by simp)
      have hxl := hx.1
      have hyl := hy.1
      rw [Ops.gemm_prod2] at hxl hyl
      have key : ∃ r, Ops.gemm st0 ta tb (ba ++ [x0, y0]) xs (bb ++ [x1, y1]) ys
            (bc ++ [if ta = true then y0 else x0, if tb = true then x1 else y1]) = .ok r ∧
          flatOk st0 (prod (bc ++ [if ta = true then y0 else x0, if tb = true then x1 else y1])) r := by
        have g := gemm_typed st0 ta tb ba bb bc xs ys (if ta = true then y0 else x0)
          (if ta = true then x0 else y0) (if tb = true then x1 else y1)
          (bcOK_left pba pbb hbc) (bcOK_right pba pbb hbc)
          (by cases ta <;> simp [px0, py0]) (by cases ta <;> simp [px0, py0]) (by cases tb <;> simp [px1, py1])
          pba pbb (broadcastShapes_pos pba pbb hbc)
          (by cases ta <;> simp [hxl, Nat.mul_comm]) (by rw [hk]; cases tb <;> simp [hyl, Nat.mul_comm])
        have e0 : (if ta = true then [if ta = true then x0 else y0, if ta = true then y0 else x0]
            else [if ta = true then y0 else x0, if ta = true then x0 else y0]) = [x0, y0] := by cases ta <;> rfl
        have e1 : (if tb = true then [if tb = true then x1 else y1, if ta = true then x0 else y0]
            else [if ta = true then x0 else y0, if tb = true then x1 else y1]) = [x1, y1] := by
          rw [hk]; cases tb <;> rfl
        rw [e0, e1] at g
        exact g
      obtain ⟨r, hr, hok⟩ := key
      refine ⟨.arr r, ?_, hasType_array_mk hok⟩
      simp only [evalOp, hi, bin, stE, stOf, dimsE, Option.getD_some, hr, okArr]
    | scalar sb => simp [gemmInfer] at hr
    | vector n e => simp [gemmInfer] at hr
    | tuple ts => simp [gemmInfer] at hr
    | named fs => simp [gemmInfer] at hr
  | scalar sa => simp [gemmInfer] at hr
  | vector n e => simp [gemmInfer] at hr
  | tuple ts => simp [gemmInfer] at hr
  | named fs => simp [gemmInfer] at hr

example : evalOp (.gemm true false) [.array [1, 2, 2] .i8, .array [2, 2, 1] .i8] [.arr [1, 2, 255, 3], .arr [5, 254, 1, 1]]
    = .ok (.arr [7, 4, 0, 5]) := by rfl

/-! ### A2B -/

/-- **A2B**: `bits` entries below 2 per element. -/
theorem a2b_value_sound : ValueSound .a2b := by
  intro tys t vs hv hi hvs
  obtain ⟨a, rfl⟩ := infer_arity1 hi rfl
  obtain ⟨v, rfl, hv1⟩ := hasTypeL_one hvs
  have hr := infer_ok_raw hi
  simp only [inferRaw, inferUn] at hr
  cases a with
  | scalar st =>
    obtain ⟨xs, rfl, hx⟩ := hasType_scalar hv1
    simp only [a2bInfer] at hr
    split at hr; · cases hr
    rename_i hst
    injection hr with hr; subst hr
    obtain ⟨r, hr, hok⟩ := a2b_typed st hst xs hx.2
    refine ⟨.arr r, by simp only [evalOp, hi, un, stE, stOf, Option.getD_some, hr, okArr], hasType_array_mk ?_⟩
    have e : prod [st.bits] = xs.length * st.bits := by rw [hx.1]; simp [prod]
    rw [e]; exact hok
  | array s st =>
    obtain ⟨xs, rfl, hx⟩ := hasType_array hv1
    simp only [a2bInfer] at hr
    split at hr; · cases hr
    rename_i hst
    injection hr with hr; subst hr
    obtain ⟨r, hr, hok⟩ := a2b_typed st hst xs hx.2
    refine ⟨.arr r, by simp only [evalOp, hi, un, stE, stOf, Option.getD_some, hr, okArr], hasType_array_mk ?_⟩
    have e : prod (s ++ [st.bits]) = xs.length * st.bits := by rw [hx.1, prod_append]; simp [prod]
    rw [e]; exact hok
  | vector n e => simp [a2bInfer] at hr
  | tuple ts => simp [a2bInfer] at hr
  | named fs => simp [a2bInfer] at hr

example : evalOp .a2b [.array [2] .u8] [.arr [5, 255]] = .ok (.arr [1, 0, 1, 0, 0, 0, 0, 0, 1, 1, 1, 1, 1, 1, 1, 1]) := by
  rfl

/-! ### operations with documented run-time errors: Gather, InversePermutation, ApplyPermutation -/

/-- **Gather**: if every index is below the size of the gathered axis the result exists and has the
    inferred type; otherwise (and only then) evaluation fails with the documented "Incorrect index". -/
theorem gather_value_sound (axis : Nat) (tys : List Ty) (t : Ty) (vs : List EV)
    (hv : ∀ ty ∈ tys, ty.isValid = true) (hi : infer (.gather axis) tys = .ok t) (hvs : hasTypeL tys vs) :
    ∃ s st is_ ist xs idx, tys = [.array s st, .array is_ ist] ∧ vs = [.arr xs, .arr idx] ∧
      ((∀ ie ∈ idx, ie < s.getD axis 0) → ∃ v, evalOp (.gather axis) tys vs = .ok v ∧ hasType t v) ∧
      ((∃ ie ∈ idx, s.getD axis 0 ≤ ie) → ∃ e, evalOp (.gather axis) tys vs = .error e) := by
  obtain ⟨a, b, rfl⟩ := infer_arity2 hi rfl
  obtain ⟨v1, v2, rfl, hv1, hv2⟩ := hasTypeL_two hvs
  have hr := infer_ok_raw hi
  have ha := hv a (by simp)
  simp only [inferRaw] at hr
  cases a with
  | array s st =>
    cases b with
    | array is_ ist =>
      obtain ⟨xs, rfl, hx⟩ := hasType_array hv1
      obtain ⟨idx, rfl, hy⟩ := hasType_array hv2
      simp only [inferGather] at hr
      split at hr; · cases hr
      split at hr; · cases hr
      rename_i hax
      split at hr; · cases hr
      injection hr with hr; subst hr
      have g := gather_typed st s xs idx axis (by omega) (valid_array ha).2 hx
      refine ⟨s, st, is_, ist, xs, idx, rfl, rfl, ?_, ?_⟩
      · intro hin
        obtain ⟨r, hr, hok⟩ := g.1 hin
        refine ⟨.arr r, by simp only [evalOp, hi, bin, dimsE, hr, okArr], hasType_array_mk ?_⟩
        rw [prod_append, prod_append, ← hy.1, Nat.mul_assoc]
        exact hok
      · intro hbad
        obtain ⟨e, he⟩ := g.2 hbad
        exact ⟨e, by simp only [evalOp, hi, bin, dimsE, he, okArr]⟩
    | scalar sb => simp [inferGather] at hr
    | vector n e => simp [inferGather] at hr
    | tuple ts => simp [inferGather] at hr
    | named fs => simp [inferGather] at hr
  | scalar sa => simp [inferGather] at hr
  | vector n e => simp [inferGather] at hr
  | tuple ts => simp [inferGather] at hr
  | named fs => simp [inferGather] at hr

example : evalOp (.gather 1) [.array [2, 3] .i8, .array [2] .u16] [.arr [1, 2, 3, 4, 5, 6], .arr [2, 0]]
    = .ok (.arr [3, 1, 6, 4]) := by rfl

/-- **InversePermutation**: on a permutation of `0..n-1` the result exists and has the inferred type;
    on anything else (and only then) evaluation fails with the documented run-time error. -/
theorem inversePermutation_value_sound (tys : List Ty) (t : Ty) (vs : List EV)
    (hi : infer .inversePermutation tys = .ok t) (hvs : hasTypeL tys vs) :
    ∃ s st xs, tys = [.array s st] ∧ vs = [.arr xs] ∧
      ((xs.Nodup ∧ ∀ x ∈ xs, x < xs.length) → ∃ v, evalOp .inversePermutation tys vs = .ok v ∧ hasType t v) ∧
      (¬ (xs.Nodup ∧ ∀ x ∈ xs, x < xs.length) → ∃ e, evalOp .inversePermutation tys vs = .error e) := by
  obtain ⟨a, rfl⟩ := infer_arity1 hi rfl
  obtain ⟨v, rfl, hv1⟩ := hasTypeL_one hvs
  have hr := infer_ok_raw hi
  simp only [inferRaw] at hr
  cases a with
  | array s st =>
    obtain ⟨xs, rfl, hx⟩ := hasType_array hv1
    simp only [inferInversePermutation] at hr
    split at hr; · cases hr
    split at hr; · cases hr
    split at hr; · cases hr
    injection hr with hr; subst hr
    have g := inversePermutation_typed st xs hx.2
    refine ⟨s, st, xs, rfl, rfl, ?_, ?_⟩
    · intro hp
      obtain ⟨r, hr, hok⟩ := g.1 hp
      refine ⟨.arr r, by simp only [evalOp, hi, un, hr, okArr], hasType_array_mk ?_⟩
      rw [← hx.1]; exact hok
    · intro hn
      obtain ⟨e, he⟩ := g.2 hn
      exact ⟨e, by simp only [evalOp, hi, un, he, okArr]⟩
  | scalar sa => simp [inferInversePermutation] at hr
  | vector n e => simp [inferInversePermutation] at hr
  | tuple ts => simp [inferInversePermutation] at hr
  | named fs => simp [inferInversePermutation] at hr

example : evalOp .inversePermutation [.array [4] .u8] [.arr [2, 0, 3, 1]] = .ok (.arr [1, 3, 0, 2]) := by rfl

/-- **ApplyPermutation(inverse)** on arrays of any rank: if the index array is a permutation of
    `0..n-1` (`n` = first dimension) the validity check passes, the inversion succeeds, `gather` reads
    no row out of range and the value has the inferred type; on anything else (and only then)
    evaluation fails with the documented run-time error. -/
theorem applyPermutation_value_sound (inv : Bool) (tys : List Ty) (t : Ty) (vs : List EV)
    (hv : ∀ ty ∈ tys, ty.isValid = true) (hi : infer (.applyPermutation inv) tys = .ok t) (hvs : hasTypeL tys vs) :
    ∃ s st ps pst xs perm, tys = [.array s st, .array ps pst] ∧ vs = [.arr xs, .arr perm] ∧
      ((perm.Nodup ∧ ∀ v ∈ perm, v < perm.length) →
        ∃ v, evalOp (.applyPermutation inv) tys vs = .ok v ∧ hasType t v) ∧
      (¬ (perm.Nodup ∧ ∀ v ∈ perm, v < perm.length) →
        evalOp (.applyPermutation inv) tys vs = .error "Argument 1 doesn't contain a valid permutation.") := by
  obtain ⟨a, b, rfl⟩ := infer_arity2 hi rfl
  obtain ⟨v1, v2, rfl, hv1, hv2⟩ := hasTypeL_two hvs
  have hr := infer_ok_raw hi
  have ha := hv a (by simp)
  simp only [inferRaw] at hr
  cases a with
  | array s st =>
    cases b with
    | array ps pst =>
      obtain ⟨xs, rfl, hx⟩ := hasType_array hv1
      obtain ⟨perm, rfl, hy⟩ := hasType_array hv2
      simp only [inferApplyPermutation] at hr
      split at hr; · cases hr
      split at hr; · cases hr
      rename_i hcond
      injection hr with hr; subst hr
      refine ⟨s, st, ps, pst, xs, perm, rfl, rfl, ?_⟩
      obtain ⟨hne, hpos⟩ := valid_array ha
      cases s with
      | nil => exact absurd rfl hne
      | cons d ds =>
        have h1 : ps.length = 1 := Classical.byContradiction fun h => hcond (Or.inl h)
        have h2 : ps.getD 0 0 = d := Classical.byContradiction fun h => hcond (Or.inr (Or.inl h))
        obtain ⟨k, rfl⟩ := List.length_eq_one_iff.mp h1
        have hk : k = d := by simpa using h2
        subst hk
        have hlen : perm.length = k := by simpa [prod] using hy.1
        constructor
        · rintro ⟨hnd, hlt⟩
          obtain ⟨r, hr, hok⟩ := applyPermutation_typed st inv k ds xs perm hpos hx hlen hnd hlt
          exact ⟨.arr r, by simp only [evalOp, hi, bin, dimsE, hr, okArr], hasType_array_mk hok⟩
        · intro hbad
          have he := applyPermutation_err inv k ds xs perm hlen hbad
          simp only [evalOp, hi, bin, dimsE, he, okArr]
    | scalar sb => simp [inferApplyPermutation] at hr
    | vector n e => simp [inferApplyPermutation] at hr
    | tuple ts => simp [inferApplyPermutation] at hr
    | named fs => simp [inferApplyPermutation] at hr
  | scalar sa => simp [inferApplyPermutation] at hr
  | vector n e => simp [inferApplyPermutation] at hr
  | tuple ts => simp [inferApplyPermutation] at hr
  | named fs => simp [inferApplyPermutation] at hr

example : evalOp (.applyPermutation true) [.array [3, 2] .u8, .array [3] .u16] [.arr [1, 2, 3, 4, 5, 6], .arr [2, 0, 1]]
    = .ok (.arr [3, 4, 5, 6, 1, 2]) ∧
    evalOp (.applyPermutation false) [.array [3, 2] .u8, .array [3] .u16] [.arr [1, 2, 3, 4, 5, 6], .arr [2, 0, 0]]
    = .error "Argument 1 doesn't contain a valid permutation." := ⟨by rfl, by rfl⟩

/-! ### GetSlice (soundness and totality) -/

/-- **the two models of slices.rs agree**: whenever the typing rule's copy (`TI.getSliceShape`, used by
    `infer`) accepts a slice with result shape `rs`, the evaluator model's copy (`Slices.getSliceShape`,
    used by `Ops.getSlice`) accepts it with the same shape (the ellipsis is expanded to the same clean
    slice, every axis gets the same count). -/
theorem slices_models_agree {shape : List Nat} {sl : List SliceEl} {rs : List Nat}
    (h : TI.getSliceShape shape sl = .ok rs) : Slices.getSliceShape shape (sl.map toSE) = .ok rs :=
  (getSliceShape_agree h).choose_spec.2.2

example : TI.getSliceShape [5, 4, 3] [.sub (some (-1)) none (some (-2)), .ellipsis, .single (-1)] = .ok [3, 4] ∧
    Slices.getSliceShape [5, 4, 3] [.sub (some (-1)) none (some (-2)), .ellipsis, .single (-1)] = .ok [3, 4] :=
  ⟨rfl, rfl⟩

/-- **GetSlice** (all ranks, negative indices and steps, ellipsis, scalar results): on an accepted
    slice the evaluator loop returns a value for every result position (`slice_index` never fails) and
    the value has the inferred type. -/
theorem getSlice_value_sound (sl : List SliceEl) : ValueSound (.getSlice sl) := by
  intro tys t vs _ hi hvs
  obtain ⟨a, rfl⟩ := infer_arity1 hi rfl
  obtain ⟨w, rfl, hv1⟩ := hasTypeL_one hvs
  have hr := infer_ok_raw hi
  have hvalid := infer_result_valid hi rfl
  simp only [inferRaw] at hr
  cases a with
  | array s st =>
    obtain ⟨xs, rfl, hx⟩ := hasType_array hv1
    obtain ⟨rs, hrs, rfl⟩ := getSlice_shape_sound hi
    have hp : pos rs := by
      cases rs with
      | nil => intro d hd; simp at hd
      | cons d ds => exact (valid_array (s := d :: ds) (st := st) hvalid).2
    obtain ⟨r, hg⟩ := getSlice_total s xs (sl.map toSE) rs st (slices_models_agree hrs) hp
    have hg' : Ops.getSlice (dimsE (.array s st)) xs (sl.map toSE) (dimsE (arrOrScalar rs st)) = .ok r := hg
    refine ⟨.arr r, by simp only [evalOp, hi, un, hg', okArr], ?_⟩
    have := getSlice_typed st _ xs _ _ r hx.2 hg
    rw [prod_dimsE_arrOrScalar] at this
    exact hasType_arrOrScalar_mk this
  | scalar sa => simp [inferGetSlice] at hr
  | vector n e => simp [inferGetSlice] at hr
  | tuple ts => simp [inferGetSlice] at hr
  | named fs => simp [inferGetSlice] at hr

example : evalOp (.getSlice [.ellipsis, .sub (some (-1)) none (some (-2))]) [.array [2, 5] .u8]
    [.arr [0, 1, 2, 3, 4, 5, 6, 7, 8, 9]] = .ok (.arr [4, 2, 0, 9, 7, 5]) := by rfl

/-! ### ArrayToVector / VectorToArray -/

/-- **ArrayToVector**: a vector of `shape[0]` rows, each of the element type. -/
theorem arrayToVector_value_sound : ValueSound .arrayToVector := by
  intro tys t vs hv hi hvs
  obtain ⟨a, rfl⟩ := infer_arity1 hi rfl
  obtain ⟨v, rfl, hv1⟩ := hasTypeL_one hvs
  have hr := infer_ok_raw hi
  have ha := hv a (by simp)
  simp only [inferRaw] at hr
  cases a with
  | array s st =>
    obtain ⟨xs, rfl, hx⟩ := hasType_array hv1
    obtain ⟨hne, hpos⟩ := valid_array ha
    cases s with
    | nil => exact absurd rfl hne
    | cons d rest =>
      have hp : 0 < prod rest := prod_pos (fun x hx => hpos x (by simp [hx]))
      obtain ⟨hl, hrows⟩ := arrayToVector_typed st d rest xs hx hp
      refine ⟨_, by simp only [evalOp, hi, un] <;> rfl, ?_⟩
      simp only [inferArrayToVector] at hr
      split at hr
      · rename_i h1
        injection hr with hr; subst hr
        have hrest : rest = [] := by
          cases rest with
          | nil => rfl
          | cons _ _ => simp at h1
        subst hrest
        simp only [hasType, List.length_map, dimsE]
        refine ⟨by simpa using hl, ?_⟩
        intro w hw
        obtain ⟨row, hrow, rfl⟩ := List.mem_map.mp hw
        exact hasType_scalar_mk (hrows row hrow)
      · injection hr with hr; subst hr
        simp only [hasType, List.length_map, dimsE]
        refine ⟨by simpa using hl, ?_⟩
        intro w hw
        obtain ⟨row, hrow, rfl⟩ := List.mem_map.mp hw
        exact hasType_array_mk (hrows row hrow)
  | scalar sa => simp [inferArrayToVector] at hr
  | vector n e => simp [inferArrayToVector] at hr
  | tuple ts => simp [inferArrayToVector] at hr
  | named fs => simp [inferArrayToVector] at hr


example : evalOp .arrayToVector [.array [2, 2] .u8] [.arr [1, 2, 3, 4]] = .ok (.vec [.arr [1, 2], .arr [3, 4]]) := by rfl

/-- **VectorToArray**: a non-empty vector of scalars / arrays becomes one array. -/
theorem vectorToArray_value_sound : ValueSound .vectorToArray := by
  intro tys t vs hv hi hvs
  obtain ⟨a, rfl⟩ := infer_arity1 hi rfl
  obtain ⟨v, rfl, hv1⟩ := hasTypeL_one hvs
  have hr := infer_ok_raw hi
  simp only [inferRaw] at hr
  cases a with
  | vector n et =>
    cases v with
    | arr xs => simp [hasType] at hv1
    | vec rows =>
      simp only [hasType] at hv1
      obtain ⟨hn, hrows⟩ := hv1
      simp only [inferVectorToArray] at hr
      split at hr; · cases hr
      cases et with
      | scalar st =>
        injection hr with hr; subst hr
        obtain ⟨rs, hrs, hl, hok⟩ := rowsOf_typed st 1 rows (fun w hw => hasType_scalar (hrows w hw))
        refine ⟨_, by simp only [evalOp, hi, hrs] <;> rfl, hasType_array_mk ?_⟩
        have := vectorToArray_typed st 1 rs hok
        rw [hl, hn] at this
        simpa [prod] using this
      | array s st =>
        injection hr with hr; subst hr
        obtain ⟨rs, hrs, hl, hok⟩ := rowsOf_typed st (prod s) rows (fun w hw => hasType_array (hrows w hw))
        refine ⟨_, by simp only [evalOp, hi, hrs] <;> rfl, hasType_array_mk ?_⟩
        have := vectorToArray_typed st (prod s) rs hok
        rw [hl, hn] at this
        simpa [prod] using this
      | vector m e => simp at hr
      | tuple ts => simp at hr
      | named fs => simp at hr
  | scalar sa => simp [inferVectorToArray] at hr
  | array s sa => simp [inferVectorToArray] at hr
  | tuple ts => simp [inferVectorToArray] at hr
  | named fs => simp [inferVectorToArray] at hr


example : evalOp .vectorToArray [.vector 2 (.array [2] .u8)] [.vec [.arr [1, 2], .arr [3, 4]]] = .ok (.arr [1, 2, 3, 4]) := by rfl

/-! ### Stack / Concatenate / B2A -/

/-- **Stack(outer)**: `prod outer` scalars / arrays of one scalar type, broadcast to the common
    inner shape and laid out one after the other: the value exists and has type `outer ++ inner`. -/
theorem stack_value_sound (outer : List Nat) : ValueSound (.stack outer) := by
  intro tys t vs _ hi hvs
  have hr := infer_ok_raw hi
  simp only [inferRaw] at hr
  obtain ⟨st, full, rfl, _, hprod, hall⟩ := inferStack_facts hr
  obtain ⟨ps, hps, hl, _, hok⟩ := payloads_typed st tys vs hvs hall
  refine ⟨.arr (Ops.stack outer ps full), by simp only [evalOp, hi, hps, dimsE], hasType_array_mk ?_⟩
  have := stack_typed st outer full ps (fun p hp => (hok p hp).2)
  rw [hl, hprod] at this
  exact this

example : evalOp (.stack [2]) [.array [2] .u8, .scalar .u8] [.arr [1, 2], .arr [7]] = .ok (.arr [1, 2, 7, 7]) := by
  rfl

/-- **Concatenate(axis)**: arrays of one scalar type agreeing off the axis: the value exists and has
    the inferred type (the axis dimension is the sum of the inputs' axis dimensions). -/
theorem concatenate_value_sound (axis : Nat) : ValueSound (.concatenate axis) := by
  intro tys t vs _ hi hvs
  have hr := infer_ok_raw hi
  simp only [inferRaw] at hr
  obtain ⟨st, rs, rfl, hax, hsum, hall⟩ := inferConcatenate_facts hr
  obtain ⟨ps, hps, _, hm, hok⟩ := payloads_typed st tys vs hvs (fun ty hty => ⟨(hall ty hty).1, (hall ty hty).2.1⟩)
  refine ⟨.arr (Ops.concatenate axis ps rs), by simp only [evalOp, hi, hps, dimsE], hasType_array_mk ?_⟩
  apply concatenate_typed st axis ps rs hax
  · intro p hp
    have hmem : p.1 ∈ tys.map dimsE := by rw [← hm]; exact List.mem_map.mpr ⟨p, hp, rfl⟩
    obtain ⟨ty, hty, hd⟩ := List.mem_map.mp hmem
    rw [(hok p hp).1, ← hd]
    exact (hall ty hty).2.2
  · intro p hp
    exact (hok p hp).2
  · rw [hsum]
    have : (tys.map fun ty => (dimsE ty).getD axis 0) = (tys.map dimsE).map fun d => d.getD axis 0 := by
      rw [List.map_map]; rfl
    rw [this, ← hm, List.map_map]
    rfl

example : evalOp (.concatenate 1) [.array [2, 1] .u8, .array [2, 2] .u8] [.arr [1, 2], .arr [3, 4, 5, 6]]
    = .ok (.arr [1, 3, 4, 2, 5, 6]) := by rfl

/-- **B2A(st)**: a bit array whose last dimension is the width of `st` is re-read as residues of `st`. -/
theorem b2a_value_sound (st : ST) : ValueSound (.b2a st) := by
  intro tys t vs _ hi hvs
  obtain ⟨a, rfl⟩ := infer_arity1 hi rfl
  obtain ⟨v, rfl, hv1⟩ := hasTypeL_one hvs
  have hr := infer_ok_raw hi
  simp only [inferRaw, inferUn] at hr
  obtain ⟨s, rfl, hst, ft, est, hp⟩ := b2aInfer_facts hr
  obtain ⟨xs, rfl, hx⟩ := hasType_array hv1
  have hb : ∀ b ∈ xs, b < 2 := hx.2
  obtain ⟨r, hr, hok⟩ := b2a_typed st hst (prod (dimsE t)) xs (by rw [hx.1, hp]) hb
  refine ⟨.arr r, by simp only [evalOp, hi, un, hr, okArr], (hasType_flat ft r).mpr ?_⟩
  rw [est]
  exact hok

example : ∃ v, evalOp (.b2a .u8) [.array [2, 8] .bit] [.arr [1, 0, 1, 0, 0, 0, 0, 0, 1, 1, 1, 1, 1, 1, 1, 1]] = .ok v ∧
    hasType (.array [2] .u8) v :=
  b2a_value_sound .u8 _ _ _ (by decide) rfl (by simp [hasTypeL, hasType, flatOk, Shape.prod]; decide)

/-! ### compound values: constructors, accessors, Zip, Repeat, Reshape -/

/-- **Reshape** (any pair of types accepted by `process_node`, including tuples / named tuples /
    vectors on either side): `flatten_value` + `unflatten_value` never index out of range and rebuild a
    value of the new type. -/
theorem reshape_value_sound (nt : Ty) : ValueSound (.reshape nt) := by
  intro tys t vs _ hi hvs
  obtain ⟨a, rfl⟩ := infer_arity1 hi rfl
  obtain ⟨v, rfl, hv1⟩ := hasTypeL_one hvs
  have hr := infer_ok_raw hi
  simp only [inferRaw, inferReshape] at hr
  split at hr; · cases hr
  rename_i hlen
  have hlen : (flattenTy a).length = (flattenTy nt).length := Classical.byContradiction fun hne => hlen hne
  split at hr; · cases hr
  rename_i hat
  have hat : allAtomic (flattenTy a) (flattenTy nt) = true := by
    cases hb : allAtomic (flattenTy a) (flattenTy nt) with
    | true => rfl
    | false => exact absurd hb hat
  injection hr with hr
  subst hr
  have h1 := flattenEV_typed a v hv1
  have h2 := allAtomic_hasTypeL _ _ _ hat hlen h1
  obtain ⟨r, rest, e1, e2, _⟩ := unflat_typed nt [] (flattenEV v) (by simpa using h2)
  exact ⟨r, by simp only [evalOp, hi, e1], e2⟩

example : evalOp (.reshape (.tuple [.array [1, 2] .u8, .vector 1 (.array [2] .u8)])) [.vector 2 (.array [2] .u8)]
    [.vec [.arr [1, 2], .arr [3, 4]]] = .ok (.vec [.arr [1, 2], .vec [.arr [3, 4]]]) := by rfl

example : evalOp (.reshape (.array [3, 2] .u8)) [.array [2, 3] .u8] [.arr [1, 2, 3, 4, 5, 6]] = .ok (.arr [1, 2, 3, 4, 5, 6]) := by
  rfl

/-- **CreateTuple**: the dependency values, in order. -/
theorem createTuple_value_sound : ValueSound .createTuple := by
  intro tys t vs _ hi hvs
  have hr := infer_ok_raw hi
  simp only [inferRaw] at hr
  injection hr with hr; subst hr
  exact ⟨.vec vs, by simp only [evalOp, hi], by simp only [hasType]; exact hvs⟩

/-- **CreateNamedTuple**. -/
theorem createNamedTuple_value_sound (names : List String) : ValueSound (.createNamedTuple names) := by
  intro tys t vs _ hi hvs
  have hr := infer_ok_raw hi
  simp only [inferRaw] at hr
  split at hr; · cases hr
  rename_i hlen
  have hlen : tys.length = names.length := Classical.byContradiction fun hne => hlen hne
  split at hr; · cases hr
  injection hr with hr; subst hr
  exact ⟨.vec vs, by simp only [evalOp, hi], by simp only [hasType]; exact hasTypeN_zip names tys vs hlen hvs⟩

/-- **CreateVector(et)**. -/
theorem createVector_value_sound (et : Ty) : ValueSound (.createVector et) := by
  intro tys t vs _ hi hvs
  have hr := infer_ok_raw hi
  simp only [inferRaw] at hr
  split at hr
  · rename_i hall
    injection hr with hr; subst hr
    have heq : ∀ ty ∈ tys, ty = et := fun ty hty => Ty.eq_of_beq ty et ((List.all_eq_true.mp hall) ty hty)
    obtain ⟨h1, h2⟩ := hasTypeL_const et tys vs heq hvs
    exact ⟨.vec vs, by simp only [evalOp, hi], by simp only [hasType]; exact ⟨h1, h2⟩⟩
  · cases hr

example : evalOp (.createVector (.scalar .u8)) [.scalar .u8, .scalar .u8] [.arr [1], .arr [2]] = .ok (.vec [.arr [1], .arr [2]]) := by
  rfl

/-- **TupleGet(i)** on a tuple or a named tuple: the index accepted by the type checker is in range
    for `to_vector()` of the value. -/
theorem tupleGet_value_sound (i : Nat) : ValueSound (.tupleGet i) := by
  intro tys t vs _ hi hvs
  obtain ⟨a, rfl⟩ := infer_arity1 hi rfl
  obtain ⟨v, rfl, hv1⟩ := hasTypeL_one hvs
  have hr := infer_ok_raw hi
  simp only [inferRaw] at hr
  cases a with
  | tuple ts =>
    cases v with
    | arr xs => simp [hasType] at hv1
    | vec cs =>
      simp only [hasType] at hv1
      simp only [inferTupleGet] at hr
      cases hg : ts[i]? with
      | none => rw [hg] at hr; cases hr
      | some t' =>
        rw [hg] at hr
        injection hr with hr; subst hr
        obtain ⟨c, hc, hty⟩ := hasTypeL_getElem ts cs i t' hv1 hg
        exact ⟨c, by simp only [evalOp, hi, hc], hty⟩
  | named fs =>
    cases v with
    | arr xs => simp [hasType] at hv1
    | vec cs =>
      simp only [hasType] at hv1
      simp only [inferTupleGet] at hr
      cases hg : fs[i]? with
      | none => rw [hg] at hr; cases hr
      | some nt' =>
        obtain ⟨n', t'⟩ := nt'
        rw [hg] at hr
        injection hr with hr; subst hr
        obtain ⟨c, hc, hty⟩ := hasTypeN_getElem fs cs i n' t' hv1 hg
        exact ⟨c, by simp only [evalOp, hi, hc], hty⟩
  | scalar sa => simp [inferTupleGet] at hr
  | array s sa => simp [inferTupleGet] at hr
  | vector n e => simp [inferTupleGet] at hr

example : evalOp (.tupleGet 1) [.tuple [.scalar .u8, .array [2] .bit]] [.vec [.arr [7], .arr [1, 0]]] = .ok (.arr [1, 0]) := by
  rfl

/-- **NamedTupleGet(name)**: the evaluator's search for the field succeeds (`unwrap` is safe) and
    finds the child whose type the type checker returned. -/
theorem namedTupleGet_value_sound (name : String) : ValueSound (.namedTupleGet name) := by
  intro tys t vs _ hi hvs
  obtain ⟨a, rfl⟩ := infer_arity1 hi rfl
  obtain ⟨v, rfl, hv1⟩ := hasTypeL_one hvs
  have hr := infer_ok_raw hi
  simp only [inferRaw] at hr
  cases a with
  | named fs =>
    cases v with
    | arr xs => simp [hasType] at hv1
    | vec cs =>
      simp only [hasType] at hv1
      simp only [inferNamedTupleGet] at hr
      cases hg : lookupField name fs with
      | none => rw [hg] at hr; cases hr
      | some t' =>
        rw [hg] at hr
        injection hr with hr; subst hr
        obtain ⟨k, c, hk, hc, hty⟩ := hasTypeN_lookup name fs cs t' hv1 hg
        exact ⟨c, by simp only [evalOp, hi, hk, hc], hty⟩
  | scalar sa => simp [inferNamedTupleGet] at hr
  | array s sa => simp [inferNamedTupleGet] at hr
  | vector n e => simp [inferNamedTupleGet] at hr
  | tuple ts => simp [inferNamedTupleGet] at hr

example : evalOp (.namedTupleGet "b") [.named [("a", .scalar .u8), ("b", .scalar .bit)]] [.vec [.arr [1], .arr [0]]]
    = .ok (.arr [0]) := by rfl

/-- **VectorGet** (the one run-time error of the accessors): the dependencies are a vector of `n`
    elements and a UINT64 / UINT32 scalar `i`; if `i < n` the element exists and has the element
    type, if `n ≤ i` (and only then) evaluation fails with the documented "Index out of range". -/
theorem vectorGet_value_sound (tys : List Ty) (t : Ty) (vs : List EV)
    (hi : infer .vectorGet tys = .ok t) (hvs : hasTypeL tys vs) :
    ∃ n et ist cs i, tys = [.vector n et, .scalar ist] ∧ vs = [.vec cs, .arr [i]] ∧
      (i < n → ∃ v, evalOp .vectorGet tys vs = .ok v ∧ hasType t v) ∧
      (n ≤ i → evalOp .vectorGet tys vs = .error "Index out of range") := by
  obtain ⟨a, b, rfl⟩ := infer_arity2 hi rfl
  obtain ⟨v1, v2, rfl, hv1, hv2⟩ := hasTypeL_two hvs
  have hr := infer_ok_raw hi
  simp only [inferRaw, inferVectorGet] at hr
  split at hr; · cases hr
  rename_i hidx
  have hb : ∃ ist, b = .scalar ist := by
    by_cases h64 : Ty.beq b (.scalar .u64) = true
    · exact ⟨_, Ty.eq_of_beq _ _ h64⟩
    · by_cases h32 : Ty.beq b (.scalar .u32) = true
      · exact ⟨_, Ty.eq_of_beq _ _ h32⟩
      · exact absurd ⟨by simpa using h64, by simpa using h32⟩ hidx
  obtain ⟨ist, rfl⟩ := hb
  cases a with
  | vector n et =>
    simp only [] at hr
    injection hr with hr; subst hr
    cases v1 with
    | arr xs => simp [hasType] at hv1
    | vec cs =>
      simp only [hasType] at hv1
      obtain ⟨xs, rfl, hx⟩ := hasType_scalar hv2
      obtain ⟨i, rfl⟩ := List.length_eq_one_iff.mp hx.1
      refine ⟨n, et, ist, cs, i, rfl, rfl, ?_, ?_⟩
      · intro hlt
        have hic : i < cs.length := by rw [hv1.1]; exact hlt
        refine ⟨cs[i], ?_, hv1.2 _ (List.getElem_mem hic)⟩
        simp only [evalOp, hi, if_neg (Nat.not_le.mpr hlt), List.getElem?_eq_getElem hic]
      · intro hge
        simp only [evalOp, hi, if_pos hge]
  | scalar sa => simp at hr
  | array s sa => simp at hr
  | tuple ts => simp at hr
  | named fs => simp at hr

example : evalOp .vectorGet [.vector 2 (.scalar .u8), .scalar .u64] [.vec [.arr [1], .arr [2]], .arr [1]] = .ok (.arr [2]) ∧
    evalOp .vectorGet [.vector 2 (.scalar .u8), .scalar .u64] [.vec [.arr [1], .arr [2]], .arr [2]]
      = .error "Index out of range" := ⟨rfl, rfl⟩

/-- **Zip**: vectors of one length `n` become a vector of `n` tuples. -/
theorem zip_value_sound : ValueSound .zip := by
  intro tys t vs _ hi hvs
  have hr := infer_ok_raw hi
  simp only [inferRaw, inferZip] at hr
  split at hr; · cases hr
  rename_i hlen
  cases hz : zipGo tys none with
  | error e => rw [hz] at hr; cases hr
  | ok r =>
    obtain ⟨n, ets⟩ := r
    rw [hz] at hr
    injection hr with hr; subst hr
    obtain ⟨htys, _⟩ := zipGo_facts tys none n ets hz
    subst htys
    obtain ⟨cols, hc, hok⟩ := colsOf_typed n ets vs hvs
    have hne : ets ≠ [] := by
      intro he; subst he; simp at hlen
    exact ⟨.vec (zipRows cols), by simp only [evalOp, hi, hc], zipRows_typed n ets cols hok hne⟩

example : evalOp .zip [.vector 2 (.scalar .u8), .vector 2 (.scalar .bit)] [.vec [.arr [1], .arr [2]], .vec [.arr [0], .arr [1]]]
    = .ok (.vec [.vec [.arr [1], .arr [0]], .vec [.arr [2], .arr [1]]]) := by rfl

/-- **Repeat(n)**. -/
theorem repeat_value_sound (n : Nat) : ValueSound (.repeat_ n) := by
  intro tys t vs _ hi hvs
  obtain ⟨a, rfl⟩ := infer_arity1 hi rfl
  obtain ⟨v, rfl, hv1⟩ := hasTypeL_one hvs
  have hr := infer_ok_raw hi
  simp only [inferRaw, inferUn] at hr
  injection hr with hr; subst hr
  refine ⟨.vec (List.replicate n v), by simp only [evalOp, hi], ?_⟩
  simp only [hasType, List.length_replicate, true_and]
  intro w hw
  rw [(List.mem_replicate.mp hw).2]
  exact hv1

example : evalOp (.repeat_ 2) [.array [2] .u8] [.arr [1, 2]] = .ok (.vec [.arr [1, 2], .arr [1, 2]]) := by rfl

/-! ### summary -/

/-- the operations for which soundness AND totality are proved without side conditions -/
def totalOp : Op → Bool
  | .add | .subtract | .multiply | .mixedMultiply | .dot | .matmul | .gemm _ _ | .truncate _
  | .sum _ | .cumSum _ | .permuteAxes _ | .get _ | .getSlice _ | .reshape _ | .nop
  | .stack _ | .concatenate _ | .a2b | .b2a _ | .arrayToVector | .vectorToArray
  | .createTuple | .createNamedTuple _ | .createVector _ | .tupleGet _ | .namedTupleGet _ | .zip | .repeat_ _ => true
  | _ => false

/-- **Summary**: for each of Add, Subtract, Multiply, MixedMultiply, Dot, Matmul, Gemm, Truncate, Sum,
    CumSum, PermuteAxes, Get, GetSlice, Reshape, NOP, Stack, Concatenate, A2B, B2A, ArrayToVector,
    VectorToArray, CreateTuple, CreateNamedTuple, CreateVector, TupleGet, NamedTupleGet, Zip, Repeat: if the
    node is accepted by type inference with type `t` and the dependency values have the (valid)
    dependency types, then evaluating the node never fails and the value has type `t`.
    (The four operations with a data-dependent run-time error are characterised exactly by
    `gather_value_sound`, `inversePermutation_value_sound`, `applyPermutation_value_sound`,
    `vectorGet_value_sound`.) -/
theorem eval_hasType (op : Op) (h : totalOp op = true) : ValueSound op := by
  cases op
  case add => exact arith_value_sound.1
  case subtract => exact arith_value_sound.2.1
  case multiply => exact arith_value_sound.2.2
  case mixedMultiply => exact mixedMultiply_value_sound
  case dot => exact dot_value_sound
  case matmul => exact matmul_value_sound
  case gemm ta tb => exact gemm_value_sound ta tb
  case truncate d => exact truncate_value_sound d
  case sum axes => exact sum_value_sound axes
  case cumSum axis => exact cumSum_value_sound axis
  case permuteAxes axes => exact permuteAxes_value_sound axes
  case get idx => exact get_value_sound idx
  case getSlice sl => exact getSlice_value_sound sl
  case reshape nt => exact reshape_value_sound nt
  case nop => exact nop_value_sound
  case stack outer => exact stack_value_sound outer
  case concatenate axis => exact concatenate_value_sound axis
  case a2b => exact a2b_value_sound
  case b2a st => exact b2a_value_sound st
  case arrayToVector => exact arrayToVector_value_sound
  case vectorToArray => exact vectorToArray_value_sound
  case createTuple => exact createTuple_value_sound
  case createNamedTuple names => exact createNamedTuple_value_sound names
  case createVector et => exact createVector_value_sound et
  case tupleGet i => exact tupleGet_value_sound i
  case namedTupleGet name => exact namedTupleGet_value_sound name
  case zip => exact zip_value_sound
  case repeat_ n => exact repeat_value_sound n
  all_goals simp [totalOp] at h

example : ∃ v, evalOp (.gemm false true) [.array [2, 2] .u8, .array [2, 2] .u8] [.arr [1, 2, 3, 4], .arr [5, 6, 7, 8]] = .ok v ∧
    hasType (.array [2, 2] .u8) v :=
  eval_hasType (.gemm false true) rfl _ _ _ (by decide) rfl
    (by simp [hasTypeL, hasType, flatOk, Shape.prod]; decide)

end CCV.C09
