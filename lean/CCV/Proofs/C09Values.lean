import CCV.Model.EvalOps
import CCV.Lemmas.EvalOps3
import CCV.Proofs.C09
/-
  C09, value-level half — "type inference is sound for evaluation; well-typed programs never crash".

  Two models are connected here:
    `CCV.TI.infer`        the typing rule of one node (`process_node`, Model/TypeInfer.lean);
    `CCV.EvalOps.evalOp`  the evaluation of one node (`SimpleEvaluator::evaluate_node`), the adapter of
                          Model/EvalOps.lean that extracts shapes / scalar types from the dependency types
                          and the inferred node type and calls the evaluator-shaped functions of
                          `CCV.Ops` (the C10 model).  Both are executed by the model driver and compared
                          with the Rust code on every run (`infer …` / `evalop …` requests of C09).

  For every covered operation, all scalar types, ranks, shapes, parameters and values:
    if `infer op tys = .ok t`, the dependency types are valid (they are types of registered nodes) and the
    dependency values have those types (`hasType`: `prod shape` residues, each below `2^bits`), then
      * SOUNDNESS  the value computed by `evalOp` has type `t`;
      * TOTALITY   `evalOp` returns a value (the model evaluator is never stuck / never fails) — except for
                   Gather and InversePermutation, whose run-time errors are characterised exactly
                   (index out of range / not a permutation), and GetSlice, see `getSlice_value_sound_partial`.
  Helper lemmas: CCV/Lemmas/EvalOps{,2,3}.lean.
-/
namespace CCV.C09
open CCV CCV.TV CCV.Shape CCV.EvalOps
open CCV.TI hiding prod broadcastShapes transposeShape

/-- the statement proved for every total operation: well-typed inputs give a well-typed output -/
def ValueSound (op : Op) : Prop :=
  ∀ (tys : List Ty) (t : Ty) (vs : List EV), (∀ ty ∈ tys, ty.isValid = true) → infer op tys = .ok t →
    hasTypeL tys vs → ∃ v, evalOp op tys vs = .ok v ∧ hasType t v

/-! ### Add / Subtract / Multiply / MixedMultiply -/

/-- **Add, Subtract, Multiply with broadcasting** (scalars and arrays of all 11 scalar types, all
    broadcastable shapes): the result exists, has `prod (broadcast shape)` entries, each below `2^bits`. -/
theorem arith_value_sound : ValueSound .add ∧ ValueSound .subtract ∧ ValueSound .multiply := by
  have key : ∀ (op : Op) (aop : Ops.Arith),
      (∀ tys, inferRaw op tys = inferBin (fun a b => broadcastArrays [a, b]) tys) →
      numDeps op = some 2 →
      (∀ (a b t : Ty) (xs ys : List Nat), infer op [a, b] = .ok t →
        evalOp op [a, b] [.arr xs, .arr ys]
          = okArr (Ops.arith aop (stE a) (dimsE a) xs (dimsE b) ys (dimsE t))) →
      ValueSound op := by
    intro op aop hraw hnd hev tys t vs hv hi hvs
    obtain ⟨a, b, rfl⟩ := infer_arity2 hi hnd
    obtain ⟨v1, v2, rfl, hv1, hv2⟩ := hasTypeL_two hvs
    have hr := infer_ok_raw hi
    rw [hraw] at hr
    have hp := broadcastArrays_two (a := a) (b := b) hr
    obtain ⟨f1, f2, ft, e1, _, b1, b2⟩ := broadcastPair_facts (hv a (by simp)) (hv b (by simp)) hp
    obtain ⟨xs, rfl, hx⟩ := hasType_flat_arr f1 hv1
    obtain ⟨ys, rfl, hy⟩ := hasType_flat_arr f2 hv2
    obtain ⟨r, hr, hok⟩ := arith_typed aop (stE a) (dimsE a) xs (dimsE b) ys (dimsE t) b1 b2
    refine ⟨.arr r, by rw [hev a b t xs ys hi, hr]; rfl, (hasType_flat ft r).mpr (e1 ▸ hok)⟩
  refine ⟨key .add .add (fun _ => rfl) rfl ?_, key .subtract .sub (fun _ => rfl) rfl ?_,
    key .multiply .mul (fun _ => rfl) rfl ?_⟩ <;>
  · intro a b t xs ys hi
    simp only [evalOp, hi, bin]

example : evalOp .subtract [.array [3] .i8, .array [2, 1] .i8] [.arr [1, 2, 3], .arr [5, 255]]
    = .ok (.arr [252, 253, 254, 2, 3, 4]) := by rfl

/-- **MixedMultiply** (integer scalar / array times bit scalar / array, with broadcasting). -/
theorem mixedMultiply_value_sound : ValueSound .mixedMultiply := by
  intro tys t vs hv hi hvs
  obtain ⟨a, b, rfl⟩ := infer_arity2 hi rfl
  obtain ⟨v1, v2, rfl, hv1, hv2⟩ := hasTypeL_two hvs
  have hr := infer_ok_raw hi
  have ha := hv a (by simp)
  have hb := hv b (by simp)
  have facts : isFlat a = true ∧ isFlat b = true ∧ isFlat t = true ∧ stE a = stE t ∧
      bcOK (dimsE a) (dimsE t) ∧ bcOK (dimsE b) (dimsE t) := by
    simp only [inferRaw, inferBin, mixedMultiplyInfer] at hr
    cases a with
    | scalar sa =>
      cases b with
      | scalar sb =>
        simp only [stOf] at hr
        split at hr; · cases hr
        split at hr; · cases hr
        injection hr with hr; subst hr
        exact ⟨rfl, rfl, rfl, rfl, bcOK_refl _, bcOK_refl _⟩
      | array s2 sb =>
        simp only [stOf] at hr
        split at hr; · cases hr
        split at hr; · cases hr
        injection hr with hr; subst hr
        exact ⟨rfl, rfl, rfl, rfl, bcOK_one (valid_array hb).1, bcOK_refl _⟩
      | vector n e => simp [stOf] at hr
      | tuple ts => simp [stOf] at hr
      | named fs => simp [stOf] at hr
    | array s1 sa =>
      cases b with
      | scalar sb =>
        simp only [stOf] at hr
        split at hr; · cases hr
        split at hr; · cases hr
        injection hr with hr; subst hr
        exact ⟨rfl, rfl, rfl, rfl, bcOK_refl _, bcOK_one (valid_array ha).1⟩
      | array s2 sb =>
        simp only [stOf] at hr
        split at hr; · cases hr
        split at hr; · cases hr
        split at hr
        · rename_i r hbs
          injection hr with hr; subst hr
          exact ⟨rfl, rfl, rfl, rfl, bcOK_left (valid_array ha).2 (valid_array hb).2 hbs,
            bcOK_right (valid_array ha).2 (valid_array hb).2 hbs⟩
        · cases hr
      | vector n e => simp [stOf] at hr
      | tuple ts => simp [stOf] at hr
      | named fs => simp [stOf] at hr
    | vector n e => simp [stOf] at hr
    | tuple ts => simp [stOf] at hr
    | named fs => simp [stOf] at hr
  obtain ⟨f1, f2, ft, e1, b1, b2⟩ := facts
  obtain ⟨xs, rfl, hx⟩ := hasType_flat_arr f1 hv1
  obtain ⟨ys, rfl, hy⟩ := hasType_flat_arr f2 hv2
  obtain ⟨r, hr, hok⟩ := mixedMultiply_typed (stE a) (dimsE a) xs (dimsE b) ys (dimsE t) b1 b2
  refine ⟨.arr r, ?_, (hasType_flat ft r).mpr (e1 ▸ hok)⟩
  simp only [evalOp, hi, bin, hr, okArr]

example : evalOp .mixedMultiply [.array [2] .i16, .array [2, 1] .bit] [.arr [65535, 7], .arr [1, 0]]
    = .ok (.arr [65535, 7, 0, 0]) := by rfl

/-! ### Truncate / Sum / CumSum / PermuteAxes / Get / NOP -/

/-- **Truncate** (scalars and arrays): same type, every entry reduced into the type. -/
theorem truncate_value_sound (d : Nat) : ValueSound (.truncate d) := by
  intro tys t vs hv hi hvs
  obtain ⟨a, rfl⟩ := infer_arity1 hi rfl
  obtain ⟨v, rfl, hv1⟩ := hasTypeL_one hvs
  have hr := infer_ok_raw hi
  simp only [inferRaw, inferTruncate] at hr
  split at hr; · cases hr
  have fa : isFlat a = true ∧ t = a := by
    cases a with
    | scalar sa => simp only [stOf] at hr; split at hr; · cases hr
                   · injection hr with hr; exact ⟨rfl, hr.symm⟩
    | array s sa => simp only [stOf] at hr; split at hr; · cases hr
                    · injection hr with hr; exact ⟨rfl, hr.symm⟩
    | vector n e => simp [stOf] at hr
    | tuple ts => simp [stOf] at hr
    | named fs => simp [stOf] at hr
  obtain ⟨fa, rfl⟩ := fa
  obtain ⟨xs, rfl, hx⟩ := hasType_flat_arr fa hv1
  refine ⟨.arr (Ops.truncate (stE t) d xs), by simp only [evalOp, hi, un], ?_⟩
  have := truncate_typed (stE t) d xs
  rw [hx.1] at this
  exact (hasType_flat fa _).mpr this

example : evalOp (.truncate 3) [.array [3] .i8] [.arr [249, 7, 128]] = .ok (.arr [254, 2, 214]) := by rfl

/-- **Sum** over any duplicate-free set of axes (scalar result when all axes are summed). -/
theorem sum_value_sound (axes : List Nat) : ValueSound (.sum axes) := by
  intro tys t vs hv hi hvs
  obtain ⟨a, rfl⟩ := infer_arity1 hi rfl
  obtain ⟨v, rfl, hv1⟩ := hasTypeL_one hvs
  have hr := infer_ok_raw hi
  cases a with
  | array s st =>
    obtain ⟨xs, rfl, hx⟩ := hasType_array hv1
    simp only [inferRaw, inferSum] at hr
    split at hr; · cases hr
    split at hr; · cases hr
    injection hr with hr
    have typed := sum_typed st s xs axes
    refine ⟨_, by simp only [evalOp, hi, un]; rfl, ?_⟩
    subst hr
    cases hd : dropAxes axes s 0 with
    | nil =>
      simp only [arrOrScalar, List.isEmpty_nil, if_true]
      exact hasType_scalar_mk typed.1
    | cons d ds =>
      simp only [arrOrScalar, List.isEmpty_cons, Bool.false_eq_true, if_false]
      apply hasType_array_mk
      apply typed.2
      intro hax
      subst hax
      rw [dropAxes_nil] at hd
      rw [← hd]
      exact hx
  | scalar sa => simp [inferRaw, inferSum] at hr
  | vector n e => simp [inferRaw, inferSum] at hr
  | tuple ts => simp [inferRaw, inferSum] at hr
  | named fs => simp [inferRaw, inferSum] at hr

example : evalOp (.sum [0]) [.array [2, 3] .u8] [.arr [1, 2, 3, 4, 5, 250]] = .ok (.arr [5, 7, 253]) ∧
    evalOp (.sum [0, 1]) [.array [2, 2] .i8] [.arr [127, 1, 255, 3]] = .ok (.arr [130]) := ⟨rfl, rfl⟩

/-- **CumSum** along any axis: same type. -/
theorem cumSum_value_sound (axis : Nat) : ValueSound (.cumSum axis) := by
  intro tys t vs hv hi hvs
  obtain ⟨a, rfl⟩ := infer_arity1 hi rfl
  obtain ⟨v, rfl, hv1⟩ := hasTypeL_one hvs
  have hr := infer_ok_raw hi
  cases a with
  | array s st =>
    obtain ⟨rfl, _⟩ := cumSum_shape_sound hi
    obtain ⟨xs, rfl, hx⟩ := hasType_array hv1
    refine ⟨_, by simp only [evalOp, hi, un] <;> rfl, ?_⟩
    have := cumSum_typed st s xs axis
    rw [hx.1] at this
    exact hasType_array_mk this
  | scalar sa => simp [inferRaw, inferCumSum] at hr
  | vector n e => simp [inferRaw, inferCumSum] at hr
  | tuple ts => simp [inferRaw, inferCumSum] at hr
  | named fs => simp [inferRaw, inferCumSum] at hr

example : evalOp (.cumSum 1) [.array [2, 3] .i8] [.arr [1, 2, 3, 4, 5, 250]] = .ok (.arr [1, 3, 6, 4, 9, 3]) := by
  rfl

/-- **PermuteAxes** by any permutation of the axes. -/
theorem permuteAxes_value_sound (axes : List Nat) : ValueSound (.permuteAxes axes) := by
  intro tys t vs hv hi hvs
  obtain ⟨a, rfl⟩ := infer_arity1 hi rfl
  obtain ⟨v, rfl, hv1⟩ := hasTypeL_one hvs
  have hr := infer_ok_raw hi
  cases a with
  | array s st =>
    obtain ⟨hd, hlt, hl, rfl⟩ := permuteAxes_shape_sound hi
    obtain ⟨xs, rfl, hx⟩ := hasType_array hv1
    refine ⟨_, by simp only [evalOp, hi, un] <;> rfl, ?_⟩
    have := permuteAxes_typed st xs s axes (axes.map fun i => s.getD i 0) hx.2
    rw [hx.1, ← Ops.prod_map_perm hl (hasDup_false_nodup axes hd) hlt] at this
    exact hasType_array_mk this
  | scalar sa => simp [inferRaw, inferPermuteAxes] at hr
  | vector n e => simp [inferRaw, inferPermuteAxes] at hr
  | tuple ts => simp [inferRaw, inferPermuteAxes] at hr
  | named fs => simp [inferRaw, inferPermuteAxes] at hr

example : evalOp (.permuteAxes [1, 0]) [.array [2, 3] .u8] [.arr [1, 2, 3, 4, 5, 6]] = .ok (.arr [1, 4, 2, 5, 3, 6]) := by
  rfl

/-- **Get** (any in-range index prefix; scalar result when the index is complete). -/
theorem get_value_sound (idx : List Nat) : ValueSound (.get idx) := by
  intro tys t vs hv hi hvs
  obtain ⟨a, rfl⟩ := infer_arity1 hi rfl
  obtain ⟨v, rfl, hv1⟩ := hasTypeL_one hvs
  have hr := infer_ok_raw hi
  cases a with
  | array s st =>
    obtain ⟨hle, hlt, rfl⟩ := get_shape_sound hi
    obtain ⟨xs, rfl, hx⟩ := hasType_array hv1
    refine ⟨_, by simp only [evalOp, hi, un] <;> rfl, ?_⟩
    have := get_typed st s xs idx hle (allLt_validIdx idx s hle hlt) hx
    split
    · rename_i he
      rw [he, List.drop_length] at this
      exact hasType_scalar_mk this
    · exact hasType_array_mk this
  | scalar sa => simp [inferRaw, inferGet] at hr
  | vector n e => simp [inferRaw, inferGet] at hr
  | tuple ts => simp [inferRaw, inferGet] at hr
  | named fs => simp [inferRaw, inferGet] at hr

example : evalOp (.get [1]) [.array [2, 3] .u128] [.arr [1, 2, 3, 2 ^ 100 + 7, 5, 6]] = .ok (.arr [2 ^ 100 + 7, 5, 6]) := by
  rfl

/-- **NOP**: the value is passed through. -/
theorem nop_value_sound : ValueSound .nop := by
  intro tys t vs hv hi hvs
  obtain ⟨a, rfl⟩ := infer_arity1 hi rfl
  obtain ⟨v, rfl, hv1⟩ := hasTypeL_one hvs
  have hr := infer_ok_raw hi
  simp only [inferRaw, inferUn] at hr
  injection hr with hr
  subst hr
  exact ⟨v, by simp only [evalOp, hi], hv1⟩

/-! ### Dot / Matmul / Gemm -/

/-- **Dot**: 1-d · 1-d (scalar result), N-d · 1-d, N-d · M-d, and the scalar cases (elementwise product). -/
theorem dot_value_sound : ValueSound .dot := by
  intro tys t vs hv hi hvs
  obtain ⟨a, b, rfl⟩ := infer_arity2 hi rfl
  obtain ⟨v1, v2, rfl, hv1, hv2⟩ := hasTypeL_two hvs
  have hr := infer_ok_raw hi
  have ha := hv a (by simp)
  have hb := hv b (by simp)
  simp only [inferRaw, inferBin] at hr
  -- the scalar cases are an elementwise product with broadcasting
  have scal : ∀ (a b : Ty) (v1 v2 : EV), ¬ (isArr a = true ∧ isArr b = true) → isFlat a = true → isFlat b = true →
      isFlat t = true → stE a = stE t → bcOK (dimsE a) (dimsE t) → bcOK (dimsE b) (dimsE t) →
      infer .dot [a, b] = .ok t → hasType a v1 → hasType b v2 →
      ∃ v, evalOp .dot [a, b] [v1, v2] = .ok v ∧ hasType t v := by
    intro a b v1 v2 hna f1 f2 ft e1 b1 b2 hi hv1 hv2
    obtain ⟨xs, rfl, hx⟩ := hasType_flat_arr f1 hv1
    obtain ⟨ys, rfl, hy⟩ := hasType_flat_arr f2 hv2
    obtain ⟨r, hr, hok⟩ := arith_typed .mul (stE a) (dimsE a) xs (dimsE b) ys (dimsE t) b1 b2
    refine ⟨.arr r, ?_, (hasType_flat ft r).mpr (e1 ▸ hok)⟩
    simp only [evalOp, hi, bin, if_neg hna, hr, okArr]
  cases a with
  | array s0 st0 =>
    cases b with
    | array s1 st1 =>
      obtain ⟨xs, rfl, hx⟩ := hasType_array hv1
      obtain ⟨ys, rfl, hy⟩ := hasType_array hv2
      refine ⟨_, by simp only [evalOp, hi, bin, isArr, and_self, if_true] <;> rfl, ?_⟩
      have typed := dot_typed st0 s0 xs s1 ys (dimsE t)
      by_cases h11 : s0.length = 1 ∧ s1.length = 1
      · obtain ⟨k0, rfl⟩ := List.length_eq_one_iff.mp h11.1
        obtain ⟨k1, rfl⟩ := List.length_eq_one_iff.mp h11.2
        have e := dotInfer_11 k0 k1 st0 st1 hr
        subst e
        exact hasType_scalar_mk (typed.1 h11)
      · have ft : ∃ rs, t = .array rs st0 := dotInfer_nn h11 hr
        obtain ⟨rs, rfl⟩ := ft
        exact hasType_array_mk (typed.2 h11)
    | scalar sb =>
      have e : t = .array s0 st0 := by
        simp only [dotInfer, stOf] at hr
        split at hr; · cases hr
        injection hr with hr; exact hr.symm
      subst e
      exact scal _ _ v1 v2 (by simp [isArr]) rfl rfl rfl rfl (bcOK_refl _) (bcOK_one (valid_array ha).1) hi hv1 hv2
    | vector n e => simp [dotInfer, stOf] at hr
    | tuple ts => simp [dotInfer, stOf] at hr
    | named fs => simp [dotInfer, stOf] at hr
  | scalar sa =>
    cases b with
    | array s1 st1 =>
      have e : sa = st1 ∧ t = .array s1 st1 := by
        simp only [dotInfer, stOf] at hr
        split at hr; · cases hr
        rename_i hne
        injection hr with hr; exact ⟨by simpa using hne, hr.symm⟩
      obtain ⟨rfl, rfl⟩ := e
      exact scal _ _ v1 v2 (by simp [isArr]) rfl rfl rfl rfl (bcOK_one (valid_array hb).1) (bcOK_refl _) hi hv1 hv2
    | scalar sb =>
      have e : sa = sb ∧ t = .scalar sb := by
        simp only [dotInfer, stOf] at hr
        split at hr; · cases hr
        rename_i hne
        injection hr with hr; exact ⟨by simpa using hne, hr.symm⟩
      obtain ⟨rfl, rfl⟩ := e
      exact scal _ _ v1 v2 (by simp [isArr]) rfl rfl rfl rfl (bcOK_refl _) (bcOK_refl _) hi hv1 hv2
    | vector n e => simp [dotInfer, stOf] at hr
    | tuple ts => simp [dotInfer, stOf] at hr
    | named fs => simp [dotInfer, stOf] at hr
  | vector n e => simp [dotInfer, stOf] at hr
  | tuple ts => simp [dotInfer, stOf] at hr
  | named fs => simp [dotInfer, stOf] at hr

example : evalOp .dot [.array [2, 2] .u8, .array [2] .u8] [.arr [1, 2, 3, 4], .arr [10, 100]] = .ok (.arr [210, 174]) := by
  rfl

/-- **Matmul** (all ranks ≥ 1, batch broadcasting; 1-d · 1-d gives a scalar). -/
theorem matmul_value_sound : ValueSound .matmul := by
  intro tys t vs hv hi hvs
  obtain ⟨a, b, rfl⟩ := infer_arity2 hi rfl
  obtain ⟨v1, v2, rfl, hv1, hv2⟩ := hasTypeL_two hvs
  have hr := infer_ok_raw hi
  simp only [inferRaw, inferBin] at hr
  cases a with
  | array s0 st0 =>
    cases b with
    | array s1 st1 =>
      obtain ⟨xs, rfl, hx⟩ := hasType_array hv1
      obtain ⟨ys, rfl, hy⟩ := hasType_array hv2
      refine ⟨_, by simp only [evalOp, hi, bin] <;> rfl, ?_⟩
      have typed := matmul_typed st0 s0 xs s1 ys (dimsE t)
      by_cases h11 : s0.length = 1 ∧ s1.length = 1
      · obtain ⟨k0, rfl⟩ := List.length_eq_one_iff.mp h11.1
        obtain ⟨k1, rfl⟩ := List.length_eq_one_iff.mp h11.2
        have e := matmulInfer_11 k0 k1 st0 st1 hr
        subst e
        exact hasType_scalar_mk (typed.1 h11)
      · have ft : ∃ rs, t = arrOrScalar rs st0 := matmulInfer_arrOrScalar hr
        obtain ⟨rs, rfl⟩ := ft
        have := typed.2 h11
        rw [prod_dimsE_arrOrScalar] at this
        exact hasType_arrOrScalar_mk this
    | scalar sb => simp [matmulInfer] at hr
    | vector n e => simp [matmulInfer] at hr
    | tuple ts => simp [matmulInfer] at hr
    | named fs => simp [matmulInfer] at hr
  | scalar sa => simp [matmulInfer] at hr
  | vector n e => simp [matmulInfer] at hr
  | tuple ts => simp [matmulInfer] at hr
  | named fs => simp [matmulInfer] at hr

example : evalOp .matmul [.array [1, 2, 2] .u8, .array [2, 2, 1] .u8] [.arr [1, 2, 3, 4], .arr [1, 1, 2, 3]]
    = .ok (.arr [3, 7, 8, 18]) := by rfl

/-- **Gemm(ta, tb)**, all four flag combinations, all batch ranks: the model evaluator succeeds
    (no slice of `general_gemm` is out of range) and the result has the inferred type. -/
theorem gemm_value_sound (ta tb : Bool) : ValueSound (.gemm ta tb) := by
  intro tys t vs hv hi hvs
  obtain ⟨a, b, rfl⟩ := infer_arity2 hi rfl
  obtain ⟨v1, v2, rfl, hv1, hv2⟩ := hasTypeL_two hvs
  have hr := infer_ok_raw hi
  have ha := hv a (by simp)
  have hb := hv b (by simp)
  simp only [inferRaw, inferBin] at hr
  cases a with
  | array s0 st0 =>
    cases b with
    | array s1 st1 =>
      obtain ⟨xs, rfl, hx⟩ := hasType_array hv1
      obtain ⟨ys, rfl, hy⟩ := hasType_array hv2
      have hst : st0 = st1 ∧ ¬ (s0.length = 1 ∨ s1.length = 1) := by
        simp only [gemmInfer] at hr
        split at hr; · cases hr
        rename_i hne
        split at hr; · cases hr
        rename_i hrk
        exact ⟨by simpa using hne, hrk⟩
      obtain ⟨rfl, hrk⟩ := hst
      have l0 : 2 ≤ s0.length := by
        have := List.length_pos_iff.mpr (valid_array ha).1; omega
      have l1 : 2 ≤ s1.length := by
        have := List.length_pos_iff.mpr (valid_array hb).1; omega
      obtain ⟨ba, x0, y0, rfl⟩ := exists_append_two s0 l0
      obtain ⟨bb, x1, y1, rfl⟩ := exists_append_two s1 l1
      obtain ⟨hk, bc, hbc, rfl⟩ := gemm_shape_sound hi
      have pa := (valid_array ha).2
      have pb := (valid_array hb).2
      have pba : pos ba := fun d hd => pa d (by simp [hd])
      have pbb : pos bb := fun d hd => pb d (by simp [hd])
      have px0 : 0 < x0 := pa x0 (by simp)
      have py0 : 0 < y0 := pa y0 (by simp)
      have px1 : 0 < x1 := pb x1 (by simp)
      have py1 : 0 < y1 := pb y1 (by simp)
      have hxl := hx.1
      have hyl := hy.1
      rw [Ops.gemm_prod2] at hxl hyl
      have key : ∃ r, Ops.gemm st0 ta tb (ba ++ [x0, y0]) xs (bb ++ [x1, y1]) ys
            (bc ++ [if ta = true then y0 else x0, if tb = true then x1 else y1]) = .ok r ∧
          flatOk st0 (prod (bc ++ [if ta = true then y0 else x0, if tb = true then x1 else y1])) r := by
        have g := gemm_typed st0 ta tb ba bb bc xs ys (if ta = true then y0 else x0)
          (if ta = true then x0 else y0) (if tb = true then x1 else y1)
          (bcOK_left pba pbb hbc) (bcOK_right pba pbb hbc)
          (by cases ta <;> simp [px0, py0]) (by cases ta <;> simp [px0, py0]) (by cases tb <;> simp [px1, py1])
          pba pbb (broadcastShapes_pos pba pbb hbc)
          (by cases ta <;> simp [hxl, Nat.mul_comm]) (by rw [hk]; cases tb <;> simp [hyl, Nat.mul_comm])
        have e0 : (if ta = true then [if ta = true then x0 else y0, if ta = true then y0 else x0]
            else [if ta = true then y0 else x0, if ta = true then x0 else y0]) = [x0, y0] := by cases ta <;> rfl
        have e1 : (if tb = true then [if tb = true then x1 else y1, if ta = true then x0 else y0]
            else [if ta = true then x0 else y0, if tb = true then x1 else y1]) = [x1, y1] := by
          rw [hk]; cases tb <;> rfl
        rw [e0, e1] at g
        exact g
      obtain ⟨r, hr, hok⟩ := key
      refine ⟨.arr r, ?_, hasType_array_mk hok⟩
      simp only [evalOp, hi, bin, stE, stOf, dimsE, Option.getD_some, hr, okArr]
    | scalar sb => simp [gemmInfer] at hr
    | vector n e => simp [gemmInfer] at hr
    | tuple ts => simp [gemmInfer] at hr
    | named fs => simp [gemmInfer] at hr
  | scalar sa => simp [gemmInfer] at hr
  | vector n e => simp [gemmInfer] at hr
  | tuple ts => simp [gemmInfer] at hr
  | named fs => simp [gemmInfer] at hr

example : evalOp (.gemm true false) [.array [1, 2, 2] .i8, .array [2, 2, 1] .i8] [.arr [1, 2, 255, 3], .arr [5, 254, 1, 1]]
    = .ok (.arr [7, 4, 0, 5]) := by rfl

/-! ### Reshape / A2B / ArrayToVector -/

/-- **Reshape** between scalar / array types (compound types are not covered by `evalOp`). -/
theorem reshape_value_sound (nt : Ty) (tys : List Ty) (t : Ty) (vs : List EV)
    (hflat : isFlat nt = true ∧ ∀ ty ∈ tys, isFlat ty = true)
    (hi : infer (.reshape nt) tys = .ok t) (hvs : hasTypeL tys vs) :
    ∃ v, evalOp (.reshape nt) tys vs = .ok v ∧ hasType t v := by
  obtain ⟨a, rfl⟩ := infer_arity1 hi rfl
  obtain ⟨v, rfl, hv1⟩ := hasTypeL_one hvs
  have fa := hflat.2 a (by simp)
  obtain ⟨xs, rfl, hx⟩ := hasType_flat_arr fa hv1
  have hr := infer_ok_raw hi
  simp only [inferRaw, inferReshape] at hr
  split at hr; · cases hr
  split at hr; · cases hr
  rename_i hat
  injection hr with hr
  subst hr
  refine ⟨.arr xs, by simp only [evalOp, hi, un, hflat.1, fa, and_self, if_true], (hasType_flat hflat.1 xs).mpr ?_⟩
  have e : stE a = stE nt ∧ prod (dimsE a) = prod (dimsE nt) := by
    rcases isFlat_cases fa with ⟨sa, rfl⟩ | ⟨s, sa, rfl⟩ <;>
    rcases isFlat_cases hflat.1 with ⟨sb, rfl⟩ | ⟨s', sb, rfl⟩ <;>
    · simp only [flattenTy, allAtomic, canAtomicReshape, stOf, dimsOf, Bool.and_true, Bool.not_eq_false,
        Bool.and_eq_true, beq_iff_eq] at hat
      refine ⟨by simp only [stE, stOf, Option.getD_some]; exact hat.1.1.1, ?_⟩
      have := hat.2
      simpa [dimsE, prod, prod_eq, TI.prod] using this
  rw [← e.1, ← e.2]
  exact hx

example : evalOp (.reshape (.array [3, 2] .u8)) [.array [2, 3] .u8] [.arr [1, 2, 3, 4, 5, 6]] = .ok (.arr [1, 2, 3, 4, 5, 6]) := by
  rfl

/-- **A2B**: `bits` entries below 2 per element. -/
theorem a2b_value_sound : ValueSound .a2b := by
  intro tys t vs hv hi hvs
  obtain ⟨a, rfl⟩ := infer_arity1 hi rfl
  obtain ⟨v, rfl, hv1⟩ := hasTypeL_one hvs
  have hr := infer_ok_raw hi
  simp only [inferRaw, inferUn] at hr
  cases a with
  | scalar st =>
    obtain ⟨xs, rfl, hx⟩ := hasType_scalar hv1
    simp only [a2bInfer] at hr
    split at hr; · cases hr
    rename_i hst
    injection hr with hr; subst hr
    obtain ⟨r, hr, hok⟩ := a2b_typed st hst xs hx.2
    refine ⟨.arr r, by simp only [evalOp, hi, un, stE, stOf, Option.getD_some, hr, okArr], hasType_array_mk ?_⟩
    have e : prod [st.bits] = xs.length * st.bits := by rw [hx.1]; simp [prod]
    rw [e]; exact hok
  | array s st =>
    obtain ⟨xs, rfl, hx⟩ := hasType_array hv1
    simp only [a2bInfer] at hr
    split at hr; · cases hr
    rename_i hst
    injection hr with hr; subst hr
    obtain ⟨r, hr, hok⟩ := a2b_typed st hst xs hx.2
    refine ⟨.arr r, by simp only [evalOp, hi, un, stE, stOf, Option.getD_some, hr, okArr], hasType_array_mk ?_⟩
    have e : prod (s ++ [st.bits]) = xs.length * st.bits := by rw [hx.1, prod_append]; simp [prod]
    rw [e]; exact hok
  | vector n e => simp [a2bInfer] at hr
  | tuple ts => simp [a2bInfer] at hr
  | named fs => simp [a2bInfer] at hr

example : evalOp .a2b [.array [2] .u8] [.arr [5, 255]] = .ok (.arr [1, 0, 1, 0, 0, 0, 0, 0, 1, 1, 1, 1, 1, 1, 1, 1]) := by
  rfl

/-! ### operations with documented run-time errors: Gather, InversePermutation -/

/-- **Gather**: if every index is below the size of the gathered axis the result exists and has the
    inferred type; otherwise (and only then) evaluation fails with the documented "Incorrect index". -/
theorem gather_value_sound (axis : Nat) (tys : List Ty) (t : Ty) (vs : List EV)
    (hv : ∀ ty ∈ tys, ty.isValid = true) (hi : infer (.gather axis) tys = .ok t) (hvs : hasTypeL tys vs) :
    ∃ s st is_ ist xs idx, tys = [.array s st, .array is_ ist] ∧ vs = [.arr xs, .arr idx] ∧
      ((∀ ie ∈ idx, ie < s.getD axis 0) → ∃ v, evalOp (.gather axis) tys vs = .ok v ∧ hasType t v) ∧
      ((∃ ie ∈ idx, s.getD axis 0 ≤ ie) → ∃ e, evalOp (.gather axis) tys vs = .error e) := by
  obtain ⟨a, b, rfl⟩ := infer_arity2 hi rfl
  obtain ⟨v1, v2, rfl, hv1, hv2⟩ := hasTypeL_two hvs
  have hr := infer_ok_raw hi
  have ha := hv a (by simp)
  simp only [inferRaw] at hr
  cases a with
  | array s st =>
    cases b with
    | array is_ ist =>
      obtain ⟨xs, rfl, hx⟩ := hasType_array hv1
      obtain ⟨idx, rfl, hy⟩ := hasType_array hv2
      simp only [inferGather] at hr
      split at hr; · cases hr
      split at hr; · cases hr
      rename_i hax
      split at hr; · cases hr
      injection hr with hr; subst hr
      have g := gather_typed st s xs idx axis (by omega) (valid_array ha).2 hx
      refine ⟨s, st, is_, ist, xs, idx, rfl, rfl, ?_, ?_⟩
      · intro hin
        obtain ⟨r, hr, hok⟩ := g.1 hin
        refine ⟨.arr r, by simp only [evalOp, hi, bin, dimsE, hr, okArr], hasType_array_mk ?_⟩
        rw [prod_append, prod_append, ← hy.1, Nat.mul_assoc]
        exact hok
      · intro hbad
        obtain ⟨e, he⟩ := g.2 hbad
        exact ⟨e, by simp only [evalOp, hi, bin, dimsE, he, okArr]⟩
    | scalar sb => simp [inferGather] at hr
    | vector n e => simp [inferGather] at hr
    | tuple ts => simp [inferGather] at hr
    | named fs => simp [inferGather] at hr
  | scalar sa => simp [inferGather] at hr
  | vector n e => simp [inferGather] at hr
  | tuple ts => simp [inferGather] at hr
  | named fs => simp [inferGather] at hr

example : evalOp (.gather 1) [.array [2, 3] .i8, .array [2] .u16] [.arr [1, 2, 3, 4, 5, 6], .arr [2, 0]]
    = .ok (.arr [3, 1, 6, 4]) := by rfl

/-- **InversePermutation**: on a permutation of `0..n-1` the result exists and has the inferred type;
    on anything else (and only then) evaluation fails with the documented run-time error. -/
theorem inversePermutation_value_sound (tys : List Ty) (t : Ty) (vs : List EV)
    (hi : infer .inversePermutation tys = .ok t) (hvs : hasTypeL tys vs) :
    ∃ s st xs, tys = [.array s st] ∧ vs = [.arr xs] ∧
      ((xs.Nodup ∧ ∀ x ∈ xs, x < xs.length) → ∃ v, evalOp .inversePermutation tys vs = .ok v ∧ hasType t v) ∧
      (¬ (xs.Nodup ∧ ∀ x ∈ xs, x < xs.length) → ∃ e, evalOp .inversePermutation tys vs = .error e) := by
  obtain ⟨a, rfl⟩ := infer_arity1 hi rfl
  obtain ⟨v, rfl, hv1⟩ := hasTypeL_one hvs
  have hr := infer_ok_raw hi
  simp only [inferRaw] at hr
  cases a with
  | array s st =>
    obtain ⟨xs, rfl, hx⟩ := hasType_array hv1
    simp only [inferInversePermutation] at hr
    split at hr; · cases hr
    split at hr; · cases hr
    split at hr; · cases hr
    injection hr with hr; subst hr
    have g := inversePermutation_typed st xs hx.2
    refine ⟨s, st, xs, rfl, rfl, ?_, ?_⟩
    · intro hp
      obtain ⟨r, hr, hok⟩ := g.1 hp
      refine ⟨.arr r, by simp only [evalOp, hi, un, hr, okArr], hasType_array_mk ?_⟩
      rw [← hx.1]; exact hok
    · intro hn
      obtain ⟨e, he⟩ := g.2 hn
      exact ⟨e, by simp only [evalOp, hi, un, he, okArr]⟩
  | scalar sa => simp [inferInversePermutation] at hr
  | vector n e => simp [inferInversePermutation] at hr
  | tuple ts => simp [inferInversePermutation] at hr
  | named fs => simp [inferInversePermutation] at hr

example : evalOp .inversePermutation [.array [4] .u8] [.arr [2, 0, 3, 1]] = .ok (.arr [1, 3, 0, 2]) := by rfl

/-! ### GetSlice (soundness; totality open) -/

/-- what remains open for GetSlice: the model evaluator loop never fails on an accepted slice
    (`Slices.sliceIndex` returns an index for every result position).  The in-range half is
    `C09.sliceIndex_in_range` for the `TI` copy of `slice_index`; connecting it to the `CCV.Slices`
    copy used by `Ops.getSlice` needs the (unproved) equality of the two models of `get_clean_slice`. -/
def getSlice_total_Statement : Prop :=
  ∀ (sl : List SliceEl), ValueSound (.getSlice sl)

/-- **GetSlice, soundness half**: whenever the evaluator loop returns a value, it has the inferred
    type (all ranks, negative steps, ellipsis, scalar results). -/
theorem getSlice_value_sound_partial (sl : List SliceEl) (tys : List Ty) (t : Ty) (vs : List EV) (v : EV)
    (hi : infer (.getSlice sl) tys = .ok t) (hvs : hasTypeL tys vs)
    (hev : evalOp (.getSlice sl) tys vs = .ok v) : hasType t v := by
  obtain ⟨a, rfl⟩ := infer_arity1 hi rfl
  obtain ⟨w, rfl, hv1⟩ := hasTypeL_one hvs
  have hr := infer_ok_raw hi
  simp only [inferRaw] at hr
  cases a with
  | array s st =>
    obtain ⟨xs, rfl, hx⟩ := hasType_array hv1
    obtain ⟨rs, _, rfl⟩ := getSlice_shape_sound hi
    simp only [evalOp, hi, un] at hev
    cases hg : Ops.getSlice (dimsE (.array s st)) xs (sl.map toSE) (dimsE (arrOrScalar rs st)) with
    | error e => rw [hg] at hev; simp [okArr] at hev
    | ok r =>
      rw [hg] at hev
      simp only [okArr] at hev
      injection hev with hev
      subst hev
      have := getSlice_typed st _ xs _ _ r hx.2 hg
      rw [prod_dimsE_arrOrScalar] at this
      exact hasType_arrOrScalar_mk this
  | scalar sa => simp [inferGetSlice] at hr
  | vector n e => simp [inferGetSlice] at hr
  | tuple ts => simp [inferGetSlice] at hr
  | named fs => simp [inferGetSlice] at hr

example : evalOp (.getSlice [.ellipsis, .sub (some (-1)) none (some (-2))]) [.array [2, 5] .u8]
    [.arr [0, 1, 2, 3, 4, 5, 6, 7, 8, 9]] = .ok (.arr [4, 2, 0, 9, 7, 5]) := by rfl

/-! ### ArrayToVector / VectorToArray -/

/-- **ArrayToVector**: a vector of `shape[0]` rows, each of the element type. -/
theorem arrayToVector_value_sound : ValueSound .arrayToVector := by
  intro tys t vs hv hi hvs
  obtain ⟨a, rfl⟩ := infer_arity1 hi rfl
  obtain ⟨v, rfl, hv1⟩ := hasTypeL_one hvs
  have hr := infer_ok_raw hi
  have ha := hv a (by simp)
  simp only [inferRaw] at hr
  cases a with
  | array s st =>
    obtain ⟨xs, rfl, hx⟩ := hasType_array hv1
    obtain ⟨hne, hpos⟩ := valid_array ha
    cases s with
    | nil => exact absurd rfl hne
    | cons d rest =>
      have hp : 0 < prod rest := prod_pos (fun x hx => hpos x (by simp [hx]))
      obtain ⟨hl, hrows⟩ := arrayToVector_typed st d rest xs hx hp
      refine ⟨_, by simp only [evalOp, hi, un] <;> rfl, ?_⟩
      simp only [inferArrayToVector] at hr
      split at hr
      · rename_i h1
        injection hr with hr; subst hr
        have hrest : rest = [] := by
          cases rest with
          | nil => rfl
          | cons _ _ => simp at h1
        subst hrest
        simp only [hasType, List.length_map, dimsE]
        refine ⟨by simpa using hl, ?_⟩
        intro w hw
        obtain ⟨row, hrow, rfl⟩ := List.mem_map.mp hw
        exact hasType_scalar_mk (hrows row hrow)
      · injection hr with hr; subst hr
        simp only [hasType, List.length_map, dimsE]
        refine ⟨by simpa using hl, ?_⟩
        intro w hw
        obtain ⟨row, hrow, rfl⟩ := List.mem_map.mp hw
        exact hasType_array_mk (hrows row hrow)
  | scalar sa => simp [inferArrayToVector] at hr
  | vector n e => simp [inferArrayToVector] at hr
  | tuple ts => simp [inferArrayToVector] at hr
  | named fs => simp [inferArrayToVector] at hr


example : evalOp .arrayToVector [.array [2, 2] .u8] [.arr [1, 2, 3, 4]] = .ok (.vec [.arr [1, 2], .arr [3, 4]]) := by rfl

/-- **VectorToArray**: a non-empty vector of scalars / arrays becomes one array. -/
theorem vectorToArray_value_sound : ValueSound .vectorToArray := by
  intro tys t vs hv hi hvs
  obtain ⟨a, rfl⟩ := infer_arity1 hi rfl
  obtain ⟨v, rfl, hv1⟩ := hasTypeL_one hvs
  have hr := infer_ok_raw hi
  simp only [inferRaw] at hr
  cases a with
  | vector n et =>
    cases v with
    | arr xs => simp [hasType] at hv1
    | vec rows =>
      simp only [hasType] at hv1
      obtain ⟨hn, hrows⟩ := hv1
      simp only [inferVectorToArray] at hr
      split at hr; · cases hr
      cases et with
      | scalar st =>
        injection hr with hr; subst hr
        obtain ⟨rs, hrs, hl, hok⟩ := rowsOf_typed st 1 rows (fun w hw => hasType_scalar (hrows w hw))
        refine ⟨_, by simp only [evalOp, hi, hrs] <;> rfl, hasType_array_mk ?_⟩
        have := vectorToArray_typed st 1 rs hok
        rw [hl, hn] at this
        simpa [prod] using this
      | array s st =>
        injection hr with hr; subst hr
        obtain ⟨rs, hrs, hl, hok⟩ := rowsOf_typed st (prod s) rows (fun w hw => hasType_array (hrows w hw))
        refine ⟨_, by simp only [evalOp, hi, hrs] <;> rfl, hasType_array_mk ?_⟩
        have := vectorToArray_typed st (prod s) rs hok
        rw [hl, hn] at this
        simpa [prod] using this
      | vector m e => simp at hr
      | tuple ts => simp at hr
      | named fs => simp at hr
  | scalar sa => simp [inferVectorToArray] at hr
  | array s sa => simp [inferVectorToArray] at hr
  | tuple ts => simp [inferVectorToArray] at hr
  | named fs => simp [inferVectorToArray] at hr


example : evalOp .vectorToArray [.vector 2 (.array [2] .u8)] [.vec [.arr [1, 2], .arr [3, 4]]] = .ok (.arr [1, 2, 3, 4]) := by rfl

/-! ### summary -/

/-- the operations for which soundness AND totality are proved without side conditions -/
def totalOp : Op → Bool
  | .add | .subtract | .multiply | .mixedMultiply | .dot | .matmul | .gemm _ _ | .truncate _
  | .sum _ | .cumSum _ | .permuteAxes _ | .get _ | .nop | .a2b | .arrayToVector | .vectorToArray => true
  | _ => false

/-- **Summary**: for each of Add, Subtract, Multiply, MixedMultiply, Dot, Matmul, Gemm, Truncate, Sum,
    CumSum, PermuteAxes, Get, NOP, A2B, ArrayToVector, VectorToArray: if the node is accepted by type inference with type `t` and the
    dependency values have the (valid) dependency types, then evaluating the node never fails and the
    value has type `t`.  (Reshape of flat types: `reshape_value_sound`; Gather / InversePermutation with
    their exact run-time error conditions: `gather_value_sound`, `inversePermutation_value_sound`;
    GetSlice soundness: `getSlice_value_sound_partial`.) -/
theorem eval_hasType (op : Op) (h : totalOp op = true) : ValueSound op := by
  cases op
  case add => exact arith_value_sound.1
  case subtract => exact arith_value_sound.2.1
  case multiply => exact arith_value_sound.2.2
  case mixedMultiply => exact mixedMultiply_value_sound
  case dot => exact dot_value_sound
  case matmul => exact matmul_value_sound
  case gemm ta tb => exact gemm_value_sound ta tb
  case truncate d => exact truncate_value_sound d
  case sum axes => exact sum_value_sound axes
  case cumSum axis => exact cumSum_value_sound axis
  case permuteAxes axes => exact permuteAxes_value_sound axes
  case get idx => exact get_value_sound idx
  case nop => exact nop_value_sound
  case a2b => exact a2b_value_sound
  case arrayToVector => exact arrayToVector_value_sound
  case vectorToArray => exact vectorToArray_value_sound
  all_goals simp [totalOp] at h

example : ∃ v, evalOp (.gemm false true) [.array [2, 2] .u8, .array [2, 2] .u8] [.arr [1, 2, 3, 4], .arr [5, 6, 7, 8]] = .ok v ∧
    hasType (.array [2, 2] .u8) v :=
  eval_hasType (.gemm false true) rfl _ _ _ (by decide) rfl
    (by simp [hasTypeL, hasType, flatOk, Shape.prod]; decide)

end CCV.C09
