import CCV.Lemmas.ApproxNewton
import CCV.Lemmas.ApproxSqrt
import CCV.Lemmas.ApproxGold
/-
  C20 — approximate numeric operations stay close to the real function.
  Theorems about the executable model `CCV/Model/Approx.lean` (the functions the driver runs).
  Error statements are over ℤ with denominators cleared (`P = 2^c`, `E = P - x·d` is `P` times the
  relative error `1 - x·d/2^c`); each is the ℚ statement multiplied through by positive powers of 2.

  NOT decided here (see props/C20.json `not_covered`): the distance of the exponent / sigmoid / GELU
  tables to the REAL transcendental functions.  `pwl_select_interpolate_partial` gives selection +
  interpolation exactness for arbitrary tables; `ClosenessStatement` records what is missing.
-/
namespace CCV.C20
open CCV.Approx

/-! ### (1) fixed-point product -/

/-- FixedMultiply (INT64) for every precision `p` and all operands whose product does not overflow,
    both signs: `|r - a·b/2^p| < 1` (cleared: `|r·2^p - a·b| < 2^p`), rounded toward zero. -/
theorem fixedMul_within_one_unit {a b : Int} (p : Nat) (h0 : -(2 ^ 63) ≤ a * b) (h1 : a * b < 2 ^ 63) :
    (fixedMul 64 a b p * 2 ^ p - a * b < 2 ^ p ∧ a * b - fixedMul 64 a b p * 2 ^ p < 2 ^ p) ∧
    (0 ≤ a * b → fixedMul 64 a b p * 2 ^ p ≤ a * b) ∧
    (a * b ≤ 0 → a * b ≤ fixedMul 64 a b p * 2 ^ p) :=
  fixedMul_within_unit p h0 h1

example : fixedMul 64 (-98304) 65536 15 = -196608 := by decide
example : fixedMul 64 (-7) 3 2 = -5 ∧ fixedMul 64 7 3 2 = 5 := by decide

/-- debug mode: when the overflow check passes (and neither operand is 0 or -1, for which the
    check is vacuous) the product is at most `2^57` in absolute value: no wrap, and the result is the
    one of `fixedMul_within_one_unit`. -/
theorem fixedMulDebug_sound {a b r : Int} (p : Nat) (h : fixedMulDebug 64 a b p = some r)
    (hx0 : flipNeg a ≠ 0) (hy0 : flipNeg b ≠ 0) :
    -(2 ^ 57) ≤ a * b ∧ a * b ≤ 2 ^ 57 ∧ r = fixedMul 64 a b p := by
  unfold fixedMulDebug at h
  split at h
  · rename_i hs
    have := mulSafe_sound hs hx0 hy0
    exact ⟨this.1, this.2, by injection h with h; exact h.symm⟩
  · cases h

example : fixedMulDebug 64 (2 ^ 30) (2 ^ 30) 15 = none := by decide
example : fixedMulDebug 64 65536 (-98304) 15 = some (-196608) := by decide

/-! ### (2) bit-derived initial guesses -/

/-- `inverse_initial_approximation`: for every cap `c ≤ 64` and every `0 < d < 2^c` the guess `g`
    satisfies `2^(c-1) ≤ g·d < 2^c`, i.e. `2^c/(2d) ≤ g < 2^c/d`: within a factor 2 below the exact
    reciprocal (`e₀ = 1 - g·d/2^c ∈ (0, 1/2]`). -/
theorem initial_guess_bracket {c : Nat} {d : Int} (hc : c ≤ 64) (h0 : 0 < d) (hd : d < 2 ^ c) :
    2 ^ (c - 1) ≤ initInv 64 c d * d ∧ initInv 64 c d * d < 2 ^ c :=
  initInv_bracket hc (by decide) h0 hd

example : initInv 64 10 3 = 256 ∧ initInv 64 10 1023 = 1 ∧ initInv 64 10 512 = 1 := by decide

/-- `inverse_sqrt_initial_approximation`: for every cap `c ≤ 32` and `0 < d < 4^c` the guess
    satisfies `4^(c-1) ≤ g²·d < 4^c`, i.e. `2^c/(2√d) ≤ g < 2^c/√d`. -/
theorem initial_sqrt_guess_bracket {c : Nat} {d : Int} (hc : 2 * c ≤ 64) (h0 : 0 < d) (hd : d < 4 ^ c) :
    4 ^ (c - 1) ≤ initSqrt 64 c d * initSqrt 64 c d * d ∧ initSqrt 64 c d * initSqrt 64 c d * d < 4 ^ c :=
  initSqrt_bracket hc (by decide) h0 hd

example : initSqrt 64 10 17 = 128 ∧ initSqrt 64 10 1000000 = 1 := by decide

/-! ### (3) Newton–Raphson reciprocal -/

/-- one-step error recurrence, exact: `P·E' = E² + r·d` with the rounding remainder `0 ≤ r < P`
    (`e' = e² + (r/P)(d/P)`: the square of the error plus a rounding term below `δ = d/2^c`),
    for every cap `c ≤ 29` (above, the i32 constant of the code is wrong), both signednesses, every
    `d > 0` and every iterate with `0 ≤ x`, `x·d ≤ 2^c`. -/
theorem newton_step_error (sg : Bool) {c : Nat} {d x : Int} (hc : c ≤ 29) (hd : 0 < d)
    (hx : 0 ≤ x) (hxd : x * d ≤ 2 ^ c) :
    ∃ r : Int, 0 ≤ r ∧ r < 2 ^ c ∧
      2 ^ c * (2 ^ c - newtonStep sg 64 c d x * d) = (2 ^ c - x * d) ^ 2 + r * d :=
  newton_error_recurrence sg hc hd hx hxd

example : newtonStep false 64 10 3 256 = 320 ∧ newtonStep true 64 10 3 320 = 340 := by decide

/-- n-step bound by induction on n: from `2^(c-1) ≤ x₀·d ≤ 2^c` (`0 ≤ e₀ ≤ 1/2`), after `n ≥ 1`
    iterations `0 ≤ e_n ≤ 2^(-2^n) + 4·d/2^c` (cleared: `2^(2^n)·E_n ≤ 2^c + 4·d·2^(2^n)`), and the
    iterate never exceeds `2^c/d`. -/
theorem newton_n_steps (sg : Bool) {c : Nat} {d x : Int} (hc : c ≤ 29) (hc1 : 1 ≤ c) (hd : 0 < d)
    (hd16 : 16 * d ≤ 2 ^ c) (hx : 0 ≤ x) (hlo : 2 ^ (c - 1) ≤ x * d) (hxd : x * d ≤ 2 ^ c)
    (n : Nat) (hn : 1 ≤ n) :
    let y := newtonIter sg 64 c d n x
    0 ≤ y ∧ y * d ≤ 2 ^ c ∧ 2 ^ (2 ^ n) * (2 ^ c - y * d) ≤ 2 ^ c + 4 * d * 2 ^ (2 ^ n) :=
  newton_nstep sg hc hc1 hd hd16 hx hlo hxd n hn

/-- the operation as instantiated without a supplied approximation (bit-derived guess): for every
    cap `1 ≤ c ≤ 29`, every divisor `0 < d ≤ 2^c/16` and every iteration count `n ≥ 1` the result `y`
    satisfies `0 ≤ 1 - y·d/2^c ≤ 2^(-2^n) + 4·d/2^c`. -/
theorem newton_inversion_error (sg : Bool) {c : Nat} {d : Int} (hc : c ≤ 29) (hc1 : 1 ≤ c) (hd : 0 < d)
    (hd16 : 16 * d ≤ 2 ^ c) (n : Nat) (hn : 1 ≤ n) :
    ∃ y, newton sg 64 c n d none = some y ∧
      0 ≤ y ∧ y * d ≤ 2 ^ c ∧ 2 ^ (2 ^ n) * (2 ^ c - y * d) ≤ 2 ^ c + 4 * d * 2 ^ (2 ^ n) :=
  newton_bits_nstep sg hc hc1 hd hd16 n hn

example : newton false 64 10 5 3 none = some 341 := by decide
example : (16:Int) * 3 ≤ 2 ^ 10 := by decide

/-- **the cap range `c ≤ 29` of the Newton theorems is the full range in which the code is right**:
    the constant built from the `i32` literal `1 << (cap + 1)` equals `2^(c+1)` iff `c ≤ 29`, for both
    signednesses (`c = 30`: `i32::MIN`; `c ≥ 31`: the shift amount wraps modulo 32).  Wrap-around of
    the 64-bit products would only start at `c = 31` (`(2^(c+1) − x·d)·x < 2^(2c+1)`), so the limit is
    the literal, not the type: with `1u128 <<` (as in GoldschmidtDivision) `c = 30` would be covered. -/
theorem newton_cap_range (sg : Bool) (c : Nat) : newtonConst sg 64 c = 2 ^ (c + 1) ↔ c ≤ 29 :=
  newtonConst_eq_iff sg c

/-- at cap 30 the conclusion of `newton_step_error` fails: from the bit-derived guess `2^28` for
    `d = 3` (`x·d ≤ 2^30` holds) the next iterate is negative -/
example : newtonConst true 64 30 = -(2 ^ 31) ∧ initInv 64 30 3 = 2 ^ 28
    ∧ newtonStep true 64 30 3 (2 ^ 28) = -738197504 := by decide

/-! ### (4) Goldschmidt division -/

/-- denominator sequence of GoldschmidtDivision, caps `≤ 30`, both signednesses: with `E = 2^c - b`,
    `2^c·E' = E² + r`, `0 ≤ r < 2^c` (`e' = e² + r/4^c`): quadratic convergence of `b` to `2^c`;
    nothing wraps as long as `a·2^(c+1) < 2^63`. -/
theorem goldschmidt_denominator_error (sg : Bool) {c : Nat} {a b : Int} (hc : c ≤ 30) (hb0 : 0 ≤ b)
    (hb : b ≤ 2 ^ c) (ha0 : 0 ≤ a) (ha : a * 2 ^ (c + 1) < 2 ^ 63) :
    ∃ r : Int, 0 ≤ r ∧ r < 2 ^ c ∧
      2 ^ c * (2 ^ c - (goldStep sg 64 c (a, b)).2) = (2 ^ c - b) ^ 2 + r :=
  gold_b_recurrence sg hc hb0 hb ha0 ha

/-- the numerator is multiplied by the same factor `(2^(c+1) - b)/2^c`, truncated: one unit below. -/
theorem goldschmidt_numerator_step (sg : Bool) {c : Nat} {a b : Int} (hc : c ≤ 30) (hb0 : 0 ≤ b)
    (hb : b ≤ 2 ^ c) (ha0 : 0 ≤ a) (ha : a * 2 ^ (c + 1) < 2 ^ 63) :
    let a' := (goldStep sg 64 c (a, b)).1
    a' * 2 ^ c ≤ a * (2 ^ (c + 1) - b) ∧ a * (2 ^ (c + 1) - b) < a' * 2 ^ c + 2 ^ c :=
  gold_a_step sg hc hb0 hb ha0 ha

example : goldStep false 64 10 (123456 * 8, 123 * 8) = (1026228, 1022) := by decide

/-- **n-step QUOTIENT bound of GoldschmidtDivision**, by induction on the number `n` of loop rounds
    (`iterations = n + 1`), for a supplied initial reciprocal guess `w` with `2^(c-1) ≤ d·w ≤ 2^c`
    (the lower two thirds of the documented window; above it the method does not converge in the
    rule-of-thumb count: known finding).  Caps `4 ≤ c ≤ 30`, both signednesses, dividend `a ≥ 0`,
    divisor `d > 0`, `4n ≤ 2^c`; nothing wraps if some `M ≥ a·(2^c + 4n)/d` has `M·2^(c+1) < 2^63`
    (`M` bounds every intermediate numerator, which approximates `a·2^c/d`).
    The returned `q` satisfies, with denominators cleared (`B = 2^(2^n)`):
    * `q·d − a·2^c ≤ 4·n·a`                      (`q − a·2^c/d ≤ 4n·a/d`: overshoot only through the
      `2n` truncations of the denominator sequence), and
    * `B·(a·2^c − q·d) ≤ 4·n·d·B + a·(2^c + 4·B)`  (`a·2^c/d − q ≤ 4n + (a/d)·(2^c/2^(2^n) + 4)`: the
      truncation drift of at most `4n` units plus the quadratically convergent denominator error
      `e_n ≤ 2^(-2^n) + 4/2^c` applied to the exact quotient). -/
theorem goldschmidt_quotient_n_steps (sg : Bool) {c n : Nat} {a d w M : Int} (hc4 : 4 ≤ c) (hc : c ≤ 30)
    (ha : 0 ≤ a) (hd : 0 < d) (hw : 0 ≤ w) (hlo : 2 ^ c ≤ 2 * (d * w)) (hhi : d * w ≤ 2 ^ c)
    (hn : 4 * (n : Int) ≤ 2 ^ c)
    (hM : a * (2 ^ c + 4 * (n : Int)) ≤ d * M) (hM63 : M * 2 ^ (c + 1) < 2 ^ 63) :
    ∃ q, goldschmidt sg 64 c (n + 1) a d (some w) = some q ∧ 0 ≤ q ∧
      q * d - a * 2 ^ c ≤ 4 * (n : Int) * a ∧
      2 ^ (2 ^ n) * (a * 2 ^ c - q * d) ≤ 4 * (n : Int) * d * 2 ^ (2 ^ n) + a * (2 ^ c + 4 * 2 ^ (2 ^ n)) := by
  obtain ⟨q, hq, b, hinv⟩ := gold_nstep sg hc4 hc ha hd hw hlo hhi hn hM hM63
  have := goldInv_quotient ha hd hinv
  exact ⟨q, hq, hinv.1, this.1, this.2⟩

/-- the operation as instantiated WITHOUT a supplied approximation (bit-derived guess), on the domain
    the op documents (`0 < d < 2^c`; `a ≥ 0` small enough for the no-wrap guard): same bound. -/
theorem goldschmidt_division_error (sg : Bool) {c n : Nat} {a d M : Int} (hc4 : 4 ≤ c) (hc : c ≤ 30)
    (ha : 0 ≤ a) (hd : 0 < d) (hdc : d < 2 ^ c) (hn : 4 * (n : Int) ≤ 2 ^ c)
    (hM : a * (2 ^ c + 4 * (n : Int)) ≤ d * M) (hM63 : M * 2 ^ (c + 1) < 2 ^ 63) :
    ∃ q, goldschmidt sg 64 c (n + 1) a d none = some q ∧ 0 ≤ q ∧
      q * d - a * 2 ^ c ≤ 4 * (n : Int) * a ∧
      2 ^ (2 ^ n) * (a * 2 ^ c - q * d) ≤ 4 * (n : Int) * d * 2 ^ (2 ^ n) + a * (2 ^ c + 4 * 2 ^ (2 ^ n)) := by
  obtain ⟨q, hq, b, hinv⟩ := gold_bits_nstep sg hc4 hc ha hd hdc hn hM hM63
  have := goldInv_quotient ha hd hinv
  exact ⟨q, hq, hinv.1, this.1, this.2⟩

/-- non-vacuity: 1000/7 with cap 10, 5 iterations (n = 4 rounds): exact 2^10·1000/7 = 146285.7…,
    returned 146534 (0.17 % above, within `4n·a/d = 2285`: the truncations of the denominator sequence
    act on the quotient relatively, `≈ n/2^c`); the hypotheses hold with M = 2^18 -/
example : goldschmidt false 64 10 5 1000 7 none = some 146534
    ∧ (1000:Int) * (2 ^ 10 + 4 * (4:Nat)) ≤ 7 * 2 ^ 18 ∧ (2:Int) ^ 18 * 2 ^ (10 + 1) < 2 ^ 63
    ∧ 4 * ((4:Nat):Int) ≤ 2 ^ 10 := by decide

/-- on the domain the op documents (dividend and divisor in `(0, 2^(c-1))`; here even `0 ≤ a < 2^(c-1)`,
    `0 < d < 2^c`) the no-wrap guard holds for every cap `4 ≤ c ≤ 20` (`M = 4^c`, `4^c·2^(c+1) ≤ 2^61`);
    for larger caps small divisors make the numerator `≈ a·2^c/d` overflow, as the op's doc warns. -/
theorem goldschmidt_documented_domain (sg : Bool) {c n : Nat} {a d : Int} (hc4 : 4 ≤ c) (hc : c ≤ 20)
    (ha : 0 ≤ a) (hac : 2 * a ≤ 2 ^ c) (hd : 0 < d) (hdc : d < 2 ^ c) (hn : 4 * (n : Int) ≤ 2 ^ c) :
    ∃ q, goldschmidt sg 64 c (n + 1) a d none = some q ∧ 0 ≤ q ∧
      q * d - a * 2 ^ c ≤ 4 * (n : Int) * a ∧
      2 ^ (2 ^ n) * (a * 2 ^ c - q * d) ≤ 4 * (n : Int) * d * 2 ^ (2 ^ n) + a * (2 ^ c + 4 * 2 ^ (2 ^ n)) := by
  have hP : (0:Int) < 2 ^ c := two_pow_pos' c
  have hn0 : (0:Int) ≤ (n : Int) := Int.natCast_nonneg _
  apply goldschmidt_division_error sg (M := 2 ^ c * 2 ^ c) hc4 (by omega) ha hd hdc hn
  · -- a (P + 4n) ≤ (P/2)(2P) = P² ≤ d P²
    have h1 : a * (2 ^ c + 4 * (n : Int)) ≤ a * (2 * 2 ^ c) := mul_le_mul_of_nonneg_left (by linarith) ha
    have h2 : (2 * a) * 2 ^ c ≤ 2 ^ c * 2 ^ c := mul_le_mul_of_nonneg_right hac (le_of_lt hP)
    have h3 : 1 * (2 ^ c * 2 ^ c) ≤ d * (2 ^ c * 2 ^ c) :=
      mul_le_mul_of_nonneg_right (by linarith) (by positivity)
    linarith
  · have h20 : (2:Int) ^ c ≤ 2 ^ 20 := pow_le_pow_right₀ (by decide) hc
    have hsucc : (2:Int) ^ (c + 1) = 2 * 2 ^ c := by rw [pow_succ]; ring
    rw [hsucc]
    have h1 : (2:Int) ^ c * 2 ^ c ≤ 2 ^ 20 * 2 ^ 20 := mul_le_mul h20 h20 (le_of_lt hP) (by norm_num)
    have h2 : (2:Int) ^ c * 2 ^ c * (2 * 2 ^ c) ≤ 2 ^ 20 * 2 ^ 20 * (2 * 2 ^ 20) :=
      mul_le_mul h1 (by linarith) (by positivity) (by norm_num)
    have : (2:Int) ^ 20 * 2 ^ 20 * (2 * 2 ^ 20) < 2 ^ 63 := by norm_num
    linarith

/-- non-vacuity: cap 12, 6 iterations, 2047/3: exact 2^12·2047/3 = 2794837.3…, returned 2796158 (0.05 % above) -/
example : goldschmidt true 64 12 6 2047 3 none = some 2796158 ∧ 2 * (2047:Int) ≤ 2 ^ 12 := by decide
/-! ### (4b) Newton inverse square root -/

/-- InverseSqrt, one iteration, caps `2 ≤ c ≤ 30`, both signednesses, every `d > 0` and iterate with
    `0 ≤ x`, `d·x² ≤ (2^c+2)²` — the guard that IS invariant under the iteration (`d·x² ≤ 4^c` is not:
    the first floor pushes the step up, see the example below): nothing wraps and the step is
    `x' = ⌊(3·2^(c-1) - ⌊d·x²/2^(c+1)⌋)·x / 2^c⌋` (`x·(3/2 - d·x²/2)` in fixed point, two truncations). -/
theorem inverse_sqrt_step_formula (sg : Bool) {c : Nat} {d x : Int} (hc2 : 2 ≤ c) (hc : c ≤ 30)
    (hd : 0 < d) (hx : 0 ≤ x) (hdx : d * x * x ≤ (2 ^ c + 2) * (2 ^ c + 2)) :
    sqrtStep sg 64 c d x = ((3 * 2 ^ (c - 1) - (d * x * x) / 2 ^ (c + 1)) * x) / 2 ^ c :=
  sqrtStep_eq' sg hc2 hc hd hx hdx

/-- corollary (the statement proved first, under the narrower guard `d·x² ≤ 4^c`). -/
theorem inverse_sqrt_step_formula_partial (sg : Bool) {c : Nat} {d x : Int} (hc2 : 2 ≤ c) (hc : c ≤ 30)
    (hd : 0 < d) (hx : 0 ≤ x) (hdx : d * x * x ≤ 4 ^ c) :
    sqrtStep sg 64 c d x = ((3 * 2 ^ (c - 1) - (d * x * x) / 2 ^ (c + 1)) * x) / 2 ^ c :=
  sqrtStep_eq sg hc2 hc hd hx hdx

example : sqrtStep false 64 10 17 128 = 175 := by decide
/-- the iterate can overshoot `2^c/√d`: `3·36² = 3888 ≤ 4^6 = 4096 < 4107 = 3·37²` -/
example : sqrtStep false 64 6 3 36 = 37 := by decide

/-- **one-step error recurrence of InverseSqrt**, with the two floors explicit.  `Q = 4^c`,
    `E = Q − d·x²` (`e = E/Q = 1 − d·x²/4^c`), `y` the next iterate, `E' = Q − d·y²`:
    * exact linear form with both remainders: `2Q·y = (2Q + E + r₁)·x − 2·2^c·r₂`,
      `0 ≤ r₁ < 2^(c+1)` (floor of `d·x²/2^(c+1)`), `0 ≤ r₂ < 2^c` (final floor) — without them
      `y = x·(3 − u)/2`, whose error is exactly `(3e² + e³)/4`;
    * the guard is invariant: `0 ≤ y`, `d·y² ≤ (2^c+2)²`;
    * upper: `4Q²·E' < E²·(3Q + E) + 4Q²·d·(2y+1)`, i.e. `e' < (3e²+e³)/4 + d·(2y+1)/4^c`
      (quadratic term + at most one unit of `y` lost in the final floor);
    * lower: `4Q²·E' ≥ E²·(3Q + E) − (4·2^c·(3Q − D) + 4Q)·D`, `D = d·x²`
      (the first floor raises `y` by less than `x/2^c`). -/
theorem inverse_sqrt_step_error (sg : Bool) {c : Nat} {d x : Int} (hc2 : 2 ≤ c) (hc : c ≤ 30) (hd : 0 < d)
    (hx : 0 ≤ x) (hdx : d * x * x ≤ (2 ^ c + 2) * (2 ^ c + 2)) :
    (∃ r₁ r₂ : Int, 0 ≤ r₁ ∧ r₁ < 2 ^ (c + 1) ∧ 0 ≤ r₂ ∧ r₂ < 2 ^ c ∧
      2 * 4 ^ c * sqrtStep sg 64 c d x = (2 * 4 ^ c + (4 ^ c - d * x * x) + r₁) * x - 2 * 2 ^ c * r₂) ∧
    0 ≤ sqrtStep sg 64 c d x ∧
    d * sqrtStep sg 64 c d x * sqrtStep sg 64 c d x ≤ (2 ^ c + 2) * (2 ^ c + 2) ∧
    4 * 4 ^ c * 4 ^ c * (4 ^ c - d * sqrtStep sg 64 c d x * sqrtStep sg 64 c d x)
      < (4 ^ c - d * x * x) ^ 2 * (3 * 4 ^ c + (4 ^ c - d * x * x))
        + 4 * 4 ^ c * 4 ^ c * (d * (2 * sqrtStep sg 64 c d x + 1)) ∧
    (4 ^ c - d * x * x) ^ 2 * (3 * 4 ^ c + (4 ^ c - d * x * x))
        - (4 * 2 ^ c * (3 * 4 ^ c - d * x * x) + 4 * 4 ^ c) * (d * x * x)
      ≤ 4 * 4 ^ c * 4 ^ c * (4 ^ c - d * sqrtStep sg 64 c d x * sqrtStep sg 64 c d x) := by
  obtain ⟨r₁, r₂, h1, h2, h3, h4, _, h5⟩ := sqrtStep_linear sg hc2 hc hd hx hdx
  refine ⟨⟨r₁, r₂, h1, h2, h3, h4, ?_⟩, sqrt_error_recurrence sg hc2 hc hd hx hdx⟩
  rw [h5]; ring

/-- non-vacuity: c = 10, d = 17, x = 175 ↦ 219: `E = 527951`, `E' = 233239`;
    `4Q²E' ≈ 1.026·10^18 < E²(3Q+E) + 4Q²·d·(2y+1) ≈ 1.057·10^18` -/
example : sqrtStep true 64 10 17 175 = 219 ∧ (17:Int) * 175 * 175 ≤ (2 ^ 10 + 2) * (2 ^ 10 + 2)
    ∧ (4:Int) * 4 ^ 10 * 4 ^ 10 * (4 ^ 10 - 17 * 219 * 219)
      < (4 ^ 10 - 17 * 175 * 175) ^ 2 * (3 * 4 ^ 10 + (4 ^ 10 - 17 * 175 * 175))
        + 4 * 4 ^ 10 * 4 ^ 10 * (17 * (2 * 219 + 1)) := by decide

/-- the coarse form recorded earlier as the open statement: for `0 ≤ e ≤ 1`,
    `e' ≤ e² + 4·d·(y+1)/4^c` (the hypothesis `4^(c-1) ≤ d·x²` is not needed). -/
def InverseSqrtErrorStatement : Prop :=
  ∀ (sg : Bool) (c : Nat) (d x : Int), 2 ≤ c → c ≤ 30 → 0 < d → 0 ≤ x → d * x * x ≤ 4 ^ c →
    4 ^ (c - 1) ≤ d * x * x →
    let y := sqrtStep sg 64 c d x
    4 ^ c * (4 ^ c - d * y * y) ≤ (4 ^ c - d * x * x) ^ 2 + 4 ^ c * (4 * d * (y + 1))

/-- the open statement holds (it is a weakening of `inverse_sqrt_step_error`). -/
theorem inverse_sqrt_error_statement : InverseSqrtErrorStatement :=
  fun sg _ _ _ hc2 hc hd hx hdx _ => sqrt_error_coarse sg hc2 hc hd hx hdx

/-- **n-step bound of InverseSqrt**, by induction on `n`: from any start with `1/4 ≤ d·x₀²/4^c ≤ 1`
    (`0 ≤ e₀ ≤ 3/4`), for any `T ≥ √d` with rounding budget `ρ = T·(2·2^c + 4 + T)/4^c ≤ 1/16`
    (`ρ ≈ 2√d/2^c`: one unit of the result `2^c/√d`, relative, twice), after `n ≥ 2` iterations the
    iterate `y` satisfies the no-wrap guard `d·y² ≤ (2^c+2)²` (so `e_n ≥ −(4·2^c+4)/4^c`) and
    `e_n = 1 − d·y²/4^c ≤ 2^(-2^(n-1)) + 4ρ` (cleared of denominators). -/
theorem inverse_sqrt_n_steps (sg : Bool) {c : Nat} {d x T : Int} (hc2 : 2 ≤ c) (hc : c ≤ 30) (hd : 0 < d)
    (hT : 0 < T) (hdT : d ≤ T * T) (h16 : 16 * (T * (2 * 2 ^ c + 4 + T)) ≤ 4 ^ c)
    (hx : 0 ≤ x) (hlo : 4 ^ c ≤ 4 * (d * x * x)) (hhi : d * x * x ≤ 4 ^ c) (n : Nat) (hn : 2 ≤ n) :
    let y := sqrtIter sg 64 c d n x
    0 ≤ y ∧ d * y * y ≤ (2 ^ c + 2) * (2 ^ c + 2) ∧
      2 ^ (2 ^ (n - 1)) * (4 ^ c - d * y * y)
        ≤ 4 ^ c + 4 * (T * (2 * 2 ^ c + 4 + T)) * 2 ^ (2 ^ (n - 1)) :=
  sqrt_nstep sg hc2 hc hd hT hdT h16 hx hlo hhi n hn

/-- the operation as instantiated without a supplied approximation (bit-derived guess): caps
    `2 ≤ c ≤ 30`, every `d > 0` with `ρ ≤ 1/16` (roughly `d ≤ 4^c/1024`), every `n ≥ 2`. -/
theorem inverse_sqrt_error (sg : Bool) {c : Nat} {d T : Int} (hc2 : 2 ≤ c) (hc : c ≤ 30) (hd : 0 < d)
    (hT : 0 < T) (hdT : d ≤ T * T) (h16 : 16 * (T * (2 * 2 ^ c + 4 + T)) ≤ 4 ^ c) (n : Nat) (hn : 2 ≤ n) :
    ∃ y, inverseSqrt sg 64 c n d none = some y ∧
      0 ≤ y ∧ d * y * y ≤ (2 ^ c + 2) * (2 ^ c + 2) ∧
      2 ^ (2 ^ (n - 1)) * (4 ^ c - d * y * y)
        ≤ 4 ^ c + 4 * (T * (2 * 2 ^ c + 4 + T)) * 2 ^ (2 ^ (n - 1)) :=
  sqrt_bits_nstep sg hc2 hc hd hT hdT h16 n hn

/-- non-vacuity: c = 10, d = 17, T = 5, 4 iterations: 2^10/√17 = 248.35…, returned 248;
    `2^8·(4^10 − 17·248²) = 770048 ≤ 4^10 + 4·10285·2^8` -/
example : inverseSqrt false 64 10 4 17 none = some 248 ∧ (17:Int) ≤ 5 * 5
    ∧ (16:Int) * (5 * (2 * 2 ^ 10 + 4 + 5)) ≤ 4 ^ 10 := by decide

/-! ### (5) piecewise-linear approximation -/

/-- `tree_retrieve` returns the table entry with index `idx mod 2^L`, for EVERY depth `L`
    (every supported table size `2^L`), any width, signed or unsigned. -/
theorem tree_retrieve_selects {sg : Bool} {s idx L : Nat} {vals : List Int} (h : 1 ≤ s)
    (hl : vals.length = 2 ^ L) (hr : ∀ v ∈ vals, InRange sg s v) :
    treeRetrieve sg s idx L vals = vals.getD (idx % 2 ^ L) 0 :=
  treeRetrieve_eq h hl hr

example : treeRetrieve true 64 5 3 [10, 11, 12, 13, 14, 15, 16, 17] = 15 := by decide

/-- selection + interpolation exactness for ARBITRARY tables (`2^L + 2` slopes/intercepts, any
    positive divisor): the output is `Truncate(wrap(α_j·x + β_j), 2^p)` for the single bucket
    `j = pwlBucket L scaled`: `0` (left outside) iff `scaled < 0`, `2^L + 1` (right outside) iff
    `scaled ≥ 2^L`, `1 + scaled` otherwise, where `scaled = Truncate(x - left_fp, divisor)`. -/
theorem pwl_select_interpolate_partial {s : Nat} {t : Pwl} {x : Int} (hs : 2 ≤ s)
    (ha : t.alphas.length = 2 ^ t.logBuckets + 2) (hb : t.betas.length = t.alphas.length)
    (hL : t.logBuckets + 1 < s) (hd : 0 < t.divisor) :
    pwlEval true s t x
      = trunc ((pwlVals true s t x).getD (pwlBucket t.logBuckets (pwlScaled true s t x)) 0)
          (2 ^ t.precision) :=
  pwlEval_eq hs ha hb hL (pwlScaled_inRange t x (by omega) hd)

/-- the bucket contains `x`: for `y = x - left_fp ≥ 0`, `scaled = j ↔ j·D ≤ y < (j+1)·D`. -/
theorem pwl_bucket_contains {y D : Int} (j : Int) (hD : 0 < D) (hy : 0 ≤ y) :
    trunc y D = j ↔ j * D ≤ y ∧ y < (j + 1) * D :=
  trunc_eq_iff_of_nonneg j hD hy

/-- what the code achieves left of `left`: arguments with `-D < x - left_fp < 0` are NOT sent to
    the left outside bucket but to the first inner one (Truncate rounds toward zero). -/
theorem pwl_left_quirk {y D : Int} (h1 : -D < y) (h2 : y < 0) : trunc y D = 0 ∧ pwlBucket 5 0 = 1 :=
  ⟨trunc_eq_zero_of_small_neg h1 h2, by decide⟩

/-- the final rounding: the output is within one unit of the (wrapped) linear interpolant. -/
theorem pwl_rounding {v : Int} (p : Nat) :
    (0 ≤ v → trunc v (2 ^ p) * 2 ^ p ≤ v ∧ v < trunc v (2 ^ p) * 2 ^ p + 2 ^ p) ∧
    (v ≤ 0 → v ≤ trunc v (2 ^ p) * 2 ^ p ∧ trunc v (2 ^ p) * 2 ^ p - 2 ^ p < v) :=
  trunc_within_unit (two_pow_pos' p)

/-- What is NOT proved: closeness of the shipped tables to the real functions.  For a real
    function `f` (as a relation on rationals, `F x y` = "y = f x"), tolerance `tol` and tables `t`
    produced by the f32 code of `create_approximation`, every argument of the domain is within `tol`.
    Only tested (dense sweep of the harness against f64), not proved. -/
def ClosenessStatement (t : Pwl) (lo hi : Int) (approxOf : Int → Int → Prop) : Prop :=
  ∀ x, lo ≤ x → x ≤ hi → approxOf x (pwlEval true 64 t x)

end CCV.C20
