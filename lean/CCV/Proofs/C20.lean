import CCV.Lemmas.ApproxNewton
/-
  C20 — approximate numeric operations stay close to the real function.
  Theorems about the executable model `CCV/Model/Approx.lean` (the functions the driver runs).
  Error statements are over ℤ with denominators cleared (`P = 2^c`, `E = P - x·d` is `P` times the
  relative error `1 - x·d/2^c`); each is the ℚ statement multiplied through by positive powers of 2.

  NOT decided here (see props/C20.json `not_covered`): the distance of the exponent / sigmoid / GELU
  tables to the REAL transcendental functions.  `pwl_select_interpolate_partial` gives selection +
  interpolation exactness for arbitrary tables; `ClosenessStatement` records what is missing.
-/
namespace CCV.C20
open CCV.Approx

/-! ### (1) fixed-point product -/

/-- FixedMultiply (INT64) for every precision `p` and all operands whose product does not overflow,
    both signs: `|r - a·b/2^p| < 1` (cleared: `|r·2^p - a·b| < 2^p`), rounded toward zero. -/
theorem fixedMul_within_one_unit {a b : Int} (p : Nat) (h0 : -(2 ^ 63) ≤ a * b) (h1 : a * b < 2 ^ 63) :
    (fixedMul 64 a b p * 2 ^ p - a * b < 2 ^ p ∧ a * b - fixedMul 64 a b p * 2 ^ p < 2 ^ p) ∧
    (0 ≤ a * b → fixedMul 64 a b p * 2 ^ p ≤ a * b) ∧
    (a * b ≤ 0 → a * b ≤ fixedMul 64 a b p * 2 ^ p) :=
  fixedMul_within_unit p h0 h1

example : fixedMul 64 (-98304) 65536 15 = -196608 := by decide
example : fixedMul 64 (-7) 3 2 = -5 ∧ fixedMul 64 7 3 2 = 5 := by decide

/-- debug mode: when the overflow check passes (and neither operand is 0 or -1, for which the
    check is vacuous) the product is at most `2^57` in absolute value: no wrap, and the result is the
    one of `fixedMul_within_one_unit`. -/
theorem fixedMulDebug_sound {a b r : Int} (p : Nat) (h : fixedMulDebug 64 a b p = some r)
    (hx0 : flipNeg a ≠ 0) (hy0 : flipNeg b ≠ 0) :
    -(2 ^ 57) ≤ a * b ∧ a * b ≤ 2 ^ 57 ∧ r = fixedMul 64 a b p := by
  unfold fixedMulDebug at h
  split at h
  · rename_i hs
    have := mulSafe_sound hs hx0 hy0
    exact ⟨this.1, this.2, by injection h with h; exact h.symm⟩
  · cases h

example : fixedMulDebug 64 (2 ^ 30) (2 ^ 30) 15 = none := by decide
example : fixedMulDebug 64 65536 (-98304) 15 = some (-196608) := by decide

/-! ### (2) bit-derived initial guesses -/

/-- `inverse_initial_approximation`: for every cap `c ≤ 64` and every `0 < d < 2^c` the guess `g`
    satisfies `2^(c-1) ≤ g·d < 2^c`, i.e. `2^c/(2d) ≤ g < 2^c/d`: within a factor 2 below the exact
    reciprocal (`e₀ = 1 - g·d/2^c ∈ (0, 1/2]`). -/
theorem initial_guess_bracket {c : Nat} {d : Int} (hc : c ≤ 64) (h0 : 0 < d) (hd : d < 2 ^ c) :
    2 ^ (c - 1) ≤ initInv 64 c d * d ∧ initInv 64 c d * d < 2 ^ c :=
  initInv_bracket hc (by decide) h0 hd

example : initInv 64 10 3 = 256 ∧ initInv 64 10 1023 = 1 ∧ initInv 64 10 512 = 1 := by decide

/-- `inverse_sqrt_initial_approximation`: for every cap `c ≤ 32` and `0 < d < 4^c` the guess
    satisfies `4^(c-1) ≤ g²·d < 4^c`, i.e. `2^c/(2√d) ≤ g < 2^c/√d`. -/
theorem initial_sqrt_guess_bracket {c : Nat} {d : Int} (hc : 2 * c ≤ 64) (h0 : 0 < d) (hd : d < 4 ^ c) :
    4 ^ (c - 1) ≤ initSqrt 64 c d * initSqrt 64 c d * d ∧ initSqrt 64 c d * initSqrt 64 c d * d < 4 ^ c :=
  initSqrt_bracket hc (by decide) h0 hd

example : initSqrt 64 10 17 = 128 ∧ initSqrt 64 10 1000000 = 1 := by decide

/-! ### (3) Newton–Raphson reciprocal -/

/-- one-step error recurrence, exact: `P·E' = E² + r·d` with the rounding remainder `0 ≤ r < P`
    (`e' = e² + (r/P)(d/P)`: the square of the error plus a rounding term below `δ = d/2^c`),
    for every cap `c ≤ 29` (above, the i32 constant of the code is wrong), both signednesses, every
    `d > 0` and every iterate with `0 ≤ x`, `x·d ≤ 2^c`. -/
theorem newton_step_error (sg : Bool) {c : Nat} {d x : Int} (hc : c ≤ 29) (hd : 0 < d)
    (hx : 0 ≤ x) (hxd : x * d ≤ 2 ^ c) :
    ∃ r : Int, 0 ≤ r ∧ r < 2 ^ c ∧
      2 ^ c * (2 ^ c - newtonStep sg 64 c d x * d) = (2 ^ c - x * d) ^ 2 + r * d :=
  newton_error_recurrence sg hc hd hx hxd

example : newtonStep false 64 10 3 256 = 320 ∧ newtonStep true 64 10 3 320 = 340 := by decide

/-- n-step bound by induction on n: from `2^(c-1) ≤ x₀·d ≤ 2^c` (`0 ≤ e₀ ≤ 1/2`), after `n ≥ 1`
    iterations `0 ≤ e_n ≤ 2^(-2^n) + 4·d/2^c` (cleared: `2^(2^n)·E_n ≤ 2^c + 4·d·2^(2^n)`), and the
    iterate never exceeds `2^c/d`. -/
theorem newton_n_steps (sg : Bool) {c : Nat} {d x : Int} (hc : c ≤ 29) (hc1 : 1 ≤ c) (hd : 0 < d)
    (hd16 : 16 * d ≤ 2 ^ c) (hx : 0 ≤ x) (hlo : 2 ^ (c - 1) ≤ x * d) (hxd : x * d ≤ 2 ^ c)
    (n : Nat) (hn : 1 ≤ n) :
    let y := newtonIter sg 64 c d n x
    0 ≤ y ∧ y * d ≤ 2 ^ c ∧ 2 ^ (2 ^ n) * (2 ^ c - y * d) ≤ 2 ^ c + 4 * d * 2 ^ (2 ^ n) :=
  newton_nstep sg hc hc1 hd hd16 hx hlo hxd n hn

/-- the operation as instantiated without a supplied approximation (bit-derived guess): for every
    cap `1 ≤ c ≤ 29`, every divisor `0 < d ≤ 2^c/16` and every iteration count `n ≥ 1` the result `y`
    satisfies `0 ≤ 1 - y·d/2^c ≤ 2^(-2^n) + 4·d/2^c`. -/
theorem newton_inversion_error (sg : Bool) {c : Nat} {d : Int} (hc : c ≤ 29) (hc1 : 1 ≤ c) (hd : 0 < d)
    (hd16 : 16 * d ≤ 2 ^ c) (n : Nat) (hn : 1 ≤ n) :
    ∃ y, newton sg 64 c n d none = some y ∧
      0 ≤ y ∧ y * d ≤ 2 ^ c ∧ 2 ^ (2 ^ n) * (2 ^ c - y * d) ≤ 2 ^ c + 4 * d * 2 ^ (2 ^ n) :=
  newton_bits_nstep sg hc hc1 hd hd16 n hn

example : newton false 64 10 5 3 none = some 341 := by decide
example : (16:Int) * 3 ≤ 2 ^ 10 := by decide

/-! ### (4) Goldschmidt division -/

/-- denominator sequence of GoldschmidtDivision, caps `≤ 30`, both signednesses: with `E = 2^c - b`,
    `2^c·E' = E² + r`, `0 ≤ r < 2^c` (`e' = e² + r/4^c`): quadratic convergence of `b` to `2^c`;
    nothing wraps as long as `a·2^(c+1) < 2^63`. -/
theorem goldschmidt_denominator_error (sg : Bool) {c : Nat} {a b : Int} (hc : c ≤ 30) (hb0 : 0 ≤ b)
    (hb : b ≤ 2 ^ c) (ha0 : 0 ≤ a) (ha : a * 2 ^ (c + 1) < 2 ^ 63) :
    ∃ r : Int, 0 ≤ r ∧ r < 2 ^ c ∧
      2 ^ c * (2 ^ c - (goldStep sg 64 c (a, b)).2) = (2 ^ c - b) ^ 2 + r :=
  gold_b_recurrence sg hc hb0 hb ha0 ha

/-- the numerator is multiplied by the same factor `(2^(c+1) - b)/2^c`, truncated: one unit below. -/
theorem goldschmidt_numerator_step (sg : Bool) {c : Nat} {a b : Int} (hc : c ≤ 30) (hb0 : 0 ≤ b)
    (hb : b ≤ 2 ^ c) (ha0 : 0 ≤ a) (ha : a * 2 ^ (c + 1) < 2 ^ 63) :
    let a' := (goldStep sg 64 c (a, b)).1
    a' * 2 ^ c ≤ a * (2 ^ (c + 1) - b) ∧ a * (2 ^ (c + 1) - b) < a' * 2 ^ c + 2 ^ c :=
  gold_a_step sg hc hb0 hb ha0 ha

example : goldStep false 64 10 (123456 * 8, 123 * 8) = (1026228, 1022) := by decide

/-- InverseSqrt, one iteration, caps `2 ≤ c ≤ 30`, both signednesses, every `d > 0` and iterate with
    `0 ≤ x`, `d·x² ≤ 4^c` (at most `2^c/√d`, e.g. the bit-derived guess): nothing wraps and the step is
    `x' = ⌊(3·2^(c-1) - ⌊d·x²/2^(c+1)⌋)·x / 2^c⌋` (`x·(3/2 - d·x²/2)` in fixed point, two truncations).
    The error recurrence of this step is NOT proved (`InverseSqrtErrorStatement`). -/
theorem inverse_sqrt_step_formula_partial (sg : Bool) {c : Nat} {d x : Int} (hc2 : 2 ≤ c) (hc : c ≤ 30)
    (hd : 0 < d) (hx : 0 ≤ x) (hdx : d * x * x ≤ 4 ^ c) :
    sqrtStep sg 64 c d x = ((3 * 2 ^ (c - 1) - (d * x * x) / 2 ^ (c + 1)) * x) / 2 ^ c :=
  sqrtStep_eq sg hc2 hc hd hx hdx

example : sqrtStep false 64 10 17 128 = 175 := by decide

/-- not proved: with `u = d·x²/4^c` and `e = 1 - u` the exact step gives `e' = (3e² + e³)/4`; the
    statement with the two rounding terms, and the n-step bound, are left open (dense sweep only). -/
def InverseSqrtErrorStatement : Prop :=
  ∀ (sg : Bool) (c : Nat) (d x : Int), 2 ≤ c → c ≤ 30 → 0 < d → 0 ≤ x → d * x * x ≤ 4 ^ c →
    4 ^ (c - 1) ≤ d * x * x →
    let y := sqrtStep sg 64 c d x
    4 ^ c * (4 ^ c - d * y * y) ≤ (4 ^ c - d * x * x) ^ 2 + 4 ^ c * (4 * d * (y + 1))

/-! ### (5) piecewise-linear approximation -/

/-- `tree_retrieve` returns the table entry with index `idx mod 2^L`, for EVERY depth `L`
    (every supported table size `2^L`), any width, signed or unsigned. -/
theorem tree_retrieve_selects {sg : Bool} {s idx L : Nat} {vals : List Int} (h : 1 ≤ s)
    (hl : vals.length = 2 ^ L) (hr : ∀ v ∈ vals, InRange sg s v) :
    treeRetrieve sg s idx L vals = vals.getD (idx % 2 ^ L) 0 :=
  treeRetrieve_eq h hl hr

example : treeRetrieve true 64 5 3 [10, 11, 12, 13, 14, 15, 16, 17] = 15 := by decide

/-- selection + interpolation exactness for ARBITRARY tables (`2^L + 2` slopes/intercepts, any
    positive divisor): the output is `Truncate(wrap(α_j·x + β_j), 2^p)` for the single bucket
    `j = pwlBucket L scaled`: `0` (left outside) iff `scaled < 0`, `2^L + 1` (right outside) iff
    `scaled ≥ 2^L`, `1 + scaled` otherwise, where `scaled = Truncate(x - left_fp, divisor)`. -/
theorem pwl_select_interpolate_partial {s : Nat} {t : Pwl} {x : Int} (hs : 2 ≤ s)
    (ha : t.alphas.length = 2 ^ t.logBuckets + 2) (hb : t.betas.length = t.alphas.length)
    (hL : t.logBuckets + 1 < s) (hd : 0 < t.divisor) :
    pwlEval true s t x
      = trunc ((pwlVals true s t x).getD (pwlBucket t.logBuckets (pwlScaled true s t x)) 0)
          (2 ^ t.precision) :=
  pwlEval_eq hs ha hb hL (pwlScaled_inRange t x (by omega) hd)

/-- the bucket contains `x`: for `y = x - left_fp ≥ 0`, `scaled = j ↔ j·D ≤ y < (j+1)·D`. -/
theorem pwl_bucket_contains {y D : Int} (j : Int) (hD : 0 < D) (hy : 0 ≤ y) :
    trunc y D = j ↔ j * D ≤ y ∧ y < (j + 1) * D :=
  trunc_eq_iff_of_nonneg j hD hy

/-- what the code achieves left of `left`: arguments with `-D < x - left_fp < 0` are NOT sent to
    the left outside bucket but to the first inner one (Truncate rounds toward zero). -/
theorem pwl_left_quirk {y D : Int} (h1 : -D < y) (h2 : y < 0) : trunc y D = 0 ∧ pwlBucket 5 0 = 1 :=
  ⟨trunc_eq_zero_of_small_neg h1 h2, by decide⟩

/-- the final rounding: the output is within one unit of the (wrapped) linear interpolant. -/
theorem pwl_rounding {v : Int} (p : Nat) :
    (0 ≤ v → trunc v (2 ^ p) * 2 ^ p ≤ v ∧ v < trunc v (2 ^ p) * 2 ^ p + 2 ^ p) ∧
    (v ≤ 0 → v ≤ trunc v (2 ^ p) * 2 ^ p ∧ trunc v (2 ^ p) * 2 ^ p - 2 ^ p < v) :=
  trunc_within_unit (two_pow_pos' p)

/-- What is NOT proved: closeness of the shipped tables to the real functions.  For a real
    function `f` (as a relation on rationals, `F x y` = "y = f x"), tolerance `tol` and tables `t`
    produced by the f32 code of `create_approximation`, every argument of the domain is within `tol`.
    Only tested (dense sweep of the harness against f64), not proved. -/
def ClosenessStatement (t : Pwl) (lo hi : Int) (approxOf : Int → Int → Prop) : Prop :=
  ∀ x, lo ≤ x → x ≤ hi → approxOf x (pwlEval true 64 t x)

end CCV.C20
