import CCV.Lemmas.Adder
import CCV.Lemmas.Clip
import CCV.Lemmas.Division
import CCV.Lemmas.DivisionSigned
import Mathlib.Tactic.Linarith
import CCV.Model.Division
/-
  C17 — bit-level arithmetic helpers are exact.
  Theorems about the executable models `CCV.Adder.binaryAdd`, `CCV.Mux.muxBit/muxBits/muxInt`,
  `CCV.Clip.clip2k`, `CCV.Division.longDivision` — the definitions the model driver runs.
  Bit strings are little-endian (`val`), `n = 2^m` is the word length.
-/
namespace CCV.C17
open CCV.Adder CCV.Mux CCV.Clip CCV.Division

/-! ## Binary adder (carry-lookahead segment tree) -/

/-- (propagate, generate) composition is associative and acts on carries by composition — the
    algebraic fact the segment tree rests on. -/
theorem carry_composition (a b c : PG) (cin : Bool) :
    joinPG (joinPG a b) c = joinPG a (joinPG b c) ∧
    applyPG (joinPG a b) cin = applyPG b (applyPG a cin) :=
  ⟨joinPG_assoc a b c, applyPG_join a b cin⟩

example : joinPG (joinPG (true, false) (false, true)) (true, false) = (false, true) := by decide

/-- `calculate_carry_bits` on a word of `2^m` (propagate, generate) pairs returns exactly the prefix
    carries `carry[0..n-1]` (carry[i] = carry into position i) and, if requested, `carry[n]`;
    both `overflow_bit` variants, including the 1- and 2-bit special cases. -/
theorem carry_tree_correct (m : Nat) (ov : Bool) (pg : List PG) (h : pg.length = 2 ^ m) :
    calculateCarryBits pg ov
      = .ok (prefixCarries false pg pg.length, if ov then some (run false pg) else none) := by
  rw [← carryCore_spec pg ov m h]
  simp [calculateCarryBits, h, isPow2_pow]

example : calculateCarryBits [(true, false), (false, true), (true, false), (true, false)] true
    = .ok ([false, false, true, true], some true) := by rfl

/-- `BinaryAdd{overflow_bit}` for every power-of-two width `n = 2^m` and all operands: the sum bits
    encode `(a + b) mod 2^n`, the overflow bit (when requested) is `(a + b) / 2^n`. -/
theorem binaryAdd_correct (m : Nat) (ov : Bool) (a b : List Bool)
    (ha : a.length = 2 ^ m) (hb : b.length = 2 ^ m) :
    ∃ s, binaryAdd ov a b
        = .ok (s, if ov then some (decide ((val a + val b) / 2 ^ (2 ^ m) = 1)) else none)
      ∧ s.length = 2 ^ m ∧ val s = (val a + val b) % 2 ^ (2 ^ m) := by
  refine ⟨(addCore ov a b).1, ?_, addCore_length ov a b m ha hb, (addCore_spec ov a b m ha hb).1⟩
  have h2 := (addCore_spec ov a b m ha hb).2
  simp only [binaryAdd, ha, hb, isPow2_pow, if_true]
  rw [← h2]

/-- the same for numbers: all `x y < 2^n` written as `n`-bit strings. -/
theorem binaryAdd_nat (m : Nat) (ov : Bool) (x y : Nat) :
    ∃ s, binaryAdd ov (bitsOf (2 ^ m) x) (bitsOf (2 ^ m) y)
        = .ok (s, if ov then some (decide ((x % 2 ^ 2 ^ m + y % 2 ^ 2 ^ m) / 2 ^ (2 ^ m) = 1)) else none)
      ∧ s.length = 2 ^ m ∧ val s = (x + y) % 2 ^ (2 ^ m) := by
  obtain ⟨s, h1, h2, h3⟩ := binaryAdd_correct m ov (bitsOf (2 ^ m) x) (bitsOf (2 ^ m) y) (by simp) (by simp)
  refine ⟨s, ?_, h2, ?_⟩
  · simpa [val_bitsOf] using h1
  · rw [h3, val_bitsOf, val_bitsOf, ← Nat.add_mod]

example : binaryAdd true (bitsOf 8 200) (bitsOf 8 100) = .ok (bitsOf 8 44, some true) := by rfl
example : binaryAdd false (bitsOf 2 3) (bitsOf 2 3) = .ok (bitsOf 2 2, none) := by rfl
example : binaryAdd false [true] [true] = .ok ([false], none) := by rfl

/-- widths that are not powers of two are rejected. -/
theorem binaryAdd_rejects (ov : Bool) (a b : List Bool) (h : isPow2 a.length = false) :
    ∃ e, binaryAdd ov a b = .error e := by
  unfold binaryAdd
  by_cases hl : a.length = b.length
  · rw [if_pos hl, h]
    exact ⟨_, rfl⟩
  · simp [hl]

example : ∃ e, binaryAdd false [true, false, true] [true, true, true] = .error e :=
  binaryAdd_rejects _ _ _ (by decide)

/-! ## Multiplexer -/

/-- bit choices: the second operand where the flag is 1, the third where it is 0. -/
theorem muxBit_correct (flag c1 c0 : Bool) : muxBit flag c1 c0 = if flag then c1 else c0 := by
  cases flag <;> cases c1 <;> cases c0 <;> rfl

theorem muxBits_correct (flag : Bool) (c1 c0 : List Bool) (h : c1.length = c0.length) :
    muxBits flag c1 c0 = if flag then c1 else c0 := by
  unfold muxBits
  induction c1 generalizing c0 with
  | nil => match c0, h with
    | [], _ => cases flag <;> rfl
  | cons x c1 ih => match c0, h with
    | y :: c0, h =>
      have := ih c0 (by simpa using h)
      cases flag <;> simp_all [muxBit_correct]

example : muxBits true [true, false] [false, true] = [true, false] := by decide

/-- The property's claim for non-bit choices (residues modulo `2^w`): second operand where the flag is 1. -/
def muxIntStatement : Prop :=
  ∀ (w : Nat) (flag : Bool) (c1 c0 : Nat), c1 < 2 ^ w → c0 < 2 ^ w →
    muxInt w flag c1 c0 = if flag then c1 else c0

/-- non-bit choices, all widths and residues: the second operand where the flag is 1, the third where it is 0. -/
theorem muxInt_correct : muxIntStatement := by
  intro w flag c1 c0 h1 h0
  cases flag <;> simp [muxInt, mixedMul, Nat.mod_eq_of_lt, h1, h0]

example : muxInt 32 true 11 21 = 11 := by decide

/-! ## Clip2K -/

theorem sval_neg_iff (x : List Bool) : sval x < 0 ↔ msb x = true := by
  have h := val_lt x
  have hc : ((val x : Nat) : Int) < ((2 ^ x.length : Nat) : Int) := Int.ofNat_lt.mpr h
  unfold sval
  cases hm : msb x
  · simp only [Bool.false_eq_true, if_false]
    constructor
    · intro h'; omega
    · intro h'; cases h'
  · simp only [if_true]
    constructor
    · intro _; trivial
    · intro _; omega

theorem sval_of_nonneg (x : List Bool) (h : msb x = false) : sval x = (val x : Int) := by
  simp [sval, h]

/-- `Clip2K{k}` for every width `n ≥ k + 2` (the code's admission test) and every input, read as a
    signed integer: 0 for negative inputs, `2^k` for inputs of at least `2^k`, the input otherwise
    (the result is a non-negative number below `2^(n-1)`, so `val` is also its signed value). -/
theorem clip_correct (k : Nat) (x : List Bool) (h : k + 2 ≤ x.length) :
    ∃ r, clip2k k x = .ok r ∧ r.length = x.length ∧
      (val r : Int) = if sval x < 0 then 0 else if (2 : Int) ^ k ≤ sval x then 2 ^ k else sval x := by
  refine ⟨clipCore k x, ?_, (clipCore_val k x h).1, ?_⟩
  · simp only [clip2k]
    rw [if_neg (by omega)]
  · rw [(clipCore_val k x h).2]
    cases hm : msb x
    · have hs := sval_of_nonneg x hm
      rw [hs]
      have hn : ¬ ((val x : Int) < 0) := by omega
      simp only [hn, if_false, Bool.false_eq_true]
      have e : ((2 : Int) ^ k ≤ (val x : Int)) ↔ (2 ^ k ≤ val x) := by
        rw [show (2 : Int) ^ k = ((2 ^ k : Nat) : Int) by norm_cast]
        exact Int.ofNat_le
      by_cases hk : 2 ^ k ≤ val x
      · simp only [hk, e.mpr hk, if_true]; norm_cast
      · have : ¬ ((2 : Int) ^ k ≤ (val x : Int)) := fun c => hk (e.mp c)
        simp only [hk, this, if_false]
    · have hn : sval x < 0 := (sval_neg_iff x).mpr hm
      simp [hn]

/-- `k ≥ n - 1` is rejected. -/
theorem clip_rejects (k : Nat) (x : List Bool) (h : x.length < k + 2) : ∃ e, clip2k k x = .error e := by
  simp only [clip2k]
  rw [if_pos (by omega)]
  exact ⟨_, rfl⟩

-- 8-bit inputs, k = 2: 3 ↦ 3, 4 ↦ 4, 100 ↦ 4, -3 ↦ 0
example : clip2k 2 (bitsOf 8 3) = .ok (bitsOf 8 3) := by rfl
example : clip2k 2 (bitsOf 8 4) = .ok (bitsOf 8 4) := by rfl
example : clip2k 2 (bitsOf 8 100) = .ok (bitsOf 8 4) := by rfl
example : clip2k 2 (bitsOf 8 253) = .ok (bitsOf 8 0) := by rfl
example : sval (bitsOf 8 253) = -3 := by decide


/-! ## Long division -/

/-- `FlooredDiv a d q r` (Model/Division.lean) does determine quotient and remainder. -/
theorem flooredDiv_unique (a d q r q' r' : Int) (h : FlooredDiv a d q r) (h' : FlooredDiv a d q' r') :
    q = q' ∧ r = r' := by
  obtain ⟨e, b⟩ := h
  obtain ⟨e', b'⟩ := h'
  have hk : (q - q') * d = r' - r := by linear_combination e' - e
  have hq : q = q' := by
    by_contra hne
    have h1 : q - q' ≥ 1 ∨ q - q' ≤ -1 := by omega
    rcases h1 with h1 | h1 <;> rcases b with b | b <;> rcases b' with b' | b' <;> nlinarith
  subst hq
  refine ⟨rfl, ?_⟩
  have : r' - r = 0 := by rw [← hk]; ring
  omega

example : FlooredDiv (-7) 2 (-4) 1 := by unfold FlooredDiv; omega
example : FlooredDiv 7 (-2) (-4) (-1) := by unfold FlooredDiv; omega

/-- how an operand bit string is read in the two modes. -/
def reading (signed : Bool) (x : List Bool) : Int := if signed then sval x else (val x : Int)

/-- The property's claim for `LongDivision{signed}`: for words of `2^ma` / `2^md` bits (at least 2 bits)
    and every non-zero divisor, quotient and remainder are those of floored division (the quotient
    modulo `2^n`, which only matters for `min / -1`).  Proved in full: `longDivision_correct`. -/
def longDivisionStatement : Prop :=
  ∀ (signed : Bool) (ma md : Nat) (a d : List Bool), 1 ≤ ma → 1 ≤ md →
    a.length = 2 ^ ma → d.length = 2 ^ md → reading signed d ≠ 0 →
    ∃ q r qz, longDivision signed a d = .ok (q, r) ∧ q.length = a.length ∧ r.length = d.length ∧
      FlooredDiv (reading signed a) (reading signed d) qz (reading signed r) ∧
      (val q : Int) = qz % ((2 ^ a.length : Nat) : Int)

/-- the loop invariant of the restoring iteration (`single_iteration_graph` iterated over the dividend
    bits, most significant first), for every divisor width `2^m` and every divisor `0 < D < 2^w`:
    `2^|bs| · r₀ + bs = q · D + r ∧ r < D`. -/
theorem longDivision_loop_invariant (m : Nat) (M : List Bool) (D : Nat)
    (hM : M.length = 2 ^ m) (hD0 : 0 < D) (hD : D < 2 ^ (2 ^ m)) (hMv : val M = 2 ^ (2 ^ m) - D)
    (bs rem : List Bool) (hr : rem.length = 2 ^ m) (hv : val rem < D) :
    2 ^ bs.length * val rem + val bs.reverse
        = val (iterateBits M rem bs).2.reverse * D + val (iterateBits M rem bs).1 ∧
      val (iterateBits M rem bs).1 < D :=
  let h := iterateBits_spec m M D hM hD0 hD hMv bs rem hr hv
  ⟨h.2.2.1, h.2.2.2⟩

example : (iterateBits (bitsOf 4 (16 - 5)) (bitsOf 4 0) (bitsOf 4 13).reverse)
    = (bitsOf 4 3, (bitsOf 4 2).reverse) := by decide +kernel

/-- unsigned mode, divisor width `w = 2^md ≥ 2`, any dividend width, every non-zero divisor:
    exact quotient and remainder. -/
theorem longDivision_unsigned (md : Nat) (a d : List Bool) (hmd : 1 ≤ md) (ha : 1 ≤ a.length)
    (hd : d.length = 2 ^ md) (h0 : val d ≠ 0) :
    ∃ q r, longDivision false a d = .ok (q, r) ∧ q.length = a.length ∧ r.length = d.length ∧
      val q = val a / val d ∧ val r = val a % val d := by
  have hw : 2 ≤ 2 ^ md := by
    obtain ⟨k, rfl⟩ : ∃ k, md = k + 1 := ⟨md - 1, by omega⟩
    have := Nat.two_pow_pos k
    rw [Nat.pow_succ]; omega
  have hl := divLoop_spec md a d hd (by omega)
  simp only at hl
  refine ⟨_, _, ?_, hl.2.1, by rw [hl.1, hd], hl.2.2.1, hl.2.2.2⟩
  simp [longDivision, longDivisionCore, Division.abs, hd, isPow2_pow, hw, ha]

/-- when the widths are admitted, `longDivision` is its data path. -/
theorem longDivision_ok (signed : Bool) (a d : List Bool)
    (h : (isPow2 d.length && decide (d.length ≥ 2)
      && (!signed || (isPow2 a.length && decide (a.length ≥ 2))) && decide (a.length ≥ 1)) = true) :
    longDivision signed a d = .ok (longDivisionCore signed a d) := by
  simp only [longDivision]
  rw [if_pos h]

example : longDivision false (bitsOf 16 799) (bitsOf 8 100) = .ok (bitsOf 16 7, bitsOf 8 99) := by
  rw [longDivision_ok _ _ _ (by decide)]
  exact congrArg _ (by decide +kernel)

-- the input that the unrepaired code got wrong (q = 0, r = 31)
example : longDivision false (bitsOf 16 799) (bitsOf 8 200) = .ok (bitsOf 16 3, bitsOf 8 199) := by
  rw [longDivision_ok _ _ _ (by decide)]
  exact congrArg _ (by decide +kernel)

/-- signed mode, widths `2^ma` / `2^md` (at least 2 bits), every non-zero divisor: quotient (modulo `2^n`,
    which only matters for `min / -1`) and remainder of floored division; the remainder has the
    divisor's sign. -/
theorem longDivision_signed (ma md : Nat) (a d : List Bool) (hma : 1 ≤ ma) (hmd : 1 ≤ md)
    (ha : a.length = 2 ^ ma) (hd : d.length = 2 ^ md) (h0 : sval d ≠ 0) :
    ∃ q r qz, longDivision true a d = .ok (q, r) ∧ q.length = a.length ∧ r.length = d.length ∧
      FlooredDiv (sval a) (sval d) qz (sval r) ∧ (val q : Int) = qz % ((2 ^ a.length : Nat) : Int) := by
  have two_le : ∀ k, 1 ≤ k → 2 ≤ 2 ^ k := by
    intro k hk
    obtain ⟨j, rfl⟩ : ∃ j, k = j + 1 := ⟨k - 1, by omega⟩
    have := Nat.two_pow_pos j
    rw [Nat.pow_succ]; omega
  have hwa := two_le ma hma
  have hwd := two_le md hmd
  obtain ⟨a1, a2, a3, a4⟩ := abs_spec ma a ha
  obtain ⟨d1, d2, d3, d4⟩ := abs_spec md d hd
  have hvd := val_lt d
  rw [hd] at hvd
  have hD0 : 0 < val (Division.abs true d).2 := by
    rw [d3]
    cases hm : msb d
    · simp only [Bool.false_eq_true, if_false]
      have : sval d = (val d : Int) := by simp [sval, hm]
      rw [this] at h0
      omega
    · simp only [if_true]; omega
  have hl := divLoop_spec md (Division.abs true a).2 (Division.abs true d).2 d2 hD0
  simp only at hl
  rw [d2, ← hd] at hl
  obtain ⟨l1, l2, l3, l4⟩ := hl
  replace l1 := l1.trans hd
  replace l2 := l2.trans a2
  have hR : val (iterateBits (negative (Division.abs true d).2) (List.replicate d.length false)
      (Division.abs true a).2.reverse).1 < val (Division.abs true d).2 := by
    rw [l4]; exact Nat.mod_lt _ hD0
  obtain ⟨j1, j2, j3, j4⟩ := adjustNegative_spec ma md _ _ (Division.abs true d).2 (msb a) (msb d) l2 l1 d2 hR
  have hcore : longDivisionCore true a d = adjustNegative
      (iterateBits (negative (Division.abs true d).2) (List.replicate d.length false)
        (Division.abs true a).2.reverse).2.reverse
      (iterateBits (negative (Division.abs true d).2) (List.replicate d.length false)
        (Division.abs true a).2.reverse).1
      (Division.abs true d).2 (msb a) (msb d) := by
    simp only [longDivisionCore, if_true, a1, d1]
  rw [l3, l4] at j3
  rw [l4] at j4
  obtain ⟨qz, hf, hqv⟩ := signed_arith (2 ^ ma) (2 ^ md) (by omega) (by omega) a d _ _ ha hd j1 j2
    (val (Division.abs true a).2) (val (Division.abs true d).2) a3 d3 hD0 d4 a4 j3 j4
  refine ⟨(longDivisionCore true a d).1, (longDivisionCore true a d).2, qz, ?_, ?_, ?_, ?_, ?_⟩
  · rw [longDivision_ok _ _ _ (by simp [ha, hd, isPow2_pow, hwa, hwd]; omega)]
  · rw [hcore, j1, ha]
  · rw [hcore, j2, hd]
  · rw [hcore]; exact hf
  · rw [hcore, ha]; exact hqv

-- -7 / 2 = -4 rem 1;  7 / -2 = -4 rem -1;  -128 / -1 wraps to -128 rem 0 (8-bit)
example : longDivisionCore true (bitsOf 8 249) (bitsOf 8 2) = (bitsOf 8 252, bitsOf 8 1) := by decide +kernel
example : longDivisionCore true (bitsOf 8 7) (bitsOf 8 254) = (bitsOf 8 252, bitsOf 8 255) := by decide +kernel
example : longDivisionCore true (bitsOf 8 128) (bitsOf 8 255) = (bitsOf 8 128, bitsOf 8 0) := by decide +kernel

/-- `LongDivision{signed}` is floored division for every non-zero divisor, both modes, all widths
    `2^ma` / `2^md ≥ 2`. -/
theorem longDivision_correct : longDivisionStatement := by
  intro signed ma md a d hma hmd ha hd h0
  cases signed
  · have hv : val d ≠ 0 := by
      intro h; apply h0; simp [reading, h]
    have hal : 1 ≤ a.length := by rw [ha]; exact Nat.two_pow_pos _
    obtain ⟨q, r, hok, hq, hr, hvq, hvr⟩ := longDivision_unsigned md a d hmd hal hd hv
    refine ⟨q, r, (val a / val d : Nat), hok, hq, hr, ?_, ?_⟩
    · simp only [reading, Bool.false_eq_true, if_false, FlooredDiv, hvr]
      refine ⟨?_, Or.inl ⟨by omega, ?_⟩⟩
      · have := Nat.div_add_mod (val a) (val d)
        rw [Nat.mul_comm] at this
        exact_mod_cast this.symm
      · exact_mod_cast Nat.mod_lt _ (by omega)
    · rw [hvq]
      have hlt := val_lt a
      have : val a / val d ≤ val a := Nat.div_le_self _ _
      exact (Int.emod_eq_of_lt (by omega) (by exact_mod_cast (by omega : val a / val d < 2 ^ a.length))).symm
  · simp only [reading, if_true] at h0 ⊢
    exact longDivision_signed ma md a d hma hmd ha hd h0

example : ∃ q r qz, longDivision false (bitsOf 16 799) (bitsOf 8 200) = .ok (q, r) ∧ q.length = 16 ∧ r.length = 8 ∧
    FlooredDiv 799 200 qz (reading false r) ∧ (val q : Int) = qz % ((2 ^ 16 : Nat) : Int) := by
  have := longDivision_correct false 4 3 (bitsOf 16 799) (bitsOf 8 200) (by decide) (by decide) (by simp) (by simp)
    (by simp [reading, val_bitsOf])
  simpa [reading, val_bitsOf] using this

end CCV.C17
