import CCV.Lemmas.Sharing
/-
  C14 — secret sharing reconstructs, with the documented per-party layout.
  Property theorems only (about the functions of CCV/Model/Sharing.lean that the driver executes);
  helper lemmas live in CCV/Lemmas/Sharing.lean.

  Throughout: `wf x = true` — every element of the tree `x` is a residue `< 2^bits` of its scalar
  type; `like v x = true` — `x` has the type of `v` (same tree, scalar types, element counts).
  The statements hold for all trees (all 11 scalar types, any nesting, any lengths), all values and
  all randomness `r0 r1`.
-/
namespace CCV.C14
open CCV CCV.Sharing

/-- three well-formed trees of one type (definitional unfolding of `Ok3`) -/
private theorem ok3 {v a b : Val} (hv : wf v = true) (ha : wf a = true) (hb : wf b = true)
    (la : like v a = true) (lb : like v b = true) : Ok3 v a b := ⟨hv, ha, hb, la, lb⟩

/-! ### (1) reconstruction -/

/-- **Reveal ∘ share = id**, for every value tree and all randomness. -/
theorem reveal_share (v r0 r1 : Val) (hv : wf v = true) (h0 : wf r0 = true) (h1 : wf r1 = true)
    (l0 : like v r0 = true) (l1 : like v r1 = true) :
    reveal (share v r0 r1) = v :=
  tm_ext (.add (.add .y .z) (.sub (.sub .x .y) .z)) .x v r0 r1 (ok3 hv h0 h1 l0 l1) (by elem_tac)

/-- the third share is again a well-formed value of the type of `v`
    (so the 3-tuple is a valid value of the tuple type the code declares). -/
theorem share_ok (v r0 r1 : Val) (hv : wf v = true) (h0 : wf r0 = true) (h1 : wf r1 = true)
    (l0 : like v r0 = true) (l1 : like v r1 = true) :
    (share v r0 r1).x0 = r0 ∧ (share v r0 r1).x1 = r1 ∧
      wf (share v r0 r1).x2 = true ∧ like v (share v r0 r1).x2 = true :=
  ⟨rfl, rfl, tm_ok (.sub (.sub .x .y) .z) v r0 r1 (ok3 hv h0 h1 l0 l1)⟩

/-- the checked entry point the driver calls answers, and answers `share`. -/
theorem share?_eq (v r0 r1 : Val) (l0 : like v r0 = true) (l1 : like v r1 = true) :
    share? v r0 r1 = some (share v r0 r1) := by
  simp [share?, l0, l1]

/-- `share_vector` (mpc/utils.rs, flat arrays, `r2 = data − (r0 + r1)`) reconstructs as well. -/
theorem reveal_shareVector (st : ST) (xs r0 r1 : List Nat)
    (hx : ∀ x ∈ xs, x < 2 ^ st.bits) (h0 : ∀ x ∈ r0, x < 2 ^ st.bits) (h1 : ∀ x ∈ r1, x < 2 ^ st.bits)
    (l0 : xs.length = r0.length) (l1 : xs.length = r1.length) :
    reveal (shareVector st xs r0 r1) = .leaf st xs := by
  rw [shareVector_eq st xs r0 r1 hx h0 h1]
  exact tm_ext (.add (.add .y .z) (.sub .x (.add .y .z))) .x _ _ _ (ok3_leaf st xs r0 r1 hx h0 h1 l0 l1)
    (by elem_tac)

/-- non-vacuity: a nested value with i8, bit (one padded byte), u128 and i64 leaves and an empty tuple -/
private def exV : Val := .node [.leaf .i8 [200, 5], .node [.leaf .bit [1, 0, 1, 0, 0, 0, 0, 0],
  .leaf .u128 [2 ^ 128 - 1]], .node [], .leaf .i64 [2 ^ 63]]
private def exR0 : Val := .node [.leaf .i8 [77, 255], .node [.leaf .bit [1, 1, 0, 0, 0, 0, 0, 0],
  .leaf .u128 [12345678901234567890123456789]], .node [], .leaf .i64 [2 ^ 64 - 1]]
private def exR1 : Val := .node [.leaf .i8 [128, 1], .node [.leaf .bit [0, 1, 1, 0, 0, 0, 0, 0],
  .leaf .u128 [2 ^ 127 + 3]], .node [], .leaf .i64 [17]]
private def exG : T3 := ⟨.leaf .u8 [1], .leaf .u8 [2], .leaf .u8 [3]⟩

example : wf exV = true ∧ wf exR0 = true ∧ wf exR1 = true ∧ like exV exR0 = true ∧ like exV exR1 = true := by
  decide
example : (share exV exR0 exR1).x2 = .node [.leaf .i8 [251, 5], .node [.leaf .bit [0, 0, 0, 0, 0, 0, 0, 0],
    .leaf .u128 [170141183448123552830452735825760648935]], .node [], .leaf .i64 [2 ^ 63 - 16]] := by
  rfl
example : reveal (share exV exR0 exR1) = exV := by rfl
example : reveal (shareVector .i16 [40000, 7] [65535, 1] [32768, 9]) = .leaf .i16 [40000, 7] := by
  rfl

/-! ### (2) per-party layout -/

/-- **Layout.** Party `i`'s tuple carries share `i` in slot `i`, share `i+1` in slot `i+1`
    (indices mod 3) and the garbage value in the remaining slot `i+2` — never the third share. -/
theorem layout (i : Nat) (s g : T3) :
    (party i s g).slot i = s.slot i ∧ (party i s g).slot (i + 1) = s.slot (i + 1) ∧
      (party i s g).slot (i + 2) = g.slot (i + 2) := by
  have h : i % 3 = 0 ∨ i % 3 = 1 ∨ i % 3 = 2 := by omega
  rcases h with h | h | h
  · have h1 : (i + 1) % 3 = 1 := by omega
    have h2 : (i + 2) % 3 = 2 := by omega
    simp [party, T3.slot, h, h1, h2]
  · have h1 : (i + 1) % 3 = 2 := by omega
    have h2 : (i + 2) % 3 = 0 := by omega
    simp [party, T3.slot, h, h1, h2]
  · have h1 : (i + 1) % 3 = 0 := by omega
    have h2 : (i + 2) % 3 = 1 := by omega
    simp [party, T3.slot, h, h1, h2]

/-- the three tuples, spelled out as the three code paths build them -/
theorem parties_eq (s g : T3) :
    parties s g = [⟨s.x0, s.x1, g.x2⟩, ⟨g.x0, s.x1, s.x2⟩, ⟨s.x0, g.x1, s.x2⟩] := rfl

/-- neighbouring parties agree on the share they both hold: slot `i+1` of party `i` and of party `i+1`. -/
theorem neighbours_agree (i : Nat) (s g g' : T3) :
    (party i s g).slot (i + 1) = (party (i + 1) s g').slot (i + 1) := by
  rw [(layout i s g).2.1, (layout (i + 1) s g').1]

example : (party 2 (share exV exR0 exR1) exG).slot 2 = (share exV exR0 exR1).x2 ∧
    (party 2 (share exV exR0 exR1) exG).slot 3 = exR0 ∧
    (party 2 (share exV exR0 exR1) exG).slot 4 = .leaf .u8 [2] :=
  ⟨rfl, rfl, rfl⟩

/-! ### (3) any two parties reconstruct -/

/-- reconstruction from the tuples of two different parties reads exactly the three shares,
    whatever garbage either tuple carries -/
theorem recon_eq_reveal (i j : Nat) (hij : i % 3 ≠ j % 3) (s gi gj : T3) :
    recon i j (party i s gi) (party j s gj) = reveal s := by
  have hi : i % 3 = 0 ∨ i % 3 = 1 ∨ i % 3 = 2 := by omega
  have hj : j % 3 = 0 ∨ j % 3 = 1 ∨ j % 3 = 2 := by omega
  rcases hi with hi | hi | hi <;> rcases hj with hj | hj | hj <;>
    first
    | exact absurd (hi.trans hj.symm) hij
    | (have h1 : (i + 1) % 3 = (i % 3 + 1) % 3 := by omega
       simp [recon, pick, party, T3.slot, hi, hj, h1])

/-- **Any two parties determine the secret.** -/
theorem two_parties_reconstruct (i j : Nat) (hij : i % 3 ≠ j % 3) (v r0 r1 : Val) (gi gj : T3)
    (hv : wf v = true) (h0 : wf r0 = true) (h1 : wf r1 = true)
    (l0 : like v r0 = true) (l1 : like v r1 = true) :
    recon i j (party i (share v r0 r1) gi) (party j (share v r0 r1) gj) = v := by
  rw [recon_eq_reveal i j hij, reveal_share v r0 r1 hv h0 h1 l0 l1]

example : recon 2 1 (party 2 (share exV exR0 exR1) exG) (party 1 (share exV exR0 exR1) ⟨exV, exV, exV⟩) = exV := by
  rfl

/-! ### (4) uniformity: the two shares one party holds are a bijective image of the randomness -/

/-- the domain: pairs of well-formed values of the type of `v` -/
def OkPair (v : Val) (r : Val × Val) : Prop :=
  wf r.1 = true ∧ wf r.2 = true ∧ like v r.1 = true ∧ like v r.2 = true

/-- what party `i` holds does not depend on the garbage, and is the pair (share i, share i+1) -/
theorem held_eq (i : Nat) (v : Val) (g : T3) (r : Val × Val) :
    held i v g r = ((share v r.1 r.2).slot i, (share v r.1 r.2).slot (i + 1)) := by
  simp only [held, (layout i _ g).1, (layout i _ g).2.1]

/-- `held` maps the domain into itself -/
theorem held_ok (i : Nat) (v : Val) (g : T3) (r : Val × Val) (hv : wf v = true) (hr : OkPair v r) :
    OkPair v (held i v g r) := by
  obtain ⟨h0, h1, l0, l1⟩ := hr
  have h2 := (share_ok v r.1 r.2 hv h0 h1 l0 l1).2.2
  have hi : i % 3 = 0 ∨ i % 3 = 1 ∨ i % 3 = 2 := by omega
  rw [held_eq]
  rcases hi with hi | hi | hi
  · have h' : (i + 1) % 3 = 1 := by omega
    simp only [OkPair, T3.slot, hi, h']; exact ⟨h0, h1, l0, l1⟩
  · have h' : (i + 1) % 3 = 2 := by omega
    simp only [OkPair, T3.slot, hi, h']; exact ⟨h1, h2.1, l1, h2.2⟩
  · have h' : (i + 1) % 3 = 0 := by omega
    simp only [OkPair, T3.slot, hi, h']; exact ⟨h2.1, h0, h2.2, l0⟩

/-- `unheld` maps the domain into itself -/
theorem unheld_ok (i : Nat) (v : Val) (h : Val × Val) (hv : wf v = true) (hh : OkPair v h) :
    OkPair v (unheld i v h) := by
  obtain ⟨h0, h1, l0, l1⟩ := hh
  have hi : i % 3 = 0 ∨ i % 3 = 1 ∨ i % 3 = 2 := by omega
  rcases hi with hi | hi | hi
  · simp only [OkPair, unheld, hi]; exact ⟨h0, h1, l0, l1⟩
  · have := tm_ok (.sub (.sub .x .y) .z) v h.1 h.2 (ok3 hv h0 h1 l0 l1)
    simp only [OkPair, unheld, hi]; exact ⟨this.1, h0, this.2, l0⟩
  · have := tm_ok (.sub (.sub .x .z) .y) v h.1 h.2 (ok3 hv h0 h1 l0 l1)
    simp only [OkPair, unheld, hi]; exact ⟨h1, this.1, l1, this.2⟩

/-- **Left inverse:** the randomness is recovered from `v` and what party `i` holds. -/
theorem unheld_held (i : Nat) (v : Val) (g : T3) (r : Val × Val) (hv : wf v = true) (hr : OkPair v r) :
    unheld i v (held i v g r) = r := by
  obtain ⟨h0, h1, l0, l1⟩ := hr
  have ok := ok3 hv h0 h1 l0 l1
  have hi : i % 3 = 0 ∨ i % 3 = 1 ∨ i % 3 = 2 := by omega
  rw [held_eq]
  rcases hi with hi | hi | hi
  · have h' : (i + 1) % 3 = 1 := by omega
    simp [unheld, T3.slot, hi, h', share]
  · have h' : (i + 1) % 3 = 2 := by omega
    have e := tm_ext (.sub (.sub .x .z) (.sub (.sub .x .y) .z)) .y v r.1 r.2 ok (by elem_tac)
    simp only [Tm.evalV] at e
    simp [unheld, T3.slot, hi, h', share, e]
  · have h' : (i + 1) % 3 = 0 := by omega
    have e := tm_ext (.sub (.sub .x .y) (.sub (.sub .x .y) .z)) .z v r.1 r.2 ok (by elem_tac)
    simp only [Tm.evalV] at e
    simp [unheld, T3.slot, hi, h', share, e]

/-- **Right inverse:** every pair of well-formed values of the type of `v` is what party `i` holds
    for the randomness `unheld i v h`. -/
theorem held_unheld (i : Nat) (v : Val) (g : T3) (h : Val × Val) (hv : wf v = true) (hh : OkPair v h) :
    held i v g (unheld i v h) = h := by
  obtain ⟨h0, h1, l0, l1⟩ := hh
  have ok := ok3 hv h0 h1 l0 l1
  have hi : i % 3 = 0 ∨ i % 3 = 1 ∨ i % 3 = 2 := by omega
  rw [held_eq]
  rcases hi with hi | hi | hi
  · have h' : (i + 1) % 3 = 1 := by omega
    simp [unheld, T3.slot, hi, h', share]
  · have h' : (i + 1) % 3 = 2 := by omega
    have e := tm_ext (.sub (.sub .x (.sub (.sub .x .y) .z)) .y) .z v h.1 h.2 ok (by elem_tac)
    simp only [Tm.evalV] at e
    simp [unheld, T3.slot, hi, h', share, e]
  · have h' : (i + 1) % 3 = 0 := by omega
    have e := tm_ext (.sub (.sub .x .z) (.sub (.sub .x .z) .y)) .y v h.1 h.2 ok (by elem_tac)
    simp only [Tm.evalV] at e
    simp [unheld, T3.slot, hi, h', share, e]

/-- **Uniformity.** For every secret `v`, party `i` and target pair `h` of the right type there is
    exactly one choice of randomness `(r0, r1)` for which party `i` holds `h`: the view of a single
    party is a bijective image of the uniform randomness, hence uniform and independent of `v`. -/
theorem held_bijective (i : Nat) (v : Val) (g : T3) (hv : wf v = true) (h : Val × Val) (hh : OkPair v h) :
    ∃ r, (OkPair v r ∧ held i v g r = h) ∧ ∀ r', OkPair v r' ∧ held i v g r' = h → r' = r := by
  refine ⟨unheld i v h, ⟨unheld_ok i v h hv hh, held_unheld i v g h hv hh⟩, ?_⟩
  rintro r' ⟨hr', e⟩
  rw [← e, unheld_held i v g r' hv hr']

example : OkPair exV (exR0, exR1) := by simp only [OkPair]; decide
example : held 1 exV exG (exR0, exR1) = (exR1, (share exV exR0 exR1).x2) := by rfl
example : unheld 1 exV (held 1 exV exG (exR0, exR1)) = (exR0, exR1) := by rfl
example : unheld 2 exV (held 2 exV exG (exR0, exR1)) = (exR0, exR1) := by rfl
example : held 2 exV exG (unheld 2 exV (exR1, exR0)) = (exR1, exR0) := by rfl

end CCV.C14
