import CCV.Lemmas.InlineFresh
/-
  C07, fresh randomness: every inlined copy of a body gets its own Random nodes.
  Model: CCV.Model.InlineFresh (mirror of inline_ops.rs / simple_iterate_inliner.rs); the functions
  below (`inlineCall`, `inlineIterateSimple`) are the ones the driver executes.
  Notation: `stepRename g base init i` is the renaming of copy i (closed form), `InCopy g base i x`
  says that x is one of the nodes created for copy i, `stepBlocks` is the closed form of the
  appended nodes (Lemmas/InlineFresh.lean).
-/
namespace CCV.C07
open CCV.InlineFresh

/-- One assign / inline / unassign cycle (`inline_call`, one Iterate step, one combine call)
    appends exactly one renamed copy of the body's non-Input nodes at the END of the output graph
    (so all its nodes, in particular its Random nodes, are new), returns the image of the output
    node and leaves the ephemeral mapping clean, whatever `context_mapping` contains (first copy or
    a later one). -/
theorem call_copy (gid : Nat) (g : Graph) (outId : Nat) (args : List Nat) (s : St)
    (hwf : WF g) (hargs : inCount g ≤ args.length) (hclean : Clean gid s.2) :
    (inlineCall gid g outId args s).1.1 = s.1 ++ copySpec (rename g s.1.length args) g ∧
    (outId < g.length → (inlineCall gid g outId args s).2 = rename g s.1.length args outId) ∧
    Clean gid (inlineCall gid g outId args s).1.2 ∧
    (∀ k nd, g[k]? = some nd → nd.tag ≠ .input →
      s.1.length ≤ rename g s.1.length args k ∧
      (inlineCall gid g outId args s).1.1[rename g s.1.length args k]?
        = some ⟨nd.tag, nd.deps.map (rename g s.1.length args)⟩) := by
  obtain ⟨e1, e2, e3, _⟩ := inlineCall_spec gid g outId args s hwf hargs hclean
  refine ⟨e1, e2, e3, ?_⟩
  intro k nd hk hn
  rw [e1, rename_nonInput hk hn]
  refine ⟨Nat.le_add_right _ _, ?_⟩
  rw [List.getElem?_append_right (Nat.le_add_right _ _), Nat.add_sub_cancel_left]
  have := copySpec_get (rename g s.1.length args) hk hn
  exact this

example : (inlineCall 1 exBody 5 [0, 1] exStart).1.1 =
    exStart.1 ++ [⟨.random, []⟩, ⟨.op 0, [0, 2]⟩, ⟨.op 2, [1, 2]⟩, ⟨.createTuple, [3, 4]⟩] := by decide

/-- Call chains (partial): n successive `inline_call`s of the same body, with arbitrary argument
    lists, add exactly n * #Random(body) Random nodes, all at fresh positions (each copy is appended
    after the previous graph, by `call_copy`).  Gap: the loop over the MAIN graph
    (`inlineMainNodes`, which computes each argument list with `get_node`) is executed by the driver
    and compared with the implementation, but the theorem is about `callSeq`. -/
def CallChainStatement : Prop :=
  ∀ (mode : Mode) (es : Bool) (body : Graph) (bodyOut : Nat) (main : Graph) (out : Graph) (c : ICtx),
    WF body → (∀ nd ∈ main, nd.tag ≠ .random ∧ (∀ n, nd.tag ≠ .iterate n)) →
    randomCount (inlineMainNodes mode es body bodyOut main 0 (out, c)).1
      = randomCount out + (main.filter (fun nd => nd.tag = .call)).length * randomCount body

theorem call_chain_partial (gid : Nat) (g : Graph) (outId : Nat) (hwf : WF g) :
    ∀ (argss : List (List Nat)) (s : St), (∀ a ∈ argss, inCount g ≤ a.length) → Clean gid s.2 →
      randomCount (callSeq gid g outId argss s).1 = randomCount s.1 + argss.length * randomCount g ∧
      s.1.length ≤ (callSeq gid g outId argss s).1.length ∧
      Clean gid (callSeq gid g outId argss s).2 := by
  intro argss
  induction argss with
  | nil => intro s _ hc; simp [callSeq, hc]
  | cons a as ih =>
    intro s ha hc
    obtain ⟨e1, _, e3, _⟩ := inlineCall_spec gid g outId a s hwf (ha a (by simp)) hc
    obtain ⟨f1, f2, f3⟩ := ih (inlineCall gid g outId a s).1 (fun b hb => ha b (by simp [hb])) e3
    simp only [callSeq]
    refine ⟨?_, ?_, f3⟩
    · rw [f1, e1, randomCount_append, randomCount_copySpec, List.length_cons, Nat.succ_mul]; omega
    · rw [e1] at f2; simp at f2; omega

example : randomCount (callSeq 1 exBody 5 [[0, 1], [5, 1], [9, 1]] exStart).1 = 3 := by decide

/-- Structure of `inline_iterate_simple`: for every body and every n the loop appends exactly
    `stepBlocks` (per step: Constant(i), VectorGet, the renamed copy, TupleGet(0), TupleGet(1)),
    the final state is TupleGet(0) of the last step (the initial state for n = 0), the outputs are
    the TupleGet(1) nodes, and the ephemeral mapping is clean afterwards. -/
theorem iterate_simple_structure (gid : Nat) (g : Graph) (outId init inp n : Nat) (s : St)
    (hwf : WF g) (h2 : inCount g ≤ 2) (ho : outId < g.length) (hc : Clean gid s.2) :
    (inlineIterateSimple gid g outId init inp n s).1.1
      = s.1 ++ stepBlocks g outId inp s.1.length init n 0 ∧
    (inlineIterateSimple gid g outId init inp n s).2.1 = stateAt g s.1.length init n ∧
    (inlineIterateSimple gid g outId init inp n s).2.2
      = (List.range' 0 n).map (fun j => s.1.length + j * stepLen g + 3 + rank g) ∧
    Clean gid (inlineIterateSimple gid g outId init inp n s).1.2 := by
  obtain ⟨out, c⟩ := s
  have := iterSimpleLoop_spec gid g outId inp out.length init hwf h2 ho n 0 init [] out c (by simp) rfl hc
  simpa [inlineIterateSimple] using this

example : (inlineIterateSimple 1 exBody 5 0 1 2 exStart).1.1 = exStart.1 ++
    [⟨.const 0, []⟩, ⟨.vectorGet, [1, 2]⟩, ⟨.random, []⟩, ⟨.op 0, [0, 4]⟩, ⟨.op 2, [3, 4]⟩,
     ⟨.createTuple, [5, 6]⟩, ⟨.tupleGet 0, [7]⟩, ⟨.tupleGet 1, [7]⟩,
     ⟨.const 1, []⟩, ⟨.vectorGet, [1, 10]⟩, ⟨.random, []⟩, ⟨.op 0, [8, 12]⟩, ⟨.op 2, [11, 12]⟩,
     ⟨.createTuple, [13, 14]⟩, ⟨.tupleGet 0, [15]⟩, ⟨.tupleGet 1, [15]⟩] := by decide

/-- Isomorphism: in the output graph, the image under copy i's renaming of every non-Input body
    node carries the same operation and the renamed dependencies; the renaming is injective on
    the non-Input nodes. -/
theorem iterate_simple_copy_isomorphic (gid : Nat) (g : Graph) (outId init inp n : Nat) (s : St)
    (hwf : WF g) (h2 : inCount g ≤ 2) (ho : outId < g.length) (hc : Clean gid s.2)
    (i : Nat) (hi : i < n) :
    (∀ k nd, g[k]? = some nd → nd.tag ≠ .input →
      (inlineIterateSimple gid g outId init inp n s).1.1[stepRename g s.1.length init i k]?
        = some ⟨nd.tag, nd.deps.map (stepRename g s.1.length init i)⟩) ∧
    (∀ k k' nd nd', g[k]? = some nd → g[k']? = some nd' → nd.tag ≠ .input → nd'.tag ≠ .input →
      stepRename g s.1.length init i k = stepRename g s.1.length init i k' → k = k') := by
  refine ⟨?_, ?_⟩
  · intro k nd hk hn
    rw [(iterate_simple_structure gid g outId init inp n s hwf h2 ho hc).1]
    have hr := rank_take_lt hk hn
    have e : stepRename g s.1.length init i k = s.1.length + (i * stepLen g + (2 + rank (g.take k))) := by
      unfold stepRename; rw [rename_nonInput hk hn]; omega
    rw [e, List.getElem?_append_right (Nat.le_add_right _ _), Nat.add_sub_cancel_left,
      stepBlocks_get g outId inp s.1.length init n 0 i (2 + rank (g.take k)) hi (by unfold stepLen; omega),
      Nat.zero_add, stepBlock_get g outId inp s.1.length init i _ hr]
    exact copySpec_get _ hk hn
  · intro k k' nd nd' hk hk' hn hn' heq
    unfold stepRename at heq
    rw [rename_nonInput hk hn, rename_nonInput hk' hn'] at heq
    rcases Nat.lt_trichotomy k k' with h | h | h
    · have := rank_take_strict hk hn h; omega
    · exact h
    · have := rank_take_strict hk' hn' h; omega

example : (inlineIterateSimple 1 exBody 5 0 1 2 exStart).1.1[stepRename exBody 2 0 1 4]?
    = some ⟨.op 2, [11, 12]⟩ := by decide

/-- FRESH RANDOMNESS: for every Random node r of the body and copies i ≠ j of an n-step Iterate,
    the images of r are two DISTINCT nodes of the output graph, both Random nodes; more generally
    the node sets of different copies are disjoint. -/
theorem iterate_simple_fresh_random (gid : Nat) (g : Graph) (outId init inp n : Nat) (s : St)
    (hwf : WF g) (h2 : inCount g ≤ 2) (ho : outId < g.length) (hc : Clean gid s.2)
    (i j : Nat) (hi : i < n) (hj : j < n) (hij : i ≠ j) :
    (∀ r nd, g[r]? = some nd → nd.tag = .random →
      stepRename g s.1.length init i r ≠ stepRename g s.1.length init j r ∧
      (∃ ds, (inlineIterateSimple gid g outId init inp n s).1.1[stepRename g s.1.length init i r]?
        = some ⟨.random, ds⟩) ∧
      (∃ ds, (inlineIterateSimple gid g outId init inp n s).1.1[stepRename g s.1.length init j r]?
        = some ⟨.random, ds⟩)) ∧
    (∀ k k' nd nd', g[k]? = some nd → g[k']? = some nd' → nd.tag ≠ .input → nd'.tag ≠ .input →
      stepRename g s.1.length init i k ≠ stepRename g s.1.length init j k') := by
  have hdis : ∀ k k' nd nd', g[k]? = some nd → g[k']? = some nd' → nd.tag ≠ .input → nd'.tag ≠ .input →
      stepRename g s.1.length init i k ≠ stepRename g s.1.length init j k' := by
    intro k k' nd nd' hk hk' hn hn' heq
    have a := stepRename_inCopy (base := s.1.length) (init := init) (i := i) hk hn
    have b := stepRename_inCopy (base := s.1.length) (init := init) (i := j) hk' hn'
    rw [← heq] at b
    exact hij (inCopy_disjoint a b)
  refine ⟨?_, hdis⟩
  intro r nd hr ht
  have hn : nd.tag ≠ .input := by rw [ht]; decide
  refine ⟨hdis r r nd nd hr hr hn hn, ?_, ?_⟩
  · refine ⟨nd.deps.map (stepRename g s.1.length init i), ?_⟩
    rw [(iterate_simple_copy_isomorphic gid g outId init inp n s hwf h2 ho hc i hi).1 r nd hr hn, ht]
  · refine ⟨nd.deps.map (stepRename g s.1.length init j), ?_⟩
    rw [(iterate_simple_copy_isomorphic gid g outId init inp n s hwf h2 ho hc j hj).1 r nd hr hn, ht]

example : stepRename exBody 2 0 0 2 = 4 ∧ stepRename exBody 2 0 1 2 = 12 ∧ stepRename exBody 2 0 2 2 = 20 := by
  decide

/-- Counting: n steps add exactly n * #Random(body) Random nodes to those already present. -/
theorem iterate_simple_random_count (gid : Nat) (g : Graph) (outId init inp n : Nat) (s : St)
    (hwf : WF g) (h2 : inCount g ≤ 2) (ho : outId < g.length) (hc : Clean gid s.2) :
    randomCount (inlineIterateSimple gid g outId init inp n s).1.1
      = randomCount s.1 + n * randomCount g := by
  rw [(iterate_simple_structure gid g outId init inp n s hwf h2 ho hc).1, randomCount_append,
    randomCount_stepBlocks]

example : randomCount (inlineIterateSimple 1 exBody 5 0 1 3 exStart).1.1 = 3 := by decide

/-- Locality: every dependency of a node of copy i is the image (under copy i's renaming) of a
    body node; images of non-Input nodes are nodes of copy i itself, images of Input nodes are the
    copy's assigned inputs (the state of step i or the VectorGet of step i), which belong to NO
    copy.  Hence no node of copy i refers to a node (in particular a Random node) of a copy j ≠ i. -/
theorem iterate_simple_copy_local (g : Graph) (base init : Nat)
    (hwf : WF g) (h2 : inCount g ≤ 2) (hinit : init < base)
    (i k : Nat) (nd : Node) (hk : g[k]? = some nd) (d : Nat) (hd : d ∈ nd.deps) :
    (InCopy g base i (stepRename g base init i d) ∨
      ((stepRename g base init i d = stateAt g base init i ∨
        stepRename g base init i d = base + i * stepLen g + 1) ∧
       ∀ j, ¬ InCopy g base j (stepRename g base init i d))) ∧
    (∀ j, j ≠ i → ¬ InCopy g base j (stepRename g base init i d)) := by
  have hdk : d < k := hwf k nd hk d hd
  have hkl : k < g.length := by
    rcases Nat.lt_or_ge k g.length with h | h
    · exact h
    · rw [List.getElem?_eq_none h] at hk; cases hk
  have hgd : g[d]? = some g[d] := List.getElem?_eq_getElem (by omega)
  by_cases hdi : (g[d]'(by omega)).tag = .input
  · have hlt := inCount_take_lt hgd hdi
    have hval : stepRename g base init i d = stateAt g base init i ∨
        stepRename g base init i d = base + i * stepLen g + 1 := by
      unfold stepRename
      rw [rename_input hgd hdi]
      have h01 : inCount (g.take d) = 0 ∨ inCount (g.take d) = 1 := by omega
      rcases h01 with h | h <;> rw [h] <;> simp
    have hno : ∀ j, ¬ InCopy g base j (stepRename g base init i d) := by
      intro j
      rcases hval with h | h <;> rw [h]
      · exact stateAt_not_inCopy hinit i j
      · exact vget_not_inCopy i j
    exact ⟨Or.inr ⟨hval, hno⟩, fun j _ => hno j⟩
  · have a := stepRename_inCopy (base := base) (init := init) (i := i) hgd hdi
    exact ⟨Or.inl a, fun j hj hb => hj (inCopy_disjoint hb a)⟩

example : stepRename exBody 2 0 1 0 = stateAt exBody 2 0 1 ∧ stateAt exBody 2 0 1 = 8 ∧
    stepRename exBody 2 0 1 1 = 11 ∧ ¬ InCopy exBody 2 0 8 ∧ InCopy exBody 2 1 12 := by
  unfold InCopy; decide

end CCV.C07
