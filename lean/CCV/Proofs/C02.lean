import CCV.Lemmas.Know
import CCV.Lemmas.KnowTrie
/-
  C02 — each party can run the protocol from its own data and the messages it receives.

  `holders_sound`: for EVERY graph (well-scoped), every operation semantics `sem`, every choice of
  what the parties supply for inputs they do not own (junk) and every three private random tapes:
  if the static holder analysis says party p holds a component of node n, then in the three-party
  execution p's value of that component equals the value in the one-evaluator run in which each
  Random node takes its owner's draw.  The per-graph obligations `okRevealed … = true` /
  `okShared … = true` (generated from what `compile_context` emits now, decided by the kernel)
  then give, for that graph, for all inputs, junk and tapes: every output party ends with the
  global result.
-/
namespace CCV.C02
open CCV.Know
variable {A : Type}

/-- invariant relating the analysis, the three-party run and the one-evaluator run -/
structure Inv (henv : List HT) (st : Nat → List (Val A)) (env : List (Val A)) : Prop where
  lenS : ∀ p, (st p).length = henv.length
  lenE : env.length = henv.length
  agree : ∀ idx, idx < henv.length → ∀ p,
    Agree p (henv.getD idx (.leaf PS.none)) ((st p).getD idx .nil) (env.getD idx .nil)

section
variable (sem : Nat → List (Val A) → Val A) (inp : Nat → Nat → Val A) (tape : Nat → Nat → Val A)
  (real : Nat → Val A) (inStat : Nat → HT) (owner : Nat → Nat)

/-- the global random tape: Random node r takes its owner's draw -/
def gtape (tape : Nat → Nat → Val A) (owner : Nat → Nat) : Nat → Val A := fun r => tape (owner r) r

theorem base_agree (hin : ∀ i p, Agree p (inStat i) (inp p i) (real i))
    (henv : List HT) (st : Nat → List (Val A)) (env : List (Val A)) (hI : Inv henv st env)
    (n : Node) (hsc : ∀ d ∈ n.deps, d < henv.length) (p : Nat) :
    Agree p (hBase inStat owner henv n) (evalNode sem (inp p) (tape p) (st p) n)
      (evalNode sem real (gtape tape owner) env n) := by
  have hdep : ∀ d ∈ n.deps, Agree p (henv.getD d (.leaf PS.none)) ((st p).getD d .nil) (env.getD d .nil) :=
    fun d hd => hI.agree d (hsc d hd) p
  unfold hBase hBaseF evalNode
  cases hk : n.k with
  | input i => exact hin i p
  | random r =>
    simp only []
    intro hm
    by_cases hp : p < 3
    · have := PS.mem_single p (owner r) hp hm
      subst this; rfl
    · have := PS.mem_lt _ _ hm; exact absurd this hp
  | mkTuple =>
    simp only []
    apply agree_mkTup <;> simp only [List.length_map]
    intro i hi
    have hmem : n.deps[i] ∈ n.deps := List.getElem_mem hi
    have := hdep _ hmem
    simpa [List.getD_eq_getElem?_getD, hi] using this
  | tupleGet j =>
    simp only []
    cases hd : n.deps with
    | nil => exact agree_nth p j (.leaf PS.none) .nil .nil (fun _ => rfl)
    | cons d ds =>
      simp only [List.map_cons, List.headD_cons]
      exact agree_nth p j _ _ _ (hdep d (by rw [hd]; simp))
  | nop =>
    simp only []
    cases hd : n.deps with
    | nil => exact fun _ => rfl
    | cons d ds =>
      simp only [List.map_cons, List.headD_cons]
      exact hdep d (by rw [hd]; simp)
  | op tag =>
    simp only []
    intro hm
    have hall := (mem_foldl_inter p _ _ hm).2
    congr 1
    apply List.map_congr_left
    intro d hd
    apply agree_meet p _ _ _ (hdep d hd)
    apply hall
    exact List.mem_map.mpr ⟨d, hd, rfl⟩

theorem step_inv (hin : ∀ i p, Agree p (inStat i) (inp p i) (real i))
    (henv : List HT) (st : Nat → List (Val A)) (env : List (Val A)) (hI : Inv henv st env)
    (n : Node) (hsc : ∀ d ∈ n.deps, d < henv.length) :
    Inv (henv ++ [hNode inStat owner henv n])
      (fun p => st p ++ [applySends n.sends (fun q => evalNode sem (inp q) (tape q) (st q) n) p])
      (env ++ [evalNode sem real (gtape tape owner) env n]) := by
  refine ⟨fun p => by simp [hI.lenS p], by simp [hI.lenE], ?_⟩
  intro idx hidx p
  simp only [List.length_append, List.length_singleton] at hidx
  by_cases h : idx < henv.length
  · have h1 : idx < (st p).length := by rw [hI.lenS p]; exact h
    have h2 : idx < env.length := by rw [hI.lenE]; exact h
    simp only [List.getD_eq_getElem?_getD, List.getElem?_append_left h, List.getElem?_append_left h1,
      List.getElem?_append_left h2]
    simpa [List.getD_eq_getElem?_getD] using hI.agree idx h p
  · have he : idx = henv.length := by omega
    subst he
    have h1 : henv.length = (st p).length := (hI.lenS p).symm
    have h2 : henv.length = env.length := hI.lenE.symm
    have e1 : (henv ++ [hNode inStat owner henv n]).getD henv.length (.leaf PS.none) = hNode inStat owner henv n := by
      simp [List.getD_eq_getElem?_getD]
    have e2 : (st p ++ [applySends n.sends (fun q => evalNode sem (inp q) (tape q) (st q) n) p]).getD henv.length .nil
        = applySends n.sends (fun q => evalNode sem (inp q) (tape q) (st q) n) p := by
      rw [h1]; simp [List.getD_eq_getElem?_getD]
    have e3 : (env ++ [evalNode sem real (gtape tape owner) env n]).getD henv.length .nil
        = evalNode sem real (gtape tape owner) env n := by
      rw [h2]; simp [List.getD_eq_getElem?_getD]
    rw [e1, e2, e3]
    unfold hNode
    apply agree_sends
    intro q
    exact base_agree sem inp tape real inStat owner hin henv st env hI n hsc q

theorem wellScoped_cons (n : Node) (g : List Node) (k : Nat) (h : wellScoped (n :: g) k = true) :
    (∀ d ∈ n.deps, d < k) ∧ wellScoped g (k + 1) = true := by
  simp only [wellScoped, Bool.and_eq_true, List.all_eq_true, decide_eq_true_eq] at h
  exact h

theorem run_inv (hin : ∀ i p, Agree p (inStat i) (inp p i) (real i)) :
    ∀ (g : List Node) (henv : List HT) (st : Nat → List (Val A)) (env : List (Val A)),
    Inv henv st env → wellScoped g henv.length = true →
    Inv (hRun inStat owner g henv) (exec3 sem inp tape g st) (evalG sem real (gtape tape owner) g env)
  | [], _, _, _, hI, _ => hI
  | n :: g, henv, st, env, hI, hw => by
    obtain ⟨hsc, hw'⟩ := wellScoped_cons n g _ hw
    simp only [hRun, exec3, evalG]
    apply run_inv hin g
    · exact step_inv sem inp tape real inStat owner hin henv st env hI n hsc
    · simpa using hw'

/-- **Soundness of the holder analysis, for all graphs.** -/
theorem holders_sound (hin : ∀ i p, Agree p (inStat i) (inp p i) (real i)) (g : List Node)
    (hw : wellScoped g 0 = true) (idx : Nat) (hidx : idx < (hRun inStat owner g []).length) (p : Nat) :
    Agree p ((hRun inStat owner g []).getD idx (.leaf PS.none))
      ((exec3 sem inp tape g (fun _ => []) p).getD idx .nil)
      ((evalG sem real (gtape tape owner) g []).getD idx .nil) :=
  (run_inv sem inp tape real inStat owner hin g [] (fun _ => []) []
    ⟨fun _ => rfl, rfl, fun _ h => absurd h (by simp)⟩ (by simpa using hw)).agree idx hidx p

theorem hRun_length : ∀ (g : List Node) (henv : List HT),
    (hRun inStat owner g henv).length = henv.length + g.length
  | [], henv => by simp [hRun]
  | n :: g, henv => by simp [hRun, hRun_length g]; omega

/-- **Revealed output.** If the check passes, every listed output party ends the three-party run
    with exactly the value the one-evaluator run computes — whatever junk the other parties'
    inputs were replaced by, and whatever the three random tapes are. -/
theorem revealed_correct (hin : ∀ i p, Agree p (inStat i) (inp p i) (real i)) (g : List Node)
    (out : Nat) (hout : out < g.length) (outs : PS)
    (hok : okRevealed inStat owner g out outs = true) (p : Nat) (hp : PS.mem p outs = true) :
    (exec3 sem inp tape g (fun _ => []) p).getD out .nil
      = (evalG sem real (gtape tape owner) g []).getD out .nil := by
  simp only [okRevealed, Bool.and_eq_true] at hok
  have hlen : out < (hRun inStat owner g []).length := by rw [hRun_length]; simpa using hout
  exact agree_meet p _ _ _ (holders_sound sem inp tape real inStat owner hin g hok.1 out hlen p)
    (PS.mem_subset p _ _ hok.2 hp)

/-- **Shared output.** If the check passes, party i ends with components i and i+1 of the global
    output (so neighbours' copies are consistent and the three components are those of the
    one-evaluator run, which C01 shows to sum to the result). -/
theorem shared_correct (hin : ∀ i p, Agree p (inStat i) (inp p i) (real i)) (g : List Node)
    (out : Nat) (hout : out < g.length) (hok : okShared inStat owner g out = true) :
    let v := fun p => (exec3 sem inp tape g (fun _ => []) p).getD out .nil
    let w := (evalG sem real (gtape tape owner) g []).getD out .nil
    nthV 0 (v 0) = nthV 0 w ∧ nthV 1 (v 0) = nthV 1 w ∧
    nthV 1 (v 1) = nthV 1 w ∧ nthV 2 (v 1) = nthV 2 w ∧
    nthV 2 (v 2) = nthV 2 w ∧ nthV 0 (v 2) = nthV 0 w := by
  simp only [okShared, Bool.and_eq_true] at hok
  obtain ⟨⟨⟨⟨⟨⟨hw, h00⟩, h01⟩, h11⟩, h12⟩, h22⟩, h20⟩ := hok
  have hlen : out < (hRun inStat owner g []).length := by rw [hRun_length]; simpa using hout
  have H := fun p => holders_sound sem inp tape real inStat owner hin g hw out hlen p
  intro v w
  exact ⟨agree_meet 0 _ _ _ (agree_nth 0 0 _ _ _ (H 0)) h00,
    agree_meet 0 _ _ _ (agree_nth 0 1 _ _ _ (H 0)) h01,
    agree_meet 1 _ _ _ (agree_nth 1 1 _ _ _ (H 1)) h11,
    agree_meet 1 _ _ _ (agree_nth 1 2 _ _ _ (H 1)) h12,
    agree_meet 2 _ _ _ (agree_nth 2 2 _ _ _ (H 2)) h22,
    agree_meet 2 _ _ _ (agree_nth 2 0 _ _ _ (H 2)) h20⟩

/-- **Revealed output, trie-based check** (the form used by the generated obligations: same analysis,
    O(log n) environment so that the kernel can evaluate it on graphs of thousands of nodes). -/
theorem revealedT_correct (hin : ∀ i p, Agree p (inStat i) (inp p i) (real i)) (g : List Node)
    (out : Nat) (outs : PS) (hok : okRevealedT inStat owner g out outs = true)
    (p : Nat) (hp : PS.mem p outs = true) :
    (exec3 sem inp tape g (fun _ => []) p).getD out .nil
      = (evalG sem real (gtape tape owner) g []).getD out .nil :=
  let ⟨h1, h2⟩ := okRevealedT_sound inStat owner g out outs hok
  revealed_correct sem inp tape real inStat owner hin g out h2 outs h1 p hp

/-- **Shared output, trie-based check.** -/
theorem sharedT_correct (hin : ∀ i p, Agree p (inStat i) (inp p i) (real i)) (g : List Node)
    (out : Nat) (hok : okSharedT inStat owner g out = true) :
    let v := fun p => (exec3 sem inp tape g (fun _ => []) p).getD out .nil
    let w := (evalG sem real (gtape tape owner) g []).getD out .nil
    nthV 0 (v 0) = nthV 0 w ∧ nthV 1 (v 0) = nthV 1 w ∧
    nthV 1 (v 1) = nthV 1 w ∧ nthV 2 (v 1) = nthV 2 w ∧
    nthV 2 (v 2) = nthV 2 w ∧ nthV 0 (v 2) = nthV 0 w :=
  let ⟨h1, h2⟩ := okSharedT_sound inStat owner g out hok
  shared_correct sem inp tape real inStat owner hin g out h2 h1

end
end CCV.C02
