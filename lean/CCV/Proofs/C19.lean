import CCV.Lemmas.Join
/-
  C19 — the plaintext relational join (`evaluators/join.rs`).
  Property theorems only; helper lemmas live in CCV/Lemmas/Join.lean.
  Model: CCV/Model/Join.lean.  `impl*` mirrors the algorithm (hash map of the live keys of the
  second table with replacing insert, one walk over the first table, for union a second walk,
  full = union(a, left(b, a))); `spec*` is written from the documentation (`findMatch` = first live
  row with the same row key; full join described directly).
  A row is *live* (`live ks r`) when its null flag is one and every key mask is one;
  `UniqueLive ks T` = the live rows of `T` have pairwise different row keys (documented precondition).
  Non-vacuity instances use `exP`, `exA`, `exB` (CCV/Lemmas/Join.lean): overlapping tables with a null
  row on each side, a masked key on each side and a masked data entry.
  Hypotheses are the minimal ones each proof needs (a subset of `P.ok`, `WellFormed P.w0 A`,
  `WellFormed P.w1 B`, `UniqueLive P.k0 A`, `UniqueLive P.k1 B`).
-/
namespace CCV.C19
open CCV CCV.Join

/-! ### P1 — implementation = specification when live rows have unique keys -/

/-- `row_has_empty_entries` is the negation of "takes part in matching". -/
theorem hasEmpty_eq_not_live (ks : List Nat) (r : Row) : hasEmpty ks r = !live ks r :=
  Join.hasEmpty_eq_not_live ks r

example : hasEmpty exP.k0 exA[2] = true ∧ live exP.k0 exA[2] = false ∧ live exP.k0 exA[3] = true := by
  decide

/-- **Key lemma.**  When the live rows of `B` have unique keys, the hash map built by
    `get_hashmap_from_key_columns` (replacing insert, rows with empty entries skipped) returns for
    every key exactly the first live row of `B` with that key. -/
theorem lookup_buildMap (ks : List Nat) (B : Table) (k : List Int) (h : UniqueLive ks B) :
    lookup (buildMap ks B) k = findMatch ks B k :=
  Join.lookup_buildMap ks B k h

example : UniqueLive exP.k1 exB ∧ lookup (buildMap exP.k1 exB) [1] = some exB[0] ∧
    lookup (buildMap exP.k1 exB) [3] = none := by decide

/-- **Inner join: implementation = specification** under the documented precondition on the
    second table. -/
theorem impl_eq_spec_inner (P : Plan) (A B : Table) (h : UniqueLive P.k1 B) :
    implInner P A B = specInner P A B :=
  Join.impl_eq_spec_inner P A B h

example : UniqueLive exP.k1 exB ∧ (specInner exP exA exB).map (·.null) = [true, false, false, false] := by
  decide

/-- **The precondition is needed**: with two live rows of `B` carrying the same key the hash map
    keeps the last one, the specification takes the first. -/
theorem impl_ne_spec_without_unique :
    ∃ P A B, P.ok ∧ WellFormed P.w0 A ∧ WellFormed P.w1 B ∧ UniqueLive P.k0 A ∧
      ¬ UniqueLive P.k1 B ∧ implInner P A B ≠ specInner P A B :=
  ⟨exP, exA, exBdup, by unfold Plan.ok WellFormed; decide⟩

/-- **Left join: implementation = specification.** -/
theorem impl_eq_spec_left (P : Plan) (A B : Table) (h : UniqueLive P.k1 B) :
    implLeft P A B = specLeft P A B :=
  Join.impl_eq_spec_left P A B h

example : UniqueLive exP.k1 exB ∧ (specLeft exP exA exB).map (·.null) = [true, false, true, true] ∧
    (specLeft exP exA exB)[0]? = some ⟨true, [⟨true, [1]⟩, ⟨true, [10, 11]⟩, ⟨true, [7]⟩]⟩ := by
  decide

/-- **Union join: implementation = specification**, in both forms of `get_union_columns`
    (`s = false`: the union join proper; `s = true`: the call made by `evaluate_full_join`). -/
theorem impl_eq_spec_union (P : Plan) (s : Bool) (A B : Table) (h : UniqueLive P.k1 B) :
    implUnionG P s A B = specUnionG P s A B :=
  Join.impl_eq_spec_unionG P s A B h

example : UniqueLive exP.k1 exB ∧
    (specUnionG exP false exA exB).map (·.null) = [false, false, true, true, true, false, true, true] := by
  decide

/-- **Full join: implementation = specification.**  The implementation computes
    `union(a, left(b, a))`; the hash map of the union is built from the rows of `left(b, a)`, whose
    live keys are those of `b` (P4), and the union in its shared form reassembles the directly
    described full join (P3). -/
theorem impl_eq_spec_full (P : Plan) (A B : Table) (hP : P.ok) (hB : WellFormed P.w1 B)
    (hu0 : UniqueLive P.k0 A) (hu1 : UniqueLive P.k1 B) : implFull P A B = specFull P A B :=
  Join.impl_eq_spec_full P A B hP hB hu0 hu1

example : exP.ok ∧ WellFormed exP.w1 exB ∧ UniqueLive exP.k0 exA ∧ UniqueLive exP.k1 exB ∧
    (specFull exP exA exB)[4]? = some ⟨true, [⟨true, [1]⟩, ⟨true, [10, 11]⟩, ⟨true, [7]⟩]⟩ := by
  refine ⟨ex_hyps.1, ex_hyps.2.2.1, ex_hyps.2.2.2.1, ex_hyps.2.2.2.2, by decide⟩

/-- **All four join types: implementation = specification** when the plan is well formed, the
    second table has the declared shape and the live rows of both tables have unique keys. -/
theorem impl_eq_spec (t : JoinType) (P : Plan) (A B : Table) (hP : P.ok) (hB : WellFormed P.w1 B)
    (hu0 : UniqueLive P.k0 A) (hu1 : UniqueLive P.k1 B) : impl t P A B = spec t P A B := by
  cases t
  · exact Join.impl_eq_spec_inner P A B hu1
  · exact Join.impl_eq_spec_left P A B hu1
  · exact Join.impl_eq_spec_unionG P false A B hu1
  · exact Join.impl_eq_spec_full P A B hP hB hu0 hu1

example : impl .full exP exA exB = spec .full exP exA exB ∧
    impl .union exP exA exB = spec .union exP exA exB := by decide

/-! ### P2 — row counts -/

/-- **The specification returns the inferred number of rows** (`join_inference`): `n0` for inner
    and left, `n0 + n1` for union and full. -/
theorem spec_length (t : JoinType) (P : Plan) (A B : Table) :
    (spec t P A B).length = inferredRows t A.length B.length :=
  Join.spec_length t P A B

/-- **The implementation returns the inferred number of rows**, with no precondition. -/
theorem impl_length (t : JoinType) (P : Plan) (A B : Table) :
    (impl t P A B).length = inferredRows t A.length B.length :=
  Join.impl_length t P A B

example : (impl .full exP exA exBdup).length = 6 ∧ (spec .inner exP exA exB).length = 4 := by decide

/-! ### P3 — full join = union_join(a, left_join(b, a)) -/

/-- **The documented identity**: the directly described full join equals the union (in the shared
    form used by `evaluate_full_join`, where the second table carries the non-key columns of `a`
    behind the columns of `b`) of `a` and `left_join(b, a)`. -/
theorem full_eq_union_left (P : Plan) (A B : Table) (hP : P.ok) (hB : WellFormed P.w1 B) :
    specFull P A B = specUnionG P true A (specLeft P.swap B A) :=
  Join.full_eq_union_left P A B hP hB

example : exP.ok ∧ WellFormed exP.w1 exB ∧
    (specLeft exP.swap exB exA)[0]? = some ⟨true, [⟨true, [7]⟩, ⟨true, [1]⟩, ⟨true, [10, 11]⟩]⟩ := by
  refine ⟨ex_hyps.1, ex_hyps.2.2.1, by decide⟩

/-- **The identity is false for the plain union** (`shared = false`): matched rows lose the
    non-key data of the first table. -/
theorem full_ne_plain_union_left :
    ∃ P A B, P.ok ∧ WellFormed P.w0 A ∧ WellFormed P.w1 B ∧ UniqueLive P.k0 A ∧ UniqueLive P.k1 B ∧
      specFull P A B ≠ specUnionG P false A (specLeft P.swap B A) :=
  ⟨exP, exA, exB, by unfold Plan.ok WellFormed; decide⟩

/-! ### P4 — joins compose: the result again has unique live keys -/

/-- **The result of every join satisfies the precondition again** (at the key positions `P.k0`:
    the columns of the first table come first in the result). -/
theorem result_unique_live (t : JoinType) (P : Plan) (A B : Table) (hP : P.ok)
    (hA : WellFormed P.w0 A) (hu0 : UniqueLive P.k0 A) (hu1 : UniqueLive P.k1 B) :
    UniqueLive P.k0 (spec t P A B) := by
  cases t
  · exact uniqueLive_specInner P A B hP.2.1 hA hu0
  · exact uniqueLive_specLeft P A B hP.2.1 hA hu0
  · exact uniqueLive_specUnionG P false A B hP hA hu0 hu1
  · exact uniqueLive_specFull P A B hP hA hu0 hu1

example : liveKeys exP.k0 (spec .full exP exA exB) = [[3], [1], [5]] ∧
    liveKeys exP.k0 (spec .left exP exA exB) = [[1], [3]] := by decide

/-- **Left join keeps the live keys of the first table**, row by row. -/
theorem liveKeys_left (P : Plan) (A B : Table) (hk : ∀ j ∈ P.k0, j < P.w0.length)
    (hA : WellFormed P.w0 A) : liveKeys P.k0 (specLeft P A B) = liveKeys P.k0 A :=
  liveKeys_specLeft P A B hk hA

example : liveKeys exP.swap.k0 (specLeft exP.swap exB exA) = [[1], [5]] := by decide

/-- **Union (both forms) on a second table with unique live keys** — no shape condition on the
    second table: this is the instance used by the full join, whose second table is `left(b, a)`. -/
theorem union_unique_live (P : Plan) (s : Bool) (A L : Table) (hP : P.ok)
    (hA : WellFormed P.w0 A) (hu0 : UniqueLive P.k0 A) (hu1 : UniqueLive P.k1 L) :
    UniqueLive P.k0 (specUnionG P s A L) :=
  uniqueLive_specUnionG P s A L hP hA hu0 hu1

example : UniqueLive exP.k1 (specLeft exP.swap exB exA) ∧
    liveKeys exP.k0 (specUnionG exP true exA (specLeft exP.swap exB exA)) = [[3], [1], [5]] := by
  decide

/-! ### P5 — structural facts about the specification -/

/-- **Inner join, live rows**: the rows of the result with null flag one are the rows of `A` that
    have a live match in `B`, in the order of `A`, merged with their match. -/
theorem inner_live_rows (P : Plan) (A B : Table) :
    (specInner P A B).filter (·.null) = A.filterMap (fun a => (matchOf P B a).map (merged P a)) :=
  specInner_filter_null P A B

example : (specInner exP exA exB).filter (·.null) =
    [⟨true, [⟨true, [1]⟩, ⟨true, [10, 11]⟩, ⟨true, [7]⟩]⟩] := by decide

/-- **Inner join, null column**: row `i` of the result is present iff row `i` of `A` has a match. -/
theorem inner_null (P : Plan) (A B : Table) :
    (specInner P A B).map (·.null) = A.map (fun a => (matchOf P B a).isSome) :=
  specInner_map_null P A B

example : exA.map (fun a => (matchOf exP exB a).isSome) = [true, false, false, false] := by decide

/-- **Left join keeps every row of `A` at its position** (null column unchanged). -/
theorem left_null (P : Plan) (A B : Table) : (specLeft P A B).map (·.null) = A.map (·.null) :=
  specLeft_map_null P A B

example : exA.map (·.null) = [true, false, true, true] := by decide

/-- **Left join, row by row**: a present row of `A` starts with its own (mask-cleaned) columns,
    followed by the non-key columns of its match, or by zero entries when there is no match; an
    absent row is a zero row. -/
theorem left_row (P : Plan) (A B : Table) (i : Nat) :
    (specLeft P A B)[i]? = A[i]?.map (fun a =>
      if a.null then
        (⟨true, copyRow P.w0 a ++
          (match matchOf P B a with | some b => copyNonkey P b | none => zerosExtra P)⟩ : Row)
      else zeroRow (resW P)) :=
  specLeft_getElem? P A B i

example : (specLeft exP exA exB)[3]? = some ⟨true, [⟨true, [3]⟩, ⟨false, [0, 0]⟩, ⟨false, [0]⟩]⟩ := by
  decide

/-- **Union join, first part, live rows**: the present rows of `A` without a match, padded. -/
theorem union_first_live_rows (P : Plan) (A B : Table) :
    (notInInner P A B).filter (·.null) =
      (A.filter (fun a => a.null && (matchOf P B a).isNone)).map (padded P) :=
  notInInner_filter_null P A B

example : (exA.filter (fun a => a.null && (matchOf exP exB a).isNone)) = [exA[2], exA[3]] := by decide

/-- **Union join layout** (by definition): first part as above, then one row per row of `B`. -/
theorem union_layout (P : Plan) (A B : Table) :
    specUnion P A B =
      notInInner P A B ++ B.map fun b => if b.null then liftRow P false b else zeroRow (resW P) := rfl

/-- **Union join: a matched row of `A` is emptied** in the first part. -/
theorem union_matched_zero (P : Plan) (A B : Table) (i : Nat) (a b : Row)
    (ha : A[i]? = some a) (hm : matchOf P B a = some b) :
    (notInInner P A B)[i]? = some (zeroRow (resW P)) :=
  notInInner_getElem?_matched P A B i a b ha hm

example : exA[0]? = some exA[0] ∧ matchOf exP exB exA[0] = some exB[0] := by decide

/-- **Null rows and rows with a masked key of the second table are ignored by matching.** -/
theorem findMatch_filter_live (ks : List Nat) (T : Table) (k : List Int) :
    findMatch ks (T.filter (live ks)) k = findMatch ks T k :=
  Join.findMatch_filter_live ks T k

example : exB.filter (live exP.k1) = [exB[0], exB[2]] := by decide

/-- Inner join does not depend on the rows of `B` that are not live. -/
theorem inner_filter_live (P : Plan) (A B : Table) :
    specInner P A (B.filter (live P.k1)) = specInner P A B :=
  specInner_filter_live P A B

/-- Left join does not depend on the rows of `B` that are not live. -/
theorem left_filter_live (P : Plan) (A B : Table) :
    specLeft P A (B.filter (live P.k1)) = specLeft P A B :=
  specLeft_filter_live P A B

example : specLeft exP exA [exB[0], exB[2]] = specLeft exP exA exB := by decide

/-- **A row of `A` that is not live never matches.** -/
theorem not_live_no_match (P : Plan) (B : Table) (a : Row) (h : live P.k0 a = false) :
    matchOf P B a = none :=
  matchOf_of_not_live B h

example : live exP.k0 exA[2] = false ∧ rowKey exP.k0 exA[2] = rowKey exP.k1 exB[0] := by decide

/-- **Null markers**: zero-filled rows are absent, merged / padded / lifted rows are present, and a
    zero row never takes part in matching. -/
theorem null_markers (P : Plan) (s : Bool) (a b : Row) (oa : Option Row) (ws ks : List Nat) :
    (zeroRow ws).null = false ∧ (merged P a b).null = true ∧ (padded P a).null = true ∧
      (liftRow P s b).null = true ∧ (mergedB P b oa).null = true ∧ live ks (zeroRow ws) = false :=
  ⟨rfl, rfl, rfl, rfl, rfl, live_zeroRow ks ws⟩

example : zeroRow [1, 2] = ⟨false, [⟨false, [0]⟩, ⟨false, [0, 0]⟩]⟩ := by decide

end CCV.C19
