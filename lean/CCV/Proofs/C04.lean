import CCV.Model.PrfIds
/-
  C04 — every pseudo-random mask is fresh: PRF counters are pairwise distinct.
-/
namespace CCV.C04
open CCV.PrfIds

theorem renumberGraph_ivs : ∀ (c : Nat) (g : List (Option Nat)),
    (renumberGraph c g).2.filterMap id = (List.range' (c + 1) (g.filterMap id).length)
    ∧ (renumberGraph c g).1 = c + (g.filterMap id).length
  | c, [] => by simp [renumberGraph]
  | c, none :: ns => by
    have ih := renumberGraph_ivs c ns
    simp only [renumberGraph, List.filterMap_cons, id]
    exact ih
  | c, some v :: ns => by
    have ih := renumberGraph_ivs (c + 1) ns
    simp only [renumberGraph, List.filterMap_cons, id, List.length_cons, List.range'_succ]
    refine ⟨?_, ?_⟩
    · rw [ih.1]
    · rw [ih.2]; omega

/-- renumbering changes nothing but the counters: same length, PRF nodes stay PRF nodes in place -/
theorem renumberGraph_shape : ∀ (c : Nat) (g : List (Option Nat)),
    (renumberGraph c g).2.map Option.isSome = g.map Option.isSome
  | c, [] => by simp [renumberGraph]
  | c, none :: ns => by simp [renumberGraph, renumberGraph_shape c ns]
  | c, some v :: ns => by simp [renumberGraph, renumberGraph_shape (c + 1) ns]

theorem uniquify_ivs : ∀ (c : Nat) (gs : List (List (Option Nat))),
    ivs (uniquify c gs) = List.range' (c + 1) (ivs gs).length
  | c, [] => by simp [uniquify, ivs]
  | c, g :: gs => by
    have h := renumberGraph_ivs c g
    have ih := uniquify_ivs (renumberGraph c g).1 gs
    simp only [uniquify, ivs, List.flatMap_cons, List.length_append] at *
    rw [h.1, ih, h.2]
    have e : c + (List.filterMap id g).length + 1 = c + 1 + (List.filterMap id g).length := by omega
    rw [e, List.range'_append_1]

/-- **After `uniquify_prf_id` the PRF counters of a context are exactly 1, 2, …, n** (n = number of
    PRF nodes), for every context — in particular pairwise distinct. -/
theorem uniquify_exact (gs : List (List (Option Nat))) :
    ivs (uniquify 0 gs) = List.range' 1 (ivs gs).length := by
  simpa using uniquify_ivs 0 gs

theorem uniquify_nodup (gs : List (List (Option Nat))) : (ivs (uniquify 0 gs)).Nodup := by
  rw [uniquify_exact]; exact List.nodup_range'

/-- `strictInc` is a sound certificate of distinctness -/
theorem strictInc_lt : ∀ (l : List Nat) (a : Nat), strictInc (a :: l) = true → ∀ b ∈ l, a < b
  | [], _, _ => by simp
  | b :: rest, a, h => by
    simp only [strictInc, Bool.and_eq_true, decide_eq_true_eq] at h
    intro x hx
    simp only [List.mem_cons] at hx
    rcases hx with rfl | hx
    · exact h.1
    · exact Nat.lt_trans h.1 (strictInc_lt rest b h.2 x hx)

theorem strictInc_tail : ∀ (l : List Nat) (a : Nat), strictInc (a :: l) = true → strictInc l = true
  | [], _, _ => rfl
  | b :: rest, a, h => by
    simp only [strictInc, Bool.and_eq_true] at h; exact h.2

theorem strictInc_nodup : ∀ (l : List Nat), strictInc l = true → l.Nodup
  | [], _ => List.nodup_nil
  | a :: l, h => by
    refine List.nodup_cons.mpr ⟨?_, strictInc_nodup l (strictInc_tail l a h)⟩
    intro hmem
    exact Nat.lt_irrefl a (strictInc_lt l a h a hmem)

theorem nodupB_nodup : ∀ (l : List Nat), nodupB l = true → l.Nodup
  | [], _ => List.nodup_nil
  | a :: l, h => by
    simp only [nodupB, Bool.and_eq_true, Bool.not_eq_true', List.contains_eq_mem, decide_eq_false_iff_not] at h
    exact List.nodup_cons.mpr ⟨h.1, nodupB_nodup l h.2⟩

/-- non-vacuity: a context with two graphs, five PRF nodes all created with the placeholder 0 -/
example : ivs (uniquify 0 [[some 0, none, some 0], [none, some 0, some 0, some 0]]) = [1, 2, 3, 4, 5] := by
  decide
example : strictInc [1, 2, 5, 9] = true ∧ strictInc [1, 2, 2] = false := by decide

end CCV.C04
