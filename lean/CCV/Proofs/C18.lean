import CCV.Lemmas.SortFinal
/-
  C18 — sorting is a stable sort; permutation application and inversion agree.
  Theorems about the model `CCV/Model/Sort.lean` (the functions the driver executes).
-/
namespace CCV.C18
open CCV.Sort

/-! ### (1) the plaintext sorting permutation is THE stable sorting permutation -/

/-- `get_sorting_permutation` returns a permutation of the row indices `0..n-1` in which every
    earlier entry precedes every later one in the order (key lexicographically, input position on
    equal keys): sorted and stable.  Any number of rows, any row lengths and entries. -/
theorem sortPerm_is_stable_sort (keys : List (List Nat)) : IsStableSortPerm keys (sortPerm keys) :=
  sortPerm_spec keys

example : IsStableSortPerm [[1, 0], [0, 1], [1, 0], [0, 1]] [1, 3, 0, 2] ∧
    sortPerm [[1, 0], [0, 1], [1, 0], [0, 1]] = [1, 3, 0, 2] :=
  ⟨by have := sortPerm_spec [[1, 0], [0, 1], [1, 0], [0, 1]]; exact this, by decide⟩

/-- uniqueness: whatever list has these properties is the one the evaluator computes -/
theorem sortPerm_unique (keys : List (List Nat)) (p : List Nat) (h : IsStableSortPerm keys p) :
    p = sortPerm keys :=
  stableSortPerm_unique keys p _ h (sortPerm_spec keys)

example : ¬ IsStableSortPerm [[1], [0], [1], [0]] [3, 1, 0, 2] := by
  intro h
  have := sortPerm_unique _ _ h
  revert this
  decide

/-- it is a permutation of `0..n-1` -/
theorem sortPerm_perm (keys : List (List Nat)) : (sortPerm keys).Perm (List.range keys.length) :=
  CCV.Sort.sortPerm_perm keys

/-- the gathered key column is sorted: non-decreasing lexicographic rows (index 0 first) -/
theorem sortPerm_sorted (keys : List (List Nat)) :
    ∃ sorted, gather keys (sortPerm keys) = some sorted ∧
      sorted.Pairwise (fun a b => lexLt b a = false) := by
  have hp := sortPerm_spec keys
  obtain ⟨s, hs⟩ := gather_exists keys (sortPerm keys) (fun i hi => perm_range_lt hp.1 i hi)
  refine ⟨s, hs, ?_⟩
  rw [List.pairwise_iff_getElem]
  intro i j hi hj hij
  have hl := gather_length hs
  have h1 := List.pairwise_iff_getElem.mp hp.2 i j (by omega) (by omega) hij
  have gi := gather_get hs i _ (List.getElem?_eq_getElem (by omega : i < (sortPerm keys).length))
  have gj := gather_get hs j _ (List.getElem?_eq_getElem (by omega : j < (sortPerm keys).length))
  have ei : keys.getD (sortPerm keys)[i] [] = s[i] := by
    rw [List.getD_eq_getElem?_getD, ← gi.1, List.getElem?_eq_getElem hi]; rfl
  have ej : keys.getD (sortPerm keys)[j] [] = s[j] := by
    rw [List.getD_eq_getElem?_getD, ← gj.1, List.getElem?_eq_getElem hj]; rfl
  unfold stableLt at h1
  rw [ei, ej] at h1
  rcases h1 with h1 | ⟨h1, _⟩
  · exact lexLt_asymm _ _ h1
  · rw [h1]; exact lexLt_irrefl _

example : gather [[1, 0], [0, 1], [1, 0], [0, 1]] (sortPerm [[1, 0], [0, 1], [1, 0], [0, 1]]) =
    some [[0, 1], [0, 1], [1, 0], [1, 0]] := by decide

/-- stability: rows with equal keys keep their input order -/
theorem sortPerm_stable (keys : List (List Nat)) (i j : Nat) (hij : i < j)
    (hj : j < (sortPerm keys).length)
    (heq : keys.getD (sortPerm keys)[i] [] = keys.getD (sortPerm keys)[j] []) :
    (sortPerm keys)[i] < (sortPerm keys)[j] := by
  have h1 := List.pairwise_iff_getElem.mp (sortPerm_spec keys).2 i j (by omega) hj hij
  rcases h1 with h1 | ⟨_, h1⟩
  · rw [heq, lexLt_irrefl] at h1; cases h1
  · exact h1

example : sortPerm [[1], [1], [0], [1], [0]] = [2, 4, 0, 1, 3] := by decide

/-! ### (2) the same permutation on every column -/

/-- `Sort` succeeds exactly with the list of columns each gathered by the one `sortPerm keys` -/
theorem sort_same_perm_every_column {α : Type} (keys : List (List Nat)) (cols out : List (List α))
    (h : sortColumns keys cols = some out) :
    out.length = cols.length ∧
      ∀ c (hc : c < cols.length), ∃ o, out[c]? = some o ∧ gather cols[c] (sortPerm keys) = some o := by
  have h1 := (allSome_eq_some _ _).mp h
  have hl : out.length = cols.length := by simpa using (congrArg List.length h1).symm
  refine ⟨hl, fun c hc => ?_⟩
  have h2 := congrArg (·[c]?) h1
  simp only [List.getElem?_map, List.getElem?_eq_getElem hc, Option.map_some] at h2
  have hc' : c < out.length := by omega
  rw [List.getElem?_eq_getElem hc'] at h2 ⊢
  simp only [Option.map_some, Option.some.injEq] at h2
  exact ⟨out[c], rfl, h2⟩

example : sortColumns [[1], [0], [1], [0]] [[[10], [11], [12], [13]], [[1, 2], [3, 4], [5, 6], [7, 8]]] =
    some [[[11], [13], [10], [12]], [[3, 4], [7, 8], [1, 2], [5, 6]]] := by decide

/-! ### (3) LSD radix sort by chunks = stable sort by the whole key -/

/-- The radix loop of `RadixSortMPC` (stable counting sorts by chunk, least significant first, a
    first chunk of `b mod chunk` bits, composed as rank permutations, with arbitrary shuffles)
    yields the rank permutation of the stable order by the whole key: for every number of rows,
    key width `b`, chunk size (0 included: one chunk) and shuffles. -/
theorem radixRank_eq_stableRank {b : Nat} {keys : List (List Nat)} (hw : KeysOk b keys) (chunk : Nat)
    (pis : List (List Nat)) (hpis : ∀ pi ∈ pis, pi.Perm (List.range keys.length)) :
    radixRank chunk b keys pis = some (stableRank keys) ∧
      (stableRank keys).Perm (List.range keys.length) ∧
      InvRel (sortPerm keys) (stableRank keys) :=
  ⟨radixRank_spec hw chunk pis hpis, stableRank_perm keys, stableRank_inv_sortPerm keys⟩

/-- …and the secure sort (radix rank, then Algorithm 13 per column) returns exactly the columns
    of the plaintext `Sort`. -/
theorem radixSort_eq_sort {α : Type} {b : Nat} {keys : List (List Nat)} (hw : KeysOk b keys)
    (chunk : Nat) (pis : List (List Nat)) (hpis : ∀ pi ∈ pis, pi.Perm (List.range keys.length))
    (piLast : List Nat) (hpl : piLast.Perm (List.range keys.length))
    (cols : List (List α)) (hcols : ∀ c ∈ cols, c.length = keys.length) :
    radixSort chunk b keys pis piLast cols = sortColumns keys cols :=
  radixSort_eq_sortColumns hw chunk pis hpis piLast hpl cols hcols

example : radixSort 2 3 [[1, 0, 1], [0, 1, 1], [1, 0, 1], [0, 0, 0], [0, 1, 1]] [[2, 0, 1, 4, 3]] [4, 3, 2, 1, 0]
    [[0, 1, 2, 3, 4]] = some [[3, 1, 4, 0, 2]] ∧
    sortColumns [[1, 0, 1], [0, 1, 1], [1, 0, 1], [0, 0, 0], [0, 1, 1]] [[0, 1, 2, 3, 4]] = some [[3, 1, 4, 0, 2]] ∧
    KeysOk 3 [[1, 0, 1], [0, 1, 1], [1, 0, 1], [0, 0, 0], [0, 1, 1]] := by
  refine ⟨by decide, by decide, ?_⟩
  intro r hr
  simp only [List.mem_cons, List.not_mem_nil, or_false] at hr
  rcases hr with rfl | rfl | rfl | rfl | rfl <;> exact ⟨rfl, by intro x hx; simp at hx; omega⟩

/-- one round in isolation: stable sort by the low part, then stable counting sort by the next
    chunk = stable sort by (chunk, low part), for every strict total order `lt` of the rows -/
theorem radixRound_composes {n : Nat} {lt : Nat → Nat → Bool} (hs : IsSTO lt) {pi col : List Nat}
    (hpi : pi.Perm (List.range n)) (hcol : col.length = n) :
    radixRound pi (rankOf lt n) col = some (rankOf (lexStep (col.getD · 0) lt) n) :=
  radixRound_spec hs hpi hcol

/-! ### (4) integer keys -/

/-- `integer_to_bits` is strictly order preserving (and injective) on the values of every scalar
    type: unsigned and signed of any width `w ≥ 1` (MSB flip), and `BIT` (`w = 0`) -/
theorem intKeyBits_order (signed : Bool) (w : Nat) (x y : Int) (hx : InRange signed w x)
    (hy : InRange signed w y) :
    (lexLt (intKeyBits signed w x) (intKeyBits signed w y) = true ↔ x < y) ∧
    (intKeyBits signed w x = intKeyBits signed w y ↔ x = y) :=
  intKey_order signed w x y hx hy

example : intKeyBits true 8 (-1) = [0, 1, 1, 1, 1, 1, 1, 1] ∧ intKeyBits true 8 5 = [1, 0, 0, 0, 0, 1, 0, 1] ∧
    InRange true 8 (-1) ∧ InRange true 8 5 ∧ sortPermInt true 8 [-1, 5, -128, 127, 5] = [2, 0, 1, 4, 3] := by
  refine ⟨by decide, by decide, ?_, ?_, by decide⟩ <;> simp [InRange]

/-! ### (5) permutations -/

/-- the validity test of `InversePermutation` (`sort; dedup; len` and the range check) accepts
    exactly the permutations of `0..n-1` -/
theorem isPerm_iff_perm (p : List Nat) : isPerm p = true ↔ p.Perm (List.range p.length) :=
  isPerm_iff p

/-- `InversePermutation` succeeds exactly on permutations of `0..n-1` -/
theorem inversePerm_isSome_iff (p : List Nat) :
    (∃ q, inversePerm p = some q) ↔ p.Perm (List.range p.length) := by
  constructor
  · rintro ⟨q, h⟩; exact inversePerm_some h
  · intro h; obtain ⟨q, hq, _⟩ := inversePerm_spec h; exact ⟨q, hq⟩

/-- the validity test of `ApplyPermutation` accepts exactly the permutations of `0..n-1` -/
theorem isPermApply_iff_perm (n : Nat) (p : List Nat) (hl : p.length = n) :
    isPermApply n p = true ↔ p.Perm (List.range n) :=
  isPermApply_iff n p hl

example : isPerm [2, 0, 1] = true ∧ isPerm [2, 0, 0] = false ∧ isPerm [0, 1, 3] = false ∧
    isPermApply 3 [2, 0, 0] = false ∧ isPermApply 3 [0, 1, 3] = false ∧ isPermApply 3 [1, 2, 0] = true := by
  decide

/-- the result of `InversePermutation` is a permutation and a two-sided inverse -/
theorem inversePerm_inverts {n : Nat} {p : List Nat} (hp : p.Perm (List.range n)) :
    ∃ q, inversePerm p = some q ∧ q.Perm (List.range n) ∧ InvRel p q ∧ InvRel q p :=
  inversePerm_spec hp

/-- `inversePerm (inversePerm p) = p` -/
theorem inversePerm_involutive {n : Nat} {p : List Nat} (hp : p.Perm (List.range n)) :
    (inversePerm p).bind inversePerm = some p := by
  obtain ⟨q, hq, hqp, _, h2⟩ := inversePerm_spec hp
  obtain ⟨r, hr, hrp, h3, _⟩ := inversePerm_spec hqp
  have : p = r := invRel_unique hqp (perm_range_length hp) (perm_range_length hrp) h2 h3
  rw [← this] at hr
  simp [hq, hr]

example : (inversePerm [2, 0, 3, 1]).bind inversePerm = some [2, 0, 3, 1] ∧
    inversePerm [2, 0, 3, 1] = some [1, 3, 0, 2] := by decide

/-- `apply_inverse_permutation(apply_permutation(a, p), p) = a` for every permutation `p` and
    every array `a` (rows of any type) -/
theorem applyInverse_apply {α : Type} (p : List Nat) (a : List α) (hp : p.Perm (List.range a.length)) :
    (applyPerm p a).bind (applyInversePerm p) = some a := by
  obtain ⟨b, hb, hbl, hb2⟩ := applyPerm_spec hp
  obtain ⟨c, hc, hcl, hc2⟩ := applyInversePerm_spec (p := p) (a := b) (by rw [hbl]; exact hp)
  have : c = a := by
    apply List.ext_getElem?
    intro j
    by_cases hj : j < a.length
    · obtain ⟨k, _, hk⟩ := perm_range_surj hp j hj
      rw [hc2 k j hk, hb2 k j hk]
    · rw [List.getElem?_eq_none (by omega), List.getElem?_eq_none (by omega)]
  simp [hb, hc, this]

/-- `apply_permutation(apply_inverse_permutation(a, p), p) = a` -/
theorem apply_applyInverse {α : Type} (p : List Nat) (a : List α) (hp : p.Perm (List.range a.length)) :
    (applyInversePerm p a).bind (applyPerm p) = some a := by
  obtain ⟨b, hb, hbl, hb2⟩ := applyInversePerm_spec hp
  obtain ⟨c, hc, hcl, hc2⟩ := applyPerm_spec (p := p) (a := b) (by rw [hbl]; exact hp)
  have : c = a := by
    apply List.ext_getElem?
    intro k
    by_cases hk : k < a.length
    · have hkp : k < p.length := by rw [perm_range_length hp]; exact hk
      have hpk := List.getElem?_eq_getElem hkp
      rw [hc2 k _ hpk, hb2 k _ hpk]
    · rw [List.getElem?_eq_none (by omega), List.getElem?_eq_none (by omega)]
  simp [hb, hc, this]

/-- whenever `ApplyPermutation` accepts its (type-correct: `p.length = n`) permutation operand,
    the operand is a permutation, so both round trips hold; otherwise it is an error -/
theorem applyPermOp_accepts_iff {α : Type} (inv : Bool) (p : List Nat) (a : List α)
    (hl : p.length = a.length) :
    (∃ b, applyPermOp inv a p = some b) ↔ p.Perm (List.range a.length) := by
  constructor
  · rintro ⟨b, h⟩; exact applyPermOp_some hl h
  · intro hp
    cases inv with
    | false => obtain ⟨b, hb, _⟩ := applyPerm_spec (a := a) hp; exact ⟨b, hb⟩
    | true => obtain ⟨b, hb, _⟩ := applyInversePerm_spec (a := a) hp; exact ⟨b, hb⟩

example : applyPerm [2, 0, 1, 1] [10, 20, 30, 40] = none ∧
    applyPerm [2, 0, 3, 1] [10, 20, 10, 40] = some [10, 10, 40, 20] ∧
    applyInversePerm [2, 0, 3, 1] [10, 10, 40, 20] = some [10, 20, 10, 40] := by decide

end CCV.C18
