import CCV.Lemmas.TypeInfer
import CCV.Lemmas.BroadcastAssoc
/-
  C09 — type inference is sound for evaluation; well-typed programs never crash.

  Shape-level soundness of the model `CCV.TI.infer` (= `process_node`) against the documented
  semantics, for shapes of every rank, plus the two "evaluator loop stays in range" facts
  (broadcasting, slicing).  The value-level statements `hasType (evalOp op vals) t` are in
  Proofs/C09Values.lean; the theorems here are about shapes — hence the names `…_shape_sound`.
-/
namespace CCV.C09
open CCV CCV.TV CCV.TI

/-! ### broadcasting (Add / Subtract / Multiply / MixedMultiply / Stack / batch dims of Matmul, Gemm) -/

/-- `broadcast_shapes` is commutative (result and acceptance). -/
theorem broadcast_comm (s1 s2 : List Nat) : broadcastShapes s1 s2 = broadcastShapes s2 s1 :=
  broadcastShapes_comm s1 s2

example : broadcastShapes [2, 1, 3] [4, 1] = .ok [2, 4, 3] ∧ broadcastShapes [4, 1] [2, 1, 3] = .ok [2, 4, 3] :=
  ⟨rfl, rfl⟩

/-- `broadcast_shapes` is idempotent: a shape broadcasts with itself to itself. -/
theorem broadcast_idem (s : List Nat) : broadcastShapes s s = .ok s := broadcastShapes_idem s

example : broadcastShapes [7, 1, 2] [7, 1, 2] = .ok [7, 1, 2] := rfl

/-- documented rank of the result: the larger of the two ranks. -/
theorem broadcast_rank {s1 s2 r : List Nat} (h : broadcastShapes s1 s2 = .ok r) :
    r.length = (if s1.length ≤ s2.length then s2.length else s1.length) := broadcastShapes_length h

/-- documented NumPy rule, and the in-range half for the evaluator (`broadcast_to_shape` reads the
    operand at `index[i] % d`): for operands with positive dimensions, at every position `j` of the
    result the right-aligned operand dimension `d` (1 where the operand has no dimension) is either
    the result dimension — then every result digit `x < r[j]` is used unchanged — or `1` — then the
    digit maps to `0`; in both cases the operand digit `x % d` is in range, for both operands. -/
theorem broadcast_index_in_range {s1 s2 r : List Nat} (h1 : ∀ d ∈ s1, 0 < d) (h2 : ∀ d ∈ s2, 0 < d)
    (h : broadcastShapes s1 s2 = .ok r) (j : Nat) (hj : j < r.length) (x : Nat) (hx : x < r[j]) :
    (x % dimAt s1 (r.length - s1.length) j < dimAt s1 (r.length - s1.length) j ∧
      (x % dimAt s1 (r.length - s1.length) j = x ∨ x % dimAt s1 (r.length - s1.length) j = 0)) ∧
    (x % dimAt s2 (r.length - s2.length) j < dimAt s2 (r.length - s2.length) j ∧
      (x % dimAt s2 (r.length - s2.length) j = x ∨ x % dimAt s2 (r.length - s2.length) j = 0)) := by
  obtain ⟨a, b, _⟩ := broadcastShapes_dims h1 h2 h j hj
  constructor
  · rcases a with a | a
    · rw [a]; exact ⟨Nat.mod_lt _ (by omega), Or.inl (Nat.mod_eq_of_lt hx)⟩
    · rw [a]; exact ⟨by omega, Or.inr (Nat.mod_one x)⟩
  · rcases b with b | b
    · rw [b]; exact ⟨Nat.mod_lt _ (by omega), Or.inl (Nat.mod_eq_of_lt hx)⟩
    · rw [b]; exact ⟨by omega, Or.inr (Nat.mod_one x)⟩

example : (∀ d ∈ [2, 1, 3], 0 < d) ∧ broadcastShapes [2, 1, 3] [4, 1] = .ok [2, 4, 3] ∧
    dimAt [4, 1] (3 - 2) 0 = 1 ∧ dimAt [4, 1] (3 - 2) 1 = 4 ∧ dimAt [2, 1, 3] 0 1 = 1 := by
  refine ⟨by decide, rfl, rfl, rfl, rfl⟩

/-- each padded operand dimension really is the operand's own dimension (right-aligned). -/
theorem broadcast_dim_is_operand_dim (s : List Nat) (off j : Nat) (h1 : off ≤ j) (h2 : j - off < s.length) :
    dimAt s off j = s[j - off] := dimAt_eq_getElem s off j h1 h2

/-- well-formedness preservation: positive operand dimensions give positive result dimensions, and
    the result is non-empty as soon as one operand is. -/
theorem broadcast_wf {s1 s2 r : List Nat} (h1 : ∀ d ∈ s1, 0 < d) (h2 : ∀ d ∈ s2, 0 < d)
    (h : broadcastShapes s1 s2 = .ok r) : (∀ d ∈ r, 0 < d) ∧ (s1 ≠ [] ∨ s2 ≠ [] → r ≠ []) := by
  refine ⟨broadcastShapes_pos h1 h2 h, ?_⟩
  intro hne
  have hl := broadcastShapes_length h
  unfold maxLen at hl
  intro hr
  rw [hr] at hl
  simp only [List.length_nil] at hl
  rcases hne with hne | hne
  · cases s1 with
    | nil => exact hne rfl
    | cons a as => simp only [List.length_cons] at hl; split at hl <;> omega
  · cases s2 with
    | nil => exact hne rfl
    | cons a as => simp only [List.length_cons] at hl; split at hl <;> omega

/-- associativity-compatibility of broadcasting: for positive dimensions the two bracketings accept
    the same triples and agree. -/
def broadcast_assoc_Statement : Prop :=
  ∀ a b c : List Nat, (∀ d ∈ a, 0 < d) → (∀ d ∈ b, 0 < d) → (∀ d ∈ c, 0 < d) →
    (match broadcastShapes a b with
      | .ok ab => (broadcastShapes ab c).toOption
      | .error _ => none) =
    (match broadcastShapes b c with
      | .ok bc => (broadcastShapes a bc).toOption
      | .error _ => none)

/-- **broadcasting is associative** (all ranks, all positive dimensions): `(a·b)·c` and `a·(b·c)` are
    accepted for the same triples and give the same shape — the type of `x + y + z` does not depend on
    the bracketing (and neither does acceptance). -/
theorem broadcast_assoc : broadcast_assoc_Statement := broadcastShapes_assoc

example : broadcastShapes [3, 1] [4] = .ok [3, 4] ∧ broadcastShapes [3, 4] [2, 1, 1] = .ok [2, 3, 4] ∧
    broadcastShapes [4] [2, 1, 1] = .ok [2, 1, 4] ∧ broadcastShapes [3, 1] [2, 1, 4] = .ok [2, 3, 4] := ⟨rfl, rfl, rfl, rfl⟩

/-! ### slicing (GetSlice) -/

/-- documented slice length and range: an accepted `SubArray(b, e, s)` on a dimension `dim` yields
    `c ≥ 1` elements with `c = ⌈(end − begin)/step⌉` (`⌈(begin − end)/(−step)⌉` for a negative step)
    for the normalised triple, and all `begin + step·j`, `j < c`, are inside `[0, dim)`. -/
theorem slice_length_formula {dim : Nat} {b e s : Option Int} {r : Option Nat}
    (h : sliceShape1d dim (.sub b e s) = .ok r) :
    ∃ bg en st c, normalizeSub dim b e s = .ok (bg, en, st) ∧ r = some c ∧ 0 < c ∧ st ≠ 0 ∧
      (∀ j : Nat, j < c → 0 ≤ bg + st * (j : Int) ∧ bg + st * (j : Int) < dim) ∧
      (0 < st → (c : Int) = (en - bg + st - 1) / st) ∧
      (st < 0 → (c : Int) = (bg - en + (-st) - 1) / (-st)) := sliceShape1d_sub_spec h

example : sliceShape1d 10 (.sub (some 8) (some 1) (some (-3))) = .ok (some 3) ∧
    normalizeSub 10 (some 8) (some 1) (some (-3)) = .ok (8, 1, -3) ∧ ((8 - 1 + 3 - 1) / 3 : Int) = 3 := by
  refine ⟨rfl, rfl, by decide⟩

/-- `slice_1d_index` of every result position of an accepted 1-d slice is in `[0, dim)`. -/
theorem slice_1d_index_in_range {dim : Nat} {b e s : Option Int} {c : Nat}
    (h : sliceShape1d dim (.sub b e s) = .ok (some c)) (j : Nat) (hj : j < c) :
    ∃ x, slice1dIndex dim b e s j = .ok x ∧ x < dim := slice1dIndex_in_range h j hj

example : slice1dIndex 10 (some 8) (some 1) (some (-3)) 2 = .ok 2 := rfl

/-- `register_result`: whatever `process_node` accepts (for every operation that registers its
    result) is a valid type (`Type::is_valid`, including unique field names and the u64 size bound). -/
theorem infer_valid {op : Op} {tys : List Ty} {t : Ty} (h : infer op tys = .ok t) (hr : registers op = true) :
    t.isValid = true := by
  unfold infer at h
  by_cases hc : arityOk op tys.length = false
  · rw [if_pos hc] at h; cases h
  · rw [if_neg hc] at h
    cases hraw : inferRaw op tys with
    | error e => rw [hraw] at h; cases h
    | ok t' =>
      rw [hraw] at h
      simp only [] at h
      by_cases hv : registers op = true ∧ t'.isValid = false
      · rw [if_pos hv] at h; cases h
      · rw [if_neg hv] at h
        injection h with h
        subst h
        cases hval : t'.isValid with
        | true => rfl
        | false => exact absurd ⟨hr, hval⟩ hv

example : infer (.zeros (.array [2, 0] .u8)) [] = .error "Invalid type" ∧
    infer (.reshape (.array [] .u8)) [.scalar .u8] = .error "Trying to register invalid type" ∧
    infer (.repeat_ 2) [.array [3] .bit] = .ok (.vector 2 (.array [3] .bit)) := ⟨rfl, rfl, rfl⟩

/-- every index of the result of an accepted `GetSlice` (all ranks, negative indices / steps,
    ellipsis) maps through `slice_index` to an in-range index of the operand: the evaluator's
    `dependency_value[j]` never goes out of range. -/
theorem sliceIndex_in_range {shape : List Nat} {sl : List SliceEl} {rs : List Nat}
    (h : getSliceShape shape sl = .ok rs) (index : List Nat) (hlen : index.length = rs.length)
    (hi : ∀ i (h : i < rs.length), index.getD i 0 < rs[i]) :
    ∃ src, sliceIndex shape sl index = .ok src ∧ src.length = shape.length ∧
      ∀ i (h : i < src.length), src[i] < shape.getD i 0 := by
  unfold getSliceShape at h
  cases hc : getCleanSlice shape.length sl with
  | error e => rw [hc] at h; cases h
  | ok clean =>
    rw [hc] at h
    simp only [] at h
    obtain ⟨src, h1, h2, h3⟩ := sliceIndexGo_in_range index shape clean rs 0 h (by omega) (by simpa using hi)
    refine ⟨src, ?_, h2, h3⟩
    unfold sliceIndex
    rw [hc]
    simp only []
    rw [h1]
    simp only []
    split
    · rfl
    · rw [if_neg (by omega)]

example : getSliceShape [10, 4, 3] [.sub (some (-1)) (some 1) (some (-3)), .ellipsis, .single (-1)] = .ok [3, 4] ∧
    sliceIndex [10, 4, 3] [.sub (some (-1)) (some 1) (some (-3)), .ellipsis, .single (-1)] [2, 3] = .ok [3, 3, 2] := ⟨rfl, rfl⟩

/-- the same when the result is a scalar (the evaluator then uses the single index `[0]`). -/
theorem sliceIndex_scalar_in_range {shape : List Nat} {sl : List SliceEl}
    (h : getSliceShape shape sl = .ok []) :
    ∃ src, sliceIndex shape sl [0] = .ok src ∧ src.length = shape.length ∧
      ∀ i (h : i < src.length), src[i] < shape.getD i 0 := by
  unfold getSliceShape at h
  cases hc : getCleanSlice shape.length sl with
  | error e => rw [hc] at h; cases h
  | ok clean =>
    rw [hc] at h
    simp only [] at h
    obtain ⟨src, h1, h2, h3⟩ := sliceIndexGo_in_range [0] shape clean [] 0 h (by simp) (by intro i h; simp at h)
    refine ⟨src, ?_, h2, h3⟩
    unfold sliceIndex
    rw [hc]
    simp only []
    rw [h1]
    simp

example : getSliceShape [5, 2] [.single (-5), .single 1] = .ok [] ∧
    sliceIndex [5, 2] [.single (-5), .single 1] [0] = .ok [0, 1] := ⟨rfl, rfl⟩

/-! ### per-operation shape soundness: `infer op tys = ok t → t` = the documented result type -/

/-- CumSum keeps the type; the axis is in range. -/
theorem cumSum_shape_sound {ax : Nat} {s : List Nat} {st : ST} {t : Ty}
    (h : infer (.cumSum ax) [.array s st] = .ok t) : t = .array s st ∧ ax < s.length := by
  have h := infer_ok_raw h
  simp only [inferRaw, inferCumSum] at h
  by_cases hc : s.length ≤ ax
  · rw [if_pos hc] at h; cases h
  · rw [if_neg hc] at h
    injection h with h
    exact ⟨h.symm, by omega⟩

example : infer (.cumSum 2) [.array [2, 1, 3] .i64] = .ok (.array [2, 1, 3] .i64) := rfl

/-- Sum: accepted only for distinct in-range axes; the result keeps the dimensions that are not
    summed, in order (a scalar when none is left). -/
theorem sum_shape_sound {axes s : List Nat} {st : ST} {t : Ty}
    (h : infer (.sum axes) [.array s st] = .ok t) :
    hasDup axes = false ∧ (∀ a ∈ axes, a < s.length) ∧
    t = arrOrScalar (((s.zipIdx 0).filter (fun p => !axes.contains p.2)).map (·.1)) st := by
  have h := infer_ok_raw h
  simp only [inferRaw, inferSum] at h
  cases hd : hasDup axes with
  | true => simp [hd] at h
  | false =>
    simp only [hd] at h
    cases ha : axes.any (fun x => decide (s.length ≤ x)) with
    | true => simp [ha] at h
    | false =>
      simp only [ha] at h
      simp only [Bool.false_eq_true, if_false] at h
      injection h with h
      refine ⟨rfl, ?_, ?_⟩
      · intro a hmem
        have := List.any_eq_false.mp ha a hmem
        simpa using this
      · rw [← dropAxes_spec]; exact h.symm

example : infer (.sum [2, 0]) [.array [2, 5, 3] .u16] = .ok (.array [5] .u16) ∧
    infer (.sum [1, 0]) [.array [2, 5] .u16] = .ok (.scalar .u16) := ⟨rfl, rfl⟩

/-- Sum over no axis returns the operand's type unchanged. -/
theorem sum_empty_axes {s : List Nat} {st : ST} {t : Ty}
    (h : infer (.sum []) [.array s st] = .ok t) (hs : s ≠ []) : t = .array s st := by
  have h := infer_ok_raw h
  simp only [inferRaw, inferSum, hasDup, List.any_nil, dropAxes_nil] at h
  simp only [Bool.false_eq_true, if_false] at h
  injection h with h
  rw [← h]
  unfold arrOrScalar
  cases s with
  | nil => exact absurd rfl hs
  | cons d ds => rfl

example : infer (.sum []) [.array [2, 5] .bit] = .ok (.array [2, 5] .bit) := rfl

/-- PermuteAxes: `axes` is a permutation of the axes, result dimension `i` is operand dimension `axes[i]`. -/
theorem permuteAxes_shape_sound {axes s : List Nat} {st : ST} {t : Ty}
    (h : infer (.permuteAxes axes) [.array s st] = .ok t) :
    hasDup axes = false ∧ (∀ a ∈ axes, a < s.length) ∧ axes.length = s.length ∧
    t = .array (axes.map (fun i => s.getD i 0)) st := by
  have h := infer_ok_raw h
  simp only [inferRaw, inferPermuteAxes] at h
  cases hd : hasDup axes with
  | true => simp [hd] at h
  | false =>
    simp only [hd] at h
    cases ha : axes.any (fun x => decide (s.length ≤ x)) with
    | true => simp [ha] at h
    | false =>
      simp only [ha, Bool.false_eq_true, if_false] at h
      by_cases hl : axes.length ≠ s.length
      · rw [if_pos hl] at h; cases h
      · rw [if_neg hl] at h
        injection h with h
        refine ⟨rfl, ?_, by omega, h.symm⟩
        intro a hmem
        have := List.any_eq_false.mp ha a hmem
        simpa using this

example : infer (.permuteAxes [2, 0, 1]) [.array [2, 5, 3] .u8] = .ok (.array [3, 2, 5] .u8) := rfl

/-- Get: the index is a prefix of in-range positions, the result drops that many leading dimensions. -/
theorem get_shape_sound {idx s : List Nat} {st : ST} {t : Ty}
    (h : infer (.get idx) [.array s st] = .ok t) :
    idx.length ≤ s.length ∧ allLt idx s = true ∧
    t = (if idx.length = s.length then .scalar st else .array (s.drop idx.length) st) := by
  have h := infer_ok_raw h
  simp only [inferRaw, inferGet] at h
  by_cases h1 : s.length < idx.length
  · rw [if_pos h1] at h; cases h
  · rw [if_neg h1] at h
    cases h2 : allLt idx s with
    | false => simp [h2] at h
    | true =>
      simp only [h2, Bool.true_eq_false, if_false] at h
      refine ⟨by omega, rfl, ?_⟩
      split at h <;> rename_i hh
      · injection h with h; rw [if_pos hh]; exact h.symm
      · injection h with h; rw [if_neg hh]; exact h.symm

example : infer (.get [1]) [.array [2, 5, 3] .u8] = .ok (.array [5, 3] .u8) ∧
    infer (.get [1, 4, 2]) [.array [2, 5, 3] .u8] = .ok (.scalar .u8) := ⟨rfl, rfl⟩

/-- GetSlice: the result shape is `get_slice_shape` (scalar when no dimension is left). -/
theorem getSlice_shape_sound {sl : List SliceEl} {s : List Nat} {st : ST} {t : Ty}
    (h : infer (.getSlice sl) [.array s st] = .ok t) :
    ∃ rs, getSliceShape s sl = .ok rs ∧ t = arrOrScalar rs st := by
  have h := infer_ok_raw h
  simp only [inferRaw, inferGetSlice] at h
  cases hg : getSliceShape s sl with
  | error e => rw [hg] at h; cases h
  | ok rs =>
    rw [hg] at h
    injection h with h
    exact ⟨rs, rfl, h.symm⟩

example : infer (.getSlice [.sub none none (some (-2))]) [.array [5, 2] .i8] = .ok (.array [3, 2] .i8) := rfl

/-- documented result of `matmul` for operands of rank ≥ 2: batch dimensions broadcast, the inner
    dimensions agree, the result is `batch ++ [n, m]` — for batch prefixes of every rank. -/
theorem matmul_shape_sound {ba bb : List Nat} {n k k' m : Nat} {st : ST} {t : Ty}
    (h : infer .matmul [.array (ba ++ [n, k]) st, .array (bb ++ [k', m]) st] = .ok t) :
    k = k' ∧ ∃ bc, broadcastShapes ba bb = .ok bc ∧ t = .array (bc ++ [n, m]) st := by
  have h := infer_ok_raw h
  simp only [inferRaw, inferBin, matmulInfer] at h
  have l0 : (ba ++ [n, k]).length = ba.length + 2 := by simp
  have l1 : (bb ++ [k', m]).length = bb.length + 2 := by simp
  simp only [l0, l1, ne_eq, not_true_eq_false, if_false, show ¬ (ba.length + 2 = 1) by omega,
    show ¬ (bb.length + 2 = 1) by omega, Nat.add_sub_cancel] at h
  have g0 : (ba ++ [n, k]).getD (ba.length + 2 - 1) 0 = k := by
    simp [List.getD_eq_getElem?_getD, List.getElem?_append_right]
  have g1 : (bb ++ [k', m]).getD bb.length 0 = k' := by
    simp [List.getD_eq_getElem?_getD, List.getElem?_append_right]
  have g2 : (ba ++ [n, k]).getD ba.length 0 = n := by
    simp [List.getD_eq_getElem?_getD, List.getElem?_append_right]
  have g3 : (bb ++ [k', m]).getD (bb.length + 2 - 1) 0 = m := by
    simp [List.getD_eq_getElem?_getD, List.getElem?_append_right]
  have t0 : (ba ++ [n, k]).take ba.length = ba := by simp
  have t1 : (bb ++ [k', m]).take bb.length = bb := by simp
  rw [g0, g1, g2, g3, t0, t1] at h
  by_cases hk : k = k'
  · rw [if_neg (by simpa using hk)] at h
    cases hb : broadcastShapes ba bb with
    | error e => rw [hb] at h; cases h
    | ok bc =>
      rw [hb] at h
      simp only [] at h
      injection h with h
      refine ⟨hk, bc, rfl, ?_⟩
      rw [← h]
      unfold arrOrScalar
      simp
  · rw [if_pos (by simpa using hk)] at h; cases h

example : infer .matmul [.array [2, 1, 3, 4] .i32, .array [5, 4, 2] .i32] = .ok (.array [2, 5, 3, 2] .i32) ∧
    infer .matmul [.array [4] .i32, .array [5, 4, 2] .i32] = .ok (.array [5, 2] .i32) ∧
    infer .matmul [.array [4] .i32, .array [4] .i32] = .ok (.scalar .i32) := ⟨rfl, rfl, rfl⟩

/-- documented result of `gemm(ta, tb)`: transpose the last two dimensions of an operand when its
    flag is set, then matmul: `batch ++ [n, m]`; holds for all four flag combinations and all
    batch ranks (batch dimensions of 1 broadcast). -/
theorem gemm_shape_sound {ba bb : List Nat} {x0 y0 x1 y1 : Nat} {ta tb : Bool} {st : ST} {t : Ty}
    (h : infer (.gemm ta tb) [.array (ba ++ [x0, y0]) st, .array (bb ++ [x1, y1]) st] = .ok t) :
    (if ta then x0 else y0) = (if tb then y1 else x1) ∧
    ∃ bc, broadcastShapes ba bb = .ok bc ∧
      t = .array (bc ++ [if ta then y0 else x0, if tb then x1 else y1]) st := by
  have h := infer_ok_raw h
  simp only [inferRaw, inferBin, gemmInfer, ne_eq, not_true_eq_false, if_false] at h
  have l0 : (ba ++ [x0, y0]).length = ba.length + 2 := by simp
  have l1 : (bb ++ [x1, y1]).length = bb.length + 2 := by simp
  rw [if_neg (by rw [l0, l1]; omega)] at h
  rw [transposeShape_append, transposeShape_append] at h
  cases ta <;> cases tb
  · exact gemm_core _ _ (by simp) (by simp) h
  · exact gemm_core _ _ (by simp) (by simp) h
  · exact gemm_core _ _ (by simp) (by simp) h
  · exact gemm_core _ _ (by simp) (by simp) h

example : infer (.gemm true false) [.array [1, 4, 3] .u64, .array [5, 4, 2] .u64] = .ok (.array [5, 3, 2] .u64) ∧
    infer (.gemm false true) [.array [1, 3, 4] .u64, .array [2, 4] .u64] = .ok (.array [1, 3, 2] .u64) := ⟨rfl, rfl⟩


end CCV.C09
