import CCV.Lemmas.OptimizerEval
/-
  C06 — graph optimisation preserves meaning and interface (and part (b) of C04 on the same model).

  All statements are about the model functions the driver executes (`Optimizer.constants`,
  `duplicates`, `dangling`, `metaOps`, `optimize`, `chain`), for every graph, every operation
  semantics `sem`, every input assignment `inp` and every randomness oracle.

  Evaluation (`Optimizer.eval`): node k is evaluated from the values of the earlier nodes; the j-th
  Input node receives `inp j`; a randomising node with id k receives `rnd k args`.  Randomness of the
  result is an oracle compatible with the source oracle along the mapping (`Compat`); because
  randomising nodes are never merged (`*_special`), the oracle `transport m rO` (the draw of the
  source node) is always compatible (`*_transport`).

  Proved: all four passes — value of every mapped node and of the output, input interface,
  closedness, annotations, C04(b) — and the pipeline `optimize` (`optimize_sound`).  The meta pass
  (`metaOps_sound`) is proved from the algebraic laws of the structural operations (`MetaLaws`:
  getter-of-constructor, Zip, ArrayToVector, A2B/B2A inverses and the typing of the nodes the pass
  creates; each law relative to a success predicate `ok`) by the loop invariant "a proxy object
  denotes the value of its node" (`Den`, nested proxies included; Lemmas/OptimizerMetaValue.lean).

  Evaluator instance (last section): the laws are PROVED for the evaluator model `evalOp` of C09
  lifted to typed values with failure (`OptEval.evLaws`), so `metaOps_sound_eval` and
  `optimize_sound_eval` carry no law hypothesis.
-/
namespace CCV.C06
open CCV.Optimizer

variable {V : Type}

/- a small graph exercising all three proved passes:
   0 in · 1 in(unused) · 2 c7 · 3 c7 · 4 add(0,2) · 5 add(0,3) · 6 mul(2,3) [foldable] · 7 random ·
   8 random · 9 nop(7)@send · 10 mul(4,5) · 11 tuple(10, 9, 6) = output · 12 dangling add(8,8) -/
def gEx : Graph :=
  ⟨[⟨.input 0, [], [], some 1, .arr 0 1⟩, ⟨.input 0, [], [], none, .arr 0 1⟩,
    ⟨.constant 7 (some 7), [], [], none, .arr 0 1⟩, ⟨.constant 7 (some 7), [], [], none, .arr 0 1⟩,
    ⟨.other 1 true, [0, 2], [], none, .arr 0 1⟩, ⟨.other 1 true, [0, 3], [], none, .arr 0 1⟩,
    ⟨.other 2 true, [2, 3], [], none, .arr 0 1⟩, ⟨.random 5, [], [], none, .arr 0 1⟩,
    ⟨.random 5, [], [], none, .arr 0 1⟩, ⟨.nop, [7], [3], none, .arr 0 1⟩,
    ⟨.other 2 true, [4, 5], [], none, .arr 0 1⟩, ⟨.createTuple, [10, 9, 6], [], none, .other⟩,
    ⟨.other 1 true, [8, 8], [], none, .arr 0 1⟩], 11⟩

def orcEx (i : Nat) : Nat × Option Nat := if i = 6 then (49, some 49) else (0, none)

theorem gEx_closed : Closed gEx.nodes := closed_of_closedFrom _ (by decide)
theorem gEx_constWF : ConstWF gEx.nodes := by unfold ConstWF; decide
theorem gEx_inputWF : InputWF gEx.nodes := by unfold InputWF; decide

/- ======================================= duplicates ======================================= -/

/-- (1) the duplicates pass maps every node, and to a node with the same value -/
theorem duplicates_value (g : Graph) (hc : Closed g.nodes) (sem : Op → List V → V) (inp : Nat → V)
    (dv : V) (rO rN : Nat → List V → V) (hr : Compat g.nodes (duplicates g).2 rO rN) :
    (∀ i, i < g.nodes.length → ∃ k, Maps (duplicates g).2 i k) ∧
    ∀ i k, Maps (duplicates g).2 i k →
      (eval sem inp dv rN (duplicates g).1.nodes).getD k dv = (eval sem inp dv rO g.nodes).getD i dv := by
  have I := duplicates_inv g hc
  refine ⟨I.total, I.tr.value hc sem inp dv rO rN hr ?_⟩
  intro i k n n' h hn hk _ hne
  exact absurd (I.tr.noConst i k n n' h hn hk) hne

/-- … in particular the output -/
theorem duplicates_output (g : Graph) (hc : Closed g.nodes) (ho : g.out < g.nodes.length)
    (sem : Op → List V → V) (inp : Nat → V) (dv : V) (rO rN : Nat → List V → V)
    (hr : Compat g.nodes (duplicates g).2 rO rN) :
    (eval sem inp dv rN (duplicates g).1.nodes).getD (duplicates g).1.out dv =
      (eval sem inp dv rO g.nodes).getD g.out dv := by
  obtain ⟨ht, hv⟩ := duplicates_value g hc sem inp dv rO rN hr
  obtain ⟨k, hk⟩ := ht g.out ho
  have : (duplicates g).1.out = k := look_of_maps hk
  rw [this]; exact hv g.out k hk

/-- (2)(3)(4) interface, closedness, annotations -/
theorem duplicates_interface (g : Graph) (hc : Closed g.nodes) :
    inputsOf (duplicates g).1.nodes = inputsOf g.nodes ∧
    Closed (duplicates g).1.nodes ∧
    (g.out < g.nodes.length → (duplicates g).1.out < (duplicates g).1.nodes.length) ∧
    ∀ i k n, Maps (duplicates g).2 i k → g.nodes[i]? = some n →
      ∃ n', (duplicates g).1.nodes[k]? = some n' ∧ ∀ a ∈ n.ann, a ∈ n'.ann := by
  have I := duplicates_inv g hc
  refine ⟨I.tr.ins, I.tr.ref.closedOut, fun ho => ?_, I.tr.annotations⟩
  obtain ⟨k, hk⟩ := I.total g.out ho
  have : (duplicates g).1.out = k := look_of_maps hk
  rw [this]; exact (I.tr.ref.bound _ _ hk).2

/-- (5) = C04(b): no randomising / PRF / input node is merged or changed, none is created -/
theorem duplicates_special (g : Graph) (hc : Closed g.nodes) :
    SpecialPreserved g.nodes (duplicates g).1.nodes (duplicates g).2 :=
  (duplicates_inv g hc).tr.special

theorem duplicates_transport (g : Graph) (hc : Closed g.nodes) (rO : Nat → List V → V) :
    Compat g.nodes (duplicates g).2 rO (transport (duplicates g).2 rO) :=
  compat_transport (duplicates_special g hc) rO

-- non-vacuity: nodes 2/3 are constants (no key), 4/5 differ in their dependencies; after the
-- constants pass they are duplicates (see below); the two Random nodes 7, 8 are not merged
example : (duplicates gEx).2 = (List.range 13).map some := by decide
example : (duplicates (constants orcEx gEx).1).2 =
    [some 0, some 1, some 2, some 3, some 3, some 4, some 5, some 6, some 7, some 8, some 9,
     some 10] := by decide

/- ======================================= constants ======================================== -/

/-- (1) the constants pass maps every node, and to a node with the same value, provided the
    evaluator oracle is right: `hor` says that the Constant operation the oracle yields for a
    foldable node all of whose dependencies are constants has that node's value; `hcv`: the value of
    a Constant operation is determined by its value id -/
theorem constants_value (oracle : Nat → Nat × Option Nat) (g : Graph) (hc : Closed g.nodes)
    (hwf : ConstWF g.nodes) (sem : Op → List V → V) (inp : Nat → V) (dv : V)
    (rO rN : Nat → List V → V) (hr : Compat g.nodes (constants oracle g).2 rO rN)
    (hor : ∀ i k n n', Maps (constants oracle g).2 i k → g.nodes[i]? = some n →
      (constants oracle g).1.nodes[k]? = some n' → n'.op.isConstant → n'.op ≠ n.op →
      sem n'.op [] = (eval sem inp dv rO g.nodes).getD i dv) :
    (∀ i, i < g.nodes.length → ∃ k, Maps (constants oracle g).2 i k) ∧
    ∀ i k, Maps (constants oracle g).2 i k →
      (eval sem inp dv rN (constants oracle g).1.nodes).getD k dv =
        (eval sem inp dv rO g.nodes).getD i dv := by
  have I := constants_inv oracle g hc hwf
  exact ⟨I.total, I.tr.value hc sem inp dv rO rN hr hor⟩

theorem constants_output (oracle : Nat → Nat × Option Nat) (g : Graph) (hc : Closed g.nodes)
    (hwf : ConstWF g.nodes) (ho : g.out < g.nodes.length) (sem : Op → List V → V) (inp : Nat → V)
    (dv : V) (rO rN : Nat → List V → V) (hr : Compat g.nodes (constants oracle g).2 rO rN)
    (hor : ∀ i k n n', Maps (constants oracle g).2 i k → g.nodes[i]? = some n →
      (constants oracle g).1.nodes[k]? = some n' → n'.op.isConstant → n'.op ≠ n.op →
      sem n'.op [] = (eval sem inp dv rO g.nodes).getD i dv) :
    (eval sem inp dv rN (constants oracle g).1.nodes).getD (constants oracle g).1.out dv =
      (eval sem inp dv rO g.nodes).getD g.out dv := by
  obtain ⟨ht, hv⟩ := constants_value oracle g hc hwf sem inp dv rO rN hr hor
  obtain ⟨k, hk⟩ := ht g.out ho
  have : (constants oracle g).1.out = k := look_of_maps hk
  rw [this]; exact hv g.out k hk

theorem constants_interface (oracle : Nat → Nat × Option Nat) (g : Graph) (hc : Closed g.nodes)
    (hwf : ConstWF g.nodes) :
    inputsOf (constants oracle g).1.nodes = inputsOf g.nodes ∧
    Closed (constants oracle g).1.nodes ∧
    (g.out < g.nodes.length → (constants oracle g).1.out < (constants oracle g).1.nodes.length) ∧
    ∀ i k n, Maps (constants oracle g).2 i k → g.nodes[i]? = some n →
      ∃ n', (constants oracle g).1.nodes[k]? = some n' ∧ ∀ a ∈ n.ann, a ∈ n'.ann := by
  have I := constants_inv oracle g hc hwf
  refine ⟨I.tr.ins, I.tr.ref.closedOut, fun ho => ?_, I.tr.annotations⟩
  obtain ⟨k, hk⟩ := I.total g.out ho
  have : (constants oracle g).1.out = k := look_of_maps hk
  rw [this]; exact (I.tr.ref.bound _ _ hk).2

/-- (5) = C04(b): a randomising / PRF / input node is never folded into a constant (it keeps its
    operation) nor merged; whatever the oracle answers -/
theorem constants_special (oracle : Nat → Nat × Option Nat) (g : Graph) (hc : Closed g.nodes)
    (hwf : ConstWF g.nodes) :
    SpecialPreserved g.nodes (constants oracle g).1.nodes (constants oracle g).2 :=
  (constants_inv oracle g hc hwf).tr.special

/-- an annotated node is never folded: its image has the same operation -/
theorem constants_annotated_kept (oracle : Nat → Nat × Option Nat) (g : Graph) (hc : Closed g.nodes)
    (hwf : ConstWF g.nodes) :
    ∀ i k n, Maps (constants oracle g).2 i k → g.nodes[i]? = some n → n.ann ≠ [] →
      ∃ n', (constants oracle g).1.nodes[k]? = some n' ∧ n'.op = n.op := by
  intro i k n h hn hann
  obtain ⟨n', h1, h2⟩ := (constants_inv oracle g hc hwf).tr.same i k n h hn
  rcases h2 with ⟨h2, _⟩ | ⟨_, _, h2, _⟩
  · exact ⟨n', h1, h2⟩
  · exact absurd h2 hann

theorem constants_transport (oracle : Nat → Nat × Option Nat) (g : Graph) (hc : Closed g.nodes)
    (hwf : ConstWF g.nodes) (rO : Nat → List V → V) :
    Compat g.nodes (constants oracle g).2 rO (transport (constants oracle g).2 rO) :=
  compat_transport (constants_special oracle g hc hwf) rO

-- non-vacuity: the equal constants 2, 3 are merged, node 6 = mul(c7, c7) is folded to a new constant
example : (constants orcEx gEx).2 =
    [some 0, some 1, some 2, some 2, some 3, some 4, some 5, some 6, some 7, some 8, some 9,
     some 10, some 11] := by decide
example : ((constants orcEx gEx).1.nodes.map (·.op)).take 6 =
    [.input 0, .input 0, .constant 7 (some 7), .other 1 true, .other 1 true, .constant 49 (some 49)] := by
  decide

/- ======================================== dangling ======================================== -/

/-- (1) the dangling pass maps exactly the Input nodes and the nodes the sweep marks (which include
    every node the output depends on), each to a node with the same value -/
theorem dangling_value (g : Graph) (hc : Closed g.nodes) (hwf : InputWF g.nodes)
    (sem : Op → List V → V) (inp : Nat → V) (dv : V) (rO rN : Nat → List V → V)
    (hr : Compat g.nodes (dangling g).2 rO rN) :
    ∀ i k, Maps (dangling g).2 i k →
      (eval sem inp dv rN (dangling g).1.nodes).getD k dv = (eval sem inp dv rO g.nodes).getD i dv := by
  have I := dangling_inv g hc hwf
  refine I.tr.value hc sem inp dv rO rN hr ?_
  intro i k n n' h hn hk _ hne
  exact absurd (I.tr.noConst i k n n' h hn hk) hne

/-- every node the output depends on, and every Input node, has an image -/
theorem dangling_keeps (g : Graph) (hc : Closed g.nodes) (hwf : InputWF g.nodes)
    (ho : g.out < g.nodes.length) :
    ∀ i n, g.nodes[i]? = some n → (Reach g i ∨ n.op.isInput = true) → ∃ k, Maps (dangling g).2 i k := by
  intro i n hn h
  refine (dangling_inv g hc hwf).kept i n hn ?_
  rcases h with h | h
  · exact Or.inl (reach_useful g hc ho i h)
  · exact Or.inr h

theorem dangling_output (g : Graph) (hc : Closed g.nodes) (hwf : InputWF g.nodes)
    (ho : g.out < g.nodes.length) (sem : Op → List V → V) (inp : Nat → V) (dv : V)
    (rO rN : Nat → List V → V) (hr : Compat g.nodes (dangling g).2 rO rN) :
    (eval sem inp dv rN (dangling g).1.nodes).getD (dangling g).1.out dv =
      (eval sem inp dv rO g.nodes).getD g.out dv := by
  obtain ⟨k, hk⟩ := dangling_keeps g hc hwf ho g.out g.nodes[g.out] (List.getElem?_eq_getElem ho)
    (Or.inl Reach.out)
  have : (dangling g).1.out = k := look_of_maps hk
  rw [this]; exact dangling_value g hc hwf sem inp dv rO rN hr g.out k hk

/-- (2)(3)(4): all Input nodes are kept in order with type and name (used or not); the result is
    closed; the annotations of every node the output depends on are on its image -/
theorem dangling_interface (g : Graph) (hc : Closed g.nodes) (hwf : InputWF g.nodes) :
    inputsOf (dangling g).1.nodes = inputsOf g.nodes ∧
    Closed (dangling g).1.nodes ∧
    (g.out < g.nodes.length → (dangling g).1.out < (dangling g).1.nodes.length) ∧
    (g.out < g.nodes.length → ∀ i n, Reach g i → g.nodes[i]? = some n →
      ∃ k n', Maps (dangling g).2 i k ∧ (dangling g).1.nodes[k]? = some n' ∧ ∀ a ∈ n.ann, a ∈ n'.ann) := by
  have I := dangling_inv g hc hwf
  refine ⟨I.tr.ins, I.tr.ref.closedOut, fun ho => ?_, fun ho i n hr hn => ?_⟩
  · obtain ⟨k, hk⟩ := dangling_keeps g hc hwf ho g.out g.nodes[g.out] (List.getElem?_eq_getElem ho)
      (Or.inl Reach.out)
    have : (dangling g).1.out = k := look_of_maps hk
    rw [this]; exact (I.tr.ref.bound _ _ hk).2
  · obtain ⟨k, hk⟩ := dangling_keeps g hc hwf ho i n hn (Or.inl hr)
    obtain ⟨n', h1, h2⟩ := I.tr.annotations i k n hk hn
    exact ⟨k, n', hk, h1, h2⟩

/-- (5) = C04(b): kept randomising / PRF nodes are neither changed nor merged, and a node without
    image is not needed by the output (and is not an Input) -/
theorem dangling_special (g : Graph) (hc : Closed g.nodes) (hwf : InputWF g.nodes)
    (ho : g.out < g.nodes.length) :
    SpecialPreserved g.nodes (dangling g).1.nodes (dangling g).2 ∧
    ∀ i n, g.nodes[i]? = some n → (∀ k, ¬ Maps (dangling g).2 i k) →
      ¬ Reach g i ∧ n.op.isInput = false := by
  refine ⟨(dangling_inv g hc hwf).tr.special, fun i n hn hno => ⟨fun hr => ?_, ?_⟩⟩
  · obtain ⟨k, hk⟩ := dangling_keeps g hc hwf ho i n hn (Or.inl hr)
    exact hno k hk
  · cases h : n.op.isInput
    · rfl
    · obtain ⟨k, hk⟩ := dangling_keeps g hc hwf ho i n hn (Or.inr h)
      exact absurd hk (hno k)

theorem dangling_transport (g : Graph) (hc : Closed g.nodes) (hwf : InputWF g.nodes)
    (rO : Nat → List V → V) : Compat g.nodes (dangling g).2 rO (transport (dangling g).2 rO) :=
  compat_transport (dangling_inv g hc hwf).tr.special rO

-- non-vacuity: the unused Input 1 is kept; Random 8 and the dangling node 12 are dropped
example : (dangling gEx).2 =
    [some 0, some 1, some 2, some 3, some 4, some 5, some 6, some 7, none, some 8, some 9, some 10,
     none] := by decide
example : inputsOf (dangling gEx).1.nodes =
    [(.input 0, some 1, .arr 0 1), (.input 0, none, .arr 0 1)] := by decide

/- ==================================== mapping chain ======================================= -/

/-- `new_from_chain`: the joined mapping relates i to k iff the stages relate them step by step -/
theorem chain4 (m1 m2 m3 m4 : Mapping) (i k : Nat) :
    Maps (chain [m1, m2, m3, m4]) i k ↔
      ∃ a b c, Maps m1 i a ∧ Maps m2 a b ∧ Maps m3 b c ∧ Maps m4 c k := by
  simp only [chain, List.foldl, maps_join]
  constructor
  · rintro ⟨c, ⟨b, ⟨a, h1, h2⟩, h3⟩, h4⟩; exact ⟨a, b, c, h1, h2, h3, h4⟩
  · rintro ⟨a, b, c, h1, h2, h3, h4⟩; exact ⟨c, ⟨b, ⟨a, h1, h2⟩, h3⟩, h4⟩

example : chain [[some 0, some 1, some 1], [some 1, some 0], [some 0, none], [some 5]] =
    [none, some 5, some 5] := by decide

/- ================================ meta pass and pipeline ================================== -/

/-- meta pass, proved part (2)(3): every source node is mapped to a node of the result; the Input
    nodes are preserved in order with type and name (the nodes the pass creates are never Inputs);
    the result is closed, its output in range, its Input nodes dependency-free.  (Name kept;
    value preservation, annotations and C04(b) are `metaOps_sound`.) -/
theorem metaOps_interface_partial (g g' : Graph) (m : Mapping) (hc : Closed g.nodes)
    (h : metaOps g = some (g', m)) :
    (∀ i, i < g.nodes.length → ∃ k, Maps m i k ∧ k < g'.nodes.length) ∧
    inputsOf g'.nodes = inputsOf g.nodes ∧ Closed g'.nodes ∧
    (g.out < g.nodes.length → g'.out < g'.nodes.length) ∧
    (InputWF g.nodes → InputWF g'.nodes) :=
  ⟨(metaOps_closed g g' m hc h).2.1, (metaOps_inputs g g' m h).1, (metaOps_closed g g' m hc h).1,
   (metaOps_closed g g' m hc h).2.2, fun hw => metaOps_inputWF g g' m hw h⟩

/- non-vacuity: 0 in · 1 random · 2 tuple(0,1) · 3 tuple_get 1 @send → the Random node 1 (which
   receives the annotation) · 4 a2v(0) · 5 const 1 · 6 vector_get(4,5) → new Get node 7 -/
def gMeta : Graph :=
  ⟨[⟨.input 0, [], [], none, .arr 1 1⟩, ⟨.random 5, [], [], none, .arr 0 1⟩,
    ⟨.createTuple, [0, 1], [], none, .other⟩, ⟨.tupleGet 1, [2], [3], none, .arr 0 1⟩,
    ⟨.arrayToVector, [0], [], none, .vec (.arr 0 1)⟩, ⟨.constant 9 (some 1), [], [], none, .arr 0 1⟩,
    ⟨.vectorGet, [4, 5], [], none, .arr 0 1⟩], 6⟩

example : (metaOps gMeta).map (·.2) =
    some [some 0, some 1, some 2, some 1, some 4, some 5, some 7] := by decide +kernel
example : (metaOps gMeta).map (fun r => (r.1.out, (r.1.nodes.getD 1 default).ann,
    (r.1.nodes.getD 7 default).op, (r.1.nodes.getD 7 default).deps)) =
    some (7, [3], .get 1, [0]) := by decide +kernel

/-- FULL STATEMENT for the meta pass, now proved (`metaOps_sound`): under the laws of the
    structural operations (`MetaLaws`), when the recorded type summaries describe the values
    (`TyOK`), arities are as the type checker guarantees (`MetaWF`) and VectorGet / Zip are applied
    to vectors (`VecOK`; follows from `VecWF` on recorded types, `VecWF.ok`): every node is mapped
    to a node with the same value, the recorded types of the result describe its values and every
    node of the result — the created Get / GetSlice / VectorGet / CreateTuple nodes included —
    evaluates successfully (so the statement composes), annotations are on the image, and randomising / PRF / input nodes are
    preserved (C04(b), `SpecialInj`: a getter may be resolved to a randomising node, so injectivity
    is among such nodes, and the randomising node is the first node mapped to its image).
    Hypotheses changed w.r.t. the earlier unproved version: `one`/`stOf` became the type summary
    `tyv` (the pass re-reads the type of nodes it created itself, which the two observations could
    not express); `MetaWF` and `VecOK` are new (without them the model statement is false: e.g. a
    CreateNamedTuple with a repeated field name, or an A2B node with two dependencies).
    The laws are relative to a success predicate `ok` (each equation is demanded only when its
    left-hand side is `ok`) and the source graph must evaluate successfully at every node (`ValOK`);
    `ok := fun _ => True` gives the unconditional version.  This is what makes the statement
    applicable to ciphercore's strict, partial evaluator (`optimize_sound_eval` below). -/
def MetaStatement : Prop :=
  ∀ (V : Type) (ok : V → Prop) (sem : Op → List V → V) (inp : Nat → V) (dv : V) (tyv : V → Ty)
    (g g' : Graph) (m : Mapping) (rO rN : Nat → List V → V),
    MetaLaws ok sem tyv → Closed g.nodes → MetaWF g.nodes → metaOps g = some (g', m) →
    TyOK sem inp dv rO tyv g.nodes → ValOK ok sem inp dv rO g.nodes →
    VecOK sem inp dv rO tyv g.nodes → Compat g.nodes m rO rN →
    (∀ i k, Maps m i k →
      (eval sem inp dv rN g'.nodes).getD k dv = (eval sem inp dv rO g.nodes).getD i dv) ∧
    TyOK sem inp dv rN tyv g'.nodes ∧ ValOK ok sem inp dv rN g'.nodes ∧
    SpecialInj g.nodes g'.nodes m ∧
    (∀ i k n, Maps m i k → g.nodes[i]? = some n →
      ∃ n', g'.nodes[k]? = some n' ∧ ∀ a ∈ n.ann, a ∈ n'.ann)

/-- (1)(4)(5) for the meta pass -/
theorem metaOps_sound : MetaStatement := by
  intro V ok sem inp dv tyv g g' m rO rN L hc hwf h hty hok hvo hcomp
  obtain ⟨h1, h2, h2'⟩ := metaOps_value L g g' m hc hwf h hty hok hvo hcomp
  obtain ⟨h3, h4⟩ := metaOps_special g g' m hc h
  exact ⟨h1, h2, h2', h3, h4⟩

/-- the output value is preserved by the meta pass -/
theorem metaOps_output {ok : V → Prop} (sem : Op → List V → V) (inp : Nat → V) (dv : V) (tyv : V → Ty)
    (g g' : Graph) (m : Mapping) (rO rN : Nat → List V → V) (L : MetaLaws ok sem tyv)
    (hc : Closed g.nodes) (hwf : MetaWF g.nodes) (h : metaOps g = some (g', m))
    (hty : TyOK sem inp dv rO tyv g.nodes) (hok : ValOK ok sem inp dv rO g.nodes)
    (hvo : VecOK sem inp dv rO tyv g.nodes)
    (hcomp : Compat g.nodes m rO rN) (ho : g.out < g.nodes.length) :
    (eval sem inp dv rN g'.nodes).getD g'.out dv = (eval sem inp dv rO g.nodes).getD g.out dv := by
  obtain ⟨k, hk, _⟩ := (metaOps_closed g g' m hc h).2.1 g.out ho
  rw [metaOps_out g g' m h, look_of_maps hk]
  exact (metaOps_value L g g' m hc hwf h hty hok hvo hcomp).1 g.out k hk

/-- the source oracle transported along the mapping is compatible (a randomising node is the first
    node mapped to its image) -/
theorem metaOps_transport (g g' : Graph) (m : Mapping) (hc : Closed g.nodes)
    (h : metaOps g = some (g', m)) (rO : Nat → List V → V) :
    Compat g.nodes m rO (transport m rO) :=
  compat_transport_inj (metaOps_special g g' m hc h).1 rO

/- non-vacuity of the hypotheses of `metaOps_sound`: the one-point semantics satisfies `MetaLaws`
   unconditionally (`ok := True`; the laws are jointly satisfiable), and on `gMetaU` (tuple /
   named-tuple getters resolved through nested proxies, B2A∘A2B) all hypotheses hold; the intended
   model of the laws is the evaluator of ciphercore: see the last section (`evLaws`, `gEv`).
   0 in · 1 random · 2 tuple(0,1) · 3 named{7,8}(2,0) · 4 ntg 7 (3) → 2 · 5 tg 1 (4) → 1 ·
   6 a2b(0) · 7 b2a(6) -/
def gMetaU : Graph :=
  ⟨[⟨.input 0, [], [], none, .other⟩, ⟨.random 5, [], [], none, .other⟩,
    ⟨.createTuple, [0, 1], [], none, .other⟩, ⟨.createNamedTuple [7, 8], [2, 0], [], none, .other⟩,
    ⟨.namedTupleGet 7, [3], [], none, .other⟩, ⟨.tupleGet 1, [4], [4], none, .other⟩,
    ⟨.a2b, [0], [], none, .other⟩, ⟨.b2a 3, [6], [], none, .other⟩], 5⟩

theorem unitLaws : MetaLaws (fun _ => True) (fun (_ : Op) (_ : List Unit) => ()) (fun _ => Ty.other) :=
  ⟨(by intros; rfl), (by intros; rfl), (by intros; rfl), (by intros; rfl), (by intros; rfl),
   (by intros; rfl), (by intros; rfl), (by intro a c st h; cases h), (by intros; rfl),
   (by intro v i e h; cases h), (by intros; rfl), (by intros; trivial)⟩

example : (metaOps gMetaU).map (·.2) =
    some [some 0, some 1, some 2, some 3, some 2, some 1, some 6, some 7] := by decide +kernel
example : Closed gMetaU.nodes ∧ MetaWF gMetaU.nodes ∧ VecWF gMetaU.nodes :=
  ⟨closed_of_closedFrom _ (by decide), by unfold MetaWF; decide, by
    intro i n hn
    have : n.op ≠ .vectorGet ∧ n.op ≠ .zip := by
      have hall : ∀ n ∈ gMetaU.nodes, n.op ≠ .vectorGet ∧ n.op ≠ .zip := by decide
      exact hall n (List.mem_of_getElem? hn)
    exact ⟨fun h => absurd h this.1, fun h => absurd h this.2⟩⟩
example (inp : Nat → Unit) (r : Nat → List Unit → Unit) :
    TyOK (fun _ _ => ()) inp () r (fun _ => Ty.other) gMetaU.nodes := by
  intro i n hn
  have hall : ∀ n ∈ gMetaU.nodes, n.ty = .other := by decide
  exact (hall n (List.mem_of_getElem? hn)).symm

/-- the stages of `optimize` -/
theorem optimize_stages (oracle : Nat → Nat × Option Nat) (g g' : Graph) (m : Mapping)
    (h : optimize oracle g = some (g', m)) :
    constantsOk g = true ∧ ∃ g2 m2, metaOps (constants oracle g).1 = some (g2, m2) ∧
      g' = (dangling (duplicates g2).1).1 ∧
      m = chain [(constants oracle g).2, m2, (duplicates g2).2, (dangling (duplicates g2).1).2] := by
  unfold optimize at h
  split at h
  · cases h
  · rename_i hok
    simp only [] at h
    split at h
    · cases h
    · rename_i g2 m2 heq
      simp only [Option.some.injEq, Prod.mk.injEq] at h
      exact ⟨by simpa using hok, g2, m2, heq, h.1.symm, h.2.symm⟩

/-- (2)(3) for the whole pipeline, unconditionally: `optimize` keeps the list of Input nodes
    (type, name) in order — unused ones included —, yields a closed graph with the output in range
    and dependency-free Input nodes -/
theorem optimize_interface (oracle : Nat → Nat × Option Nat) (g g' : Graph) (m : Mapping)
    (hc : Closed g.nodes) (hcw : ConstWF g.nodes) (hiw : InputWF g.nodes)
    (h : optimize oracle g = some (g', m)) :
    inputsOf g'.nodes = inputsOf g.nodes ∧ Closed g'.nodes ∧ InputWF g'.nodes ∧
    (g.out < g.nodes.length → g'.out < g'.nodes.length) := by
  obtain ⟨_, g2, m2, hm, rfl, rfl⟩ := optimize_stages oracle g g' m h
  have I1 := constants_inv oracle g hc hcw
  obtain ⟨i1, c1, o1, _⟩ := constants_interface oracle g hc hcw
  have w1 : InputWF (constants oracle g).1.nodes := I1.tr.inputWF hiw
  obtain ⟨_, i2, c2, o2, w2⟩ := metaOps_interface_partial _ g2 m2 c1 hm
  have I3 := duplicates_inv g2 c2
  obtain ⟨i3, c3, o3, _⟩ := duplicates_interface g2 c2
  have w3 : InputWF (duplicates g2).1.nodes := I3.tr.inputWF (w2 w1)
  have I4 := dangling_inv (duplicates g2).1 c3 w3
  obtain ⟨i4, c4, o4, _⟩ := dangling_interface (duplicates g2).1 c3 w3
  exact ⟨by rw [i4, i3, i2, i1], c4, I4.tr.inputWF w3, fun ho => o4 (o3 (o2 (o1 ho)))⟩

/-- FULL STATEMENT for the pipeline (value part), now proved (`optimize_sound`): `optimize`
    preserves the value of every node the joined mapping still maps, and of the output, for the
    oracle of the result obtained by transporting the source oracle along the four stage mappings.
    Moreover every node of the optimised graph is `ok` (evaluates successfully).
    Besides well-formedness of the graph (incl. `TyOK`, `ValOK`: recorded types are right and every
    source node is `ok`), the only hypotheses are the laws of the structural operations relative
    to `ok` and `hor`: the evaluator oracle of the constants pass yields the right constants. -/
def OptimizeStatement : Prop :=
  ∀ (V : Type) (ok : V → Prop) (sem : Op → List V → V) (inp : Nat → V) (dv : V) (tyv : V → Ty)
    (oracle : Nat → Nat × Option Nat) (g g' : Graph) (m : Mapping) (rO : Nat → List V → V),
    MetaLaws ok sem tyv → Closed g.nodes → ConstWF g.nodes → InputWF g.nodes → MetaWF g.nodes →
    TyOK sem inp dv rO tyv g.nodes → ValOK ok sem inp dv rO g.nodes →
    VecOK sem inp dv rO tyv g.nodes →
    optimize oracle g = some (g', m) →
    (∀ i k n n', Maps (constants oracle g).2 i k → g.nodes[i]? = some n →
      (constants oracle g).1.nodes[k]? = some n' → n'.op.isConstant → n'.op ≠ n.op →
      sem n'.op [] = (eval sem inp dv rO g.nodes).getD i dv) →
    ∃ rN : Nat → List V → V,
      (∀ i k, Maps m i k →
        (eval sem inp dv rN g'.nodes).getD k dv = (eval sem inp dv rO g.nodes).getD i dv) ∧
      (g.out < g.nodes.length →
        (eval sem inp dv rN g'.nodes).getD g'.out dv = (eval sem inp dv rO g.nodes).getD g.out dv) ∧
      ValOK ok sem inp dv rN g'.nodes

/-- (1) for the pipeline relative to its meta stage (kept; `optimize_sound` discharges `hrest`):
    if the meta stage maps each node of the constants-stage output to an equal-valued node,
    then `optimize` maps every node the joined mapping `chain [m1, m2, m3, m4]` still maps to a node
    with the same value; in particular the output. `r0 … r4` are the oracles of the five graphs,
    compatible along the stage mappings (e.g. obtained by `transport`). -/
theorem optimize_value_partial (oracle : Nat → Nat × Option Nat) (g g' : Graph) (m : Mapping)
    (hc : Closed g.nodes) (hcw : ConstWF g.nodes) (hiw : InputWF g.nodes)
    (h : optimize oracle g = some (g', m))
    (sem : Op → List V → V) (inp : Nat → V) (dv : V) (r0 r1 r2 r3 r4 : Nat → List V → V)
    (hor : ∀ i k n n', Maps (constants oracle g).2 i k → g.nodes[i]? = some n →
      (constants oracle g).1.nodes[k]? = some n' → n'.op.isConstant → n'.op ≠ n.op →
      sem n'.op [] = (eval sem inp dv r0 g.nodes).getD i dv)
    (h1 : Compat g.nodes (constants oracle g).2 r0 r1)
    (hrest : ∀ g2 m2, metaOps (constants oracle g).1 = some (g2, m2) →
      (∀ i k, Maps m2 i k → (eval sem inp dv r2 g2.nodes).getD k dv =
        (eval sem inp dv r1 (constants oracle g).1.nodes).getD i dv) ∧
      Compat g2.nodes (duplicates g2).2 r2 r3 ∧
      Compat (duplicates g2).1.nodes (dangling (duplicates g2).1).2 r3 r4) :
    (∀ i k, Maps m i k →
      (eval sem inp dv r4 g'.nodes).getD k dv = (eval sem inp dv r0 g.nodes).getD i dv) ∧
    (g.out < g.nodes.length →
      (eval sem inp dv r4 g'.nodes).getD g'.out dv = (eval sem inp dv r0 g.nodes).getD g.out dv) := by
  obtain ⟨_, g2, m2, hm, rfl, rfl⟩ := optimize_stages oracle g g' m h
  obtain ⟨hv2, h3, h4⟩ := hrest g2 m2 hm
  have c1 := (constants_interface oracle g hc hcw).2.1
  have w1 : InputWF (constants oracle g).1.nodes := (constants_inv oracle g hc hcw).tr.inputWF hiw
  obtain ⟨t2, _, c2, o2, w2⟩ := metaOps_interface_partial _ g2 m2 c1 hm
  have c3 := (duplicates_interface g2 c2).2.1
  have w3 : InputWF (duplicates g2).1.nodes := (duplicates_inv g2 c2).tr.inputWF (w2 w1)
  have key : ∀ i k, Maps (chain [(constants oracle g).2, m2, (duplicates g2).2,
      (dangling (duplicates g2).1).2]) i k →
      (eval sem inp dv r4 (dangling (duplicates g2).1).1.nodes).getD k dv =
        (eval sem inp dv r0 g.nodes).getD i dv := by
    intro i k hik
    obtain ⟨a, b, c, ha, hb, hcc, hk⟩ := (chain4 _ _ _ _ i k).mp hik
    have e1 := (constants_value oracle g hc hcw sem inp dv r0 r1 h1 hor).2 i a ha
    have e2 := hv2 a b hb
    have e3 := (duplicates_value g2 c2 sem inp dv r2 r3 h3).2 b c hcc
    have e4 := dangling_value (duplicates g2).1 c3 w3 sem inp dv r3 r4 h4 c k hk
    rw [e4, e3, e2, e1]
  refine ⟨key, fun ho => ?_⟩
  -- the output is mapped through all four stages
  have o1 := (constants_interface oracle g hc hcw).2.2.1 ho
  have e1 := constants_output oracle g hc hcw ho sem inp dv r0 r1 h1 hor
  obtain ⟨k2, hk2, _⟩ := t2 _ o1
  have hg2out : g2.out = k2 := by
    have := metaOps_out _ g2 m2 hm
    rw [this]; exact look_of_maps hk2
  have e2 := hv2 _ k2 hk2
  have e3 := duplicates_output g2 c2 (o2 o1) sem inp dv r2 r3 h3
  have e4 := dangling_output (duplicates g2).1 c3 w3 ((duplicates_interface g2 c2).2.2.1 (o2 o1))
    sem inp dv r3 r4 h4
  rw [e4, e3, hg2out, e2, e1]

/-- (1) for the whole pipeline -/
theorem optimize_sound : OptimizeStatement := by
  intro V ok sem inp dv tyv oracle g g' m r0 L hc hcw hiw hwf hty hok hvo h hor
  obtain ⟨_, g2, m2, hm, hg', hmm⟩ := optimize_stages oracle g g' m h
  have h1 := constants_transport oracle g hc hcw r0
  have hv1 := (constants_value oracle g hc hcw sem inp dv r0 _ h1 hor).2
  obtain ⟨hty1, hwf1, hvo1⟩ := constants_keeps oracle g hc hcw hwf sem inp dv r0 _ tyv hty hv1
  have c1 := (constants_interface oracle g hc hcw).2.1
  have w1 : InputWF (constants oracle g).1.nodes := (constants_inv oracle g hc hcw).tr.inputWF hiw
  have h2 := metaOps_transport _ g2 m2 c1 hm (transport (constants oracle g).2 r0)
  have hok1 := constants_valok oracle g hc hcw ok sem inp dv r0 _ hok hv1
  obtain ⟨hv2, _, hok2⟩ := metaOps_value L _ g2 m2 c1 hwf1 hm hty1 hok1 (hvo1 hvo) h2
  obtain ⟨_, _, c2, _, w2⟩ := metaOps_interface_partial _ g2 m2 c1 hm
  have h3 := duplicates_transport g2 c2 (transport m2 (transport (constants oracle g).2 r0))
  have c3 := (duplicates_interface g2 c2).2.1
  have w3 : InputWF (duplicates g2).1.nodes := (duplicates_inv g2 c2).tr.inputWF (w2 w1)
  have h4 := dangling_transport (duplicates g2).1 c3 w3
    (transport (duplicates g2).2 (transport m2 (transport (constants oracle g).2 r0)))
  have hmain := optimize_value_partial oracle g g' m hc hcw hiw h sem inp dv r0
      (transport (constants oracle g).2 r0) (transport m2 (transport (constants oracle g).2 r0))
      (transport (duplicates g2).2 (transport m2 (transport (constants oracle g).2 r0)))
      (transport (dangling (duplicates g2).1).2 (transport (duplicates g2).2
        (transport m2 (transport (constants oracle g).2 r0)))) hor h1 (by
    intro g2' m2' hm'
    rw [hm] at hm'
    simp only [Option.some.injEq, Prod.mk.injEq] at hm'
    obtain ⟨rfl, rfl⟩ := hm'
    exact ⟨hv2, h3, h4⟩)
  refine ⟨_, hmain.1, hmain.2, ?_⟩
  -- every node of the result is the image of a node of the meta-stage result, which evaluates
  subst hg'
  intro k hk
  obtain ⟨c, hck⟩ := (dangling_inv (duplicates g2).1 c3 w3).tr.surj k hk
  obtain ⟨b, hbc⟩ := (duplicates_inv g2 c2).tr.surj c
    ((dangling_inv (duplicates g2).1 c3 w3).tr.ref.bound c k hck).1
  rw [dangling_value (duplicates g2).1 c3 w3 sem inp dv _ _ h4 c k hck,
    (duplicates_value g2 c2 sem inp dv _ _ h3).2 b c hbc]
  exact hok2 b ((duplicates_inv g2 c2).tr.ref.bound b c hbc).1

-- non-vacuity: on `gEx` the pipeline folds, merges and drops nodes (see the stage examples above)

/- ================================ the evaluator instance ================================== -/

/- `metaOps_sound` / `optimize_sound` for the evaluator model, with NO law hypothesis.

   Value domain `VE = Option (Ty × EV)`: a typed value of the evaluator model `CCV.EvalOps` (the
   model compared with `SimpleEvaluator` on every run of C09) or `none` = evaluation failed.
   `semE T op` = `evalOp` of the translated operation, strict in failures, guarded by
   `Value::check_type` of the arguments, result type from `TI.infer` (Lemmas/OptimizerEvalDefs.lean;
   `T` = what the harness interns: field names, vector element types, scalar types, operations the
   passes do not inspect, non-UINT64 constants).  On arguments that have their types it IS `evalOp`
   (`OptEval.liftE_faithful`, `liftE_total`).  `tyvE T` = the summary of the value's type.
   `evLaws` (Lemmas/OptimizerEval.lean): `semE T` satisfies `MetaLaws` relative to
   `okV` = "evaluated successfully, to a value of a valid type".

   Remaining hypotheses, all about the SOURCE graph only:
     Closed / ConstWF / InputWF / MetaWF / VecWF   syntactic well-formedness (type checker),
     TyOK   the recorded summary of each node is the summary of its value's type,
     ValOK  every node of the source graph evaluates successfully (to a value of a valid type),
     hor    the evaluator oracle of the constants pass is right. -/
section Evaluator
open CCV.OptEval

/-- meta pass on the evaluator model: every mapped node has the same typed value; every node of the
    result (created Get / GetSlice / VectorGet / CreateTuple nodes included) evaluates successfully
    and its recorded summary is right -/
theorem metaOps_sound_eval (T : Tab) (hinj : Function.Injective T.nm) (hst : ∀ s, T.st (T.stc s) = s)
    (inp : Nat → VE) (g g' : Graph) (m : Mapping) (rO rN : Nat → List VE → VE)
    (hc : Closed g.nodes) (hwf : MetaWF g.nodes) (hvw : VecWF g.nodes)
    (h : metaOps g = some (g', m))
    (hty : TyOK (semE T) inp none rO (tyvE T) g.nodes)
    (hok : ValOK okV (semE T) inp none rO g.nodes)
    (hcomp : Compat g.nodes m rO rN) :
    (∀ i k, Maps m i k →
      (eval (semE T) inp none rN g'.nodes).getD k none = (eval (semE T) inp none rO g.nodes).getD i none) ∧
    TyOK (semE T) inp none rN (tyvE T) g'.nodes ∧ ValOK okV (semE T) inp none rN g'.nodes := by
  have r := metaOps_sound VE okV (semE T) inp none (tyvE T) g g' m rO rN (evLaws T hinj hst) hc hwf h
    hty hok (VecWF.ok hc hvw hty) hcomp
  exact ⟨r.1, r.2.1, r.2.2.1⟩

/-- the pipeline on the evaluator model: `optimize` preserves the typed value of every node the
    chained mapping still maps, and of the output, and the optimised graph evaluates successfully
    at EVERY node (a strict evaluator such as `SimpleEvaluator` evaluates all of them) -/
theorem optimize_sound_eval (T : Tab) (hinj : Function.Injective T.nm) (hst : ∀ s, T.st (T.stc s) = s)
    (inp : Nat → VE) (oracle : Nat → Nat × Option Nat) (g g' : Graph) (m : Mapping)
    (rO : Nat → List VE → VE)
    (hc : Closed g.nodes) (hcw : ConstWF g.nodes) (hiw : InputWF g.nodes) (hwf : MetaWF g.nodes)
    (hvw : VecWF g.nodes)
    (hty : TyOK (semE T) inp none rO (tyvE T) g.nodes)
    (hok : ValOK okV (semE T) inp none rO g.nodes)
    (h : optimize oracle g = some (g', m))
    (hor : ∀ i k n n', Maps (constants oracle g).2 i k → g.nodes[i]? = some n →
      (constants oracle g).1.nodes[k]? = some n' → n'.op.isConstant → n'.op ≠ n.op →
      semE T n'.op [] = (eval (semE T) inp none rO g.nodes).getD i none) :
    ∃ rN : Nat → List VE → VE,
      (∀ i k, Maps m i k →
        (eval (semE T) inp none rN g'.nodes).getD k none =
          (eval (semE T) inp none rO g.nodes).getD i none) ∧
      (g.out < g.nodes.length →
        (eval (semE T) inp none rN g'.nodes).getD g'.out none =
          (eval (semE T) inp none rO g.nodes).getD g.out none) ∧
      ValOK okV (semE T) inp none rN g'.nodes :=
  optimize_sound VE okV (semE T) inp none (tyvE T) oracle g g' m rO (evLaws T hinj hst) hc hcw hiw hwf
    hty hok (VecWF.ok hc hvw hty) h hor

/- non-vacuity: a graph on which the meta pass does all four things, with concrete inputs.
   0 x : u8[2,2] · 1 y : u64[3] · 2 z : bit[2,8] ·
   3 tuple(0,1) · 4 tuple_get 1 (3) → 1 ·
   5 vector<u64[3]>(1,1) · 6 const 1u64 · 7 vector_get(5,6) → 1 ·
   8 a2v(0) · 9 vector_get(8,6) → new GetSlice(0,[1,…]) ·
   10 a2v(1) · 11 vector_get(10,6) → new Get(1,[1]) ·
   12 b2a_u8(2) · 13 a2b(12) → 2 ·
   14 tuple(4,7,9,11,13) = output -/
def stcEx : ST → Nat
  | .bit => 0 | .u8 => 1 | .i8 => 2 | .u16 => 3 | .i16 => 4 | .u32 => 5 | .i32 => 6
  | .u64 => 7 | .i64 => 8 | .u128 => 9 | .i128 => 10
def stEx : Nat → ST
  | 0 => .bit | 1 => .u8 | 2 => .i8 | 3 => .u16 | 4 => .i16 | 5 => .u32 | 6 => .i32
  | 7 => .u64 | 8 => .i64 | 9 => .u128 | _ => .i128
def exTab : Tab :=
  { nm := fun n => "".pushn 'a' n, ty := fun _ => .array [3] .u64, st := stEx, stc := stcEx,
    cst := fun _ => none, op := fun _ => .nop }

theorem exTab_inj : Function.Injective exTab.nm := by
  intro a b hab
  have := congrArg String.length hab
  simpa [exTab, String.length_pushn] using this

theorem exTab_st : ∀ s, exTab.st (exTab.stc s) = s := by intro s; cases s <;> rfl

def gEv : Graph :=
  ⟨[⟨.input 0, [], [], none, .arr 2 1⟩, ⟨.input 1, [], [], none, .arr 1 7⟩,
    ⟨.input 2, [], [], none, .arr 2 0⟩,
    ⟨.createTuple, [0, 1], [], none, .other⟩, ⟨.tupleGet 1, [3], [], none, .arr 1 7⟩,
    ⟨.createVector 0, [1, 1], [], none, .vec (.arr 1 7)⟩,
    ⟨.constant 9 (some 1), [], [], none, .arr 0 7⟩, ⟨.vectorGet, [5, 6], [], none, .arr 1 7⟩,
    ⟨.arrayToVector, [0], [], none, .vec (.arr 1 1)⟩, ⟨.vectorGet, [8, 6], [], none, .arr 1 1⟩,
    ⟨.arrayToVector, [1], [], none, .vec (.arr 0 7)⟩, ⟨.vectorGet, [10, 6], [], none, .arr 0 7⟩,
    ⟨.b2a 1, [2], [], none, .arr 1 1⟩, ⟨.a2b, [12], [], none, .arr 2 0⟩,
    ⟨.createTuple, [4, 7, 9, 11, 13], [], none, .other⟩], 14⟩

def inpEv : Nat → VE
  | 0 => some (.array [2, 2] .u8, .arr [1, 2, 3, 4])
  | 1 => some (.array [3] .u64, .arr [10, 20, 30])
  | _ => some (.array [2, 8] .bit, .arr [1, 0, 1, 0, 0, 0, 0, 0, 1, 1, 1, 1, 1, 1, 1, 1])

def rndEv : Nat → List VE → VE := fun _ _ => none
def orcEv : Nat → Nat × Option Nat := fun _ => (0, none)

-- the meta pass resolves all five getters (4 ↦ 1, 7 ↦ 1, 9 ↦ new node 10, 11 ↦ new node 13, 13 ↦ 2)
example : (metaOps gEv).map (·.2) =
    some [some 0, some 1, some 2, some 3, some 1, some 5, some 6, some 1, some 8, some 10, some 11,
      some 13, some 14, some 2, some 16] := by decide +kernel
example : (metaOps gEv).map (fun r => ((r.1.nodes.getD 10 default).op, (r.1.nodes.getD 10 default).deps,
    (r.1.nodes.getD 13 default).op, (r.1.nodes.getD 13 default).deps, (r.1.nodes.getD 16 default).deps)) =
    some (.getSlice 1, [0], .get 1, [1], [1, 1, 10, 13, 2]) := by decide +kernel

-- all hypotheses of `optimize_sound_eval` hold for it …
theorem gEv_hyps :
    Closed gEv.nodes ∧ ConstWF gEv.nodes ∧ InputWF gEv.nodes ∧ MetaWF gEv.nodes ∧ VecWF gEv.nodes ∧
    TyOK (semE exTab) inpEv none rndEv (tyvE exTab) gEv.nodes ∧
    ValOK okV (semE exTab) inpEv none rndEv gEv.nodes :=
  ⟨closed_of_closedFrom _ (by decide), by unfold ConstWF; decide, by unfold InputWF; decide,
   by unfold MetaWF; decide, vecWF_of_check (by decide),
   tyOK_of_map (by decide +kernel), valOK_of_all (fun _ => okVb_spec) (by decide +kernel)⟩

theorem gEv_noFold : noFold orcEv gEv = true := by decide +kernel
theorem gEv_opt : (optimize orcEv gEv).isSome = true := by decide +kernel

-- … the pipeline succeeds on it, so the conclusion holds for it: 15 nodes become 6
-- (x, y, z, GetSlice(x,[1,…]), Get(y,[1]), tuple(y, y, x[1], y[1], z))
example : (optimize orcEv gEv).map (fun r => (r.1.nodes.length, r.1.out, r.2)) =
    some (6, 5, [some 0, some 1, some 2, none, some 1, none, none, some 1, none, some 3, none,
      some 4, none, some 2, some 5]) := by decide +kernel

example : ∃ g' m, optimize orcEv gEv = some (g', m) ∧ ∃ rN : Nat → List VE → VE,
    (∀ i k, Maps m i k →
      (eval (semE exTab) inpEv none rN g'.nodes).getD k none =
        (eval (semE exTab) inpEv none rndEv gEv.nodes).getD i none) ∧
    (eval (semE exTab) inpEv none rN g'.nodes).getD g'.out none =
      (eval (semE exTab) inpEv none rndEv gEv.nodes).getD gEv.out none ∧
    ValOK okV (semE exTab) inpEv none rN g'.nodes := by
  obtain ⟨⟨g', m⟩, hgm⟩ := Option.isSome_iff_exists.mp gEv_opt
  obtain ⟨hc, hcw, hiw, hwf, hvw, hty, hok⟩ := gEv_hyps
  have hout : gEv.out < gEv.nodes.length := by decide
  have hor := hor_of_noFold (oracle := orcEv) (g := gEv) gEv_noFold (semE exTab)
    (fun i => (eval (semE exTab) inpEv none rndEv gEv.nodes).getD i none)
  obtain ⟨rN, h1, h2, h3⟩ := optimize_sound_eval exTab exTab_inj exTab_st inpEv orcEv gEv g' m rndEv
    hc hcw hiw hwf hvw hty hok hgm hor
  exact ⟨g', m, hgm, rN, h1, h2 hout, h3⟩

-- the source output is the tuple (y, y, x[1], y[1], z), a value that passes `check_type`:
-- typed values of the evaluator model, nothing degenerate
example : ((eval (semE exTab) inpEv none rndEv gEv.nodes).getD gEv.out none).map (fun v => hasTypeB v.1 v.2) =
    some true := by decide +kernel

end Evaluator

end CCV.C06
