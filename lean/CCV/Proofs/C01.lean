import Mathlib.Tactic.Ring
import Mathlib.Tactic.Abel
/-
  C01 — the compiled protocol computes the source function.

  Hand-written share algebra of the ABY3-style translations of mpc_compiler.rs / mpc_arithmetic.rs /
  resharing.rs, stated in an ARBITRARY commutative ring `R` (so for ℤ/2^w of every width, for bits,
  and pointwise for arrays of any shape at once).  These theorems explain why the generated
  per-graph obligations (CCV/Generated/C01_*.lean: the graph `compile_context` emits NOW, printed
  as a let-chain, equals the source polynomial `by ring`) hold; the obligations are what ties the
  statement to the code.
-/
namespace CCV.C01
variable {R : Type} [CommRing R]

/-- zero sharing from three PRF outputs: α_i = f_i − f_{i+1} (recursively_generate_node_shares) -/
theorem zero_sharing (f0 f1 f2 : R) : (f0 - f1) + (f1 - f2) + (f2 - f0) = 0 := by ring

/-- T1 input sharing: the owner adds its input to its own share; the three shares reveal to x,
    whichever party p ∈ {0,1,2} owns the input -/
theorem input_sharing (x f0 f1 f2 : R) :
    ((f0 - f1) + x) + (f1 - f2) + (f2 - f0) = x ∧
    (f0 - f1) + ((f1 - f2) + x) + (f2 - f0) = x ∧
    (f0 - f1) + (f1 - f2) + ((f2 - f0) + x) = x := by
  refine ⟨?_, ?_, ?_⟩ <;> ring

/-- T2 addition / subtraction of private values is share-wise -/
theorem add_shares (x0 x1 x2 y0 y1 y2 : R) :
    (x0 + y0) + (x1 + y1) + (x2 + y2) = (x0 + x1 + x2) + (y0 + y1 + y2) ∧
    (x0 - y0) + (x1 - y1) + (x2 - y2) = (x0 + x1 + x2) - (y0 + y1 + y2) := by
  constructor <;> ring

/-- T2' a public value enters a private sum through ONE share only -/
theorem add_public (x0 x1 x2 c : R) : (x0 + c) + x1 + x2 = (x0 + x1 + x2) + c := by ring

/-- T2'' multiplication by a public value is share-wise -/
theorem mul_public (x0 x1 x2 c : R) : x0 * c + x1 * c + x2 * c = (x0 + x1 + x2) * c := by ring

/-- T3 the ABY3 product: party i computes z_i = x_i·y_i + x_i·y_{i+1} + x_{i+1}·y_i from the two
    replicated shares it holds; the z_i form a 3-out-of-3 sharing of the product -/
theorem product_shares (x0 x1 x2 y0 y1 y2 : R) :
    (x0 * y0 + x0 * y1 + x1 * y0) + (x1 * y1 + x1 * y2 + x2 * y1) + (x2 * y2 + x2 * y0 + x0 * y2)
      = (x0 + x1 + x2) * (y0 + y1 + y2) := by ring

/-- the same with the factoring the compiler actually emits: x_i·(y_i + y_{i+1}) + x_{i+1}·y_i -/
theorem product_shares_factored (x0 x1 x2 y0 y1 y2 : R) :
    (x0 * (y0 + y1) + x1 * y0) + (x1 * (y1 + y2) + x2 * y1) + (x2 * (y2 + y0) + x0 * y2)
      = (x0 + x1 + x2) * (y0 + y1 + y2) := by ring

/-- T4 resharing: adding a fresh zero sharing preserves the secret -/
theorem reshare (z0 z1 z2 f0 f1 f2 : R) :
    (z0 + (f0 - f1)) + (z1 + (f1 - f2)) + (z2 + (f2 - f0)) = z0 + z1 + z2 := by ring

/-- T5 every additive map (Get, GetSlice, Reshape, PermuteAxes, Sum, CumSum, Stack, Concatenate,
    Repeat, tuple plumbing, multiplication by a public matrix …) commutes with revealing -/
theorem linear_shares {S : Type} [AddCommGroup S] (L : R → S)
    (hadd : ∀ a b, L (a + b) = L a + L b) (x0 x1 x2 : R) :
    L x0 + L x1 + L x2 = L (x0 + x1 + x2) := by
  rw [hadd, hadd]

/-- T3' any bi-additive operation (Dot, Matmul, Gemm) with the ABY3 cross terms -/
theorem bilinear_shares {S : Type} [AddCommGroup S] (B : R → R → S)
    (hl : ∀ a b c, B (a + b) c = B a c + B b c) (hr : ∀ a b c, B a (b + c) = B a b + B a c)
    (x0 x1 x2 y0 y1 y2 : R) :
    (B x0 y0 + B x0 y1 + B x1 y0) + (B x1 y1 + B x1 y2 + B x2 y1) + (B x2 y2 + B x2 y0 + B x0 y2)
      = B (x0 + x1 + x2) (y0 + y1 + y2) := by
  simp only [hl, hr]
  abel

/-- reveal: the missing share is sent to the output party, which adds the two it holds -/
theorem reveal (s0 s1 s2 : R) : (s0 + s1) + s2 = s0 + s1 + s2 ∧ (s1 + s2) + s0 = s0 + s1 + s2 ∧ (s2 + s0) + s1 = s0 + s1 + s2 := by
  refine ⟨?_, ?_, ?_⟩ <;> ring

/-- T6 bit-by-integer product through masked oblivious transfer (mpc/utils.rs, mpc_arithmetic.rs):
    the receiver obtains m_b − r_b + r_b where m_b is the message selected by its bit b ∈ {0,1};
    with messages (c·0 + r, c·1 + r) the parties end with shares of b·c -/
theorem ot_select (b m0 m1 : R) :
    m0 + b * (m1 - m0) = (1 - b) * m0 + b * m1 ∧ (b = 0 → m0 + b * (m1 - m0) = m0) ∧ (b = 1 → m0 + b * (m1 - m0) = m1) := by
  refine ⟨by ring, ?_, ?_⟩
  · intro h; rw [h]; ring
  · intro h; rw [h]; ring

/-- T6' bit-by-integer product (`multiply_bits_by_public_integers`, mpc_arithmetic.rs): the integer
    owner S forms `m0 = u·c − r_s − r_h` and `m1 = (1−u)·c − r_s − r_h` with `u = b_s ⊕ b_h`; the
    receiver R obtains `m_{b_r}` by oblivious transfer; `(m_{b_r}, r_s, r_h)` is a sharing of `b·c`
    where `b = b_s ⊕ b_h ⊕ b_r`. -/
theorem mixed_multiply_shares (c rs rh : R) (bs bh br : Bool) :
    let u : R := if xor bs bh then 1 else 0
    let m0 := u * c - rs - rh
    let m1 := (c - u * c) - rs - rh
    (if br then m1 else m0) + rs + rh = (if xor (xor bs bh) br then c else 0) := by
  cases bs <;> cases bh <;> cases br <;> simp <;> ring

/-- non-vacuity: ℤ, concrete shares of 7 and of 5 reveal 35 after product + resharing -/
example : ((3 * 1 + 3 * 6 + 9 * 1 + (11 - 4)) + (9 * 6 + 9 * (-2) + (-5) * 6 + (4 - 20)) + ((-5) * (-2) + (-5) * 1 + 3 * (-2) + (20 - 11)) : Int) = 7 * 5 := by
  decide

end CCV.C01
