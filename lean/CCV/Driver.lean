import CCV.Drv.C13
import CCV.Drv.C01
import CCV.Drv.C20
import CCV.Drv.C19
import CCV.Drv.C09
import CCV.Drv.C18
import CCV.Drv.C17
import CCV.Drv.C06
import CCV.Drv.C11
import CCV.Drv.C15
import CCV.Drv.C08
import CCV.Drv.C12
import CCV.Drv.C07
import CCV.Drv.C10
import CCV.Drv.C05
import CCV.Drv.C14
import CCV.Drv.C16
import CCV.Drv.C04
/-
  `ccv-model`: the executable side of the hand-written models.  One request per input line,
  `<property> <op> <args…>`, one canonical answer per output line.  Imports only `CCV.Model.*`
  and `CCV.Drv.*` (no Mathlib), so it links as a native executable.
-/
open CCV.Drv

def dispatch (line : String) : String :=
  match line.trimAscii.toString.splitOn " " with
  | "C13" :: rest => C13.handle rest
  | "C01" :: rest => C01.handle rest
  | "C20" :: rest => C20.handle rest
  | "C19" :: rest => C19.handle rest
  | "C09" :: rest => C09.handle rest
  | "C18" :: rest => C18.handle rest
  | "C17" :: rest => C17.handle rest
  | "C06" :: rest => C06.handle rest
  | "C11" :: rest => C11.handle rest
  | "C15" :: rest => C15.handle rest
  | "C08" :: rest => C08.handle rest
  | "C12" :: rest => C12.handle rest
  | "C07" :: rest => C07.handle rest
  | "C10" :: rest => C10.handle rest
  | "C05" :: rest => C05.handle rest
  | "C14" :: rest => C14.handle rest
  | "C16" :: rest => C16.handle rest
  | "C04" :: rest => C04.handle rest
  | _ => "BAD-OP"

partial def loop (h : IO.FS.Stream) (out : IO.FS.Stream) : IO Unit := do
  let line ← h.getLine
  if line.isEmpty then return ()
  out.putStrLn (dispatch line)
  loop h out

def main : IO Unit := do
  let out ← IO.getStdout
  loop (← IO.getStdin) out
  out.flush
