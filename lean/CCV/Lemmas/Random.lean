import CCV.Model.Random
/-
  Helper lemmas for C15: the counter-mode byte stream, the session invariant, the read loop.
-/
namespace CCV.Random

/-- byte `k` of the counter-mode stream -/
def streamByte (blocks : Nat → List Nat) (k : Nat) : Nat := (blocks (k / 16)).getD (k % 16) 0

/-- bytes `a .. a+n-1` of the counter-mode stream -/
def streamSlice (blocks : Nat → List Nat) (a n : Nat) : List Nat :=
  (List.range n).map (fun j => streamByte blocks (a + j))

@[simp] theorem length_streamSlice (blocks : Nat → List Nat) (a n : Nat) :
    (streamSlice blocks a n).length = n := by simp [streamSlice]

@[simp] theorem streamSlice_zero (blocks : Nat → List Nat) (a : Nat) : streamSlice blocks a 0 = [] := rfl

theorem streamSlice_add (blocks : Nat → List Nat) (a n m : Nat) :
    streamSlice blocks a (n + m) = streamSlice blocks a n ++ streamSlice blocks (a + n) m := by
  simp [streamSlice, List.range_add, List.map_append, List.map_map, Function.comp_def, Nat.add_assoc]

theorem streamSlice_take (blocks : Nat → List Nat) (a n k : Nat) (h : k ≤ n) :
    (streamSlice blocks a n).take k = streamSlice blocks a k := by
  obtain ⟨d, rfl⟩ := Nat.exists_eq_add_of_le h
  rw [streamSlice_add, List.take_left' (by simp)]

theorem streamSlice_drop (blocks : Nat → List Nat) (a n k : Nat) (h : k ≤ n) :
    (streamSlice blocks a n).drop k = streamSlice blocks (a + k) (n - k) := by
  obtain ⟨d, rfl⟩ := Nat.exists_eq_add_of_le h
  rw [streamSlice_add, List.drop_left' (by simp)]
  congr 1; omega

theorem block_eq (blocks : Nat → List Nat) (i : Nat) (h : (blocks i).length = 16) :
    blocks i = streamSlice blocks (16 * i) 16 := by
  apply List.ext_getElem
  · simp [h]
  · intro j h1 h2
    have hj : j < 16 := by simpa using h2
    simp only [streamSlice, List.getElem_map, List.getElem_range, streamByte]
    have e1 : (16 * i + j) / 16 = i := by omega
    have e2 : (16 * i + j) % 16 = j := by omega
    rw [e1, e2, List.getD_eq_getElem?_getD, List.getElem?_eq_getElem h1]
    rfl

theorem batch_eq (blocks : Nat → List Nat) (hb : ∀ i, (blocks i).length = 16) (c nb : Nat) :
    (List.range nb).flatMap (fun i => blocks (c + i)) = streamSlice blocks (16 * c) (16 * nb) := by
  induction nb with
  | zero => rfl
  | succ nb ih =>
    rw [List.range_succ, List.flatMap_append, ih, Nat.mul_succ, streamSlice_add]
    simp only [List.flatMap_cons, List.flatMap_nil, List.append_nil]
    rw [block_eq blocks (c + nb) (hb _), Nat.mul_add]


/-- Session invariant at stream position `pos` (= number of bytes delivered so far): the ready part of
    the buffer is the stream from `pos` on, the buffer ends at block boundary `16·ctr`. -/
structure Inv (blocks : Nat → List Nat) (s : Session) (pos : Nat) : Prop where
  len : s.buffer.length = s.curSize
  nb : s.nextByte ≤ s.curSize
  ready : s.ready = streamSlice blocks pos (s.curSize - s.nextByte)
  ctr : 16 * s.ctr = pos + (s.curSize - s.nextByte)
  ns16 : s.nextSize % 16 = 0
  nspos : 0 < s.nextSize

theorem Inv.ready_length {blocks : Nat → List Nat} {s : Session} {pos : Nat} (h : Inv blocks s pos) :
    s.ready.length = s.curSize - s.nextByte := by rw [h.ready]; simp

theorem inv_new (blocks : Nat → List Nat) (ibs : Nat) (h : 1 ≤ ibs) : Inv blocks (Session.new ibs) 0 := by
  refine ⟨?_, ?_, ?_, ?_, ?_, ?_⟩ <;> simp [Session.new, Session.ready, BLOCK_SIZE] <;> omega

theorem inv_oneBatch (blocks : Nat → List Nat) (hb : ∀ i, (blocks i).length = 16) (s : Session)
    (h16 : s.nextSize % 16 = 0) (hpos : 0 < s.nextSize) :
    Inv blocks (oneBatch blocks s) (16 * s.ctr) := by
  have e : 16 * (s.nextSize / 16) = s.nextSize := by omega
  have hbuf : (oneBatch blocks s).buffer = streamSlice blocks (16 * s.ctr) s.nextSize := by
    simp only [oneBatch, BLOCK_SIZE]; rw [batch_eq blocks hb, e]
  refine ⟨?_, ?_, ?_, ?_, ?_, ?_⟩
  · rw [hbuf]; simp [oneBatch]
  · simp [oneBatch]
  · simp only [Session.ready]; rw [hbuf]
    simp [oneBatch, List.take_of_length_le]
  · simp only [oneBatch, BLOCK_SIZE]; omega
  · simp only [oneBatch, BUFFER_SIZE, Nat.min_def]
    by_cases h1 : s.nextSize < 512 <;> by_cases h2 : 512 ≤ s.nextSize * 2 <;>
      simp only [h1, h2, if_true, if_false] <;> omega
  · simp only [oneBatch, BUFFER_SIZE, Nat.min_def]
    by_cases h1 : s.nextSize < 512 <;> by_cases h2 : 512 ≤ s.nextSize * 2 <;>
      simp only [h1, h2, if_true, if_false] <;> omega

/-- consuming `need ≤ ready` bytes from the buffer -/
theorem inv_consume {blocks : Nat → List Nat} {s : Session} {pos : Nat} (hinv : Inv blocks s pos)
    (need : Nat) (hle : need ≤ s.curSize - s.nextByte) :
    s.ready.take need = streamSlice blocks pos need ∧
    Inv blocks { s with nextByte := s.nextByte + need } (pos + need) := by
  have hnb := hinv.nb
  refine ⟨?_, hinv.len, ?_, ?_, ?_, hinv.ns16, hinv.nspos⟩
  · rw [hinv.ready, streamSlice_take _ _ _ _ hle]
  · show s.nextByte + need ≤ s.curSize; omega
  · have := hinv.ready
    simp only [Session.ready] at this ⊢
    show List.drop (s.nextByte + need) (List.take s.curSize s.buffer) = _
    rw [← List.drop_drop, this, streamSlice_drop _ _ _ _ hle]
    congr 1; omega
  · show 16 * s.ctr = pos + need + (s.curSize - (s.nextByte + need)); have := hinv.ctr; omega

/-- The read loop delivers the next `need` bytes of the stream and keeps the invariant; it terminates
    within `fuel' + 1` iterations when `need ≤ ready + 16·fuel'`. -/
theorem fillLoop_spec (blocks : Nat → List Nat) (hb : ∀ i, (blocks i).length = 16) :
    ∀ (fuel' : Nat) (s : Session) (need : Nat) (acc : List Nat) (pos : Nat), Inv blocks s pos →
      need ≤ (s.curSize - s.nextByte) + 16 * fuel' →
      ∃ s', fillLoop blocks (fuel' + 1) s need acc = .ok (s', acc ++ streamSlice blocks pos need)
        ∧ Inv blocks s' (pos + need) := by
  intro fuel'
  induction fuel' with
  | zero =>
    intro s need acc pos hinv hneed
    have hrl := hinv.ready_length
    unfold fillLoop
    by_cases h0 : need = 0
    · subst h0; exact ⟨s, by simp, by simpa using hinv⟩
    · have hle : need ≤ s.ready.length := by omega
      simp only [h0, hle, if_true, if_false]
      obtain ⟨h1, h2⟩ := inv_consume hinv need (by omega)
      exact ⟨{ s with nextByte := s.nextByte + need }, by rw [h1], h2⟩
  | succ f ih =>
    intro s need acc pos hinv hneed
    have hrl := hinv.ready_length
    unfold fillLoop
    by_cases h0 : need = 0
    · subst h0; exact ⟨s, by simp, by simpa using hinv⟩
    · by_cases hle : need ≤ s.ready.length
      · simp only [h0, hle, if_true, if_false]
        obtain ⟨h1, h2⟩ := inv_consume hinv need (by omega)
        exact ⟨{ s with nextByte := s.nextByte + need }, by rw [h1], h2⟩
      · simp only [h0, hle, if_false]
        have hinv2 := inv_oneBatch blocks hb { s with nextByte := 0 } hinv.ns16 hinv.nspos
        have hcur : (oneBatch blocks { s with nextByte := 0 }).curSize = s.nextSize := rfl
        have hnb : (oneBatch blocks { s with nextByte := 0 }).nextByte = 0 := rfl
        have hns := hinv.ns16
        have hnp := hinv.nspos
        have hc := hinv.ctr
        obtain ⟨s', hs', hinv'⟩ := ih (oneBatch blocks { s with nextByte := 0 }) (need - s.ready.length)
          (acc ++ s.ready) (16 * s.ctr) hinv2 (by rw [hcur, hnb]; omega)
        refine ⟨s', ?_, ?_⟩
        · rw [hs', List.append_assoc]
          congr 2
          rw [hrl, hinv.ready, show (16 * s.ctr) = pos + (s.curSize - s.nextByte) from hc,
            ← streamSlice_add]
          have e : s.curSize - s.nextByte + (need - (s.curSize - s.nextByte)) = need := by omega
          rw [e]
        · have : 16 * s.ctr + (need - s.ready.length) = pos + need := by omega
          rw [← this]; exact hinv'

/-- `generate_random_bytes`: the next `n` stream bytes. -/
theorem generateRandomBytes_spec (blocks : Nat → List Nat) (hb : ∀ i, (blocks i).length = 16)
    (s : Session) (n pos : Nat) (hinv : Inv blocks s pos) :
    ∃ s', generateRandomBytes blocks s n = .ok (s', streamSlice blocks pos n) ∧ Inv blocks s' (pos + n) := by
  have := fillLoop_spec blocks hb n s n [] pos hinv (by omega)
  simpa [generateRandomBytes] using this


/-! ### counting residues -/


/-- number of `r < N` with `r % m = c` -/
def countRes (N m c : Nat) : Nat := ((List.range N).filter (fun r => r % m = c)).length

theorem count_eq_lt (m c : Nat) : ((List.range m).filter (fun r => r = c)).length = if c < m then 1 else 0 := by
  induction m with
  | zero => simp
  | succ m ih =>
    rw [List.range_succ, List.filter_append, List.length_append, ih]
    by_cases h1 : c < m
    · have : ¬ m = c := by omega
      simp [h1, this]; omega
    · by_cases h2 : m = c
      · subst h2; simp
      · have : ¬ c < m + 1 := by omega
        simp [h1, h2, this]

theorem countRes_mul (m q c : Nat) (hc : c < m) : countRes (m * q) m c = q := by
  induction q with
  | zero => simp [countRes]
  | succ q ih =>
    unfold countRes at ih ⊢
    rw [Nat.mul_succ, List.range_add, List.filter_append, List.length_append, ih, List.filter_map,
      List.length_map]
    have : (List.filter ((fun r => decide (r % m = c)) ∘ fun x => m * q + x) (List.range m))
        = (List.range m).filter (fun r => r = c) := by
      apply List.filter_congr
      intro x hx
      have hx : x < m := by simpa using hx
      simp [Nat.mod_eq_of_lt hx]
    rw [this, count_eq_lt]; simp [hc]


/-! ### swaps -/


@[simp] theorem length_swap (a : List Nat) (i j : Nat) : (swap a i j).length = a.length := by
  simp [swap]

theorem swap_perm (a : List Nat) (i j : Nat) (hi : i < a.length) (hj : j < a.length) :
    (swap a i j).Perm a := by
  rw [List.perm_iff_count]
  intro b
  have hj' : j < (a.set i a[j]).length := by simpa using hj
  have e1 : a.getD j 0 = a[j] := by simp [List.getD_eq_getElem?_getD, hj]
  have e2 : a.getD i 0 = a[i] := by simp [List.getD_eq_getElem?_getD, hi]
  have ci : a[i] = b → 1 ≤ List.count b a := by
    intro h; exact List.count_pos_iff.mpr (h ▸ List.getElem_mem hi)
  have cj : a[j] = b → 1 ≤ List.count b a := by
    intro h; exact List.count_pos_iff.mpr (h ▸ List.getElem_mem hj)
  have hs : swap a i j = (a.set i a[j]).set j a[i] := by simp only [swap, e1, e2]
  rw [hs, List.count_set hj', List.count_set hi, List.getElem_set]
  by_cases hij : i = j
  · subst hij; simp only [if_true, beq_iff_eq]
    by_cases h : a[i] = b <;> simp [h] <;> (try have := ci h) <;> omega
  · simp only [hij, if_false, beq_iff_eq]
    by_cases h1 : a[i] = b <;> by_cases h2 : a[j] = b <;> simp [h1, h2] <;>
      (try have := ci h1) <;> (try have := cj h2) <;> omega


/-! ### ⌈log₂⌉ -/

theorem clog2Aux_spec (m : Nat) : ∀ (fuel k : Nat), m ≤ 2 ^ (k + fuel) → m ≤ 2 ^ clog2Aux m fuel k := by
  intro fuel
  induction fuel with
  | zero => intro k h; simpa [clog2Aux] using h
  | succ f ih =>
    intro k h
    unfold clog2Aux
    split
    · assumption
    · exact ih (k + 1) (by rw [show k + 1 + f = k + (f + 1) by omega]; exact h)

theorem le_two_pow_clog2 (m : Nat) : m ≤ 2 ^ clog2 m := by
  unfold clog2
  exact clog2Aux_spec m m 0 (by rw [Nat.zero_add]; exact Nat.le_of_lt Nat.lt_two_pow_self)

/-- the draw space of `generate_u32_in_range` is at least 256 times the modulus -/
theorem needBytes_space (m : Nat) : 256 * m ≤ 2 ^ (needBytes m * 8) := by
  have h := le_two_pow_clog2 m
  unfold needBytes
  have e : ((clog2 m + 7) / 8 + 1) * 8 = 8 + ((clog2 m + 7) / 8 * 8) := by omega
  rw [e, Nat.pow_add]
  have : 2 ^ clog2 m ≤ 2 ^ ((clog2 m + 7) / 8 * 8) := Nat.pow_le_pow_right (by decide) (by omega)
  have h256 : (2 : Nat) ^ 8 = 256 := by decide
  rw [h256]
  exact Nat.mul_le_mul_left 256 (Nat.le_trans h this)

/-! ### values -/


theorem RTy.induct' {P : RTy → Prop} (harr : ∀ sb dims, P (.arr sb dims))
    (htup : ∀ ts, (∀ t ∈ ts, P t) → P (.tup ts)) (hvec : ∀ n t, P t → P (.vec n t)) : ∀ t, P t := by
  intro t
  refine RTy.rec (motive_1 := P) (motive_2 := fun ts => ∀ t ∈ ts, P t) harr htup hvec ?_ ?_ t
  · intro t h; cases h
  · intro h tl ih1 ih2 x hx
    rcases List.mem_cons.mp hx with rfl | hx
    · exact ih1
    · exact ih2 x hx

mutual
/-- `v` is a valid value of type `t`: right shape, right byte lengths, bytes < 256, and the integer
    stored in every scalar/array leaf is below `2^bits` (all unused bits are zero). -/
def WellTyped : RTy → RVal → Prop
  | .arr sb dims, .bytes bs =>
    bs.length = (arrBits sb dims + 7) / 8 ∧ (∀ b ∈ bs, b < 256) ∧ leValue bs < 2 ^ arrBits sb dims
  | .tup ts, .vec vs => WellTypedList ts vs
  | .vec n t, .vec vs => vs.length = n ∧ ∀ v ∈ vs, WellTyped t v
  | _, _ => False
def WellTypedList : List RTy → List RVal → Prop
  | [], [] => True
  | t :: ts, v :: vs => WellTyped t v ∧ WellTypedList ts vs
  | _, _ => False
end

theorem length_flushLast (bs : List Nat) (k : Nat) : (flushLast bs k).length = bs.length := by
  induction bs with
  | nil => rfl
  | cons b rest ih =>
    cases rest with
    | nil => rfl
    | cons c rest => simp only [flushLast, List.length_cons] at ih ⊢; omega

theorem flushLast_lt (bs : List Nat) (k : Nat) (h : ∀ b ∈ bs, b < 256) : ∀ b ∈ flushLast bs k, b < 256 := by
  induction bs with
  | nil => intro b hb; cases hb
  | cons x rest ih =>
    cases rest with
    | nil =>
      intro b hb
      simp only [flushLast, List.mem_singleton] at hb
      subst hb
      exact Nat.lt_of_le_of_lt (Nat.div_le_self _ _) (h x (by simp))
    | cons c rest =>
      intro b hb
      simp only [flushLast, List.mem_cons] at hb
      rcases hb with rfl | hb
      · exact h _ (by simp)
      · exact ih (fun b hb => h b (List.mem_cons_of_mem _ hb)) b (by simpa [List.mem_cons] using hb)

theorem leValue_flushLast (bs : List Nat) (k : Nat) (hk : k < 8) (h : ∀ b ∈ bs, b < 256) (hne : bs ≠ []) :
    leValue (flushLast bs k) < 2 ^ (8 * bs.length - k) := by
  induction bs with
  | nil => exact absurd rfl hne
  | cons x rest ih =>
    cases rest with
    | nil =>
      simp only [flushLast, leValue, List.length_cons, List.length_nil]
      have hx : x < 256 := h x (by simp)
      rw [Nat.mul_zero, Nat.add_zero, Nat.div_lt_iff_lt_mul (Nat.two_pow_pos k), ← Nat.pow_add,
        show 8 * (0 + 1) - k + k = 8 by omega]
      exact hx
    | cons c rest =>
      have ih' := ih (fun b hb => h b (List.mem_cons_of_mem _ hb)) (by simp)
      simp only [flushLast, leValue, List.length_cons] at ih' ⊢
      have hx : x < 256 := h x (by simp)
      have e : 8 * (rest.length + 1 + 1) - k = 8 + (8 * (rest.length + 1) - k) := by omega
      rw [e, Nat.pow_add]
      have h256 : (2 : Nat) ^ 8 = 256 := by decide
      rw [h256]
      generalize leValue (flushLast (c :: rest) k) = v at ih' ⊢
      generalize 2 ^ (8 * (rest.length + 1) - k) = P at ih' ⊢
      have : 256 * (v + 1) ≤ 256 * P := Nat.mul_le_mul_left 256 ih'
      omega

theorem streamSlice_lt (blocks : Nat → List Nat) (hbyte : ∀ i, ∀ x ∈ blocks i, x < 256) (a n : Nat) :
    ∀ b ∈ streamSlice blocks a n, b < 256 := by
  intro b hb
  simp only [streamSlice, List.mem_map] at hb
  obtain ⟨j, _, rfl⟩ := hb
  unfold streamByte
  rw [List.getD_eq_getElem?_getD]
  cases h : (blocks ((a + j) / 16))[(a + j) % 16]? with
  | none => simp
  | some x => simp; exact hbyte _ x (List.mem_of_getElem? h)

/-- what the value-generation theorems say about one type -/
def ValueSpec (blocks : Nat → List Nat) (t : RTy) : Prop :=
  ∀ pos, ∃ v n, WellTyped t v ∧
    ∀ s, Inv blocks s pos → ∃ s', genValue blocks t s = .ok (s', v) ∧ Inv blocks s' (pos + n)

theorem genLeaf_spec (blocks : Nat → List Nat) (hb : ∀ i, (blocks i).length = 16)
    (hbyte : ∀ i, ∀ x ∈ blocks i, x < 256) (sb : Nat) (dims : List Nat) : ValueSpec blocks (.arr sb dims) := by
  intro pos
  refine ⟨.bytes (flushLast (streamSlice blocks pos ((arrBits sb dims + 7) / 8))
    (8 * ((arrBits sb dims + 7) / 8) - arrBits sb dims)), (arrBits sb dims + 7) / 8, ?_, ?_⟩
  · simp only [WellTyped]
    refine ⟨by simp [length_flushLast], flushLast_lt _ _ (streamSlice_lt blocks hbyte _ _), ?_⟩
    by_cases h0 : (arrBits sb dims + 7) / 8 = 0
    · have : arrBits sb dims = 0 := by omega
      rw [h0, this]; simp [flushLast, leValue]
    · have := leValue_flushLast (streamSlice blocks pos ((arrBits sb dims + 7) / 8))
        (8 * ((arrBits sb dims + 7) / 8) - arrBits sb dims) (by omega)
        (streamSlice_lt blocks hbyte _ _) (by intro h; have := congrArg List.length h; simp at this; omega)
      rw [length_streamSlice] at this
      rwa [show 8 * ((arrBits sb dims + 7) / 8) - (8 * ((arrBits sb dims + 7) / 8) - arrBits sb dims)
        = arrBits sb dims by omega] at this
  · intro s hinv
    obtain ⟨s', h1, h2⟩ := generateRandomBytes_spec blocks hb s ((arrBits sb dims + 7) / 8) pos hinv
    exact ⟨s', by simp only [genValue, genLeaf, h1], h2⟩

theorem genList_spec (blocks : Nat → List Nat) (ts : List RTy) (h : ∀ t ∈ ts, ValueSpec blocks t) :
    ∀ pos, ∃ vs n, WellTypedList ts vs ∧
      ∀ s, Inv blocks s pos → ∃ s', genList blocks ts s = .ok (s', vs) ∧ Inv blocks s' (pos + n) := by
  induction ts with
  | nil => intro pos; exact ⟨[], 0, by simp [WellTypedList], fun s hinv => ⟨s, by simp [genList], by simpa using hinv⟩⟩
  | cons t ts ih =>
    intro pos
    obtain ⟨v, n, hv, hgen⟩ := h t (by simp) pos
    obtain ⟨vs, n', hvs, hgens⟩ := ih (fun t ht => h t (List.mem_cons_of_mem _ ht)) (pos + n)
    refine ⟨v :: vs, n + n', by simp [WellTypedList, hv, hvs], ?_⟩
    intro s hinv
    obtain ⟨s1, h1, hinv1⟩ := hgen s hinv
    obtain ⟨s2, h2, hinv2⟩ := hgens s1 hinv1
    exact ⟨s2, by simp only [genList, h1, h2], by simpa [Nat.add_assoc] using hinv2⟩

theorem repeatGen_spec (blocks : Nat → List Nat) (t : RTy) (h : ValueSpec blocks t) (k : Nat) :
    ∀ pos, ∃ vs n, (vs.length = k ∧ ∀ v ∈ vs, WellTyped t v) ∧
      ∀ s, Inv blocks s pos → ∃ s', repeatGen (genValue blocks t) k s = .ok (s', vs) ∧ Inv blocks s' (pos + n) := by
  induction k with
  | zero => intro pos; exact ⟨[], 0, by simp, fun s hinv => ⟨s, by simp [repeatGen], by simpa using hinv⟩⟩
  | succ k ih =>
    intro pos
    obtain ⟨v, n, hv, hgen⟩ := h pos
    obtain ⟨vs, n', ⟨hl, hvs⟩, hgens⟩ := ih (pos + n)
    refine ⟨v :: vs, n + n', ⟨by simp [hl], ?_⟩, ?_⟩
    · intro x hx
      rcases List.mem_cons.mp hx with rfl | hx
      · exact hv
      · exact hvs x hx
    · intro s hinv
      obtain ⟨s1, h1, hinv1⟩ := hgen s hinv
      obtain ⟨s2, h2, hinv2⟩ := hgens s1 hinv1
      exact ⟨s2, by simp only [repeatGen, h1, h2], by simpa [Nat.add_assoc] using hinv2⟩

theorem genValue_spec (blocks : Nat → List Nat) (hb : ∀ i, (blocks i).length = 16)
    (hbyte : ∀ i, ∀ x ∈ blocks i, x < 256) : ∀ t, ValueSpec blocks t := by
  apply RTy.induct'
  · exact genLeaf_spec blocks hb hbyte
  · intro ts ih pos
    obtain ⟨vs, n, hvs, hgen⟩ := genList_spec blocks ts ih pos
    refine ⟨.vec vs, n, by simpa [WellTyped] using hvs, ?_⟩
    intro s hinv
    obtain ⟨s', h1, h2⟩ := hgen s hinv
    exact ⟨s', by simp only [genValue, h1], h2⟩
  · intro k t ih pos
    obtain ⟨vs, n, hvs, hgen⟩ := repeatGen_spec blocks t ih k pos
    refine ⟨.vec vs, n, by simpa [WellTyped] using hvs, ?_⟩
    intro s hinv
    obtain ⟨s', h1, h2⟩ := hgen s hinv
    exact ⟨s', by simp only [genValue, h1], h2⟩


/-! ### Fisher–Yates as a map from index sequences -/


theorem getD_swap (a : List Nat) (i j p : Nat) (hi : i < a.length) (hj : j < a.length) :
    (swap a i j).getD p 0 = if p = j then a.getD i 0 else if p = i then a.getD j 0 else a.getD p 0 := by
  simp only [swap, List.getD_eq_getElem?_getD, List.getElem?_set, List.length_set]
  by_cases h1 : j = p
  · subst h1; simp [hj]
  · have h1' : ¬ p = j := fun h => h1 h.symm
    by_cases h2 : i = p
    · subst h2; simp [h1, h1', hi]
    · have h2' : ¬ p = i := fun h => h2 h.symm
      simp [h1, h1', h2, h2']

theorem nodup_getD_inj (l : List Nat) (h : l.Nodup) (i j : Nat) (hi : i < l.length) (hj : j < l.length)
    (e : l.getD i 0 = l.getD j 0) : i = j := by
  have e' : l[i] = l[j] := by
    simpa [List.getD_eq_getElem?_getD, List.getElem?_eq_getElem hi, List.getElem?_eq_getElem hj] using e
  have hp := List.pairwise_iff_getElem.mp h
  rcases Nat.lt_trichotomy i j with hlt | heq | hgt
  · exact absurd e' (hp i j hi hj hlt)
  · exact heq
  · exact absurd e'.symm (hp j i hj hi hgt)

theorem swap_swap (a : List Nat) (i j : Nat) (hi : i < a.length) (hj : j < a.length) :
    swap (swap a i j) i j = a := by
  apply List.ext_getElem
  · simp
  · intro p h1 h2
    have hi' : i < (swap a i j).length := by simpa using hi
    have hj' : j < (swap a i j).length := by simpa using hj
    have := getD_swap (swap a i j) i j p hi' hj'
    rw [getD_swap a i j i hi hj, getD_swap a i j j hi hj, getD_swap a i j p hi hj] at this
    have hl : (swap (swap a i j) i j).getD p 0 = (swap (swap a i j) i j)[p] := by
      simp [List.getD_eq_getElem?_getD, List.getElem?_eq_getElem h1]
    have hr : a.getD p 0 = a[p] := by
      simp [List.getD_eq_getElem?_getD, List.getElem?_eq_getElem h2]
    rw [← hl, ← hr, this]
    by_cases e1 : p = j
    · subst e1; by_cases e2 : i = p <;> simp [e2]
    · by_cases e2 : p = i
      · subst e2; simp [e1]
      · simp [e1, e2]

theorem applySwaps_append (a : List Nat) (i : Nat) (js : List Nat) (j : Nat) :
    applySwaps a i (js ++ [j]) = swap (applySwaps a i js) (i + js.length) j := by
  induction js generalizing a i with
  | nil => simp [applySwaps]
  | cons x js ih => simp only [List.cons_append, applySwaps, ih, List.length_cons]; congr 1; omega

/-- the k-th draw is at most `i + k` (it is `< i + k + 1`) -/
def InRange (i : Nat) (js : List Nat) : Prop := ∀ k, k < js.length → js.getD k 0 ≤ i + k

theorem InRange.tail {i j : Nat} {js : List Nat} (h : InRange i (j :: js)) : InRange (i + 1) js := by
  intro k hk
  have := h (k + 1) (by simp; omega)
  simp only [List.getD_eq_getElem?_getD, List.getElem?_cons_succ] at this ⊢
  omega

theorem applySwaps_props (js : List Nat) : ∀ (a : List Nat) (i : Nat), InRange i js → i + js.length ≤ a.length →
    (applySwaps a i js).length = a.length ∧ (applySwaps a i js).Perm a ∧
    ∀ p, i + js.length ≤ p → (applySwaps a i js).getD p 0 = a.getD p 0 := by
  induction js with
  | nil => intro a i _ _; exact ⟨rfl, List.Perm.refl _, fun _ _ => rfl⟩
  | cons j js ih =>
    intro a i hr hlen
    simp only [List.length_cons] at hlen
    have hj : j ≤ i := by have := hr 0 (by simp); simpa using this
    obtain ⟨h1, h2, h3⟩ := ih (swap a i j) (i + 1) hr.tail (by simp; omega)
    refine ⟨by simpa [applySwaps] using h1, h2.trans (swap_perm a i j (by omega) (by omega)), ?_⟩
    intro p hp
    simp only [List.length_cons] at hp
    rw [applySwaps, h3 p (by omega), getD_swap a i j p (by omega) (by omega)]
    have e1 : ¬ p = j := by omega
    have e2 : ¬ p = i := by omega
    simp [e1, e2]

/-- **Fisher–Yates is injective on index sequences**: on a duplicate-free array, two in-range
    sequences of draws of the same length that produce the same array are equal. -/
theorem applySwaps_injective (a : List Nat) (hnd : a.Nodup) (i : Nat) :
    ∀ (n : Nat) (js js' : List Nat), js.length = n → js'.length = n → InRange i js → InRange i js' →
      i + n ≤ a.length → applySwaps a i js = applySwaps a i js' → js = js' := by
  intro n
  induction n with
  | zero =>
    intro js js' h1 h2 _ _ _ _
    rw [List.length_eq_zero_iff.mp h1, List.length_eq_zero_iff.mp h2]
  | succ n ih =>
    intro js js' h1 h2 hr hr' hlen heq
    rcases List.eq_nil_or_concat js with rfl | ⟨L, j, rfl⟩
    · simp at h1
    rcases List.eq_nil_or_concat js' with rfl | ⟨L', j', rfl⟩
    · simp at h2
    simp only [List.concat_eq_append, List.length_append, List.length_cons, List.length_nil] at h1 h2
    have hL : L.length = n := by omega
    have hL' : L'.length = n := by omega
    have hrL : InRange i L := by
      intro k hk
      have := hr k (by simp; omega)
      simpa [List.getD_eq_getElem?_getD, List.getElem?_append_left hk] using this
    have hrL' : InRange i L' := by
      intro k hk
      have := hr' k (by simp; omega)
      simpa [List.getD_eq_getElem?_getD, List.getElem?_append_left hk] using this
    have hj : j ≤ i + n := by
      have := hr n (by simp; omega)
      simpa [List.getD_eq_getElem?_getD, List.getElem?_append_right (Nat.le_of_eq hL), hL] using this
    have hj' : j' ≤ i + n := by
      have := hr' n (by simp; omega)
      simpa [List.getD_eq_getElem?_getD, List.getElem?_append_right (Nat.le_of_eq hL'), hL'] using this
    obtain ⟨l1, p1, u1⟩ := applySwaps_props L a i hrL (by omega)
    obtain ⟨l2, p2, u2⟩ := applySwaps_props L' a i hrL' (by omega)
    simp only [List.concat_eq_append, applySwaps_append, hL, hL'] at heq
    -- where the final array holds the element that sat at index i + n
    have g1 := getD_swap (applySwaps a i L) (i + n) j j (by omega) (by omega)
    have g2 := getD_swap (applySwaps a i L') (i + n) j' j' (by omega) (by omega)
    simp only [if_true] at g1 g2
    rw [u1 (i + n) (by omega)] at g1
    rw [u2 (i + n) (by omega)] at g2
    have hnd1 : (swap (applySwaps a i L) (i + n) j).Nodup :=
      ((swap_perm _ _ _ (by omega) (by omega)).trans p1).nodup_iff.mpr hnd
    have hjj : j = j' := by
      apply nodup_getD_inj _ hnd1 j j' (by simp; omega) (by simp; omega)
      rw [g1]; rw [heq, g2]
    subst hjj
    have hA : applySwaps a i L = applySwaps a i L' := by
      rw [← swap_swap (applySwaps a i L) (i + n) j (by omega) (by omega), heq,
        swap_swap _ _ _ (by omega) (by omega)]
    rw [ih L L' hL hL' hrL hrL' (by omega) hA]

theorem getD_eq_getElem' (l : List Nat) (p : Nat) (h : p < l.length) : l.getD p 0 = l[p] := by
  simp [List.getD_eq_getElem?_getD, List.getElem?_eq_getElem h]

theorem ext_getD (l l' : List Nat) (hl : l.length = l'.length) (h : ∀ q, q < l.length → l.getD q 0 = l'.getD q 0) : l = l' := by
  apply List.ext_getElem hl
  intro q h1 h2
  rw [← getD_eq_getElem' l q h1, ← getD_eq_getElem' l' q h2]; exact h q h1

theorem swap_self (a : List Nat) (i : Nat) (hi : i < a.length) : swap a i i = a := by
  apply ext_getD _ _ (by simp)
  intro q _
  rw [getD_swap a i i q hi hi]
  by_cases e : q = i
  · subst e; simp
  · simp [e]

/-- **Fisher–Yates is surjective onto the permutations**: on a duplicate-free array `a`, every
    rearrangement `p` of `a` that leaves the positions `≥ n` alone is produced by some in-range sequence
    of `n` draws (used at indices `0, 1, …, n−1`).  Constructive: the last draw is the position at which
    `p` holds `a[n−1]`; undo that swap and recurse. -/
theorem applySwaps_surjective : ∀ (n : Nat) (a p : List Nat), a.Nodup → p.Perm a → n ≤ a.length →
    (∀ q, n ≤ q → p.getD q 0 = a.getD q 0) →
    ∃ js, js.length = n ∧ InRange 0 js ∧ applySwaps a 0 js = p := by
  intro n
  induction n with
  | zero =>
    intro a p _ hp _ hag
    refine ⟨[], rfl, fun k hk => by simp at hk, ?_⟩
    simp only [applySwaps]
    exact (ext_getD p a hp.length_eq (fun q _ => hag q (Nat.zero_le _))).symm
  | succ n ih =>
    intro a p hnd hp hlen hag
    have hpl : p.length = a.length := hp.length_eq
    have hx : a[n] ∈ p := hp.mem_iff.mpr (List.getElem_mem _)
    obtain ⟨j, hjl, hj⟩ := List.getElem_of_mem hx
    have hjn : j ≤ n := by
      by_cases h : j ≤ n
      · exact h
      · exfalso
        have h1 := hag j (by omega)
        rw [getD_eq_getElem' p j hjl, hj, ← getD_eq_getElem' a n (by omega)] at h1
        have := nodup_getD_inj a hnd n j (by omega) (by omega) h1
        omega
    have hp' : (swap p n j).Perm a := (swap_perm p n j (by omega) (by omega)).trans hp
    have hag' : ∀ q, n ≤ q → (swap p n j).getD q 0 = a.getD q 0 := by
      intro q hq
      rw [getD_swap p n j q (by omega) (by omega)]
      by_cases e1 : q = n
      · subst e1
        have hpj : p.getD j 0 = a.getD q 0 := by
          rw [getD_eq_getElem' p j hjl, hj, getD_eq_getElem' a q (by omega)]
        by_cases e2 : q = j
        · subst e2; simpa using hpj
        · simpa [e2] using hpj
      · have e2 : ¬ q = j := by omega
        simp only [e1, e2, if_false]
        exact hag q (by omega)
    obtain ⟨L, hL, hrL, hA⟩ := ih a (swap p n j) hnd hp' (by omega) hag'
    refine ⟨L ++ [j], by simp [hL], ?_, ?_⟩
    · intro k hk
      simp only [List.length_append, List.length_cons, List.length_nil] at hk
      by_cases hk' : k < L.length
      · have := hrL k hk'
        simpa [List.getD_eq_getElem?_getD, List.getElem?_append_left hk'] using this
      · have hk2 : k = n := by omega
        subst hk2
        simp [List.getD_eq_getElem?_getD, hL]
        omega
    · rw [applySwaps_append, hA, hL, Nat.zero_add]
      exact swap_swap p n j (by omega) (by omega)


/-! ### numbers read through `generate_random_number_const` -/


/-- `generate_random_number_const::<need>` (its own straddling logic): the next `need ≤ 16` stream
    bytes as a little-endian number; invariant kept. -/
theorem randomNumber_spec (blocks : Nat → List Nat) (hb : ∀ i, (blocks i).length = 16)
    (s : Session) (pos need : Nat) (hinv : Inv blocks s pos) (hneed : need ≤ 16) :
    (randomNumber blocks s need).2 = leValue (streamSlice blocks pos need) % 2 ^ (8 * need)
      ∧ Inv blocks (randomNumber blocks s need).1 (pos + need) := by
  have hready : s.buffer.drop s.nextByte = s.ready := by
    simp only [Session.ready]; rw [List.take_of_length_le (Nat.le_of_eq hinv.len)]
  have hrl := hinv.ready_length
  unfold randomNumber
  dsimp only
  by_cases hu : min (s.curSize - s.nextByte) need = need
  · simp only [hu, if_true]
    have hle : need ≤ s.curSize - s.nextByte := by rw [Nat.min_def] at hu; split at hu <;> omega
    obtain ⟨h1, h2⟩ := inv_consume hinv need hle
    rw [hready, h1]; exact ⟨rfl, h2⟩
  · have hlt : s.curSize - s.nextByte < need := by rw [Nat.min_def] at hu; split at hu <;> omega
    have hmin : min (s.curSize - s.nextByte) need = s.curSize - s.nextByte := by
      rw [Nat.min_def]; split <;> omega
    simp only [hu, if_false]
    rw [hmin, hready, List.take_of_length_le (Nat.le_of_eq hrl), hinv.ready]
    have hinv2 := inv_oneBatch blocks hb s hinv.ns16 hinv.nspos
    have hns := hinv.ns16
    have hnp := hinv.nspos
    have hcur : (oneBatch blocks s).curSize = s.nextSize := rfl
    have hnb : (oneBatch blocks s).nextByte = 0 := rfl
    have hr2 : (oneBatch blocks s).ready = (oneBatch blocks s).buffer := by
      simp only [Session.ready, hnb, List.drop_zero]
      rw [List.take_of_length_le (Nat.le_of_eq hinv2.len)]
    obtain ⟨h1, h2⟩ := inv_consume hinv2 (need - (s.curSize - s.nextByte)) (by rw [hcur, hnb]; omega)
    rw [hr2] at h1
    rw [h1, show 16 * s.ctr = pos + (s.curSize - s.nextByte) from hinv.ctr, ← streamSlice_add,
      show s.curSize - s.nextByte + (need - (s.curSize - s.nextByte)) = need by omega]
    refine ⟨rfl, ?_⟩
    have e : 16 * s.ctr + (need - (s.curSize - s.nextByte)) = pos + need := by have := hinv.ctr; omega
    rw [e, hnb, Nat.zero_add] at h2
    exact h2

/-- two results agree up to the session: same error, or same value with both sessions at the same
    stream position -/
def SameUpToSession {α : Type} (blocks : Nat → List Nat) (r1 r2 : Except String (Session × α)) : Prop :=
  (∃ e, r1 = .error e ∧ r2 = .error e) ∨
  (∃ s1 s2 v pos, r1 = .ok (s1, v) ∧ r2 = .ok (s2, v) ∧ Inv blocks s1 pos ∧ Inv blocks s2 pos)

theorem u32Loop_same (blocks : Nat → List Nat) (hb : ∀ i, (blocks i).length = 16) (m nb bound : Nat)
    (hnb : nb ≤ 16) : ∀ (fuel : Nat) (s1 s2 : Session) (pos : Nat), Inv blocks s1 pos → Inv blocks s2 pos →
      SameUpToSession blocks (u32Loop blocks m nb bound fuel s1) (u32Loop blocks m nb bound fuel s2) := by
  intro fuel
  induction fuel with
  | zero => intro s1 s2 pos _ _; exact Or.inl ⟨"fuel", rfl, rfl⟩
  | succ f ih =>
    intro s1 s2 pos h1 h2
    obtain ⟨v1, i1⟩ := randomNumber_spec blocks hb s1 pos nb h1 hnb
    obtain ⟨v2, i2⟩ := randomNumber_spec blocks hb s2 pos nb h2 hnb
    simp only [u32Loop]
    rw [show randomNumber blocks s1 nb = ((randomNumber blocks s1 nb).1, (randomNumber blocks s1 nb).2) from rfl,
      show randomNumber blocks s2 nb = ((randomNumber blocks s2 nb).1, (randomNumber blocks s2 nb).2) from rfl]
    dsimp only
    rw [v1, v2]
    split
    · exact Or.inr ⟨_, _, _, _, rfl, rfl, i1, i2⟩
    · exact ih _ _ _ i1 i2

theorem clog2Aux_le (m K : Nat) (hm : m ≤ 2 ^ K) : ∀ (fuel k : Nat), k ≤ K → clog2Aux m fuel k ≤ K := by
  intro fuel
  induction fuel with
  | zero => intro k hk; simpa [clog2Aux] using hk
  | succ f ih =>
    intro k hk
    unfold clog2Aux
    split
    · exact hk
    · rename_i h
      apply ih (k + 1)
      rcases Nat.lt_or_ge k K with h' | h'
      · exact h'
      · exact absurd (Nat.le_trans hm (Nat.pow_le_pow_right (by decide) h')) h

theorem needBytes_le (m : Nat) (hm : m < 2 ^ 32) : needBytes m ≤ 5 := by
  have : clog2 m ≤ 32 := clog2Aux_le m 32 (Nat.le_of_lt hm) m 0 (Nat.zero_le _)
  unfold needBytes; omega

theorem u32InRange_same (blocks : Nat → List Nat) (hb : ∀ i, (blocks i).length = 16) (fuel m : Nat)
    (hm : m < 2 ^ 32) (s1 s2 : Session) (pos : Nat) (h1 : Inv blocks s1 pos) (h2 : Inv blocks s2 pos) :
    SameUpToSession blocks (u32InRange blocks fuel s1 m) (u32InRange blocks fuel s2 m) := by
  unfold u32InRange
  split
  · exact Or.inl ⟨_, rfl, rfl⟩
  · exact u32Loop_same blocks hb m _ _ (by have := needBytes_le m hm; omega) fuel s1 s2 pos h1 h2

theorem u32Many_same (blocks : Nat → List Nat) (hb : ∀ i, (blocks i).length = 16) (fuel : Nat) :
    ∀ (ms : List Nat), (∀ m ∈ ms, m < 2 ^ 32) → ∀ (s1 s2 : Session) (pos : Nat),
      Inv blocks s1 pos → Inv blocks s2 pos →
      SameUpToSession blocks (u32Many blocks fuel s1 ms) (u32Many blocks fuel s2 ms) := by
  intro ms
  induction ms with
  | nil => intro _ s1 s2 pos h1 h2; exact Or.inr ⟨s1, s2, [], pos, rfl, rfl, h1, h2⟩
  | cons m ms ih =>
    intro hms s1 s2 pos h1 h2
    rcases u32InRange_same blocks hb fuel m (hms m (by simp)) s1 s2 pos h1 h2 with
      ⟨e, e1, e2⟩ | ⟨t1, t2, v, pos', e1, e2, i1, i2⟩
    · exact Or.inl ⟨e, by simp only [u32Many, e1], by simp only [u32Many, e2]⟩
    · rcases ih (fun m hm => hms m (List.mem_cons_of_mem _ hm)) t1 t2 pos' i1 i2 with
        ⟨e, f1, f2⟩ | ⟨u1, u2, vs, pos'', f1, f2, j1, j2⟩
      · exact Or.inl ⟨e, by simp only [u32Many, e1, f1], by simp only [u32Many, e2, f2]⟩
      · exact Or.inr ⟨u1, u2, v :: vs, pos'', by simp only [u32Many, e1, f1], by simp only [u32Many, e2, f2], j1, j2⟩


end CCV.Random
