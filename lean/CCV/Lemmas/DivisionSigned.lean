import CCV.Lemmas.Division
import Mathlib.Tactic.LinearCombination
/- helper lemmas for the signed mode of long_division.rs: `abs` and `adjust_negative` on values. -/
namespace CCV.Division
open CCV.Adder CCV.Mux CCV.Clip

theorem isZero_iff (x : List Bool) : isZero x = true ↔ val x = 0 := by
  induction x with
  | nil => simp [isZero, val]
  | cons b t ih =>
    have e : isZero (b :: t) = ((b == false) && isZero t) := by simp [isZero]
    rw [e]
    cases b
    · simp only [beq_self_eq_true, Bool.true_and, val, Bool.toNat_false, ih]
      omega
    · constructor
      · intro h; simp at h
      · intro h; simp [val] at h

theorem two_pow_half (n : Nat) (h : 1 ≤ n) : 2 ^ n = 2 * 2 ^ (n - 1) := by
  rw [← Nat.pow_succ']; congr 1; omega

/-- `abs` in signed mode: sign flag, magnitude, and the magnitude is at most `2^(n-1)`. -/
theorem abs_spec (m : Nat) (x : List Bool) (h : x.length = 2 ^ m) :
    (Division.abs true x).1 = msb x ∧ (Division.abs true x).2.length = 2 ^ m ∧
    val (Division.abs true x).2 = (if msb x then 2 ^ (2 ^ m) - val x else val x) ∧
    2 * val (Division.abs true x).2 ≤ 2 ^ (2 ^ m) := by
  have hp : 1 ≤ 2 ^ m := Nat.two_pow_pos m
  have hn := negative_spec m x h
  have hlt := val_lt x
  have hm := msb_iff x (by omega)
  have hh := two_pow_half (2 ^ m) hp
  rw [h] at hlt hm
  have e : (Division.abs true x).2 = if msb x then negative x else x := by
    simp only [Division.abs, if_true]
    exact muxBits_eq _ _ _ (by rw [hn.1, h])
  refine ⟨rfl, ?_, ?_, ?_⟩
  · rw [e]; cases msb x <;> simp [hn.1, h]
  · rw [e]
    cases hmx : msb x
    · simp
    · have := hm.mp hmx
      simp only [if_true]
      rw [hn.2, Nat.mod_eq_of_lt (by omega)]
  · rw [e]
    cases hmx : msb x
    · have : ¬ 2 ^ (2 ^ m - 1) ≤ val x := fun c => by simp [hm.mpr c] at hmx
      simp only [Bool.false_eq_true, if_false]; omega
    · have := hm.mp hmx
      simp only [if_true]
      rw [hn.2, Nat.mod_eq_of_lt (by omega)]; omega

/-- `adjust_negative` on values. -/
theorem adjustNegative_spec (ma md : Nat) (q r dd : List Bool) (na nd : Bool)
    (hq : q.length = 2 ^ ma) (hr : r.length = 2 ^ md) (hdd : dd.length = 2 ^ md) (hR : val r < val dd) :
    (adjustNegative q r dd na nd).1.length = 2 ^ ma ∧ (adjustNegative q r dd na nd).2.length = 2 ^ md ∧
    val (adjustNegative q r dd na nd).1
      = (if xor na nd then (if val r = 0 then (2 ^ (2 ^ ma) - val q) % 2 ^ (2 ^ ma) else 2 ^ (2 ^ ma) - 1 - val q)
         else val q) ∧
    val (adjustNegative q r dd na nd).2
      = (if nd then (2 ^ (2 ^ md) - (if val r = 0 then 0 else if xor na nd then val dd - val r else val r))
              % 2 ^ (2 ^ md)
         else (if val r = 0 then 0 else if xor na nd then val dd - val r else val r)) := by
  have hinv : (invertBits q).length = 2 ^ ma := by simp [hq]
  have hiv := val_invertBits q
  have hao := addOne_spec ma (invertBits q) hinv
  have hnr := negative_spec md r hr
  have hadd := (addCore_spec false dd (negative r) md hdd hnr.1).1
  have haddl := addCore_length false dd (negative r) md hdd hnr.1
  have hltq := val_lt q
  have hltd := val_lt dd
  have hltr := val_lt r
  rw [hq] at hltq hiv
  rw [hdd] at hltd
  rw [hr] at hltr
  -- quotient
  have e1 : muxBits (isZero r) (addOne (invertBits q)) (invertBits q)
      = if isZero r then addOne (invertBits q) else invertBits q :=
    muxBits_eq _ _ _ (by rw [hao.1, hinv])
  have l3 : (if isZero r then addOne (invertBits q) else invertBits q).length = 2 ^ ma := by
    cases isZero r <;> simp [hao.1, hinv]
  have eq' : (adjustNegative q r dd na nd).1
      = if xor na nd then (if isZero r then addOne (invertBits q) else invertBits q) else q := by
    simp only [adjustNegative]
    rw [e1]
    exact muxBits_eq _ _ _ (by rw [l3, hq])
  -- remainder
  have e2 : muxBits (xor na nd) (addCore false dd (negative r)).1 r
      = if xor na nd then (addCore false dd (negative r)).1 else r :=
    muxBits_eq _ _ _ (by rw [haddl, hr])
  have l5 : (if xor na nd then (addCore false dd (negative r)).1 else r).length = 2 ^ md := by
    by_cases hx : (xor na nd) = true
    · rw [if_pos hx, haddl]
    · rw [if_neg hx, hr]
  let pos := if isZero r then r else (if xor na nd then (addCore false dd (negative r)).1 else r)
  have e3 : muxBits (isZero r) r (muxBits (xor na nd) (addCore false dd (negative r)).1 r) = pos := by
    rw [e2]
    exact muxBits_eq _ _ _ (by rw [l5, hr])
  have l6 : pos.length = 2 ^ md := by
    show (if isZero r then r else _).length = _
    by_cases hzz : isZero r = true
    · rw [if_pos hzz, hr]
    · rw [if_neg hzz, l5]
  have hnp := negative_spec md pos l6
  have er' : (adjustNegative q r dd na nd).2 = if nd then negative pos else pos := by
    simp only [adjustNegative]
    rw [e3]
    exact muxBits_eq _ _ _ (by rw [hnp.1, l6])
  have hz := isZero_iff r
  have hposv : val pos = if val r = 0 then 0 else if xor na nd then val dd - val r else val r := by
    show val (if isZero r then r else _) = _
    by_cases h0 : val r = 0
    · simp [hz.mpr h0, h0]
    · have hzf : isZero r = false := by
        cases hzz : isZero r
        · rfl
        · exact absurd (hz.mp hzz) h0
      simp only [hzf, Bool.false_eq_true, if_false, h0]
      by_cases hx : (xor na nd) = true
      · rw [if_pos hx, if_pos hx]
        have hnv : val (negative r) = 2 ^ 2 ^ md - val r := by
          rw [hnr.2]; exact Nat.mod_eq_of_lt (by omega)
        rw [hadd, hnv]
        have e : val dd + (2 ^ 2 ^ md - val r) = (val dd - val r) + 2 ^ 2 ^ md * 1 := by omega
        rw [e, Nat.add_mul_mod_self_left, Nat.mod_eq_of_lt (by omega)]
      · rw [if_neg hx, if_neg hx]
  refine ⟨?_, ?_, ?_, ?_⟩
  · rw [eq']
    by_cases hx : (xor na nd) = true
    · rw [if_pos hx, l3]
    · rw [if_neg hx, hq]
  · rw [er']; cases nd <;> simp [hnp.1, l6]
  · rw [eq']
    by_cases hx : ¬ (xor na nd) = true
    · rw [if_neg hx, if_neg hx]
    · have hx := Classical.not_not.mp hx
      rw [if_pos hx, if_pos hx]
      by_cases h0 : val r = 0
      · simp only [hz.mpr h0, if_true, h0]
        rw [hao.2]
        congr 1
        omega
      · have hzf : isZero r = false := by
          cases hzz : isZero r
          · rfl
          · exact absurd (hz.mp hzz) h0
        simp only [hzf, Bool.false_eq_true, if_false, h0]
        omega
  · rw [er']
    cases nd
    · simp only [Bool.false_eq_true, if_false]; exact hposv
    · simp only [if_true]; rw [hnp.2, hposv]


theorem sval_small (x : List Bool) (hx : 1 ≤ x.length) (h : 2 * val x < 2 ^ x.length) :
    sval x = (val x : Int) := by
  have hh := two_pow_half x.length hx
  have hm : msb x = false := by
    cases hmx : msb x
    · rfl
    · have := (msb_iff x hx).mp hmx; omega
  simp [sval, hm]

theorem sval_big (x : List Bool) (hx : 1 ≤ x.length) (h : 2 ^ x.length ≤ 2 * val x) :
    sval x = (val x : Int) - (2 ^ x.length : Nat) := by
  have hh := two_pow_half x.length hx
  have hm : msb x = true := (msb_iff x hx).mpr (by omega)
  simp [sval, hm]

theorem emod_of_add (x P r k : Int) (h : x = r + k * P) (h0 : 0 ≤ r) (h1 : r < P) : x % P = r := by
  rw [h, Int.add_mul_emod_self_right, Int.emod_eq_of_lt h0 h1]

/-- from magnitudes to signed floored division (the arithmetic of `adjust_negative`). -/
theorem signed_arith (n w : Nat) (hn : 1 ≤ n) (hw : 1 ≤ w) (a d q' r' : List Bool)
    (hla : a.length = n) (hld : d.length = w) (hlq : q'.length = n) (hlr : r'.length = w) (A D : Nat)
    (hA : A = if msb a then 2 ^ n - val a else val a) (hD : D = if msb d then 2 ^ w - val d else val d)
    (hD0 : 0 < D) (hD4 : 2 * D ≤ 2 ^ w) (hA4 : 2 * A ≤ 2 ^ n)
    (hq : val q' = if xor (msb a) (msb d) then (if A % D = 0 then (2 ^ n - A / D) % 2 ^ n else 2 ^ n - 1 - A / D)
      else A / D)
    (hr : val r' = if msb d then (2 ^ w - (if A % D = 0 then 0 else if xor (msb a) (msb d) then D - A % D else A % D))
        % 2 ^ w else (if A % D = 0 then 0 else if xor (msb a) (msb d) then D - A % D else A % D)) :
    ∃ qz, FlooredDiv (sval a) (sval d) qz (sval r') ∧ (val q' : Int) = qz % ((2 ^ n : Nat) : Int) := by
  have hva := val_lt a
  have hvd := val_lt d
  rw [hla] at hva
  rw [hld] at hvd
  have hsa : sval a = if msb a then -(A : Int) else (A : Int) := by
    unfold sval; rw [hA, hla]
    cases msb a
    · simp only [Bool.false_eq_true, if_false]
    · simp only [if_true]; omega
  have hsd : sval d = if msb d then -(D : Int) else (D : Int) := by
    unfold sval; rw [hD, hld]
    cases msb d
    · simp only [Bool.false_eq_true, if_false]
    · simp only [if_true]; omega
  have hRD : A % D < D := Nat.mod_lt _ hD0
  have hdm : (A : Int) = (A / D : Nat) * (D : Int) + (A % D : Nat) := by
    have := Nat.div_add_mod A D
    rw [Nat.mul_comm] at this
    exact_mod_cast this.symm
  have hQA : A / D ≤ A := Nat.div_le_self A D
  generalize hQ : A / D = Q at *
  generalize hR : A % D = R at *
  have hPn : (0 : Int) < ((2 ^ n : Nat) : Int) := by exact_mod_cast Nat.two_pow_pos n
  generalize hp : (if R = 0 then 0 else if xor (msb a) (msb d) then D - R else R) = p at *
  have hpD : p < D := by
    rw [← hp]
    repeat' split
    all_goals omega
  have hsr : sval r' = if msb d then -(p : Int) else (p : Int) := by
    cases hmd : msb d
    · simp only [hmd, Bool.false_eq_true, if_false] at hr ⊢
      rw [sval_small r' (by omega) (by rw [hr, hlr]; omega), hr]
    · simp only [hmd, if_true] at hr ⊢
      by_cases hp0 : p = 0
      · have : val r' = 0 := by rw [hr, hp0]; simp
        rw [sval_small r' (by omega) (by rw [this, hlr]; have := Nat.two_pow_pos w; omega), this, hp0]; simp
      · have hv : val r' = 2 ^ w - p := by rw [hr]; exact Nat.mod_eq_of_lt (by omega)
        rw [sval_big r' (by omega) (by rw [hv, hlr]; omega), hv, hlr]
        omega
  rw [hsa, hsd, hsr]
  cases hma : msb a <;> cases hmd : msb d <;>
    simp only [hma, hmd, Bool.xor_false, Bool.xor_true, Bool.not_false, Bool.not_true, Bool.false_eq_true,
      if_false, if_true, Bool.xor_self] at hq hp ⊢
  · -- a ≥ 0, d > 0
    have hpR : p = R := by rw [← hp]; split <;> omega
    refine ⟨(Q : Int), ⟨?_, ?_⟩, ?_⟩
    · rw [hpR]; linear_combination hdm
    · left; omega
    · rw [hq]; exact (Int.emod_eq_of_lt (by omega) (by omega)).symm
  · -- a ≥ 0, d < 0
    by_cases h0 : R = 0
    · rw [if_pos h0] at hp hq
      refine ⟨-(Q : Int), ⟨?_, ?_⟩, ?_⟩
      · subst h0; rw [← hp]; linear_combination hdm
      · right; omega
      · rw [hq]
        by_cases hq0 : Q = 0
        · subst hq0; simp
        · rw [Nat.mod_eq_of_lt (by omega)]
          exact (emod_of_add _ _ _ (-1) (by omega) (by omega) (by omega)).symm
    · rw [if_neg h0] at hp hq
      refine ⟨-(Q : Int) - 1, ⟨?_, ?_⟩, ?_⟩
      · have e : (p : Int) = (D : Int) - R := by omega
        rw [e]; linear_combination hdm
      · right; omega
      · rw [hq]
        exact (emod_of_add _ _ _ (-1) (by omega) (by omega) (by omega)).symm
  · -- a < 0, d > 0
    by_cases h0 : R = 0
    · rw [if_pos h0] at hp hq
      refine ⟨-(Q : Int), ⟨?_, ?_⟩, ?_⟩
      · subst h0; rw [← hp]; linear_combination -hdm
      · left; omega
      · rw [hq]
        by_cases hq0 : Q = 0
        · subst hq0; simp
        · rw [Nat.mod_eq_of_lt (by omega)]
          exact (emod_of_add _ _ _ (-1) (by omega) (by omega) (by omega)).symm
    · rw [if_neg h0] at hp hq
      refine ⟨-(Q : Int) - 1, ⟨?_, ?_⟩, ?_⟩
      · have e : (p : Int) = (D : Int) - R := by omega
        rw [e]; linear_combination -hdm
      · left; omega
      · rw [hq]
        exact (emod_of_add _ _ _ (-1) (by omega) (by omega) (by omega)).symm
  · -- a < 0, d < 0
    have hpR : p = R := by rw [← hp]; split <;> omega
    refine ⟨(Q : Int), ⟨?_, ?_⟩, ?_⟩
    · rw [hpR]; linear_combination -hdm
    · right; omega
    · rw [hq]; exact (Int.emod_eq_of_lt (by omega) (by omega)).symm

end CCV.Division
