import CCV.Lemmas.SortKeys
/-
  Lemmas for C18, part 5: the radix rank inverts the plaintext sorting permutation; the secure
  sort equals the plaintext sort; integer keys.
-/
namespace CCV.Sort
open CCV.Compare

/-- rank permutation of the stable order of the whole key column -/
def stableRank (keys : List (List Nat)) : List Nat := rankOf (keyLt (keys.getD · [])) keys.length

theorem stableRank_perm (keys : List (List Nat)) : (stableRank keys).Perm (List.range keys.length) :=
  rankOf_perm (keyLt_sto _) _

theorem stableRank_inv_sortPerm (keys : List (List Nat)) : InvRel (sortPerm keys) (stableRank keys) := by
  have hp := sortPerm_spec keys
  have hs := stableRank_perm keys
  have hsl := perm_range_length hs
  let f := fun i => (stableRank keys).getD i 0
  have hL1 : ((sortPerm keys).map f).Pairwise (· < ·) := by
    rw [List.pairwise_map]
    refine hp.2.imp_of_mem ?_
    intro a b ha hb hab
    have ha := perm_range_lt hp.1 a ha
    have hb := perm_range_lt hp.1 b hb
    show (stableRank keys).getD a 0 < (stableRank keys).getD b 0
    rw [stableRank, getD_of_get? (rankOf_get _ _ a ha), getD_of_get? (rankOf_get _ _ b hb)]
    exact cnt_lt_of (keyLt_sto _) ha ((keyLt_iff_stableLt keys a b).mpr hab)
  have hL2 : ((sortPerm keys).map f).Perm (List.range keys.length) := by
    refine (hp.1.map f).trans ?_
    have := eq_map_getD (stableRank keys)
    rw [hsl] at this
    rw [← this]
    exact hs
  have hL : (sortPerm keys).map f = List.range keys.length :=
    List.Perm.eq_of_pairwise (le := (· < ·)) (fun a b _ _ h1 h2 => by omega) hL1
      List.pairwise_lt_range hL2
  intro j v hj
  have hjn : j < keys.length := by
    have := (List.getElem?_eq_some_iff.mp hj).1
    rw [perm_range_length hp.1] at this; exact this
  have hv : v < keys.length := perm_range_get_lt hp.1 j v hj
  have h1 := congrArg (·[j]?) hL
  simp only [List.getElem?_map, hj, Option.map_some, List.getElem?_range hjn, Option.some.injEq] at h1
  rw [get?_of_lt (by omega), ← h1]

theorem applySorting_eq {α : Type} {n : Nat} {p sigma pi : List Nat} (hp : p.Perm (List.range n))
    (hs : sigma.Perm (List.range n)) (hinv : InvRel p sigma) (hpi : pi.Perm (List.range n))
    (col : List α) (hc : col.length = n) : applySorting pi sigma col = gather col p := by
  obtain ⟨s', hs'⟩ := gather_exists sigma pi (fun i hi => by
    rw [perm_range_length hs]; exact perm_range_lt hpi i hi)
  have hs'p := gather_perm hs hpi hs'
  obtain ⟨c, hcg⟩ := gather_exists col pi (fun i hi => by rw [hc]; exact perm_range_lt hpi i hi)
  have hcl : c.length = n := by rw [gather_length hcg, perm_range_length hpi]
  obtain ⟨r, hr, hrl, hr2⟩ := invApply_spec hs'p hcl
  obtain ⟨r', hr'⟩ := gather_exists col p (fun i hi => by rw [hc]; exact perm_range_lt hp i hi)
  have hr'l : r'.length = n := by rw [gather_length hr', perm_range_length hp]
  have : r = r' := by
    apply List.ext_getElem?
    intro j
    by_cases hj : j < n
    · have hjp : j < p.length := by rw [perm_range_length hp]; exact hj
      have hpj : p[j]? = some p[j] := List.getElem?_eq_getElem hjp
      have hm : p[j] < n := perm_range_get_lt hp j _ hpj
      obtain ⟨i, _, hi⟩ := perm_range_surj hpi p[j] hm
      have e1 := (gather_get hs' i p[j] hi).1
      rw [hinv j p[j] hpj] at e1
      rw [hr2 i j e1, (gather_get hcg i p[j] hi).1, (gather_get hr' j p[j] hpj).1]
    · rw [List.getElem?_eq_none (by omega), List.getElem?_eq_none (by omega)]
  simp [applySorting, hs', hcg, hr, hr', this]

theorem radixSort_eq_sortColumns {α : Type} {b : Nat} {keys : List (List Nat)} (hw : KeysOk b keys)
    (chunk : Nat) (pis : List (List Nat)) (hpis : ∀ pi ∈ pis, pi.Perm (List.range keys.length))
    (piLast : List Nat) (hpl : piLast.Perm (List.range keys.length))
    (cols : List (List α)) (hcols : ∀ c ∈ cols, c.length = keys.length) :
    radixSort chunk b keys pis piLast cols = sortColumns keys cols := by
  unfold radixSort sortColumns
  rw [radixRank_spec hw chunk pis hpis]
  simp only []
  congr 1
  apply List.map_congr_left
  intro c hc
  exact applySorting_eq (sortPerm_perm keys) (stableRank_perm keys) (stableRank_inv_sortPerm keys) hpl c
    (hcols c hc)

/-! ### integer keys -/

theorem cv_append_single (A : List Nat) (x : Nat) : cv (A ++ [x]) = 2 * cv A + x := by
  induction A with
  | nil => simp [cv]
  | cons a A ih =>
    simp only [List.cons_append, cv, ih, List.length_append, List.length_cons, List.length_nil,
      Nat.pow_succ, Nat.zero_add]
    rw [Nat.mul_add, ← Nat.mul_assoc, Nat.mul_comm 2 (a * 2 ^ A.length), Nat.add_assoc]

theorem cv_rev (l : List Bool) : cv (l.reverse.map bit) = ofBits l := by
  induction l with
  | nil => rfl
  | cons b bs ih =>
    rw [List.reverse_cons, List.map_append, List.map_singleton, cv_append_single, ih, ofBits_cons]
    omega

theorem isBits_map_bit (l : List Bool) : IsBits (l.map bit) := by
  intro x hx
  obtain ⟨b, _, rfl⟩ := List.mem_map.mp hx
  cases b <;> simp [bit]

/-- values of the scalar type: `w = 0` is `BIT` -/
def InRange (signed : Bool) (w : Nat) (x : Int) : Prop :=
  if w = 0 then 0 ≤ x ∧ x < 2
  else if signed = true then -(2 : Int) ^ (w - 1) ≤ x ∧ x < (2 : Int) ^ (w - 1)
  else 0 ≤ x ∧ x < (2 : Int) ^ w

/-- the offset by which the key bit string, read as a number, exceeds the integer -/
def keyOffset (signed : Bool) (w : Nat) : Int := if w ≠ 0 ∧ signed = true then (2 : Int) ^ (w - 1) else 0

theorem intKeyBits_spec (signed : Bool) (w : Nat) (x : Int) (hx : InRange signed w x) :
    IsBits (intKeyBits signed w x) ∧ (intKeyBits signed w x).length = (if w = 0 then 1 else w) ∧
      (cv (intKeyBits signed w x) : Int) = x + keyOffset signed w := by
  unfold InRange at hx
  by_cases hw : w = 0
  · subst hw
    simp only [if_true] at hx
    have : x = 0 ∨ x = 1 := by omega
    rcases this with rfl | rfl <;> simp [intKeyBits, IsBits, cv, keyOffset]
  · simp only [hw, if_false] at hx
    have hpw : (2 : Int) ^ w = 2 * 2 ^ (w - 1) := by
      rw [show w = (w - 1) + 1 by omega, Int.pow_succ]; simp; omega
    have hpos : (0 : Int) < 2 ^ (w - 1) := Int.pow_pos (by omega)
    have hrlt : ((x % (2 : Int) ^ w).toNat) < 2 ^ w := by
      have h1 : x % (2 : Int) ^ w < 2 ^ w := Int.emod_lt_of_pos _ (by omega)
      have h2 : 0 ≤ x % (2 : Int) ^ w := Int.emod_nonneg _ (by omega)
      have : ((x % (2 : Int) ^ w).toNat : Int) < ((2 ^ w : Nat) : Int) := by
        rw [Int.toNat_of_nonneg h2]; simpa using h1
      exact Int.ofNat_lt.mp this
    cases signed with
    | false =>
      simp only [Bool.false_eq_true, if_false] at hx
      have hmod : x % (2 : Int) ^ w = x := Int.emod_eq_of_lt hx.1 hx.2
      simp only [intKeyBits, hw, if_false, Bool.false_eq_true]
      refine ⟨isBits_map_bit _, by simp [toBits_length], ?_⟩
      show (cv ((toBits w _).reverse.map bit) : Int) = _
      rw [cv_rev, ofBits_toBits _ _ hrlt, hmod, Int.toNat_of_nonneg hx.1]
      simp [keyOffset]
    | true =>
      simp only [if_true] at hx
      have hne : toBits w (x % (2 : Int) ^ w).toNat ≠ [] := by
        intro h
        have := congrArg List.length h
        rw [toBits_length] at this
        simp at this; omega
      simp only [intKeyBits, hw, if_false, if_true]
      refine ⟨isBits_map_bit _, by simp [flipMsb_length _ hne, toBits_length], ?_⟩
      show (cv ((flipMsb (toBits w _)).reverse.map bit) : Int) = _
      rw [cv_rev, ofBits_flipMsb _ hne, sval_toBits _ _ (by omega) hrlt, toBits_length]
      simp only [keyOffset, hw, ne_eq, not_false_eq_true, and_self, if_true]
      have hto : toInt w (x % (2 : Int) ^ w).toNat = x := by
        unfold toInt
        by_cases hneg : x < 0
        · have hmod : x % (2 : Int) ^ w = x + 2 ^ w := by
            rw [← Int.add_emod_right x ((2 : Int) ^ w)]
            exact Int.emod_eq_of_lt (by omega) (by omega)
          have hnat : ((x % (2 : Int) ^ w).toNat : Int) = x + 2 ^ w := by
            rw [Int.toNat_of_nonneg (by omega), hmod]
          have hge : ¬ (x % (2 : Int) ^ w).toNat < 2 ^ (w - 1) := by
            intro hlt
            have : ((x % (2 : Int) ^ w).toNat : Int) < ((2 ^ (w - 1) : Nat) : Int) := Int.ofNat_lt.mpr hlt
            rw [hnat] at this
            simp at this
            omega
          rw [if_neg hge, hnat]; omega
        · have hmod : x % (2 : Int) ^ w = x := Int.emod_eq_of_lt (by omega) (by omega)
          have hnat : ((x % (2 : Int) ^ w).toNat : Int) = x := by
            rw [Int.toNat_of_nonneg (by omega), hmod]
          have hlt : (x % (2 : Int) ^ w).toNat < 2 ^ (w - 1) := by
            have : ((x % (2 : Int) ^ w).toNat : Int) < ((2 ^ (w - 1) : Nat) : Int) := by
              rw [hnat]; simp; omega
            exact Int.ofNat_lt.mp this
          rw [if_pos hlt, hnat]
      rw [hto]

theorem intKey_order (signed : Bool) (w : Nat) (x y : Int) (hx : InRange signed w x)
    (hy : InRange signed w y) :
    (lexLt (intKeyBits signed w x) (intKeyBits signed w y) = true ↔ x < y) ∧
    (intKeyBits signed w x = intKeyBits signed w y ↔ x = y) := by
  obtain ⟨b1, l1, v1⟩ := intKeyBits_spec signed w x hx
  obtain ⟨b2, l2, v2⟩ := intKeyBits_spec signed w y hy
  obtain ⟨c1, c2⟩ := lexLt_iff_cv _ _ (by rw [l1, l2]) b1 b2
  rw [c1, c2]
  constructor <;> constructor <;> intro h <;> omega

end CCV.Sort
