import CCV.Lemmas.InlineBatch
/-
  C07, batched one-bit-state inliner (`inline_iterate_small_state(single_bit = true, …)` on a BIT
  array state of dimensions `sh`): everything is elementwise, so reading position `q` of every array
  (`entryMap q`) is a homomorphism from the array-level combiner `comb1B sh` to the one-bit combiner
  `comb1`, every prefix algorithm commutes with it (Lemmas/InlineMap.lean), and the unbatched lemmas
  of Lemmas/Inline.lean apply position by position.
-/
namespace CCV.InlineBatch
open CCV CCV.Shape CCV.Ops CCV.Inline

/-- contract of the one-bit strategy: entry `q` of the new state depends only on entry `q` of the
    old state (and on the input); `g q` is the transition function of position `q` -/
structure PosWise {I : Type} (sh : List Nat) (G : List Nat → I → List Nat) (g : Nat → Bool → I → Bool) :
    Prop where
  wf : ∀ S x, WF sh S → WF sh (G S x)
  ent : ∀ S x q, WF sh S → q < prod sh → (G S x).getD q 0 = (g q (S.getD q 0 == 1) x).toNat

/-! ### small helpers -/

theorem ob_getD_eq_get (l : List Nat) (i : Nat) (h : i < l.length) : l.getD i 0 = l[i] := by
  simp [List.getD_eq_getElem?_getD, h]

theorem ob_getD_ge {l : List Nat} {p : Nat} (h : l.length ≤ p) : l.getD p 0 = 0 := by
  simp [List.getD_eq_getElem?_getD, List.getElem?_eq_none h]

theorem ob_toNat_beq_one (b : Bool) : (b.toNat == 1) = b := by cases b <;> rfl

theorem ob_beq_one_mod (v : Nat) (h : v < 2) : (v % 2 == 1) = (v == 1) := by
  have : v = 0 ∨ v = 1 := by omega
  rcases this with rfl | rfl <;> rfl

theorem ob_toNat_beq (v : Nat) (h : v < 2) : (v == 1).toNat = v := by
  have : v = 0 ∨ v = 1 := by omega
  rcases this with rfl | rfl <;> rfl

theorem ob_bit_toInt (r : Nat) : ST.bit.toInt r = ((r % 2 : Nat) : Int) := by
  simp [ST.toInt, ST.signed, ST.bits]

theorem ob_bit_add (a b : Nat) :
    ST.bit.ofInt (Arith.int .add (ST.bit.toInt a) (ST.bit.toInt b)) = (a % 2 + b % 2) % 2 := by
  rw [ob_bit_toInt, ob_bit_toInt]
  simp only [Arith.int, ST.ofInt, ST.bits, Nat.pow_one]
  omega

theorem ob_bit_mul (a b : Nat) :
    ST.bit.ofInt (Arith.int .mul (ST.bit.toInt a) (ST.bit.toInt b)) = (a % 2) * (b % 2) % 2 := by
  rw [ob_bit_toInt, ob_bit_toInt]
  simp only [Arith.int, ST.ofInt, ST.bits, Nat.pow_one]
  rcases Nat.mod_two_eq_zero_or_one a with h | h <;> rw [h] <;> omega

/-! ### entries of the elementwise BIT operations -/

/-- same-shape BIT arithmetic, position by position -/
theorem ob_arith_same (op : Arith) (sh a b : List Nat) (hpos : pos sh) :
    ∃ r, arith op .bit sh a sh b sh = .ok r ∧ r.length = prod sh ∧
      ∀ q, q < prod sh →
        r.getD q 0 = ST.bit.ofInt (op.int (ST.bit.toInt (a.getD q 0)) (ST.bit.toInt (b.getD q 0))) := by
  obtain ⟨r, h1, h2, h3⟩ := arith_spec op .bit sh a sh b sh (bcOK_self sh) (bcOK_self sh)
  refine ⟨r, h1, h2, ?_⟩
  intro q hq
  have hv := numberToIndex_valid hpos hq
  have hf := flat_numberToIndex hpos hq
  have := h3 _ hv
  rw [hf] at this
  rw [this]
  simp only [Spec.arith, Spec.ofFlat, bcIdx_self hv, hf]

theorem bitAdd_length (sh a b : List Nat) : (bitAdd sh a b).length = prod sh := by
  obtain ⟨r, h1, h2, _⟩ := arith_spec .add .bit sh a sh b sh (bcOK_self sh) (bcOK_self sh)
  unfold bitAdd; rw [h1]; exact h2

theorem bitMul_length (sh a b : List Nat) : (bitMul sh a b).length = prod sh := by
  obtain ⟨r, h1, h2, _⟩ := arith_spec .mul .bit sh a sh b sh (bcOK_self sh) (bcOK_self sh)
  unfold bitMul; rw [h1]; exact h2

theorem bitAdd_entry (sh a b : List Nat) (hpos : pos sh) (q : Nat) (hq : q < prod sh) :
    (bitAdd sh a b).getD q 0 = (a.getD q 0 % 2 + b.getD q 0 % 2) % 2 := by
  obtain ⟨r, h1, _, h3⟩ := ob_arith_same .add sh a b hpos
  unfold bitAdd; rw [h1]
  show r.getD q 0 = _
  rw [h3 q hq, ob_bit_add]

theorem bitMul_entry (sh a b : List Nat) (hpos : pos sh) (q : Nat) (hq : q < prod sh) :
    (bitMul sh a b).getD q 0 = (a.getD q 0 % 2) * (b.getD q 0 % 2) % 2 := by
  obtain ⟨r, h1, _, h3⟩ := ob_arith_same .mul sh a b hpos
  unfold bitMul; rw [h1]
  show r.getD q 0 = _
  rw [h3 q hq, ob_bit_mul]

/-- the scalar `ones(BIT)` (dimensions `[1]`) broadcasts to every non-scalar shape -/
theorem ob_bcOK_one (sh : List Nat) (hne : sh ≠ []) : bcOK [1] sh := by
  have hl : 0 < sh.length := List.length_pos_iff.mpr hne
  refine ⟨hl, ?_⟩
  have hlen : (sh.drop (sh.length - [1].length)).length = 1 := by
    simp only [List.length_drop, List.length_cons, List.length_nil]; omega
  match hd : sh.drop (sh.length - [1].length), hlen with
  | [r], _ => exact ⟨Or.inl rfl, trivial⟩

theorem ob_flat_one : ∀ (J : List Nat), validIdx J [1] → flat J [1] = 0
  | [x], h => by
    simp only [validIdx] at h
    simp only [flat, prod]; omega
  | [], h => by simp [validIdx] at h
  | _ :: _ :: _, h => by simp [validIdx] at h

/-- `s + 1` (the `1` broadcast from a scalar), position by position -/
theorem notS_entry (sh s : List Nat) (hpos : pos sh) (hne : sh ≠ []) (q : Nat) (hq : q < prod sh) :
    (okD (arith .add .bit sh s [1] [1] sh)).getD q 0 = (s.getD q 0 % 2 + 1) % 2 := by
  have hb := ob_bcOK_one sh hne
  obtain ⟨r, h1, _, h3⟩ := arith_spec .add .bit sh s [1] [1] sh (bcOK_self sh) hb
  rw [h1]
  show r.getD q 0 = _
  have hv := numberToIndex_valid hpos hq
  have hf := flat_numberToIndex hpos hq
  have := h3 _ hv
  rw [hf] at this
  rw [this]
  simp only [Spec.arith, Spec.ofFlat, bcIdx_self hv, hf,
    ob_flat_one _ (broadcast_index_law hb hv).2]
  show ST.bit.ofInt (Arith.int .add (ST.bit.toInt (s.getD q 0)) (ST.bit.toInt 1)) = _
  rw [ob_bit_add]

theorem notS_length (sh s : List Nat) (hne : sh ≠ []) :
    (okD (arith .add .bit sh s [1] [1] sh)).length = prod sh := by
  obtain ⟨r, h1, h2, _⟩ := arith_spec .add .bit sh s [1] [1] sh (bcOK_self sh) (ob_bcOK_one sh hne)
  rw [h1]; exact h2

/-! ### position `q` of a mapping: a homomorphism `comb1B sh → comb1` -/

/-- the one-bit transition table at position `q` of an array-level mapping (entries read modulo 2,
    as the evaluator does) -/
def entryMap (q : Nat) (m : Map1B) : Map1 := (m.1.getD q 0 % 2 == 1, m.2.getD q 0 % 2 == 1)

theorem comb1B_entryMap (sh : List Nat) (hpos : pos sh) (q : Nat) (hq : q < prod sh) (m1 m2 : Map1B) :
    entryMap q (comb1B sh m1 m2) = comb1 (entryMap q m1) (entryMap q m2) := by
  simp only [entryMap, comb1B, comb1, bitAdd_entry sh _ _ hpos q hq, bitMul_entry sh _ _ hpos q hq]
  generalize m1.1.getD q 0 = a
  generalize m1.2.getD q 0 = b
  generalize m2.1.getD q 0 = c
  generalize m2.2.getD q 0 = d
  rcases Nat.mod_two_eq_zero_or_one a with h1 | h1 <;>
    rcases Nat.mod_two_eq_zero_or_one b with h2 | h2 <;>
    rcases Nat.mod_two_eq_zero_or_one c with h3 | h3 <;>
    rcases Nat.mod_two_eq_zero_or_one d with h4 | h4 <;>
    simp only [h1, h2, h3, h4] <;> rfl

theorem extract1B_length (sh s : List Nat) (m : Map1B) : (extract1B sh s m).length = prod sh :=
  bitAdd_length _ _ _

theorem extract1B_entry (sh : List Nat) (hpos : pos sh) (hne : sh ≠ []) (q : Nat) (hq : q < prod sh)
    (s : List Nat) (m : Map1B) :
    (extract1B sh s m).getD q 0 = (extract1 (s.getD q 0 % 2 == 1) (entryMap q m)).toNat := by
  simp only [extract1B, entryMap, extract1, bitAdd_entry sh _ _ hpos q hq, bitMul_entry sh _ _ hpos q hq,
    notS_entry sh s hpos hne q hq]
  generalize m.1.getD q 0 = a
  generalize m.2.getD q 0 = b
  generalize s.getD q 0 = c
  rcases Nat.mod_two_eq_zero_or_one a with h1 | h1 <;>
    rcases Nat.mod_two_eq_zero_or_one b with h2 | h2 <;>
    rcases Nat.mod_two_eq_zero_or_one c with h3 | h3 <;>
    simp only [h1, h2, h3] <;> rfl

/-! ### the constant states `mask_to_value(·, 1, 0)` / `mask_to_value(·, 1, 1)` -/

theorem maskToValue_one_entry (sh : List Nat) (m q : Nat) (hq : q < prod sh) :
    (maskToValue sh 1 m).getD q 0 = m % 2 := by
  unfold maskToValue
  rw [getD_map_range _ _ _ hq]
  simp

theorem maskToValue_one_WF (sh : List Nat) (m : Nat) : WF sh (maskToValue sh 1 m) := by
  refine ⟨by simp [maskToValue], ?_⟩
  intro p
  by_cases hp : p < prod sh
  · rw [maskToValue_one_entry sh m p hp]; omega
  · rw [ob_getD_ge (by simp [maskToValue]; omega)]; omega

/-- the transition function of position `q`, as a body on one state bit (output: the empty tuple) -/
def liftG {I O : Type} (g : Nat → Bool → I → Bool) (unit : O) (q : Nat) : Bool → I → Bool × O :=
  fun b x => (g q b x, unit)

/-- `create_mappings`, single-bit case: position `q` of the mapping of input `x` is the table of
    `g q` for `x` -/
theorem mappings_entryMap {I O : Type} (sh : List Nat) (G : List Nat → I → List Nat)
    (g : Nat → Bool → I → Bool) (hG : PosWise sh G g) (unit : O) (q : Nat) (hq : q < prod sh) (xs : List I) :
    (xs.map fun x => ((G (maskToValue sh 1 0) x, G (maskToValue sh 1 1) x) : Map1B)).map (entryMap q)
      = xs.map (mapOf (liftG g unit q)) := by
  rw [List.map_map]
  apply List.map_congr_left
  intro x _
  simp only [Function.comp, entryMap, mapOf, liftG,
    hG.ent _ x q (maskToValue_one_WF sh 0) hq, hG.ent _ x q (maskToValue_one_WF sh 1) hq,
    maskToValue_one_entry sh _ q hq, toNat_mod_two_beq]
  rfl

/-! ### equality of state arrays from equality of all positions -/

theorem extract1B_eq (sh : List Nat) (hpos : pos sh) (hne : sh ≠ []) (s : List Nat) (hs : WF sh s)
    (p : Map1B) (T : List Nat) (hT : WF sh T)
    (h : ∀ q, q < prod sh → extract1 (s.getD q 0 == 1) (entryMap q p) = (T.getD q 0 == 1)) :
    extract1B sh s p = T := by
  apply List.ext_getElem (by rw [extract1B_length, hT.1])
  intro q h1 h2
  have hq : q < prod sh := by rw [← hT.1]; exact h2
  rw [← ob_getD_eq_get _ _ h1, ← ob_getD_eq_get _ _ h2, extract1B_entry sh hpos hne q hq,
    ob_beq_one_mod _ (hs.2 q), h q hq, ob_toNat_beq _ (hT.2 q)]

theorem map_extract1B_eq (sh : List Nat) (hpos : pos sh) (hne : sh ≠ []) (s : List Nat) (hs : WF sh s) :
    ∀ (l : List Map1B) (Ts : List (List Nat)), (∀ T ∈ Ts, WF sh T) →
    (∀ q, q < prod sh → l.map (fun p => extract1 (s.getD q 0 == 1) (entryMap q p))
      = Ts.map (fun T => T.getD q 0 == 1)) →
    l.map (extract1B sh s) = Ts
  | [], [], _, _ => rfl
  | [], _ :: _, _, h => by have := h 0 (prod_pos hpos); simp at this
  | _ :: _, [], _, h => by have := h 0 (prod_pos hpos); simp at this
  | p :: l, T :: Ts, hT, h => by
    simp only [List.map_cons]
    rw [extract1B_eq sh hpos hne s hs p T (hT T (by simp)) (fun q hq => by
      have := h q hq; simp only [List.map_cons, List.cons.injEq] at this; exact this.1),
      map_extract1B_eq sh hpos hne s hs l Ts (fun T' hT' => hT T' (by simp [hT'])) (fun q hq => by
      have := h q hq; simp only [List.map_cons, List.cons.injEq] at this; exact this.2)]

/-! ### the reference loop on the batched body, position by position -/

theorem ob_foldl_WF {I : Type} {sh : List Nat} {G : List Nat → I → List Nat} {g : Nat → Bool → I → Bool}
    (hG : PosWise sh G g) : ∀ (xs : List I) (s : List Nat), WF sh s → WF sh (xs.foldl G s)
  | [], _, hs => hs
  | x :: xs, s, hs => ob_foldl_WF hG xs _ (hG.wf s x hs)

theorem ob_foldl_entry {I O : Type} {sh : List Nat} {G : List Nat → I → List Nat} {g : Nat → Bool → I → Bool}
    (hG : PosWise sh G g) (unit : O) (q : Nat) (hq : q < prod sh) : ∀ (xs : List I) (s : List Nat), WF sh s →
    ((xs.foldl G s).getD q 0 == 1) = xs.foldl (fun a b => (liftG g unit q a b).1) (s.getD q 0 == 1)
  | [], _, _ => rfl
  | x :: xs, s, hs => by
    simp only [List.foldl_cons]
    rw [ob_foldl_entry hG unit q hq xs _ (hG.wf s x hs), hG.ent s x q hs hq, ob_toNat_beq_one]
    rfl

theorem ob_stepScan_WF {I : Type} {sh : List Nat} {G : List Nat → I → List Nat} {g : Nat → Bool → I → Bool}
    (hG : PosWise sh G g) : ∀ (xs : List I) (s : List Nat), WF sh s → ∀ T ∈ stepScan G s xs, WF sh T
  | [], _, _, _, h => by simp [stepScan] at h
  | x :: xs, s, hs, T, h => by
    simp only [stepScan, List.mem_cons] at h
    rcases h with rfl | h
    · exact hG.wf s x hs
    · exact ob_stepScan_WF hG xs _ (hG.wf s x hs) T h

theorem ob_stepScan_entry {I O : Type} {sh : List Nat} {G : List Nat → I → List Nat}
    {g : Nat → Bool → I → Bool} (hG : PosWise sh G g) (unit : O) (q : Nat) (hq : q < prod sh) :
    ∀ (xs : List I) (s : List Nat), WF sh s →
    (stepScan G s xs).map (fun T => T.getD q 0 == 1)
      = stepScan (fun a b => (liftG g unit q a b).1) (s.getD q 0 == 1) xs
  | [], _, _ => rfl
  | x :: xs, s, hs => by
    simp only [stepScan, List.map_cons]
    rw [ob_stepScan_entry hG unit q hq xs _ (hG.wf s x hs), hG.ent s x q hs hq, ob_toNat_beq_one]
    rfl

theorem ob_stepScan_getLast_cons {S I : Type} (step : S → I → S) : ∀ (xs : List I) (x : I) (s : S),
    (stepScan step s (x :: xs)).getLast? = some ((x :: xs).foldl step s)
  | [], _, _ => rfl
  | y :: ys, x, s => by
    have := ob_stepScan_getLast_cons step ys y (step s x)
    simp only [stepScan, List.foldl_cons, List.getLast?_cons_cons] at this ⊢
    exact this

/-! ### main theorems -/

/-- **batched one-bit inlining = reference loop on the batched body**: for every BIT state array of
    dimensions `sh` (non-empty, all positive), every body that acts position-wise on BIT arrays, both
    levels, every length: final state and every output. -/
theorem iterOneBitB_eq_ref {I O : Type} (sh : List Nat) (hpos : pos sh) (hne : sh ≠ [])
    (G : List Nat → I → List Nat × O) (g : Nat → Bool → I → Bool)
    (hG : PosWise sh (fun st x => (G st x).1) g) (level : Level) (emptyOut : Bool) (unit : O)
    (hu : emptyOut = true → ∀ o : O, o = unit) (s : List Nat) (hs : WF sh s) (xs : List I) :
    iterOneBitB level sh emptyOut unit G s xs = iterRef G s xs := by
  unfold iterOneBitB
  cases xs with
  | nil => rfl
  | cons x t =>
    simp only [List.isEmpty_cons, Bool.false_eq_true, if_false]
    rw [iterRef_closed]
    have hms := fun q hq =>
      mappings_entryMap sh (fun st x => (G st x).1) g hG unit q hq (x :: t)
    have hhom := fun q hq => comb1B_entryMap sh hpos q hq
    have h0 : 0 < prod sh := prod_pos hpos
    generalize hms_def :
      ((x :: t).map fun x => ((G (maskToValue sh 1 0) x).1, (G (maskToValue sh 1 1) x).1)) = ms at hms ⊢
    split
    · rename_i he
      have hp : ∀ q, q < prod sh → (logDepthSum (comb1B sh) ms).map (entryMap q)
          = some ((t.map (mapOf (liftG g unit q))).foldl comb1 (mapOf (liftG g unit q) x)) := by
        intro q hq
        rw [← logDepthSum_map (entryMap q) (comb1B sh) comb1 (hhom q hq), hms q hq,
          logDepthSum_eq comb1_assoc]
        rfl
      cases hL : logDepthSum (comb1B sh) ms with
      | none =>
        have := hp 0 h0
        rw [hL] at this
        simp at this
      | some p =>
        simp only [Option.getD_some, List.foldl_cons]
        congr 1
        · apply extract1B_eq sh hpos hne s hs p _ (ob_foldl_WF hG t _ (hG.wf s x hs))
          intro q hq
          have hpq := hp q hq
          rw [hL] at hpq
          simp only [Option.map_some, Option.some.injEq] at hpq
          rw [hpq, extract1_foldl, extract1_mapOf, ob_foldl_entry hG unit q hq t _ (hG.wf s x hs),
            hG.ent s x q hs hq, ob_toNat_beq_one]
          rfl
        · rw [all_unit_list unit (hu he) (List.map _ _), all_unit_list unit (hu he) (List.zipWith _ _ _)]
          simp [stepScan_length, List.replicate_succ]
    · generalize hps_def : pick level (x :: t).length (comb1B sh) ms = ps
      have hps : ∀ q, q < prod sh → ps.map (entryMap q)
          = mapOf (liftG g unit q) x
              :: scanAux comb1 (mapOf (liftG g unit q) x) (t.map (mapOf (liftG g unit q))) := by
        intro q hq
        rw [← hps_def, ← pick_map (entryMap q) (comb1B sh) comb1 (hhom q hq), hms q hq,
          pick_eq comb1_assoc]
        rfl
      have hstates : ps.map (extract1B sh s) = stepScan (fun a b => (G a b).1) s (x :: t) := by
        apply map_extract1B_eq sh hpos hne s hs _ _ (ob_stepScan_WF hG (x :: t) s hs)
        intro q hq
        rw [ob_stepScan_entry hG unit q hq (x :: t) s hs]
        have e : ps.map (fun p => extract1 (s.getD q 0 == 1) (entryMap q p))
            = (ps.map (entryMap q)).map (extract1 (s.getD q 0 == 1)) := by
          simp [List.map_map, Function.comp_def]
        rw [e, hps q hq]
        simp only [List.map_cons, stepScan]
        rw [extract1_scanAux, extract1_mapOf]
      rw [hstates]
      congr 1
      have hl := congrArg List.getLast? hstates
      rw [List.getLast?_map, ob_stepScan_getLast_cons] at hl
      cases hq : ps.getLast? with
      | none => rw [hq] at hl; simp at hl
      | some p =>
        rw [hq] at hl
        simp only [Option.map_some, Option.some.injEq] at hl
        simp only [Option.getD_some]
        exact hl

/-- the unbatched one-bit strategy = reference loop (as `CCV.C07.iterOneBit_ref`) -/
theorem ob_iterOneBit_ref {I O : Type} (g : Bool → I → Bool × O) (level : Level) (emptyOut : Bool) (unit : O)
    (hu : emptyOut = true → ∀ o : O, o = unit) (s : Bool) (xs : List I) :
    iterOneBit level emptyOut unit g s xs = iterRef g s xs := by
  unfold iterOneBit
  cases xs with
  | nil => rfl
  | cons x t =>
    simp only [List.isEmpty_cons, Bool.false_eq_true, if_false]
    rw [iterRef_closed]
    have hm : ∀ y : I, ((g false y).1, (g true y).1) = mapOf g y := fun _ => rfl
    simp only [hm]
    split
    · rename_i he
      rw [logDepthSum_eq comb1_assoc]
      simp only [List.map_cons, sumO, Option.getD_some, List.foldl_cons]
      rw [extract1_foldl, extract1_mapOf]
      congr 1
      rw [all_unit_list unit (hu he) (List.map _ _), all_unit_list unit (hu he) (List.zipWith _ _ _)]
      simp [stepScan_length, List.replicate_succ]
    · rw [pick_eq comb1_assoc]
      simp only [List.map_cons, scanl1, getLast_scanAux, Option.getD_some, List.foldl_cons]
      rw [extract1_foldl, extract1_scanAux, extract1_mapOf]
      rfl

/-- position `q` of the batched reference loop is the reference loop of position `q` -/
theorem iterRef_entry {I O : Type} (sh : List Nat) (G : List Nat → I → List Nat × O)
    (g : Nat → Bool → I → Bool) (hG : PosWise sh (fun st x => (G st x).1) g) (unit : O)
    (s : List Nat) (hs : WF sh s) (xs : List I) (q : Nat) (hq : q < prod sh) :
    ((iterRef G s xs).1.getD q 0 == 1)
      = (iterRef (fun b x => (g q b x, unit)) (s.getD q 0 == 1) xs).1 := by
  rw [iterRef_closed, iterRef_closed]
  exact ob_foldl_entry hG unit q hq xs s hs

/-- position `q` of the batched one-bit inlining is the unbatched one-bit inlining (`iterOneBit`) of
    the transition function of position `q`, started on entry `q` of the initial state -/
theorem iterOneBitB_entry {I O : Type} (sh : List Nat) (hpos : pos sh) (hne : sh ≠ [])
    (G : List Nat → I → List Nat × O) (g : Nat → Bool → I → Bool)
    (hG : PosWise sh (fun st x => (G st x).1) g) (level : Level) (emptyOut : Bool) (unit : O)
    (hu : emptyOut = true → ∀ o : O, o = unit) (s : List Nat) (hs : WF sh s) (xs : List I)
    (q : Nat) (hq : q < prod sh) :
    (iterOneBitB level sh emptyOut unit G s xs).1.getD q 0
      = ((iterOneBit level emptyOut unit (fun b x => (g q b x, unit)) (s.getD q 0 == 1) xs).1).toNat := by
  rw [iterOneBitB_eq_ref sh hpos hne G g hG level emptyOut unit hu s hs xs,
    ob_iterOneBit_ref _ level emptyOut unit hu, ← iterRef_entry sh G g hG unit s hs xs q hq]
  have hwf : WF sh (iterRef G s xs).1 := by
    rw [iterRef_closed]
    exact ob_foldl_WF hG xs s hs
  exact (ob_toNat_beq _ (hwf.2 q)).symm

end CCV.InlineBatch
