import CCV.Lemmas.TypedValue
/-
  C13: an array value survives decode → print → parse → encode (`array_back`).
-/
namespace CCV.TV
open CCV CCV.Bytes

/-! ### chunks of a byte string of length `m * k` -/

theorem length_chunksExact_tv (k m : Nat) (bs : List Nat) : (chunksExact k m bs).length = m := by
  induction m generalizing bs with
  | zero => rfl
  | succ m ih => simp [chunksExact, ih]

theorem chunksExact_join (k m : Nat) (bs : List Nat) (h : bs.length = m * k) :
    (chunksExact k m bs).flatMap id = bs := by
  induction m generalizing bs with
  | zero =>
    have : bs = [] := List.eq_nil_of_length_eq_zero (by simpa using h)
    simp [chunksExact, this]
  | succ m ih =>
    have hd : (bs.drop k).length = m * k := by
      rw [List.length_drop, h, Nat.succ_mul]; omega
    simp only [chunksExact, List.flatMap_cons, id, ih _ hd]
    exact List.take_append_drop k bs

theorem mem_chunksExact (k m : Nat) (bs : List Nat) (h : bs.length = m * k) :
    ∀ c ∈ chunksExact k m bs, c.length = k ∧ ∀ b ∈ c, b ∈ bs := by
  induction m generalizing bs with
  | zero => simp [chunksExact]
  | succ m ih =>
    have hd : (bs.drop k).length = m * k := by
      rw [List.length_drop, h, Nat.succ_mul]; omega
    intro c hc
    simp only [chunksExact, List.mem_cons] at hc
    rcases hc with rfl | hc
    · refine ⟨?_, fun b hb => List.mem_of_mem_take hb⟩
      rw [List.length_take, h, Nat.succ_mul]; omega
    · exact ⟨(ih _ hd c hc).1, fun b hb => List.mem_of_mem_drop ((ih _ hd c hc).2 b hb)⟩

/-- the parsed number of a printed element (total version, `0` when the parse fails) -/
def gOf (st : ST) (a : Nat) : Nat := (numToU128 (castTo st a)).getD 0

theorem array_back_nonbit (st : ST) (h : st ≠ .bit) (shape : List Nat) (bs : List Nat)
    (hl : bs.length = (numel shape * st.bits + 7) / 8) (hb : ∀ b ∈ bs, b < 256) :
    ∃ (r : List Nat),
      toFlatU128 bs shape st = .ok r ∧ r.length = numel shape ∧
      (∀ a ∈ r, numToU128 (castTo st a) = some (gOf st a)) ∧
      vecToBytes st ((r.map (gOf st)).map (fun x => ((x : Nat) : Int))) = .ok bs := by
  have hpos := byteLen_pos st
  have hlen : bs.length = numel shape * st.byteLen := by
    rw [hl, bits_eq_byteLen st h, ← Nat.mul_assoc, Nat.mul_comm _ 8, Nat.mul_assoc]; omega
  have hm : bs.length % st.byteLen = 0 := by rw [hlen]; exact Nat.mul_mod_left _ _
  have hd : bs.length / st.byteLen = numel shape := by
    rw [hlen]; exact Nat.mul_div_cancel _ hpos
  have hne : (st == ST.bit) = false := by simpa using h
  have hchk : checkArrayType bs.length shape st = true := by simp [checkArrayType, hl]
  have hmem := mem_chunksExact st.byteLen (numel shape) bs hlen
  refine ⟨(chunksExact st.byteLen (numel shape) bs).map
      (fun c => signPad 128 st (fromLE (c.take (128 / 8)))), ?_, ?_, ?_, ?_⟩
  · simp only [toFlatU128, hchk, vecU128FromBytes, vecFromBytesW_ne_bit 128 st h, hm, hd, hne]
    simp
  · simp [length_chunksExact_tv]
  · intro a ha
    rcases List.mem_map.1 ha with ⟨c, hc, rfl⟩
    rcases elem_back st h c (hmem c hc).1 (fun b hb' => hb b ((hmem c hc).2 b hb')) with ⟨x, hx, _⟩
    simp [gOf, hx]
  · rw [vecToBytes_ne_bit st h]
    simp only [List.map_map, List.flatMap_map]
    congr 1
    refine Eq.trans (flatMap_congr' _ id _ ?_) (chunksExact_join st.byteLen (numel shape) bs hlen)
    intro c hc
    rcases elem_back st h c (hmem c hc).1 (fun b hb' => hb b ((hmem c hc).2 b hb')) with ⟨x, hx, hx2⟩
    simp only [Function.comp, gOf, hx, Option.getD_some, id]
    exact hx2

/-! ### the bit half -/

/-- the bytes of a bit array of `n` bits with the stray bits of the last byte cleared -/
def normBits : Nat → List Nat → List Nat
  | _, [] => []
  | n, b :: rest => if 8 ≤ n then b :: normBits (n - 8) rest else [b % 2 ^ n]

theorem length_unpackByte (b : Nat) : (unpackByte b).length = 8 := rfl

theorem packBits_unpackByte (b : Nat) (hb : b < 256) : packBits (unpackByte b) = b := by
  simp only [unpackByte, packBits]; omega

theorem packBits_unpackByte_take (b k : Nat) (hb : b < 256) (hk : k ≤ 8) :
    packBits ((unpackByte b).take k) = b % 2 ^ k := by
  have : k = 0 ∨ k = 1 ∨ k = 2 ∨ k = 3 ∨ k = 4 ∨ k = 5 ∨ k = 6 ∨ k = 7 ∨ k = 8 := by omega
  rcases this with rfl | rfl | rfl | rfl | rfl | rfl | rfl | rfl | rfl <;>
    simp [unpackByte, packBits] <;> omega

theorem mem_unpackByte_le (b a : Nat) (h : a ∈ unpackByte b) : a ≤ 1 := by
  simp only [unpackByte, List.mem_cons, List.not_mem_nil, or_false] at h
  omega

theorem length_flatMap_unpackByte (bs : List Nat) : (bs.flatMap unpackByte).length = 8 * bs.length := by
  induction bs with
  | nil => rfl
  | cons b t ih => simp only [List.flatMap_cons, List.length_append, ih, length_unpackByte, List.length_cons]; omega

theorem pack_take_unpack (n : Nat) (bs : List Nat) (hl : bs.length = (n + 7) / 8)
    (hb : ∀ b ∈ bs, b < 256) :
    (chunks8 ((bs.flatMap unpackByte).take n)).map packBits = normBits n bs := by
  induction bs generalizing n with
  | nil =>
    simp [chunks8_nil, normBits]
  | cons b rest ih =>
    have hb0 : b < 256 := hb b (by simp)
    have hn1 : 1 ≤ n := by simp only [List.length_cons] at hl; omega
    by_cases h8 : 8 ≤ n
    · have hlr : rest.length = (n - 8 + 7) / 8 := by simp only [List.length_cons] at hl; omega
      have e : ((b :: rest).flatMap unpackByte).take n
          = unpackByte b ++ (rest.flatMap unpackByte).take (n - 8) := by
        rw [List.flatMap_cons, List.take_append, length_unpackByte,
          List.take_of_length_le (by rw [length_unpackByte]; exact h8)]
      have hne : unpackByte b ++ (rest.flatMap unpackByte).take (n - 8) ≠ [] := by
        simp [unpackByte]
      rw [e, chunks8_ne_nil _ hne, List.take_left' (length_unpackByte b),
        List.drop_left' (length_unpackByte b), List.map_cons, packBits_unpackByte b hb0,
        ih (n - 8) hlr (fun x hx => hb x (by simp [hx]))]
      simp [normBits, h8]
    · have hr : rest = [] := by
        apply List.eq_nil_of_length_eq_zero; simp only [List.length_cons] at hl; omega
      subst hr
      have e : (([b] : List Nat).flatMap unpackByte).take n = (unpackByte b).take n := by simp
      have hne : (unpackByte b).take n ≠ [] := by
        intro h0
        have := congrArg List.length h0
        rw [List.length_take, length_unpackByte] at this
        simp at this; omega
      have ht : ((unpackByte b).take n).take 8 = (unpackByte b).take n :=
        List.take_of_length_le (by rw [List.length_take, length_unpackByte]; omega)
      have hd : ((unpackByte b).take n).drop 8 = [] :=
        List.drop_eq_nil_of_le (by rw [List.length_take, length_unpackByte]; omega)
      rw [e, chunks8_ne_nil _ hne, ht, hd, chunks8_nil]
      simp only [List.map_cons, List.map_nil, normBits, h8, if_false]
      rw [packBits_unpackByte_take b n hb0 (by omega)]

theorem length_normBits (n : Nat) (bs : List Nat) (hl : bs.length = (n + 7) / 8) :
    (normBits n bs).length = bs.length := by
  induction bs generalizing n with
  | nil => rfl
  | cons b rest ih =>
    simp only [List.length_cons] at hl
    by_cases h8 : 8 ≤ n
    · simp only [normBits, h8, if_true, List.length_cons]
      rw [ih (n - 8) (by omega)]
    · simp only [normBits, h8, if_false, List.length_cons, List.length_nil]
      omega

theorem mem_normBits (n : Nat) (bs : List Nat) : ∀ x ∈ normBits n bs, ∃ b ∈ bs, x ≤ b := by
  induction bs generalizing n with
  | nil => simp [normBits]
  | cons b rest ih =>
    intro x hx
    by_cases h8 : 8 ≤ n
    · simp only [normBits, h8, if_true, List.mem_cons] at hx
      rcases hx with rfl | hx
      · exact ⟨x, by simp, Nat.le_refl _⟩
      · rcases ih (n - 8) x hx with ⟨b', hb', hle⟩
        exact ⟨b', by simp [hb'], hle⟩
    · simp only [normBits, h8, if_false, List.mem_cons, List.not_mem_nil, or_false] at hx
      subst hx
      exact ⟨b, by simp, Nat.mod_le _ _⟩

theorem bytesEq_shift (n : Nat) (h : 8 ≤ n) (a b : List Nat) : bytesEq (n - 8) a b = bytesEq n a b := by
  have : (n - 8) % 8 = n % 8 := by omega
  simp only [bytesEq, this]

theorem bytesEq_cons_same (n x : Nat) (a b : List Nat) (h : bytesEq n a b = true) :
    bytesEq n (x :: a) (x :: b) = true := by
  cases a with
  | nil =>
    by_cases hr : n % 8 = 0 <;> simp [bytesEq, hr]
  | cons y a' =>
    have hc : (if n % 8 ≠ 0 then (x :: y :: a').length - 1 else (x :: y :: a').length)
        = (if n % 8 ≠ 0 then (y :: a').length - 1 else (y :: a').length) + 1 := by
      split <;> simp
    have hg : (x :: y :: a').length - 1 = ((y :: a').length - 1) + 1 := by simp
    simp only [bytesEq] at h ⊢
    rw [hc, hg, List.take_succ_cons, List.take_succ_cons, List.getD_cons_succ, List.getD_cons_succ]
    simp only [Bool.and_eq_true, beq_iff_eq] at h ⊢
    exact ⟨by rw [h.1], h.2⟩

theorem bytesEq_normBits (n : Nat) (bs : List Nat) (hl : bs.length = (n + 7) / 8) :
    bytesEq n bs (normBits n bs) = true := by
  induction bs generalizing n with
  | nil => simp [bytesEq, normBits]
  | cons b rest ih =>
    simp only [List.length_cons] at hl
    by_cases h8 : 8 ≤ n
    · simp only [normBits, h8, if_true]
      apply bytesEq_cons_same
      rw [← bytesEq_shift n h8]
      exact ih (n - 8) (by omega)
    · have hr : rest = [] := by
        apply List.eq_nil_of_length_eq_zero; omega
      subst hr
      have hn : n % 8 = n := Nat.mod_eq_of_lt (by omega)
      have hn0 : n ≠ 0 := by simp at hl; omega
      simp [normBits, h8, bytesEq, hn, hn0]

theorem bit_elem (a : Nat) (h : a ≤ 1) : numToU128 (castTo .bit a) = some a := by
  have : a = 0 ∨ a = 1 := by omega
  rcases this with rfl | rfl <;> simp [numToU128, castTo]

theorem array_back_bit (shape : List Nat) (bs : List Nat)
    (hl : bs.length = (numel shape * ST.bit.bits + 7) / 8) (hb : ∀ b ∈ bs, b < 256) :
    ∃ (r : List Nat) (bs' : List Nat),
      toFlatU128 bs shape .bit = .ok r ∧ r.length = numel shape ∧
      (∀ a ∈ r, numToU128 (castTo .bit a) = some (gOf .bit a)) ∧
      vecToBytes .bit ((r.map (gOf .bit)).map (fun x => ((x : Nat) : Int))) = .ok bs' ∧
      bs'.length = bs.length ∧ (∀ b ∈ bs', b < 256) ∧
      bytesEq (numel shape * ST.bit.bits) bs bs' = true := by
  have hbits : numel shape * ST.bit.bits = numel shape := by simp [ST.bits]
  rw [hbits] at hl ⊢
  have hchk : checkArrayType bs.length shape .bit = true := by simp [checkArrayType, hl, ST.bits]
  have hr1 : ∀ a ∈ (bs.flatMap unpackByte).take (numel shape), a ≤ 1 := by
    intro a ha
    rcases List.mem_flatMap.1 (List.mem_of_mem_take ha) with ⟨b, _, hab⟩
    exact mem_unpackByte_le b a hab
  have hg : ∀ a ∈ (bs.flatMap unpackByte).take (numel shape), gOf .bit a = a := by
    intro a ha; simp [gOf, bit_elem a (hr1 a ha)]
  refine ⟨(bs.flatMap unpackByte).take (numel shape), normBits (numel shape) bs, ?_, ?_, ?_, ?_,
    length_normBits _ _ hl, ?_, bytesEq_normBits _ _ hl⟩
  · simp [toFlatU128, hchk, vecU128FromBytes, vecFromBytesW]
  · rw [List.length_take, length_flatMap_unpackByte]; omega
  · intro a ha
    rw [hg a ha]; exact bit_elem a (hr1 a ha)
  · have e : ((bs.flatMap unpackByte).take (numel shape)).map (gOf .bit)
        = (bs.flatMap unpackByte).take (numel shape) := by
      conv => rhs; rw [← List.map_id ((bs.flatMap unpackByte).take (numel shape))]
      exact List.map_congr_left (fun a ha => by rw [hg a ha]; rfl)
    rw [e]
    show bitsToBytes _ = _
    rw [bitsToBytes_ok]
    · rw [List.map_map]
      have : (Int.toNat ∘ fun x : Nat => (x : Int)) = id := by funext x; simp
      rw [this, List.map_id, pack_take_unpack _ _ hl hb]
    · intro x hx
      rcases List.mem_map.1 hx with ⟨a, ha, rfl⟩
      have := hr1 a ha
      omega
  · intro x hx
    rcases mem_normBits _ _ x hx with ⟨b, hb', hle⟩
    exact Nat.lt_of_le_of_lt hle (hb b hb')

/-- decode an array value, print every element, parse it, encode again: same length, and equal in the
    sense of `is_equal` (identical for non-bit types; for bits, stray bits of the last byte cleared) -/
theorem array_back (st : ST) (n : Nat) (shape : List Nat) (hn : numel shape = n) (bs : List Nat)
    (hl : bs.length = (n * st.bits + 7) / 8) (hb : ∀ b ∈ bs, b < 256) :
    ∃ (r : List Nat) (g : Nat → Nat) (bs' : List Nat),
      toFlatU128 bs shape st = .ok r ∧ r.length = n ∧
      (∀ a ∈ r, numToU128 (castTo st a) = some (g a)) ∧
      vecToBytes st ((r.map g).map (fun x => ((x : Nat) : Int))) = .ok bs' ∧
      bs'.length = bs.length ∧ (∀ b ∈ bs', b < 256) ∧ bytesEq (n * st.bits) bs bs' = true := by
  subst hn
  by_cases h : st = .bit
  · subst h
    rcases array_back_bit shape bs hl hb with ⟨r, bs', h1, h2, h3, h4, h5, h6, h7⟩
    exact ⟨r, gOf .bit, bs', h1, h2, h3, h4, h5, h6, h7⟩
  · rcases array_back_nonbit st h shape bs hl hb with ⟨r, h1, h2, h3, h4⟩
    exact ⟨r, gOf st, bs, h1, h2, h3, h4, rfl, hb, bytesEq_refl _ _⟩

end CCV.TV
