import CCV.Lemmas.SortPerm
/-
  Lemmas for C18, part 3: rank permutations of strict total orders on row indices, the counting
  rank of `gen_multi_bit_sort_graph`, one radix round, chunk decomposition of bit-string keys.
-/
namespace CCV.Sort

/-! ### rank of a strict total order on indices -/

/-- strict total order on row indices, `Bool`-valued -/
structure IsSTO (lt : Nat → Nat → Bool) : Prop where
  irrefl : ∀ a, lt a a = false
  trans : ∀ a b c, lt a b = true → lt b c = true → lt a c = true
  tri : ∀ a b, lt a b = true ∨ a = b ∨ lt b a = true

/-- number of indices `< n` that precede `i` -/
def cnt (lt : Nat → Nat → Bool) (n i : Nat) : Nat := (List.range n).countP (fun k => lt k i)

/-- `rankOf lt n [i]` = position of row `i` when the rows `0..n-1` are ordered by `lt` -/
def rankOf (lt : Nat → Nat → Bool) (n : Nat) : List Nat := (List.range n).map (cnt lt n)

theorem countP_lt_of {l : List Nat} {p q : Nat → Bool} (h : ∀ x ∈ l, p x = true → q x = true)
    (a : Nat) (ha : a ∈ l) (hpa : p a = false) (hqa : q a = true) :
    l.countP p < l.countP q := by
  induction l with
  | nil => cases ha
  | cons x xs ih =>
    have hmono : xs.countP p ≤ xs.countP q :=
      List.countP_mono_left (fun y hy => h y (List.mem_cons_of_mem _ hy))
    rw [List.countP_cons, List.countP_cons]
    rcases List.mem_cons.mp ha with rfl | ha'
    · simp [hpa, hqa]; omega
    · have := ih (fun y hy => h y (List.mem_cons_of_mem _ hy)) ha'
      have hx := h x List.mem_cons_self
      cases hp : p x with
      | false => simp; omega
      | true => simp [hx hp]; omega

theorem cnt_lt_of {lt : Nat → Nat → Bool} (hs : IsSTO lt) {n i j : Nat} (hi : i < n)
    (h : lt i j = true) : cnt lt n i < cnt lt n j := by
  apply countP_lt_of (fun k _ hk => hs.trans k i j hk h) i (List.mem_range.mpr hi) (hs.irrefl i) h

theorem cnt_lt_iff {lt : Nat → Nat → Bool} (hs : IsSTO lt) {n i j : Nat} (hi : i < n) (hj : j < n) :
    cnt lt n i < cnt lt n j ↔ lt i j = true := by
  constructor
  · intro h
    rcases hs.tri i j with h1 | h1 | h1
    · exact h1
    · subst h1; omega
    · have := cnt_lt_of hs hj h1; omega
  · exact cnt_lt_of hs hi

theorem cnt_lt_n {lt : Nat → Nat → Bool} (hs : IsSTO lt) {n i : Nat} (hi : i < n) : cnt lt n i < n := by
  have : (List.range n).countP (fun k => lt k i) < (List.range n).countP (fun _ => true) :=
    countP_lt_of (fun _ _ _ => rfl) i (List.mem_range.mpr hi) (hs.irrefl i) rfl
  simpa [cnt] using this

theorem rankOf_length (lt : Nat → Nat → Bool) (n : Nat) : (rankOf lt n).length = n := by
  simp [rankOf]

theorem rankOf_get (lt : Nat → Nat → Bool) (n i : Nat) (hi : i < n) :
    (rankOf lt n)[i]? = some (cnt lt n i) := by
  simp [rankOf, hi]

theorem rankOf_perm {lt : Nat → Nat → Bool} (hs : IsSTO lt) (n : Nat) :
    (rankOf lt n).Perm (List.range n) := by
  apply perm_range_of_nodup n _ ?_ ?_ (rankOf_length lt n)
  · rw [List.nodup_iff_pairwise_ne, rankOf, List.pairwise_map]
    refine List.Pairwise.imp_of_mem ?_ List.pairwise_lt_range
    intro a b ha hb hab
    have ha := List.mem_range.mp ha
    have hb := List.mem_range.mp hb
    rcases hs.tri a b with h | h | h
    · have := cnt_lt_of hs ha h; omega
    · omega
    · have := cnt_lt_of hs hb h; omega
  · intro x hx
    simp only [rankOf, List.mem_map, List.mem_range] at hx
    obtain ⟨i, hi, e⟩ := hx
    subst e
    exact cnt_lt_n hs hi

theorem rankOf_congr {lt lt' : Nat → Nat → Bool} (n : Nat)
    (h : ∀ k i, k < n → i < n → lt k i = lt' k i) : rankOf lt n = rankOf lt' n := by
  unfold rankOf
  apply List.map_congr_left
  intro i hi
  unfold cnt
  apply List.countP_congr
  intro k hk
  rw [h k i (List.mem_range.mp hk) (List.mem_range.mp hi)]

/-! ### orders built chunk by chunk -/

def idxLt (k i : Nat) : Bool := decide (k < i)

/-- compare by `h` first, by `lt` on ties -/
def lexStep (h : Nat → Nat) (lt : Nat → Nat → Bool) (k i : Nat) : Bool :=
  decide (h k < h i) || (h k == h i && lt k i)

theorem idxLt_sto : IsSTO idxLt := by
  refine ⟨?_, ?_, ?_⟩ <;> intros <;> simp only [idxLt, decide_eq_true_eq, decide_eq_false_iff_not] at * <;> omega

theorem lexStep_true {h : Nat → Nat} {lt : Nat → Nat → Bool} {k i : Nat} :
    lexStep h lt k i = true ↔ h k < h i ∨ (h k = h i ∧ lt k i = true) := by
  simp [lexStep]

theorem lexStep_sto {h : Nat → Nat} {lt : Nat → Nat → Bool} (hs : IsSTO lt) : IsSTO (lexStep h lt) := by
  refine ⟨?_, ?_, ?_⟩
  · intro a
    cases hh : lexStep h lt a a with
    | false => rfl
    | true =>
      rcases lexStep_true.mp hh with h1 | ⟨_, h1⟩
      · omega
      · rw [hs.irrefl] at h1; cases h1
  · intro a b c h1 h2
    rw [lexStep_true] at h1 h2 ⊢
    rcases h1 with h1 | ⟨e1, l1⟩ <;> rcases h2 with h2 | ⟨e2, l2⟩
    · left; omega
    · left; omega
    · left; omega
    · right; exact ⟨by omega, hs.trans a b c l1 l2⟩
  · intro a b
    rcases Nat.lt_trichotomy (h a) (h b) with h1 | h1 | h1
    · left; exact lexStep_true.mpr (Or.inl h1)
    · rcases hs.tri a b with h2 | h2 | h2
      · left; exact lexStep_true.mpr (Or.inr ⟨h1, h2⟩)
      · right; left; exact h2
      · right; right; exact lexStep_true.mpr (Or.inr ⟨h1.symm, h2⟩)
    · right; right; exact lexStep_true.mpr (Or.inl h1)

/-! ### the counting rank of `gen_multi_bit_sort_graph` -/

theorem countP_range_and_lt (P : Nat → Bool) (i d : Nat) :
    (List.range (i + d)).countP (fun k => P k && decide (k < i)) = (List.range i).countP P := by
  induction d with
  | zero =>
    apply List.countP_congr
    intro k hk
    have := List.mem_range.mp hk
    have h2 : k < i := by omega
    simp [h2]
  | succ d ih =>
    rw [← Nat.add_assoc, List.range_succ, List.countP_append, ih]
    simp

theorem countP_or_disjoint (l : List Nat) (A B : Nat → Bool) (h : ∀ x, A x = true → B x = false) :
    l.countP (fun k => A k || B k) = l.countP A + l.countP B := by
  induction l with
  | nil => rfl
  | cons x xs ih =>
    rw [List.countP_cons, List.countP_cons, List.countP_cons, ih]
    cases hA : A x with
    | false => cases hB : B x <;> simp <;> omega
    | true => simp [h x hA]; omega

theorem countingRank_eq (vals : List Nat) :
    countingRank vals = rankOf (lexStep (vals.getD · 0) idxLt) vals.length := by
  unfold countingRank rankOf
  apply List.map_congr_left
  intro i hi
  have hi := List.mem_range.mp hi
  unfold countS cnt
  have h1 : (List.range vals.length).countP (fun k => lexStep (vals.getD · 0) idxLt k i) =
      (List.range vals.length).countP (fun k => decide (vals.getD k 0 < vals.getD i 0)) +
      (List.range vals.length).countP (fun k => (vals.getD k 0 == vals.getD i 0) && decide (k < i)) := by
    rw [← countP_or_disjoint]
    · rfl
    · intro x hx
      simp only [decide_eq_true_eq] at hx
      simp only [Bool.and_eq_false_imp, beq_iff_eq]
      intro e; omega
  rw [h1]
  have h2 := countP_range_and_lt (fun k => vals.getD k 0 == vals.getD i 0) i (vals.length - i)
  rw [show i + (vals.length - i) = vals.length by omega] at h2
  rw [h2, List.range_succ, List.countP_append]
  have h3 : (List.range i).countP (fun k => decide (vals.getD k 0 = vals.getD i 0)) =
      (List.range i).countP (fun k => vals.getD k 0 == vals.getD i 0) := by
    apply List.countP_congr; intro k _; simp
  rw [h3]
  simp

/-! ### `Nat` lists as functions -/

theorem getD_of_get? {l : List Nat} {i v : Nat} (h : l[i]? = some v) : l.getD i 0 = v := by
  simp [List.getD_eq_getElem?_getD, h]

theorem get?_of_lt {l : List Nat} {i : Nat} (h : i < l.length) : l[i]? = some (l.getD i 0) := by
  simp [List.getD_eq_getElem?_getD, List.getElem?_eq_getElem h]

theorem ext_getD {l1 l2 : List Nat} (n : Nat) (h1 : l1.length = n) (h2 : l2.length = n)
    (h : ∀ i, i < n → l1.getD i 0 = l2.getD i 0) : l1 = l2 := by
  apply List.ext_getElem?
  intro i
  by_cases hi : i < n
  · rw [get?_of_lt (by omega), get?_of_lt (by omega), h i hi]
  · rw [List.getElem?_eq_none (by omega), List.getElem?_eq_none (by omega)]

theorem getD_map_lt {l : List Nat} (f : Nat → Nat) {j : Nat} (hj : j < l.length) :
    (l.map f).getD j 0 = f (l.getD j 0) := by
  simp [List.getD_eq_getElem?_getD, List.getElem?_map, List.getElem?_eq_getElem hj]

theorem eq_map_getD (l : List Nat) : l = (List.range l.length).map (l.getD · 0) := by
  apply ext_getD l.length rfl (by simp)
  intro i hi
  rw [getD_map_lt _ (by simpa using hi)]
  simp [List.getD_eq_getElem?_getD, List.getElem?_range hi]

theorem gatherN {a idx r : List Nat} (h : gather a idx = some r) :
    r.length = idx.length ∧ ∀ j, j < idx.length → r.getD j 0 = a.getD (idx.getD j 0) 0 := by
  refine ⟨gather_length h, fun j hj => ?_⟩
  obtain ⟨h1, h2⟩ := gather_get h j (idx.getD j 0) (get?_of_lt hj)
  rw [get?_of_lt h2] at h1
  exact getD_of_get? h1

theorem perm_range_getD_lt {n : Nat} {p : List Nat} (hp : p.Perm (List.range n)) {j : Nat} (hj : j < n) :
    p.getD j 0 < n :=
  perm_range_get_lt hp j _ (get?_of_lt (by rw [perm_range_length hp]; exact hj))

theorem perm_range_surjD {n : Nat} {p : List Nat} (hp : p.Perm (List.range n)) {m : Nat} (hm : m < n) :
    ∃ j, j < n ∧ p.getD j 0 = m := by
  obtain ⟨j, hj, e⟩ := perm_range_surj hp m hm
  exact ⟨j, hj, getD_of_get? e⟩

/-- applying the inverse of a permutation (through `InversePermutation` and `gather`) -/
theorem invApply_spec {α : Type} {n : Nat} {p : List Nat} {a : List α} (hp : p.Perm (List.range n))
    (ha : a.length = n) :
    ∃ b, (inversePerm p).bind (gather a) = some b ∧ b.length = n ∧
      ∀ k v : Nat, p[k]? = some v → b[v]? = a[k]? := by
  obtain ⟨q, hq, hqp, h1, _⟩ := inversePerm_spec hp
  obtain ⟨b, hb⟩ := gather_exists a q (fun i hi => by rw [ha]; exact perm_range_lt hqp i hi)
  refine ⟨b, by simp [hq, hb], by rw [gather_length hb, perm_range_length hqp], ?_⟩
  intro k v hk
  exact (gather_get hb v k (h1 k v hk)).1

theorem invApplyN {n : Nat} {p a : List Nat} (hp : p.Perm (List.range n)) (ha : a.length = n) :
    ∃ b, (inversePerm p).bind (gather a) = some b ∧ b.length = n ∧
      ∀ k, k < n → b.getD (p.getD k 0) 0 = a.getD k 0 := by
  obtain ⟨b, h1, h2, h3⟩ := invApply_spec hp ha
  refine ⟨b, h1, h2, fun k hk => ?_⟩
  have := h3 k (p.getD k 0) (get?_of_lt (by rw [perm_range_length hp]; exact hk))
  rw [get?_of_lt (l := a) (by omega)] at this
  exact getD_of_get? this

/-- a permutation composed with a permutation -/
theorem gather_perm {n : Nat} {sigma pi r : List Nat} (hs : sigma.Perm (List.range n))
    (hpi : pi.Perm (List.range n)) (h : gather sigma pi = some r) : r.Perm (List.range n) := by
  obtain ⟨h1, h2⟩ := gatherN h
  have hpl := perm_range_length hpi
  have hsl := perm_range_length hs
  have e1 : r = pi.map (sigma.getD · 0) := by
    apply ext_getD n (by omega) (by simp [hpl])
    intro i hi
    rw [h2 i (by omega), getD_map_lt _ (by omega)]
  rw [e1]
  refine (hpi.map _).trans ?_
  have := eq_map_getD sigma
  rw [hsl] at this
  rw [← this]
  exact hs

/-! ### one round of the radix loop -/

theorem cnt_reindex {n : Nat} {sigma : List Nat} (hs : sigma.Perm (List.range n)) (Q : Nat → Bool) :
    (List.range n).countP Q = (List.range n).countP (fun k => Q (sigma.getD k 0)) := by
  rw [← hs.countP_eq Q]
  have := eq_map_getD sigma
  rw [perm_range_length hs] at this
  conv => lhs; rw [this]
  rw [List.countP_map]
  rfl

theorem radixRound_spec {n : Nat} {lt : Nat → Nat → Bool} (hs : IsSTO lt) {pi col : List Nat}
    (hpi : pi.Perm (List.range n)) (hcol : col.length = n) :
    radixRound pi (rankOf lt n) col = some (rankOf (lexStep (col.getD · 0) lt) n) := by
  have hsig := rankOf_perm hs n
  have hsl := rankOf_length lt n
  have hpl := perm_range_length hpi
  have hsigD : ∀ m, m < n → (rankOf lt n).getD m 0 = cnt lt n m := fun m hm =>
    getD_of_get? (rankOf_get lt n m hm)
  -- k = shuffle(col, pi)
  obtain ⟨k, hk⟩ := gather_exists col pi (fun i hi => by rw [hcol]; exact perm_range_lt hpi i hi)
  obtain ⟨hk1, hk2⟩ := gatherN hk
  -- sigma' = shuffle_and_reveal(sigma, pi)
  obtain ⟨s', hs'⟩ := gather_exists (rankOf lt n) pi (fun i hi => by rw [hsl]; exact perm_range_lt hpi i hi)
  obtain ⟨hs1, hs2⟩ := gatherN hs'
  have hs'p := gather_perm hsig hpi hs'
  -- k' = apply_inverse(k, sigma')
  obtain ⟨k', hk', hk'1, hk'2⟩ := invApplyN hs'p (a := k) (by omega)
  have hk'3 : ∀ m, m < n → k'.getD (cnt lt n m) 0 = col.getD m 0 := by
    intro m hm
    obtain ⟨j, hj, e⟩ := perm_range_surjD hpi hm
    have := hk'2 j hj
    rw [hs2 j (by omega), hk2 j (by omega), e, hsigD m hm] at this
    exact this
  -- sigma'' = apply(ro, sigma')
  have hro : countingRank k' = rankOf (lexStep (k'.getD · 0) idxLt) n := by
    rw [countingRank_eq, hk'1]
  obtain ⟨s'', hs''⟩ := gather_exists (countingRank k') s' (fun i hi => by
    rw [hro, rankOf_length]; exact perm_range_lt hs'p i hi)
  obtain ⟨hs''1, hs''2⟩ := gatherN hs''
  -- unshuffle
  obtain ⟨out, hout, hout1, hout2⟩ := invApplyN hpi (a := s'') (by omega)
  have hres : out = rankOf (lexStep (col.getD · 0) lt) n := by
    apply ext_getD n hout1 (rankOf_length _ _)
    intro m hm
    obtain ⟨j, hj, e⟩ := perm_range_surjD hpi hm
    have h1 := hout2 j hj
    rw [e, hs''2 j (by omega), hs2 j (by omega), e, hsigD m hm, hro] at h1
    rw [h1, getD_of_get? (rankOf_get _ n _ (cnt_lt_n hs hm)), getD_of_get? (rankOf_get _ n m hm)]
    show (List.range n).countP (fun c => lexStep (k'.getD · 0) idxLt c (cnt lt n m)) =
      (List.range n).countP (fun c => lexStep (col.getD · 0) lt c m)
    rw [cnt_reindex hsig]
    apply List.countP_congr
    intro c hc
    have hc := List.mem_range.mp hc
    rw [hsigD c hc, lexStep_true, lexStep_true, hk'3 c hc, hk'3 m hm]
    simp only [idxLt, decide_eq_true_eq, cnt_lt_iff hs hc hm]
  simp [radixRound, hk, hs', hk', hs'', hout, hres]

end CCV.Sort
