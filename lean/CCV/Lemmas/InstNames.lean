import CCV.Model.Instantiate
namespace CCV.Instantiate

theorem toDigits_inj {a b : Nat} (h : Nat.toDigits 10 a = Nat.toDigits 10 b) : a = b := by
  have := congrArg (fun l => Nat.ofDigitChars 10 l 0) h
  simpa [Nat.ofDigitChars_ten_toDigits] using this

theorem toDigits_isDigit {n : Nat} {c : Char} (h : c ∈ Nat.toDigits 10 n) : c.isDigit = true :=
  Nat.isDigit_of_mem_toDigits (by decide) (by decide) h

theorem span_unique {α : Type} (p : α → Bool) :
    ∀ (l₁ l₂ : List α) (c c' : α) (x y : List α),
      (∀ a ∈ l₁, p a = true) → (∀ a ∈ l₂, p a = true) → p c = false → p c' = false →
      l₁ ++ c :: x = l₂ ++ c' :: y → l₁ = l₂ ∧ c :: x = c' :: y := by
  intro l₁
  induction l₁ with
  | nil =>
    intro l₂ c c' x y _ h₂ hc _ h
    cases l₂ with
    | nil => exact ⟨rfl, h⟩
    | cons b l₂ =>
      simp only [List.nil_append, List.cons_append, List.cons.injEq] at h
      have := h₂ b (by simp)
      rw [← h.1, hc] at this
      cases this
  | cons a l₁ ih =>
    intro l₂ c c' x y h₁ h₂ hc hc' h
    cases l₂ with
    | nil =>
      simp only [List.nil_append, List.cons_append, List.cons.injEq] at h
      have := h₁ a (by simp)
      rw [h.1, hc'] at this
      cases this
    | cons b l₂ =>
      simp only [List.cons_append, List.cons.injEq] at h
      have := ih l₂ c c' x y (fun z hz => h₁ z (by simp [hz])) (fun z hz => h₂ z (by simp [hz])) hc hc' h.2
      exact ⟨by rw [h.1, this.1], this.2⟩

theorem digits_sep {m n : Nat} {c c' : Char} {x y : List Char}
    (hc : c.isDigit = false) (hc' : c'.isDigit = false)
    (h : Nat.toDigits 10 m ++ c :: x = Nat.toDigits 10 n ++ c' :: y) :
    m = n ∧ c :: x = c' :: y := by
  have := span_unique Char.isDigit _ _ c c' x y (fun _ => toDigits_isDigit) (fun _ => toDigits_isDigit) hc hc' h
  exact ⟨toDigits_inj this.1, this.2⟩

theorem showBool_sep {b b' : Bool} {x y : List Char}
    (h : showBool b ++ x = showBool b' ++ y) : b = b' ∧ x = y := by
  cases b <;> cases b' <;> simp [showBool] at h ⊢ <;> exact h

theorem escape_sep : ∀ (s s' x y : List Char),
    escape s ++ '"' :: x = escape s' ++ '"' :: y → s = s' ∧ x = y := by
  intro s
  induction s with
  | nil =>
    intro s' x y h
    cases s' with
    | nil => simpa [escape] using h
    | cons c' cs' =>
      exfalso
      simp only [escape, escChar, List.nil_append] at h
      split at h
      · simp at h
      · split at h
        · simp at h
        · rename_i h1 _
          simp at h
          exact h1 h.1.symm
  | cons c cs ih =>
    intro s' x y h
    cases s' with
    | nil =>
      exfalso
      simp only [escape, escChar, List.nil_append] at h
      split at h
      · simp at h
      · split at h
        · simp at h
        · rename_i h1 _
          simp at h
          exact h1 h.1
    | cons c' cs' =>
      simp only [escape, escChar, List.append_assoc] at h
      by_cases h1 : c = '"' <;> by_cases h2 : c' = '"' <;>
        by_cases h3 : c = '\\' <;> by_cases h4 : c' = '\\' <;>
        simp [h1, h2, h3, h4] at h <;>
        first
        | (have := ih _ _ _ h; subst_vars; simp_all; done)
        | (have := ih _ _ _ h.2; simp_all; done)
        | (exfalso; simp_all; done)
        | exact absurd h.1.symm h4

theorem digits_sep_iff {m n : Nat} {c c' : Char} {x y : List Char}
    (hc : c.isDigit = false) (hc' : c'.isDigit = false) :
    (Nat.toDigits 10 m ++ c :: x = Nat.toDigits 10 n ++ c' :: y) ↔ (m = n ∧ c = c' ∧ x = y) := by
  constructor
  · intro h
    have := digits_sep hc hc' h
    simpa using this
  · rintro ⟨rfl, rfl, rfl⟩; rfl

theorem showBool_sep_iff {b b' : Bool} {x y : List Char} :
    (showBool b ++ x = showBool b' ++ y) ↔ (b = b' ∧ x = y) :=
  ⟨showBool_sep, by rintro ⟨rfl, rfl⟩; rfl⟩

theorem escape_sep_iff {s s' x y : List Char} :
    (escape s ++ '"' :: x = escape s' ++ '"' :: y) ↔ (s = s' ∧ x = y) :=
  ⟨escape_sep _ _ _ _, by rintro ⟨rfl, rfl⟩; rfl⟩

/-! string literals as character lists (cheap for the kernel: `String.toList_ofList`) -/
theorem lit_0 : "Not".toList = ['N', 'o', 't'] := String.toList_ofList
theorem lit_1 : "Or".toList = ['O', 'r'] := String.toList_ofList
theorem lit_2 : "BinaryAdd(overflow_bit=".toList = ['B', 'i', 'n', 'a', 'r', 'y', 'A', 'd', 'd', '(', 'o', 'v', 'e', 'r', 'f', 'l', 'o', 'w', '_', 'b', 'i', 't', '='] := String.toList_ofList
theorem lit_3 : ")".toList = [')'] := String.toList_ofList
theorem lit_4 : "AucScore(fp=FixedPrecisionConfig { fractional_bits: ".toList = ['A', 'u', 'c', 'S', 'c', 'o', 'r', 'e', '(', 'f', 'p', '=', 'F', 'i', 'x', 'e', 'd', 'P', 'r', 'e', 'c', 'i', 's', 'i', 'o', 'n', 'C', 'o', 'n', 'f', 'i', 'g', ' ', '{', ' ', 'f', 'r', 'a', 'c', 't', 'i', 'o', 'n', 'a', 'l', '_', 'b', 'i', 't', 's', ':', ' '] := String.toList_ofList
theorem lit_5 : ", debug: ".toList = [',', ' ', 'd', 'e', 'b', 'u', 'g', ':', ' '] := String.toList_ofList
theorem lit_6 : " })".toList = [' ', '}', ')'] := String.toList_ofList
theorem lit_7 : "Clip(".toList = ['C', 'l', 'i', 'p', '('] := String.toList_ofList
theorem lit_8 : "GreaterThan(signed_comparison=".toList = ['G', 'r', 'e', 'a', 't', 'e', 'r', 'T', 'h', 'a', 'n', '(', 's', 'i', 'g', 'n', 'e', 'd', '_', 'c', 'o', 'm', 'p', 'a', 'r', 'i', 's', 'o', 'n', '='] := String.toList_ofList
theorem lit_9 : "NotEqual".toList = ['N', 'o', 't', 'E', 'q', 'u', 'a', 'l'] := String.toList_ofList
theorem lit_10 : "LessThan(signed_comparison=".toList = ['L', 'e', 's', 's', 'T', 'h', 'a', 'n', '(', 's', 'i', 'g', 'n', 'e', 'd', '_', 'c', 'o', 'm', 'p', 'a', 'r', 'i', 's', 'o', 'n', '='] := String.toList_ofList
theorem lit_11 : "LessThanEqualTo(signed_comparison=".toList = ['L', 'e', 's', 's', 'T', 'h', 'a', 'n', 'E', 'q', 'u', 'a', 'l', 'T', 'o', '(', 's', 'i', 'g', 'n', 'e', 'd', '_', 'c', 'o', 'm', 'p', 'a', 'r', 'i', 's', 'o', 'n', '='] := String.toList_ofList
theorem lit_12 : "GreaterThanEqualTo(signed_comparison=".toList = ['G', 'r', 'e', 'a', 't', 'e', 'r', 'T', 'h', 'a', 'n', 'E', 'q', 'u', 'a', 'l', 'T', 'o', '(', 's', 'i', 'g', 'n', 'e', 'd', '_', 'c', 'o', 'm', 'p', 'a', 'r', 'i', 's', 'o', 'n', '='] := String.toList_ofList
theorem lit_13 : "Equal".toList = ['E', 'q', 'u', 'a', 'l'] := String.toList_ofList
theorem lit_14 : "Min(signed_comparison=".toList = ['M', 'i', 'n', '(', 's', 'i', 'g', 'n', 'e', 'd', '_', 'c', 'o', 'm', 'p', 'a', 'r', 'i', 's', 'o', 'n', '='] := String.toList_ofList
theorem lit_15 : "Max(signed_comparison=".toList = ['M', 'a', 'x', '(', 's', 'i', 'g', 'n', 'e', 'd', '_', 'c', 'o', 'm', 'p', 'a', 'r', 'i', 's', 'o', 'n', '='] := String.toList_ofList
theorem lit_16 : "Mux".toList = ['M', 'u', 'x'] := String.toList_ofList
theorem lit_17 : "LongDivision(signed=".toList = ['L', 'o', 'n', 'g', 'D', 'i', 'v', 'i', 's', 'i', 'o', 'n', '(', 's', 'i', 'g', 'n', 'e', 'd', '='] := String.toList_ofList
theorem lit_18 : "NewtonDivision(iterations=".toList = ['N', 'e', 'w', 't', 'o', 'n', 'D', 'i', 'v', 'i', 's', 'i', 'o', 'n', '(', 'i', 't', 'e', 'r', 'a', 't', 'i', 'o', 'n', 's', '='] := String.toList_ofList
theorem lit_19 : ", cap=2**".toList = [',', ' ', 'c', 'a', 'p', '=', '2', '*', '*'] := String.toList_ofList
theorem lit_20 : "InverseSqrt(iterations=".toList = ['I', 'n', 'v', 'e', 'r', 's', 'e', 'S', 'q', 'r', 't', '(', 'i', 't', 'e', 'r', 'a', 't', 'i', 'o', 'n', 's', '='] := String.toList_ofList
theorem lit_21 : "GoldshmidtDivision(iterations=".toList = ['G', 'o', 'l', 'd', 's', 'h', 'm', 'i', 'd', 't', 'D', 'i', 'v', 'i', 's', 'i', 'o', 'n', '(', 'i', 't', 'e', 'r', 'a', 't', 'i', 'o', 'n', 's', '='] := String.toList_ofList
theorem lit_22 : "TaylorExponent(taylor_terms=".toList = ['T', 'a', 'y', 'l', 'o', 'r', 'E', 'x', 'p', 'o', 'n', 'e', 'n', 't', '(', 't', 'a', 'y', 'l', 'o', 'r', '_', 't', 'e', 'r', 'm', 's', '='] := String.toList_ofList
theorem lit_23 : ", fixed_precision_denom=2**".toList = [',', ' ', 'f', 'i', 'x', 'e', 'd', '_', 'p', 'r', 'e', 'c', 'i', 's', 'i', 'o', 'n', '_', 'd', 'e', 'n', 'o', 'm', '=', '2', '*', '*'] := String.toList_ofList
theorem lit_24 : "ApproxExponent(scaling_factor=2**".toList = ['A', 'p', 'p', 'r', 'o', 'x', 'E', 'x', 'p', 'o', 'n', 'e', 'n', 't', '(', 's', 'c', 'a', 'l', 'i', 'n', 'g', '_', 'f', 'a', 'c', 't', 'o', 'r', '=', '2', '*', '*'] := String.toList_ofList
theorem lit_25 : "ApproxGelu(scaling_factor=2**".toList = ['A', 'p', 'p', 'r', 'o', 'x', 'G', 'e', 'l', 'u', '(', 's', 'c', 'a', 'l', 'i', 'n', 'g', '_', 'f', 'a', 'c', 't', 'o', 'r', '=', '2', '*', '*'] := String.toList_ofList
theorem lit_26 : ", log_buckets=".toList = [',', ' ', 'l', 'o', 'g', '_', 'b', 'u', 'c', 'k', 'e', 't', 's', '='] := String.toList_ofList
theorem lit_27 : "ApproxGeluDerivative(scaling_factor=2**".toList = ['A', 'p', 'p', 'r', 'o', 'x', 'G', 'e', 'l', 'u', 'D', 'e', 'r', 'i', 'v', 'a', 't', 'i', 'v', 'e', '(', 's', 'c', 'a', 'l', 'i', 'n', 'g', '_', 'f', 'a', 'c', 't', 'o', 'r', '=', '2', '*', '*'] := String.toList_ofList
theorem lit_28 : "ApproxSigmoid(scaling_factor=2**".toList = ['A', 'p', 'p', 'r', 'o', 'x', 'S', 'i', 'g', 'm', 'o', 'i', 'd', '(', 's', 'c', 'a', 'l', 'i', 'n', 'g', '_', 'f', 'a', 'c', 't', 'o', 'r', '=', '2', '*', '*'] := String.toList_ofList
theorem lit_29 : "FixedMultiply(".toList = ['F', 'i', 'x', 'e', 'd', 'M', 'u', 'l', 't', 'i', 'p', 'l', 'y', '('] := String.toList_ofList
theorem lit_30 : ", debug=".toList = [',', ' ', 'd', 'e', 'b', 'u', 'g', '='] := String.toList_ofList
theorem lit_31 : "SortIntegers(key=".toList = ['S', 'o', 'r', 't', 'I', 'n', 't', 'e', 'g', 'e', 'r', 's', '(', 'k', 'e', 'y', '='] := String.toList_ofList
theorem lit_32 : "LowMC(".toList = ['L', 'o', 'w', 'M', 'C', '('] := String.toList_ofList
theorem lit_33 : "-".toList = ['-'] := String.toList_ofList
theorem lit_34 : "-SIZE".toList = ['-', 'S', 'I', 'Z', 'E'] := String.toList_ofList

/-! family separation -/
def head (l : List Char) : List Char := l.takeWhile (fun c => c != '(' && c != ':')

def fam : LibOp → Nat
  | .not => 0
  | .or => 1
  | .binaryAdd _ => 2
  | .aucScore _ _ => 3
  | .clip2K _ => 4
  | .greaterThan _ => 5
  | .notEqual => 6
  | .lessThan _ => 7
  | .lessThanEqualTo _ => 8
  | .greaterThanEqualTo _ => 9
  | .equal => 10
  | .min _ => 11
  | .max _ => 12
  | .mux => 13
  | .longDivision _ => 14
  | .newtonInversion _ _ => 15
  | .inverseSqrt _ _ => 16
  | .goldschmidtDivision _ _ => 17
  | .taylorExponent _ _ => 18
  | .approxExponent _ => 19
  | .approxGelu _ _ => 20
  | .approxGeluDerivative _ _ => 21
  | .approxSigmoid _ _ => 22
  | .fixedMultiply _ _ => 23
  | .sortByIntegerKey _ => 24
  | .lowMC _ _ _ => 25

def famTable : List (List Char) :=
  [['N', 'o', 't'],
   ['O', 'r'],
   ['B', 'i', 'n', 'a', 'r', 'y', 'A', 'd', 'd'],
   ['A', 'u', 'c', 'S', 'c', 'o', 'r', 'e'],
   ['C', 'l', 'i', 'p'],
   ['G', 'r', 'e', 'a', 't', 'e', 'r', 'T', 'h', 'a', 'n'],
   ['N', 'o', 't', 'E', 'q', 'u', 'a', 'l'],
   ['L', 'e', 's', 's', 'T', 'h', 'a', 'n'],
   ['L', 'e', 's', 's', 'T', 'h', 'a', 'n', 'E', 'q', 'u', 'a', 'l', 'T', 'o'],
   ['G', 'r', 'e', 'a', 't', 'e', 'r', 'T', 'h', 'a', 'n', 'E', 'q', 'u', 'a', 'l', 'T', 'o'],
   ['E', 'q', 'u', 'a', 'l'],
   ['M', 'i', 'n'],
   ['M', 'a', 'x'],
   ['M', 'u', 'x'],
   ['L', 'o', 'n', 'g', 'D', 'i', 'v', 'i', 's', 'i', 'o', 'n'],
   ['N', 'e', 'w', 't', 'o', 'n', 'D', 'i', 'v', 'i', 's', 'i', 'o', 'n'],
   ['I', 'n', 'v', 'e', 'r', 's', 'e', 'S', 'q', 'r', 't'],
   ['G', 'o', 'l', 'd', 's', 'h', 'm', 'i', 'd', 't', 'D', 'i', 'v', 'i', 's', 'i', 'o', 'n'],
   ['T', 'a', 'y', 'l', 'o', 'r', 'E', 'x', 'p', 'o', 'n', 'e', 'n', 't'],
   ['A', 'p', 'p', 'r', 'o', 'x', 'E', 'x', 'p', 'o', 'n', 'e', 'n', 't'],
   ['A', 'p', 'p', 'r', 'o', 'x', 'G', 'e', 'l', 'u'],
   ['A', 'p', 'p', 'r', 'o', 'x', 'G', 'e', 'l', 'u', 'D', 'e', 'r', 'i', 'v', 'a', 't', 'i', 'v', 'e'],
   ['A', 'p', 'p', 'r', 'o', 'x', 'S', 'i', 'g', 'm', 'o', 'i', 'd'],
   ['F', 'i', 'x', 'e', 'd', 'M', 'u', 'l', 't', 'i', 'p', 'l', 'y'],
   ['S', 'o', 'r', 't', 'I', 'n', 't', 'e', 'g', 'e', 'r', 's'],
   ['L', 'o', 'w', 'M', 'C']]

def famOfHead (l : List Char) : Nat := famTable.idxOf l

/-- unfolding of a name into characters, digit strings, `showBool`, `escape` -/
macro "name_norm" " at " h:ident : tactic => `(tactic|
  simp only [opNameChars, opSpec, render, Piece.render, lit_0, lit_1, lit_2, lit_3, lit_4, lit_5, lit_6, lit_7, lit_8, lit_9, lit_10, lit_11, lit_12, lit_13, lit_14, lit_15, lit_16, lit_17, lit_18, lit_19, lit_20, lit_21, lit_22, lit_23, lit_24, lit_25, lit_26, lit_27, lit_28, lit_29, lit_30, lit_31, lit_32, lit_33, lit_34,
    List.cons_append, List.nil_append, List.append_nil, List.append_assoc] at $h:ident)
macro "name_norm" : tactic => `(tactic|
  simp only [opNameChars, opSpec, render, Piece.render, lit_0, lit_1, lit_2, lit_3, lit_4, lit_5, lit_6, lit_7, lit_8, lit_9, lit_10, lit_11, lit_12, lit_13, lit_14, lit_15, lit_16, lit_17, lit_18, lit_19, lit_20, lit_21, lit_22, lit_23, lit_24, lit_25, lit_26, lit_27, lit_28, lit_29, lit_30, lit_31, lit_32, lit_33, lit_34,
    List.cons_append, List.nil_append, List.append_nil, List.append_assoc])

theorem fam_head (op : LibOp) (r : List Char) :
    famOfHead (head (opNameChars op ++ ':' :: r)) = fam op := by
  cases op <;> name_norm <;> simp [head] <;> rfl

theorem fam_eq_of_name {a b : LibOp} {r r' : List Char}
    (h : opNameChars a ++ ':' :: r = opNameChars b ++ ':' :: r') : fam a = fam b := by
  rw [← fam_head a r, ← fam_head b r', h]

set_option linter.unusedSimpArgs false in
theorem opNameChars_prefix_free (a b : LibOp) (r r' : List Char)
    (h : opNameChars a ++ ':' :: r = opNameChars b ++ ':' :: r') : a = b ∧ r = r' := by
  have hf := fam_eq_of_name h
  cases a <;> cases b <;>
    first
    | (exfalso; simp only [fam] at hf; omega)
    | skip
  all_goals
    name_norm at h
    simp (disch := decide) only [digits_sep_iff, showBool_sep_iff, escape_sep_iff,
      List.cons.injEq, true_and] at h
  all_goals
    first
    | (simp [h]; done)
    | (obtain ⟨rfl, rfl, hb, rfl⟩ := h
       rename_i d d'
       cases d <;> cases d' <;> simp at hb ⊢)

example : opNameChars (.clip2K 10) = "Clip(10)".toList := by decide
example : opNameChars (.lowMC 49 12 true) = "LowMC(49-12-SIZE128)".toList := by decide
example : opNameChars (.sortByIntegerKey "a\"b".toList) = "SortIntegers(key=\"a\\\"b\")".toList := by decide
/-- without the separator the names are not prefix-free ("Not" is a prefix of "NotEqual") -/
example : opNameChars .not ++ "Equal".toList = opNameChars .notEqual ++ [] := by decide

theorem opNameChars_injective {a b : LibOp} (h : opNameChars a = opNameChars b) : a = b :=
  (opNameChars_prefix_free a b [] [] (by rw [h])).1

theorem opName_injective {a b : LibOp} (h : opName a = opName b) : a = b :=
  opNameChars_injective (String.ofList_injective h)

example : opName (.clip2K 10) = "Clip(10)" := by decide
example : opName (.lessThan true) ≠ opName (.lessThanEqualTo true) := fun h => by
  cases opName_injective h

theorem lit_uu : "__".toList = ['_', '_'] := String.toList_ofList
theorem lit_ccl : "::<".toList = [':', ':', '<'] := String.toList_ofList

theorem instNameChars_inj {a b : LibOp} {x y : List Char}
    (h : instNameChars (opNameChars a) x = instNameChars (opNameChars b) y) : a = b ∧ x = y := by
  simp only [instNameChars, lit_uu, lit_ccl, List.cons_append, List.nil_append,
    List.append_assoc, List.cons.injEq, true_and] at h
  obtain ⟨hab, h2⟩ := opNameChars_prefix_free _ _ _ _ h
  simp only [List.cons.injEq, true_and] at h2
  exact ⟨hab, List.append_cancel_right h2⟩

theorem instName_injective (hty : ∀ ts ts' : List Ty, showTys ts = showTys ts' → ts = ts')
    {a b : LibOp} {ts ts' : List Ty} (h : instName a ts = instName b ts') : a = b ∧ ts = ts' := by
  obtain ⟨hab, h2⟩ := instNameChars_inj (String.ofList_injective h)
  exact ⟨hab, hty _ _ h2⟩

example : instNameChars (opNameChars (.min false)) (showTys [.scalar ⟨false, 1⟩, .array [2, 3] ⟨true, 32⟩])
    = "__Min(signed_comparison=false)::<bit, i32[2, 3]>".toList := by decide

/-! ## printing of flat types is injective -/

/-- a block of `p`-characters followed by the end of the text or a non-`p` character -/
theorem span_unique' {α : Type} (p : α → Bool) :
    ∀ (l₁ l₂ x y : List α),
      (∀ a ∈ l₁, p a = true) → (∀ a ∈ l₂, p a = true) →
      (∀ c t, x = c :: t → p c = false) → (∀ c t, y = c :: t → p c = false) →
      l₁ ++ x = l₂ ++ y → l₁ = l₂ ∧ x = y := by
  intro l₁
  induction l₁ with
  | nil =>
    intro l₂ x y _ h₂ hx _ h
    cases l₂ with
    | nil => exact ⟨rfl, h⟩
    | cons b l₂ =>
      have h1 := hx b _ h
      have h2 := h₂ b (by simp)
      rw [h1] at h2; cases h2
  | cons a l₁ ih =>
    intro l₂ x y h₁ h₂ hx hy h
    cases l₂ with
    | nil =>
      have h1 := hy a _ h.symm
      have h2 := h₁ a (by simp)
      rw [h1] at h2; cases h2
    | cons b l₂ =>
      simp only [List.cons_append, List.cons.injEq] at h
      have := ih l₂ x y (fun z hz => h₁ z (by simp [hz])) (fun z hz => h₂ z (by simp [hz])) hx hy h.2
      exact ⟨by rw [h.1, this.1], this.2⟩

theorem lit_bit : "bit".toList = ['b', 'i', 't'] := String.toList_ofList
theorem lit_cs : ", ".toList = [',', ' '] := String.toList_ofList

/-- what `Display` can tell apart: the bit type is unsigned -/
def ScalarT.ok (st : ScalarT) : Prop := st.bits = 1 → st.signed = false

/-- the scalar types of the library (data_types.rs: BIT, (U)INT8…(U)INT128) -/
def ScalarT.real (st : ScalarT) : Prop :=
  (st.bits = 1 ∧ st.signed = false) ∨ st.bits ∈ [8, 16, 32, 64, 128]

theorem ScalarT.real.ok {st : ScalarT} (h : st.real) : st.ok := by
  intro h1
  rcases h with h | h
  · exact h.2
  · rw [h1] at h; simp at h

theorem showScalar_inj {s s' : ScalarT} (hs : s.ok) (hs' : s'.ok)
    (h : showScalar s = showScalar s') : s = s' := by
  obtain ⟨sg, b⟩ := s
  obtain ⟨sg', b'⟩ := s'
  simp only [showScalar, lit_bit] at h
  simp only [ScalarT.ok] at hs hs'
  by_cases h1 : b = 1 <;> by_cases h2 : b' = 1
  · simp [h1, h2, hs h1, hs' h2]
  · rw [if_pos h1, if_neg h2] at h
    cases sg' <;> simp at h
  · rw [if_neg h1, if_pos h2] at h
    cases sg <;> simp at h
  · rw [if_neg h1, if_neg h2] at h
    simp only [List.cons.injEq] at h
    have := toDigits_inj h.2
    cases sg <;> cases sg' <;> simp_all

/-- characters of a scalar type name: letters and digits -/
def scalarCh (c : Char) : Bool := c != '[' && c != ','

theorem digit_scalarCh {c : Char} (h : c.isDigit = true) : scalarCh c = true := by
  unfold scalarCh
  by_cases h1 : c = '[' <;> by_cases h2 : c = ',' <;> simp_all
  all_goals (revert h; decide)

theorem showScalar_chars (s : ScalarT) : ∀ c ∈ showScalar s, scalarCh c = true := by
  intro c hc
  simp only [showScalar, lit_bit] at hc
  split at hc
  · simp at hc
    rcases hc with rfl | rfl | rfl <;> decide
  · simp only [List.mem_cons] at hc
    rcases hc with rfl | hc
    · split <;> decide
    · exact digit_scalarCh (toDigits_isDigit hc)

theorem showScalar_ne_nil (s : ScalarT) : showScalar s ≠ [] := by
  simp only [showScalar, lit_bit]
  split <;> simp

/-- characters of a dimension list: digits, comma, space -/
def dimCh (c : Char) : Bool := c != ']'

theorem showDims_cons (d : Nat) (ds : List Nat) :
    showDims (d :: ds) = Nat.toDigits 10 d ++ (if ds = [] then [] else ',' :: ' ' :: showDims ds) := by
  cases ds <;> simp [showDims, lit_cs]

theorem showDims_chars : ∀ (sh : List Nat), ∀ c ∈ showDims sh, dimCh c = true := by
  intro sh
  induction sh with
  | nil => simp [showDims]
  | cons d ds ih =>
    intro c hc
    rw [showDims_cons] at hc
    simp only [List.mem_append] at hc
    rcases hc with hc | hc
    · have := toDigits_isDigit hc
      unfold dimCh
      by_cases h1 : c = ']'
      · subst h1; revert this; decide
      · simp [h1]
    · split at hc
      · simp at hc
      · simp only [List.mem_cons] at hc
        rcases hc with rfl | rfl | hc
        · decide
        · decide
        · exact ih c hc

theorem showDims_inj : ∀ (sh sh' : List Nat), showDims sh = showDims sh' → sh = sh' := by
  intro sh
  induction sh with
  | nil =>
    intro sh' h
    cases sh' with
    | nil => rfl
    | cons d ds =>
      rw [showDims_cons] at h
      simp [showDims, Nat.toDigits_ne_nil] at h
  | cons d ds ih =>
    intro sh' h
    cases sh' with
    | nil =>
      rw [showDims_cons] at h
      simp [showDims, Nat.toDigits_ne_nil] at h
    | cons d' ds' =>
      rw [showDims_cons, showDims_cons] at h
      have := span_unique' Char.isDigit _ _ _ _ (fun _ => toDigits_isDigit)
        (fun _ => toDigits_isDigit)
        (by intro c t hx; split at hx
            · cases hx
            · simp only [List.cons.injEq] at hx; rw [← hx.1]; decide)
        (by intro c t hx; split at hx
            · cases hx
            · simp only [List.cons.injEq] at hx; rw [← hx.1]; decide) h
      obtain ⟨h1, h2⟩ := this
      have hd := toDigits_inj h1
      subst hd
      by_cases e1 : ds = [] <;> by_cases e2 : ds' = []
      · simp [e1, e2]
      · simp [e1, e2] at h2
      · simp [e1, e2] at h2
      · simp only [if_neg e1, if_neg e2, List.cons.injEq, true_and] at h2
        rw [ih _ h2]

def Ty.flat : Ty → Bool
  | .scalar _ => true
  | .array _ _ => true
  | _ => false

/-- scalar types inside a flat type are distinguishable by `Display` -/
def Ty.okFlat : Ty → Prop
  | .scalar st => st.ok
  | .array _ st => st.ok
  | _ => False

/-- what may follow a type in an argument list: the end or `, ` -/
def tail? (x : List Char) : Prop := x = [] ∨ ∃ t, x = ',' :: t

theorem showTy_sep {t t' : Ty} {x y : List Char} (ht : t.okFlat) (ht' : t'.okFlat)
    (hx : tail? x) (hy : tail? y) (h : showTy t ++ x = showTy t' ++ y) : t = t' ∧ x = y := by
  have stop : ∀ {x : List Char}, tail? x → ∀ c t, x = c :: t → scalarCh c = false := by
    intro x hx c t e
    rcases hx with rfl | ⟨t', rfl⟩
    · cases e
    · simp only [List.cons.injEq] at e; rw [← e.1]; decide
  have stopB : ∀ (z : List Char) c t, '[' :: z = c :: t → scalarCh c = false := by
    intro z c t e
    simp only [List.cons.injEq] at e; rw [← e.1]; decide
  have stopD : ∀ (z : List Char) c t, ']' :: z = c :: t → dimCh c = false := by
    intro z c t e
    simp only [List.cons.injEq] at e; rw [← e.1]; decide
  cases t <;> cases t' <;> simp only [Ty.okFlat] at ht ht' <;> simp only [showTy, List.append_assoc, List.cons_append, List.nil_append] at h
  · -- scalar / scalar
    obtain ⟨h1, h2⟩ := span_unique' scalarCh _ _ _ _ (showScalar_chars _) (showScalar_chars _)
      (stop hx) (stop hy) h
    rw [showScalar_inj ht ht' h1]
    exact ⟨rfl, h2⟩
  · -- scalar / array
    obtain ⟨_, h2⟩ := span_unique' scalarCh _ _ _ _ (showScalar_chars _) (showScalar_chars _)
      (stop hx) (stopB _) h
    rcases hx with rfl | ⟨t', rfl⟩ <;> simp at h2
  · obtain ⟨_, h2⟩ := span_unique' scalarCh _ _ _ _ (showScalar_chars _) (showScalar_chars _)
      (stopB _) (stop hy) h
    rcases hy with rfl | ⟨t', rfl⟩ <;> simp at h2
  · obtain ⟨h1, h2⟩ := span_unique' scalarCh _ _ _ _ (showScalar_chars _) (showScalar_chars _)
      (stopB _) (stopB _) h
    simp only [List.cons.injEq, true_and] at h2
    obtain ⟨h3, h4⟩ := span_unique' dimCh _ _ _ _ (showDims_chars _) (showDims_chars _)
      (stopD _) (stopD _) h2
    simp only [List.cons.injEq, true_and] at h4
    rw [showScalar_inj ht ht' h1, showDims_inj _ _ h3]
    exact ⟨rfl, h4⟩

theorem showTys_cons (t : Ty) (ts : List Ty) :
    showTys (t :: ts) = showTy t ++ (if ts = [] then [] else ',' :: ' ' :: showTys ts) := by
  cases ts <;> simp [showTys, lit_cs]

theorem showTy_ne_nil {t : Ty} (ht : t.okFlat) : showTy t ≠ [] := by
  cases t <;> simp only [Ty.okFlat] at ht <;> simp [showTy, showScalar_ne_nil]

theorem showTys_inj_flat : ∀ (ts ts' : List Ty), (∀ t ∈ ts, t.okFlat) → (∀ t ∈ ts', t.okFlat) →
    showTys ts = showTys ts' → ts = ts' := by
  intro ts
  induction ts with
  | nil =>
    intro ts' _ h' h
    cases ts' with
    | nil => rfl
    | cons t ts' =>
      rw [showTys_cons] at h
      simp [showTys] at h
      exact absurd h.1 (showTy_ne_nil (h' t (by simp)))
  | cons t ts ih =>
    intro ts' h0 h' h
    cases ts' with
    | nil =>
      rw [showTys_cons] at h
      simp [showTys] at h
      exact absurd h.1 (showTy_ne_nil (h0 t (by simp)))
    | cons t' ts' =>
      rw [showTys_cons, showTys_cons] at h
      have tl : ∀ (l : List Ty), tail? (if l = [] then [] else ',' :: ' ' :: showTys l) := by
        intro l; split
        · exact Or.inl rfl
        · exact Or.inr ⟨_, rfl⟩
      obtain ⟨h1, h2⟩ := showTy_sep (h0 t (by simp)) (h' t' (by simp)) (tl _) (tl _) h
      subst h1
      by_cases e1 : ts = [] <;> by_cases e2 : ts' = []
      · simp [e1, e2]
      · simp [e1, e2] at h2
      · simp [e1, e2] at h2
      · simp only [if_neg e1, if_neg e2, List.cons.injEq, true_and] at h2
        rw [ih _ (fun z hz => h0 z (by simp [hz])) (fun z hz => h' z (by simp [hz])) h2]

/-- flat types over the scalar types of the library -/
def Ty.realFlat : Ty → Prop
  | .scalar st => st.real
  | .array _ st => st.real
  | _ => False

theorem Ty.realFlat.okFlat {t : Ty} (h : t.realFlat) : t.okFlat := by
  cases t <;> simp only [Ty.realFlat] at h <;> simp only [Ty.okFlat] <;> exact h.ok

theorem Ty.okFlat.flat {t : Ty} (h : t.okFlat) : t.flat = true := by
  cases t <;> simp only [Ty.okFlat] at h <;> rfl

/-- instantiation names are injective on operations applied to flat argument types -/
theorem instName_injective_flat {a b : LibOp} {ts ts' : List Ty}
    (h0 : ∀ t ∈ ts, t.okFlat) (h' : ∀ t ∈ ts', t.okFlat)
    (h : instName a ts = instName b ts') : a = b ∧ ts = ts' := by
  obtain ⟨hab, h2⟩ := instNameChars_inj (String.ofList_injective h)
  exact ⟨hab, showTys_inj_flat _ _ h0 h' h2⟩

example : showTys [.scalar ⟨false, 1⟩, .array [2, 3] ⟨true, 32⟩, .array [] ⟨false, 64⟩]
    = "bit, i32[2, 3], u64[]".toList := by decide
example : (Ty.array [2, 3] ⟨true, 32⟩).realFlat := by simp [Ty.realFlat, ScalarT.real]
/-- `ScalarT.ok` is needed: `Display` prints every one-bit type as `bit` -/
example : showScalar ⟨true, 1⟩ = showScalar ⟨false, 1⟩ := by decide

end CCV.Instantiate
