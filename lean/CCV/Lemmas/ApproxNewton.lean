import CCV.Lemmas.ApproxPwl
import CCV.Lemmas.ApproxInit
import Mathlib.Tactic.Linarith
import Mathlib.Tactic.Ring
/-
  C20: fixed-point product with truncation, the overflow check of the debug mode, and the error
  recurrence of the Newton–Raphson reciprocal.  Statements are over ℤ with denominators cleared:
  with `P = 2^c`, `E = P - x·d` is `P` times the relative error `e = 1 - x·d/2^c`.
-/
namespace CCV.Approx

/-! ### no wrap on 64-bit types for values below 2^63 -/

theorem inRange64 (sg : Bool) {v : Int} (h0 : 0 ≤ v) (h1 : v < 2 ^ 63) : InRange sg 64 v := by
  cases sg
  · simp only [InRange, Bool.false_eq_true, if_false]; omega
  · simp only [InRange, if_true]; omega

theorem wrap64_nonneg (sg : Bool) {v : Int} (h0 : 0 ≤ v) (h1 : v < 2 ^ 63) : wrap sg 64 v = v :=
  wrap_of_inRange (by decide) (inRange64 sg h0 h1)

theorem wrap64_signed {v : Int} (h0 : -(2 ^ 63) ≤ v) (h1 : v < 2 ^ 63) : wrap true 64 v = v :=
  wrap_of_inRange (by decide) (by simp only [InRange, if_true]; omega)

/-! ### Truncate (toward zero) -/

theorem trunc_nonneg_bounds {y D : Int} (hD : 0 < D) (hy : 0 ≤ y) :
    0 ≤ trunc y D ∧ trunc y D * D ≤ y ∧ y < trunc y D * D + D := by
  have h := (trunc_eq_iff_of_nonneg (trunc y D) hD hy).mp rfl
  refine ⟨?_, h.1, by linarith [h.2]⟩
  unfold trunc
  exact Int.tdiv_nonneg hy (le_of_lt hD)

theorem trunc_neg (y D : Int) : trunc (-y) D = -trunc y D := by
  unfold trunc; exact Int.neg_tdiv ..

/-- the truncated quotient is within one unit of the exact quotient, on the side of zero. -/
theorem trunc_within_unit {y D : Int} (hD : 0 < D) :
    (0 ≤ y → trunc y D * D ≤ y ∧ y < trunc y D * D + D) ∧
    (y ≤ 0 → y ≤ trunc y D * D ∧ trunc y D * D - D < y) := by
  constructor
  · intro hy; exact (trunc_nonneg_bounds hD hy).2
  · intro hy
    have h := trunc_nonneg_bounds hD (show 0 ≤ -y by omega)
    rw [trunc_neg] at h
    constructor <;> nlinarith [h.1, h.2.1, h.2.2]

/-! ### (1) fixed-point product -/

/-- FixedMultiply on INT64, no overflow (`|a·b| < 2^63`): the result `r` satisfies
    `|r - a·b/2^p| < 1`; cleared of denominators `|r·2^p - a·b| < 2^p`, rounding toward zero. -/
theorem fixedMul_within_unit {a b : Int} (p : Nat) (h0 : -(2 ^ 63) ≤ a * b) (h1 : a * b < 2 ^ 63) :
    (fixedMul 64 a b p * 2 ^ p - a * b < 2 ^ p ∧ a * b - fixedMul 64 a b p * 2 ^ p < 2 ^ p) ∧
    (0 ≤ a * b → fixedMul 64 a b p * 2 ^ p ≤ a * b) ∧
    (a * b ≤ 0 → a * b ≤ fixedMul 64 a b p * 2 ^ p) := by
  have hD : (0:Int) < 2 ^ p := two_pow_pos' p
  have hw : fixedMul 64 a b p = trunc (a * b) (2 ^ p) := by
    unfold fixedMul mulFixed mul; rw [wrap64_signed h0 h1]
  rw [hw]
  have h := trunc_within_unit (y := a * b) hD
  rcases le_total 0 (a * b) with hs | hs
  · have := h.1 hs
    refine ⟨⟨by linarith, by linarith⟩, fun _ => this.1, fun h' => (h.2 h').1⟩
  · have := h.2 hs
    refine ⟨⟨by linarith, by linarith⟩, fun h' => (h.1 h').1, fun _ => this.1⟩

/-! ### debug mode: the overflow check is sound -/

theorem lt_two_pow_log2_succ (x : Nat) : x < 2 ^ (Nat.log2 x + 1) := by
  rcases Nat.eq_zero_or_pos x with h | h
  · subst h; exact Nat.two_pow_pos _
  · exact (Nat.log2_lt (Nat.ne_of_gt h)).mp (Nat.lt_succ_self _)

theorem abs_le_flipNeg_succ (a : Int) : -((flipNeg a : Int) + 1) ≤ a ∧ a ≤ (flipNeg a : Int) := by
  unfold flipNeg
  split <;> constructor <;> omega

/-- if `is_multiplication_safe_from_overflow` passes and neither operand is `0` or `-1` (flipped
    value `0`: then the check is vacuous — `a = -1, b = i64::MIN` passes although `a·b = 2^63` wraps),
    then `|a·b| ≤ 2^57`: the product does not wrap and stays a factor 64 away from the 64-bit range. -/
theorem mulSafe_sound {a b : Int} (h : mulSafe a b = true) (hx0 : flipNeg a ≠ 0) (hy0 : flipNeg b ≠ 0) :
    -(2 ^ 57) ≤ a * b ∧ a * b ≤ 2 ^ 57 := by
  have ha := abs_le_flipNeg_succ a
  have hb := abs_le_flipNeg_succ b
  have hx := lt_two_pow_log2_succ (flipNeg a)
  have hy := lt_two_pow_log2_succ (flipNeg b)
  unfold mulSafe at h
  simp only [Bool.or_eq_true, beq_iff_eq, decide_eq_true_eq] at h
  have hl : Nat.log2 (flipNeg a) + Nat.log2 (flipNeg b) < 56 := by
    rcases h with (h | h) | h
    · exact absurd h hx0
    · exact absurd h hy0
    · exact h
  -- (x+1)(y+1) ≤ 2^(hx+1) 2^(hy+1) ≤ 2^57
  have hprod : (flipNeg a + 1) * (flipNeg b + 1) ≤ 2 ^ 57 := by
    calc (flipNeg a + 1) * (flipNeg b + 1)
        ≤ 2 ^ (Nat.log2 (flipNeg a) + 1) * 2 ^ (Nat.log2 (flipNeg b) + 1) := Nat.mul_le_mul hx hy
      _ = 2 ^ (Nat.log2 (flipNeg a) + 1 + (Nat.log2 (flipNeg b) + 1)) := (Nat.pow_add ..).symm
      _ ≤ 2 ^ 57 := Nat.pow_le_pow_right (by decide) (by omega)
  have hprodZ : ((flipNeg a : Int) + 1) * ((flipNeg b : Int) + 1) ≤ 2 ^ 57 := by
    have := Int.ofNat_le.mpr hprod
    push_cast at this
    exact this
  have hxn : (0:Int) ≤ (flipNeg a : Int) := Int.natCast_nonneg _
  have hyn : (0:Int) ≤ (flipNeg b : Int) := Int.natCast_nonneg _
  constructor <;> nlinarith [mul_nonneg hxn hyn, ha.1, ha.2, hb.1, hb.2,
    mul_le_mul_of_nonneg_left hb.2 hxn, mul_nonneg (by linarith : (0:Int) ≤ (flipNeg a : Int) + 1 + a) (by linarith : (0:Int) ≤ (flipNeg b : Int) + 1 + b),
    mul_nonneg (by linarith : (0:Int) ≤ (flipNeg a : Int) - a) (by linarith : (0:Int) ≤ (flipNeg b : Int) - b),
    mul_nonneg (by linarith : (0:Int) ≤ (flipNeg a : Int) + 1 + a) (by linarith : (0:Int) ≤ (flipNeg b : Int) - b),
    mul_nonneg (by linarith : (0:Int) ≤ (flipNeg a : Int) - a) (by linarith : (0:Int) ≤ (flipNeg b : Int) + 1 + b)]

/-! ### (3) Newton–Raphson reciprocal -/

theorem newtonConst_eq (sg : Bool) {c : Nat} (hc : c ≤ 29) : newtonConst sg 64 c = 2 ^ (c + 1) := by
  unfold newtonConst i32Shl1
  have h1 : (c + 1) % 32 = c + 1 := Nat.mod_eq_of_lt (by omega)
  rw [h1, if_neg (by omega)]
  apply wrap64_nonneg
  · exact le_of_lt (two_pow_pos' _)
  · exact lt_of_le_of_lt (pow_le_pow_right₀ (by decide) (show c + 1 ≤ 30 by omega)) (by decide)

/-- **the cap range of NewtonInversion is exactly `c ≤ 29`**: the constant the code builds from the
    `i32` literal `1 << (cap + 1)` equals `2^(c+1)` iff `c ≤ 29` (64-bit types, both signednesses).
    For `c = 30` it is `i32::MIN`, above the shift amount wraps modulo 32. -/
theorem newtonConst_eq_iff (sg : Bool) (c : Nat) : newtonConst sg 64 c = 2 ^ (c + 1) ↔ c ≤ 29 := by
  constructor
  · intro h
    by_contra hc
    have hc : 30 ≤ c := by omega
    have hbig : (2:Int) ^ 31 ≤ 2 ^ (c + 1) := pow_le_pow_right₀ (by decide) (by omega)
    unfold newtonConst i32Shl1 at h
    split at h
    · -- constant −2^31
      cases sg
      · have e : wrap false 64 (-(2 ^ 31)) = 2 ^ 64 - 2 ^ 31 := by decide
        rw [e] at h
        rcases Nat.lt_or_ge (c + 1) 64 with h64 | h64
        · have : (2:Int) ^ (c + 1) ≤ 2 ^ 63 := pow_le_pow_right₀ (by decide) (by omega)
          omega
        · have : (2:Int) ^ 64 ≤ 2 ^ (c + 1) := pow_le_pow_right₀ (by decide) h64
          omega
      · have e : wrap true 64 (-(2 ^ 31)) = -(2 ^ 31) := by decide
        rw [e] at h
        omega
    · rename_i h31
      have hm : (c + 1) % 32 ≤ 30 := by omega
      have hle : (2:Int) ^ ((c + 1) % 32) ≤ 2 ^ 30 := pow_le_pow_right₀ (by decide) hm
      have hpos : (0:Int) < 2 ^ ((c + 1) % 32) := two_pow_pos' _
      rw [wrap64_nonneg sg (le_of_lt hpos) (by omega)] at h
      omega
  · exact newtonConst_eq sg

/-- hypotheses under which nothing wraps: `c ≤ 29`, `0 ≤ x`, `0 < d`, `x·d ≤ 2^c`. Then the step is
    the exact integer formula `x' = ⌊(2^(c+1) - x·d)·x / 2^c⌋`. -/
theorem newtonStep_eq (sg : Bool) {c : Nat} {d x : Int} (hc : c ≤ 29) (hd : 0 < d) (hx : 0 ≤ x)
    (hxd : x * d ≤ 2 ^ c) :
    newtonStep sg 64 c d x = ((2 ^ (c + 1) - x * d) * x) / 2 ^ c := by
  have hP : (0:Int) < 2 ^ c := two_pow_pos' c
  have hP29 : (2:Int) ^ c ≤ 2 ^ 29 := pow_le_pow_right₀ (by decide) hc
  have hsucc : (2:Int) ^ (c + 1) = 2 * 2 ^ c := by rw [pow_succ]; ring
  have hxd0 : 0 ≤ x * d := mul_nonneg hx (le_of_lt hd)
  have hxP : x ≤ 2 ^ c := by nlinarith
  unfold newtonStep mulFixed
  rw [newtonConst_eq sg hc]
  have e1 : mul sg 64 x d = x * d := by
    unfold mul; exact wrap64_nonneg sg hxd0 (by omega)
  have e2 : sub sg 64 (2 ^ (c + 1)) (x * d) = 2 ^ (c + 1) - x * d := by
    unfold sub; exact wrap64_nonneg sg (by omega) (by omega)
  rw [e1, e2]
  have hm0 : 0 ≤ (2 ^ (c + 1) - x * d) * x := mul_nonneg (by omega) hx
  have hm1 : (2 ^ (c + 1) - x * d) * x < 2 ^ 63 := by
    have : (2 ^ (c + 1) - x * d) * x ≤ (2 * 2 ^ 29) * 2 ^ 29 :=
      mul_le_mul (by omega) (by omega) hx (by norm_num)
    exact lt_of_le_of_lt this (by norm_num)
  have e3 : mul sg 64 (2 ^ (c + 1) - x * d) x = (2 ^ (c + 1) - x * d) * x := by
    unfold mul; exact wrap64_nonneg sg hm0 hm1
  rw [e3]
  unfold trunc
  exact Int.tdiv_eq_ediv_of_nonneg hm0

/-- **one-step error recurrence** (cleared of denominators).  With `P = 2^c`, `E = P - x·d`
    (`e = E/P = 1 - x·d/2^c`) and `x' = newtonStep …`, `E' = P - x'·d`:
    `P·E' = E² + r·d` for the rounding remainder `0 ≤ r < P`, i.e. `e' = e² + (r/P)·(d/P)`:
    the next error is the square of the error plus a rounding term in `[0, d/2^c)`. -/
theorem newton_error_recurrence (sg : Bool) {c : Nat} {d x : Int} (hc : c ≤ 29) (hd : 0 < d)
    (hx : 0 ≤ x) (hxd : x * d ≤ 2 ^ c) :
    ∃ r : Int, 0 ≤ r ∧ r < 2 ^ c ∧
      2 ^ c * (2 ^ c - newtonStep sg 64 c d x * d) = (2 ^ c - x * d) ^ 2 + r * d := by
  have hP : (0:Int) < 2 ^ c := two_pow_pos' c
  have hsucc : (2:Int) ^ (c + 1) = 2 * 2 ^ c := by rw [pow_succ]; ring
  rw [newtonStep_eq sg hc hd hx hxd]
  refine ⟨((2 ^ (c + 1) - x * d) * x) % 2 ^ c, Int.emod_nonneg _ (ne_of_gt hP), Int.emod_lt_of_pos _ hP, ?_⟩
  have h := Int.mul_ediv_add_emod ((2 ^ (c + 1) - x * d) * x) (2 ^ c)
  -- 2^c * q = N - r
  have hq : 2 ^ c * (((2 ^ (c + 1) - x * d) * x) / 2 ^ c)
      = (2 ^ (c + 1) - x * d) * x - ((2 ^ (c + 1) - x * d) * x) % 2 ^ c := by linarith
  rw [hsucc] at hq ⊢
  generalize ((2 * 2 ^ c - x * d) * x) / 2 ^ c = q at hq ⊢
  generalize ((2 * 2 ^ c - x * d) * x) % 2 ^ c = r at hq ⊢
  generalize (2:Int) ^ c = P at hq ⊢
  have : P * (q * d) = ((2 * P - x * d) * x - r) * d := by rw [← hq]; ring
  nlinarith [this]

/-- the step keeps the invariant `0 ≤ x'`, `x'·d ≤ 2^c` (the iterate approaches `2^c/d` from below)
    and `e' ≤ e² + d/2^c` (cleared: `P·E' ≤ E² + P·d`). -/
theorem newton_step_invariant (sg : Bool) {c : Nat} {d x : Int} (hc : c ≤ 29) (hd : 0 < d)
    (hx : 0 ≤ x) (hxd : x * d ≤ 2 ^ c) :
    0 ≤ newtonStep sg 64 c d x ∧ newtonStep sg 64 c d x * d ≤ 2 ^ c ∧
      2 ^ c * (2 ^ c - newtonStep sg 64 c d x * d) ≤ (2 ^ c - x * d) ^ 2 + 2 ^ c * d := by
  have hP : (0:Int) < 2 ^ c := two_pow_pos' c
  obtain ⟨r, hr0, hr1, hrec⟩ := newton_error_recurrence sg hc hd hx hxd
  have hsucc : (2:Int) ^ (c + 1) = 2 * 2 ^ c := by rw [pow_succ]; ring
  refine ⟨?_, ?_, ?_⟩
  · rw [newtonStep_eq sg hc hd hx hxd]
    exact Int.ediv_nonneg (mul_nonneg (by rw [hsucc]; linarith) hx) (le_of_lt hP)
  · have : 0 ≤ 2 ^ c * (2 ^ c - newtonStep sg 64 c d x * d) := by
      rw [hrec]; exact add_nonneg (sq_nonneg _) (mul_nonneg hr0 (le_of_lt hd))
    have := nonneg_of_mul_nonneg_right this hP
    linarith
  · rw [hrec]; nlinarith [mul_le_mul_of_nonneg_right (le_of_lt hr1) (le_of_lt hd)]

/-- invariant carried through the iteration at level `k`: `B = 2^(2^k)`,
    `B·E ≤ P + 4·d·B`, i.e. `e ≤ 2^(-2^k) + 4·d/2^c`. -/
def NewtonInv (c : Nat) (d : Int) (k : Nat) (x : Int) : Prop :=
  0 ≤ x ∧ x * d ≤ 2 ^ c ∧ 2 ^ (2 ^ k) * (2 ^ c - x * d) ≤ 2 ^ c + 4 * d * 2 ^ (2 ^ k)

theorem newtonInv_step (sg : Bool) {c k : Nat} {d x : Int} (hc : c ≤ 29) (hd : 0 < d)
    (hd16 : 16 * d ≤ 2 ^ c) (hk : 1 ≤ k) (h : NewtonInv c d k x) :
    NewtonInv c d (k + 1) (newtonStep sg 64 c d x) := by
  obtain ⟨hx, hxd, hB⟩ := h
  obtain ⟨h0, h1, h2⟩ := newton_step_invariant sg hc hd hx hxd
  refine ⟨h0, h1, ?_⟩
  have hP : (0:Int) < 2 ^ c := two_pow_pos' c
  have hBB : (2:Int) ^ (2 ^ (k + 1)) = 2 ^ (2 ^ k) * 2 ^ (2 ^ k) := by
    rw [pow_succ, pow_mul, sq]
  have hB4 : (4:Int) ≤ 2 ^ (2 ^ k) := by
    have : (2:Int) ^ 2 ≤ 2 ^ (2 ^ k) :=
      pow_le_pow_right₀ (by decide) (by
        calc 2 = 2 ^ 1 := rfl
          _ ≤ 2 ^ k := Nat.pow_le_pow_right (by decide) hk)
    simpa using this
  rw [hBB]
  generalize (2:Int) ^ (2 ^ k) = B at hB hB4 ⊢
  generalize newtonStep sg 64 c d x = y at h0 h1 h2 ⊢
  generalize (2:Int) ^ c = P at *
  have hE : 0 ≤ P - x * d := by linarith
  have hE' : 0 ≤ P - y * d := by linarith
  have hB0 : 0 ≤ B := by linarith
  -- (B E)^2 ≤ (P + 4 d B)^2
  have hsq : (B * (P - x * d)) * (B * (P - x * d)) ≤ (P + 4 * d * B) * (P + 4 * d * B) :=
    mul_self_le_mul_self (mul_nonneg hB0 hE) hB
  have hPdB : 0 ≤ P * d * B := mul_nonneg (mul_nonneg (le_of_lt hP) (le_of_lt hd)) hB0
  have ha : 8 * (P * d * B) ≤ 2 * (P * d * B) * B := by nlinarith
  have hdBB : 0 ≤ d * B * B := mul_nonneg (mul_nonneg (le_of_lt hd) hB0) hB0
  have hb : 16 * d * (d * B * B) ≤ P * (d * B * B) := mul_le_mul_of_nonneg_right hd16 hdBB
  have hc' : B * B * (P * (P - y * d)) ≤ B * B * ((P - x * d) ^ 2 + P * d) :=
    mul_le_mul_of_nonneg_left h2 (mul_nonneg hB0 hB0)
  have hfin : P * (B * B * (P - y * d)) ≤ P * (P + 4 * d * (B * B)) := by nlinarith
  exact le_of_mul_le_mul_left hfin hP

theorem newtonInv_first (sg : Bool) {c : Nat} {d x : Int} (hc : c ≤ 29) (hc1 : 1 ≤ c) (hd : 0 < d)
    (hx : 0 ≤ x) (hlo : 2 ^ (c - 1) ≤ x * d) (hxd : x * d ≤ 2 ^ c) :
    NewtonInv c d 1 (newtonStep sg 64 c d x) := by
  obtain ⟨h0, h1, h2⟩ := newton_step_invariant sg hc hd hx hxd
  refine ⟨h0, h1, ?_⟩
  have hH : (0:Int) < 2 ^ (c - 1) := two_pow_pos' _
  have hPH : (2:Int) ^ c = 2 * 2 ^ (c - 1) := two_pow_pred c hc1
  rw [hPH] at h2 hxd ⊢
  generalize newtonStep sg 64 c d x = y at h0 h1 h2 ⊢
  generalize (2:Int) ^ (c - 1) = H at *
  have hE0 : 0 ≤ 2 * H - x * d := by linarith
  have hE1 : 2 * H - x * d ≤ H := by linarith
  have hsq : (2 * H - x * d) ^ 2 ≤ H * H := by nlinarith
  -- 2H E' ≤ H^2 + 2 H d  →  2 E' ≤ H + 2 d
  have : H * (2 * (2 * H - y * d)) ≤ H * (H + 2 * d) := by nlinarith
  have h3 := le_of_mul_le_mul_left this hH
  norm_num
  linarith

theorem newtonInv_iter (sg : Bool) {c : Nat} {d : Int} (hc : c ≤ 29) (hd : 0 < d)
    (hd16 : 16 * d ≤ 2 ^ c) :
    ∀ (n k : Nat) (x : Int), 1 ≤ k → NewtonInv c d k x →
      NewtonInv c d (k + n) (newtonIter sg 64 c d n x) := by
  intro n
  induction n with
  | zero => intro k x _ h; simpa [newtonIter] using h
  | succ n ih =>
    intro k x hk h
    have := ih (k + 1) (newtonStep sg 64 c d x) (by omega) (newtonInv_step sg hc hd hd16 hk h)
    simpa [newtonIter, Nat.add_assoc, Nat.add_comm 1 n] using this

/-- **n-step bound** from any start with `|e₀| ≤ 1/2` on the low side (`2^(c-1) ≤ x₀·d ≤ 2^c`):
    after `n ≥ 1` iterations `0 ≤ e_n ≤ 2^(-2^n) + 4·d/2^c` (cleared of denominators), for every
    divisor with `16·d ≤ 2^c` and every cap `1 ≤ c ≤ 29`. -/
theorem newton_nstep (sg : Bool) {c : Nat} {d x : Int} (hc : c ≤ 29) (hc1 : 1 ≤ c) (hd : 0 < d)
    (hd16 : 16 * d ≤ 2 ^ c) (hx : 0 ≤ x) (hlo : 2 ^ (c - 1) ≤ x * d) (hxd : x * d ≤ 2 ^ c)
    (n : Nat) (hn : 1 ≤ n) :
    NewtonInv c d n (newtonIter sg 64 c d n x) := by
  obtain ⟨m, rfl⟩ : ∃ m, n = m + 1 := ⟨n - 1, by omega⟩
  have h1 := newtonInv_first sg hc hc1 hd hx hlo hxd
  have := newtonInv_iter sg hc hd hd16 m 1 _ (le_refl 1) h1
  simpa [newtonIter, Nat.add_comm 1 m] using this

/-- the same for the operation as instantiated WITHOUT a supplied approximation: the bit-derived
    guess satisfies the start condition (`initInv_bracket`). -/
theorem newton_bits_nstep (sg : Bool) {c : Nat} {d : Int} (hc : c ≤ 29) (hc1 : 1 ≤ c) (hd : 0 < d)
    (hd16 : 16 * d ≤ 2 ^ c) (n : Nat) (hn : 1 ≤ n) :
    ∃ y, newton sg 64 c n d none = some y ∧ NewtonInv c d n y := by
  have hdc : d < 2 ^ c := by
    have := two_pow_pos' c; omega
  have hb := initInv_bracket (s := 64) (c := c) (d := d) (by omega) (by decide) hd hdc
  have hpos := initInv_pos (s := 64) (c := c) (d := d) (by omega) (by decide) hd hdc
  refine ⟨newtonIter sg 64 c d n (initInv 64 c d), ?_, ?_⟩
  · unfold newton; rw [if_neg (by omega)]
  · exact newton_nstep sg hc hc1 hd hd16 (le_of_lt hpos) hb.1 (le_of_lt hb.2) n hn


/-! ### (4) Goldschmidt division: the denominator sequence -/

theorem goldConst_eq (sg : Bool) {c : Nat} (hc : c ≤ 30) : wrap sg 64 (2 ^ (c + 1)) = 2 ^ (c + 1) := by
  apply wrap64_nonneg
  · exact le_of_lt (two_pow_pos' _)
  · exact lt_of_le_of_lt (pow_le_pow_right₀ (by decide) (show c + 1 ≤ 31 by omega)) (by decide)

/-- one Goldschmidt round, caps `≤ 30`, `0 ≤ b ≤ 2^c`, `0 ≤ a` with `a·2^(c+1) < 2^63`: nothing
    wraps, `w = 2^(c+1) - b`, and both products are truncated quotients. -/
theorem goldStep_eq (sg : Bool) {c : Nat} {a b : Int} (hc : c ≤ 30) (hb0 : 0 ≤ b) (hb : b ≤ 2 ^ c)
    (ha0 : 0 ≤ a) (ha : a * 2 ^ (c + 1) < 2 ^ 63) :
    goldStep sg 64 c (a, b) = ((a * (2 ^ (c + 1) - b)) / 2 ^ c, (b * (2 ^ (c + 1) - b)) / 2 ^ c) := by
  have hP : (0:Int) < 2 ^ c := two_pow_pos' c
  have hP30 : (2:Int) ^ c ≤ 2 ^ 30 := pow_le_pow_right₀ (by decide) hc
  have hsucc : (2:Int) ^ (c + 1) = 2 * 2 ^ c := by rw [pow_succ]; ring
  unfold goldStep mulFixed
  simp only
  rw [goldConst_eq sg hc]
  have e2 : sub sg 64 (2 ^ (c + 1)) b = 2 ^ (c + 1) - b := by
    unfold sub; exact wrap64_nonneg sg (by omega) (by omega)
  rw [e2]
  have hw0 : 0 ≤ 2 ^ (c + 1) - b := by omega
  have hw1 : 2 ^ (c + 1) - b ≤ 2 ^ (c + 1) := by omega
  have hbw0 : 0 ≤ b * (2 ^ (c + 1) - b) := mul_nonneg hb0 hw0
  have hbw1 : b * (2 ^ (c + 1) - b) < 2 ^ 63 := by
    have : b * (2 ^ (c + 1) - b) ≤ 2 ^ 30 * (2 * 2 ^ 30) :=
      mul_le_mul (by omega) (by omega) hw0 (by norm_num)
    exact lt_of_le_of_lt this (by norm_num)
  have haw0 : 0 ≤ a * (2 ^ (c + 1) - b) := mul_nonneg ha0 hw0
  have haw1 : a * (2 ^ (c + 1) - b) < 2 ^ 63 :=
    lt_of_le_of_lt (mul_le_mul_of_nonneg_left hw1 ha0) ha
  have e3 : mul sg 64 b (2 ^ (c + 1) - b) = b * (2 ^ (c + 1) - b) := by
    unfold mul; exact wrap64_nonneg sg hbw0 hbw1
  have e4 : mul sg 64 a (2 ^ (c + 1) - b) = a * (2 ^ (c + 1) - b) := by
    unfold mul; exact wrap64_nonneg sg haw0 haw1
  rw [e3, e4]
  unfold trunc
  rw [Int.tdiv_eq_ediv_of_nonneg hbw0, Int.tdiv_eq_ediv_of_nonneg haw0]

/-- **Goldschmidt denominator recurrence**: with `P = 2^c`, `E = P - b` (`e = 1 - b/2^c`):
    `P·(P - b') = E² + r`, `0 ≤ r < P`: `e' = e² + r/P²` — quadratic convergence of `b` to `2^c`
    with a rounding term below `2^-c`; `b` stays in `[0, 2^c]`. -/
theorem gold_b_recurrence (sg : Bool) {c : Nat} {a b : Int} (hc : c ≤ 30) (hb0 : 0 ≤ b) (hb : b ≤ 2 ^ c)
    (ha0 : 0 ≤ a) (ha : a * 2 ^ (c + 1) < 2 ^ 63) :
    ∃ r : Int, 0 ≤ r ∧ r < 2 ^ c ∧
      2 ^ c * (2 ^ c - (goldStep sg 64 c (a, b)).2) = (2 ^ c - b) ^ 2 + r := by
  have hP : (0:Int) < 2 ^ c := two_pow_pos' c
  have hsucc : (2:Int) ^ (c + 1) = 2 * 2 ^ c := by rw [pow_succ]; ring
  rw [goldStep_eq sg hc hb0 hb ha0 ha]
  refine ⟨(b * (2 ^ (c + 1) - b)) % 2 ^ c, Int.emod_nonneg _ (ne_of_gt hP), Int.emod_lt_of_pos _ hP, ?_⟩
  have h := Int.mul_ediv_add_emod (b * (2 ^ (c + 1) - b)) (2 ^ c)
  simp only
  rw [hsucc] at h ⊢
  generalize (b * (2 * 2 ^ c - b)) / 2 ^ c = q at h ⊢
  generalize (b * (2 * 2 ^ c - b)) % 2 ^ c = r at h ⊢
  generalize (2:Int) ^ c = P at h ⊢
  nlinarith [h]

/-- the numerator is multiplied by the same factor `w/2^c` and truncated: within one unit below. -/
theorem gold_a_step (sg : Bool) {c : Nat} {a b : Int} (hc : c ≤ 30) (hb0 : 0 ≤ b) (hb : b ≤ 2 ^ c)
    (ha0 : 0 ≤ a) (ha : a * 2 ^ (c + 1) < 2 ^ 63) :
    let a' := (goldStep sg 64 c (a, b)).1
    a' * 2 ^ c ≤ a * (2 ^ (c + 1) - b) ∧ a * (2 ^ (c + 1) - b) < a' * 2 ^ c + 2 ^ c := by
  have hP : (0:Int) < 2 ^ c := two_pow_pos' c
  rw [goldStep_eq sg hc hb0 hb ha0 ha]
  simp only
  have h := Int.mul_ediv_add_emod (a * (2 ^ (c + 1) - b)) (2 ^ c)
  have h1 := Int.emod_nonneg (a * (2 ^ (c + 1) - b)) (ne_of_gt hP)
  have h2 := Int.emod_lt_of_pos (a * (2 ^ (c + 1) - b)) hP
  constructor <;> nlinarith [h, h1, h2]

example : goldStep false 64 10 (123456 * 8, 123 * 8) = (1026228, 1022) := by decide


/-! ### (4) inverse square root: the step without wrap -/

theorem sqrtConst_eq (sg : Bool) {c : Nat} (hc1 : 1 ≤ c) (hc : c ≤ 30) :
    sqrtConst sg 64 c = 3 * 2 ^ (c - 1) := by
  unfold sqrtConst i32Shl3
  have h1 : (c - 1) % 32 = c - 1 := Nat.mod_eq_of_lt (by omega)
  have hle : (2:Int) ^ (c - 1) ≤ 2 ^ 29 := pow_le_pow_right₀ (by decide) (by omega)
  have hpos : (0:Int) < 2 ^ (c - 1) := two_pow_pos' _
  simp only [h1]
  have hm : (3 * 2 ^ (c - 1) : Int) % 2 ^ 32 = 3 * 2 ^ (c - 1) :=
    Int.emod_eq_of_lt (by omega) (by omega)
  rw [hm, if_neg (by omega)]
  exact wrap64_nonneg sg (by omega) (by omega)

/-- InverseSqrt step, caps `2 ≤ c ≤ 30`, `0 ≤ x`, `0 ≤ d`, `d·x² ≤ 4^c` (the iterate is at most
    `2^c/√d`): nothing wraps and
    `x' = ⌊(3·2^(c-1) - ⌊d·x²/2^(c+1)⌋)·x / 2^c⌋`. -/
theorem sqrtStep_eq (sg : Bool) {c : Nat} {d x : Int} (hc2 : 2 ≤ c) (hc : c ≤ 30) (hd : 0 < d)
    (hx : 0 ≤ x) (hdx : d * x * x ≤ 4 ^ c) :
    sqrtStep sg 64 c d x = ((3 * 2 ^ (c - 1) - (d * x * x) / 2 ^ (c + 1)) * x) / 2 ^ c := by
  have hP : (0:Int) < 2 ^ c := two_pow_pos' c
  have hP30 : (2:Int) ^ c ≤ 2 ^ 30 := pow_le_pow_right₀ (by decide) hc
  have h4 : (4:Int) ^ c = 2 ^ c * 2 ^ c := by
    rw [show (4:Int) = 2 * 2 by norm_num, mul_pow]
  have hsucc : (2:Int) ^ (c + 1) = 2 * 2 ^ c := by rw [pow_succ]; ring
  have hpred : (2:Int) ^ c = 2 * 2 ^ (c - 1) := two_pow_pred c (by omega)
  have hdx0 : 0 ≤ d * x := mul_nonneg (le_of_lt hd) hx
  have hdxx0 : 0 ≤ d * x * x := mul_nonneg hdx0 hx
  have h60 : (4:Int) ^ c ≤ 2 ^ 60 := by rw [h4]; calc (2:Int) ^ c * 2 ^ c ≤ 2 ^ 30 * 2 ^ 30 := mul_le_mul hP30 hP30 (le_of_lt hP) (by norm_num)
    _ = 2 ^ 60 := by norm_num
  -- d*x ≤ d*x*x or x = 0
  have hdx1 : d * x ≤ 2 ^ 60 := by
    rcases eq_or_lt_of_le hx with h | h
    · rw [← h]; norm_num
    · have : d * x * 1 ≤ d * x * x := mul_le_mul_of_nonneg_left (by omega) hdx0
      linarith
  -- x ≤ 2^c
  have hxP : x ≤ 2 ^ c := by
    by_contra hlt
    have hlt := lt_of_not_ge hlt
    have : 2 ^ c * 2 ^ c < x * x := mul_lt_mul'' hlt hlt (le_of_lt hP) (le_of_lt hP)
    have : 1 * (x * x) ≤ d * (x * x) := mul_le_mul_of_nonneg_right (by omega) (mul_nonneg hx hx)
    nlinarith
  unfold sqrtStep mulFixed
  simp only
  rw [sqrtConst_eq sg (by omega) hc]
  have e1 : mul sg 64 d x = d * x := by
    unfold mul; exact wrap64_nonneg sg hdx0 (by omega)
  rw [e1]
  have e2 : mul sg 64 (d * x) x = d * x * x := by
    unfold mul; exact wrap64_nonneg sg hdxx0 (by omega)
  rw [e2]
  have et : trunc (d * x * x) (2 ^ (c + 1)) = (d * x * x) / 2 ^ (c + 1) := by
    unfold trunc; exact Int.tdiv_eq_ediv_of_nonneg hdxx0
  rw [et]
  have hq0 : 0 ≤ (d * x * x) / 2 ^ (c + 1) := Int.ediv_nonneg hdxx0 (le_of_lt (two_pow_pos' _))
  have hq1 : (d * x * x) / 2 ^ (c + 1) ≤ 2 ^ (c - 1) := by
    have : d * x * x < (2 ^ (c - 1) + 1) * 2 ^ (c + 1) := by
      rw [hsucc, hpred]; rw [h4, hpred] at hdx; nlinarith [two_pow_pos' (c - 1)]
    have := Int.ediv_lt_of_lt_mul (two_pow_pos' (c + 1)) this
    omega
  have e3 : sub sg 64 (3 * 2 ^ (c - 1)) ((d * x * x) / 2 ^ (c + 1)) = 3 * 2 ^ (c - 1) - (d * x * x) / 2 ^ (c + 1) := by
    unfold sub; exact wrap64_nonneg sg (by omega) (by omega)
  rw [e3]
  have hm0 : 0 ≤ (3 * 2 ^ (c - 1) - (d * x * x) / 2 ^ (c + 1)) * x := mul_nonneg (by omega) hx
  have hm1 : (3 * 2 ^ (c - 1) - (d * x * x) / 2 ^ (c + 1)) * x < 2 ^ 63 := by
    have : (3 * 2 ^ (c - 1) - (d * x * x) / 2 ^ (c + 1)) * x ≤ (3 * 2 ^ 29) * 2 ^ 30 :=
      mul_le_mul (by omega) (by omega) hx (by norm_num)
    exact lt_of_le_of_lt this (by norm_num)
  have e4 : mul sg 64 (3 * 2 ^ (c - 1) - (d * x * x) / 2 ^ (c + 1)) x = (3 * 2 ^ (c - 1) - (d * x * x) / 2 ^ (c + 1)) * x := by
    unfold mul; exact wrap64_nonneg sg hm0 hm1
  rw [e4]
  unfold trunc
  exact Int.tdiv_eq_ediv_of_nonneg hm0

example : sqrtStep false 64 10 17 128 = 175 := by decide

end CCV.Approx
