import CCV.Lemmas.EvalOps2
/-
  Helper lemmas for the value-level half of C09, part 3: facts extracted from an accepted typing
  rule (`TI.infer … = .ok t`) in the vocabulary of the evaluator model.
-/
namespace CCV.EvalOps
open CCV CCV.TV CCV.Shape
open CCV.TI hiding prod broadcastShapes transposeShape

theorem hasType_array {s : List Nat} {st : ST} {v : EV} (h : hasType (.array s st) v) :
    ∃ xs, v = .arr xs ∧ flatOk st (prod s) xs :=
  hasType_flat_arr (t := .array s st) rfl h

theorem hasType_scalar {st : ST} {v : EV} (h : hasType (.scalar st) v) :
    ∃ xs, v = .arr xs ∧ flatOk st 1 xs :=
  hasType_flat_arr (t := .scalar st) rfl h

theorem hasType_array_mk {s : List Nat} {st : ST} {r : List Nat} (h : flatOk st (prod s) r) :
    hasType (.array s st) (.arr r) := (hasType_flat (t := .array s st) rfl r).mpr h

theorem hasType_scalar_mk {st : ST} {r : List Nat} (h : flatOk st 1 r) :
    hasType (.scalar st) (.arr r) := (hasType_flat (t := .scalar st) rfl r).mpr h

theorem isFlat_arrOrScalar (rs : List Nat) (st : ST) : isFlat (arrOrScalar rs st) = true := by
  unfold arrOrScalar; split <;> rfl

theorem stE_arrOrScalar (rs : List Nat) (st : ST) : stE (arrOrScalar rs st) = st := by
  unfold arrOrScalar; split <;> rfl

theorem prod_dimsE_arrOrScalar (rs : List Nat) (st : ST) : prod (dimsE (arrOrScalar rs st)) = prod rs := by
  unfold arrOrScalar
  cases rs with
  | nil => rfl
  | cons d ds => rfl

theorem hasType_arrOrScalar_mk {rs : List Nat} {st : ST} {r : List Nat} (h : flatOk st (prod rs) r) :
    hasType (arrOrScalar rs st) (.arr r) := by
  rw [hasType_flat (isFlat_arrOrScalar rs st), stE_arrOrScalar, prod_dimsE_arrOrScalar]
  exact h

theorem valid_array {s : List Nat} {st : ST} (h : (Ty.array s st).isValid = true) : s ≠ [] ∧ pos s := by
  simp only [Ty.isValid] at h
  exact validShape_pos h

theorem hasDup_false_nodup : ∀ (l : List Nat), hasDup l = false → l.Nodup
  | [], _ => List.nodup_nil
  | x :: xs, h => by
    simp only [hasDup, Bool.or_eq_false_iff] at h
    exact List.nodup_cons.mpr ⟨by simpa using h.1, hasDup_false_nodup xs h.2⟩

/-! ### broadcasting of two scalar / array types -/

theorem broadcastPair_facts {t1 t2 t : Ty} (h1 : t1.isValid = true) (h2 : t2.isValid = true)
    (h : broadcastPair t1 t2 = .ok t) :
    isFlat t1 = true ∧ isFlat t2 = true ∧ isFlat t = true ∧ stE t1 = stE t ∧ stE t2 = stE t ∧
    bcOK (dimsE t1) (dimsE t) ∧ bcOK (dimsE t2) (dimsE t) := by
  cases t1 with
  | scalar a =>
    cases t2 with
    | scalar b =>
      simp only [broadcastPair] at h
      split at h
      · injection h with h; subst h; rename_i hab; subst hab
        exact ⟨rfl, rfl, rfl, rfl, rfl, bcOK_refl _, bcOK_refl _⟩
      · cases h
    | array s b =>
      simp only [broadcastPair] at h
      split at h
      · injection h with h; subst h; rename_i hab; subst hab
        exact ⟨rfl, rfl, rfl, rfl, rfl, bcOK_one (valid_array h2).1, bcOK_refl _⟩
      · cases h
    | vector n e => simp [broadcastPair] at h
    | tuple ts => simp [broadcastPair] at h
    | named fs => simp [broadcastPair] at h
  | array s a =>
    cases t2 with
    | scalar b =>
      simp only [broadcastPair] at h
      split at h
      · injection h with h; subst h; rename_i hab; subst hab
        exact ⟨rfl, rfl, rfl, rfl, rfl, bcOK_refl _, bcOK_one (valid_array h1).1⟩
      · cases h
    | array s2 b =>
      simp only [broadcastPair] at h
      split at h
      · rename_i hab; subst hab
        split at h
        · rename_i r hr
          injection h with h; subst h
          exact ⟨rfl, rfl, rfl, rfl, rfl, bcOK_left (valid_array h1).2 (valid_array h2).2 hr,
            bcOK_right (valid_array h1).2 (valid_array h2).2 hr⟩
        · cases h
      · cases h
    | vector n e => simp [broadcastPair] at h
    | tuple ts => simp [broadcastPair] at h
    | named fs => simp [broadcastPair] at h
  | vector n e => simp [broadcastPair] at h
  | tuple ts => simp [broadcastPair] at h
  | named fs => simp [broadcastPair] at h

theorem broadcastArrays_two {a b t : Ty} (h : broadcastArrays [a, b] = .ok t) : broadcastPair a b = .ok t := by
  simp only [broadcastArrays] at h
  split at h
  · cases hr : broadcastPair a b with
    | error e => simp [bcastFold, hr] at h
    | ok r =>
      simp only [bcastFold, hr] at h
      rw [h]
  · cases h

/-! ### rank-1 cases of Dot / Matmul, splitting off the last two dimensions -/

theorem matmulInfer_11 (k0 k1 : Nat) (st0 st1 : ST) {t : Ty}
    (h : matmulInfer (.array [k0] st0) (.array [k1] st1) = .ok t) : t = .scalar st0 := by
  have hb : TI.broadcastShapes [] [] = .ok [] := rfl
  simp [matmulInfer, hb, arrOrScalar] at h
  split at h
  · split at h
    · injection h with h; exact h.symm
    · cases h
  · cases h

theorem dotInfer_11 (k0 k1 : Nat) (st0 st1 : ST) {t : Ty}
    (h : dotInfer (.array [k0] st0) (.array [k1] st1) = .ok t) : t = .scalar st0 := by
  simp [dotInfer, stOf] at h
  split at h
  · split at h
    · injection h with h; exact h.symm
    · cases h
  · cases h

theorem exists_append_two (s : List Nat) (h : 2 ≤ s.length) : ∃ b x y, s = b ++ [x, y] := by
  have e := (List.take_append_drop (s.length - 2) s).symm
  have hl : (s.drop (s.length - 2)).length = 2 := by simp; omega
  match hd : s.drop (s.length - 2), hl with
  | [x, y], _ => exact ⟨s.take (s.length - 2), x, y, by rw [hd] at e; exact e⟩

theorem matmulInfer_arrOrScalar {s0 s1 : List Nat} {st0 st1 : ST} {t : Ty}
    (h : matmulInfer (.array s0 st0) (.array s1 st1) = .ok t) : ∃ rs, t = arrOrScalar rs st0 := by
  unfold matmulInfer at h
  simp only [] at h
  repeat' (first | (injection h with h; exact ⟨_, h.symm⟩) | cases h | split at h)

theorem dotInfer_nn {s0 s1 : List Nat} {st0 st1 : ST} {t : Ty} (h11 : ¬ (s0.length = 1 ∧ s1.length = 1))
    (h : dotInfer (.array s0 st0) (.array s1 st1) = .ok t) : ∃ rs, t = .array rs st0 := by
  simp only [dotInfer, stOf] at h
  repeat' (first | (exact absurd ‹s0.length = 1 ∧ s1.length = 1› h11) | (injection h with h; exact ⟨_, h.symm⟩) | cases h | split at h)

end CCV.EvalOps
