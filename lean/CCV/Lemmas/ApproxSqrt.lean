import CCV.Lemmas.ApproxNewton
/-
  C20: error recurrence of the Newton iteration for the inverse square root (ops/inverse_sqrt.rs),
  model `sqrtStep` / `sqrtIter` / `inverseSqrt`.  Over ℤ with denominators cleared:
  `P = 2^c`, `Q = 4^c = P²`, `D = d·x²`, `E = Q − D` is `Q` times the relative error `e = 1 − d·x²/4^c`
  of `x` as an approximation of `2^c/√d`.
-/
namespace CCV.Approx

theorem four_pow_eq (c : Nat) : (4:Int) ^ c = 2 ^ c * 2 ^ c := by
  rw [show (4:Int) = 2 * 2 by norm_num, mul_pow]

/-- InverseSqrt step under the guard that IS invariant under the iteration: caps `2 ≤ c ≤ 30`,
    `0 < d`, `0 ≤ x`, `d·x² ≤ (2^c + 2)²` (the iterate may exceed `2^c/√d` by up to `2/√d`: rounding of
    the first floor pushes the step UP, e.g. `c = 6, d = 3, x = 36 ↦ 37` with `3·37² > 4^6`).
    Nothing wraps in the 64-bit types and
    `x' = ⌊(3·2^(c-1) − ⌊d·x²/2^(c+1)⌋)·x / 2^c⌋`. -/
theorem sqrtStep_eq' (sg : Bool) {c : Nat} {d x : Int} (hc2 : 2 ≤ c) (hc : c ≤ 30) (hd : 0 < d)
    (hx : 0 ≤ x) (hdx : d * x * x ≤ (2 ^ c + 2) * (2 ^ c + 2)) :
    sqrtStep sg 64 c d x = ((3 * 2 ^ (c - 1) - (d * x * x) / 2 ^ (c + 1)) * x) / 2 ^ c := by
  have hP : (0:Int) < 2 ^ c := two_pow_pos' c
  have hP30 : (2:Int) ^ c ≤ 2 ^ 30 := pow_le_pow_right₀ (by decide) hc
  have hP4 : (4:Int) ≤ 2 ^ c := by
    have : (2:Int) ^ 2 ≤ 2 ^ c := pow_le_pow_right₀ (by decide) hc2
    simpa using this
  have hsucc : (2:Int) ^ (c + 1) = 2 * 2 ^ c := by rw [pow_succ]; ring
  have hpred : (2:Int) ^ c = 2 * 2 ^ (c - 1) := two_pow_pred c (by omega)
  have hdx0 : 0 ≤ d * x := mul_nonneg (le_of_lt hd) hx
  have hdxx0 : 0 ≤ d * x * x := mul_nonneg hdx0 hx
  have h61 : (2 ^ c + 2) * (2 ^ c + 2) ≤ (2:Int) ^ 61 := by
    calc ((2:Int) ^ c + 2) * (2 ^ c + 2) ≤ (2 ^ 30 + 2) * (2 ^ 30 + 2) :=
          mul_le_mul (by omega) (by omega) (by omega) (by norm_num)
      _ ≤ 2 ^ 61 := by norm_num
  have hdx1 : d * x ≤ 2 ^ 61 := by
    rcases eq_or_lt_of_le hx with h | h
    · rw [← h]; norm_num
    · have : d * x * 1 ≤ d * x * x := mul_le_mul_of_nonneg_left (by omega) hdx0
      linarith
  -- x ≤ 2^c + 2
  have hxP : x ≤ 2 ^ c + 2 := by
    by_contra hlt
    have hlt := lt_of_not_ge hlt
    have : (2 ^ c + 2) * (2 ^ c + 2) < x * x := mul_lt_mul'' hlt hlt (by omega) (by omega)
    have : 1 * (x * x) ≤ d * (x * x) := mul_le_mul_of_nonneg_right (by omega) (mul_nonneg hx hx)
    nlinarith
  unfold sqrtStep mulFixed
  simp only
  rw [sqrtConst_eq sg (by omega) hc]
  have e1 : mul sg 64 d x = d * x := by
    unfold mul; exact wrap64_nonneg sg hdx0 (by omega)
  rw [e1]
  have e2 : mul sg 64 (d * x) x = d * x * x := by
    unfold mul; exact wrap64_nonneg sg hdxx0 (by omega)
  rw [e2]
  have et : trunc (d * x * x) (2 ^ (c + 1)) = (d * x * x) / 2 ^ (c + 1) := by
    unfold trunc; exact Int.tdiv_eq_ediv_of_nonneg hdxx0
  rw [et]
  have hq0 : 0 ≤ (d * x * x) / 2 ^ (c + 1) := Int.ediv_nonneg hdxx0 (le_of_lt (two_pow_pos' _))
  have hq1 : (d * x * x) / 2 ^ (c + 1) ≤ 2 ^ (c - 1) + 2 := by
    have : d * x * x < (2 ^ (c - 1) + 3) * 2 ^ (c + 1) := by
      rw [hsucc]; rw [hpred] at hdx hP4 ⊢; nlinarith [two_pow_pos' (c - 1)]
    have := Int.ediv_lt_of_lt_mul (two_pow_pos' (c + 1)) this
    omega
  have e3 : sub sg 64 (3 * 2 ^ (c - 1)) ((d * x * x) / 2 ^ (c + 1)) = 3 * 2 ^ (c - 1) - (d * x * x) / 2 ^ (c + 1) := by
    unfold sub; exact wrap64_nonneg sg (by omega) (by omega)
  rw [e3]
  have hm0 : 0 ≤ (3 * 2 ^ (c - 1) - (d * x * x) / 2 ^ (c + 1)) * x := mul_nonneg (by omega) hx
  have hm1 : (3 * 2 ^ (c - 1) - (d * x * x) / 2 ^ (c + 1)) * x < 2 ^ 63 := by
    have : (3 * 2 ^ (c - 1) - (d * x * x) / 2 ^ (c + 1)) * x ≤ (3 * 2 ^ 29) * (2 ^ 30 + 2) :=
      mul_le_mul (by omega) (by omega) hx (by norm_num)
    exact lt_of_le_of_lt this (by norm_num)
  have e4 : mul sg 64 (3 * 2 ^ (c - 1) - (d * x * x) / 2 ^ (c + 1)) x = (3 * 2 ^ (c - 1) - (d * x * x) / 2 ^ (c + 1)) * x := by
    unfold mul; exact wrap64_nonneg sg hm0 hm1
  rw [e4]
  unfold trunc
  exact Int.tdiv_eq_ediv_of_nonneg hm0

theorem le_of_mul_self_le' {a b : Int} (hb : 0 ≤ b) (h : a * a ≤ b * b) : a ≤ b := by
  by_contra hlt
  have hlt := lt_of_not_ge hlt
  have := mul_lt_mul'' hlt hlt hb hb
  linarith

/-- algebraic core of the InverseSqrt step: `P = 2^c`, `D = d·x²`, remainders `r₁` (first floor,
    divisor `2P`) and `r₂` (second floor, divisor `P`). -/
theorem sqrt_core {P d x y r₁ r₂ : Int} (hP : 4 ≤ P) (hd : 0 < d) (hx : 0 ≤ x)
    (hD : d * x * x ≤ (P + 2) * (P + 2)) (h10 : 0 ≤ r₁) (h11 : r₁ < 2 * P) (h20 : 0 ≤ r₂) (h21 : r₂ < P)
    (hy : 0 ≤ y)
    (hlin : 2 * (P * P) * y = (3 * (P * P) - d * x * x + r₁) * x - 2 * P * r₂) :
    d * y * y ≤ (P + 2) * (P + 2) ∧
    4 * (P * P) * (P * P) * (P * P - d * y * y)
      < (P * P - d * x * x) ^ 2 * (4 * (P * P) - d * x * x) + 4 * (P * P) * (P * P) * (d * (2 * y + 1)) ∧
    (P * P - d * x * x) ^ 2 * (4 * (P * P) - d * x * x)
      - (4 * P * (3 * (P * P) - d * x * x) + 4 * (P * P)) * (d * x * x)
      ≤ 4 * (P * P) * (P * P) * (P * P - d * y * y) := by
  have hD0 : 0 ≤ d * x * x := mul_nonneg (mul_nonneg (le_of_lt hd) hx) hx
  generalize hQ : P * P = Q at *
  have hQ16 : 16 ≤ Q := by rw [← hQ]; nlinarith
  have hQP : 4 * P ≤ Q := by rw [← hQ]; nlinarith
  have hS : (P + 2) * (P + 2) = Q + 4 * P + 4 := by rw [← hQ]; ring
  rw [hS] at hD ⊢
  generalize hDd : d * x * x = D at *
  have h3 : 0 ≤ 3 * Q - D := by linarith
  -- upper bound of 2Qy
  have hup : 2 * Q * y ≤ (3 * Q - D + 2 * P) * x := by
    rw [hlin]
    have : r₁ * x ≤ 2 * P * x := mul_le_mul_of_nonneg_right (le_of_lt h11) hx
    have : 0 ≤ 2 * P * r₂ := by positivity
    nlinarith
  have hy2 : 0 ≤ 2 * Q * y := by positivity
  have hsq : (2 * Q * y) * (2 * Q * y) ≤ ((3 * Q - D + 2 * P) * x) * ((3 * Q - D + 2 * P) * x) :=
    mul_self_le_mul_self hy2 hup
  have hsqd : d * ((2 * Q * y) * (2 * Q * y)) ≤ (3 * Q - D + 2 * P) ^ 2 * D := by
    have := mul_le_mul_of_nonneg_left hsq (le_of_lt hd)
    calc d * ((2 * Q * y) * (2 * Q * y)) ≤ d * (((3 * Q - D + 2 * P) * x) * ((3 * Q - D + 2 * P) * x)) := this
      _ = (3 * Q - D + 2 * P) ^ 2 * D := by rw [← hDd]; ring
  -- the cubic: (3Q - D)^2 D = 4Q^3 - E^2 (4Q - D)
  have hcub : (3 * Q - D) ^ 2 * D = 4 * Q * Q * Q - (Q - D) ^ 2 * (4 * Q - D) := by ring
  have hEE : 0 ≤ (Q - D) ^ 2 * (4 * Q - D) := mul_nonneg (sq_nonneg _) (by linarith)
  -- lower recurrence
  have hlow : (Q - D) ^ 2 * (4 * Q - D) - (4 * P * (3 * Q - D) + 4 * Q) * D
      ≤ 4 * Q * Q * (Q - d * y * y) := by
    have e : (3 * Q - D + 2 * P) ^ 2 * D = (3 * Q - D) ^ 2 * D + (4 * P * (3 * Q - D) + 4 * (P * P)) * D := by ring
    rw [hQ, hcub] at e
    have e2 : d * ((2 * Q * y) * (2 * Q * y)) = 4 * Q * Q * (d * y * y) := by ring
    linarith
  refine ⟨?_, ?_, hlow⟩
  · -- invariant
    have hK0 : 0 ≤ (3 * Q - D) * D := mul_nonneg h3 hD0
    have hKsq : ((3 * Q - D) * D) * ((3 * Q - D) * D) ≤ (2 * Q * P * (P + 2)) * (2 * Q * P * (P + 2)) := by
      have e1 : ((3 * Q - D) * D) * ((3 * Q - D) * D) = ((3 * Q - D) ^ 2 * D) * D := by ring
      have e2 : (2 * Q * P * (P + 2)) * (2 * Q * P * (P + 2)) = (4 * Q * Q * Q) * (Q + 4 * P + 4) := by
        rw [← hS, ← hQ]; ring
      rw [e1, e2]
      exact mul_le_mul (by rw [hcub]; linarith) hD hD0 (by positivity)
    have hK : (3 * Q - D) * D ≤ 2 * Q * P * (P + 2) := le_of_mul_self_le' (by positivity) hKsq
    -- 4Q^2 d y^2 ≤ 4Q^3 + 8 Q^2 S + 4 Q S^2 ≤ 4 Q^2 S^2
    have e : (3 * Q - D + 2 * P) ^ 2 * D = (3 * Q - D) ^ 2 * D + 4 * P * ((3 * Q - D) * D) + 4 * (P * P) * D := by ring
    rw [hQ] at e
    have h1 : 4 * P * ((3 * Q - D) * D) ≤ 4 * P * (2 * Q * P * (P + 2)) :=
      mul_le_mul_of_nonneg_left hK (by linarith)
    have h1' : 4 * P * (2 * Q * P * (P + 2)) = 8 * Q * Q * (P + 2) := by rw [← hQ]; ring
    have h2 : 4 * Q * D ≤ 4 * Q * (Q + 4 * P + 4) := mul_le_mul_of_nonneg_left hD (by linarith)
    have h3' : 4 * Q * Q * (d * y * y) ≤ 4 * Q * Q * Q + 8 * Q * Q * (P + 2) + 4 * Q * (Q + 4 * P + 4) := by
      have e2 : d * ((2 * Q * y) * (2 * Q * y)) = 4 * Q * Q * (d * y * y) := by ring
      rw [hcub] at e
      linarith
    -- 4Q^3 + 8Q^2 S + 4Q S^2 = 4Q (Q+S)^2 ≤ 4 Q (P S)^2 = 4 Q^2 S^2
    have h4 : 4 * Q * Q * Q + 8 * Q * Q * (P + 2) + 4 * Q * (Q + 4 * P + 4) ≤ 4 * Q * Q * (Q + 4 * P + 4) := by
      have hs : Q + (P + 2) ≤ P * (P + 2) := by rw [← hQ]; nlinarith
      have hs2 : (Q + (P + 2)) * (Q + (P + 2)) ≤ (P * (P + 2)) * (P * (P + 2)) :=
        mul_self_le_mul_self (by linarith) hs
      have e3 : (P * (P + 2)) * (P * (P + 2)) = Q * (Q + 4 * P + 4) := by rw [← hS, ← hQ]; ring
      have e4 : 4 * Q * Q * Q + 8 * Q * Q * (P + 2) + 4 * Q * (Q + 4 * P + 4)
          = 4 * Q * ((Q + (P + 2)) * (Q + (P + 2))) := by rw [← hS]; ring
      rw [e4]
      calc 4 * Q * ((Q + (P + 2)) * (Q + (P + 2))) ≤ 4 * Q * (Q * (Q + 4 * P + 4)) := by
            rw [← e3]; exact mul_le_mul_of_nonneg_left hs2 (by linarith)
        _ = 4 * Q * Q * (Q + 4 * P + 4) := by ring
    have h5 : 4 * Q * Q * (d * y * y) ≤ 4 * Q * Q * (Q + 4 * P + 4) := le_trans h3' h4
    exact le_of_mul_le_mul_left h5 (by positivity)
  · -- upper recurrence
    have hlo : (3 * Q - D) * x < 2 * Q * (y + 1) := by
      have : 2 * Q * (y + 1) = (3 * Q - D + r₁) * x - 2 * P * r₂ + 2 * Q := by rw [← hlin]; ring
      rw [this]
      have h1 : 0 ≤ r₁ * x := mul_nonneg h10 hx
      have h2 : 2 * P * r₂ < 2 * Q := by rw [← hQ]; nlinarith
      nlinarith
    have hl0 : 0 ≤ (3 * Q - D) * x := mul_nonneg h3 hx
    have hsq' : ((3 * Q - D) * x) * ((3 * Q - D) * x) < (2 * Q * (y + 1)) * (2 * Q * (y + 1)) :=
      mul_self_lt_mul_self hl0 hlo
    have hsqd' : (3 * Q - D) ^ 2 * D < 4 * Q * Q * (d * (y + 1) * (y + 1)) := by
      have := mul_lt_mul_of_pos_left hsq' hd
      calc (3 * Q - D) ^ 2 * D = d * (((3 * Q - D) * x) * ((3 * Q - D) * x)) := by rw [← hDd]; ring
        _ < d * ((2 * Q * (y + 1)) * (2 * Q * (y + 1))) := this
        _ = 4 * Q * Q * (d * (y + 1) * (y + 1)) := by ring
    rw [hcub] at hsqd'
    have e : d * (y + 1) * (y + 1) = d * y * y + d * (2 * y + 1) := by ring
    rw [e] at hsqd'
    nlinarith

/-- the step as an exact LINEAR identity with the two floor remainders:
    `2·4^c·x' = (3·4^c − d·x² + r₁)·x − 2·2^c·r₂`, `0 ≤ r₁ < 2^(c+1)` (remainder of `d·x² / 2^(c+1)`),
    `0 ≤ r₂ < 2^c` (remainder of the final `/ 2^c`).  Without the remainders this is
    `x' = x·(3 − u)/2`, `u = d·x²/4^c`. -/
theorem sqrtStep_linear (sg : Bool) {c : Nat} {d x : Int} (hc2 : 2 ≤ c) (hc : c ≤ 30) (hd : 0 < d)
    (hx : 0 ≤ x) (hdx : d * x * x ≤ (2 ^ c + 2) * (2 ^ c + 2)) :
    ∃ r₁ r₂ : Int, 0 ≤ r₁ ∧ r₁ < 2 ^ (c + 1) ∧ 0 ≤ r₂ ∧ r₂ < 2 ^ c ∧ 0 ≤ sqrtStep sg 64 c d x ∧
      2 * 4 ^ c * sqrtStep sg 64 c d x = (3 * 4 ^ c - d * x * x + r₁) * x - 2 * 2 ^ c * r₂ := by
  have hP : (0:Int) < 2 ^ c := two_pow_pos' c
  have hP2 : (0:Int) < 2 ^ (c + 1) := two_pow_pos' _
  have hsucc : (2:Int) ^ (c + 1) = 2 * 2 ^ c := by rw [pow_succ]; ring
  have hpred : (2:Int) ^ c = 2 * 2 ^ (c - 1) := two_pow_pred c (by omega)
  have hP4 : (4:Int) ≤ 2 ^ c := by
    have : (2:Int) ^ 2 ≤ 2 ^ c := pow_le_pow_right₀ (by decide) hc2
    simpa using this
  have hdxx0 : 0 ≤ d * x * x := mul_nonneg (mul_nonneg (le_of_lt hd) hx) hx
  rw [sqrtStep_eq' sg hc2 hc hd hx hdx, four_pow_eq]
  have h1 := Int.mul_ediv_add_emod (d * x * x) (2 ^ (c + 1))
  have h2 := Int.mul_ediv_add_emod ((3 * 2 ^ (c - 1) - (d * x * x) / 2 ^ (c + 1)) * x) (2 ^ c)
  have hq1 : (d * x * x) / 2 ^ (c + 1) ≤ 2 ^ (c - 1) + 2 := by
    have : d * x * x < (2 ^ (c - 1) + 3) * 2 ^ (c + 1) := by
      rw [hsucc]; rw [hpred] at hdx hP4 ⊢; nlinarith [two_pow_pos' (c - 1)]
    have := Int.ediv_lt_of_lt_mul (two_pow_pos' (c + 1)) this
    omega
  have hm0 : 0 ≤ (3 * 2 ^ (c - 1) - (d * x * x) / 2 ^ (c + 1)) * x := mul_nonneg (by omega) hx
  refine ⟨(d * x * x) % 2 ^ (c + 1), ((3 * 2 ^ (c - 1) - (d * x * x) / 2 ^ (c + 1)) * x) % 2 ^ c,
    Int.emod_nonneg _ (ne_of_gt hP2), Int.emod_lt_of_pos _ hP2,
    Int.emod_nonneg _ (ne_of_gt hP), Int.emod_lt_of_pos _ hP,
    Int.ediv_nonneg hm0 (le_of_lt hP), ?_⟩
  generalize (d * x * x) % 2 ^ (c + 1) = r₁ at h1 ⊢
  generalize ((3 * 2 ^ (c - 1) - (d * x * x) / 2 ^ (c + 1)) * x) % 2 ^ c = r₂ at h2 ⊢
  generalize ((3 * 2 ^ (c - 1) - (d * x * x) / 2 ^ (c + 1)) * x) / 2 ^ c = y at h2 ⊢
  generalize (d * x * x) / 2 ^ (c + 1) = q at h1 h2 ⊢
  rw [hsucc] at h1
  rw [hpred] at h1 h2 ⊢
  generalize (2:Int) ^ (c - 1) = H at h1 h2 ⊢
  -- D = 4H q + r₁ ; (3H - q) x = 2H y + r₂ ; goal: 2 (2H)^2 y = (3 (2H)^2 - D + r₁) x - 2 (2H) r₂
  have e : d * x * x = 2 * (2 * H) * q + r₁ := by linarith
  rw [e]
  have : 2 * H * y = (3 * H - q) * x - r₂ := by linarith
  calc 2 * (2 * H * (2 * H)) * y = 4 * H * (2 * H * y) := by ring
    _ = 4 * H * ((3 * H - q) * x - r₂) := by rw [this]
    _ = _ := by ring

/-- **one-step error recurrence of the inverse-square-root iteration** (cleared of denominators),
    for all caps `2 ≤ c ≤ 30`, both signednesses, `d > 0`, `0 ≤ x`, `d·x² ≤ (2^c+2)²`.
    With `Q = 4^c`, `E = Q − d·x²` (`e = E/Q = 1 − d·x²/4^c`), `y` the next iterate, `E' = Q − d·y²`:
    * the guard is invariant: `0 ≤ y`, `d·y² ≤ (2^c+2)²`;
    * upper: `4Q²·E' < E²·(3Q + E) + 4Q²·d·(2y+1)`, i.e. `e' < (3e² + e³)/4 + d·(2y+1)/4^c` — the exact
      Newton term plus the loss of at most one unit of `y` in the final floor;
    * lower: `4Q²·E' ≥ E²·(3Q + E) − (4·2^c·(3Q − D) + 4Q)·D`, i.e. `e' ≥ (3e²+e³)/4 − (3−u+2^-c)·u/2^c`:
      the first floor can only push `y` up, by less than `x/2^c`. -/
theorem sqrt_error_recurrence (sg : Bool) {c : Nat} {d x : Int} (hc2 : 2 ≤ c) (hc : c ≤ 30) (hd : 0 < d)
    (hx : 0 ≤ x) (hdx : d * x * x ≤ (2 ^ c + 2) * (2 ^ c + 2)) :
    0 ≤ sqrtStep sg 64 c d x ∧
    d * sqrtStep sg 64 c d x * sqrtStep sg 64 c d x ≤ (2 ^ c + 2) * (2 ^ c + 2) ∧
    4 * 4 ^ c * 4 ^ c * (4 ^ c - d * sqrtStep sg 64 c d x * sqrtStep sg 64 c d x)
      < (4 ^ c - d * x * x) ^ 2 * (3 * 4 ^ c + (4 ^ c - d * x * x))
        + 4 * 4 ^ c * 4 ^ c * (d * (2 * sqrtStep sg 64 c d x + 1)) ∧
    (4 ^ c - d * x * x) ^ 2 * (3 * 4 ^ c + (4 ^ c - d * x * x))
        - (4 * 2 ^ c * (3 * 4 ^ c - d * x * x) + 4 * 4 ^ c) * (d * x * x)
      ≤ 4 * 4 ^ c * 4 ^ c * (4 ^ c - d * sqrtStep sg 64 c d x * sqrtStep sg 64 c d x) := by
  obtain ⟨r₁, r₂, h10, h11, h20, h21, hy, hlin⟩ := sqrtStep_linear sg hc2 hc hd hx hdx
  have hP4 : (4:Int) ≤ 2 ^ c := by
    have : (2:Int) ^ 2 ≤ 2 ^ c := pow_le_pow_right₀ (by decide) hc2
    simpa using this
  have hsucc : (2:Int) ^ (c + 1) = 2 * 2 ^ c := by rw [pow_succ]; ring
  rw [four_pow_eq] at hlin ⊢
  rw [hsucc] at h11
  obtain ⟨a, b, e⟩ := sqrt_core hP4 hd hx hdx h10 h11 h20 h21 hy hlin
  refine ⟨hy, a, ?_, ?_⟩
  · have : 3 * (2 ^ c * 2 ^ c) + (2 ^ c * 2 ^ c - d * x * x) = 4 * (2 ^ c * 2 ^ c) - d * x * x := by ring
    rw [this]; exact b
  · have : 3 * (2 ^ c * 2 ^ c) + (2 ^ c * 2 ^ c - d * x * x) = 4 * (2 ^ c * 2 ^ c) - d * x * x := by ring
    rw [this]; exact e

theorem mul_self_le_of_abs_le' {a b : Int} (hlo : -b ≤ a) (hhi : a ≤ b) : a * a ≤ b * b := by
  nlinarith [mul_nonneg (show 0 ≤ b - a by linarith) (show 0 ≤ b + a by linarith)]

/-- uniform bound of the rounding term: if `d ≤ T²` and `d·y² ≤ (P+2)²` then
    `d·(2y+1) ≤ T·(2P + 4 + T)` (`d·y = √d·√(d·y²) ≤ T·(P+2)`). -/
theorem sqrt_round_bound {P d y T : Int} (hP : 0 ≤ P) (hd : 0 < d) (hy : 0 ≤ y) (hT : 0 ≤ T)
    (hdT : d ≤ T * T) (hdy : d * y * y ≤ (P + 2) * (P + 2)) :
    d * (2 * y + 1) ≤ T * (2 * P + 4 + T) := by
  have h1 : (d * y) * (d * y) ≤ (T * (P + 2)) * (T * (P + 2)) := by
    have : (d * y) * (d * y) = d * (d * y * y) := by ring
    rw [this]
    calc d * (d * y * y) ≤ (T * T) * ((P + 2) * (P + 2)) :=
          mul_le_mul hdT hdy (by positivity) (by positivity)
      _ = _ := by ring
  have h2 : d * y ≤ T * (P + 2) := le_of_mul_self_le' (by positivity) h1
  nlinarith

/-- abstract induction step `e ≤ 1/B + 4ρ ⇒ e' ≤ 1/B² + 4ρ` for a recurrence `e' ≤ e² + ρ`,
    `ρ ≤ 1/16`, `B ≥ 4`, `|e| ≤ 1/B + 4ρ` (cleared of denominators). -/
theorem quad_inv_step {Q R B E E' : Int} (hQ : 0 < Q) (hR : 0 ≤ R) (h16 : 16 * R ≤ Q) (hB4 : 4 ≤ B)
    (hlo : -(Q + 4 * R * B) ≤ B * E) (hhi : B * E ≤ Q + 4 * R * B) (hrec : Q * E' ≤ E ^ 2 + Q * R) :
    (B * B) * E' ≤ Q + 4 * R * (B * B) := by
  have hB0 : 0 ≤ B := by linarith
  have hsq : (B * E) * (B * E) ≤ (Q + 4 * R * B) * (Q + 4 * R * B) := by
    exact mul_self_le_of_abs_le' hlo hhi
  have hQRB : 0 ≤ Q * R * B := by positivity
  have ha : 8 * (Q * R * B) ≤ 2 * (Q * R * B) * B := by nlinarith
  have hRBB : 0 ≤ R * B * B := by positivity
  have hb : 16 * R * (R * B * B) ≤ Q * (R * B * B) := mul_le_mul_of_nonneg_right h16 hRBB
  have hc' : B * B * (Q * E') ≤ B * B * (E ^ 2 + Q * R) :=
    mul_le_mul_of_nonneg_left hrec (by positivity)
  have hfin : Q * (B * B * E') ≤ Q * (Q + 4 * R * (B * B)) := by nlinarith
  exact le_of_mul_le_mul_left hfin hQ

/-- the first two iterations, abstractly: from `0 ≤ e₀ ≤ 3/4`, with the cubic recurrence
    `e' < (3e²+e³)/4 + ρ`, `e ≥ −4ρ`, `ρ ≤ 1/16`: `e₁ < 135/256 + ρ` and `e₂ ≤ 1/4 + 4ρ`. -/
theorem sqrt_first_two {Q R E0 E1 E2 : Int} (hQ : 0 < Q) (hR : 0 ≤ R) (h16 : 16 * R ≤ Q)
    (h00 : 0 ≤ E0) (h01 : 4 * E0 ≤ 3 * Q) (h1lo : -(4 * R) ≤ E1)
    (hr1 : 4 * Q * Q * E1 < E0 ^ 2 * (3 * Q + E0) + 4 * Q * Q * R)
    (hr2 : 4 * Q * Q * E2 < E1 ^ 2 * (3 * Q + E1) + 4 * Q * Q * R) :
    4 * E2 ≤ Q + 4 * R * 4 := by
  -- step A: 256 E1 < 135 Q + 256 R
  have hA : 256 * E1 < 135 * Q + 256 * R := by
    have h1 : (4 * E0) * (4 * E0) ≤ (3 * Q) * (3 * Q) := mul_self_le_mul_self (by linarith) h01
    have h2 : (4 * E0) * (4 * E0) * (4 * (3 * Q + E0)) ≤ (3 * Q) * (3 * Q) * (15 * Q) :=
      mul_le_mul h1 (by linarith) (by linarith) (by positivity)
    have h3 : Q * Q * (256 * E1) < Q * Q * (135 * Q + 256 * R) := by nlinarith
    exact lt_of_mul_lt_mul_left h3 (by positivity)
  -- |32 E1| ≤ a := 17 Q + 32 R
  have hlo : -(17 * Q + 32 * R) ≤ 32 * E1 := by linarith
  have hhi : 32 * E1 ≤ 17 * Q + 32 * R := by linarith
  have hsq : (32 * E1) * (32 * E1) ≤ (17 * Q + 32 * R) * (17 * Q + 32 * R) :=
    mul_self_le_of_abs_le' hlo hhi
  have h3Q : 0 ≤ 3 * Q + E1 := by linarith
  have hcub : (32 * E1) * (32 * E1) * (32 * (3 * Q + E1))
      ≤ (17 * Q + 32 * R) * (17 * Q + 32 * R) * (113 * Q + 32 * R) :=
    mul_le_mul hsq (by linarith) (by linarith) (by positivity)
  -- 32768 · 4Q² E2 < a²(113Q+32R) + 131072 Q² R ≤ 32768 Q² (Q + 16 R)
  have hpoly : (17 * Q + 32 * R) * (17 * Q + 32 * R) * (113 * Q + 32 * R) + 131072 * (Q * Q * R)
      ≤ 32768 * (Q * Q * (Q + 16 * R)) := by
    have g1 : 0 ≤ Q * R * (Q - 16 * R) := mul_nonneg (mul_nonneg (le_of_lt hQ) hR) (by linarith)
    have g2 : 0 ≤ R * R * (Q - 16 * R) := mul_nonneg (mul_nonneg hR hR) (by linarith)
    have g3 : 0 ≤ Q * Q * Q := by positivity
    have g4 : 0 ≤ Q * Q * R := by positivity
    nlinarith
  have hfin : Q * Q * (4 * E2) < Q * Q * (Q + 16 * R + 1) := by nlinarith
  have := lt_of_mul_lt_mul_left hfin (by positivity)
  linarith


/-- the rounding budget per step, times `4^c`: `R = T·(2·2^c + 4 + T)` for any `T ≥ √d`
    (`ρ = R/4^c ≈ 2·√d/2^c`: one unit of the iterate `y ≈ 2^c/√d`, relative to `y²`, twice). -/
def sqrtRound (c : Nat) (T : Int) : Int := T * (2 * 2 ^ c + 4 + T)

/-- simplified recurrences with the uniform rounding budget: `e' < (3e²+e³)/4 + ρ` and `e' ≤ e² + ρ`. -/
theorem sqrt_step_simple (sg : Bool) {c : Nat} {d x T : Int} (hc2 : 2 ≤ c) (hc : c ≤ 30) (hd : 0 < d)
    (hT : 0 < T) (hdT : d ≤ T * T) (hx : 0 ≤ x) (hdx : d * x * x ≤ (2 ^ c + 2) * (2 ^ c + 2)) :
    0 ≤ sqrtStep sg 64 c d x ∧
    d * sqrtStep sg 64 c d x * sqrtStep sg 64 c d x ≤ (2 ^ c + 2) * (2 ^ c + 2) ∧
    4 * 4 ^ c * 4 ^ c * (4 ^ c - d * sqrtStep sg 64 c d x * sqrtStep sg 64 c d x)
      < (4 ^ c - d * x * x) ^ 2 * (3 * 4 ^ c + (4 ^ c - d * x * x)) + 4 * 4 ^ c * 4 ^ c * sqrtRound c T ∧
    4 ^ c * (4 ^ c - d * sqrtStep sg 64 c d x * sqrtStep sg 64 c d x)
      ≤ (4 ^ c - d * x * x) ^ 2 + 4 ^ c * sqrtRound c T := by
  obtain ⟨hy, hinv, hup, _⟩ := sqrt_error_recurrence sg hc2 hc hd hx hdx
  have hP : (0:Int) < 2 ^ c := two_pow_pos' c
  have hQ : (0:Int) < 4 ^ c := by rw [four_pow_eq]; positivity
  have hR := sqrt_round_bound (le_of_lt hP) hd hy (le_of_lt hT) hdT hinv
  have hdxx0 : 0 ≤ d * x * x := mul_nonneg (mul_nonneg (le_of_lt hd) hx) hx
  unfold sqrtRound
  generalize sqrtStep sg 64 c d x = y at *
  have hcub : 4 * 4 ^ c * 4 ^ c * (4 ^ c - d * y * y)
      < (4 ^ c - d * x * x) ^ 2 * (3 * 4 ^ c + (4 ^ c - d * x * x))
        + 4 * 4 ^ c * 4 ^ c * (T * (2 * 2 ^ c + 4 + T)) := by
    have : 4 * 4 ^ c * 4 ^ c * (d * (2 * y + 1)) ≤ 4 * 4 ^ c * 4 ^ c * (T * (2 * 2 ^ c + 4 + T)) :=
      mul_le_mul_of_nonneg_left hR (by positivity)
    linarith
  refine ⟨hy, hinv, hcub, ?_⟩
  generalize (4:Int) ^ c = Q at *
  generalize T * (2 * 2 ^ c + 4 + T) = R at *
  generalize d * y * y = D' at *
  generalize d * x * x = D at *
  -- E ≤ Q so E²(3Q+E) ≤ 4Q E²
  have h1 : (Q - D) ^ 2 * (3 * Q + (Q - D)) ≤ (Q - D) ^ 2 * (4 * Q) :=
    mul_le_mul_of_nonneg_left (by linarith) (sq_nonneg _)
  have h2 : (4 * Q) * (Q * (Q - D')) < (4 * Q) * ((Q - D) ^ 2 + Q * R + 1) := by nlinarith
  have := lt_of_mul_lt_mul_left h2 (by positivity)
  linarith

/-- invariant carried through the iteration at level `k` (`B = 2^(2^k)`): the guard under which
    nothing wraps, and `B·E ≤ Q + 4·R·B`, i.e. `e ≤ 2^(-2^k) + 4ρ`. -/
def SqrtInv (c : Nat) (d T : Int) (k : Nat) (x : Int) : Prop :=
  0 ≤ x ∧ d * x * x ≤ (2 ^ c + 2) * (2 ^ c + 2) ∧
    2 ^ (2 ^ k) * (4 ^ c - d * x * x) ≤ 4 ^ c + 4 * sqrtRound c T * 2 ^ (2 ^ k)

theorem sqrtRound_ge {c : Nat} {T : Int} (hT : 0 < T) : 2 * 2 ^ c + 5 ≤ sqrtRound c T := by
  have hP : (0:Int) < 2 ^ c := two_pow_pos' c
  unfold sqrtRound; nlinarith

theorem sqrtInv_step (sg : Bool) {c k : Nat} {d x T : Int} (hc2 : 2 ≤ c) (hc : c ≤ 30) (hd : 0 < d)
    (hT : 0 < T) (hdT : d ≤ T * T) (h16 : 16 * sqrtRound c T ≤ 4 ^ c) (hk : 1 ≤ k)
    (h : SqrtInv c d T k x) : SqrtInv c d T (k + 1) (sqrtStep sg 64 c d x) := by
  obtain ⟨hx, hdx, hB⟩ := h
  obtain ⟨h0, h1, _, h2⟩ := sqrt_step_simple sg hc2 hc hd hT hdT hx hdx
  refine ⟨h0, h1, ?_⟩
  have hP : (0:Int) < 2 ^ c := two_pow_pos' c
  have hQ : (0:Int) < 4 ^ c := by rw [four_pow_eq]; positivity
  have hRge := sqrtRound_ge (c := c) hT
  have hBB : (2:Int) ^ (2 ^ (k + 1)) = 2 ^ (2 ^ k) * 2 ^ (2 ^ k) := by
    rw [pow_succ, pow_mul, sq]
  have hB4 : (4:Int) ≤ 2 ^ (2 ^ k) := by
    have : (2:Int) ^ 2 ≤ 2 ^ (2 ^ k) :=
      pow_le_pow_right₀ (by decide) (by
        calc 2 = 2 ^ 1 := rfl
          _ ≤ 2 ^ k := Nat.pow_le_pow_right (by decide) hk)
    simpa using this
  rw [hBB]
  have hElo : -(4 * 2 ^ c + 4) ≤ 4 ^ c - d * x * x := by
    rw [four_pow_eq]; nlinarith
  generalize (2:Int) ^ (2 ^ k) = B at hB hB4 ⊢
  generalize sqrtStep sg 64 c d x = y at h0 h1 h2 ⊢
  generalize sqrtRound c T = R at *
  have hlo : -(4 ^ c + 4 * R * B) ≤ B * (4 ^ c - d * x * x) := by
    have : B * (-(4 * R)) ≤ B * (4 ^ c - d * x * x) := mul_le_mul_of_nonneg_left (by linarith) (by linarith)
    nlinarith
  exact quad_inv_step hQ (by linarith) h16 hB4 hlo hB h2

/-- the first two iterations from `1/4 ≤ d·x²/4^c ≤ 1` (e.g. the bit-derived guess). -/
theorem sqrtInv_first_two (sg : Bool) {c : Nat} {d x T : Int} (hc2 : 2 ≤ c) (hc : c ≤ 30) (hd : 0 < d)
    (hT : 0 < T) (hdT : d ≤ T * T) (h16 : 16 * sqrtRound c T ≤ 4 ^ c)
    (hx : 0 ≤ x) (hlo : 4 ^ c ≤ 4 * (d * x * x)) (hhi : d * x * x ≤ 4 ^ c) :
    SqrtInv c d T 1 (sqrtStep sg 64 c d (sqrtStep sg 64 c d x)) := by
  have hP : (0:Int) < 2 ^ c := two_pow_pos' c
  have hQ : (0:Int) < 4 ^ c := by rw [four_pow_eq]; positivity
  have hdx : d * x * x ≤ (2 ^ c + 2) * (2 ^ c + 2) := by
    rw [four_pow_eq] at hhi; nlinarith
  obtain ⟨a0, a1, a2, _⟩ := sqrt_step_simple sg hc2 hc hd hT hdT hx hdx
  obtain ⟨b0, b1, b2, _⟩ := sqrt_step_simple sg hc2 hc hd hT hdT a0 a1
  refine ⟨b0, b1, ?_⟩
  have hRge := sqrtRound_ge (c := c) hT
  have hE1lo : -(4 * sqrtRound c T) ≤ 4 ^ c - d * sqrtStep sg 64 c d x * sqrtStep sg 64 c d x := by
    rw [four_pow_eq]; nlinarith
  have := sqrt_first_two hQ (by linarith) h16 (by linarith) (by linarith) hE1lo a2 b2
  norm_num
  linarith

theorem sqrtInv_iter (sg : Bool) {c : Nat} {d T : Int} (hc2 : 2 ≤ c) (hc : c ≤ 30) (hd : 0 < d)
    (hT : 0 < T) (hdT : d ≤ T * T) (h16 : 16 * sqrtRound c T ≤ 4 ^ c) :
    ∀ (n k : Nat) (x : Int), 1 ≤ k → SqrtInv c d T k x →
      SqrtInv c d T (k + n) (sqrtIter sg 64 c d n x) := by
  intro n
  induction n with
  | zero => intro k x _ h; simpa [sqrtIter] using h
  | succ n ih =>
    intro k x hk h
    have := ih (k + 1) (sqrtStep sg 64 c d x) (by omega) (sqrtInv_step sg hc2 hc hd hT hdT h16 hk h)
    simpa [sqrtIter, Nat.add_assoc, Nat.add_comm 1 n] using this

/-- **n-step bound of the inverse-square-root iteration**, by induction on `n`: from any start with
    `1/4 ≤ d·x₀²/4^c ≤ 1`, after `n ≥ 2` iterations the iterate `y` satisfies the no-wrap guard
    `d·y² ≤ (2^c+2)²` and `e_n = 1 − d·y²/4^c ≤ 2^(-2^(n-1)) + 4ρ`, `ρ = T(2·2^c+4+T)/4^c`, `T ≥ √d`,
    provided `ρ ≤ 1/16`. -/
theorem sqrt_nstep (sg : Bool) {c : Nat} {d x T : Int} (hc2 : 2 ≤ c) (hc : c ≤ 30) (hd : 0 < d)
    (hT : 0 < T) (hdT : d ≤ T * T) (h16 : 16 * sqrtRound c T ≤ 4 ^ c)
    (hx : 0 ≤ x) (hlo : 4 ^ c ≤ 4 * (d * x * x)) (hhi : d * x * x ≤ 4 ^ c) (n : Nat) (hn : 2 ≤ n) :
    SqrtInv c d T (n - 1) (sqrtIter sg 64 c d n x) := by
  obtain ⟨m, rfl⟩ : ∃ m, n = m + 2 := ⟨n - 2, by omega⟩
  have h1 := sqrtInv_first_two sg hc2 hc hd hT hdT h16 hx hlo hhi
  have := sqrtInv_iter sg hc2 hc hd hT hdT h16 m 1 _ (le_refl 1) h1
  have e : m + 2 - 1 = 1 + m := by omega
  rw [e]
  simpa [sqrtIter] using this

/-- the operation as instantiated WITHOUT a supplied approximation: the bit-derived guess satisfies
    the start condition (`initSqrt_bracket`). -/
theorem sqrt_bits_nstep (sg : Bool) {c : Nat} {d T : Int} (hc2 : 2 ≤ c) (hc : c ≤ 30) (hd : 0 < d)
    (hT : 0 < T) (hdT : d ≤ T * T) (h16 : 16 * sqrtRound c T ≤ 4 ^ c) (n : Nat) (hn : 2 ≤ n) :
    ∃ y, inverseSqrt sg 64 c n d none = some y ∧ SqrtInv c d T (n - 1) y := by
  have hP : (0:Int) < 2 ^ c := two_pow_pos' c
  have hRge := sqrtRound_ge (c := c) hT
  have hdc : d < 4 ^ c := by
    have h1 : T * 1 ≤ T * (2 * 2 ^ c + 4 + T) := mul_le_mul_of_nonneg_left (by linarith) (le_of_lt hT)
    have h2 : T * T ≤ T * (2 * 2 ^ c + 4 + T) := mul_le_mul_of_nonneg_left (by linarith) (le_of_lt hT)
    unfold sqrtRound at h16
    linarith
  have hb := initSqrt_bracket (s := 64) (c := c) (d := d) (by omega) (by decide) hd hdc
  have hpos := initSqrt_pos (s := 64) (c := c) (d := d) (by omega) (by decide) hd hdc
  have h4 : (4:Int) ^ c = 4 * 4 ^ (c - 1) := by
    obtain ⟨k, rfl⟩ : ∃ k, c = k + 1 := ⟨c - 1, by omega⟩
    rw [pow_succ]; simp; ring
  refine ⟨sqrtIter sg 64 c d n (initSqrt 64 c d), ?_, ?_⟩
  · unfold inverseSqrt; rw [if_neg (by omega)]
  · apply sqrt_nstep sg hc2 hc hd hT hdT h16 (le_of_lt hpos) _ _ n hn
    · rw [h4]
      have : d * initSqrt 64 c d * initSqrt 64 c d = initSqrt 64 c d * initSqrt 64 c d * d := by ring
      rw [this]; linarith [hb.1]
    · have : d * initSqrt 64 c d * initSqrt 64 c d = initSqrt 64 c d * initSqrt 64 c d * d := by ring
      rw [this]; exact le_of_lt hb.2


/-- the recurrence in the coarse form that was left open as `InverseSqrtErrorStatement`:
    for `0 ≤ e ≤ 1` (`d·x² ≤ 4^c`): `e' ≤ e² + 4·d·(y+1)/4^c`. -/
theorem sqrt_error_coarse (sg : Bool) {c : Nat} {d x : Int} (hc2 : 2 ≤ c) (hc : c ≤ 30) (hd : 0 < d)
    (hx : 0 ≤ x) (hdx : d * x * x ≤ 4 ^ c) :
    4 ^ c * (4 ^ c - d * sqrtStep sg 64 c d x * sqrtStep sg 64 c d x)
      ≤ (4 ^ c - d * x * x) ^ 2 + 4 ^ c * (4 * d * (sqrtStep sg 64 c d x + 1)) := by
  have hP : (0:Int) < 2 ^ c := two_pow_pos' c
  have hQ : (0:Int) < 4 ^ c := by rw [four_pow_eq]; positivity
  have hg : d * x * x ≤ (2 ^ c + 2) * (2 ^ c + 2) := by rw [four_pow_eq] at hdx; nlinarith
  obtain ⟨hy, _, hup, _⟩ := sqrt_error_recurrence sg hc2 hc hd hx hg
  have hdxx0 : 0 ≤ d * x * x := mul_nonneg (mul_nonneg (le_of_lt hd) hx) hx
  generalize sqrtStep sg 64 c d x = y at *
  have hdy : 0 ≤ d * (2 * y + 3) := mul_nonneg (le_of_lt hd) (by linarith)
  generalize d * y * y = D' at *
  generalize d * x * x = D at *
  generalize (4:Int) ^ c = Q at *
  have h1 : (Q - D) ^ 2 * (3 * Q + (Q - D)) ≤ (Q - D) ^ 2 * (4 * Q) :=
    mul_le_mul_of_nonneg_left (by linarith) (sq_nonneg _)
  have h2 : (4 * Q) * (Q * (Q - D')) < (4 * Q) * ((Q - D) ^ 2 + Q * (d * (2 * y + 1)) + 1) := by nlinarith
  have h3 := lt_of_mul_lt_mul_left h2 (by positivity)
  have h4 : 0 ≤ Q * (d * (2 * y + 3)) := mul_nonneg (le_of_lt hQ) hdy
  nlinarith

end CCV.Approx
