import CCV.Model.Inline
/-
  Helper definitions (the specification functions) and lemmas for C07.
-/
namespace CCV.Inline

/-- running fold: `scanAux f acc [x₁, x₂, …] = [acc⊕x₁, (acc⊕x₁)⊕x₂, …]` -/
def scanAux (f : α → α → α) : α → List α → List α
  | _, [] => []
  | acc, x :: xs => f acc x :: scanAux f (f acc x) xs

/-- the list of prefix folds `[x₀, x₀⊕x₁, (x₀⊕x₁)⊕x₂, …]` (left-nested, as the reference loop computes them) -/
def scanl1 (f : α → α → α) : List α → List α
  | [] => []
  | x :: xs => x :: scanAux f x xs

/-- left fold of a non-empty list, `none` for the empty list -/
def sumO (f : α → α → α) : List α → Option α
  | [] => none
  | x :: xs => some (xs.foldl f x)

def Assoc (f : α → α → α) : Prop := ∀ a b c, f (f a b) c = f a (f b c)

variable {α : Type} {f : α → α → α}

/-! ### log_depth_sum -/

theorem pairUp_foldl (h : Assoc f) : ∀ (l : List α) (acc : α), (pairUp f l).1.foldl f acc = l.foldl f acc
  | [], _ => rfl
  | [_], _ => rfl
  | a :: b :: rest, acc => by
    simp only [pairUp, List.foldl_cons]
    rw [pairUp_foldl h rest, h]

theorem pairUp_length : ∀ (l : List α), (pairUp f l).1.length = (l.length + 1) / 2
  | [] => by simp [pairUp]
  | [_] => by simp [pairUp]
  | a :: b :: rest => by
    simp only [pairUp, List.length_cons, pairUp_length rest]; omega

theorem sumO_pairUp (h : Assoc f) : ∀ (l : List α), sumO f (pairUp f l).1 = sumO f l
  | [] => rfl
  | [_] => rfl
  | a :: b :: rest => by
    simp only [pairUp, sumO, List.foldl_cons, pairUp_foldl h]

theorem sumO_short : ∀ (c : List α), c.length ≤ 1 → c.head? = sumO f c
  | [], _ => rfl
  | [_], _ => rfl
  | _ :: _ :: _, h => by simp at h

theorem ldLoop_spec (h : Assoc f) : ∀ (fuel : Nat) (c : List α), c.length ≤ fuel + 1 →
    (ldLoop f fuel c).1.head? = sumO f c
  | 0, c, hl => by simpa [ldLoop] using sumO_short c (by omega)
  | fuel + 1, c, hl => by
    unfold ldLoop
    split
    · rename_i h1
      simp only
      rw [ldLoop_spec h fuel _ (by rw [pairUp_length]; omega), sumO_pairUp h]
    · exact sumO_short c (by omega)

theorem logDepthSum_eq (h : Assoc f) (items : List α) : logDepthSum f items = sumO f items := by
  unfold logDepthSum logDepthSumT
  cases items with
  | nil => rfl
  | cons a l =>
    simp only [List.isEmpty_cons, Bool.false_eq_true, if_false]
    exact ldLoop_spec h _ _ (by omega)

/-! ### segment tree -/

theorem scanl1_short : ∀ (c : List α), c.length ≤ 1 → scanl1 f c = c
  | [], _ => rfl
  | [_], _ => rfl
  | _ :: _ :: _, h => by simp at h

theorem stDownRest_spec (h : Assoc f) : ∀ (t : List α) (acc : α),
    (stDownRest f acc t (scanAux f acc (pairUp f t).1)).1 = scanAux f acc t
  | [], _ => by simp [stDownRest, scanAux]
  | [e], acc => by simp [stDownRest, scanAux]
  | e :: e' :: rest, acc => by
    simp only [pairUp, scanAux, stDownRest]
    rw [stDownRest_spec h rest, h]

theorem stDown_spec (h : Assoc f) : ∀ (l : List α), (stDown f l (scanl1 f (pairUp f l).1)).1 = scanl1 f l
  | [] => by simp [stDown, scanl1]
  | [e] => by simp [stDown, scanl1, scanAux]
  | e0 :: e1 :: rest => by
    simp only [pairUp, scanl1, scanAux, stDown]
    rw [stDownRest_spec h rest]

theorem stBuild_ne_nil : ∀ (fuel : Nat) (c : List α), ∃ r rs, (stBuild f fuel c).1 = r :: rs
  | 0, c => ⟨c, [], rfl⟩
  | fuel + 1, c => by
    unfold stBuild
    split
    · exact ⟨c, _, rfl⟩
    · exact ⟨c, [], rfl⟩

theorem stDescend_build (h : Assoc f) : ∀ (fuel : Nat) (c : List α), c.length ≤ fuel + 1 →
    (stDescend f (stBuild f fuel c).1).1 = scanl1 f c
  | 0, c, hl => by simp [stBuild, stDescend, scanl1_short c (by omega)]
  | fuel + 1, c, hl => by
    unfold stBuild
    split
    · simp only
      have ih := stDescend_build h fuel (pairUp f c).1 (by rw [pairUp_length]; omega)
      obtain ⟨r, rs, hr⟩ := stBuild_ne_nil (f := f) fuel (pairUp f c).1
      rw [hr] at ih ⊢
      simp only [stDescend]
      rw [ih, stDown_spec h]
    · simp [stDescend, scanl1_short c (by omega)]

theorem prefixSegmentTree_eq (h : Assoc f) (items : List α) : prefixSegmentTree f items = scanl1 f items := by
  unfold prefixSegmentTree prefixSegmentTreeT
  cases items with
  | nil => rfl
  | cons a l =>
    simp only [List.isEmpty_cons, Bool.false_eq_true, if_false]
    exact stDescend_build h _ _ (by omega)

/-! ### sqrt trick (any block size ≥ 1) -/

theorem sqrt_fused (h : Assoc f) (b : Nat) (hb : 1 ≤ b) : ∀ (xs : List α) (i : Nat) (carry prev p1 : α),
    1 ≤ i → (i < b → p1 = prev) → (b ≤ i → i % b ≠ 0 → prev = f carry p1) →
    (sqrtPass2 f b i carry prev (sqrtPass1 f b i p1 xs).1).1 = scanAux f prev xs
  | [], _, _, _, _, _, _, _ => by simp [sqrtPass1, sqrtPass2, scanAux]
  | x :: t, i, carry, prev, p1, hi, h1, h2 => by
    by_cases hm : i % b = 0
    · -- block start
      have hbi : b ≤ i := by
        apply Nat.le_of_not_lt; intro hlt
        rw [Nat.mod_eq_of_lt hlt] at hm; omega
      have hnl : ¬ i < b := by omega
      simp only [sqrtPass1, hm, ne_eq, not_true_eq_false, if_false, sqrtPass2, hnl, if_true, scanAux]
      rw [sqrt_fused h b hb t (i + 1) prev (f prev x) x (by omega) (by omega) (fun _ _ => rfl)]
    · by_cases hlt : i < b
      · have hp : p1 = prev := h1 hlt
        subst hp
        simp only [sqrtPass1, hm, ne_eq, not_false_eq_true, if_true, sqrtPass2, hlt, scanAux]
        rw [sqrt_fused h b hb t (i + 1) carry (f p1 x) (f p1 x) (by omega) (fun _ => rfl)
          (by
            intro hb1 hm1
            have : i + 1 = b := by omega
            rw [this, Nat.mod_self] at hm1; exact absurd rfl hm1)]
      · have hbi : b ≤ i := by omega
        have hp := h2 hbi hm
        simp only [sqrtPass1, hm, ne_eq, not_false_eq_true, if_true, sqrtPass2, hlt, if_false, scanAux]
        have hz : f carry (f p1 x) = f prev x := by rw [hp, h]
        rw [hz, sqrt_fused h b hb t (i + 1) carry (f prev x) (f p1 x) (by omega) (by omega)
          (fun _ _ => hz.symm)]

theorem prefixSqrtB_eq (h : Assoc f) (b : Nat) (hb : 1 ≤ b) : ∀ (items : List α),
    (prefixSqrtBT f b items).1 = scanl1 f items
  | [] => rfl
  | x :: xs => by
    have h0 : 0 % b = 0 := Nat.zero_mod b
    have hlt : 0 < b := hb
    simp only [prefixSqrtBT, sqrtPass1, h0, ne_eq, not_true_eq_false, if_false, sqrtPass2, hlt, if_true,
      scanl1, Nat.zero_add]
    rw [sqrt_fused h b hb xs 1 x x x (by omega) (fun _ => rfl)
      (by
        intro hb1 hm1
        have : b = 1 := by omega
        rw [this] at hm1; exact absurd rfl hm1)]

theorem sqrtBlock_pos (n : Nat) : 1 ≤ sqrtBlock n := by
  unfold sqrtBlock; exact Nat.le_max_left 1 _

theorem prefixSqrt_eq (h : Assoc f) (items : List α) : prefixSqrt f items = scanl1 f items :=
  prefixSqrtB_eq h _ (sqrtBlock_pos _) items

/-! ### binary ascent -/

/-- lifted combine: `none` is a unit -/
def oplus (f : α → α → α) : Option α → Option α → Option α
  | none, y => y
  | x, none => x
  | some a, some b => some (f a b)

theorem foldl_assoc (h : Assoc f) : ∀ (l : List α) (c b : α), l.foldl f (f c b) = f c (l.foldl f b)
  | [], _, _ => rfl
  | x :: l, c, b => by simp only [List.foldl_cons]; rw [h, foldl_assoc h l]

theorem sumO_append (h : Assoc f) (l1 l2 : List α) : sumO f (l1 ++ l2) = oplus f (sumO f l1) (sumO f l2) := by
  cases l1 with
  | nil => cases l2 <;> rfl
  | cons a l1 =>
    cases l2 with
    | nil => simp [sumO, oplus]
    | cons b l2 => simp [sumO, oplus, List.foldl_append, foldl_assoc h]

/-- the segment `xs[lo..hi)` -/
def seg (xs : List α) (lo hi : Nat) : List α := (xs.drop lo).take (hi - lo)

theorem seg_append (xs : List α) (a b c : Nat) (hab : a ≤ b) (hbc : b ≤ c) :
    seg xs a b ++ seg xs b c = seg xs a c := by
  unfold seg
  have : c - a = (b - a) + (c - b) := by omega
  rw [this, List.take_add, List.drop_drop]
  congr 3
  omega

theorem seg_zero (xs : List α) (k : Nat) : seg xs 0 k = xs.take k := by simp [seg]

theorem scanAux_length : ∀ (xs : List α) (acc : α), (scanAux f acc xs).length = xs.length
  | [], _ => rfl
  | x :: xs, acc => by simp [scanAux, scanAux_length xs]

theorem scanl1_length (xs : List α) : (scanl1 f xs).length = xs.length := by
  cases xs <;> simp [scanl1, scanAux_length]

theorem scanAux_getElem? : ∀ (xs : List α) (acc : α) (i : Nat), i < xs.length →
    (scanAux f acc xs)[i]? = some ((xs.take (i + 1)).foldl f acc)
  | [], _, _, hi => by simp at hi
  | x :: xs, acc, 0, _ => by simp [scanAux]
  | x :: xs, acc, i + 1, hi => by
    simp only [scanAux, List.getElem?_cons_succ, List.take_succ_cons, List.foldl_cons]
    exact scanAux_getElem? xs (f acc x) i (by simpa using hi)

theorem scanl1_getElem? (xs : List α) (i : Nat) (hi : i < xs.length) :
    (scanl1 f xs)[i]? = sumO f (xs.take (i + 1)) := by
  cases xs with
  | nil => simp at hi
  | cons x xs =>
    cases i with
    | zero => simp [scanl1, sumO]
    | succ i =>
      simp only [scanl1, List.getElem?_cons_succ, List.take_succ_cons, sumO]
      exact scanAux_getElem? xs x i (by simpa using hi)

theorem sumO_seg_some (xs : List α) (lo hi : Nat) (h1 : lo < hi) (h2 : hi ≤ xs.length) :
    ∃ v, sumO f (seg xs lo hi) = some v := by
  cases hseg : seg xs lo hi with
  | nil =>
    exfalso
    have : (seg xs lo hi).length = hi - lo := by simp [seg]; omega
    rw [hseg] at this; simp at this; omega
  | cons a l => exact ⟨_, rfl⟩

/-- invariant of `prefix_sums_binary_ascent`: `c[i] = sum(items[max(i - depth + 1, 0) : i + 1])` -/
def WinInv (f : α → α → α) (xs : List α) (d : Nat) (c : List α) : Prop :=
  c.length = xs.length ∧ ∀ i, i < xs.length → c[i]? = sumO f (seg xs (i + 1 - d) (i + 1))

theorem WinInv_init (xs : List α) : WinInv f xs 1 xs := by
  refine ⟨rfl, fun i hi => ?_⟩
  have : seg xs (i + 1 - 1) (i + 1) = [xs[i]] := by
    simp [seg, List.take_one, List.head?_drop, List.getElem?_eq_getElem hi]
  rw [this]; simp [sumO, List.getElem?_eq_getElem hi]

theorem WinInv_step (h : Assoc f) (xs : List α) (d : Nat) (c : List α) (hd : 1 ≤ d) (hlt : d < c.length)
    (inv : WinInv f xs d c) : WinInv f xs (2 * d) (baStep f d c).1 := by
  obtain ⟨hlen, hget⟩ := inv
  refine ⟨?_, fun i hi => ?_⟩
  · simp [baStep]; omega
  · simp only [baStep]
    by_cases hid : i < d
    · rw [List.getElem?_append_left (by simp; omega), List.getElem?_take_of_lt hid, hget i hi]
      congr 2 <;> omega
    · have hi' : i < c.length := by omega
      have hid' : i - d < xs.length := by omega
      rw [List.getElem?_append_right (by simp; omega)]
      simp only [List.length_take, Nat.min_eq_left (Nat.le_of_lt hlt), List.getElem?_zipWith, List.getElem?_drop]
      have e1 : d + (i - d) = i := by omega
      rw [e1, hget i hi, hget (i - d) hid']
      have e2 : i - d + 1 - d = i + 1 - 2 * d := by omega
      have e3 : i - d + 1 = i + 1 - d := by omega
      rw [e2, e3, ← seg_append xs (i + 1 - 2 * d) (i + 1 - d) (i + 1) (by omega) (by omega), sumO_append h]
      obtain ⟨v1, hv1⟩ := sumO_seg_some (f := f) xs (i + 1 - 2 * d) (i + 1 - d) (by omega) (by omega)
      obtain ⟨v2, hv2⟩ := sumO_seg_some (f := f) xs (i + 1 - d) (i + 1) (by omega) (by omega)
      rw [hv1, hv2]; rfl

theorem WinInv_final (xs : List α) (d : Nat) (c : List α) (hd : xs.length ≤ d) (inv : WinInv f xs d c) :
    c = scanl1 f xs := by
  obtain ⟨hlen, hget⟩ := inv
  apply List.ext_getElem?
  intro i
  by_cases hi : i < xs.length
  · rw [hget i hi, scanl1_getElem? xs i hi, ← seg_zero]
    congr 2; omega
  · rw [List.getElem?_eq_none (by omega), List.getElem?_eq_none (by rw [scanl1_length]; omega)]

theorem baLoop_spec (h : Assoc f) (xs : List α) : ∀ (fuel d : Nat) (c : List α), 1 ≤ d → xs.length ≤ d + fuel →
    WinInv f xs d c → (baLoop f fuel d c).1 = scanl1 f xs
  | 0, d, c, _, hf, inv => by
    simp only [baLoop]; exact WinInv_final xs d c (by omega) inv
  | fuel + 1, d, c, hd, hf, inv => by
    unfold baLoop
    split
    · rename_i hlt
      simp only
      exact baLoop_spec h xs fuel (2 * d) _ (by omega) (by omega) (WinInv_step h xs d c hd hlt inv)
    · rename_i hge
      exact WinInv_final xs d c (by have := inv.1; omega) inv

theorem prefixBinaryAscent_eq (h : Assoc f) (items : List α) : prefixBinaryAscent f items = scanl1 f items :=
  baLoop_spec h items _ 1 items (by omega) (by omega) (WinInv_init items)

/-! ### pick -/

theorem pick_eq (h : Assoc f) (level : Level) (n' : Nat) (items : List α) : pick level n' f items = scanl1 f items := by
  unfold pick pickT
  cases level with
  | extreme => exact prefixBinaryAscent_eq h items
  | default =>
    simp only
    split
    · exact prefixSqrt_eq h items
    · exact prefixSegmentTree_eq h items

/-! ### Iterate strategies -/

/-- the sequence of states after each step of the reference loop -/
def stepScan (step : S → I → S) : S → List I → List S
  | _, [] => []
  | s, x :: xs => step s x :: stepScan step (step s x) xs

theorem scanAux_eq_stepScan : ∀ (xs : List α) (s : α), scanAux f s xs = stepScan f s xs
  | [], _ => rfl
  | x :: xs, s => by simp [scanAux, stepScan, scanAux_eq_stepScan xs]

/-- the reference loop, in closed form: final state = fold, output `i` = body(state before step i, input i).1 -/
theorem iterRef_closed (g : S → I → S × O) : ∀ (xs : List I) (s : S),
    iterRef g s xs = (xs.foldl (fun a b => (g a b).1) s,
      List.zipWith (fun p x => (g p x).2) (s :: stepScan (fun a b => (g a b).1) s xs) xs)
  | [], _ => rfl
  | x :: xs, s => by
    simp only [iterRef, iterRef_closed g xs, List.foldl_cons, stepScan, List.zipWith_cons_cons]

theorem stepScan_getLast (step : S → I → S) : ∀ (xs : List I) (s : S),
    (s :: stepScan step s xs).getLast?.getD s = xs.foldl step s
  | [], _ => rfl
  | x :: xs, s => by
    have := stepScan_getLast step xs (step s x)
    simp only [stepScan, List.foldl_cons, List.getLast?_cons_cons]
    cases hl : (step s x :: stepScan step (step s x) xs).getLast? with
    | none => simp at hl
    | some v => rw [hl] at this; simpa using this

theorem stepScan_length (step : S → I → S) : ∀ (xs : List I) (s : S), (stepScan step s xs).length = xs.length
  | [], _ => rfl
  | x :: xs, s => by simp [stepScan, stepScan_length step xs]

theorem all_unit_list {O : Type} (unit : O) (hu : ∀ o : O, o = unit) : ∀ (l : List O), l = List.replicate l.length unit
  | [] => rfl
  | o :: l => by
    rw [List.length_cons, List.replicate_succ, ← all_unit_list unit hu l, hu o]

theorem iterSimpleLoop_spec (g : S → I → S × O) : ∀ (xs : List I) (s : S) (outs : List O),
    iterSimpleLoop g s outs xs = ((iterRef g s xs).1, outs ++ (iterRef g s xs).2)
  | [], _, _ => by simp [iterSimpleLoop, iterRef]
  | x :: xs, s, outs => by
    simp only [iterSimpleLoop, iterRef, iterSimpleLoop_spec g xs, List.append_assoc, List.singleton_append]

/-! ### one-bit state -/

theorem comb1_assoc : Assoc comb1 := by
  intro a b c
  obtain ⟨a0, a1⟩ := a; obtain ⟨b0, b1⟩ := b; obtain ⟨c0, c1⟩ := c
  revert a0 a1 b0 b1 c0 c1; decide

theorem extract1_comb1 (s : Bool) (m1 m2 : Map1) : extract1 s (comb1 m1 m2) = extract1 (extract1 s m1) m2 := by
  obtain ⟨a0, a1⟩ := m1; obtain ⟨b0, b1⟩ := m2
  revert s a0 a1 b0 b1; decide

/-- the 1-bit table of a body for one input -/
def mapOf (g : Bool → I → Bool × O) (x : I) : Map1 := ((g false x).1, (g true x).1)

theorem extract1_mapOf (g : Bool → I → Bool × O) (x : I) (s : Bool) : extract1 s (mapOf g x) = (g s x).1 := by
  cases s <;> simp [extract1, mapOf]

theorem extract1_foldl (g : Bool → I → Bool × O) (s : Bool) : ∀ (xs : List I) (m : Map1),
    extract1 s ((xs.map (mapOf g)).foldl comb1 m) = xs.foldl (fun a b => (g a b).1) (extract1 s m)
  | [], _ => rfl
  | x :: xs, m => by
    simp only [List.map_cons, List.foldl_cons]
    rw [extract1_foldl g s xs, extract1_comb1, extract1_mapOf]

theorem extract1_scanAux (g : Bool → I → Bool × O) (s : Bool) : ∀ (xs : List I) (m : Map1),
    (scanAux comb1 m (xs.map (mapOf g))).map (extract1 s) = stepScan (fun a b => (g a b).1) (extract1 s m) xs
  | [], _ => rfl
  | x :: xs, m => by
    simp only [List.map_cons, scanAux, stepScan]
    rw [extract1_scanAux g s xs, extract1_comb1, extract1_mapOf]

theorem getLast_scanAux (m : α) : ∀ (ms : List α), (m :: scanAux f m ms).getLast? = some (ms.foldl f m)
  | [] => rfl
  | x :: ms => by
    simp only [scanAux, List.foldl_cons, List.getLast?_cons_cons]
    exact getLast_scanAux (f m x) ms

/-! ### small state: transition matrices over GF(2) -/

theorem xsum_single (h : Nat → Bool) (k0 : Nat) : ∀ (N : Nat), k0 < N → xsum N (fun k => (k0 == k) && h k) = h k0
  | 0, hk => by omega
  | N + 1, hk => by
    simp only [xsum]
    by_cases e : k0 = N
    · subst e
      have : xsum k0 (fun k => (k0 == k) && h k) = false := by
        have gen : ∀ M, M ≤ k0 → xsum M (fun k => (k0 == k) && h k) = false := by
          intro M
          induction M with
          | zero => intro _; rfl
          | succ M ih =>
            intro hM
            have hne : (k0 == M) = false := by simp; omega
            simp [xsum, ih (by omega), hne]
        exact gen k0 (Nat.le_refl _)
      simp [this]
    · have hne : (k0 == N) = false := by simp; omega
      rw [xsum_single h k0 N (by omega)]
      simp [hne]

theorem xsum_xor (p q : Nat → Bool) : ∀ (N : Nat), xsum N (fun k => xor (p k) (q k)) = xor (xsum N p) (xsum N q)
  | 0 => rfl
  | N + 1 => by
    simp only [xsum, xsum_xor p q N]
    cases xsum N p <;> cases xsum N q <;> cases p N <;> cases q N <;> rfl

theorem xsum_and_right (g : Nat → Bool) (c : Bool) : ∀ (N : Nat), xsum N (fun k => g k && c) = (xsum N g && c)
  | 0 => by simp [xsum]
  | N + 1 => by
    simp only [xsum, xsum_and_right g c N]
    cases xsum N g <;> cases g N <;> cases c <;> rfl

theorem xsum_and_left (g : Nat → Bool) (c : Bool) : ∀ (N : Nat), xsum N (fun k => c && g k) = (c && xsum N g)
  | 0 => by simp [xsum]
  | N + 1 => by
    simp only [xsum, xsum_and_left g c N]
    cases xsum N g <;> cases g N <;> cases c <;> rfl

theorem xsum_false : ∀ (N : Nat), xsum N (fun _ => false) = false
  | 0 => rfl
  | N + 1 => by simp [xsum, xsum_false N]

theorem xsum_swap (h : Nat → Nat → Bool) (M : Nat) : ∀ (N : Nat),
    xsum N (fun k => xsum M (fun l => h k l)) = xsum M (fun l => xsum N (fun k => h k l))
  | 0 => by simp [xsum, xsum_false]
  | N + 1 => by
    simp only [xsum]
    rw [xsum_swap h M N, ← xsum_xor]

/-- GF(2) matrix product is associative (on arbitrary matrices) -/
theorem matMul_assoc (N : Nat) : Assoc (matMul N) := by
  intro a b c
  funext i j
  simp only [matMul]
  have e1 : (fun k => xsum N (fun l => a i l && b l k) && c k j)
      = (fun k => xsum N (fun l => (a i l && b l k) && c k j)) := by
    funext k; rw [xsum_and_right]
  have e2 : (fun l => a i l && xsum N (fun k => b l k && c k j))
      = (fun l => xsum N (fun k => (a i l && b l k) && c k j)) := by
    funext l; rw [← xsum_and_left]; congr 1; funext k; rw [Bool.and_assoc]
  rw [e1, e2, xsum_swap]

/-- `M` is, on the rows `< N`, the transition matrix of `p` -/
def Rep (N : Nat) (M : Mat) (p : Nat → Nat) : Prop := ∀ i, i < N → ∀ j, M i j = (p i == j)

theorem Rep_ofFun (N : Nat) (p : Nat → Nat) : Rep N (matOfFun p) p := fun _ _ _ => rfl

theorem Rep_mul (N : Nat) (M1 M2 : Mat) (p q : Nat → Nat) (h1 : Rep N M1 p) (h2 : Rep N M2 q)
    (hp : ∀ i, i < N → p i < N) : Rep N (matMul N M1 M2) (fun i => q (p i)) := by
  intro i hi j
  simp only [matMul]
  have e : (fun k => M1 i k && M2 k j) = (fun k => (p i == k) && M2 k j) := by
    funext k; rw [h1 i hi k]
  rw [e, xsum_single (fun k => M2 k j) (p i) N (hp i hi), h2 (p i) (hp i hi) j]

theorem natOfBits_testBit : ∀ (K n : Nat), n < 2 ^ K → natOfBits K (fun b => n.testBit b) = n
  | 0, n, h => by simp at h; simp [natOfBits, h]
  | K + 1, n, h => by
    simp only [natOfBits, Nat.testBit_succ]
    rw [natOfBits_testBit K (n / 2) (by rw [Nat.pow_succ] at h; omega), Nat.testBit_zero]
    by_cases h2 : n % 2 = 1 <;> simp [h2] <;> omega

theorem extractS_Rep (K : Nat) (M : Mat) (p : Nat → Nat) (s : Nat) (h : Rep (2 ^ K) M p) (hs : s < 2 ^ K)
    (hps : p s < 2 ^ K) : extractS K s M = p s := by
  unfold extractS
  have e1 : vecMul (2 ^ K) (oneHot s) M = oneHot (p s) := by
    funext j
    simp only [vecMul, oneHot]
    rw [xsum_single (fun k => M k j) s _ hs, h s hs j]
  have e2 : decodeBit (2 ^ K) (oneHot (p s)) = fun b => (p s).testBit b := by
    funext b
    simp only [decodeBit, oneHot]
    exact xsum_single (fun j => j.testBit b) (p s) _ hps
  rw [e1, e2, natOfBits_testBit K _ hps]

/-- transition matrix of a body for one input -/
def matOf (g : Nat → I → Nat × O) (x : I) : Mat := matOfFun (fun st => (g st x).1)

theorem extractS_foldl (K : Nat) (g : Nat → I → Nat × O) (hg : ∀ st x, st < 2 ^ K → (g st x).1 < 2 ^ K)
    (s : Nat) (hs : s < 2 ^ K) : ∀ (xs : List I) (M : Mat) (p : Nat → Nat), Rep (2 ^ K) M p →
    (∀ i, i < 2 ^ K → p i < 2 ^ K) →
    extractS K s ((xs.map (matOf g)).foldl (matMul (2 ^ K)) M) = xs.foldl (fun a b => (g a b).1) (p s)
  | [], M, p, hM, hp => by simpa using extractS_Rep K M p s hM hs (hp s hs)
  | x :: xs, M, p, hM, hp => by
    simp only [List.map_cons, List.foldl_cons]
    exact extractS_foldl K g hg s hs xs _ (fun i => (g (p i) x).1)
      (Rep_mul _ M (matOf g x) p _ hM (Rep_ofFun _ _) hp) (fun i hi => hg _ x (hp i hi))

theorem extractS_scanAux (K : Nat) (g : Nat → I → Nat × O) (hg : ∀ st x, st < 2 ^ K → (g st x).1 < 2 ^ K)
    (s : Nat) (hs : s < 2 ^ K) : ∀ (xs : List I) (M : Mat) (p : Nat → Nat), Rep (2 ^ K) M p →
    (∀ i, i < 2 ^ K → p i < 2 ^ K) →
    (scanAux (matMul (2 ^ K)) M (xs.map (matOf g))).map (extractS K s)
      = stepScan (fun a b => (g a b).1) (p s) xs
  | [], _, _, _, _ => rfl
  | x :: xs, M, p, hM, hp => by
    have hM' := Rep_mul _ M (matOf g x) p _ hM (Rep_ofFun _ (fun st => (g st x).1)) hp
    have hp' : ∀ i, i < 2 ^ K → (g (p i) x).1 < 2 ^ K := fun i hi => hg _ x (hp i hi)
    simp only [List.map_cons, scanAux, stepScan]
    rw [extractS_scanAux K g hg s hs xs _ (fun i => (g (p i) x).1) hM' hp',
      extractS_Rep K _ (fun i => (g (p i) x).1) s hM' hs (hp' s hs)]

end CCV.Inline
