import CCV.Model.OpsExt
import CCV.Lemmas.OpsPerm
/-!
  `CuckooHash` (`evaluate_cuckoo`): placement invariant of the insertion loop with evictions.
  On success every inserted string index sits in exactly one cell of the window of its set in the flat table, that cell
  is one of its hash positions (the one of the recorded hash function), and every other cell holds
  the sentinel `CUCKOO_DUMMY_ELEMENT`.
-/
namespace CCV.Ops
open CCV CCV.Shape

/-- placement invariant of the window `W` (the cells of one set) of the flat table of `L` cells:
    `S` = the set of string indices that are in the window; `hashAt f i` = cell of string `i` under `f` -/
structure CuckooInv (hashAt : Nat → Nat → Nat) (h : Nat) (W : Nat → Prop) (L : Nat) (S : Nat → Prop) (table used : List Nat) : Prop where
  lenT : table.length = L
  lenU : used.length = L
  win : ∀ c, W c → c < L
  cell : ∀ c, W c → table.getD c 0 ≠ cuckooDummy →
    S (table.getD c 0) ∧ used.getD c 0 < h ∧ hashAt (used.getD c 0) (table.getD c 0) = c
  mem : ∀ i, S i → ∃ c, W c ∧ table.getD c 0 = i
  inj : ∀ c c', W c → W c' → table.getD c 0 = table.getD c' 0 → table.getD c 0 ≠ cuckooDummy → c = c'

theorem CuckooInv.congr {hashAt : Nat → Nat → Nat} {h : Nat} {W : Nat → Prop} {L : Nat} {S S' : Nat → Prop} {table used : List Nat}
    (hi : CuckooInv hashAt h W L S table used) (hS : ∀ i, S i ↔ S' i) : CuckooInv hashAt h W L S' table used :=
  ⟨hi.lenT, hi.lenU, hi.win, fun c hc hd => ⟨(hS _).mp (hi.cell c hc hd).1, (hi.cell c hc hd).2⟩,
    fun i hi' => hi.mem i ((hS i).mpr hi'), hi.inj⟩

/-- writing the floating element `cur` (not in the table) into its hash cell `ri`:
    the invariant holds for everything that was in the table or is `cur`, except the evicted
    occupant of the cell -/
theorem cuckoo_write (hashAt : Nat → Nat → Nat) (h : Nat) (W : Nat → Prop) (L : Nat) (S : Nat → Prop) (table used : List Nat)
    (cur f : Nat) (hSd : ∀ i, S i → i ≠ cuckooDummy) (hcur : S cur) (hf : f < h) (hri : W (hashAt f cur))
    (hinv : CuckooInv hashAt h W L (fun i => S i ∧ i ≠ cur) table used) :
    CuckooInv hashAt h W L (fun i => S i ∧ (table.getD (hashAt f cur) 0 = cuckooDummy ∨ i ≠ table.getD (hashAt f cur) 0))
      (table.set (hashAt f cur) cur) (used.set (hashAt f cur) f) := by
  have hcd : cur ≠ cuckooDummy := hSd cur hcur
  generalize hr : hashAt f cur = ri at hri ⊢
  have hrT : ri < table.length := by rw [hinv.lenT]; exact hinv.win ri hri
  have hrU : ri < used.length := by rw [hinv.lenU]; exact hinv.win ri hri
  have hself : (table.set ri cur).getD ri 0 = cur := getD_set_self table ri cur hrT
  have hne : ∀ c, c ≠ ri → (table.set ri cur).getD c 0 = table.getD c 0 :=
    fun c hc => getD_set_ne table ri c cur (fun e => hc e.symm)
  have huself : (used.set ri f).getD ri 0 = f := getD_set_self used ri f hrU
  have hune : ∀ c, c ≠ ri → (used.set ri f).getD c 0 = used.getD c 0 :=
    fun c hc => getD_set_ne used ri c f (fun e => hc e.symm)
  refine ⟨by rw [List.length_set]; exact hinv.lenT, by rw [List.length_set]; exact hinv.lenU, hinv.win, ?_, ?_, ?_⟩
  · intro c hc hd
    by_cases hcr : c = ri
    · subst hcr
      rw [hself, huself]
      refine ⟨⟨hcur, ?_⟩, hf, hr⟩
      by_cases hdum : table.getD c 0 = cuckooDummy
      · exact Or.inl hdum
      · exact Or.inr (fun e => (hinv.cell c hc hdum).1.2 e.symm)
    · rw [hne c hcr] at hd ⊢
      rw [hune c hcr]
      have hcell := hinv.cell c hc hd
      refine ⟨⟨hcell.1.1, ?_⟩, hcell.2⟩
      by_cases hdum : table.getD ri 0 = cuckooDummy
      · exact Or.inl hdum
      · exact Or.inr (fun e => hcr (hinv.inj c ri hc hri e hd))
  · intro i ⟨hSi, hio⟩
    by_cases hic : i = cur
    · exact ⟨ri, hri, by rw [hself, hic]⟩
    · obtain ⟨c, hc, hci⟩ := hinv.mem i ⟨hSi, hic⟩
      have hcr : c ≠ ri := by
        intro e
        subst e
        rcases hio with hd | hn
        · exact hSd i hSi (by rw [← hci, hd])
        · exact hn hci.symm
      exact ⟨c, hc, by rw [hne c hcr, hci]⟩
  · intro c c' hc hc' heq hd
    by_cases hcr : c = ri
    · by_cases hcr' : c' = ri
      · rw [hcr, hcr']
      · subst hcr
        rw [hself, hne c' hcr'] at heq
        have := hinv.cell c' hc' (by rw [← heq]; exact hcd)
        exact absurd heq.symm this.1.2
    · by_cases hcr' : c' = ri
      · subst hcr'
        rw [hself, hne c hcr] at heq
        have := hinv.cell c hc (by rw [heq]; exact hcd)
        exact absurd heq this.1.2
      · rw [hne c hcr] at heq hd
        rw [hne c' hcr'] at heq
        exact hinv.inj c c' hc hc' heq hd

/-- the eviction loop: if it succeeds, the floating element has found its place -/
theorem cuckooInsert_inv (hashAt : Nat → Nat → Nat) (h : Nat) (W : Nat → Prop) (L : Nat) (hh : 0 < h) (hT : ∀ f i, W (hashAt f i))
    (S : Nat → Prop) (hSd : ∀ i, S i → i ≠ cuckooDummy) (fuel : Nat) :
    ∀ (cur f : Nat) (table used table' used' : List Nat), S cur → f < h →
      CuckooInv hashAt h W L (fun i => S i ∧ i ≠ cur) table used →
      cuckooInsert hashAt h fuel cur f (table, used) = some (table', used') →
      CuckooInv hashAt h W L S table' used' := by
  induction fuel with
  | zero => intro cur f table used table' used' _ _ _ hres; simp [cuckooInsert] at hres
  | succ fuel ih =>
    intro cur f table used table' used' hcur hf hinv hres
    have hw := cuckoo_write hashAt h W L S table used cur f hSd hcur hf (hT f cur) hinv
    unfold cuckooInsert at hres
    simp only [] at hres
    by_cases hd : table.getD (hashAt f cur) 0 = cuckooDummy
    · rw [if_pos hd] at hres
      simp only [Option.some.injEq, Prod.mk.injEq] at hres
      rw [← hres.1, ← hres.2]
      exact hw.congr (fun i => ⟨fun hi => hi.1, fun hi => ⟨hi, Or.inl hd⟩⟩)
    · rw [if_neg hd] at hres
      have hcell := hinv.cell _ (hT f cur) hd
      refine ih (table.getD (hashAt f cur) 0) ((used.getD (hashAt f cur) 0 + 1) % h) _ _ table' used'
        hcell.1.1 (Nat.mod_lt _ hh) ?_ hres
      exact hw.congr (fun i => ⟨fun hi => ⟨hi.1, hi.2.resolve_left hd⟩, fun hi => ⟨hi.1, Or.inr hi.2⟩⟩)

theorem getD_replicate_dummy (T c : Nat) : c < T → (List.replicate T cuckooDummy).getD c 0 = cuckooDummy := by
  intro hc
  simp [List.getD_eq_getElem?_getD, hc]

theorem foldlM_range_succ_some {σ : Type} (f : σ → Nat → Option σ) (init r : σ) (k : Nat)
    (h : (List.range (k + 1)).foldlM f init = some r) :
    ∃ s, (List.range k).foldlM f init = some s ∧ f s k = some r := by
  rw [List.range_succ, List.foldlM_append] at h
  cases hs : (List.range k).foldlM f init with
  | none => rw [hs] at h; simp at h
  | some s =>
    rw [hs] at h
    refine ⟨s, rfl, ?_⟩
    simpa [List.foldlM_cons, List.foldlM_nil] using h

/-! ### the hash index stays inside the table -/

theorem foldl_inv {α β : Type} (P : β → Prop) (f : β → α → β) (l : List α) (init : β) (h0 : P init)
    (hstep : ∀ b a, a ∈ l → P b → P (f b a)) : P (l.foldl f init) := by
  induction l generalizing init with
  | nil => exact h0
  | cons a l ih =>
    exact ih (f init a) (hstep init a List.mem_cons_self h0)
      (fun b a' ha' hb => hstep b a' (List.mem_cons_of_mem _ ha') hb)

theorem getD_lt_two (str : List Nat) (hs : ∀ x ∈ str, x < 2) (c : Nat) : str.getD c 0 < 2 := by
  rw [List.getD_eq_getElem?_getD]
  cases hc : str[c]? with
  | none => simp
  | some v => simpa using hs v (List.mem_of_getElem? hc)

theorem hashBit_lt (hm : List Nat) (off : Nat) (str : List Nat) (cols : Nat) (hs : ∀ x ∈ str, x < 2) :
    hashBit hm off str cols < 2 := by
  unfold hashBit
  apply foldl_inv (fun b => b < 2)
  · decide
  · intro b c _ hb
    have h1 : hm.getD (off + c) 0 &&& str.getD c 0 < 2 :=
      Nat.lt_of_le_of_lt Nat.and_le_right (getD_lt_two str hs c)
    exact Nat.xor_lt_two_pow (n := 1) hb h1

theorem hashIndex_lt (hm : List Nat) (rows cols f : Nat) (str : List Nat) (hs : ∀ x ∈ str, x < 2) :
    hashIndex hm rows cols f str < 2 ^ rows := by
  unfold hashIndex
  apply foldl_inv (fun b => b < 2 ^ rows)
  · exact Nat.pow_pos (by decide)
  · intro b row hrow hb
    have hr : row < rows := List.mem_range.mp hrow
    have h1 := hashBit_lt hm (rows * cols * f + row * cols) str cols hs
    have h2 : hashBit hm (rows * cols * f + row * cols) str cols <<< row < 2 ^ rows := by
      rw [Nat.shiftLeft_eq]
      have hp : 2 ^ (row + 1) ≤ 2 ^ rows := Nat.pow_le_pow_right (by decide) hr
      have : hashBit hm (rows * cols * f + row * cols) str cols * 2 ^ row ≤ 1 * 2 ^ row :=
        Nat.mul_le_mul_right _ (by omega)
      rw [Nat.pow_succ] at hp
      omega
    exact Nat.xor_lt_two_pow hb h2

theorem slice_lt_two (l : List Nat) (a n : Nat) (hl : ∀ x ∈ l, x < 2) : ∀ x ∈ slice l a n, x < 2 := by
  intro x hx
  exact hl x (List.mem_of_mem_drop (List.mem_of_mem_take hx))

/-! ### helper for `mapM` in `Option` -/

theorem mapM_option_some {α β : Type} (g : α → Option β) :
    ∀ (l : List α) (r : List β), l.mapM g = some r →
      r.length = l.length ∧ ∀ i, i < l.length → ∃ a y, l[i]? = some a ∧ g a = some y ∧ r[i]? = some y := by
  intro l
  induction l with
  | nil =>
    intro r h
    simp only [List.mapM_nil] at h
    have := Option.some.inj h
    subst this
    exact ⟨rfl, fun i hi => absurd hi (Nat.not_lt_zero i)⟩
  | cons a l ih =>
    intro r h
    rw [List.mapM_cons] at h
    cases hga : g a with
    | none => rw [hga] at h; simp at h
    | some y =>
      cases hl : l.mapM g with
      | none => rw [hga, hl] at h; simp at h
      | some ys =>
        rw [hga, hl] at h
        have hr : r = y :: ys := by simpa using h.symm
        subst hr
        obtain ⟨hlen, hval⟩ := ih ys hl
        refine ⟨by simp [hlen], ?_⟩
        intro i hi
        cases i with
        | zero => exact ⟨a, y, rfl, hga, rfl⟩
        | succ i =>
          obtain ⟨a', y', h1, h2, h3⟩ := hval i (by simpa using hi)
          exact ⟨a', y', by simpa using h1, h2, by simpa using h3⟩

/-! ### all strings of a set, all sets -/

/-- the invariant of a window only reads the cells of the window -/
theorem CuckooInv.frame {hashAt : Nat → Nat → Nat} {h : Nat} {W : Nat → Prop} {L : Nat} {S : Nat → Prop}
    {table used table' used' : List Nat} (hi : CuckooInv hashAt h W L S table used)
    (hlT : table'.length = L) (hlU : used'.length = L)
    (hag : ∀ c, W c → table'.getD c 0 = table.getD c 0 ∧ used'.getD c 0 = used.getD c 0) :
    CuckooInv hashAt h W L S table' used' := by
  refine ⟨hlT, hlU, hi.win, ?_, ?_, ?_⟩
  · intro c hc hd
    rw [(hag c hc).1] at hd ⊢
    rw [(hag c hc).2]
    exact hi.cell c hc hd
  · intro i hSi
    obtain ⟨c, hc, hci⟩ := hi.mem i hSi
    exact ⟨c, hc, by rw [(hag c hc).1, hci]⟩
  · intro c c' hc hc' heq hd
    rw [(hag c hc).1] at heq hd
    rw [(hag c' hc').1] at heq
    exact hi.inj c c' hc hc' heq hd

/-- the eviction loop writes only into hash cells -/
theorem cuckooInsert_frame (hashAt : Nat → Nat → Nat) (h : Nat) (P : Nat → Prop) (hP : ∀ f i, P (hashAt f i))
    (fuel : Nat) : ∀ (cur f : Nat) (table used table' used' : List Nat),
      cuckooInsert hashAt h fuel cur f (table, used) = some (table', used') →
      table'.length = table.length ∧ used'.length = used.length ∧
      ∀ c, ¬ P c → table'.getD c 0 = table.getD c 0 ∧ used'.getD c 0 = used.getD c 0 := by
  induction fuel with
  | zero => intro cur f table used table' used' hres; simp [cuckooInsert] at hres
  | succ fuel ih =>
    intro cur f table used table' used' hres
    have hset : ∀ c, ¬ P c → (table.set (hashAt f cur) cur).getD c 0 = table.getD c 0 ∧
        (used.set (hashAt f cur) f).getD c 0 = used.getD c 0 := by
      intro c hc
      have hne : hashAt f cur ≠ c := fun e => hc (e ▸ hP f cur)
      exact ⟨getD_set_ne table _ c cur hne, getD_set_ne used _ c f hne⟩
    unfold cuckooInsert at hres
    simp only [] at hres
    by_cases hd : table.getD (hashAt f cur) 0 = cuckooDummy
    · rw [if_pos hd] at hres
      simp only [Option.some.injEq, Prod.mk.injEq] at hres
      rw [← hres.1, ← hres.2]
      exact ⟨List.length_set, List.length_set, hset⟩
    · rw [if_neg hd] at hres
      obtain ⟨h1, h2, h3⟩ := ih _ _ _ _ table' used' hres
      refine ⟨by rw [h1, List.length_set], by rw [h2, List.length_set], ?_⟩
      intro c hc
      exact ⟨by rw [(h3 c hc).1, (hset c hc).1], by rw [(h3 c hc).2, (hset c hc).2]⟩

/-- strings `0..k-1` of one set inserted into a window that was empty -/
theorem cuckooWindow_prefix (hashAt : Nat → Nat → Nat) (h : Nat) (W : Nat → Prop) (L : Nat) (hh : 0 < h)
    (hT : ∀ f i, W (hashAt f i)) (hW : ∀ c, W c → c < L) (t0 u0 : List Nat) (hl0 : t0.length = L)
    (hu0 : u0.length = L) (hempty : ∀ c, W c → t0.getD c 0 = cuckooDummy)
    (k : Nat) (hk : k ≤ cuckooDummy) (table used : List Nat)
    (hres : (List.range k).foldlM (fun s i => cuckooInsert hashAt h 100 i 0 s) (t0, u0) = some (table, used)) :
    CuckooInv hashAt h W L (· < k) table used ∧
    ∀ c, ¬ W c → table.getD c 0 = t0.getD c 0 ∧ used.getD c 0 = u0.getD c 0 := by
  induction k generalizing table used with
  | zero =>
    simp only [List.range_zero, List.foldlM_nil] at hres
    have hres' := Option.some.inj hres
    simp only [Prod.mk.injEq] at hres'
    rw [← hres'.1, ← hres'.2]
    refine ⟨⟨hl0, hu0, hW, ?_, ?_, ?_⟩, fun c _ => ⟨rfl, rfl⟩⟩
    · intro c hc hd; exact absurd (hempty c hc) hd
    · intro i hi; omega
    · intro c c' hc _ _ hd; exact absurd (hempty c hc) hd
  | succ k ih =>
    obtain ⟨⟨t1, u1⟩, hs, hstep⟩ := foldlM_range_succ_some _ _ _ k hres
    obtain ⟨hprev, hfr⟩ := ih (by omega) t1 u1 hs
    refine ⟨?_, ?_⟩
    · refine cuckooInsert_inv hashAt h W L hh hT (· < k + 1) (fun i hi => by omega) 100 k 0 t1 u1 table used
        (Nat.lt_succ_self k) hh ?_ hstep
      exact hprev.congr (fun i => by constructor <;> intro hi <;> omega)
    · intro c hc
      obtain ⟨_, _, h3⟩ := cuckooInsert_frame hashAt h W hT 100 k 0 t1 u1 table used hstep
      exact ⟨by rw [(h3 c hc).1, (hfr c hc).1], by rw [(h3 c hc).2, (hfr c hc).2]⟩

/-- the window of set `s` in the flat table -/
def win (T s : Nat) (c : Nat) : Prop := s * T ≤ c ∧ c < s * T + T

theorem win_lt (T numSets s c : Nat) (hs : s < numSets) (hc : win T s c) : c < numSets * T := by
  have := Nat.mul_le_mul_right T (Nat.succ_le_of_lt hs)
  rw [Nat.succ_mul] at this
  exact Nat.lt_of_lt_of_le hc.2 this

theorem win_disjoint (T s s' c : Nat) (hss : s < s') (hc : win T s c) : ¬ win T s' c := by
  intro hc'
  have := Nat.mul_le_mul_right T (Nat.succ_le_of_lt hss)
  rw [Nat.succ_mul] at this
  have h1 := hc.2
  have h2 := hc'.1
  omega

/-- the sets one after the other -/
theorem cuckooSets_prefix (hashOf : Nat → Nat → Nat → Nat) (h T numSets n : Nat) (hh : 0 < h)
    (hT : ∀ s f i, hashOf s f i < T) (hn : n ≤ cuckooDummy) (k : Nat) (hk : k ≤ numSets)
    (table used : List Nat)
    (hres : (List.range k).foldlM (fun st s =>
        (List.range n).foldlM (fun st i => cuckooInsert (fun f j => s * T + hashOf s f j) h 100 i 0 st) st)
        (List.replicate (numSets * T) cuckooDummy, List.replicate (numSets * T) cuckooDummy) = some (table, used)) :
    table.length = numSets * T ∧ used.length = numSets * T ∧
    (∀ s, s < k → CuckooInv (fun f j => s * T + hashOf s f j) h (win T s) (numSets * T) (· < n) table used) ∧
    (∀ c, k * T ≤ c → c < numSets * T → table.getD c 0 = cuckooDummy) := by
  induction k generalizing table used with
  | zero =>
    simp only [List.range_zero, List.foldlM_nil] at hres
    have hres' := Option.some.inj hres
    simp only [Prod.mk.injEq] at hres'
    rw [← hres'.1, ← hres'.2]
    refine ⟨by simp, by simp, fun s hs => absurd hs (Nat.not_lt_zero s), ?_⟩
    intro c _ hc
    exact getD_replicate_dummy _ c hc
  | succ k ih =>
    obtain ⟨⟨t1, u1⟩, hs, hstep⟩ := foldlM_range_succ_some _ _ _ k hres
    obtain ⟨hl1, hu1, hinv1, hd1⟩ := ih (by omega) t1 u1 hs
    have hklt : k < numSets := by omega
    obtain ⟨hnew, hfr⟩ := cuckooWindow_prefix (fun f j => k * T + hashOf k f j) h (win T k) (numSets * T) hh
      (fun f i => ⟨Nat.le_add_right _ _, Nat.add_lt_add_left (hT k f i) _⟩)
      (fun c hc => win_lt T numSets k c hklt hc) t1 u1 hl1 hu1 (fun c hc => hd1 c hc.1 (win_lt T numSets k c hklt hc)) n hn table used hstep
    refine ⟨hnew.lenT, hnew.lenU, ?_, ?_⟩
    · intro s hs'
      by_cases hsk : s = k
      · subst hsk; exact hnew
      · have hslt : s < k := by omega
        exact (hinv1 s hslt).frame hnew.lenT hnew.lenU (fun c hc => hfr c (win_disjoint T s k c hslt hc))
    · intro c hc hcl
      have hnw : ¬ win T k c := by
        intro hw
        have := hw.2
        rw [Nat.succ_mul] at hc
        omega
      rw [(hfr c hnw).1]
      apply hd1 c _ hcl
      rw [Nat.succ_mul] at hc
      omega

/-- **CuckooHash, placement (flat table)** -/
theorem cuckooHash_inv (inputBits hm : List Nat) (numSets n b h rows cols : Nat) (hh : 0 < h)
    (hbits : ∀ x ∈ inputBits, x < 2) (hn : n < 2 ^ 64) (r : List Nat)
    (hres : cuckooHash inputBits hm numSets n b h rows cols = .ok r) :
    r.length = numSets * 2 ^ rows ∧ ∀ s, s < numSets → ∃ used,
      CuckooInv (fun f j => s * 2 ^ rows + cuckooHashAt inputBits hm n b rows cols s f j) h (win (2 ^ rows) s)
        (numSets * 2 ^ rows) (· < n) r used := by
  unfold cuckooHash at hres
  split at hres
  · cases hres
  · rename_i table used heq
    have hr : r = table := by cases hres; rfl
    subst hr
    obtain ⟨hl, _, hinv, _⟩ := cuckooSets_prefix (fun s f j => cuckooHashAt inputBits hm n b rows cols s f j) h (2 ^ rows)
      numSets n hh (fun s f i => hashIndex_lt hm rows cols f _ (slice_lt_two inputBits _ _ hbits))
      (by unfold cuckooDummy; omega) numSets (Nat.le_refl _) r used heq
    exact ⟨hl, fun s hs => ⟨used, hinv s hs⟩⟩


example : cuckooHash [0, 1, 1, 0, 1, 1] [1, 0, 0, 1, 1, 1, 0, 1, 1, 1, 1, 0] 1 3 2 3 2 2
    = .ok [2 ^ 64 - 1, 1, 0, 2] := by rfl

end CCV.Ops
