import Mathlib.Tactic.Abel
import Mathlib.Algebra.Group.Basic
/-
  The mask ("pivot") discipline and its soundness, for every additive commutative group.

  A party receives messages `m₁ … mₙ` (listed here LAST FIRST).  Each message is a function of the
  secrets `x : X` and of the tape `ρ : ℕ → R` of mask values the party does not know.
  The discipline: every message has a *pivot* mask that enters it additively with coefficient ±1
  (`Shift`), and no EARLIER message depends on that pivot (`IndepOf`).  Older masks may enter a
  message in any way, linear or not.
  Soundness (`exists_sim`): for any two secret vectors there is a bijection of tapes that aligns all
  messages and moves only pivot coordinates.
-/
set_option linter.unusedSectionVars false
namespace CCV.Pivot
variable {R X : Type} [AddCommGroup R]

/-- update one coordinate of a tape -/
def upd (ρ : Nat → R) (v : Nat) (a : R) : Nat → R := fun w => if w = v then a else ρ w

@[simp] theorem upd_same (ρ : Nat → R) (v : Nat) (a : R) : upd ρ v a v = a := by simp [upd]

theorem upd_other (ρ : Nat → R) {v w : Nat} (a : R) (h : w ≠ v) : upd ρ v a w = ρ w := by
  simp [upd, h]

theorem upd_comm (ρ : Nat → R) {u v : Nat} (a b : R) (h : u ≠ v) :
    upd (upd ρ u a) v b = upd (upd ρ v b) u a := by
  funext w
  by_cases h1 : w = v
  · subst h1; simp [upd, Ne.symm h]
  · by_cases h2 : w = u
    · subst h2; simp [upd, h]
    · simp [upd, h1, h2]

@[simp] theorem upd_upd (ρ : Nat → R) (v : Nat) (a b : R) : upd (upd ρ v a) v b = upd ρ v b := by
  funext w; by_cases h : w = v <;> simp [upd, h]

@[simp] theorem upd_self (ρ : Nat → R) (v : Nat) : upd ρ v (ρ v) = ρ := by
  funext w; by_cases h : w = v <;> simp [upd, h]

structure Msg (X R : Type) where
  f : X → (Nat → R) → R
  piv : Nat
  neg : Bool

/-- coefficient +1 or −1 -/
def sg (b : Bool) (c : R) : R := if b then -c else c

@[simp] theorem sg_sg (b : Bool) (c : R) : sg b (sg b c) = c := by cases b <;> simp [sg]
theorem sg_add (b : Bool) (c d : R) : sg b (c + d) = sg b c + sg b d := by
  cases b <;> simp [sg]; abel
theorem sg_sub (b : Bool) (c d : R) : sg b (c - d) = sg b c - sg b d := by
  cases b <;> simp [sg]; abel
@[simp] theorem sg_zero (b : Bool) : sg b (0 : R) = 0 := by cases b <;> simp [sg]

/-- the message does not depend on coordinate `u` of the tape -/
def IndepOf (m : Msg X R) (u : Nat) : Prop := ∀ x ρ a, m.f x (upd ρ u a) = m.f x ρ

/-- the pivot enters the message additively with coefficient ±1 -/
def Shift (m : Msg X R) : Prop :=
  ∀ x ρ a, m.f x (upd ρ m.piv a) = m.f x ρ + sg m.neg (a - ρ m.piv)

/-- the discipline, messages listed LAST FIRST -/
inductive Disc : List (Msg X R) → Prop
  | nil : Disc []
  | cons (m : Msg X R) (rest : List (Msg X R)) :
      Shift m → (∀ m' ∈ rest, IndepOf m' m.piv ∧ m'.piv ≠ m.piv) → Disc rest → Disc (m :: rest)

/-- a simulation: mutually inverse tape maps aligning all messages, touching only pivots, and
    commuting with updates of coordinates nothing depends on -/
structure Sim (msgs : List (Msg X R)) (x x' : X) (σ τ : (Nat → R) → (Nat → R)) : Prop where
  left : ∀ ρ, τ (σ ρ) = ρ
  right : ∀ ρ, σ (τ ρ) = ρ
  align : ∀ ρ, ∀ m ∈ msgs, m.f x ρ = m.f x' (σ ρ)
  fixσ : ∀ ρ v, (∀ m ∈ msgs, v ≠ m.piv) → σ ρ v = ρ v
  fixτ : ∀ ρ v, (∀ m ∈ msgs, v ≠ m.piv) → τ ρ v = ρ v
  commσ : ∀ u, (∀ m ∈ msgs, u ≠ m.piv ∧ IndepOf m u) → ∀ ρ a, σ (upd ρ u a) = upd (σ ρ) u a
  commτ : ∀ u, (∀ m ∈ msgs, u ≠ m.piv ∧ IndepOf m u) → ∀ ρ a, τ (upd ρ u a) = upd (τ ρ) u a

theorem shift_zero (m : Msg X R) (h : Shift m) (x : X) (ρ : Nat → R) :
    m.f x ρ = m.f x (upd ρ m.piv 0) + sg m.neg (ρ m.piv) := by
  have := h x (upd ρ m.piv 0) (ρ m.piv)
  simp only [upd_upd, upd_self, upd_same, sub_zero] at this
  exact this

theorem exists_sim : ∀ (msgs : List (Msg X R)), Disc msgs → ∀ x x' : X,
    ∃ σ τ : (Nat → R) → (Nat → R), Sim msgs x x' σ τ
  | [], _, x, x' =>
    ⟨id, id, ⟨fun _ => rfl, fun _ => rfl, fun _ m hm => absurd hm (by simp), fun _ _ _ => rfl,
      fun _ _ _ => rfl, fun _ _ _ _ => rfl, fun _ _ _ _ => rfl⟩⟩
  | m :: rest, .cons _ _ hs hind hrest, x, x' => by
    obtain ⟨σ0, τ0, S⟩ := exists_sim rest hrest x x'
    -- facts about the new pivot p
    have hp : ∀ m' ∈ rest, m.piv ≠ m'.piv ∧ IndepOf m' m.piv :=
      fun m' hm' => ⟨fun h => (hind m' hm').2 h.symm, (hind m' hm').1⟩
    have hpne : ∀ m' ∈ rest, m.piv ≠ m'.piv := fun m' hm' => (hp m' hm').1
    -- difference of the new message on tapes with the pivot coordinate zeroed
    let D : (Nat → R) → (Nat → R) → R := fun r t => sg m.neg (m.f x r - m.f x' t)
    let σ : (Nat → R) → (Nat → R) := fun ρ =>
      upd (σ0 ρ) m.piv (σ0 ρ m.piv + D ρ (σ0 ρ))
    let τ : (Nat → R) → (Nat → R) := fun ρ' =>
      upd (τ0 (upd ρ' m.piv 0)) m.piv (ρ' m.piv - D (τ0 (upd ρ' m.piv 0)) (upd ρ' m.piv 0))
    -- D does not see the pivot coordinate of its arguments as long as both carry the same value there
    have hD : ∀ (r t : Nat → R), r m.piv = t m.piv →
        D r t = D (upd r m.piv 0) (upd t m.piv 0) := by
      intro r t h
      show sg m.neg (m.f x r - m.f x' t) = sg m.neg (m.f x (upd r m.piv 0) - m.f x' (upd t m.piv 0))
      rw [shift_zero m hs x r, shift_zero m hs x' t, h]
      congr 1; abel
    have hσ0p : ∀ ρ, σ0 ρ m.piv = ρ m.piv := fun ρ => S.fixσ ρ _ hpne
    have hτ0p : ∀ ρ, τ0 ρ m.piv = ρ m.piv := fun ρ => S.fixτ ρ _ hpne
    have hcσ : ∀ ρ a, σ0 (upd ρ m.piv a) = upd (σ0 ρ) m.piv a := S.commσ _ hp
    have hcτ : ∀ ρ a, τ0 (upd ρ m.piv a) = upd (τ0 ρ) m.piv a := S.commτ _ hp
    refine ⟨σ, τ, ⟨?_, ?_, ?_, ?_, ?_, ?_, ?_⟩⟩
    · -- left inverse
      intro ρ
      show upd (τ0 (upd (σ ρ) m.piv 0)) m.piv
          ((σ ρ) m.piv - D (τ0 (upd (σ ρ) m.piv 0)) (upd (σ ρ) m.piv 0)) = ρ
      have e1 : upd (σ ρ) m.piv 0 = σ0 (upd ρ m.piv 0) := by
        show upd (upd (σ0 ρ) m.piv _) m.piv 0 = _
        rw [upd_upd, hcσ]
      have e2 : τ0 (upd (σ ρ) m.piv 0) = upd ρ m.piv 0 := by rw [e1, S.left]
      have e3 : (σ ρ) m.piv = ρ m.piv + D ρ (σ0 ρ) := by
        show upd (σ0 ρ) m.piv _ m.piv = _
        rw [upd_same, hσ0p]
      have e4 : D ρ (σ0 ρ) = D (upd ρ m.piv 0) (σ0 (upd ρ m.piv 0)) := by
        rw [hD ρ (σ0 ρ) (hσ0p ρ).symm, hcσ]
      rw [e2, e3, e1, e4]
      have : ρ m.piv + D (upd ρ m.piv 0) (σ0 (upd ρ m.piv 0)) - D (upd ρ m.piv 0) (σ0 (upd ρ m.piv 0)) = ρ m.piv := by
        abel
      rw [this, upd_upd, upd_self]
    · -- right inverse
      intro ρ'
      let r0 := τ0 (upd ρ' m.piv 0)
      have hr0 : σ0 r0 = upd ρ' m.piv 0 := S.right _
      have hr0p : r0 m.piv = 0 := by
        show τ0 (upd ρ' m.piv 0) m.piv = 0
        rw [hτ0p, upd_same]
      let r := upd r0 m.piv (ρ' m.piv - D r0 (upd ρ' m.piv 0))
      show upd (σ0 r) m.piv (σ0 r m.piv + D r (σ0 r)) = ρ'
      have e1 : σ0 r = upd (upd ρ' m.piv 0) m.piv (ρ' m.piv - D r0 (upd ρ' m.piv 0)) := by
        show σ0 (upd r0 m.piv _) = _
        rw [hcσ, hr0]
      have e1' : σ0 r = upd ρ' m.piv (ρ' m.piv - D r0 (upd ρ' m.piv 0)) := by rw [e1, upd_upd]
      have e2 : D r (σ0 r) = D r0 (upd ρ' m.piv 0) := by
        have hrp : r m.piv = (σ0 r) m.piv := by rw [hσ0p]
        rw [hD r (σ0 r) hrp]
        have a1 : upd r m.piv 0 = r0 := by
          show upd (upd r0 m.piv _) m.piv 0 = r0
          rw [upd_upd]; conv_rhs => rw [← upd_self r0 m.piv, hr0p]
        have a2 : upd (σ0 r) m.piv 0 = upd ρ' m.piv 0 := by rw [e1', upd_upd]
        rw [a1, a2]
      rw [e2, e1', upd_same, upd_upd]
      have : ρ' m.piv - D r0 (upd ρ' m.piv 0) + D r0 (upd ρ' m.piv 0) = ρ' m.piv := by abel
      rw [this, upd_self]
    · -- alignment
      intro ρ m' hm'
      simp only [List.mem_cons] at hm'
      rcases hm' with rfl | hm'
      · show m'.f x ρ = m'.f x' (upd (σ0 ρ) m'.piv (σ0 ρ m'.piv + D ρ (σ0 ρ)))
        rw [hs x' (σ0 ρ)]
        have : σ0 ρ m'.piv + D ρ (σ0 ρ) - σ0 ρ m'.piv = D ρ (σ0 ρ) := by abel
        rw [this]
        show m'.f x ρ = m'.f x' (σ0 ρ) + sg m'.neg (sg m'.neg (m'.f x ρ - m'.f x' (σ0 ρ)))
        rw [sg_sg]; abel
      · show m'.f x ρ = m'.f x' (upd (σ0 ρ) m.piv _)
        rw [(hind m' hm').1 x' (σ0 ρ), S.align ρ m' hm']
    · -- σ fixes non-pivots
      intro ρ v hv
      have hvp : v ≠ m.piv := hv m (by simp)
      show upd (σ0 ρ) m.piv _ v = ρ v
      rw [upd_other _ _ hvp]
      exact S.fixσ ρ v (fun m' hm' => hv m' (by simp [hm']))
    · -- τ fixes non-pivots
      intro ρ' v hv
      have hvp : v ≠ m.piv := hv m (by simp)
      show upd (τ0 (upd ρ' m.piv 0)) m.piv _ v = ρ' v
      rw [upd_other _ _ hvp, S.fixτ _ v (fun m' hm' => hv m' (by simp [hm'])), upd_other _ _ hvp]
    · -- σ commutes with independent coordinates
      intro u hu ρ a
      have hup : u ≠ m.piv := (hu m (by simp)).1
      have hum : IndepOf m u := (hu m (by simp)).2
      have hu0 : ∀ m' ∈ rest, u ≠ m'.piv ∧ IndepOf m' u := fun m' hm' => hu m' (by simp [hm'])
      show upd (σ0 (upd ρ u a)) m.piv (σ0 (upd ρ u a) m.piv + D (upd ρ u a) (σ0 (upd ρ u a)))
        = upd (upd (σ0 ρ) m.piv (σ0 ρ m.piv + D ρ (σ0 ρ))) u a
      rw [S.commσ u hu0 ρ a]
      have d : D (upd ρ u a) (upd (σ0 ρ) u a) = D ρ (σ0 ρ) := by
        show sg m.neg (m.f x (upd ρ u a) - m.f x' (upd (σ0 ρ) u a)) = sg m.neg (m.f x ρ - m.f x' (σ0 ρ))
        rw [hum x ρ a, hum x' (σ0 ρ) a]
      rw [d, upd_other _ _ (Ne.symm hup), upd_comm _ _ _ hup]
    · -- τ commutes with independent coordinates
      intro u hu ρ' a
      have hup : u ≠ m.piv := (hu m (by simp)).1
      have hum : IndepOf m u := (hu m (by simp)).2
      have hu0 : ∀ m' ∈ rest, u ≠ m'.piv ∧ IndepOf m' u := fun m' hm' => hu m' (by simp [hm'])
      show upd (τ0 (upd (upd ρ' u a) m.piv 0)) m.piv
          ((upd ρ' u a) m.piv - D (τ0 (upd (upd ρ' u a) m.piv 0)) (upd (upd ρ' u a) m.piv 0))
        = upd (upd (τ0 (upd ρ' m.piv 0)) m.piv (ρ' m.piv - D (τ0 (upd ρ' m.piv 0)) (upd ρ' m.piv 0))) u a
      rw [upd_comm ρ' a 0 hup, S.commτ u hu0, upd_other _ _ (Ne.symm hup)]
      have d : D (upd (τ0 (upd ρ' m.piv 0)) u a) (upd (upd ρ' m.piv 0) u a)
          = D (τ0 (upd ρ' m.piv 0)) (upd ρ' m.piv 0) := by
        show sg m.neg (m.f x (upd _ u a) - m.f x' (upd _ u a)) = sg m.neg (m.f x _ - m.f x' _)
        rw [hum x _ a, hum x' _ a]
      rw [d, upd_comm _ _ _ hup]

end CCV.Pivot
