import CCV.Model.Optimizer
import CCV.Model.EvalOps
/-
  The evaluator instance of the operation semantics the optimiser theorems (C06) are parametric in.

  Value domain `VE = Option (Ty × EV)`: a typed value of the evaluator model (`CCV.EvalOps.EV` with
  its full type, as `SimpleEvaluator` sees `node.get_type()` of every dependency), or `none` = the
  evaluation failed (type error, run-time error, panic).  `semE T op args` evaluates one node of the
  optimiser IR: it translates the IR operation into `CCV.TI.Op` (table `T` for everything the IR
  interns), and calls `liftE` = `evalOp` made total and strict:

    * a failed argument makes the result fail,
    * every argument must pass `Value::check_type` against its type (`hasTypeB`; the values
      `SimpleEvaluator` produces always do — C09 `eval_hasType`),
    * the result type is `TI.infer op tys` (= `node.get_type()`), the value `evalOp op tys vals`.

  Only definitions here (no Mathlib); the laws are proved in `OptimizerEvalA/B/C.lean` and assembled
  in `OptimizerEval.lean` (`evLaws`).
-/
namespace CCV.OptEval
open CCV CCV.TV CCV.TI CCV.EvalOps

/-- typed value or failure -/
abbrev VE := Option (TV.Ty × EV)

mutual
/-- `Value::check_type` on residues, executable (`hasTypeB t v = true ↔ hasType t v`) -/
def hasTypeB : TV.Ty → EV → Bool
  | .scalar st, .arr xs => xs.length == 1 && xs.all (fun x => decide (x < 2 ^ st.bits))
  | .array s st, .arr xs => xs.length == Shape.prod s && xs.all (fun x => decide (x < 2 ^ st.bits))
  | .vector n t, .vec vs => vs.length == n && hasTypeBAll t vs
  | .tuple ts, .vec vs => hasTypeBL ts vs
  | .named fs, .vec vs => hasTypeBN fs vs
  | _, _ => false
def hasTypeBAll : TV.Ty → List EV → Bool
  | _, [] => true
  | t, v :: vs => hasTypeB t v && hasTypeBAll t vs
def hasTypeBL : List TV.Ty → List EV → Bool
  | [], [] => true
  | t :: ts, v :: vs => hasTypeB t v && hasTypeBL ts vs
  | _, _ => false
def hasTypeBN : List (String × TV.Ty) → List EV → Bool
  | [], [] => true
  | (_, t) :: fs, v :: vs => hasTypeB t v && hasTypeBN fs vs
  | _, _ => false
end

/-- all arguments evaluated -/
def allSome {α : Type} : List (Option α) → Option (List α)
  | [] => some []
  | none :: _ => none
  | some a :: r =>
    match allSome r with
    | some l => some (a :: l)
    | none => none

/-- `evaluate_node` on typed values, total and strict (see the header) -/
def liftE (op : TI.Op) (vs : List VE) : VE :=
  match allSome vs with
  | none => none
  | some ws =>
    if ws.all (fun w => hasTypeB w.1 w.2) = true then
      match TI.infer op (ws.map (·.1)), evalOp op (ws.map (·.1)) (ws.map (·.2)) with
      | .ok t, .ok v => some (t, v)
      | _, _ => none
    else none

/-- what the harness interns: field names, types, scalar types, non-UINT64 constants, and every
    operation the passes do not inspect -/
structure Tab where
  nm : Nat → String
  ty : Nat → TV.Ty
  st : Nat → ST
  stc : ST → Nat
  cst : Nat → VE
  op : Nat → TI.Op

/-- semantics of one optimiser-IR operation (Input / randomising nodes get their value from `inp` /
    the randomness oracle in `Optimizer.eval`, their entries here are never used) -/
def semE (T : Tab) : Optimizer.Op → List VE → VE
  | .input _, _ => none
  | .constant _ (some c), _ => if c < 2 ^ 64 then some (.scalar .u64, .arr [c]) else none
  | .constant vid none, _ => T.cst vid
  | .random tag, vs => liftE (T.op tag) vs
  | .prf tag, vs => liftE (T.op tag) vs
  | .nop, vs => liftE .nop vs
  | .createTuple, vs => liftE .createTuple vs
  | .createNamedTuple names, vs => liftE (.createNamedTuple (names.map T.nm)) vs
  | .createVector tag, vs => liftE (.createVector (T.ty tag)) vs
  | .tupleGet j, vs => liftE (.tupleGet j) vs
  | .namedTupleGet n, vs => liftE (.namedTupleGet (T.nm n)) vs
  | .vectorGet, vs => liftE .vectorGet vs
  | .zip, vs => liftE .zip vs
  | .arrayToVector, vs => liftE .arrayToVector vs
  | .get i, vs => liftE (.get [i]) vs
  | .getSlice i, vs => liftE (.getSlice [.single (Int.ofNat i), .ellipsis]) vs
  | .a2b, vs => liftE .a2b vs
  | .b2a st, vs => liftE (.b2a (T.st st)) vs
  | .other tag _, vs => liftE (T.op tag) vs

/-- the type summary the harness records in `Node.ty` -/
def sumTy (T : Tab) : TV.Ty → Optimizer.Ty
  | .scalar st => .arr 0 (T.stc st)
  | .array s st => .arr s.length (T.stc st)
  | .vector _ e => .vec (sumTy T e)
  | _ => .other

def tyvE (T : Tab) : VE → Optimizer.Ty
  | some (t, _) => sumTy T t
  | none => .other

/-- the evaluation succeeded -/
def okE (v : VE) : Prop := v.isSome = true

end CCV.OptEval
